(* C01 - chunked streaming equals whole-signal computation, for every chunking.
   STFT computer: model coq/Stft/Model.v (polymorphic in the sample type; what is
   compared is the list of frames handed to the pure per-frame routine).
   Short-integration computer: model and theorems in coq/C03 (re-exported below). *)
From Coq Require Import ZArith List Bool.
From Verif Require Import lib.ZList Stft.Model Stft.History.
Import ListNotations.
Open Scope Z_scope.

(* for every configuration with 0 < shift <= length, every stale buffer content,
   and EVERY list of chunks (any lengths, empty chunks included):
   compute_chunk over the chunks then finalize = compute_full of the concatenation *)
Theorem stft_stream_eq_full :
  forall (A : Type) (c : cfg), 0 < S c -> S c <= L c ->
  forall (stale : list A) (chunks : list (list A)),
  len stale = L c ->
  snd (stream c (init c stale) chunks) = full_frames c (concat chunks).
Proof. exact @stream_eq_full_l. Qed.
Print Assumptions stft_stream_eq_full.

(* features are bit-identical: both paths apply the same per-frame function f *)
Theorem stft_features_bit_identical :
  forall (A : Type) (c : cfg), 0 < S c -> S c <= L c ->
  forall (B : Type) (f : list A -> B) (stale : list A) (chunks : list (list A)),
  len stale = L c ->
  map f (snd (stream c (init c stale) chunks)) = map f (full_frames c (concat chunks)).
Proof. exact @features_bit_identical_l. Qed.
Print Assumptions stft_features_bit_identical.

(* any two chunkings of the same signal give the same frames *)
Theorem stft_chunk_invariance :
  forall (A : Type) (c : cfg), 0 < S c -> S c <= L c ->
  forall (stale : list A) (c1 c2 : list (list A)),
  len stale = L c -> concat c1 = concat c2 ->
  snd (stream c (init c stale) c1) = snd (stream c (init c stale) c2).
Proof. exact @chunk_invariance_l. Qed.
Print Assumptions stft_chunk_invariance.

(* frame_by_frame_calculation returns compute_full's frames for every chunk_size > 0 *)
Theorem stft_fbf_eq_full :
  forall (A : Type) (c : cfg), 0 < S c -> S c <= L c ->
  forall (stale x : list A) (k : Z),
  len stale = L c -> 0 < k -> snd (fbf c (init c stale) x k) = Some (full_frames c x).
Proof. exact @fbf_eq_full_l. Qed.
Print Assumptions stft_fbf_eq_full.
