(* C01 - chunked streaming equals whole-signal computation, for every chunking.
   STFT computer: model coq/Stft/Model.v (polymorphic in the sample type; what is
   compared is the list of frames handed to the pure per-frame routine).
   Short-integration computer: model and theorems in coq/C03 (re-exported below). *)
From Coq Require Import ZArith List Bool.
From Verif Require Import lib.ZList Stft.Model Stft.History.
Import ListNotations.
Open Scope Z_scope.

(* for every configuration with 0 < shift <= length, every stale buffer content,
   and EVERY list of chunks (any lengths, empty chunks included):
   compute_chunk over the chunks then finalize = compute_full of the concatenation *)
Theorem stft_stream_eq_full :
  forall (A : Type) (c : cfg), 0 < S c -> S c <= L c ->
  forall (stale : list A) (chunks : list (list A)),
  len stale = L c ->
  snd (stream c (init c stale) chunks) = full_frames c (concat chunks).
Proof. exact @stream_eq_full_l. Qed.
Print Assumptions stft_stream_eq_full.

(* features are bit-identical: both paths apply the same per-frame function f *)
Theorem stft_features_bit_identical :
  forall (A : Type) (c : cfg), 0 < S c -> S c <= L c ->
  forall (B : Type) (f : list A -> B) (stale : list A) (chunks : list (list A)),
  len stale = L c ->
  map f (snd (stream c (init c stale) chunks)) = map f (full_frames c (concat chunks)).
Proof. exact @features_bit_identical_l. Qed.
Print Assumptions stft_features_bit_identical.

(* any two chunkings of the same signal give the same frames *)
Theorem stft_chunk_invariance :
  forall (A : Type) (c : cfg), 0 < S c -> S c <= L c ->
  forall (stale : list A) (c1 c2 : list (list A)),
  len stale = L c -> concat c1 = concat c2 ->
  snd (stream c (init c stale) c1) = snd (stream c (init c stale) c2).
Proof. exact @chunk_invariance_l. Qed.
Print Assumptions stft_chunk_invariance.

(* frame_by_frame_calculation returns compute_full's frames for every chunk_size > 0 *)
Theorem stft_fbf_eq_full :
  forall (A : Type) (c : cfg), 0 < S c -> S c <= L c ->
  forall (stale x : list A) (k : Z),
  len stale = L c -> 0 < k -> snd (fbf c (init c stale) x k) = Some (full_frames c x).
Proof. exact @fbf_eq_full_l. Qed.
Print Assumptions stft_fbf_eq_full.

(* ======================= tie to the source ======================= *)
(* the model's compute_chunk / finalize / compute_full are, expression by expression, what
   gen/stft.py extracts from compute.py on this run (coq/gen/StftK.v) *)
From Verif Require Import Stft.Tie.
Theorem stft_model_is_source_compute_chunk :
  forall (A : Type) (c : cfg) (s : st A) (chunk : list A), compute_chunk_src c s chunk = compute_chunk c s chunk.
Proof. exact @compute_chunk_tie. Qed.
Print Assumptions stft_model_is_source_compute_chunk.
Theorem stft_model_is_source_finalize :
  forall (A : Type) (c : cfg) (s : st A), finalize_src c s = finalize c s.
Proof. exact @finalize_tie. Qed.
Print Assumptions stft_model_is_source_finalize.
Theorem stft_model_is_source_compute_full :
  forall (A : Type) (c : cfg) (x : list A), full_frames_src c x = full_frames c x.
Proof. exact @full_frames_tie. Qed.
Print Assumptions stft_model_is_source_compute_full.

(* ======================= short-integration computer ======================= *)
(* model coq/C03/Model.v (statement-by-statement, incl. the overlap-save ring buffer);
   proofs in coq/C03.  K is any number type with an associative + with unit. *)
Require Verif.C03.Model Verif.C03.Props.
Module SI := Verif.C03.Model.

(* ANY non-empty list of chunks (empty and one-sample chunks included) then finalize
   gives the documented matrix of the concatenated signal, from any idle state, for
   every configuration satisfying the precondition [pre] (frame shift shorter than the
   longest filter's one-sided support) and every floating dtype *)
Theorem si_stream_eq_spec :
  forall (K : Type) (kzero : K) (kadd kmul : K -> K -> K) (phi post : K -> K),
  (forall a b c, kadd a (kadd b c) = kadd (kadd a b) c) ->
  (forall a, kadd kzero a = a) -> (forall a, kadd a kzero = a) ->
  forall (c : SI.cfg K) (st : SI.state K) (d : SI.dtype) (chunks : list (list K)),
  SI.pre K c -> SI.started K st = false -> SI.is_floating d = true -> chunks <> [] ->
  exists st', SI.si_stream K kzero kadd kmul phi post c st (map (fun ch => (d, ch)) chunks)
              = SI.Ok (st', d, SI.si_spec K kzero kadd kmul phi post c (concat chunks))
              /\ SI.started K st' = false.
Proof. exact Verif.C03.Props.si_stream_eq_spec. Qed.
Print Assumptions si_stream_eq_spec.

(* which is what compute_full returns *)
Theorem si_full_eq_spec :
  forall (K : Type) (kzero : K) (kadd kmul : K -> K -> K) (phi post : K -> K),
  (forall a b c, kadd a (kadd b c) = kadd (kadd a b) c) ->
  (forall a, kadd kzero a = a) -> (forall a, kadd a kzero = a) ->
  forall (c : SI.cfg K) (st : SI.state K) (d : SI.dtype) (xs : list K),
  SI.pre K c -> SI.started K st = false -> SI.is_floating d = true ->
  exists st', SI.compute_full K kzero kadd kmul phi post c st (d, xs)
              = SI.Ok (st', d, SI.si_spec K kzero kadd kmul phi post c xs)
              /\ SI.started K st' = false.
Proof. exact Verif.C03.Props.si_full_eq_spec. Qed.
Print Assumptions si_full_eq_spec.

Theorem si_chunk_invariance :
  forall (K : Type) (kzero : K) (kadd kmul : K -> K -> K) (phi post : K -> K),
  (forall a b c, kadd a (kadd b c) = kadd (kadd a b) c) ->
  (forall a, kadd kzero a = a) -> (forall a, kadd a kzero = a) ->
  forall (c : SI.cfg K) (st : SI.state K) (d : SI.dtype) (c1 c2 : list (list K)),
  SI.pre K c -> SI.started K st = false -> SI.is_floating d = true -> c1 <> [] -> c2 <> [] ->
  concat c1 = concat c2 ->
  exists st1 st2 rows,
    SI.si_stream K kzero kadd kmul phi post c st (map (fun ch => (d, ch)) c1) = SI.Ok (st1, d, rows) /\
    SI.si_stream K kzero kadd kmul phi post c st (map (fun ch => (d, ch)) c2) = SI.Ok (st2, d, rows).
Proof. exact Verif.C03.Props.si_chunk_invariance. Qed.
Print Assumptions si_chunk_invariance.

Theorem si_fbf_eq_full :
  forall (K : Type) (kzero : K) (kadd kmul : K -> K -> K) (phi post : K -> K),
  (forall a b c, kadd a (kadd b c) = kadd (kadd a b) c) ->
  (forall a, kadd kzero a = a) -> (forall a, kadd a kzero = a) ->
  forall (c : SI.cfg K) (st : SI.state K) (d : SI.dtype) (xs : list K) (chunk_size : Z),
  SI.pre K c -> SI.started K st = false -> SI.is_floating d = true -> 1 <= chunk_size -> xs <> [] ->
  exists st1 st2 rows,
    SI.fbf K kzero kadd kmul phi post c st (d, xs) chunk_size = SI.Ok (st1, d, rows) /\
    SI.compute_full K kzero kadd kmul phi post c st (d, xs) = SI.Ok (st2, d, rows) /\
    rows = SI.si_spec K kzero kadd kmul phi post c xs.
Proof. exact Verif.C03.Props.si_fbf_eq_full. Qed.
Print Assumptions si_fbf_eq_full.
