(* C02 - STFT coefficients equal their documented definition.
   Framing: coq/Stft/Model.v (full_frames = compute_full's frames), Stft/Frames.v.
   Filtering: coq/Stft/Walk.v (segment walk of _compute_frame / the torch port) and
   Stft/Spectrum.v (sum over the full spectrum; the DFT is abstracted to a
   Hermitian-symmetric function on bins). *)
From Coq Require Import ZArith List Bool Reals.
From Verif Require Import lib.ZList Stft.Model Stft.Frames Stft.Walk Stft.Spectrum Stft.DefaultLen.
Import ListNotations.
Open Scope Z_scope.

(* number of frames: (N + S/2)/S for N >= L/2+1, none for shorter signals *)
Theorem full_frames_count :
  forall (A : Type) (c : cfg), 0 < S c -> S c <= L c -> forall x : list A,
  L c / 2 + 1 <= len x -> len (full_frames c x) = (len x + S c / 2) / S c.
Proof. exact @full_frames_count_l. Qed.
Print Assumptions full_frames_count.

Theorem full_frames_short :
  forall (A : Type) (c : cfg), 0 < S c -> forall x : list A,
  len x < L c / 2 + 1 -> full_frames c x = [].
Proof. exact @full_frames_short_l. Qed.
Print Assumptions full_frames_short.

(* every frame handed to the per-frame routine has exactly frame_length samples *)
Theorem full_frames_length :
  forall (A : Type) (c : cfg), 0 < S c -> S c <= L c -> forall x : list A,
  Forall (fun f => len f = L c) (full_frames c x).
Proof. exact @full_frames_length_l. Qed.
Print Assumptions full_frames_length.

(* frame k is a window of the symmetrically padded signal ... *)
Theorem full_frames_are_windows :
  forall (A : Type) (c : cfg), 0 < S c -> S c <= L c -> forall x : list A,
  L c / 2 + 1 <= len x ->
  full_frames c x =
  map (fun k => slice (sympad x (pad_left c) (pad_right c (len x))) (k * S c) (k * S c + L c))
      (range 0 (nframes c (len x))).
Proof. exact @full_frames_unfold. Qed.
Print Assumptions full_frames_are_windows.

(* ... whose element i is x[sym N (i - pad_left)]: symmetric reflection beyond both ends,
   repeated as often as needed *)
Theorem padded_signal_is_symmetric_extension :
  forall (A : Type) (d : A) (x : list A) (pl pr i : Z),
  0 < len x -> 0 <= pl -> 0 <= pr -> 0 <= i < pl + len x + pr ->
  znth d (sympad x pl pr) i = znth d x (sym (len x) (i - pl)).
Proof. exact @znth_sympad_l. Qed.
Print Assumptions padded_signal_is_symmetric_extension.

(* ... and frames that need no padding are the documented slices of the signal *)
Theorem full_frame_interior :
  forall (A : Type) (c : cfg), 0 < S c -> S c <= L c -> forall (x : list A) (k : Z),
  L c / 2 + 1 <= len x -> 0 <= k < nframes c (len x) ->
  pad_left c <= k * S c -> k * S c - pad_left c + L c <= len x ->
  slice (sympad x (pad_left c) (pad_right c (len x))) (k * S c) (k * S c + L c) =
  slice x (k * S c - pad_left c) (k * S c - pad_left c + L c).
Proof. exact @full_frame_interior_l. Qed.
Print Assumptions full_frame_interior.

Theorem documented_ranges :
  forall (c : cfg) (k : Z),
  (centered c = false ->
     k * S c - pad_left c = k * S c /\ k * S c - pad_left c + L c = k * S c + L c) /\
  (centered c = true -> kaldi c = false ->
     k * S c - pad_left c = k * S c - (L c + 1) / 2 + 1 /\
     k * S c - pad_left c + L c = k * S c + L c / 2 + 1) /\
  (centered c = true -> kaldi c = true ->
     k * S c - pad_left c = k * S c - L c / 2 + S c / 2 /\
     k * S c - pad_left c + L c = k * S c + (L c + 1) / 2 + S c / 2).
Proof. exact documented_ranges_l. Qed.
Print Assumptions documented_ranges.

(* the segment walk: tap j of a truncated filter starting at bin `start` meets
   full-spectrum bin (start + j) mod D, for every DFT size, start and length; the walk
   never runs out of fuel and only reads valid half-spectrum entries *)
Theorem walk_correct :
  forall D start len : Z, 0 < D -> 0 <= start -> 0 <= len ->
  exists l, walk D start len = Some l /\
    map (fullbin D) l = map (fun j => (start + j) mod D) (range 0 len) /\
    Forall (in_half D) l.
Proof. exact walk_correct_l. Qed.
Print Assumptions walk_correct.

(* complex / analytic banks: what _compute_frame accumulates for a filter equals the sum
   over the FULL spectrum of phi(X[k] * H[k]), H rebuilt by the documented recipe *)
Theorem stft_coeff_full_spectrum :
  forall (C M : Type) (czero : C) (cconj : C -> C) (mzero : M) (mplus : M -> M -> M)
         (phi : C -> C -> M),
  (forall a b, mplus a b = mplus b a) ->
  (forall a b c, mplus a (mplus b c) = mplus (mplus a b) c) ->
  (forall a, mplus mzero a = a) ->
  (forall x, phi x czero = mzero) ->
  forall (D : Z) (X : Z -> C), 0 < D ->
  (forall h, 1 <= h < D / 2 + 1 -> X (D - h) = cconj (X h)) ->
  forall (start len : Z) (t : Z -> C), 0 <= start < D -> 0 <= len <= D ->
  code_coeff C M cconj mzero mplus phi D X start len t =
  Some (msum M mzero mplus (fun k => phi (X k) (rebuild C czero D start len t k)) (range 0 D)).
Proof. exact coeff_full_spectrum_l. Qed.
Print Assumptions stft_coeff_full_spectrum.

Theorem stft_real_code_coeff :
  forall (C M : Type) (czero : C) (cconj : C -> C) (mzero : M) (mplus : M -> M -> M)
         (phi : C -> C -> M),
  (forall a b, mplus a b = mplus b a) ->
  (forall a b c, mplus a (mplus b c) = mplus (mplus a b) c) ->
  (forall a, mplus mzero a = a) ->
  (forall x, phi x czero = mzero) ->
  forall (D : Z) (X : Z -> C), 0 < D ->
  (forall h, 1 <= h < D / 2 + 1 -> X (D - h) = cconj (X h)) ->
  forall (start len : Z) (t : Z -> C), 0 <= start -> 0 <= len -> start + len <= D / 2 + 1 ->
  code_coeff C M cconj mzero mplus phi D X start len t =
  Some (msum M mzero mplus (fun j => phi (X (start + j)) (t j)) (range 0 len)).
Proof. exact real_code_coeff_l. Qed.
Print Assumptions stft_real_code_coeff.

(* real banks: only the half spectrum 0..D/2 is walked (start + len <= D/2 + 1) and the
   value is doubled; this equals the sum over the full spectrum of the Hermitian
   response rebuilt by the documented recipe, provided the DC and Nyquist taps
   contribute nothing (as for triangular / Fbank filters, which vanish there) *)
Theorem stft_real_coeff_is_twice_half :
  forall (C M : Type) (czero : C) (cconj : C -> C) (mzero : M) (mplus : M -> M -> M)
         (phi : C -> C -> M),
  (forall a b, mplus a b = mplus b a) ->
  (forall a b c, mplus a (mplus b c) = mplus (mplus a b) c) ->
  (forall a, mplus mzero a = a) ->
  (forall x, phi x czero = mzero) ->
  forall (D : Z) (X : Z -> C), 0 < D ->
  (forall h, 1 <= h < D / 2 + 1 -> X (D - h) = cconj (X h)) ->
  (forall x t, phi (cconj x) (cconj t) = phi x t) ->
  forall (start len : Z) (t : Z -> C),
  0 <= start -> 0 <= len -> start + len <= D / 2 + 1 ->
  (start = 0 -> 0 < len -> forall x, phi x (t 0) = mzero) ->
  (D mod 2 = 0 -> start <= D / 2 < start + len -> forall x, phi x (t (D / 2 - start)) = mzero) ->
  let S := msum M mzero mplus (fun j => phi (X (start + j)) (t j)) (range 0 len) in
  mplus S S =
  msum M mzero mplus (fun k => phi (X k) (rebuild_real C czero cconj D start len t k)) (range 0 D).
Proof. exact real_coeff_is_twice_half_l. Qed.
Print Assumptions stft_real_coeff_is_twice_half.

(* ---- the Hermitian symmetry assumed above is a theorem about the DFT of a real frame ----
   C: any structure with an additive, multiplicative conjugation fixing the (real) samples; tw m = w^m has
   period D and conj (tw m) = tw (-m); dft k = sum_{n<L} x n * tw (k n) (zero padding beyond L).  Then
   dft (D - k) = conj (dft k) for every k, and the two theorems above hold of the DFT with no symmetry
   hypothesis left (what remains trusted: np.fft.rfft computes this sum) *)
From Verif Require Import Stft.Dft.
Theorem dft_hermitian :
  forall (C : Type) (czero : C) (cadd cmul : C -> C -> C) (cconj : C -> C),
  (forall a b, cconj (cadd a b) = cadd (cconj a) (cconj b)) ->
  (forall a b, cconj (cmul a b) = cmul (cconj a) (cconj b)) ->
  cconj czero = czero ->
  forall (D : Z) (tw : Z -> C),
  (forall m, tw (m + D) = tw m) -> (forall m, cconj (tw m) = tw (- m)) ->
  forall (L : Z) (x : Z -> C), (forall n, cconj (x n) = x n) ->
  forall k : Z, dft C czero cadd cmul tw L x (D - k) = cconj (dft C czero cadd cmul tw L x k).
Proof. exact dft_hermitian_l. Qed.
Print Assumptions dft_hermitian.
Theorem stft_coeff_full_spectrum_of_dft :
  forall (C : Type) (czero : C) (cadd cmul : C -> C -> C) (cconj : C -> C),
  (forall a b, cconj (cadd a b) = cadd (cconj a) (cconj b)) ->
  (forall a b, cconj (cmul a b) = cmul (cconj a) (cconj b)) ->
  cconj czero = czero ->
  forall D : Z, 0 < D ->
  forall tw : Z -> C, (forall m, tw (m + D) = tw m) -> (forall m, cconj (tw m) = tw (- m)) ->
  forall (L : Z) (x : Z -> C), (forall n, cconj (x n) = x n) ->
  forall (M : Type) (mzero : M) (mplus : M -> M -> M) (phi : C -> C -> M),
  (forall a b, mplus a b = mplus b a) -> (forall a b c, mplus a (mplus b c) = mplus (mplus a b) c) ->
  (forall a, mplus mzero a = a) -> (forall v, phi v czero = mzero) ->
  forall (start len : Z) (t : Z -> C), 0 <= start < D -> 0 <= len <= D ->
  code_coeff C M cconj mzero mplus phi D (dft C czero cadd cmul tw L x) start len t =
  Some (msum M mzero mplus (fun k => phi (dft C czero cadd cmul tw L x k) (rebuild C czero D start len t k)) (range 0 D)).
Proof. exact dft_coeff_full_spectrum_l. Qed.
Print Assumptions stft_coeff_full_spectrum_of_dft.
Theorem stft_real_coeff_is_twice_half_of_dft :
  forall (C : Type) (czero : C) (cadd cmul : C -> C -> C) (cconj : C -> C),
  (forall a b, cconj (cadd a b) = cadd (cconj a) (cconj b)) ->
  (forall a b, cconj (cmul a b) = cmul (cconj a) (cconj b)) ->
  cconj czero = czero ->
  forall D : Z, 0 < D ->
  forall tw : Z -> C, (forall m, tw (m + D) = tw m) -> (forall m, cconj (tw m) = tw (- m)) ->
  forall (L : Z) (x : Z -> C), (forall n, cconj (x n) = x n) ->
  forall (M : Type) (mzero : M) (mplus : M -> M -> M) (phi : C -> C -> M),
  (forall a b, mplus a b = mplus b a) -> (forall a b c, mplus a (mplus b c) = mplus (mplus a b) c) ->
  (forall a, mplus mzero a = a) -> (forall v, phi v czero = mzero) ->
  (forall v t, phi (cconj v) (cconj t) = phi v t) ->
  forall (start len : Z) (t : Z -> C),
  0 <= start -> 0 <= len -> start + len <= D / 2 + 1 ->
  (start = 0 -> 0 < len -> forall v, phi v (t 0) = mzero) ->
  (D mod 2 = 0 -> start <= D / 2 < start + len -> forall v, phi v (t (D / 2 - start)) = mzero) ->
  let S := msum M mzero mplus (fun j => phi (dft C czero cadd cmul tw L x (start + j)) (t j)) (range 0 len) in
  mplus S S =
  msum M mzero mplus (fun k => phi (dft C czero cadd cmul tw L x k) (rebuild_real C czero cconj D start len t k)) (range 0 D).
Proof. exact dft_real_coeff_is_twice_half_l. Qed.
Print Assumptions stft_real_coeff_is_twice_half_of_dft.

(* with the default frame length every filter keeps a DFT bin strictly inside its support *)
Theorem default_length_keeps_a_bin :
  forall rate Dr Lr lo hi bw : R,
  (0 < rate -> 0 < Lr -> Lr <= Dr -> 0 < bw -> 2 * rate / bw <= Lr -> bw <= hi - lo ->
   exists k : Z, lo < IZR k * rate / Dr < hi)%R.
Proof. exact bin_inside_support_l. Qed.
Print Assumptions default_length_keeps_a_bin.

(* ---- tie to the source: compute_full's bookkeeping and one step of the walk are the
   expressions gen/stft.py extracts from compute.py / torch.py on this run ---- *)
From Verif Require Import Stft.Tie gen.StftK.
Theorem stft_model_is_source_compute_full :
  forall (A : Type) (c : cfg) (x : list A), full_frames_src c x = full_frames c x.
Proof. exact @full_frames_tie. Qed.
Print Assumptions stft_model_is_source_compute_full.
Theorem walk_model_is_source_mirrored_step :
  forall D ln start consumed : Z,
  let half := D / 2 + 1 in
  g_frame_seg_len_1 (g_frame_seg_len_0 start ln consumed half D)
    = Z.max 0 (Z.min (start + ln - consumed) (half - 2 + D mod 2) - start) /\
  g_frame_start_idx_2 (g_frame_start_idx_0 start half D) = Z.max 0 (start - (half - 2 + D mod 2)) /\
  g_torch_seg_len_0 start ln consumed half (g_torch_mod_0 D)
    = Z.max 0 (Z.min (start + ln - consumed) (half - 2 + D mod 2) - start) /\
  g_torch_si_2 (g_torch_si_0 start half (g_torch_mod_0 D)) = Z.max 0 (start - (half - 2 + D mod 2)) /\
  g_torch_hi_0 half (g_torch_mod_0 D) start - 1 = half - 2 + D mod 2 - start.
Proof. exact walk_conj_step_tie. Qed.
Print Assumptions walk_model_is_source_mirrored_step.
Theorem walk_model_is_source_direct_step :
  forall D ln start consumed : Z,
  let half := D / 2 + 1 in
  g_frame_seg_len_4 (g_frame_seg_len_3 (g_frame_seg_len_2 start ln consumed half) start)
    = Z.max 0 (Z.min (start + ln - consumed) half - start) /\
  g_frame_start_idx_2 (g_frame_start_idx_1 start half) = Z.max 0 (start - half) /\
  g_torch_seg_len_1 start ln consumed half = Z.max 0 (Z.min (start + ln - consumed) half - start) /\
  g_torch_si_2 (g_torch_si_1 start half) = Z.max 0 (start - half) /\
  g_frame_consumed_1 consumed 3 = consumed + 3 /\ g_torch_consumed_0 consumed 3 = consumed + 3 /\
  g_frame_test_0 consumed ln = (consumed <? ln) /\ g_torch_test_4 consumed ln = (consumed <? ln).
Proof. exact walk_direct_step_tie. Qed.
Print Assumptions walk_model_is_source_direct_step.

(* the optional energy coefficient (mean square of the unwindowed frame; square root unless
   use_power) and the log floor *)
From Verif Require Import Stft.Energy.
Theorem energy_coefficient_spec :
  forall (xs : list R) (Lr floor : R),
  np_energy xs Lr floor true false = (sumsq xs / Lr)%R /\
  np_energy xs Lr floor false false = sqrt (sumsq xs / Lr) /\
  np_energy xs Lr floor true true = ln (Rmax (sumsq xs / Lr) floor) /\
  np_energy xs Lr floor false true = ln (Rmax (sqrt (sumsq xs / Lr)) floor).
Proof. exact np_energy_spec_l. Qed.
Print Assumptions energy_coefficient_spec.
Theorem log_floor_lower_bound :
  forall e floor : R, (0 < floor -> ln floor <= ln (Rmax e floor))%R.
Proof. exact log_floor_lower_bound_l. Qed.
Print Assumptions log_floor_lower_bound.

(* ---- tie to the source: energy block, per-filter post-processing and DFT size, symbolically
   executed from _compute_frame / __init__ by gen/stft_scalar.py (coq/gen/StftR.v) ---- *)
From Verif Require Import Stft.ScalarTie gen.StftR.
Theorem energy_model_is_source :
  forall (xs : list R) (Lr floor : R) (use_power use_log : bool),
  g_frame_energy (sumsq xs) Lr floor use_power use_log = np_energy xs Lr floor use_power use_log.
Proof. exact frame_energy_tie_l. Qed.
Print Assumptions energy_model_is_source.
(* a quiet frame (root) mean square at or below the floor logs to exactly log(floor) *)
Theorem energy_floor_quiet :
  forall (xs : list R) (Lr floor : R) (use_power : bool),
  ((if use_power then sumsq xs / Lr else sqrt (sumsq xs / Lr)) <= floor)%R ->
  np_energy xs Lr floor use_power true = ln floor.
Proof. exact energy_floor_quiet_l. Qed.
Print Assumptions energy_floor_quiet.
(* what is stored for a filter: twice the walk's sum for real banks (the half spectrum carries
   half of the full-spectrum sum: stft_real_coeff_is_twice_half), log-floored when use_log *)
Theorem coeff_post_model_is_source :
  forall (val floor : R) (is_real use_log : bool),
  g_frame_post val floor is_real use_log = coeff_post val floor is_real use_log.
Proof. exact frame_post_tie_l. Qed.
Print Assumptions coeff_post_model_is_source.
Theorem coeff_post_floor :
  forall (val floor : R) (is_real : bool), (0 < floor)%R -> (ln floor <= coeff_post val floor is_real true)%R.
Proof. exact coeff_post_floor_l. Qed.
Print Assumptions coeff_post_floor.
(* DFT size: frame_length, or with pad_to_nearest_power_of_two the SMALLEST power of two >= frame_length *)
Theorem dft_size_model_is_source :
  forall (L : Z) (pad : bool), g_init_dft L pad = dft_size L pad /\ g_torch_dft L = dft_size L true.
Proof. exact dft_size_tie_l. Qed.
Print Assumptions dft_size_model_is_source.
Theorem dft_size_pad_spec :
  forall L : Z, (0 < L)%Z ->
  let D := dft_size L true in
  ((exists k, 0 <= k /\ D = 2 ^ k) /\ L <= D /\ (forall k, 0 <= k -> L <= 2 ^ k -> D <= 2 ^ k) /\ D < 2 * L)%Z.
Proof. exact dft_size_pad_spec_l. Qed.
Print Assumptions dft_size_pad_spec.
Theorem dft_size_pow2_fixed : forall k : Z, (0 <= k -> dft_size (2 ^ k) true = 2 ^ k)%Z.
Proof. exact dft_size_pow2_fixed_l. Qed.
Print Assumptions dft_size_pow2_fixed.
