(* C03 / C01-SI: the circular convolution theorem.

   The short-integration model replaces  IDFT(DFT(buf) . DFT(taps))  (np.fft in the
   implementation) by the circular convolution [cconv].  This file proves that replacement
   correct for the DFT / IDFT *sums* over any commutative ring in which the transform size
   is invertible and the twiddle factors tw m = w^m are multiplicative, D-periodic and
   orthogonal:

       idft (dft a . dft b) q  =  sum_{j < D} b j * a ((q - j) mod D)          (conv_theorem_l)

   What remains trusted of np.fft is that it computes these sums (and that complex
   exponentials are orthogonal), no longer the convolution theorem itself. *)
From Coq Require Import ZArith List Bool Lia Ring.
From Verif Require Import lib.C03_ListZ C03.Model.
Import ListNotations.
Open Scope Z_scope.

Section ConvThm.
Variable R : Type.
Variables (rO rI : R) (radd rmul rsub : R -> R -> R) (ropp : R -> R).
Variable Rth : ring_theory rO rI radd rmul rsub ropp (@eq R).
Add Ring Rring : Rth.

Notation "a + b" := (radd a b) : ring_scope.
Notation "a * b" := (rmul a b) : ring_scope.
Delimit Scope ring_scope with r.

Definition rsum (f : Z -> R) (n : Z) : R :=
  fold_right (fun k acc => radd (f k) acc) rO (zrange 0 n).

Fixpoint rsum_nat (f : Z -> R) (a : Z) (n : nat) : R :=
  match n with O => rO | S n' => radd (f a) (rsum_nat f (a + 1) n') end.

Lemma zrange_unfold a n : zrange a (Z.of_nat (S n)) = a :: zrange (a + 1) (Z.of_nat n).
Proof.
  unfold zrange. rewrite !Nat2Z.id. cbn [seq map].
  f_equal; [lia|]. rewrite <- seq_shift, map_map. apply map_ext. intros k. lia.
Qed.

Lemma rsum_as_nat f a (n : nat) :
  fold_right (fun k acc => radd (f k) acc) rO (zrange a (Z.of_nat n)) = rsum_nat f a n.
Proof.
  revert a. induction n as [|n IH]; intros a.
  - reflexivity.
  - rewrite zrange_unfold. cbn [fold_right rsum_nat]. rewrite IH. reflexivity.
Qed.

Lemma rsum_nat_ext f g a n : (forall k, a <= k < a + Z.of_nat n -> f k = g k) -> rsum_nat f a n = rsum_nat g a n.
Proof.
  revert a. induction n as [|n IH]; intros a H; cbn [rsum_nat]; [reflexivity|].
  rewrite H by lia. rewrite IH; [reflexivity|]. intros k Hk. apply H. lia.
Qed.

Lemma rsum_nat_zero a n : rsum_nat (fun _ => rO) a n = rO.
Proof. revert a. induction n as [|n IH]; intros a; cbn [rsum_nat]; [reflexivity|]. rewrite IH. ring. Qed.

Lemma rsum_nat_add f g a n : rsum_nat (fun k => radd (f k) (g k)) a n = radd (rsum_nat f a n) (rsum_nat g a n).
Proof. revert a. induction n as [|n IH]; intros a; cbn [rsum_nat]; [ring|]. rewrite IH. ring. Qed.

Lemma rsum_nat_scale c f a n : rsum_nat (fun k => rmul c (f k)) a n = rmul c (rsum_nat f a n).
Proof. revert a. induction n as [|n IH]; intros a; cbn [rsum_nat]; [ring|]. rewrite IH. ring. Qed.

(* finite Fubini *)
Lemma rsum_nat_swap (F : Z -> Z -> R) a n b m :
  rsum_nat (fun k => rsum_nat (fun j => F k j) b m) a n = rsum_nat (fun j => rsum_nat (fun k => F k j) a n) b m.
Proof.
  revert a. induction n as [|n IH]; intros a; cbn [rsum_nat].
  - symmetry. apply rsum_nat_zero.
  - rewrite IH. rewrite <- rsum_nat_add. reflexivity.
Qed.

(* a sum of an indicator picks its single element *)
Lemma rsum_nat_pick (v : Z -> R) a n p :
  a <= p < a + Z.of_nat n ->
  rsum_nat (fun k => if k =? p then v k else rO) a n = v p.
Proof.
  revert a. induction n as [|n IH]; intros a H; [lia|]. cbn [rsum_nat].
  destruct (a =? p) eqn:E.
  - apply Z.eqb_eq in E. subst a.
    rewrite (rsum_nat_ext _ (fun _ => rO)).
    + rewrite rsum_nat_zero. ring.
    + intros k Hk. destruct (k =? p) eqn:E2; [apply Z.eqb_eq in E2; lia | reflexivity].
  - apply Z.eqb_neq in E. rewrite IH by lia. ring.
Qed.

Lemma rsum_def f n : 0 <= n -> rsum f n = rsum_nat f 0 (Z.to_nat n).
Proof. intros H. unfold rsum. rewrite <- (Z2Nat.id n H) at 1. apply rsum_as_nat. Qed.

(* ---- twiddles ---- *)
Variable D : Z.
Hypothesis HD : 0 < D.
Variable tw : Z -> R.
Hypothesis tw_add : forall a b, tw (a + b) = rmul (tw a) (tw b).
Variable invD : R.
(* orthogonality of the D-th roots of unity, normalised: (1/D) sum_k w^(k m) = [m = 0 mod D] *)
Hypothesis tw_orth : forall m, rmul invD (rsum (fun k => tw (k * m)) D) = if m mod D =? 0 then rI else rO.

Definition dft (a : Z -> R) (k : Z) : R := rsum (fun n => rmul (a n) (tw (k * n))) D.
Definition idft (A : Z -> R) (q : Z) : R := rmul invD (rsum (fun k => rmul (A k) (tw (- (k * q)))) D).
Definition cconvR (a b : Z -> R) (q : Z) : R := rsum (fun j => rmul (b j) (a ((q - j) mod D))) D.

Let Dn := Z.to_nat D.

(* (sum_n A n) * c = sum_n (A n * c) *)
Lemma rsum_nat_scale_r c f a n : rsum_nat (fun k => rmul (f k) c) a n = rmul (rsum_nat f a n) c.
Proof. revert a. induction n as [|n IH]; intros a; cbn [rsum_nat]; [ring|]. rewrite IH. ring. Qed.

Lemma expand_product a b k q :
  rmul (rmul (dft a k) (dft b k)) (tw (- (k * q)))
  = rsum_nat (fun n => rsum_nat (fun j => rmul (rmul (a n) (b j)) (tw (k * (n + j - q)))) 0 Dn) 0 Dn.
Proof.
  unfold dft. rewrite !rsum_def by lia. fold Dn.
  set (B := rsum_nat (fun j => rmul (b j) (tw (k * j))) 0 Dn).
  transitivity (rsum_nat (fun n => rmul (rmul (a n) (tw (k * n))) (rmul B (tw (- (k * q))))) 0 Dn).
  { rewrite rsum_nat_scale_r. ring. }
  apply rsum_nat_ext. intros n _. unfold B.
  transitivity (rsum_nat (fun j => rmul (rmul (rmul (a n) (tw (k * n))) (tw (- (k * q)))) (rmul (b j) (tw (k * j)))) 0 Dn).
  { rewrite rsum_nat_scale. ring. }
  apply rsum_nat_ext. intros j _.
  replace (k * (n + j - q)) with (k * n + (k * j + - (k * q))) by lia.
  rewrite !tw_add. ring.
Qed.

Theorem conv_theorem_l (a b : Z -> R) q :
  idft (fun k => rmul (dft a k) (dft b k)) q = cconvR a b q.
Proof.
  unfold idft, cconvR. rewrite !rsum_def by lia. fold Dn.
  rewrite (rsum_nat_ext _ _ 0 Dn (fun k _ => expand_product a b k q)).
  (* bring the sum over k inside *)
  rewrite (rsum_nat_swap (fun k n => rsum_nat (fun j => rmul (rmul (a n) (b j)) (tw (k * (n + j - q)))) 0 Dn)).
  rewrite <- rsum_nat_scale.
  rewrite (rsum_nat_ext _
             (fun n => rsum_nat (fun j => rmul (rmul (a n) (b j)) (if (n + j - q) mod D =? 0 then rI else rO)) 0 Dn) 0 Dn).
  2:{ intros n _.
      rewrite (rsum_nat_swap (fun k j => rmul (rmul (a n) (b j)) (tw (k * (n + j - q))))).
      rewrite <- rsum_nat_scale. apply rsum_nat_ext. intros j _.
      rewrite rsum_nat_scale. rewrite <- (tw_orth (n + j - q)). rewrite rsum_def by lia. fold Dn. ring. }
  (* swap to sum over j outside, pick n = (q - j) mod D *)
  rewrite (rsum_nat_swap (fun n j => rmul (rmul (a n) (b j)) (if (n + j - q) mod D =? 0 then rI else rO))).
  apply rsum_nat_ext. intros j Hj.
  rewrite (rsum_nat_ext _ (fun n => if n =? (q - j) mod D then rmul (b j) (a n) else rO) 0 Dn).
  - rewrite (rsum_nat_pick (fun n => rmul (b j) (a n))); [reflexivity|].
    unfold Dn. rewrite Z2Nat.id by lia. pose proof (Z.mod_pos_bound (q - j) D HD). lia.
  - intros n Hn. unfold Dn in Hn. rewrite Z2Nat.id in Hn by lia.
    destruct (n =? (q - j) mod D) eqn:E.
    + apply Z.eqb_eq in E.
      assert (Hz : (n + j - q) mod D = 0).
      { rewrite E. pose proof (Z.div_mod (q - j) D ltac:(lia)) as Hdm.
        replace ((q - j) mod D + j - q) with ((- ((q - j) / D)) * D) by lia.
        apply Z.mod_mul. lia. }
      rewrite Hz. cbn [Z.eqb]. ring.
    + apply Z.eqb_neq in E.
      destruct ((n + j - q) mod D =? 0) eqn:E2; [|ring].
      exfalso. apply Z.eqb_eq in E2. apply E.
      (* n = (q - j) + multiple of D and 0 <= n < D *)
      apply Z.mod_divide in E2; [|lia]. destruct E2 as [c Hc].
      apply (Z.mod_unique_pos (q - j) D (- c) n); lia.
Qed.

(* ---- the model's [cconv] (C03/Model.v) is this IDFT of the product of the DFTs ---- *)
Lemma rsum_nat_split f a n m : rsum_nat f a (n + m) = radd (rsum_nat f a n) (rsum_nat f (a + Z.of_nat n) m).
Proof.
  revert a. induction n as [|n IH]; intros a.
  - cbn [rsum_nat Nat.add]. replace (a + Z.of_nat 0) with a by lia. ring.
  - cbn [rsum_nat Nat.add]. rewrite IH. replace (a + 1 + Z.of_nat n) with (a + Z.of_nat (S n)) by lia. ring.
Qed.

Lemma fold_left_radd (f : Z -> R) l acc :
  fold_left radd (map f l) acc = radd acc (fold_right (fun k s => radd (f k) s) rO l).
Proof.
  revert acc. induction l as [|x l IH]; intros acc; cbn [map fold_left fold_right]; [ring|].
  rewrite IH. ring.
Qed.

Lemma zsum_is_rsum_nat f n : 0 <= n -> zsum R rO radd f n = rsum_nat f 0 (Z.to_nat n).
Proof.
  intros Hn. unfold zsum. rewrite fold_left_radd.
  rewrite <- (Z2Nat.id n Hn) at 1. rewrite rsum_as_nat. ring.
Qed.

Theorem model_cconv_is_idft_of_product (taps buf : list R) q :
  zlen taps <= D ->
  cconv R rO radd rmul D taps buf q
  = idft (fun k => rmul (dft (fun n => znth n buf rO) k) (dft (fun j => znth j taps rO) k)) q.
Proof.
  intros Hlen. rewrite conv_theorem_l. unfold cconv, cconvR.
  pose proof (zlen_nonneg taps) as Hnn.
  rewrite zsum_is_rsum_nat by lia. rewrite rsum_def by lia. fold Dn.
  replace Dn with (Z.to_nat (zlen taps) + (Dn - Z.to_nat (zlen taps)))%nat by (unfold Dn; lia).
  rewrite rsum_nat_split.
  rewrite (rsum_nat_ext _ (fun _ => rO) (0 + Z.of_nat (Z.to_nat (zlen taps)))).
  - rewrite rsum_nat_zero. ring.
  - intros j Hj. rewrite Z2Nat.id in Hj by lia. rewrite (znth_overflow j taps) by lia. ring.
Qed.

End ConvThm.

(* the hypotheses are consistent (smallest instance: the 1-point transform over Z); the intended instance is
   R = C, tw m = exp(-2 pi i m / D), invD = 1 / D, whose orthogonality is the geometric sum of the roots of unity *)
Example conv_hypotheses_satisfiable :
  let tw := fun _ : Z => 1 in
  (forall a b : Z, tw (a + b) = tw a * tw b) /\
  (forall m : Z, 1 * rsum Z 0 Z.add (fun k : Z => tw (k * m)) 1 = (if m mod 1 =? 0 then 1 else 0)).
Proof. cbv zeta. split; [reflexivity|]. intros m. rewrite Z.mod_1_r. reflexivity. Qed.
