(* C03 / C01-SI - drivers that evaluate the model on concrete integer-coded
   cases (used only by the generated correspondence files; definitions only).
   A case is built exactly as the constructor builds a computer: supports,
   frame shift, DFT lower bound, padding flag, the bank's impulse responses
   (width D) and the 2S window weights.  Real banks run in Z, complex banks in
   the Gaussian integers. *)
From Coq Require Import ZArith List Bool.
From Verif Require Import lib.C03_ListZ C03.Model.
Import ListNotations.
Open Scope Z_scope.

Definition dtype_of_code (n : Z) : dtype :=
  match n with
  | 0 => DF16 | 1 => DF32 | 2 => DF64 | 3 => DLongDouble
  | 4 => DInt | 5 => DBool | _ => DComplex
  end.
Definition code_of_dtype (d : dtype) : Z :=
  match d with
  | DF16 => 0 | DF32 => 1 | DF64 => 2 | DLongDouble => 3
  | DInt => 4 | DBool => 5 | DComplex => 6
  end.
Definition code_of_err (e : err) : Z :=
  match e with EValue => 1 | EAssert => 2 | EIndex => 3 | EFuel => 4 end.

Fixpoint map2 {A B C} (f : A -> B -> C) (l1 : list A) (l2 : list B) : list C :=
  match l1, l2 with
  | a :: t1, b :: t2 => f a b :: map2 f t1 t2
  | _, _ => []
  end.

Section Build.
  Variable K : Type.
  Variables (kzero kone : K).

  Definition build_cfg (centered : bool) (S : Z) (sup : list (Z * Z)) (dmin : Z) (pad energy : bool)
             (irs : list (list K)) (w : list K) : cfg K :=
    let '(M, tr) := geom_support centered sup in
    let D := geom_dft M S dmin pad in
    let taps := (if energy then [dirac_taps K kzero kone M tr] else [])
                  ++ map2 (prep_taps K kzero centered M tr) sup irs in
    mkCfg K S M tr D centered (geom_nblk D M S) taps (zfirstn S w) (zskipn S w).

  Definition geometry (c : cfg K) : list Z := [cM K c; cTr K c; cD K c; cNblk K c].

  Definition fresh : state K := mkState K [] [] 0 0 0 false DF64.
End Build.

(* operations: 1 = one utterance streamed as chunks then finalize,
               2 = compute_full, 3 = frame_by_frame_calculation(chunk_size) *)
Inductive op (K : Type) :=
| OpStream (chunks : list (Z * list K))
| OpFull (d : Z) (xs : list K)
| OpFbf (d : Z) (xs : list K) (chunk_size : Z).
Arguments OpStream {K}. Arguments OpFull {K}. Arguments OpFbf {K}.

Section Run.
  Variable K : Type.
  Variables (kzero : K) (kadd kmul : K -> K -> K) (phi post : K -> K).
  Variable out : K -> Z.

  Definition outcome := (Z * Z * list (list Z))%type.  (* error code, dtype code, rows *)

  Definition run_op (c : cfg K) (st : state K) (o : op K) : state K * outcome :=
    let r := match o with
             | OpStream chunks =>
               si_stream K kzero kadd kmul phi post c st
                         (map (fun p => (dtype_of_code (fst p), snd p)) chunks)
             | OpFull d xs => compute_full K kzero kadd kmul phi post c st (dtype_of_code d, xs)
             | OpFbf d xs cs => fbf K kzero kadd kmul phi post c st (dtype_of_code d, xs) cs
             end in
    match r with
    | Ok (st', d, rows) => (st', (0, code_of_dtype d, map (map out) rows))
    | Err e => (st, (code_of_err e, 0, []))
    end.

  (* a sequence of utterances on ONE computer (state is carried over) *)
  Fixpoint run_ops (c : cfg K) (st : state K) (os : list (op K)) : list outcome :=
    match os with
    | [] => []
    | o :: t => let '(st', r) := run_op c st o in r :: run_ops c st' t
    end.

  (* the documented definition, for the same input *)
  Definition spec_rows (c : cfg K) (xs : list K) : list (list Z) :=
    map (map out) (si_spec K kzero kadd kmul phi post c xs).
End Run.

(* ---- real banks ---- *)
Definition cfgZ := build_cfg Z 0 1.
Definition run_opsZ (power : bool) (c : cfg Z) (os : list (op Z)) : list outcome :=
  run_ops Z 0 Z.add Z.mul (phiZ power) idZ idZ c (fresh Z) os.
Definition specZ (power : bool) (c : cfg Z) (xs : list Z) : list (list Z) :=
  spec_rows Z 0 Z.add Z.mul (phiZ power) idZ idZ c xs.

(* ---- complex banks (power only: |y|^2 is an integer) ---- *)
Definition cfgG := build_cfg G gzero (1, 0).
Definition run_opsG (c : cfg G) (os : list (op G)) : list outcome :=
  run_ops G gzero gadd gmul gphi gid fst c (fresh G) os.
Definition specG (c : cfg G) (xs : list G) : list (list Z) :=
  spec_rows G gzero gadd gmul gphi gid fst c xs.

(* ---- comparison helpers: the generated files print only mismatching indices ---- *)
Fixpoint list_eqb {A} (eqb : A -> A -> bool) (l1 l2 : list A) : bool :=
  match l1, l2 with
  | [], [] => true
  | a :: t1, b :: t2 => eqb a b && list_eqb eqb t1 t2
  | _, _ => false
  end.
Definition rows_eqb := list_eqb (list_eqb Z.eqb).
Definition outcome_eqb (a b : outcome) : bool :=
  let '(e1, d1, r1) := a in let '(e2, d2, r2) := b in
  (e1 =? e2) && (d1 =? d2) && rows_eqb r1 r2.

Fixpoint mismatches_from {A} (i : Z) (ok : A -> bool) (l : list A) : list Z :=
  match l with
  | [] => []
  | a :: t => (if ok a then [] else [i]) ++ mismatches_from (i + 1) ok t
  end.
Definition mismatches {A} := @mismatches_from A 0.
