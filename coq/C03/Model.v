(* C03 / C01-SI - executable model of ShortIntegrationFrameComputer
   (/repo/src/pydrobert/speech/compute.py, class ShortIntegrationFrameComputer:
   __init__, compute_chunk, finalize, compute_full, _compute_preamble,
   _handle_skip, _fill_y_buf, _compute_frame) and of frame_by_frame_calculation,
   written statement by statement, plus the documented definition [si_spec].

   Definitions only.  Everything is polymorphic in the number type [K]
   (samples, filter taps, window weights, accumulators) and in its operations;
   the correspondence instantiates K with Z (real banks) and with Z*Z
   (Gaussian integers, complex banks).

   What is NOT modelled (trusted base, exercised by the correspondence):
   * np.fft: IDFT(DFT(buf) . DFT(taps)) is replaced by its mathematical meaning,
     the circular convolution [cconv] of the D-sample buffer with the taps.  That
     its kept part [-y_keep:] is a *linear* convolution of the history is NOT
     assumed: it is proved (Proofs: cconv_valid_is_linear).
   * float rounding (K is exact), np.log / np.maximum ([post] is abstract),
     |.|^p ([phi] is abstract).
   * NumPy shape errors of slices whose lengths always agree (modelled by
     firstn/skipn); where an out-of-range index or a degenerate slice could arise
     the model returns an explicit error instead and the theorems show it cannot
     happen under the stated preconditions. *)
From Coq Require Import ZArith List Bool.
From Verif Require Import lib.C03_ListZ.
Import ListNotations.
Open Scope Z_scope.

(* ---- outcomes ---- *)
Inductive err := EValue (* ValueError *) | EAssert (* AssertionError *)
               | EIndex (* IndexError *) | EFuel (* model artefact, never reached *).
Inductive res (T : Type) := Ok (t : T) | Err (e : err).
Arguments Ok {T} t.
Arguments Err {T} e.
Definition bind {T U} (r : res T) (f : T -> res U) : res U :=
  match r with Ok t => f t | Err e => Err e end.
Notation "'do' x <- r ; k" := (bind r (fun x => k))
  (at level 200, x pattern, r at level 100, k at level 200).

(* ---- dtypes (what _compute_preamble looks at) ---- *)
Inductive dtype := DF16 | DF32 | DF64 | DLongDouble | DInt | DBool | DComplex.
Definition is_floating (d : dtype) : bool :=
  match d with DF16 | DF32 | DF64 | DLongDouble => true | _ => false end.
Definition dtype_eqb (a b : dtype) : bool :=
  match a, b with
  | DF16, DF16 | DF32, DF32 | DF64, DF64 | DLongDouble, DLongDouble
  | DInt, DInt | DBool, DBool | DComplex, DComplex => true
  | _, _ => false
  end.

(* ---- constructor geometry (compute.py:699-723, 751-752) ---- *)
Definition fold_max (f : Z * Z -> Z) (init : Z) (l : list (Z * Z)) : Z :=
  fold_left (fun acc s => Z.max (f s) acc) l init.

(* (max_support, translation) *)
Definition geom_support (centered : bool) (sup : list (Z * Z)) : Z * Z :=
  if centered then
    (* max(right - left for ...) : Python's max of a non-empty sequence *)
    let M := match sup with
             | [] => 0
             | s :: t => fold_max (fun s => snd s - fst s) (snd s - fst s) t
             end in
    (M, M / 2)
  else
    let tr := fold_max (fun s => - fst s) 0 sup in
    let mr := fold_max (fun s => snd s) 0 sup in
    (mr + tr, tr).

(* int(2 ** np.ceil(np.log2(n))) for n >= 1 *)
Definition pow2ceil (n : Z) : Z := 2 ^ Z.log2_up n.

(* dmin = int(np.ceil(2 * rate / min_support_hz)) is an input *)
Definition geom_dft (M S dmin : Z) (pad : bool) : Z :=
  let d := Z.max (M + S - 1) dmin in
  if pad then pow2ceil d else d.

(* int(np.ceil((D - M + 2 S) / S)) *)
Definition geom_nblk (D M S : Z) : Z := (D - M + 2 * S + S - 1) / S.

(* "frame shift shorter than the longest filter's one-sided support" *)
Definition one_sided_support (centered : bool) (M tr : Z) : Z :=
  if centered then M - M / 2  (* from the support's centre; M/2 = tr *)
  else M - tr.                (* from sample 0: the largest right end *)


Section Poly.
  Variable K : Type.
  Variable kzero : K.
  Variables kadd kmul : K -> K -> K.
  Variable phi : K -> K.   (* y |-> |y|^2 (use_power) or |y| *)
  Variable post : K -> K.  (* c |-> log(max(c, LOG_FLOOR_VALUE)) (use_log) or c *)

  (* ---- filter preparation (compute.py:730-746) ---- *)
  (* np.roll(l, s)[j] = l[(j - s) mod len l] *)
  Definition roll (l : list K) (s : Z) : list K :=
    map (fun j => znth ((j - s) mod zlen l) l kzero) (zrange 0 (zlen l)).
  (* shift of filter with support (left, right) *)
  Definition prep_shift (centered : bool) (tr : Z) (s : Z * Z) : Z :=
    if centered then tr - (fst s + snd s) / 2 + 1 else tr.
  (* filt[: max_support] after the roll; ir has length D *)
  Definition prep_taps (centered : bool) (M tr : Z) (s : Z * Z) (ir : list K) : list K :=
    zfirstn M (roll ir (prep_shift centered tr s)).
  (* the energy "filter": unit impulse at the translation (first M samples) *)
  Definition dirac_taps (kone : K) (M tr : Z) : list K :=
    map (fun j => if j =? tr then kone else kzero) (zrange 0 M).

  (* ---- configuration fixed at construction ---- *)
  Record cfg := mkCfg {
    cS : Z;               (* _frame_shift *)
    cM : Z;               (* _max_support *)
    cTr : Z;              (* _translation *)
    cD : Z;               (* _dft_size *)
    cCentered : bool;     (* _frame_style == "centered" *)
    cNblk : Z;            (* _y_buf.shape[0] *)
    cTaps : list (list K);(* time-domain content of _filts (energy first), each <= M taps *)
    cW0 : list K;         (* _window[0], length S *)
    cW1 : list K          (* _window[1], length S *)
  }.

  (* structural facts established by the constructor *)
  Record geo (c : cfg) : Prop := mkGeo {
    g_S : 0 < cS c;
    g_M : 1 <= cM c;
    g_tr : 0 <= cTr c;
    g_D : cM c + cS c - 1 <= cD c;
    g_nblk : cD c - cM c + 2 * cS c <= cNblk c * cS c;
    g_w0 : zlen (cW0 c) = cS c;
    g_w1 : zlen (cW1 c) = cS c;
    g_taps : Forall (fun tp => zlen tp <= cM c) (cTaps c)
  }.


  (* the hypothesis of the theorems: constructor facts + "frame shift shorter
     than the longest filter's one-sided support", in the form the proof needs *)
  Definition pre (c : cfg) : Prop :=
    geo c /\
    if cCentered c
    then cTr c <= cM c - 1 /\ cS c - cS c / 2 <= cM c
    else cS c + cTr c + 1 <= cM c.


  (* ---- numeric kernels ---- *)
  Definition zsum (f : Z -> K) (n : Z) : K :=
    fold_left kadd (map f (zrange 0 n)) kzero.
  (* np.sum(ys * ws) over the common length *)
  Definition dot (ys ws : list K) : K :=
    fold_left (fun acc p => kadd acc (kmul (fst p) (snd p))) (combine ys ws) kzero.
  (* sample q of IDFT(DFT(buf) . DFT(taps, n=D)): circular convolution *)
  Definition cconv (D : Z) (taps buf : list K) (q : Z) : K :=
    zsum (fun j => kmul (znth j taps kzero) (znth ((q - j) mod D) buf kzero)) (zlen taps).
  (* linear convolution of the zero-extended signal: (x * taps)[p] *)
  Definition lconv (taps xs : list K) (p : Z) : K :=
    zsum (fun j => kmul (znth j taps kzero) (znth (p - j) xs kzero)) (zlen taps).

  (* ---- state ---- *)
  Record state := mkState {
    xbuf : list K;               (* _x_buf, length D: most recent samples last *)
    ybuf : list (list (K * K));  (* _y_buf[block, 0..1, filt] stored as [filt][block] *)
    x_rem : Z; y_rem : Z; skip : Z;
    started : bool;
    dt : dtype                   (* _ret_dtype *)
  }.

  Definition chunk := (dtype * list K)%type.

  (* _compute_preamble *)
  Definition preamble (c : cfg) (st : state) (d : dtype) : res state :=
    if started st then
      if dtype_eqb d (dt st) then Ok st else Err EValue
    else if negb (is_floating d) then Err EValue
    else
      let sk := cTr c - cS c in
      Ok {| xbuf := zrepeat kzero (cD c);
            ybuf := map (fun _ => zrepeat (kzero, kzero) (cNblk c)) (cTaps c);
            x_rem := if cCentered c then (if sk <? 0 then - sk else 0) else 0;
            y_rem := 0;
            skip := if cCentered c then (if sk <? 0 then 0 else sk) else cTr c;
            started := true;
            dt := d |}.

  (* _handle_skip: returns the new x_buf, skip and the rest of the chunk *)
  Definition handle_skip (c : cfg) (xb : list K) (xrem sk : Z) (ch : list K)
    : res (list K * Z * list K) :=
    if sk =? 0 then Ok (xb, sk, ch)
    else if negb (xrem =? 0) then Err EAssert
    else
      let consumed := Z.min sk (zlen ch) in
      let x_len := zlen xb in
      let xb' := if consumed <? x_len
                 then zskipn consumed xb ++ zfirstn consumed ch
                 else slice (consumed - x_len) consumed ch in
      Ok (xb', sk - consumed, zskipn consumed ch).

  (* one window block of _fill_y_buf's inner loop *)
  Definition block_update (c : cfg) (yv : list K) (y_keep block_end : Z) (blk : K * K) : K * K :=
    let S := cS c in
    let active_end := Z.min block_end y_keep in
    let active_start := Z.max 0 (block_end - S) in
    let y_active := slice active_start block_end yv in
    let window_start := Z.max 0 (S - block_end) in
    let window_end := S - block_end + active_end in
    (kadd (fst blk) (dot y_active (slice window_start window_end (cW0 c))),
     kadd (snd blk) (dot y_active (slice window_start window_end (cW1 c)))).

  (* for block_end, block_idx in zip(range(sbs, y_keep + S, S), count(block_offs)) *)
  Fixpoint fill_blocks (c : cfg) (yv : list K) (y_keep : Z) (n : nat) (block_end block_idx : Z)
           (yb : list (K * K)) : res (list (K * K)) :=
    match n with
    | O => Ok yb
    | S n' =>
      if zlen yb <=? block_idx then Err EIndex
      else
        let yb' := zupd block_idx
                        (block_update c yv y_keep block_end (znth block_idx yb (kzero, kzero))) yb in
        fill_blocks c yv y_keep n' (block_end + cS c) (block_idx + 1) yb'
    end.

  (* y_valid of one filter: IDFT(X . H)[-y_keep:], then |.|^p *)
  Definition y_valid (c : cfg) (taps cur_buf : list K) (y_keep : Z) : list K :=
    map (fun t => phi (cconv (cD c) taps cur_buf (cD c - y_keep + t))) (zrange 0 y_keep).

  Definition fill_one (c : cfg) (cur_buf : list K) (y_keep yrem : Z)
             (taps : list K) (yb : list (K * K)) : res (list (K * K)) :=
    let S := cS c in
    let block_offs := yrem / S in
    let second_block_start := (block_offs + 1) * S - yrem in
    (* len(range(sbs, y_keep + S, S)) *)
    let nb := (y_keep + S - second_block_start + S - 1) / S in
    fill_blocks c (y_valid c taps cur_buf y_keep) y_keep (Z.to_nat nb)
                second_block_start block_offs yb.

  Fixpoint map2_res {T U V} (f : T -> U -> res V) (l1 : list T) (l2 : list U) : res (list V) :=
    match l1, l2 with
    | a :: t1, b :: t2 =>
      do v <- f a b; do vs <- map2_res f t1 t2; Ok (v :: vs)
    | _, _ => Ok []
    end.

  (* _fill_y_buf *)
  Definition fill_y_buf (c : cfg) (cur_buf : list K) (y_keep : Z)
             (yb : list (list (K * K))) (yrem : Z) : res (list (list (K * K)) * Z) :=
    if y_keep <=? 0 then Err EAssert (* [-0:] would keep the whole IDFT; unreachable *)
    else
      do yb' <- map2_res (fill_one c cur_buf y_keep yrem) (cTaps c) yb;
      Ok (yb', yrem + y_keep).

  (* _compute_frame (values) *)
  Definition frame_of (yb : list (list (K * K))) : list K :=
    map (fun b => post (kadd (fst (znth 0 b (kzero, kzero))) (snd (znth 1 b (kzero, kzero))))) yb.
  (* _y_buf[:-1] = _y_buf[1:]; _y_buf[-1] = 0 *)
  Definition shift_blocks (yb : list (list (K * K))) : list (list (K * K)) :=
    map (fun b => match b with [] => [] | _ :: t => t ++ [(kzero, kzero)] end) yb.

  (* while self._y_rem >= 2 * S: self._compute_frame(coeffs[cur_frame]); cur_frame += 1 *)
  Fixpoint drain (c : cfg) (num_frames : Z) (fuel : nat)
           (yb : list (list (K * K))) (yrem : Z) (frames : list (list K))
    : res (list (list (K * K)) * Z * list (list K)) :=
    if yrem <? 2 * cS c then Ok (yb, yrem, frames)
    else match fuel with
         | O => Err EFuel
         | S f =>
           if num_frames <=? zlen frames then Err EIndex  (* coeffs[cur_frame] out of range *)
           else drain c num_frames f (shift_blocks yb) (yrem - cS c) (frames ++ [frame_of yb])
         end.

  (* loop state of compute_chunk's DFT loop *)
  Record lstate := mkL {
    l_xbuf : list K; l_ybuf : list (list (K * K)); l_yrem : Z;
    l_copied : Z; l_frames : list (list K)
  }.

  Definition dft_iter (c : cfg) (xrem num_frames : Z) (ch : list K) (dft_idx : Z) (ls : lstate)
    : res lstate :=
    let D := cD c in
    let V := D - cM c + 1 in
    let chunk_len := zlen ch in
    let end_idx := Z.min ((dft_idx + 1) * V - xrem) chunk_len in
    if end_idx <? 0 then Err EAssert
    else
      let y_keep := end_idx - dft_idx * V + xrem in
      let start_idx := end_idx - D in
      do xcc <-
         (if start_idx <? 0 then
            let chunk_to_copy := end_idx - l_copied ls in
            if (D <=? chunk_to_copy) || (chunk_to_copy <? 0) then Err EAssert
            else
              let xb := zskipn chunk_to_copy (l_xbuf ls) ++ slice (l_copied ls) end_idx ch in
              Ok (xb, end_idx, xb)
          else Ok (l_xbuf ls, l_copied ls, slice start_idx end_idx ch));
      let '(xb, copied, cur_buf) := xcc in
      do yy <- fill_y_buf c cur_buf y_keep (l_ybuf ls) (l_yrem ls);
      let '(yb, yr) := yy in
      do dd <- drain c num_frames (Z.to_nat yr) yb yr (l_frames ls);
      let '(yb', yr', fr) := dd in
      Ok (mkL xb yb' yr' copied fr).

  Fixpoint dft_loop (c : cfg) (xrem num_frames : Z) (ch : list K) (n : nat) (dft_idx : Z)
           (ls : lstate) : res lstate :=
    match n with
    | O => Ok ls
    | S n' => do ls' <- dft_iter c xrem num_frames ch dft_idx ls;
              dft_loop c xrem num_frames ch n' (dft_idx + 1) ls'
    end.

  (* compute_chunk after _compute_preamble *)
  Definition chunk_body (c : cfg) (st : state) (ch0 : list K) : res (state * list (list K)) :=
    do hs <- handle_skip c (xbuf st) (x_rem st) (skip st) ch0;
    let '(xb1, sk1, ch) := hs in
    let S := cS c in
    let D := cD c in
    let chunk_len := zlen ch in
    let V := D - cM c + 1 in
    let num_raw := x_rem st + chunk_len in
    let num_dfts0 := num_raw / V in
    let num_frames := Z.max 0 ((num_raw + y_rem st) / S - 1) in
    let num_processed := if num_frames =? 0 then y_rem st else (num_frames + 1) * S in
    let num_dfts := if num_dfts0 * V <? num_processed - y_rem st then num_dfts0 + 1 else num_dfts0 in
    do ls <- dft_loop c (x_rem st) num_frames ch (Z.to_nat num_dfts) 0
                      (mkL xb1 (ybuf st) (y_rem st) 0 []);
    if negb (zlen (l_frames ls) =? num_frames) then Err EAssert
    else
      let xb2 :=
          if chunk_len - l_copied ls =? 0 then l_xbuf ls
          else
            let chunk_to_copy := Z.min D (chunk_len - l_copied ls) in
            zskipn chunk_to_copy (l_xbuf ls) ++ zlastn chunk_to_copy ch in
      Ok ({| xbuf := xb2; ybuf := l_ybuf ls;
             x_rem := Z.max 0 (num_raw - num_dfts * V);
             y_rem := l_yrem ls; skip := sk1; started := started st; dt := dt st |},
          l_frames ls).

  (* compute_chunk *)
  Definition compute_chunk (c : cfg) (st0 : state) (chk : chunk) : res (state * list (list K)) :=
    do st <- preamble c st0 (fst chk);
    chunk_body c st (snd chk).

  (* finalize: returns the state (started = False) and the frames *)
  Definition finalize (c : cfg) (st : state) : res (state * list (list K)) :=
    if started st then
      let S := cS c in
      let frame_length := cM c + S - 1 in
      let borrowed := if cCentered c then S else 0 in
      let buf_len := cTr c - skip st + x_rem st + y_rem st - borrowed in
      let num_frames := Z.max 0 ((buf_len + S / 2) / S) in
      if 1 <=? num_frames then
        let pad_right := (num_frames - 1) * S + frame_length - buf_len in
        if pad_right <? 0 then Err EValue (* np.zeros(negative) *)
        else
          do r <- compute_chunk c st (dt st, zrepeat kzero pad_right);
          let '(st', fr) := r in
          Ok ({| xbuf := xbuf st'; ybuf := ybuf st'; x_rem := x_rem st'; y_rem := y_rem st';
                 skip := skip st'; started := false; dt := dt st' |},
              zfirstn num_frames fr)
      else
        Ok ({| xbuf := xbuf st; ybuf := ybuf st; x_rem := x_rem st; y_rem := y_rem st;
               skip := skip st; started := false; dt := dt st |}, [])
    else Ok (st, []).

  (* compute_full: (dtype of the result, rows) *)
  Definition compute_full (c : cfg) (st : state) (sig : chunk) : res (state * dtype * list (list K)) :=
    if started st then Err EValue
    else
      do r1 <- compute_chunk c st sig;
      let '(st1, f1) := r1 in
      do r2 <- finalize c st1;
      let '(st2, f2) := r2 in
      Ok (st2, dt st2, f1 ++ f2).

  (* a stream of compute_chunk calls followed by finalize() *)
  Fixpoint stream_chunks (c : cfg) (st : state) (chunks : list chunk) (acc : list (list K))
    : res (state * list (list K)) :=
    match chunks with
    | [] => Ok (st, acc)
    | ch :: t => do r <- compute_chunk c st ch;
                 let '(st', fr) := r in stream_chunks c st' t (acc ++ fr)
    end.

  Definition si_stream (c : cfg) (st : state) (chunks : list chunk)
    : res (state * dtype * list (list K)) :=
    do r1 <- stream_chunks c st chunks [];
    let '(st1, f1) := r1 in
    do r2 <- finalize c st1;
    let '(st2, f2) := r2 in
    Ok (st2, dt st2, f1 ++ f2).

  (* frame_by_frame_calculation: signal[:chunk_size] while len(signal) *)
  Fixpoint cut (fuel : nat) (chunk_size : Z) (xs : list K) : list (list K) :=
    match fuel with
    | O => []
    | S f => match xs with
             | [] => []
             | _ => zfirstn chunk_size xs :: cut f chunk_size (zskipn chunk_size xs)
             end
    end.

  Definition fbf (c : cfg) (st : state) (sig : chunk) (chunk_size : Z)
    : res (state * dtype * list (list K)) :=
    if started st then Err EValue
    else si_stream c st (map (fun l => (fst sig, l)) (cut (length (snd sig)) chunk_size (snd sig))).

  (* ================= the documented definition ================= *)
  (* conv position of y-stream sample 0 *)
  Definition off (c : cfg) : Z := if cCentered c then cTr c - cS c else cTr c.
  (* |(x * h)[t + off]|^p, x zero outside [0, N) *)
  Definition ys (c : cfg) (taps xs : list K) (t : Z) : K := phi (lconv taps xs (t + off c)).
  (* coefficient of one filter in frame k: window-weighted sum over 2 S samples *)
  Definition coef (c : cfg) (xs taps : list K) (k : Z) : K :=
    post (dot (map (ys c taps xs) (zrange (k * cS c) (2 * cS c))) (cW0 c ++ cW1 c)).
  Definition frame_spec (c : cfg) (xs : list K) (k : Z) : list K :=
    map (fun taps => coef c xs taps k) (cTaps c).
  Definition num_frames_spec (c : cfg) (n : Z) : Z := (n + cS c / 2) / cS c.
  Definition si_spec (c : cfg) (xs : list K) : list (list K) :=
    map (frame_spec c xs) (zrange 0 (num_frames_spec c (zlen xs))).
End Poly.

(* ---- instances used by the correspondence ---- *)
(* real banks: K = Z *)
Definition phiZ (power : bool) (y : Z) : Z := if power then y * y else Z.abs y.
Definition idZ (x : Z) : Z := x.

(* complex banks: K = Gaussian integers; samples/weights are (v, 0) *)
Definition G := (Z * Z)%type.
Definition gzero : G := (0, 0).
Definition gadd (a b : G) : G := (fst a + fst b, snd a + snd b).
Definition gmul (a b : G) : G :=
  (fst a * fst b - snd a * snd b, fst a * snd b + snd a * fst b).
Definition gphi (y : G) : G := (fst y * fst y + snd y * snd y, 0).  (* y * conj y *)
Definition gid (x : G) : G := x.
