(* C03 / C01-SI - layer B: the per-shift accumulator blocks (_y_buf) hold the
   window-weighted sums of the pending y-stream, however the stream is cut
   into pieces (fill_one_spec), and popping a frame (_compute_frame) yields the
   documented 2S-sample weighted sum and leaves the blocks of the shifted
   stream (frame_shift_spec, drain_spec). *)
From Coq Require Import ZArith List Bool Lia ZifyBool.
From Verif Require Import lib.C03_ListZ C03.Model C03.ProofsKernel.
Import ListNotations.
Open Scope Z_scope.

(* ---- division by a variable modulus: quotient-witness facts ---- *)
Lemma div_lo a S : 0 < S -> (a / S) * S <= a.
Proof. intros. rewrite Z.mul_comm. apply Z.mul_div_le. lia. Qed.

Lemma div_hi a S : 0 < S -> a < (a / S + 1) * S.
Proof.
  intros. pose proof (Z.mul_succ_div_gt a S ltac:(lia)). lia.
Qed.

Lemma div_interval a S q : 0 < S -> q * S <= a < (q + 1) * S -> a / S = q.
Proof.
  intros. symmetry. apply (Z.div_unique a S q (a - q * S)); lia.
Qed.

Section Blocks.
  Variable K : Type.
  Variable kzero : K.
  Variables kadd kmul : K -> K -> K.
  Variable phi : K -> K.
  Variable post : K -> K.
  Hypothesis add_assoc : forall a b c, kadd a (kadd b c) = kadd (kadd a b) c.
  Hypothesis add_0_l : forall a, kadd kzero a = a.
  Hypothesis add_0_r : forall a, kadd a kzero = a.

  Local Notation dot := (dot K kzero kadd kmul).
  Local Notation cfg := (cfg K).
  Local Notation block_update := (block_update K kzero kadd kmul).
  Local Notation fill_blocks := (fill_blocks K kzero kadd kmul).
  Local Notation y_valid := (y_valid K kzero kadd kmul phi).
  Local Notation fill_one := (fill_one K kzero kadd kmul phi).
  Local Notation fill_y_buf := (fill_y_buf K kzero kadd kmul phi).
  Local Notation frame_of := (frame_of K kzero kadd post).
  Local Notation shift_blocks := (shift_blocks K kzero).
  Local Notation drain := (drain K kzero kadd post).
  Local Notation kz2 := (kzero, kzero).

  Let dot_app := dot_app K kzero kadd kmul add_assoc add_0_l add_0_r.
  Let dot_firstn := dot_firstn K kzero kadd kmul.
  Let dot_trunc := dot_trunc K kzero kadd kmul.

  (* value of accumulator block b for window half w when the pending stream is pend *)
  Definition blockval (S : Z) (w pend : list K) (b : Z) : K :=
    dot (slice (b * S) ((b + 1) * S) pend) w.

  Definition blocks_of (c : cfg) (pend : list K) : list (K * K) :=
    map (fun b => (blockval (cS K c) (cW0 K c) pend b, blockval (cS K c) (cW1 K c) pend b))
        (zrange 0 (cNblk K c)).

  Lemma zlen_blocks_of c pend : zlen (blocks_of c pend) = Z.max 0 (cNblk K c).
  Proof. unfold blocks_of. now rewrite zlen_map, zlen_zrange. Qed.

  Lemma znth_blocks_of c pend j : 0 <= j < cNblk K c ->
    znth j (blocks_of c pend) kz2
    = (blockval (cS K c) (cW0 K c) pend j, blockval (cS K c) (cW1 K c) pend j).
  Proof.
    intros. unfold blocks_of.
    rewrite (znth_map _ j (zrange 0 (cNblk K c)) 0) by (rewrite zlen_zrange; lia).
    rewrite znth_zrange by lia. reflexivity.
  Qed.

  Lemma slice_beyond {A} a b (l : list A) : zlen l <= a -> slice a b l = [].
  Proof.
    intros. unfold slice. rewrite zskipn_all by lia. unfold zfirstn. apply firstn_nil.
  Qed.

  Lemma blockval_beyond S w pend b : 0 < S -> zlen pend <= b * S -> blockval S w pend b = kzero.
  Proof. intros. unfold blockval. now rewrite slice_beyond by lia. Qed.

  Lemma blocks_of_nil c : blocks_of c [] = zrepeat kz2 (cNblk K c).
  Proof.
    apply (znth_ext _ _ kz2).
    - now rewrite zlen_blocks_of, zlen_zrepeat.
    - intros j Hj. rewrite zlen_blocks_of in Hj.
      rewrite znth_blocks_of by lia. rewrite znth_zrepeat.
      unfold blockval, slice, zskipn, zfirstn. rewrite !skipn_nil, !firstn_nil. reflexivity.
  Qed.

  (* extending the pending stream by a piece adds exactly what _fill_y_buf adds *)
  Lemma blockval_extend S w pend piece b :
    0 < S -> zlen w = S -> 0 <= b -> zlen pend < (b + 1) * S ->
    let be := (b + 1) * S - zlen pend in
    kadd (blockval S w pend b)
         (dot (slice (Z.max 0 (be - S)) be piece)
              (slice (Z.max 0 (S - be)) (S - be + Z.min be (zlen piece)) w))
    = blockval S w (pend ++ piece) b.
  Proof.
    intros HS Hw Hb Hlt be. unfold blockval.
    pose proof (zlen_nonneg pend) as Hp. pose proof (zlen_nonneg piece) as Hq.
    destruct (Z_le_gt_dec S be) as [HA | HB].
    - (* the block starts inside the new piece *)
      rewrite (slice_beyond (b * S)) by lia. rewrite dot_nil_l, add_0_l.
      rewrite slice_app_r by lia.
      replace (b * S - zlen pend) with (be - S) by lia.
      replace ((b + 1) * S - zlen pend) with be by lia.
      rewrite (Z.max_r 0 (be - S)) by lia. rewrite (Z.max_l 0 (S - be)) by lia.
      rewrite slice_0.
      destruct (Z_le_gt_dec (Z.min be (zlen piece)) (be - S)).
      + rewrite slice_beyond by lia. reflexivity.
      + apply dot_trunc. rewrite zlen_slice by lia. lia.
    - (* the block is partly filled already *)
      rewrite (Z.max_l 0 (be - S)) by lia. rewrite (Z.max_r 0 (S - be)) by lia.
      rewrite slice_app_mid by lia.
      rewrite (slice_to_end (b * S)) by lia.
      rewrite slice_0.
      replace ((b + 1) * S - zlen pend) with be by lia.
      rewrite <- (zfirstn_zskipn (S - be) w) at 3.
      rewrite dot_app by (rewrite zlen_zskipn, zlen_zfirstn; lia).
      f_equal.
      + rewrite <- (dot_firstn (zskipn (b * S) pend) w). f_equal. f_equal.
        rewrite zlen_zskipn. lia.
      + unfold slice.
        replace (S - be + Z.min be (zlen piece) - (S - be)) with (Z.min be (zlen piece)) by lia.
        apply dot_trunc. rewrite zlen_zfirstn. lia.
  Qed.

  Lemma block_update_spec c pend piece b :
    let S := cS K c in
    0 < S -> zlen (cW0 K c) = S -> zlen (cW1 K c) = S -> 0 <= b -> zlen pend < (b + 1) * S ->
    block_update c piece (zlen piece) ((b + 1) * S - zlen pend)
                 (blockval S (cW0 K c) pend b, blockval S (cW1 K c) pend b)
    = (blockval S (cW0 K c) (pend ++ piece) b, blockval S (cW1 K c) (pend ++ piece) b).
  Proof.
    intros S HS H0 H1 Hb Hlt. unfold Model.block_update. cbn [fst snd]. fold S.
    f_equal; apply blockval_extend; assumption.
  Qed.

  (* ---- the block loop ---- *)
  Lemma fill_blocks_spec c yv yk n : forall be bi yb,
    0 <= bi -> bi + Z.of_nat n <= zlen yb ->
    exists yb', fill_blocks c yv yk n be bi yb = Ok yb' /\ zlen yb' = zlen yb /\
      forall j, 0 <= j < zlen yb ->
        znth j yb' kz2 =
        if (bi <=? j) && (j <? bi + Z.of_nat n)
        then block_update c yv yk (be + (j - bi) * cS K c) (znth j yb kz2)
        else znth j yb kz2.
  Proof.
    induction n as [|n IH]; intros be bi yb Hbi Hlen.
    - exists yb. split; [reflexivity|]. split; [reflexivity|]. intros j Hj.
      destruct (bi <=? j) eqn:E1, (j <? bi + Z.of_nat 0) eqn:E2; try reflexivity; lia.
    - cbn [Model.fill_blocks].
      destruct (zlen yb <=? bi) eqn:E; [lia|].
      set (yb1 := zupd bi (block_update c yv yk be (znth bi yb kz2)) yb).
      assert (L1 : zlen yb1 = zlen yb) by (unfold yb1; apply zlen_zupd).
      destruct (IH (be + cS K c) (bi + 1) yb1) as (yb' & E' & L' & N'); [lia | lia |].
      exists yb'. split; [exact E'|]. split; [lia|]. intros j Hj.
      rewrite N' by lia. unfold yb1 at 1 2.
      rewrite !znth_zupd by lia.
      destruct (Z.eqb_spec j bi) as [-> | Hne].
      + replace (bi + 1 <=? bi) with false by lia. cbn [andb].
        replace (bi <=? bi) with true by lia.
        replace (bi <? bi + Z.of_nat (S n)) with true by lia. cbn [andb].
        f_equal. lia.
      + destruct (bi + 1 <=? j) eqn:E1, (j <? bi + 1 + Z.of_nat n) eqn:E2;
          destruct (bi <=? j) eqn:E3, (j <? bi + Z.of_nat (S n)) eqn:E4; cbn [andb]; try lia; try reflexivity.
        f_equal. lia.
  Qed.

  Lemma zlen_y_valid c tp buf yk : zlen (y_valid c tp buf yk) = Z.max 0 yk.
  Proof. unfold Model.y_valid. now rewrite zlen_map, zlen_zrange. Qed.

  (* structural facts about a configuration that the block lemmas need *)
  Definition blocks_ok (c : cfg) : Prop :=
    0 < cS K c /\ zlen (cW0 K c) = cS K c /\ zlen (cW1 K c) = cS K c /\ 0 <= cNblk K c.

  Lemma fill_one_spec c cur_buf yk pend tp :
    blocks_ok c -> 1 <= yk -> zlen pend + yk <= cNblk K c * cS K c ->
    fill_one c cur_buf yk (zlen pend) tp (blocks_of c pend)
    = Ok (blocks_of c (pend ++ y_valid c tp cur_buf yk)).
  Proof.
    intros (HS & H0 & H1 & HN) Hyk Hcap.
    unfold Model.fill_one.
    set (S := cS K c) in *. set (yrem := zlen pend) in *.
    set (piece := y_valid c tp cur_buf yk).
    assert (Lp : zlen piece = yk) by (unfold piece; rewrite zlen_y_valid; lia).
    pose proof (zlen_nonneg pend) as Hp. fold yrem in Hp.
    set (bo := yrem / S).
    pose proof (div_lo yrem S HS) as Hlo. pose proof (div_hi yrem S HS) as Hhi. fold bo in Hlo, Hhi.
    assert (Hbo : 0 <= bo) by (apply Z.div_pos; lia).
    set (sbs := (bo + 1) * S - yrem).
    set (nb := (yk + S - sbs + S - 1) / S).
    pose proof (div_lo (yk + S - sbs + S - 1) S HS) as Hnlo.
    pose proof (div_hi (yk + S - sbs + S - 1) S HS) as Hnhi. fold nb in Hnlo, Hnhi.
    assert (Hnb : 1 <= nb) by (unfold sbs in *; nia).
    assert (Hfit : (bo + nb) * S < yrem + yk + S) by (unfold sbs in *; nia).
    assert (Hcov : yrem + yk <= (bo + nb) * S) by (unfold sbs in *; nia).
    assert (Hfit2 : bo + nb <= cNblk K c) by nia.
    destruct (fill_blocks_spec c piece yk (Z.to_nat nb) sbs bo (blocks_of c pend))
      as (yb' & E & L & N).
    { lia. }
    { rewrite zlen_blocks_of. lia. }
    rewrite E. f_equal.
    apply (znth_ext _ _ kz2).
    { rewrite L, !zlen_blocks_of. reflexivity. }
    intros j Hj. rewrite L, zlen_blocks_of in Hj.
    rewrite N by (rewrite zlen_blocks_of; lia).
    rewrite !znth_blocks_of by lia.
    rewrite Z2Nat.id by lia.
    destruct (bo <=? j) eqn:E1, (j <? bo + nb) eqn:E2; cbn [andb].
    - (* touched block *)
      replace (sbs + (j - bo) * cS K c) with ((j + 1) * S - zlen pend)
        by (unfold sbs; fold S; fold yrem; lia).
      rewrite <- Lp. apply block_update_spec; try assumption; try lia.
      fold yrem. fold S. nia.
    - (* beyond the new end: still zero *)
      assert (yrem + yk <= j * S) by nia.
      unfold blockval. rewrite !slice_beyond; try reflexivity.
      + rewrite zlen_app. fold yrem. rewrite Lp. fold S. lia.
      + fold yrem. fold S. lia.
    - (* entirely inside the old stream *)
      assert ((j + 1) * S <= yrem) by nia.
      unfold blockval. rewrite !slice_app_l; try reflexivity; fold S; fold yrem; nia.
    - lia.
  Qed.

  (* ---- popping a frame ---- *)
  Lemma blocks_of_frame c pend :
    blocks_ok c -> 2 <= cNblk K c -> 2 * cS K c <= zlen pend ->
    kadd (fst (znth 0 (blocks_of c pend) kz2)) (snd (znth 1 (blocks_of c pend) kz2))
    = dot (zfirstn (2 * cS K c) pend) (cW0 K c ++ cW1 K c).
  Proof.
    intros (HS & H0 & H1 & HN) HN2 Hlen.
    rewrite !znth_blocks_of by lia. cbn [fst snd]. unfold blockval.
    set (S := cS K c) in *.
    rewrite <- slice_0. rewrite (slice_split 0 S (2 * S)) by lia.
    rewrite dot_app by (rewrite zlen_slice by lia; lia).
    f_equal; f_equal; f_equal; lia.
  Qed.

  Lemma slice_zskipn {A} a b k (l : list A) : 0 <= a -> 0 <= k ->
    slice a b (zskipn k l) = slice (a + k) (b + k) l.
  Proof.
    intros. unfold slice. rewrite zskipn_zskipn by lia. f_equal. lia.
  Qed.

  Lemma blocks_of_shift c pend :
    blocks_ok c -> 1 <= cNblk K c -> zlen pend <= cNblk K c * cS K c ->
    match blocks_of c pend with [] => [] | _ :: t => t ++ [kz2] end
    = blocks_of c (zskipn (cS K c) pend).
  Proof.
    intros (HS & H0 & H1 & HN) HN1 Hcap.
    set (S := cS K c) in *. set (n := cNblk K c) in *.
    assert (E : blocks_of c pend = znth 0 (blocks_of c pend) kz2 :: zskipn 1 (blocks_of c pend)).
    { pose proof (zlen_blocks_of c pend) as L. fold n in L.
      destruct (blocks_of c pend) as [|x t]; [unfold zlen in L; simpl in L; lia | reflexivity]. }
    rewrite E.
    apply (znth_ext _ _ kz2).
    { rewrite zlen_app, zlen_zskipn, !zlen_blocks_of. fold n. change (zlen [kz2]) with 1. lia. }
    intros j Hj. rewrite zlen_app, zlen_zskipn, zlen_blocks_of in Hj. fold n in Hj.
    change (zlen [kz2]) with 1 in Hj.
    rewrite (znth_blocks_of c (zskipn S pend)) by (fold n; lia).
    destruct (Z_lt_ge_dec j (n - 1)).
    - rewrite znth_app_l by (rewrite zlen_zskipn, zlen_blocks_of; fold n; lia).
      rewrite znth_zskipn by lia. rewrite znth_blocks_of by (fold n; lia).
      unfold blockval. fold S. rewrite !slice_zskipn by nia.
      f_equal; f_equal; f_equal; lia.
    - assert (j = n - 1) by lia. subst j.
      rewrite znth_app_r by (rewrite zlen_zskipn, zlen_blocks_of; fold n; lia).
      rewrite zlen_zskipn, zlen_blocks_of. fold n.
      replace (n - 1 - Z.max 0 (Z.max 0 n - Z.max 0 1)) with 0 by lia.
      unfold blockval. fold S.
      rewrite !slice_beyond; try reflexivity; rewrite zlen_zskipn; nia.
  Qed.
End Blocks.
