(* C03 / C01-SI - compute_chunk.  One overlap-save iteration preserves the loop
   invariant (dft_iter_spec), hence the whole DFT loop (dft_loop_spec); with
   _handle_skip and the final bookkeeping this gives the invariant [Inv] that
   links the state to the whole history, preserved by every compute_chunk call
   (chunk_body_spec), for chunks of any length (empty ones included). *)
From Coq Require Import ZArith List Bool Lia ZifyBool.
From Verif Require Import lib.C03_ListZ C03.Model C03.ProofsKernel C03.ProofsBlocks C03.ProofsStream.
Import ListNotations.
Open Scope Z_scope.

Section Chunk.
  Variable K : Type.
  Variable kzero : K.
  Variables kadd kmul : K -> K -> K.
  Variable phi : K -> K.
  Variable post : K -> K.
  Hypothesis add_assoc : forall a b c, kadd a (kadd b c) = kadd (kadd a b) c.
  Hypothesis add_0_l : forall a, kadd kzero a = a.
  Hypothesis add_0_r : forall a, kadd a kzero = a.

  Local Notation cfg := (cfg K).
  Local Notation state := (state K).
  Local Notation lstate := (lstate K).
  Local Notation fill_y_buf := (fill_y_buf K kzero kadd kmul phi).
  Local Notation drain := (drain K kzero kadd post).
  Local Notation dft_iter := (dft_iter K kzero kadd kmul phi post).
  Local Notation dft_loop := (dft_loop K kzero kadd kmul phi post).
  Local Notation chunk_body := (chunk_body K kzero kadd kmul phi post).
  Local Notation handle_skip := (handle_skip K).
  Local Notation frame_spec := (frame_spec K kzero kadd kmul phi post).
  Local Notation off := (off K).
  Local Notation geo := (geo K).
  Local Notation ybuf_of := (ybuf_of K kzero kadd kmul phi).

  Let fill_y_buf_spec := fill_y_buf_spec K kzero kadd kmul phi add_assoc add_0_l add_0_r.
  Let drain_spec := drain_spec K kzero kadd kmul phi post add_assoc add_0_l add_0_r.

  Variable c : cfg.
  Hypothesis G : geo c.

  Local Notation SS := (cS K c).
  Local Notation MM := (cM K c).
  Local Notation DD := (cD K c).
  Local Notation VV := (cD K c - cM K c + 1).
  Local Notation Z0 := (zrepeat kzero (cD K c)).

  (* ================= the DFT loop ================= *)
  Section Loop.
    (* xs1: everything fed before this call (skipped samples included);
       ch: the chunk (after _handle_skip); F0 frames emitted so far *)
    Variables (xs1 ch : list K) (F0 xrem yrem0 num_frames : Z).
    Local Notation LL := (zlen ch).
    Local Notation XX := (xs1 ++ ch).
    Local Notation num_raw := (xrem + zlen ch).
    Hypothesis Hxrem : 0 <= xrem <= VV.
    Hypothesis Hyrem0 : 0 <= yrem0 < 2 * SS.
    Hypothesis Hpos : zlen xs1 - xrem = off c + F0 * SS + yrem0.
    Hypothesis Hnf : num_frames = Z.max 0 ((num_raw + yrem0) / SS - 1).

    Definition PP (i : Z) : Z := Z.min (i * VV) num_raw.

    Definition LInv (i : Z) (ls : lstate) : Prop :=
      let cur := zlen (l_frames K ls) in
      l_xbuf K ls = zlastn DD (Z0 ++ xs1 ++ zfirstn (l_copied K ls) ch)
      /\ 0 <= l_copied K ls <= LL
      /\ l_copied K ls <= Z.max 0 (PP i - xrem)
      /\ l_yrem K ls = yrem0 + PP i - SS * cur
      /\ 0 <= l_yrem K ls < 2 * SS
      /\ (1 <= cur -> SS <= l_yrem K ls)
      /\ cur <= num_frames
      /\ l_frames K ls = map (frame_spec c XX) (zrange F0 cur)
      /\ l_ybuf K ls = ybuf_of c XX (F0 + cur) (l_yrem K ls).

    Lemma frames_bound p : 0 <= p <= num_raw -> Z.max 0 ((yrem0 + p) / SS - 1) <= num_frames.
    Proof.
      intros. pose proof (g_S K c G). subst num_frames.
      assert ((yrem0 + p) / SS <= (num_raw + yrem0) / SS) by (apply Z.div_le_mono; lia).
      lia.
    Qed.

    Lemma dft_iter_spec i ls :
      0 <= i -> i * VV < num_raw -> LInv i ls ->
      exists ls', dft_iter c xrem num_frames ch i ls = Ok ls' /\ LInv (i + 1) ls'.
    Proof.
      intros Hi HiV (Hxb & Hcop & Hcop2 & Hyr & Hyr0 & HyrS & Hcur & Hfr & Hyb).
      pose proof (g_S K c G) as HS. pose proof (g_M K c G) as HM. pose proof (g_D K c G) as HD.
      pose proof (g_nblk K c G) as HN. pose proof (zlen_nonneg ch) as HL.
      set (cur := zlen (l_frames K ls)) in *.
      assert (HPi : PP i = i * VV) by (unfold PP; lia).
      rewrite HPi in *.
      set (end_idx := Z.min ((i + 1) * VV - xrem) LL).
      assert (HPi1 : PP (i + 1) = end_idx + xrem) by (unfold PP, end_idx; lia).
      set (yk := end_idx - i * VV + xrem).
      assert (Hyk : 1 <= yk <= VV) by (unfold yk, end_idx; lia).
      assert (Hend : 0 <= end_idx <= LL) by (unfold end_idx; nia).
      assert (Hcope : l_copied K ls <= end_idx) by (unfold end_idx; nia).
      unfold Model.dft_iter. cbv zeta. fold end_idx. fold yk.
      replace (end_idx <? 0) with false by lia.
      (* the buffer handed to the DFT holds the last D samples of the history *)
      set (hist := xs1 ++ zfirstn end_idx ch).
      assert (HX : XX = hist ++ zskipn end_idx ch).
      { unfold hist. rewrite <- app_assoc. now rewrite zfirstn_zskipn. }
      assert (Hhist : zlen hist = zlen xs1 + end_idx).
      { unfold hist. rewrite zlen_app, zlen_zfirstn. lia. }
      assert (Hbuf : exists xb copied,
        (if end_idx - DD <? 0
         then if (DD <=? end_idx - l_copied K ls) || (end_idx - l_copied K ls <? 0)
              then Err EAssert
              else Ok (zskipn (end_idx - l_copied K ls) (l_xbuf K ls) ++ slice (l_copied K ls) end_idx ch,
                       end_idx,
                       zskipn (end_idx - l_copied K ls) (l_xbuf K ls) ++ slice (l_copied K ls) end_idx ch)
         else Ok (l_xbuf K ls, l_copied K ls, slice (end_idx - DD) end_idx ch))
        = Ok (xb, copied, zlastn DD (Z0 ++ hist))
        /\ xb = zlastn DD (Z0 ++ xs1 ++ zfirstn copied ch)
        /\ 0 <= copied <= LL /\ copied <= end_idx).
      { destruct (end_idx - DD <? 0) eqn:Es.
        - replace ((DD <=? end_idx - l_copied K ls) || (end_idx - l_copied K ls <? 0)) with false by lia.
          assert (E : zskipn (end_idx - l_copied K ls) (l_xbuf K ls) ++ slice (l_copied K ls) end_idx ch
                      = zlastn DD (Z0 ++ hist)).
          { rewrite Hxb. unfold hist.
            replace (zfirstn end_idx ch) with (zfirstn (l_copied K ls) ch ++ slice (l_copied K ls) end_idx ch).
            2:{ rewrite <- !slice_0. symmetry. apply slice_split; lia. }
            set (A := Z0 ++ xs1 ++ zfirstn (l_copied K ls) ch).
            set (B := slice (l_copied K ls) end_idx ch).
            replace (Z0 ++ xs1 ++ zfirstn (l_copied K ls) ch ++ B) with (A ++ B)
              by (unfold A; now rewrite <- !app_assoc).
            assert (LB : zlen B = end_idx - l_copied K ls) by (unfold B; rewrite zlen_slice by lia; lia).
            rewrite zlastn_app_shift.
            - now rewrite LB.
            - lia.
            - unfold A. rewrite !zlen_app, zlen_zrepeat. pose proof (zlen_nonneg xs1).
              pose proof (zlen_nonneg (zfirstn (l_copied K ls) ch)). lia.
            - lia. }
          exists (zlastn DD (Z0 ++ hist)), end_idx. rewrite E. repeat split; try lia.
        - exists (l_xbuf K ls), (l_copied K ls). repeat split; try lia; try assumption.
          f_equal. f_equal.
          rewrite zlastn_slice by lia. unfold hist. rewrite !app_assoc.
          symmetry. apply zlastn_app_long; [lia|]. rewrite zlen_zfirstn. lia. }
      destruct Hbuf as (xb & copied & -> & Hxb' & Hcop' & Hcope'). cbn [bind].
      (* _fill_y_buf appends the next y_keep stream samples *)
      rewrite Hyb. rewrite HX.
      rewrite fill_y_buf_spec; try assumption; try lia.
      cbn [bind].
      (* the frame loop *)
      set (yr2 := l_yrem K ls + yk).
      assert (Hyr2 : yr2 = yrem0 + PP (i + 1) - SS * cur) by (unfold yr2, yk; lia).
      set (k := if yr2 <? 2 * SS then 0 else yr2 / SS - 1).
      pose proof (div_lo yr2 SS HS) as Hlo. pose proof (div_hi yr2 SS HS) as Hhi.
      assert (Hk0 : 0 <= k) by (unfold k; destruct (yr2 <? 2 * SS) eqn:E; nia).
      assert (Hk1 : yr2 - k * SS < 2 * SS) by (unfold k; destruct (yr2 <? 2 * SS) eqn:E; nia).
      assert (Hk2 : 1 <= k -> SS <= yr2 - k * SS) by (unfold k; destruct (yr2 <? 2 * SS) eqn:E; nia).
      assert (Hk3 : cur + k <= num_frames).
      { pose proof (frames_bound (PP (i + 1))) as FB.
        assert (0 <= PP (i + 1) <= num_raw) by (unfold PP; nia). specialize (FB H).
        unfold k. destruct (yr2 <? 2 * SS) eqn:E; [lia|].
        assert ((yrem0 + PP (i + 1)) / SS = yr2 / SS + cur).
        { rewrite <- Z.div_add by lia. f_equal. lia. }
        lia. }
      rewrite <- (Z2Nat.id k Hk0) in Hk1, Hk2, Hk3.
      rewrite (drain_spec c (hist ++ zskipn end_idx ch) num_frames G (Z.to_nat k)); try lia.
      2:{ fold cur. lia. }
      cbn [bind]. rewrite Z2Nat.id in * by lia.
      eexists. split; [reflexivity|].
      unfold LInv. cbn [l_xbuf l_ybuf l_yrem l_copied l_frames].
      rewrite <- HX. fold cur.
      rewrite zlen_app, zlen_map, zlen_zrange. fold cur. rewrite Z.max_r by lia.
      repeat split; try lia; try assumption.
      - rewrite Hfr. rewrite <- map_app. f_equal. rewrite zrange_app by lia. reflexivity.
      - f_equal; lia.
    Qed.

    Lemma dft_loop_spec n : forall i ls,
      0 <= i -> (forall j, i <= j < i + Z.of_nat n -> j * VV < num_raw) -> LInv i ls ->
      exists ls', dft_loop c xrem num_frames ch n i ls = Ok ls' /\ LInv (i + Z.of_nat n) ls'.
    Proof.
      induction n as [|n IH]; intros i ls Hi Hall HI.
      - exists ls. split; [reflexivity|]. now replace (i + Z.of_nat 0) with i by lia.
      - cbn [Model.dft_loop].
        destruct (dft_iter_spec i ls Hi) as (ls1 & E1 & I1); [apply Hall; lia | assumption |].
        rewrite E1. cbn [bind].
        destruct (IH (i + 1) ls1) as (ls2 & E2 & I2); [lia | intros; apply Hall; lia | assumption |].
        exists ls2. split; [exact E2|]. now replace (i + Z.of_nat (S n)) with (i + 1 + Z.of_nat n) by lia.
    Qed.
  End Loop.
End Chunk.
