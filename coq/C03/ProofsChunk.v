(* C03 / C01-SI - compute_chunk.  One overlap-save iteration preserves the loop
   invariant (dft_iter_spec), hence the whole DFT loop (dft_loop_spec); with
   _handle_skip and the final bookkeeping this gives the invariant [Inv] that
   links the state to the whole history, preserved by every compute_chunk call
   (chunk_body_spec), for chunks of any length (empty ones included). *)
From Coq Require Import ZArith List Bool Lia ZifyBool.
From Verif Require Import lib.C03_ListZ C03.Model C03.ProofsKernel C03.ProofsBlocks C03.ProofsStream.
Import ListNotations.
Open Scope Z_scope.

Section Chunk.
  Variable K : Type.
  Variable kzero : K.
  Variables kadd kmul : K -> K -> K.
  Variable phi : K -> K.
  Variable post : K -> K.
  Hypothesis add_assoc : forall a b c, kadd a (kadd b c) = kadd (kadd a b) c.
  Hypothesis add_0_l : forall a, kadd kzero a = a.
  Hypothesis add_0_r : forall a, kadd a kzero = a.

  Local Notation cfg := (cfg K).
  Local Notation state := (state K).
  Local Notation lstate := (lstate K).
  Local Notation fill_y_buf := (fill_y_buf K kzero kadd kmul phi).
  Local Notation drain := (drain K kzero kadd post).
  Local Notation dft_iter := (dft_iter K kzero kadd kmul phi post).
  Local Notation dft_loop := (dft_loop K kzero kadd kmul phi post).
  Local Notation chunk_body := (chunk_body K kzero kadd kmul phi post).
  Local Notation handle_skip := (handle_skip K).
  Local Notation frame_spec := (frame_spec K kzero kadd kmul phi post).
  Local Notation off := (off K).
  Local Notation geo := (geo K).
  Local Notation ybuf_of := (ybuf_of K kzero kadd kmul phi).

  Let fill_y_buf_spec := fill_y_buf_spec K kzero kadd kmul phi add_assoc add_0_l add_0_r.
  Let drain_spec := drain_spec K kzero kadd kmul phi post add_assoc add_0_l add_0_r.

  Variable c : cfg.
  Hypothesis G : geo c.

  Local Notation SS := (cS K c).
  Local Notation MM := (cM K c).
  Local Notation DD := (cD K c).
  Local Notation VV := (cD K c - cM K c + 1).
  Local Notation Z0 := (zrepeat kzero (cD K c)).

  (* ================= the DFT loop ================= *)
  Section Loop.
    (* xs1: everything fed before this call (skipped samples included);
       ch: the chunk (after _handle_skip); F0 frames emitted so far *)
    Variables (xs1 ch : list K) (F0 xrem yrem0 num_frames : Z).
    Local Notation LL := (zlen ch).
    Local Notation XX := (xs1 ++ ch).
    Local Notation num_raw := (xrem + zlen ch).
    Hypothesis Hxrem : 0 <= xrem <= VV.
    Hypothesis Hyrem0 : 0 <= yrem0 < 2 * SS.
    Hypothesis Hpos : zlen xs1 - xrem = off c + F0 * SS + yrem0.
    Hypothesis Hnf : num_frames = Z.max 0 ((num_raw + yrem0) / SS - 1).

    Definition PP (i : Z) : Z := Z.min (i * VV) num_raw.

    Definition LInv (i : Z) (ls : lstate) : Prop :=
      let cur := zlen (l_frames K ls) in
      l_xbuf K ls = zlastn DD (Z0 ++ xs1 ++ zfirstn (l_copied K ls) ch)
      /\ 0 <= l_copied K ls <= LL
      /\ l_copied K ls <= Z.max 0 (PP i - xrem)
      /\ l_yrem K ls = yrem0 + PP i - SS * cur
      /\ 0 <= l_yrem K ls < 2 * SS
      /\ (1 <= cur -> SS <= l_yrem K ls)
      /\ cur <= num_frames
      /\ l_frames K ls = map (frame_spec c XX) (zrange F0 cur)
      /\ l_ybuf K ls = ybuf_of c XX (F0 + cur) (l_yrem K ls).

    Lemma frames_bound p : 0 <= p <= num_raw -> Z.max 0 ((yrem0 + p) / SS - 1) <= num_frames.
    Proof.
      intros. pose proof (g_S K c G). subst num_frames.
      assert ((yrem0 + p) / SS <= (num_raw + yrem0) / SS) by (apply Z.div_le_mono; lia).
      lia.
    Qed.

    Lemma dft_iter_spec i ls :
      0 <= i -> i * VV < num_raw -> LInv i ls ->
      exists ls', dft_iter c xrem num_frames ch i ls = Ok ls' /\ LInv (i + 1) ls'.
    Proof.
      intros Hi HiV (Hxb & Hcop & Hcop2 & Hyr & Hyr0 & HyrS & Hcur & Hfr & Hyb).
      pose proof (g_S K c G) as HS. pose proof (g_M K c G) as HM. pose proof (g_D K c G) as HD.
      pose proof (g_nblk K c G) as HN. pose proof (zlen_nonneg ch) as HL.
      set (cur := zlen (l_frames K ls)) in *.
      assert (HPi : PP i = i * VV) by (unfold PP; lia).
      rewrite HPi in *.
      set (end_idx := Z.min ((i + 1) * VV - xrem) LL).
      assert (HPi1 : PP (i + 1) = end_idx + xrem) by (unfold PP, end_idx; lia).
      set (yk := end_idx - i * VV + xrem).
      assert (Hyk : 1 <= yk <= VV) by (unfold yk, end_idx; lia).
      assert (Hend : 0 <= end_idx <= LL) by (unfold end_idx; nia).
      assert (Hcope : l_copied K ls <= end_idx) by (unfold end_idx; nia).
      unfold Model.dft_iter. cbv zeta. fold end_idx. fold yk.
      replace (end_idx <? 0) with false by lia.
      (* the buffer handed to the DFT holds the last D samples of the history *)
      set (hist := xs1 ++ zfirstn end_idx ch).
      assert (HX : XX = hist ++ zskipn end_idx ch).
      { unfold hist. rewrite <- app_assoc. now rewrite zfirstn_zskipn. }
      assert (Hhist : zlen hist = zlen xs1 + end_idx).
      { unfold hist. rewrite zlen_app, zlen_zfirstn. lia. }
      assert (Hbuf : exists xb copied,
        (if end_idx - DD <? 0
         then if (DD <=? end_idx - l_copied K ls) || (end_idx - l_copied K ls <? 0)
              then Err EAssert
              else Ok (zskipn (end_idx - l_copied K ls) (l_xbuf K ls) ++ slice (l_copied K ls) end_idx ch,
                       end_idx,
                       zskipn (end_idx - l_copied K ls) (l_xbuf K ls) ++ slice (l_copied K ls) end_idx ch)
         else Ok (l_xbuf K ls, l_copied K ls, slice (end_idx - DD) end_idx ch))
        = Ok (xb, copied, zlastn DD (Z0 ++ hist))
        /\ xb = zlastn DD (Z0 ++ xs1 ++ zfirstn copied ch)
        /\ 0 <= copied <= LL /\ copied <= end_idx).
      { destruct (end_idx - DD <? 0) eqn:Es.
        - replace ((DD <=? end_idx - l_copied K ls) || (end_idx - l_copied K ls <? 0)) with false by lia.
          assert (E : zskipn (end_idx - l_copied K ls) (l_xbuf K ls) ++ slice (l_copied K ls) end_idx ch
                      = zlastn DD (Z0 ++ hist)).
          { rewrite Hxb. unfold hist.
            replace (zfirstn end_idx ch) with (zfirstn (l_copied K ls) ch ++ slice (l_copied K ls) end_idx ch).
            2:{ rewrite <- !slice_0. symmetry. apply slice_split; lia. }
            set (A := Z0 ++ xs1 ++ zfirstn (l_copied K ls) ch).
            set (B := slice (l_copied K ls) end_idx ch).
            replace (Z0 ++ xs1 ++ zfirstn (l_copied K ls) ch ++ B) with (A ++ B)
              by (unfold A; now rewrite <- !app_assoc).
            assert (LB : zlen B = end_idx - l_copied K ls) by (unfold B; rewrite zlen_slice by lia; lia).
            rewrite zlastn_app_shift.
            - now rewrite LB.
            - lia.
            - unfold A. rewrite !zlen_app, zlen_zrepeat. pose proof (zlen_nonneg xs1).
              pose proof (zlen_nonneg (zfirstn (l_copied K ls) ch)). lia.
            - lia. }
          exists (zlastn DD (Z0 ++ hist)), end_idx. rewrite E. repeat split; try lia.
        - exists (l_xbuf K ls), (l_copied K ls). repeat split; try lia; try assumption.
          f_equal. f_equal.
          rewrite zlastn_slice by lia. unfold hist. rewrite !app_assoc.
          symmetry. apply zlastn_app_long; [lia|]. rewrite zlen_zfirstn. lia. }
      destruct Hbuf as (xb & copied & -> & Hxb' & Hcop' & Hcope'). cbn [bind].
      (* _fill_y_buf appends the next y_keep stream samples *)
      rewrite Hyb. rewrite HX.
      rewrite fill_y_buf_spec; try assumption; try lia.
      cbn [bind].
      (* the frame loop *)
      set (yr2 := l_yrem K ls + yk).
      assert (Hyr2 : yr2 = yrem0 + PP (i + 1) - SS * cur) by (unfold yr2, yk; lia).
      set (k := if yr2 <? 2 * SS then 0 else yr2 / SS - 1).
      pose proof (div_lo yr2 SS HS) as Hlo. pose proof (div_hi yr2 SS HS) as Hhi.
      assert (Hk0 : 0 <= k) by (unfold k; destruct (yr2 <? 2 * SS) eqn:E; nia).
      assert (Hk1 : yr2 - k * SS < 2 * SS) by (unfold k; destruct (yr2 <? 2 * SS) eqn:E; nia).
      assert (Hk2 : 1 <= k -> SS <= yr2 - k * SS) by (unfold k; destruct (yr2 <? 2 * SS) eqn:E; nia).
      assert (Hk3 : cur + k <= num_frames).
      { pose proof (frames_bound (PP (i + 1))) as FB.
        assert (0 <= PP (i + 1) <= num_raw) by (unfold PP; nia). specialize (FB H).
        unfold k. destruct (yr2 <? 2 * SS) eqn:E; [lia|].
        assert ((yrem0 + PP (i + 1)) / SS = yr2 / SS + cur).
        { rewrite <- Z.div_add by lia. f_equal. lia. }
        lia. }
      clearbody k.
      set (kn := Z.to_nat k).
      assert (Hkn : Z.of_nat kn = k) by (unfold kn; lia).
      rewrite (drain_spec c (hist ++ zskipn end_idx ch) num_frames G kn);
        try (rewrite Hkn); try (fold yr2); try (fold cur); try lia.
      cbn [bind]. rewrite ?Hkn.
      eexists. split; [reflexivity|].
      unfold LInv. cbn [l_xbuf l_ybuf l_yrem l_copied l_frames].
      rewrite <- HX. fold cur.
      rewrite zlen_app, zlen_map, zlen_zrange. fold cur. rewrite (Z.max_r 0 k) by lia.
      repeat split; try lia; try assumption.
      - rewrite Hfr. rewrite <- map_app. f_equal.
        pose proof (zlen_nonneg (l_frames K ls)). fold cur in H. rewrite zrange_app by lia. reflexivity.
      - f_equal; lia.
    Qed.

    Lemma dft_loop_spec n : forall i ls,
      0 <= i -> (forall j, i <= j < i + Z.of_nat n -> j * VV < num_raw) -> LInv i ls ->
      exists ls', dft_loop c xrem num_frames ch n i ls = Ok ls' /\ LInv (i + Z.of_nat n) ls'.
    Proof.
      induction n as [|n IH]; intros i ls Hi Hall HI.
      - exists ls. split; [reflexivity|]. now replace (i + Z.of_nat 0) with i by lia.
      - cbn [Model.dft_loop].
        destruct (dft_iter_spec i ls Hi) as (ls1 & E1 & I1); [apply Hall; lia | assumption |].
        rewrite E1. cbn [bind].
        destruct (IH (i + 1) ls1) as (ls2 & E2 & I2); [lia | intros; apply Hall; lia | assumption |].
        exists ls2. split; [exact E2|]. now replace (i + Z.of_nat (S n)) with (i + 1 + Z.of_nat n) by lia.
    Qed.
  End Loop.

  (* ================= the state invariant ================= *)
  (* [xs]: every sample fed in this utterance; [F]: frames returned so far *)
  Definition Inv (st : state) (xs : list K) (F : Z) : Prop :=
    started K st = true
    /\ xbuf K st = zlastn DD (Z0 ++ xs)
    /\ 0 <= skip K st
    /\ 0 <= x_rem K st <= VV
    /\ 0 <= y_rem K st
    /\ x_rem K st + y_rem K st < 2 * SS
    /\ (0 < skip K st -> x_rem K st = 0 /\ y_rem K st = 0 /\ F = 0)
    /\ zlen xs - x_rem K st = off c - skip K st + F * SS + y_rem K st
    /\ 0 <= F
    /\ (1 <= F -> SS <= x_rem K st + y_rem K st)
    /\ ybuf K st = ybuf_of c xs F (y_rem K st).

  Lemma zlen_Z0_hist (xs : list K) : DD <= zlen (Z0 ++ xs).
  Proof.
    rewrite zlen_app, zlen_zrepeat. pose proof (zlen_nonneg xs). lia.
  Qed.

  Lemma handle_skip_spec st xs F ch : Inv st xs F ->
    handle_skip c (xbuf K st) (x_rem K st) (skip K st) ch
    = Ok (zlastn DD (Z0 ++ xs ++ zfirstn (Z.min (skip K st) (zlen ch)) ch),
          skip K st - Z.min (skip K st) (zlen ch),
          zskipn (Z.min (skip K st) (zlen ch)) ch).
  Proof.
    intros (Hst & Hxb & Hsk & Hxr & Hyr & Hsum & Hskip & Hrel & HF & HFS & Hyb).
    pose proof (g_S K c G) as HS. pose proof (g_M K c G) as HM. pose proof (g_D K c G) as HD.
    pose proof (zlen_nonneg ch) as HL.
    unfold Model.handle_skip.
    destruct (skip K st =? 0) eqn:E.
    - replace (Z.min (skip K st) (zlen ch)) with 0 by lia.
      rewrite zfirstn_nonpos by lia. rewrite app_nil_r. rewrite zskipn_nonpos by lia.
      rewrite Hxb. repeat f_equal. lia.
    - destruct Hskip as (-> & _ & _); [lia|]. cbn [Z.eqb negb].
      set (consumed := Z.min (skip K st) (zlen ch)).
      assert (Hc : 0 <= consumed <= zlen ch) by (unfold consumed; lia).
      assert (Lx : zlen (xbuf K st) = DD).
      { rewrite Hxb. rewrite zlen_zlastn by lia. pose proof (zlen_Z0_hist xs). lia. }
      rewrite Lx. f_equal. f_equal. f_equal.
      destruct (consumed <? DD) eqn:E2.
      + assert (LB : zlen (zfirstn consumed ch) = consumed) by (rewrite zlen_zfirstn; lia).
        rewrite Hxb. rewrite (app_assoc Z0).
        rewrite (zlastn_app_shift DD (Z0 ++ xs) (zfirstn consumed ch)).
        * now rewrite LB.
        * lia.
        * apply zlen_Z0_hist.
        * rewrite LB. lia.
      + rewrite zlastn_slice by lia. rewrite !app_assoc.
        symmetry. apply zlastn_app_long; [lia|]. rewrite zlen_zfirstn. lia.
  Qed.

  (* pure arithmetic of the DFT / frame bookkeeping *)
  Lemma iterations_valid S V num_raw yrem0 j :
    0 < S -> 0 < V -> 0 <= num_raw -> 0 <= yrem0 < 2 * S ->
    let q := num_raw / V in
    let nf := Z.max 0 ((num_raw + yrem0) / S - 1) in
    let np := if nf =? 0 then yrem0 else (nf + 1) * S in
    let nd := if q * V <? np - yrem0 then q + 1 else q in
    0 <= j < nd -> j * V < num_raw.
  Proof.
    intros HS HV Hr Hy q nf np nd Hj.
    pose proof (div_lo num_raw V HV) as A1. pose proof (div_hi num_raw V HV) as A2. fold q in A1, A2.
    pose proof (div_lo (num_raw + yrem0) S HS) as B1.
    destruct (Z_lt_ge_dec j q); [nia|].
    unfold nd in Hj. destruct (q * V <? np - yrem0) eqn:E; [|lia].
    assert (j = q) by lia. subst j.
    unfold np in E. destruct (nf =? 0) eqn:E2; [lia|].
    unfold nf in *. nia.
  Qed.

  Lemma final_count S V num_raw yrem0 cur yr :
    0 < S -> 0 < V -> 0 <= num_raw -> 0 <= yrem0 < 2 * S ->
    let q := num_raw / V in
    let nf := Z.max 0 ((num_raw + yrem0) / S - 1) in
    let np := if nf =? 0 then yrem0 else (nf + 1) * S in
    let nd := if q * V <? np - yrem0 then q + 1 else q in
    yr = yrem0 + Z.min (nd * V) num_raw - S * cur ->
    0 <= yr < 2 * S -> (1 <= cur -> S <= yr) -> 0 <= cur ->
    cur = nf.
  Proof.
    intros HS HV Hr Hy q nf np nd Hyr Hyr2 HyrS Hcur.
    pose proof (div_lo num_raw V HV) as A1. pose proof (div_hi num_raw V HV) as A2. fold q in A1, A2.
    pose proof (div_lo (num_raw + yrem0) S HS) as B1.
    pose proof (div_hi (num_raw + yrem0) S HS) as B2.
    set (d := (num_raw + yrem0) / S) in *.
    unfold nd in Hyr. destruct (q * V <? np - yrem0) eqn:E.
    - (* one extra, partial DFT: everything was processed *)
      rewrite Z.min_r in Hyr by nia.
      unfold nf. destruct (Z_le_gt_dec 1 cur); nia.
    - unfold np in E. rewrite Z.min_l in Hyr by nia.
      destruct (nf =? 0) eqn:E2.
      + assert (d <= 1) by (unfold nf in E2; lia).
        destruct (Z_le_gt_dec 1 cur); [nia|]. unfold nf. lia.
      + assert (Hnf : nf = d - 1) by (unfold nf in *; lia).
        rewrite Hnf in *.
        destruct (Z_le_gt_dec 1 cur); nia.
  Qed.

  Lemma chunk_body_spec st xs F ch : Inv st xs F ->
    exists st' fr, chunk_body c st ch = Ok (st', fr)
      /\ Inv st' (xs ++ ch) (F + zlen fr)
      /\ fr = map (frame_spec c (xs ++ ch)) (zrange F (zlen fr))
      /\ dt K st' = dt K st.
  Proof.
    intros HI. pose proof HI as (Hst & Hxb & Hsk & Hxr & Hyr & Hsum & Hskip & Hrel & HF & HFS & Hyb).
    pose proof (g_S K c G) as HS. pose proof (g_M K c G) as HM. pose proof (g_D K c G) as HD.
    pose proof (zlen_nonneg ch) as HL. pose proof (zlen_nonneg xs) as Hn.
    unfold Model.chunk_body. rewrite (handle_skip_spec st xs F ch HI). cbn [bind]. cbv zeta.
    set (consumed := Z.min (skip K st) (zlen ch)).
    assert (Hc : 0 <= consumed <= zlen ch) by (unfold consumed; lia).
    set (xs1 := xs ++ zfirstn consumed ch). set (ch1 := zskipn consumed ch).
    assert (HX : xs1 ++ ch1 = xs ++ ch).
    { unfold xs1, ch1. rewrite <- app_assoc. now rewrite zfirstn_zskipn. }
    assert (L1 : zlen ch1 = zlen ch - consumed) by (unfold ch1; rewrite zlen_zskipn; lia).
    assert (Lx1 : zlen xs1 = zlen xs + consumed).
    { unfold xs1. rewrite zlen_app, zlen_zfirstn. lia. }
    replace (Z0 ++ xs ++ zfirstn consumed ch) with (Z0 ++ xs1) by reflexivity.
    set (num_raw := x_rem K st + zlen ch1).
    set (nf := Z.max 0 ((num_raw + y_rem K st) / SS - 1)).
    set (np := if nf =? 0 then y_rem K st else (nf + 1) * SS).
    set (nd := if num_raw / VV * VV <? np - y_rem K st then num_raw / VV + 1 else num_raw / VV).
    destruct (Z_lt_ge_dec 0 (skip K st - consumed)) as [Hskp | Hskp].
    - (* still skipping: the whole chunk was swallowed *)
      destruct Hskip as (Hx0 & Hy0 & HF0); [lia|].
      assert (Hcl : consumed = zlen ch) by (unfold consumed in *; lia).
      assert (Hch1 : ch1 = []) by (apply zlen_zero_nil; lia).
      assert (Hnr : num_raw = 0) by (unfold num_raw; rewrite Hch1, zlen_nil; lia).
      assert (Hnf0 : nf = 0).
      { unfold nf. rewrite Hnr, Hy0. rewrite Z.div_0_l by lia. reflexivity. }
      assert (Hnd0 : nd = 0).
      { unfold nd, np. rewrite Hnf0, Hnr, Hy0. rewrite Z.div_0_l by lia. reflexivity. }
      rewrite Hnd0. cbn [Z.to_nat Model.dft_loop bind l_frames l_copied l_xbuf l_ybuf l_yrem].
      rewrite Hnf0. cbn [zlen length Z.of_nat Z.eqb negb].
      rewrite Hch1. cbn [zlen length Z.of_nat Z.sub Z.eqb Z.opp].
      eexists. eexists. split; [reflexivity|].
      cbn [zlen length Z.of_nat]. replace (F + 0) with F by lia.
      split; [|split; [reflexivity | reflexivity]].
      unfold Inv. cbn [started xbuf skip x_rem y_rem ybuf].
      rewrite Hnr. replace (Z.max 0 (0 - 0 * VV)) with 0 by lia.
      rewrite Hy0, HF0 in *.
      assert (Hxsch : xs1 = xs ++ ch).
      { unfold xs1. rewrite Hcl. now rewrite zfirstn_all by lia. }
      rewrite Hxsch.
      repeat split; try lia; try assumption.
      rewrite zlen_app. lia.
    - (* skip exhausted *)
      assert (Hsk0 : skip K st - consumed = 0) by (unfold consumed in *; lia).
      rewrite Hsk0.
      assert (Hpos : zlen xs1 - x_rem K st = off c + F * SS + y_rem K st) by lia.
      assert (Hy2 : 0 <= y_rem K st < 2 * SS) by lia.
      assert (HV : 0 < VV) by lia.
      assert (Hnr : 0 <= num_raw) by (unfold num_raw; pose proof (zlen_nonneg ch1); lia).
      assert (Hnd : 0 <= nd).
      { assert (0 <= num_raw / VV) by (apply Z.div_pos; lia).
        unfold nd. destruct (_ <? _); lia. }
      destruct (dft_loop_spec xs1 ch1 F (x_rem K st) (y_rem K st) nf Hxr Hy2 Hpos eq_refl
                              (Z.to_nat nd) 0 (mkL K (zlastn DD (Z0 ++ xs1)) (ybuf K st) (y_rem K st) 0 []))
        as (ls & El & IL).
      { lia. }
      { intros j Hj. apply (iterations_valid SS VV num_raw (y_rem K st) j HS HV Hnr Hy2).
        fold nf. fold np. fold nd. lia. }
      { unfold LInv. cbn [l_xbuf l_ybuf l_yrem l_copied l_frames zlen length Z.of_nat].
        unfold PP. replace (0 * VV) with 0 by lia. rewrite Z.min_l by (fold num_raw; lia).
        rewrite zfirstn_nonpos by lia. rewrite app_nil_r.
        repeat split; try lia.
        rewrite Hyb. rewrite HX. replace (F + 0) with F by lia.
        symmetry. apply ybuf_of_prefix.
        destruct (Z_lt_ge_dec 0 (skip K st)) as [Hp | Hp].
        - left. destruct Hskip as (_ & -> & _); lia.
        - right. lia. }
      fold num_raw in El. fold nf in El. rewrite El. cbn [bind].
      replace (0 + Z.of_nat (Z.to_nat nd)) with nd in IL by lia.
      destruct IL as (Lxb & Lcop & Lcop2 & Lyr & Lyr2 & LyrS & Lcur & Lfr & Lyb).
      unfold PP in Lcop2, Lyr. fold num_raw in Lcop2, Lyr.
      pose proof (zlen_nonneg (l_frames K ls)) as Hcur0.
      assert (Hcnt : zlen (l_frames K ls) = nf).
      { apply (final_count SS VV num_raw (y_rem K st) _ (l_yrem K ls) HS HV Hnr Hy2);
          fold nf; fold np; fold nd; try assumption; lia. }
      rewrite Hcnt. replace (negb (nf =? nf)) with false by lia.
      eexists. eexists. split; [reflexivity|].
      rewrite Hcnt. rewrite HX in *.
      split; [|split; [rewrite <- Hcnt; exact Lfr | reflexivity]].
      pose proof (div_lo num_raw VV HV) as A1. pose proof (div_hi num_raw VV HV) as A2.
      pose proof (div_lo (num_raw + y_rem K st) SS HS) as B1.
      pose proof (div_hi (num_raw + y_rem K st) SS HS) as B2.
      assert (Hndq : num_raw / VV <= nd <= num_raw / VV + 1) by (unfold nd; destruct (_ <? _); lia).
      assert (HP : Z.max 0 (num_raw - nd * VV) + Z.min (nd * VV) num_raw = num_raw) by lia.
      unfold Inv. cbn [started xbuf skip x_rem y_rem ybuf].
      assert (Hxb2 : (if zlen ch1 - l_copied K ls =? 0 then l_xbuf K ls
                      else zskipn (Z.min DD (zlen ch1 - l_copied K ls)) (l_xbuf K ls)
                                  ++ zlastn (Z.min DD (zlen ch1 - l_copied K ls)) ch1)
                     = zlastn DD (Z0 ++ xs ++ ch)).
      { rewrite <- HX. rewrite Lxb.
        destruct (zlen ch1 - l_copied K ls =? 0) eqn:E0.
        - now rewrite zfirstn_all by lia.
        - destruct (Z_le_gt_dec (zlen ch1 - l_copied K ls) DD).
          + rewrite Z.min_r by lia.
            set (A := Z0 ++ xs1 ++ zfirstn (l_copied K ls) ch1).
            set (B := zskipn (l_copied K ls) ch1).
            assert (EB : zlastn (zlen ch1 - l_copied K ls) ch1 = B).
            { unfold zlastn, B. f_equal. lia. }
            assert (EAB : Z0 ++ xs1 ++ ch1 = A ++ B).
            { unfold A, B. rewrite <- !app_assoc. now rewrite zfirstn_zskipn. }
            assert (LB : zlen B = zlen ch1 - l_copied K ls) by (unfold B; rewrite zlen_zskipn; lia).
            rewrite EB, EAB. rewrite (zlastn_app_shift DD A B).
            * now rewrite LB.
            * lia.
            * apply zlen_Z0_hist.
            * rewrite LB. lia.
          + rewrite Z.min_l by lia. rewrite zskipn_all.
            * cbn [app]. rewrite (app_assoc Z0). symmetry. apply zlastn_app_long; lia.
            * rewrite zlen_zlastn by lia. pose proof (zlen_Z0_hist (xs1 ++ zfirstn (l_copied K ls) ch1)). lia. }
      rewrite Hxb2.
      assert (HFnf : 0 <= nf) by (unfold nf; lia).
      rewrite Hcnt in Lyr, Lyb, LyrS.
      assert (Htot : zlen (xs ++ ch) = zlen xs1 + zlen ch1) by (rewrite zlen_app; lia).
      repeat split; try assumption; try lia.
      + nia.
      + unfold nf in *. nia.
  Qed.
End Chunk.
