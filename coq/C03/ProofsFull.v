(* C03 / C01-SI - whole utterances: finalize, any stream of chunks,
   compute_full and frame_by_frame_calculation all return the documented
   definition [si_spec]; frame count; dtype rule; energy = unit impulse;
   constructor geometry and filter preparation. *)
From Coq Require Import ZArith List Bool Lia ZifyBool.
From Verif Require Import lib.C03_ListZ C03.Model C03.ProofsKernel C03.ProofsBlocks C03.ProofsStream C03.ProofsChunk.
Import ListNotations.
Open Scope Z_scope.

Section Full.
  Variable K : Type.
  Variable kzero : K.
  Variables kadd kmul : K -> K -> K.
  Variable phi : K -> K.
  Variable post : K -> K.
  Hypothesis add_assoc : forall a b c, kadd a (kadd b c) = kadd (kadd a b) c.
  Hypothesis add_0_l : forall a, kadd kzero a = a.
  Hypothesis add_0_r : forall a, kadd a kzero = a.

  Local Notation cfg := (cfg K).
  Local Notation state := (state K).
  Local Notation chunk_body := (chunk_body K kzero kadd kmul phi post).
  Local Notation compute_chunk := (compute_chunk K kzero kadd kmul phi post).
  Local Notation preamble := (preamble K kzero).
  Local Notation finalize := (finalize K kzero kadd kmul phi post).
  Local Notation compute_full := (compute_full K kzero kadd kmul phi post).
  Local Notation stream_chunks := (stream_chunks K kzero kadd kmul phi post).
  Local Notation si_stream := (si_stream K kzero kadd kmul phi post).
  Local Notation fbf := (fbf K kzero kadd kmul phi post).
  Local Notation frame_spec := (frame_spec K kzero kadd kmul phi post).
  Local Notation si_spec := (si_spec K kzero kadd kmul phi post).
  Local Notation coef := (coef K kzero kadd kmul phi post).
  Local Notation ys := (ys K kzero kadd kmul phi).
  Local Notation lconv := (lconv K kzero kadd kmul).
  Local Notation off := (off K).
  Local Notation pre := (pre K).
  Local Notation geo := (geo K).
  Local Notation ybuf_of := (ybuf_of K kzero kadd kmul phi).
  Local Notation Inv := (Inv K kzero kadd kmul phi).
  Local Notation blocks_of := (blocks_of K kzero kadd kmul).

  Let chunk_body_spec := chunk_body_spec K kzero kadd kmul phi post add_assoc add_0_l add_0_r.

  (* ---- the documented frames do not depend on what follows / on zero padding ---- *)
  Lemma frame_spec_prefix c xs more k :
    (k + 2) * cS K c + off c <= zlen xs ->
    frame_spec c (xs ++ more) k = frame_spec c xs k.
  Proof.
    intros H. unfold Model.frame_spec. apply map_ext. intros tp.
    unfold Model.coef. f_equal. f_equal.
    apply map_zrange_ext. intros t Ht. unfold Model.ys. f_equal.
    apply (lconv_prefix K kzero kadd kmul). lia.
  Qed.

  Lemma frame_spec_zero_ext c xs m k :
    frame_spec c (xs ++ zrepeat kzero m) k = frame_spec c xs k.
  Proof.
    unfold Model.frame_spec. apply map_ext. intros tp.
    unfold Model.coef. f_equal. f_equal.
    apply map_ext. intros t. unfold Model.ys. f_equal.
    apply (lconv_zero_ext K kzero kadd kmul).
  Qed.

  (* frames already returned only read samples already seen *)
  Lemma Inv_frames_seen c st xs F : geo c -> Inv c st xs F ->
    forall k, 0 <= k < F -> (k + 2) * cS K c + off c <= zlen xs.
  Proof.
    intros G (Hst & Hxb & Hsk & Hxr & Hyr & Hsum & Hskip & Hrel & HF & HFS & Hyb) k Hk.
    pose proof (g_S K c G).
    assert (skip K st = 0) by (destruct (Z_lt_ge_dec 0 (skip K st)) as [P|P]; [destruct (Hskip P) as (_&_&?)|]; lia).
    nia.
  Qed.

  Lemma Inv_frames_le c st xs F : geo c -> Inv c st xs F ->
    F <= (zlen xs + cS K c / 2) / cS K c.
  Proof.
    intros G HI. pose proof HI as (Hst & Hxb & Hsk & Hxr & Hyr & Hsum & Hskip & Hrel & HF & HFS & Hyb).
    pose proof (g_S K c G) as HS. pose proof (g_tr K c G) as Htr. pose proof (zlen_nonneg xs).
    assert (0 <= cS K c / 2) by (apply Z.div_pos; lia).
    destruct (Z_le_gt_dec F 0).
    - assert (0 <= (zlen xs + cS K c / 2) / cS K c) by (apply Z.div_pos; lia). lia.
    - assert (skip K st = 0) by (destruct (Z_lt_ge_dec 0 (skip K st)) as [P|P]; [destruct (Hskip P) as (_&_&?)|]; lia).
      assert (F * cS K c <= zlen xs).
      { unfold Model.off in Hrel. destruct (cCentered K c); nia. }
      apply Z.div_le_lower_bound; lia.
  Qed.

  (* ---- _compute_preamble ---- *)
  Lemma preamble_started c st d : started K st = true -> dtype_eqb d (dt K st) = true ->
    preamble c st d = Ok st.
  Proof. intros H1 H2. unfold Model.preamble. now rewrite H1, H2. Qed.

  Lemma dtype_eqb_refl d : dtype_eqb d d = true.
  Proof. destruct d; reflexivity. Qed.

  Lemma dtype_eqb_eq a b : dtype_eqb a b = true -> a = b.
  Proof. destruct a, b; simpl; congruence. Qed.

  Lemma preamble_fresh c st d : geo c -> started K st = false -> is_floating d = true ->
    exists st0, preamble c st d = Ok st0 /\ Inv c st0 [] 0 /\ dt K st0 = d.
  Proof.
    intros G H1 H2. unfold Model.preamble. rewrite H1, H2. cbn [negb].
    eexists. split; [reflexivity|]. split; [|reflexivity].
    pose proof (g_S K c G) as HS. pose proof (g_M K c G) as HM. pose proof (g_D K c G) as HD.
    pose proof (g_tr K c G) as Htr.
    unfold ProofsChunk.Inv. cbn [started xbuf skip x_rem y_rem ybuf].
    rewrite app_nil_r.
    assert (E : zlastn (cD K c) (zrepeat kzero (cD K c)) = zrepeat kzero (cD K c)).
    { unfold zlastn. rewrite zlen_zrepeat. apply zskipn_nonpos. lia. }
    rewrite E. change (zlen (@nil K)) with 0. unfold Model.off.
    assert (Eyb : map (fun _ : list K => zrepeat (kzero, kzero) (cNblk K c)) (cTaps K c)
                  = ybuf_of c [] 0 0).
    { unfold ProofsStream.ybuf_of. apply map_ext. intros tp.
      unfold pendf. rewrite zrange_nonpos by lia. cbn [map].
      symmetry. apply blocks_of_nil. }
    rewrite Eyb.
    destruct (cCentered K c); [destruct (cTr K c - cS K c <? 0) eqn:E1|];
      repeat split; try reflexivity; try lia.
  Qed.

  (* ---- compute_chunk on a started computer ---- *)
  Lemma compute_chunk_started c st xs F d ch : geo c -> Inv c st xs F -> dt K st = d ->
    exists st' fr, compute_chunk c st (d, ch) = Ok (st', fr)
      /\ Inv c st' (xs ++ ch) (F + zlen fr)
      /\ fr = map (frame_spec c (xs ++ ch)) (zrange F (zlen fr))
      /\ dt K st' = d.
  Proof.
    intros G HI Hd. unfold Model.compute_chunk. cbn [fst snd].
    rewrite preamble_started.
    - cbn [bind]. destruct (chunk_body_spec c G st xs F ch HI) as (st' & fr & E & I & Fr & D).
      exists st', fr. split; [exact E|]. split; [exact I|]. split; [exact Fr | congruence].
    - now destruct HI.
    - rewrite Hd. apply dtype_eqb_refl.
  Qed.

  (* ---- finalize ---- *)
  Lemma finalize_spec c st xs F : pre c -> Inv c st xs F ->
    exists st', finalize c st
      = Ok (st', map (frame_spec c xs) (zrange F ((zlen xs + cS K c / 2) / cS K c - F)))
      /\ started K st' = false /\ dt K st' = dt K st.
  Proof.
    intros (G & HP) HI.
    pose proof (Inv_frames_le c st xs F G HI) as Hle.
    pose proof HI as (Hst & Hxb & Hsk & Hxr & Hyr & Hsum & Hskip & Hrel & HF & HFS & Hyb).
    pose proof (g_S K c G) as HS. pose proof (g_M K c G) as HM. pose proof (g_D K c G) as HD.
    pose proof (g_tr K c G) as Htr. pose proof (zlen_nonneg xs) as Hn.
    unfold Model.finalize. rewrite Hst. cbv zeta.
    set (S := cS K c) in *. set (n := zlen xs) in *.
    set (buf_len := cTr K c - skip K st + x_rem K st + y_rem K st - (if cCentered K c then S else 0)).
    assert (Hbl : buf_len = n - F * S).
    { unfold buf_len, Model.off in *. destruct (cCentered K c); lia. }
    assert (Hdiv : (buf_len + S / 2) / S = (n + S / 2) / S - F).
    { rewrite Hbl. replace (n - F * S + S / 2) with (n + S / 2 + (- F) * S) by lia.
      rewrite Z.div_add by lia. lia. }
    rewrite Hdiv. set (nft := (n + S / 2) / S) in *.
    rewrite Z.max_r by lia.
    destruct (1 <=? nft - F) eqn:E1.
    - (* frames are still owed: feed zeros *)
      set (pad := (nft - F - 1) * S + (cM K c + S - 1) - buf_len).
      pose proof (div_lo (n + S / 2) S HS) as D1. pose proof (div_hi (n + S / 2) S HS) as D2.
      fold nft in D1, D2.
      assert (H2 : 0 <= S / 2) by (apply Z.div_pos; lia).
      assert (Hpad : 0 <= pad).
      { unfold pad. rewrite Hbl. destruct (cCentered K c); nia. }
      replace (pad <? 0) with false by lia.
      destruct (compute_chunk_started c st xs F (dt K st) (zrepeat kzero pad) G HI eq_refl)
        as (st' & fr & E & I & Fr & D).
      rewrite E. cbn [bind].
      assert (Hfr : zfirstn (nft - F) fr = map (frame_spec c xs) (zrange F (nft - F))).
      { (* enough frames came out *)
        destruct I as (Hst' & Hxb' & Hsk' & Hxr' & Hyr' & Hsum' & Hskip' & Hrel' & HF' & HFS' & Hyb').
        rewrite zlen_app, zlen_zrepeat in Hrel'. fold n in Hrel'. rewrite Z.max_r in Hrel' by lia.
        pose proof (zlen_nonneg fr) as Hfr0.
        assert (Henough : nft - F <= zlen fr).
        { assert (skip K st' = 0).
          { destruct (Z_lt_ge_dec 0 (skip K st')) as [P|P]; [|lia].
            destruct (Hskip' P) as (X1 & X2 & X3).
            unfold pad, Model.off in *. rewrite Hbl in *. destruct (cCentered K c); nia. }
          unfold pad, Model.off in *. rewrite Hbl in *. destruct (cCentered K c); nia. }
        rewrite Fr. rewrite zfirstn_map. rewrite zfirstn_zrange by lia.
        apply map_ext. intros k. apply frame_spec_zero_ext. }
      rewrite Hfr.
      eexists. split; [reflexivity|]. split; [reflexivity | exact D].
    - rewrite (zrange_nonpos F (nft - F)) by lia.
      eexists. split; [reflexivity|]. split; reflexivity.
  Qed.

  (* ---- any stream of chunks ---- *)
  Lemma stream_chunks_spec c d : geo c -> forall chunks st xs F,
    Inv c st xs F -> dt K st = d ->
    exists st' F', stream_chunks c st (map (fun ch => (d, ch)) chunks)
                                  (map (frame_spec c xs) (zrange 0 F))
      = Ok (st', map (frame_spec c (xs ++ concat chunks)) (zrange 0 F'))
      /\ Inv c st' (xs ++ concat chunks) F' /\ dt K st' = d.
  Proof.
    intros G. induction chunks as [|ch t IH]; intros st xs F HI Hd.
    - exists st, F. cbn [map Model.stream_chunks concat]. rewrite app_nil_r. auto.
    - cbn [map Model.stream_chunks concat].
      destruct (compute_chunk_started c st xs F d ch G HI Hd) as (st1 & fr & E & I & Fr & D).
      rewrite E. cbn [bind].
      assert (Eacc : map (frame_spec c xs) (zrange 0 F) ++ fr
                     = map (frame_spec c (xs ++ ch)) (zrange 0 (F + zlen fr))).
      { pose proof HI as (_ & _ & _ & _ & _ & _ & _ & _ & HF & _).
        rewrite zrange_app by (pose proof (zlen_nonneg fr); lia). rewrite map_app.
        replace (0 + F) with F by lia. rewrite <- Fr. f_equal.
        apply map_ext_in. intros k Hk. apply in_zrange in Hk. symmetry.
        apply frame_spec_prefix. apply (Inv_frames_seen c st xs F G HI). lia. }
      rewrite Eacc.
      destruct (IH st1 (xs ++ ch) (F + zlen fr) I D) as (st' & F' & E' & I' & D').
      exists st', F'. rewrite <- app_assoc in *. auto.
  Qed.

  Lemma si_spec_nil c : 0 < cS K c -> si_spec c [] = [].
  Proof.
    intros. unfold Model.si_spec, num_frames_spec. change (zlen (@nil K)) with 0.
    rewrite Z.div_small; [reflexivity|].
    split; [apply Z.div_pos; lia|]. apply Z.div_lt_upper_bound; lia.
  Qed.

  (* compute_chunk on each chunk (any number, any lengths), then finalize *)
  Lemma si_stream_spec c st d chunks :
    pre c -> started K st = false -> is_floating d = true -> chunks <> [] ->
    exists st', si_stream c st (map (fun ch => (d, ch)) chunks)
                = Ok (st', d, si_spec c (concat chunks))
                /\ started K st' = false.
  Proof.
    intros HP Hns Hfl Hne. pose proof HP as (G & _).
    destruct chunks as [|ch t]; [congruence|].
    unfold Model.si_stream. cbn [map Model.stream_chunks].
    unfold Model.compute_chunk at 1. cbn [fst snd].
    destruct (preamble_fresh c st d G Hns Hfl) as (st0 & E0 & I0 & D0).
    rewrite E0. cbn [bind].
    destruct (chunk_body_spec c G st0 [] 0 ch I0) as (st1 & fr & E1 & I1 & Fr & D1).
    rewrite E1. cbn [bind app].
    cbn [app] in *. replace (0 + zlen fr) with (zlen fr) in I1 by lia.
    rewrite Fr.
    destruct (stream_chunks_spec c d G t st1 ch (zlen fr) I1 ltac:(congruence))
      as (st2 & F2 & E2 & I2 & D2).
    rewrite E2. cbn [bind].
    destruct (finalize_spec c st2 _ F2 HP I2) as (st3 & E3 & S3 & D3).
    rewrite E3. cbn [bind].
    exists st3. split; [|assumption].
    f_equal. f_equal; [f_equal; congruence|].
    rewrite <- map_app. unfold Model.si_spec, num_frames_spec. cbn [concat]. f_equal.
    pose proof (Inv_frames_le c st2 _ F2 G I2).
    destruct I2 as (_ & _ & _ & _ & _ & _ & _ & _ & HF2 & _).
    rewrite <- zrange_app by lia. f_equal. lia.
  Qed.

  Lemma si_stream_nil c st : started K st = false ->
    si_stream c st [] = Ok (st, dt K st, []).
  Proof.
    intros H. unfold Model.si_stream. cbn [Model.stream_chunks bind].
    unfold Model.finalize. rewrite H. reflexivity.
  Qed.

  (* ---- compute_full ---- *)
  Lemma compute_full_is_stream c st sig : started K st = false ->
    compute_full c st sig = si_stream c st [sig].
  Proof.
    intros H. unfold Model.compute_full, Model.si_stream. rewrite H.
    cbn [Model.stream_chunks].
    destruct (compute_chunk c st sig) as [[st1 f1]|e]; reflexivity.
  Qed.

  Lemma compute_full_spec c st d xs :
    pre c -> started K st = false -> is_floating d = true ->
    exists st', compute_full c st (d, xs) = Ok (st', d, si_spec c xs) /\ started K st' = false.
  Proof.
    intros HP Hns Hfl. rewrite compute_full_is_stream by assumption.
    destruct (si_stream_spec c st d [xs] HP Hns Hfl ltac:(discriminate)) as (st' & E & S').
    cbn [map concat] in E. rewrite app_nil_r in E. eauto.
  Qed.

  Lemma compute_full_rejects_nonfloat c st d xs :
    started K st = false -> is_floating d = false ->
    compute_full c st (d, xs) = Err EValue.
  Proof.
    intros H1 H2. unfold Model.compute_full, Model.compute_chunk, Model.preamble.
    cbn [fst snd]. rewrite H1, H2. reflexivity.
  Qed.

  Lemma compute_full_rejects_started c st sig :
    started K st = true -> compute_full c st sig = Err EValue.
  Proof. intros H. unfold Model.compute_full. now rewrite H. Qed.

  (* a chunk whose dtype differs from the first chunk's is rejected *)
  Lemma compute_chunk_rejects_other_dtype c st d ch :
    started K st = true -> dtype_eqb d (dt K st) = false ->
    compute_chunk c st (d, ch) = Err EValue.
  Proof.
    intros H1 H2. unfold Model.compute_chunk, Model.preamble. cbn [fst]. now rewrite H1, H2.
  Qed.

  (* ---- frame_by_frame_calculation ---- *)
  Lemma concat_cut fuel cs (xs : list K) : 1 <= cs -> (length xs <= fuel)%nat ->
    concat (cut K fuel cs xs) = xs /\ (xs <> [] -> cut K fuel cs xs <> []).
  Proof.
    intros Hcs. revert xs. induction fuel as [|f IH]; intros xs Hf.
    - destruct xs; [split; [reflexivity | congruence] | simpl in Hf; lia].
    - destruct xs as [|x t]; [split; [reflexivity | congruence]|].
      cbn [cut]. split; [|discriminate].
      cbn [concat]. destruct (IH (zskipn cs (x :: t))) as (E & _).
      { pose proof (zlen_zskipn cs (x :: t)) as L. unfold zlen in L. simpl length in *. lia. }
      rewrite E. apply zfirstn_zskipn.
  Qed.

  Lemma fbf_spec c st d xs cs :
    pre c -> started K st = false -> is_floating d = true -> 1 <= cs -> xs <> [] ->
    exists st', fbf c st (d, xs) cs = Ok (st', d, si_spec c xs) /\ started K st' = false.
  Proof.
    intros HP Hns Hfl Hcs Hne. unfold Model.fbf. rewrite Hns. cbn [fst snd].
    destruct (concat_cut (length xs) cs xs Hcs (le_n _)) as (Ec & Hc).
    destruct (si_stream_spec c st d (cut K (length xs) cs xs) HP Hns Hfl (Hc Hne)) as (st' & E & S').
    rewrite Ec in E. eauto.
  Qed.

  (* the only difference for an empty signal: no compute_chunk call is made, so
     the (empty) result carries the computer's previous dtype *)
  Lemma fbf_nil c st d cs : started K st = false ->
    fbf c st (d, []) cs = Ok (st, dt K st, []).
  Proof.
    intros H. unfold Model.fbf. rewrite H. cbn [snd length cut map]. now apply si_stream_nil.
  Qed.

  (* ---- shape of the result ---- *)
  Lemma si_spec_length c xs : 0 < cS K c ->
    zlen (si_spec c xs) = (zlen xs + cS K c / 2) / cS K c.
  Proof.
    intros HS. unfold Model.si_spec, num_frames_spec. rewrite zlen_map, zlen_zrange.
    apply Z.max_r. apply Z.div_pos; [|lia].
    pose proof (zlen_nonneg xs). assert (0 <= cS K c / 2) by (apply Z.div_pos; lia). lia.
  Qed.

  Lemma si_spec_row_length c xs row : In row (si_spec c xs) -> zlen row = zlen (cTaps K c).
  Proof.
    unfold Model.si_spec. rewrite in_map_iff. intros (k & <- & _).
    unfold Model.frame_spec. apply zlen_map.
  Qed.

  Lemma si_spec_nth c xs k i : 0 <= k < (zlen xs + cS K c / 2) / cS K c -> 0 <= i < zlen (cTaps K c) ->
    znth i (znth k (si_spec c xs) []) kzero = coef c xs (znth i (cTaps K c) []) k.
  Proof.
    intros Hk Hi. unfold Model.si_spec, num_frames_spec.
    rewrite (znth_map _ k _ 0) by (rewrite zlen_zrange; lia).
    rewrite znth_zrange by lia. unfold Model.frame_spec.
    rewrite (znth_map _ i _ []) by lia. reflexivity.
  Qed.
  (* ---- corollaries in the form Props.v exports ---- *)
  Lemma si_chunk_invariance_l c st d c1 c2 :
    pre c -> started K st = false -> is_floating d = true -> c1 <> [] -> c2 <> [] ->
    concat c1 = concat c2 ->
    exists st1 st2 rows,
      si_stream c st (map (fun ch => (d, ch)) c1) = Ok (st1, d, rows) /\
      si_stream c st (map (fun ch => (d, ch)) c2) = Ok (st2, d, rows).
  Proof.
    intros HP Hns Hfl H1 H2 Hc.
    destruct (si_stream_spec c st d c1 HP Hns Hfl H1) as (st1 & E1 & _).
    destruct (si_stream_spec c st d c2 HP Hns Hfl H2) as (st2 & E2 & _).
    exists st1, st2, (si_spec c (concat c1)). split; [exact E1|]. rewrite Hc. exact E2.
  Qed.

  Lemma fbf_eq_full_l c st d xs cs :
    pre c -> started K st = false -> is_floating d = true -> 1 <= cs -> xs <> [] ->
    exists st1 st2 rows,
      fbf c st (d, xs) cs = Ok (st1, d, rows) /\
      compute_full c st (d, xs) = Ok (st2, d, rows) /\
      rows = si_spec c xs.
  Proof.
    intros HP Hns Hfl Hcs Hne.
    destruct (fbf_spec c st d xs cs HP Hns Hfl Hcs Hne) as (st1 & E1 & _).
    destruct (compute_full_spec c st d xs HP Hns Hfl) as (st2 & E2 & _).
    exists st1, st2, (si_spec c xs). auto.
  Qed.
End Full.
