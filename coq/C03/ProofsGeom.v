(* C03 - the constructor: geometry (max_support, translation, dft_size, number
   of accumulator blocks), filter preparation (roll + clamp), the energy
   "filter" (unit impulse), and the fact that every computer the constructor
   can build whose frame shift is shorter than the longest filter's one-sided
   support satisfies the precondition [pre] of the main theorems. *)
From Coq Require Import ZArith List Bool Lia ZifyBool.
From Verif Require Import lib.C03_ListZ C03.Model C03.ProofsKernel C03.ProofsBlocks C03.ProofsStream C03.ProofsChunk C03.ProofsFull.
Import ListNotations.
Open Scope Z_scope.

(* ---- geometry ---- *)
Lemma fold_max_ge_init f l init : init <= fold_max f init l.
Proof.
  unfold fold_max. revert init. induction l as [|s l IH]; intros init; simpl; [lia|].
  specialize (IH (Z.max (f s) init)). lia.
Qed.

Lemma fold_max_ge_each f l init s : In s l -> f s <= fold_max f init l.
Proof.
  unfold fold_max. revert init. induction l as [|a l IH]; intros init H; simpl in *; [tauto|].
  destruct H as [-> | H].
  - pose proof (fold_max_ge_init f l (Z.max (f s) init)). unfold fold_max in *. lia.
  - now apply IH.
Qed.

Lemma pow2ceil_ge n : n <= pow2ceil n.
Proof.
  unfold pow2ceil. destruct (Z_le_gt_dec n 1).
  - rewrite Z.log2_up_eqn0 by lia. simpl. lia.
  - pose proof (Z.log2_up_spec n ltac:(lia)). lia.
Qed.

Lemma geom_dft_ge M S dmin pad : M + S - 1 <= geom_dft M S dmin pad.
Proof.
  unfold geom_dft. destruct pad; [|lia].
  pose proof (pow2ceil_ge (Z.max (M + S - 1) dmin)). lia.
Qed.

Lemma geom_nblk_ok D M S : 0 < S -> D - M + 2 * S <= geom_nblk D M S * S.
Proof.
  intros HS. unfold geom_nblk.
  pose proof (div_hi (D - M + 2 * S + S - 1) S HS). lia.
Qed.

Lemma geom_support_tr centered sup :
  let '(M, tr) := geom_support centered sup in
  (0 <= M -> 0 <= tr) /\ (centered = true -> 1 <= M -> tr <= M - 1) /\
  (centered = false -> tr <= M).
Proof.
  unfold geom_support. destruct centered.
  - set (M := match sup with [] => 0 | s :: t => _ end).
    split; [|split]; intros.
    + apply Z.div_pos; lia.
    + assert (M / 2 < M) by (apply Z.div_lt_upper_bound; lia). lia.
    + discriminate.
  - pose proof (fold_max_ge_init (fun s : Z * Z => - fst s) sup 0).
    pose proof (fold_max_ge_init (fun s : Z * Z => snd s) sup 0).
    split; [|split]; intros; try discriminate; lia.
Qed.

Lemma causal_one_sided sup :
  let '(M, tr) := geom_support false sup in
  one_sided_support false M tr = fold_max (fun s => snd s) 0 sup.
Proof. unfold geom_support, one_sided_support. lia. Qed.

Section Prep.
  Variable K : Type.
  Variable kzero : K.
  Variables kadd kmul : K -> K -> K.
  Variable phi post : K -> K.

  Local Notation roll := (roll K kzero).
  Local Notation prep_taps := (prep_taps K kzero).
  Local Notation dirac_taps := (dirac_taps K kzero).
  Local Notation lconv := (lconv K kzero kadd kmul).
  Local Notation zsum := (zsum K kzero kadd).
  Local Notation ys := (ys K kzero kadd kmul phi).
  Local Notation pre := (pre K).

  (* ---- filter preparation: np.roll then clamp to max_support ---- *)
  Lemma zlen_roll l s : zlen (roll l s) = zlen l.
  Proof. unfold Model.roll. rewrite zlen_map, zlen_zrange. pose proof (zlen_nonneg l). lia. Qed.

  Lemma znth_roll l s j : 0 <= j < zlen l ->
    znth j (roll l s) kzero = znth ((j - s) mod zlen l) l kzero.
  Proof.
    intros. unfold Model.roll.
    rewrite (znth_map _ j _ 0) by (rewrite zlen_zrange; lia).
    now rewrite znth_zrange by lia.
  Qed.

  Lemma zlen_prep_taps centered M tr s ir : 0 <= M -> zlen (prep_taps centered M tr s ir) <= M.
  Proof.
    intros. unfold Model.prep_taps. rewrite zlen_zfirstn, zlen_roll. pose proof (zlen_nonneg ir). lia.
  Qed.

  (* tap j of the prepared filter is sample j - shift of the bank's (periodic,
     width-D) impulse response: inside the clamp [0, M) nothing is lost, outside
     everything is dropped *)
  Lemma prep_taps_spec centered M tr s ir j :
    0 <= j < M -> M <= zlen ir ->
    znth j (prep_taps centered M tr s ir) kzero
    = znth ((j - prep_shift centered tr s) mod zlen ir) ir kzero.
  Proof.
    intros. unfold Model.prep_taps. rewrite znth_zfirstn by lia. apply znth_roll. lia.
  Qed.

  Lemma prep_taps_clamped centered M tr s ir j :
    M <= j -> 0 <= M -> znth j (prep_taps centered M tr s ir) kzero = kzero.
  Proof.
    intros. apply znth_overflow. pose proof (zlen_prep_taps centered M tr s ir). lia.
  Qed.

  Lemma taps_fit0 (kone' : K) centered M tr s ir : 0 <= M ->
    zlen (prep_taps centered M tr s ir) <= M /\ zlen (dirac_taps kone' M tr) = M.
  Proof.
    intros. split; [now apply zlen_prep_taps|].
    unfold Model.dirac_taps. rewrite zlen_map, zlen_zrange. lia.
  Qed.

  (* ---- the energy coefficient ---- *)
  Variable kone : K.
  Hypothesis add_0_l : forall a, kadd kzero a = a.
  Hypothesis add_0_r : forall a, kadd a kzero = a.
  Hypothesis mul_0_l : forall a, kmul kzero a = kzero.
  Hypothesis mul_1_l : forall a, kmul kone a = a.

  Lemma zlen_dirac_taps M tr : 0 <= M -> zlen (dirac_taps kone M tr) = M.
  Proof. intros. unfold Model.dirac_taps. rewrite zlen_map, zlen_zrange. lia. Qed.

  Lemma znth_dirac_taps M tr j : 0 <= j < M ->
    znth j (dirac_taps kone M tr) kzero = if j =? tr then kone else kzero.
  Proof.
    intros. unfold Model.dirac_taps.
    rewrite (znth_map _ j _ 0) by (rewrite zlen_zrange; lia).
    now rewrite znth_zrange by lia.
  Qed.

  Lemma zsum_snoc f n : 0 <= n -> zsum f (n + 1) = kadd (zsum f n) (f n).
  Proof.
    intros. unfold Model.zsum. rewrite zrange_snoc by lia.
    rewrite map_app, fold_left_app. reflexivity.
  Qed.

  Lemma zsum_zero f n : (forall j, 0 <= j < n -> f j = kzero) -> zsum f n = kzero.
  Proof.
    destruct (Z_le_gt_dec n 0) as [Hn | Hn].
    - intros _. unfold Model.zsum. now rewrite zrange_nonpos by lia.
    - revert f. pattern n. apply natlike_ind; [| |lia].
      + intros. reflexivity.
      + intros x Hx IH f Hf. unfold Z.succ. rewrite zsum_snoc by lia.
        rewrite IH by (intros; apply Hf; lia). rewrite Hf by lia. apply add_0_l.
  Qed.

  Lemma zsum_single f n t : 0 <= t < n ->
    (forall j, 0 <= j < n -> j <> t -> f j = kzero) -> zsum f n = f t.
  Proof.
    intros Ht. assert (Hn : 0 <= n) by lia. revert f t Ht. pattern n. apply natlike_ind; [| |lia].
    - intros; lia.
    - intros x Hx IH f t Ht Hf. unfold Z.succ. rewrite zsum_snoc by lia.
      destruct (Z.eq_dec t x) as [-> | Hne].
      + rewrite zsum_zero by (intros; apply Hf; lia). apply add_0_l.
      + rewrite (IH f t) by (try lia; intros; apply Hf; lia).
        rewrite (Hf x) by lia. apply add_0_r.
  Qed.

  (* convolving with the unit impulse at the translation returns the signal *)
  Lemma lconv_dirac M tr xs p : 0 <= tr < M ->
    lconv (dirac_taps kone M tr) xs p = znth (p - tr) xs kzero.
  Proof.
    intros H. unfold Model.lconv. rewrite zlen_dirac_taps by lia.
    rewrite (zsum_single _ M tr) by
        (try lia; intros j Hj Hne; rewrite znth_dirac_taps by lia;
         replace (j =? tr) with false by lia; apply mul_0_l).
    rewrite znth_dirac_taps by lia. rewrite Z.eqb_refl. apply mul_1_l.
  Qed.

  Lemma energy_is_dirac (c : cfg K) xs t : 0 <= cTr K c < cM K c ->
    ys c (dirac_taps kone (cM K c) (cTr K c)) xs t
    = phi (znth (t - (if cCentered K c then cS K c else 0)) xs kzero).
  Proof.
    intros H. unfold Model.ys. rewrite lconv_dirac by lia. f_equal. f_equal.
    unfold Model.off. destruct (cCentered K c); lia.
  Qed.

  (* ---- every constructible computer inside the property's precondition ---- *)
  Lemma constructor_pre centered S sup dmin pad taps w0 w1 :
    let '(M, tr) := geom_support centered sup in
    let D := geom_dft M S dmin pad in
    1 <= S -> 1 <= M ->
    zlen w0 = S -> zlen w1 = S ->
    Forall (fun tp => zlen tp <= M) taps ->
    S < one_sided_support centered M tr ->
    pre (mkCfg K S M tr D centered (geom_nblk D M S) taps w0 w1).
  Proof.
    pose proof (geom_support_tr centered sup) as HT.
    destruct (geom_support centered sup) as [M tr].
    intros D HS HM H0 H1 Htaps Hos. destruct HT as (T1 & T2 & T3).
    unfold Model.pre. cbn [cS cM cTr cD cCentered cNblk cTaps cW0 cW1].
    split.
    - constructor; cbn [cS cM cTr cD cCentered cNblk cTaps cW0 cW1]; try assumption; try lia.
      + apply geom_dft_ge.
      + apply geom_nblk_ok. lia.
    - unfold one_sided_support in Hos. destruct centered.
      + split; [apply T2; [reflexivity | lia]|].
        assert (0 <= S / 2) by (apply Z.div_pos; lia).
        assert (0 <= M / 2) by (apply Z.div_pos; lia). lia.
      + lia.
  Qed.
End Prep.

Lemma taps_fit (K : Type) (kzero kone : K) centered M tr s ir : 0 <= M ->
  zlen (prep_taps K kzero centered M tr s ir) <= M /\ zlen (dirac_taps K kzero kone M tr) = M.
Proof. apply taps_fit0. Qed.

(* ---- the hypotheses are satisfiable: the two number types of the tie ---- *)
Lemma Z_laws : (forall a b c : Z, a + (b + c) = (a + b) + c) /\ (forall a, 0 + a = a) /\ (forall a, a + 0 = a).
Proof. repeat split; intros; lia. Qed.

Lemma G_add_assoc a b c : gadd a (gadd b c) = gadd (gadd a b) c.
Proof. destruct a, b, c; unfold gadd; simpl; f_equal; lia. Qed.
Lemma G_add_0_l a : gadd gzero a = a.
Proof. destruct a; unfold gadd, gzero; simpl; f_equal; lia. Qed.
Lemma G_add_0_r a : gadd a gzero = a.
Proof. destruct a; unfold gadd, gzero; simpl; f_equal; lia. Qed.
Lemma G_mul_0_l a : gmul gzero a = gzero.
Proof. destruct a; unfold gmul, gzero; simpl; f_equal; lia. Qed.
Lemma G_mul_1_l a : gmul (1, 0) a = a.
Proof. destruct a as [x y]; unfold gmul; cbn [fst snd]; f_equal; lia. Qed.

(* a concrete computer inside the precondition (causal, S = 2, support [-1, 5)) *)
Example pre_satisfiable :
  pre Z (mkCfg Z 2 6 1 8 false (geom_nblk 8 6 2) [[1; 2; 3; 0; -1; 2]] [1; 2] [3; 1]).
Proof.
  pose proof (constructor_pre Z false 2 [(-1, 5)] 1 true [[1; 2; 3; 0; -1; 2]] [1; 2] [3; 1]) as H.
  change (geom_support false [(-1, 5)]) with (6, 1) in H.
  change (geom_dft 6 2 1 true) with 8 in H.
  apply H; try reflexivity; try lia.
  apply Forall_cons; [unfold zlen; simpl; lia | apply Forall_nil].
Qed.

(* the main theorem applies to it: compute_full on a concrete 9-sample signal is
   the documented definition, which here has (9 + 1) / 2 = 5 non-empty frames *)
Example full_eq_spec_instance :
  let c := mkCfg Z 2 6 1 8 false (geom_nblk 8 6 2) [[1; 2; 3; 0; -1; 2]] [1; 2] [3; 1] in
  let xs := [3; -1; 4; 1; -5; 9; 2; -6; 5] in
  (exists st', compute_full Z 0 Z.add Z.mul (phiZ true) idZ c (mkState Z [] [] 0 0 0 false DF64) (DF32, xs)
               = Ok (st', DF32, si_spec Z 0 Z.add Z.mul (phiZ true) idZ c xs) /\ started Z st' = false)
  /\ zlen (si_spec Z 0 Z.add Z.mul (phiZ true) idZ c xs) = 5.
Proof.
  intros c xs. split.
  - destruct Z_laws as (A & B & C).
    apply (compute_full_spec Z 0 Z.add Z.mul (phiZ true) idZ A B C c _ DF32 xs pre_satisfiable);
      reflexivity.
  - vm_compute. reflexivity.
Qed.
