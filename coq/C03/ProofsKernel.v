(* C03 / C01-SI - lemmas about the numeric kernels of the model:
   window-weighted sums (dot), convolution sums (zsum, cconv, lconv).
   Layer A of the plan lives here: the kept part of the circular convolution of
   the D-sample buffer is the linear convolution of the whole history
   (cconv_valid_is_linear), independently of where the DFT blocks fall. *)
From Coq Require Import ZArith List Bool Lia.
From Verif Require Import lib.C03_ListZ C03.Model.
Import ListNotations.
Open Scope Z_scope.

Section Kernel.
  Variable K : Type.
  Variable kzero : K.
  Variables kadd kmul : K -> K -> K.
  Hypothesis add_assoc : forall a b c, kadd a (kadd b c) = kadd (kadd a b) c.
  Hypothesis add_0_l : forall a, kadd kzero a = a.
  Hypothesis add_0_r : forall a, kadd a kzero = a.

  Local Notation dot := (dot K kzero kadd kmul).
  Local Notation zsum := (zsum K kzero kadd).
  Local Notation cconv := (cconv K kzero kadd kmul).
  Local Notation lconv := (lconv K kzero kadd kmul).

  (* ---- dot ---- *)
  Let dstep := fun (acc : K) (p : K * K) => kadd acc (kmul (fst p) (snd p)).

  Lemma fold_dstep_acc l acc :
    fold_left dstep l acc = kadd acc (fold_left dstep l kzero).
  Proof.
    revert acc; induction l as [|x l IH]; intros acc; simpl.
    - now rewrite add_0_r.
    - rewrite IH. rewrite (IH (dstep kzero x)). unfold dstep.
      rewrite add_0_l. now rewrite add_assoc.
  Qed.

  Lemma dot_nil_l ws : dot [] ws = kzero.
  Proof. reflexivity. Qed.

  Lemma dot_nil_r ys : dot ys [] = kzero.
  Proof. unfold Model.dot. destruct ys; reflexivity. Qed.

  Lemma combine_app_eq {A B} (a1 a2 : list A) (b1 b2 : list B) :
    length a1 = length b1 -> combine (a1 ++ a2) (b1 ++ b2) = combine a1 b1 ++ combine a2 b2.
  Proof.
    revert b1; induction a1 as [|x a1 IH]; intros [|y b1] H; simpl in *; try discriminate.
    - reflexivity.
    - f_equal. apply IH. lia.
  Qed.

  Lemma dot_app ys1 ys2 ws1 ws2 : zlen ys1 = zlen ws1 ->
    dot (ys1 ++ ys2) (ws1 ++ ws2) = kadd (dot ys1 ws1) (dot ys2 ws2).
  Proof.
    unfold zlen, Model.dot; intros H.
    rewrite combine_app_eq by lia. rewrite fold_left_app.
    fold dstep. now rewrite fold_dstep_acc.
  Qed.

  Lemma dot_firstn ys ws : dot ys (zfirstn (zlen ys) ws) = dot ys ws.
  Proof.
    unfold Model.dot, zfirstn, zlen. rewrite Nat2Z.id. now rewrite <- combine_firstn_l.
  Qed.

  Lemma dot_trunc ys ws n : zlen ys <= n -> dot ys (zfirstn n ws) = dot ys ws.
  Proof.
    intros. rewrite <- (dot_firstn ys (zfirstn n ws)). rewrite zfirstn_zfirstn.
    rewrite Z.min_l by lia. apply dot_firstn.
  Qed.

  (* ---- zsum ---- *)
  Lemma zsum_ext f g n : (forall j, 0 <= j < n -> f j = g j) -> zsum f n = zsum g n.
  Proof.
    intros H. unfold Model.zsum. f_equal. apply map_zrange_ext. intros; apply H; lia.
  Qed.

  (* ---- layer A ---- *)
  (* [buf] holds the last D samples of the zero-prefixed history [hist]; position q
     of the buffer is position q + |hist| - D of the history *)
  Lemma cconv_valid_is_linear D taps hist q :
    0 < D -> zlen taps - 1 <= q < D ->
    cconv D taps (zlastn D (zrepeat kzero D ++ hist)) q
    = lconv taps hist (q + zlen hist - D).
  Proof.
    intros HD Hq. unfold Model.cconv, Model.lconv. apply zsum_ext. intros j Hj.
    f_equal.
    rewrite Z.mod_small by lia.
    rewrite znth_zlastn; rewrite ?zlen_app, ?zlen_zrepeat; try (pose proof (zlen_nonneg hist); lia).
    rewrite Z.max_r by lia.
    replace (q - j + (D + zlen hist) - D) with (q - j + zlen hist) by lia.
    destruct (Z_lt_ge_dec (q - j + zlen hist) D).
    - rewrite znth_app_l by (rewrite zlen_zrepeat; lia).
      rewrite znth_zrepeat. rewrite znth_neg by lia. reflexivity.
    - rewrite znth_app_r by (rewrite zlen_zrepeat; lia).
      rewrite zlen_zrepeat, Z.max_r by lia. f_equal. lia.
  Qed.

  (* the convolution at a position inside a prefix does not see what follows *)
  Lemma lconv_prefix taps xs more p : p < zlen xs ->
    lconv taps (xs ++ more) p = lconv taps xs p.
  Proof.
    intros. unfold Model.lconv. apply zsum_ext. intros j Hj. f_equal.
    destruct (Z_lt_ge_dec (p - j) 0).
    - now rewrite !znth_neg by lia.
    - apply znth_app_l. lia.
  Qed.

  (* feeding zeros is the same as extending the signal by zero *)
  Lemma lconv_zero_ext taps xs m p :
    lconv taps (xs ++ zrepeat kzero m) p = lconv taps xs p.
  Proof.
    unfold Model.lconv. apply zsum_ext. intros j Hj. f_equal.
    destruct (Z_lt_ge_dec (p - j) (zlen xs)).
    - destruct (Z_lt_ge_dec (p - j) 0).
      + now rewrite !znth_neg by lia.
      + apply znth_app_l. lia.
    - rewrite znth_app_r by lia. rewrite znth_zrepeat.
      now rewrite znth_overflow by lia.
  Qed.
End Kernel.
