(* C03 / C01-SI - the y-stream view of the state: _fill_y_buf appends the next
   piece of the stream  t |-> phi((x * h)[t + off])  to every filter's blocks
   (fill_y_buf_spec, using layers A and B), and the frame loop pops documented
   frames (drain_spec). *)
From Coq Require Import ZArith List Bool Lia ZifyBool.
From Verif Require Import lib.C03_ListZ C03.Model C03.ProofsKernel C03.ProofsBlocks.
Import ListNotations.
Open Scope Z_scope.

Lemma map2_res_map {T U V} (f : T -> U -> res V) (g : T -> U) (h : T -> V) (l : list T) :
  (forall t, In t l -> f t (g t) = Ok (h t)) ->
  map2_res f l (map g l) = Ok (map h l).
Proof.
  induction l as [|a l IH]; intros H; simpl; [reflexivity|].
  rewrite H by (left; reflexivity). simpl.
  rewrite IH by (intros; apply H; right; assumption). reflexivity.
Qed.

Section Stream.
  Variable K : Type.
  Variable kzero : K.
  Variables kadd kmul : K -> K -> K.
  Variable phi : K -> K.
  Variable post : K -> K.
  Hypothesis add_assoc : forall a b c, kadd a (kadd b c) = kadd (kadd a b) c.
  Hypothesis add_0_l : forall a, kadd kzero a = a.
  Hypothesis add_0_r : forall a, kadd a kzero = a.

  Local Notation cfg := (cfg K).
  Local Notation dot := (dot K kzero kadd kmul).
  Local Notation lconv := (lconv K kzero kadd kmul).
  Local Notation cconv := (cconv K kzero kadd kmul).
  Local Notation y_valid := (y_valid K kzero kadd kmul phi).
  Local Notation fill_one := (fill_one K kzero kadd kmul phi).
  Local Notation fill_y_buf := (fill_y_buf K kzero kadd kmul phi).
  Local Notation frame_of := (frame_of K kzero kadd post).
  Local Notation shift_blocks := (shift_blocks K kzero).
  Local Notation drain := (drain K kzero kadd post).
  Local Notation ys := (ys K kzero kadd kmul phi).
  Local Notation coef := (coef K kzero kadd kmul phi post).
  Local Notation frame_spec := (frame_spec K kzero kadd kmul phi post).
  Local Notation blocks_of := (blocks_of K kzero kadd kmul).
  Local Notation blocks_ok := (blocks_ok K).
  Local Notation off := (off K).
  Local Notation geo := (geo K).

  Lemma geo_blocks_ok c : geo c -> blocks_ok c.
  Proof.
    intros G. destruct G. unfold ProofsBlocks.blocks_ok. repeat split; try assumption. nia.
  Qed.

  Lemma geo_nblk2 c : geo c -> 2 <= cNblk K c.
  Proof. intros G. destruct G. nia. Qed.

  (* pending y-stream of one filter: samples F*S .. F*S + yr - 1 *)
  Definition pendf (c : cfg) (tp X : list K) (F yr : Z) : list K :=
    map (ys c tp X) (zrange (F * cS K c) yr).

  Definition ybuf_of (c : cfg) (X : list K) (F yr : Z) : list (list (K * K)) :=
    map (fun tp => blocks_of c (pendf c tp X F yr)) (cTaps K c).

  Lemma zlen_pendf c tp X F yr : 0 <= yr -> zlen (pendf c tp X F yr) = yr.
  Proof. intros. unfold pendf. rewrite zlen_map, zlen_zrange. lia. Qed.

  Lemma ys_prefix c tp xs more t : t + off c < zlen xs ->
    ys c tp (xs ++ more) t = ys c tp xs t.
  Proof.
    intros. unfold Model.ys. f_equal. now apply lconv_prefix.
  Qed.

  Lemma ybuf_of_prefix c xs more F yr :
    yr <= 0 \/ F * cS K c + yr + off c <= zlen xs ->
    ybuf_of c (xs ++ more) F yr = ybuf_of c xs F yr.
  Proof.
    intros H. unfold ybuf_of. apply map_ext. intros tp. f_equal.
    unfold pendf. destruct H as [H | H].
    - now rewrite zrange_nonpos by lia.
    - apply map_zrange_ext. intros i Hi. apply ys_prefix. lia.
  Qed.

  (* ---- _fill_y_buf appends the next piece of the stream ---- *)
  Lemma fill_y_buf_spec c hist more F yr yk :
    geo c -> 0 <= yr -> 1 <= yk -> yk <= cD K c - cM K c + 1 ->
    yr + yk <= cNblk K c * cS K c ->
    zlen hist - yk = F * cS K c + yr + off c ->
    fill_y_buf c (zlastn (cD K c) (zrepeat kzero (cD K c) ++ hist)) yk
               (ybuf_of c (hist ++ more) F yr) yr
    = Ok (ybuf_of c (hist ++ more) F (yr + yk), yr + yk).
  Proof.
    intros G Hyr Hyk HV Hcap Hpos.
    pose proof (geo_blocks_ok c G) as B. destruct G as [gS gM gtr gD gnblk gw0 gw1 g_taps0].
    unfold Model.fill_y_buf.
    replace (yk <=? 0) with false by lia.
    unfold ybuf_of at 1.
    rewrite (map2_res_map _ _ (fun tp => blocks_of c (pendf c tp (hist ++ more) F (yr + yk)))).
    { reflexivity. }
    intros tp Hin.
    assert (Htp : zlen tp <= cM K c) by (rewrite Forall_forall in g_taps0; now apply g_taps0).
    set (pend := pendf c tp (hist ++ more) F yr).
    assert (Lp : zlen pend = yr) by (apply zlen_pendf; lia).
    rewrite <- Lp at 1.
    rewrite fill_one_spec; try assumption; try lia.
    f_equal. f_equal. unfold pend, pendf.
    rewrite zrange_app by lia. rewrite map_app. f_equal.
    unfold Model.y_valid.
    rewrite (map_zrange_shift _ 0 (F * cS K c + yr)). simpl Z.add.
    apply map_zrange_ext. intros t Ht.
    unfold Model.ys. f_equal.
    rewrite (cconv_valid_is_linear K kzero kadd kmul) by lia.
    rewrite (lconv_prefix K kzero kadd kmul) by lia.
    f_equal. lia.
  Qed.

  (* ---- _compute_frame ---- *)
  Lemma frame_of_spec c X F yr :
    geo c -> 2 * cS K c <= yr ->
    frame_of (ybuf_of c X F yr) = frame_spec c X F.
  Proof.
    intros G Hyr. pose proof (geo_blocks_ok c G) as B. pose proof (geo_nblk2 c G) as N2.
    unfold Model.frame_of, ybuf_of, Model.frame_spec. rewrite map_map.
    apply map_ext. intros tp. unfold Model.coef. f_equal.
    rewrite (blocks_of_frame K kzero kadd kmul add_assoc add_0_l add_0_r) by
        (try assumption; rewrite zlen_pendf; destruct G; lia).
    f_equal. unfold pendf. rewrite zfirstn_map. f_equal.
    rewrite zfirstn_zrange by (destruct G; lia). reflexivity.
  Qed.

  Lemma shift_blocks_spec c X F yr :
    geo c -> cS K c <= yr -> yr <= cNblk K c * cS K c ->
    shift_blocks (ybuf_of c X F yr) = ybuf_of c X (F + 1) (yr - cS K c).
  Proof.
    intros G Hyr Hcap. pose proof (geo_blocks_ok c G) as B. pose proof (geo_nblk2 c G) as N2.
    unfold Model.shift_blocks, ybuf_of. rewrite map_map. apply map_ext. intros tp.
    rewrite (blocks_of_shift K kzero kadd kmul) by (try assumption; rewrite ?zlen_pendf; destruct G; lia).
    f_equal. unfold pendf. rewrite zskipn_map. f_equal.
    rewrite zskipn_zrange by (destruct G; lia). f_equal. lia.
  Qed.

  (* ---- while y_rem >= 2 S: emit a frame ---- *)
  Lemma drain_spec c X nf : geo c -> forall (k : nat) fuel F yr frames,
    0 <= yr <= Z.of_nat fuel -> yr <= cNblk K c * cS K c ->
    yr - Z.of_nat k * cS K c < 2 * cS K c ->
    (1 <= Z.of_nat k -> cS K c <= yr - Z.of_nat k * cS K c) ->
    zlen frames + Z.of_nat k <= nf ->
    drain c nf fuel (ybuf_of c X F yr) yr frames
    = Ok (ybuf_of c X (F + Z.of_nat k) (yr - Z.of_nat k * cS K c),
          yr - Z.of_nat k * cS K c,
          frames ++ map (frame_spec c X) (zrange F (Z.of_nat k))).
  Proof.
    intros G. pose proof (g_S K c G) as HS.
    induction k as [|k IH]; intros fuel F yr frames Hyr Hcap Hlt Hge Hnf.
    - replace (yr - Z.of_nat 0 * cS K c) with yr in * by lia.
      replace (F + Z.of_nat 0) with F by lia.
      destruct fuel; cbn [Model.drain]; replace (yr <? 2 * cS K c) with true by lia;
        now rewrite app_nil_r.
    - assert (H2 : 2 * cS K c <= yr) by nia.
      destruct fuel as [|fuel]; [lia|].
      cbn [Model.drain]. replace (yr <? 2 * cS K c) with false by lia.
      replace (nf <=? zlen frames) with false by lia.
      rewrite frame_of_spec by (assumption || lia).
      rewrite shift_blocks_spec by (assumption || lia).
      rewrite IH; try lia.
      + f_equal. f_equal; [f_equal|].
        * f_equal; lia.
        * lia.
        * rewrite <- app_assoc. f_equal.
          replace (Z.of_nat (S k)) with (1 + Z.of_nat k) by lia.
          rewrite zrange_app by lia. rewrite map_app. f_equal.
          unfold zrange. simpl. replace (F + 0) with F by lia. reflexivity.
      + rewrite zlen_app. change (zlen [frame_spec c X F]) with 1. lia.
  Qed.
End Stream.
