(* C03 (short-integration coefficients equal their documented definition) and the
   short-integration half of C01 (chunked streaming = whole-signal computation):
   the property theorems, and nothing else.  Each is closed by [exact] of a lemma
   of coq/C03/Proofs*.v; the axioms each depends on are printed beneath it.

   All are statements about coq/C03/Model.v: [compute_full], [compute_chunk],
   [finalize], [si_stream], [fbf] transcribe ShortIntegrationFrameComputer and
   frame_by_frame_calculation; [si_spec] is the documented definition; [pre] is
   "frame shift shorter than the longest filter's one-sided support" together
   with what the constructor guarantees ([geo]); K is any number type with an
   associative addition with unit (exact arithmetic: "up to round-off"). *)
From Coq Require Import ZArith List Bool.
From Verif Require Import lib.C03_ListZ C03.Model C03.ProofsKernel C03.ProofsBlocks C03.ProofsStream C03.ProofsChunk C03.ProofsFull C03.ProofsGeom.
Import ListNotations.
Open Scope Z_scope.

(* ======================= C03 ======================= *)

(* compute_full on ANY signal (any length N >= 0) of any floating dtype, from any
   not-started computer state (fresh or left by a previous utterance): no error,
   the result has the input's dtype and equals the documented definition *)
Theorem si_full_eq_spec :
  forall (K : Type) (kzero : K) (kadd kmul : K -> K -> K) (phi post : K -> K),
  (forall a b c, kadd a (kadd b c) = kadd (kadd a b) c) ->
  (forall a, kadd kzero a = a) -> (forall a, kadd a kzero = a) ->
  forall (c : cfg K) (st : state K) (d : dtype) (xs : list K),
  pre K c -> started K st = false -> is_floating d = true ->
  exists st', compute_full K kzero kadd kmul phi post c st (d, xs)
              = Ok (st', d, si_spec K kzero kadd kmul phi post c xs)
              /\ started K st' = false.
Proof. exact compute_full_spec. Qed.
Print Assumptions si_full_eq_spec.

(* the documented definition, spelled out: (N + S//2)//S frames ... *)
Theorem si_frame_count :
  forall (K : Type) (kzero : K) (kadd kmul : K -> K -> K) (phi post : K -> K) (c : cfg K) (xs : list K),
  0 < cS K c ->
  zlen (si_spec K kzero kadd kmul phi post c xs) = (zlen xs + cS K c / 2) / cS K c.
Proof. exact si_spec_length. Qed.
Print Assumptions si_frame_count.

(* ... of num_coeffs coefficients each ... *)
Theorem si_row_length :
  forall (K : Type) (kzero : K) (kadd kmul : K -> K -> K) (phi post : K -> K) (c : cfg K) (xs row : list K),
  In row (si_spec K kzero kadd kmul phi post c xs) -> zlen row = zlen (cTaps K c).
Proof. exact si_spec_row_length. Qed.
Print Assumptions si_row_length.

(* ... coefficient i of frame k = post( sum_{u < 2S} w[u] * phi( (x * h_i)[k S + u + off] ) ),
   x zero outside [0, N), off = translation (causal) or translation - S (centered),
   phi = |.|^2 or |.|, post = log(max(., LOG_FLOOR_VALUE)) or identity *)
Theorem si_coefficient :
  forall (K : Type) (kzero : K) (kadd kmul : K -> K -> K) (phi post : K -> K) (c : cfg K) (xs : list K) (k i : Z),
  0 <= k < (zlen xs + cS K c / 2) / cS K c -> 0 <= i < zlen (cTaps K c) ->
  znth i (znth k (si_spec K kzero kadd kmul phi post c xs) []) kzero
  = post (dot K kzero kadd kmul
              (map (fun t => phi (lconv K kzero kadd kmul (znth i (cTaps K c) []) xs
                                        (t + (if cCentered K c then cTr K c - cS K c else cTr K c))))
                   (zrange (k * cS K c) (2 * cS K c)))
              (cW0 K c ++ cW1 K c)).
Proof. exact si_spec_nth. Qed.
Print Assumptions si_coefficient.

(* the optional energy coefficient: its "filter" is the unit impulse at the
   translation, so its stream is phi of the signal itself (shifted by S when centered) *)
Theorem si_energy_is_dirac :
  forall (K : Type) (kzero : K) (kadd kmul : K -> K -> K) (phi : K -> K) (kone : K),
  (forall a, kadd kzero a = a) -> (forall a, kadd a kzero = a) ->
  (forall a, kmul kzero a = kzero) -> (forall a, kmul kone a = a) ->
  forall (c : cfg K) (xs : list K) (t : Z),
  0 <= cTr K c < cM K c ->
  ys K kzero kadd kmul phi c (dirac_taps K kzero kone (cM K c) (cTr K c)) xs t
  = phi (znth (t - (if cCentered K c then cS K c else 0)) xs kzero).
Proof. exact energy_is_dirac. Qed.
Print Assumptions si_energy_is_dirac.

(* filter preparation: inside the clamp [0, max_support) tap j is sample
   j - shift of the bank's width-D impulse response; beyond it everything is dropped *)
Theorem si_prepared_taps :
  forall (K : Type) (kzero : K) (centered : bool) (M tr : Z) (s : Z * Z) (ir : list K) (j : Z),
  0 <= j < M -> M <= zlen ir ->
  znth j (prep_taps K kzero centered M tr s ir) kzero
  = znth ((j - prep_shift centered tr s) mod zlen ir) ir kzero.
Proof. exact prep_taps_spec. Qed.
Print Assumptions si_prepared_taps.

Theorem si_prepared_taps_clamped :
  forall (K : Type) (kzero : K) (centered : bool) (M tr : Z) (s : Z * Z) (ir : list K) (j : Z),
  M <= j -> 0 <= M -> znth j (prep_taps K kzero centered M tr s ir) kzero = kzero.
Proof. exact prep_taps_clamped. Qed.
Print Assumptions si_prepared_taps_clamped.

(* a signal that is not floating point is rejected with ValueError *)
Theorem si_rejects_nonfloating :
  forall (K : Type) (kzero : K) (kadd kmul : K -> K -> K) (phi post : K -> K)
         (c : cfg K) (st : state K) (d : dtype) (xs : list K),
  started K st = false -> is_floating d = false ->
  compute_full K kzero kadd kmul phi post c st (d, xs) = Err EValue.
Proof. exact compute_full_rejects_nonfloat. Qed.
Print Assumptions si_rejects_nonfloating.

(* every computer the constructor builds (any supports, frame shift, DFT lower
   bound, padded or not, any taps of at most max_support samples, any 2S window)
   whose frame shift is shorter than the one-sided support satisfies [pre] *)
Theorem si_constructor_pre :
  forall (K : Type) (centered : bool) (S : Z) (sup : list (Z * Z)) (dmin : Z) (pad : bool)
         (taps : list (list K)) (w0 w1 : list K),
  let '(M, tr) := geom_support centered sup in
  let D := geom_dft M S dmin pad in
  1 <= S -> 1 <= M -> zlen w0 = S -> zlen w1 = S ->
  Forall (fun tp => zlen tp <= M) taps ->
  S < one_sided_support centered M tr ->
  pre K (mkCfg K S M tr D centered (geom_nblk D M S) taps w0 w1).
Proof. exact constructor_pre. Qed.
Print Assumptions si_constructor_pre.

(* the filters the constructor prepares fit the clamp length, as [pre] requires *)
Theorem si_taps_fit :
  forall (K : Type) (kzero kone : K) (centered : bool) (M tr : Z) (s : Z * Z) (ir : list K),
  0 <= M ->
  zlen (prep_taps K kzero centered M tr s ir) <= M /\ zlen (dirac_taps K kzero kone M tr) = M.
Proof. exact taps_fit. Qed.
Print Assumptions si_taps_fit.

(* ======================= C01, short-integration half ======================= *)

(* ANY way of cutting a signal into consecutive chunks (empty and one-sample
   chunks included; at least one compute_chunk call), then finalize() *)
Theorem si_stream_eq_spec :
  forall (K : Type) (kzero : K) (kadd kmul : K -> K -> K) (phi post : K -> K),
  (forall a b c, kadd a (kadd b c) = kadd (kadd a b) c) ->
  (forall a, kadd kzero a = a) -> (forall a, kadd a kzero = a) ->
  forall (c : cfg K) (st : state K) (d : dtype) (chunks : list (list K)),
  pre K c -> started K st = false -> is_floating d = true -> chunks <> [] ->
  exists st', si_stream K kzero kadd kmul phi post c st (map (fun ch => (d, ch)) chunks)
              = Ok (st', d, si_spec K kzero kadd kmul phi post c (concat chunks))
              /\ started K st' = false.
Proof. exact si_stream_spec. Qed.
Print Assumptions si_stream_eq_spec.

(* hence two chunkings of the same signal give the same feature matrix *)
Theorem si_chunk_invariance :
  forall (K : Type) (kzero : K) (kadd kmul : K -> K -> K) (phi post : K -> K),
  (forall a b c, kadd a (kadd b c) = kadd (kadd a b) c) ->
  (forall a, kadd kzero a = a) -> (forall a, kadd a kzero = a) ->
  forall (c : cfg K) (st : state K) (d : dtype) (c1 c2 : list (list K)),
  pre K c -> started K st = false -> is_floating d = true -> c1 <> [] -> c2 <> [] ->
  concat c1 = concat c2 ->
  exists st1 st2 rows,
    si_stream K kzero kadd kmul phi post c st (map (fun ch => (d, ch)) c1) = Ok (st1, d, rows) /\
    si_stream K kzero kadd kmul phi post c st (map (fun ch => (d, ch)) c2) = Ok (st2, d, rows).
Proof. exact si_chunk_invariance_l. Qed.
Print Assumptions si_chunk_invariance.

(* frame_by_frame_calculation: every chunk_size >= 1 gives compute_full's matrix *)
Theorem si_fbf_eq_full :
  forall (K : Type) (kzero : K) (kadd kmul : K -> K -> K) (phi post : K -> K),
  (forall a b c, kadd a (kadd b c) = kadd (kadd a b) c) ->
  (forall a, kadd kzero a = a) -> (forall a, kadd a kzero = a) ->
  forall (c : cfg K) (st : state K) (d : dtype) (xs : list K) (chunk_size : Z),
  pre K c -> started K st = false -> is_floating d = true -> 1 <= chunk_size -> xs <> [] ->
  exists st1 st2 rows,
    fbf K kzero kadd kmul phi post c st (d, xs) chunk_size = Ok (st1, d, rows) /\
    compute_full K kzero kadd kmul phi post c st (d, xs) = Ok (st2, d, rows) /\
    rows = si_spec K kzero kadd kmul phi post c xs.
Proof. exact fbf_eq_full_l. Qed.
Print Assumptions si_fbf_eq_full.

(* the empty signal: both give the empty matrix; frame_by_frame_calculation makes
   no compute_chunk call, so its (empty) result keeps the computer's previous dtype *)
Theorem si_fbf_empty_signal :
  forall (K : Type) (kzero : K) (kadd kmul : K -> K -> K) (phi post : K -> K)
         (c : cfg K) (st : state K) (d : dtype) (chunk_size : Z),
  started K st = false ->
  fbf K kzero kadd kmul phi post c st (d, []) chunk_size = Ok (st, dt K st, []).
Proof. exact fbf_nil. Qed.
Print Assumptions si_fbf_empty_signal.

(* a later chunk of another dtype is rejected with ValueError *)
Theorem si_chunk_dtype_mismatch :
  forall (K : Type) (kzero : K) (kadd kmul : K -> K -> K) (phi post : K -> K)
         (c : cfg K) (st : state K) (d : dtype) (ch : list K),
  started K st = true -> dtype_eqb d (dt K st) = false ->
  compute_chunk K kzero kadd kmul phi post c st (d, ch) = Err EValue.
Proof. exact compute_chunk_rejects_other_dtype. Qed.
Print Assumptions si_chunk_dtype_mismatch.

(* ======================= tie to the source ======================= *)
(* the model's _compute_preamble / _handle_skip / _fill_y_buf block arithmetic / one DFT
   iteration / compute_chunk header and tail / finalize are, expression by expression, what
   gen/si.py extracts from ShortIntegrationFrameComputer (compute.py) on this run
   (coq/gen/SiK.v); the loops are the model's own, applied to these steps *)
From Verif Require Import C03.Tie.
Theorem si_model_is_source_preamble :
  forall (K : Type) (kzero : K) (c : cfg K) (st : state K) (d : dtype),
  preamble_src K kzero c st d = preamble K kzero c st d.
Proof. exact preamble_tie. Qed.
Print Assumptions si_model_is_source_preamble.
Theorem si_model_is_source_handle_skip :
  forall (K : Type) (c : cfg K) (xb : list K) (xrem sk : Z) (ch : list K),
  handle_skip_src K c xb xrem sk ch = handle_skip K c xb xrem sk ch.
Proof. exact handle_skip_tie. Qed.
Print Assumptions si_model_is_source_handle_skip.
Theorem si_model_is_source_fill_block :
  forall (K : Type) (kzero : K) (kadd kmul : K -> K -> K) (phi : K -> K) (c : cfg K)
         (yv cur_buf taps : list K) (y_keep block_end yrem : Z) (blk : K * K) (yb : list (K * K)),
  block_update_src K kzero kadd kmul c yv y_keep block_end blk = block_update K kzero kadd kmul c yv y_keep block_end blk /\
  fill_one_src K kzero kadd kmul phi c cur_buf y_keep yrem taps yb = fill_one K kzero kadd kmul phi c cur_buf y_keep yrem taps yb.
Proof. exact fill_block_tie. Qed.
Print Assumptions si_model_is_source_fill_block.
Theorem si_model_is_source_dft_iteration :
  forall (K : Type) (kzero : K) (kadd kmul : K -> K -> K) (phi post : K -> K) (c : cfg K)
         (xrem nf : Z) (ch : list K) (i : Z) (ls : lstate K),
  dft_iter_src K kzero kadd kmul phi post c xrem nf ch i ls = dft_iter K kzero kadd kmul phi post c xrem nf ch i ls.
Proof. exact dft_iter_tie. Qed.
Print Assumptions si_model_is_source_dft_iteration.
Theorem si_model_is_source_compute_chunk :
  forall (K : Type) (kzero : K) (kadd kmul : K -> K -> K) (phi post : K -> K) (c : cfg K) (st : state K) (ch : list K),
  chunk_body_src K kzero kadd kmul phi post c st ch = chunk_body K kzero kadd kmul phi post c st ch.
Proof. exact chunk_body_tie. Qed.
Print Assumptions si_model_is_source_compute_chunk.
Theorem si_model_is_source_finalize :
  forall (K : Type) (kzero : K) (kadd kmul : K -> K -> K) (phi post : K -> K) (c : cfg K) (st : state K),
  finalize_src K kzero kadd kmul phi post c st = finalize K kzero kadd kmul phi post c st.
Proof. exact finalize_tie. Qed.
Print Assumptions si_model_is_source_finalize.
Theorem si_model_is_source_geometry :
  forall (sup : list (Z * Z)) (D M S : Z),
  geom_causal_src sup = geom_support false sup /\
  snd (geom_support true sup) = gen.SiK.g_siinit_settr__0 (fst (geom_support true sup)) /\
  gen.SiK.g_siinit_setFL__0 M S = M + S - 1 /\
  geom_nblk D M S = (gen.SiK.g_siinit_y_blocks_0 D M S + S - 1) / S /\
  (forall dmin, geom_dft M S dmin true = gen.SiK.g_siinit_setD__0 (geom_dft M S dmin false)).
Proof. exact geometry_tie. Qed.
Print Assumptions si_model_is_source_geometry.

(* ======================= the convolution theorem ======================= *)
(* np.fft is replaced in the model by the circular convolution [cconv]; that replacement is the
   circular convolution theorem, proved in C03/ConvThm.v for the DFT / IDFT SUMS over any
   commutative ring in which the twiddles tw m = w^m are multiplicative and orthogonal
   ((1/D) sum_k w^(k m) = [m = 0 mod D]): the model's cconv of the D-sample buffer with the
   (zero-extended) taps IS idft (dft buf . dft taps).  What remains trusted of np.fft: it
   computes these sums. *)
From Verif Require Import C03.ConvThm.
Theorem si_cconv_is_idft_of_dft_product :
  forall (R : Type) (rO rI : R) (radd rmul rsub : R -> R -> R) (ropp : R -> R),
  Ring_theory.ring_theory rO rI radd rmul rsub ropp eq ->
  forall D : Z, 0 < D ->
  forall tw : Z -> R, (forall a b : Z, tw (a + b) = rmul (tw a) (tw b)) ->
  forall invD : R,
  (forall m : Z, rmul invD (rsum R rO radd (fun k : Z => tw (k * m)) D) = (if m mod D =? 0 then rI else rO)) ->
  forall (taps buf : list R) (q : Z), zlen taps <= D ->
  cconv R rO radd rmul D taps buf q =
  idft R rO radd rmul D tw invD
    (fun k : Z => rmul (ConvThm.dft R rO radd rmul D tw (fun n : Z => znth n buf rO) k)
                       (ConvThm.dft R rO radd rmul D tw (fun j : Z => znth j taps rO) k)) q.
Proof. exact model_cconv_is_idft_of_product. Qed.
Print Assumptions si_cconv_is_idft_of_dft_product.
