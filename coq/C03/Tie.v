(* The integer bookkeeping of the hand-written short-integration model (C03/Model.v),
   re-assembled from the expressions that gen/si.py extracts from
   ShortIntegrationFrameComputer (compute.py) on every run (coq/gen/SiK.v), and proved
   equal to the model the C01/C03/C04 theorems are about.

   Each non-recursive step of the model (constructor geometry, _compute_preamble,
   _handle_skip, one block of _fill_y_buf, its range and the y_rem update, the frame
   loop's test and update, one DFT iteration of compute_chunk, compute_chunk's header and
   tail, finalize) is rebuilt with every integer expression, comparison and state-field
   update replaced by the definition generated from the source; the loops themselves
   (fill_blocks, drain, dft_loop) are the model's, applied to steps proved equal.
   A change of meaning in the source (a different count, guard, remainder, offset,
   window bound ...) makes one of these lemmas fail. *)
From Coq Require Import ZArith List Bool Lia ZifyBool.
From Verif Require Import lib.C03_ListZ C03.Model gen.SiK.
Import ListNotations.
Open Scope Z_scope.

Ltac Zify.zify_post_hook ::= Z.to_euclidean_division_equations.

(* ---- constructor geometry ---- *)
(* causal: for left, right in supports: tr = max(-left, tr); M = max(M, right); then M += tr *)
Definition geom_causal_src (sup : list (Z * Z)) : Z * Z :=
  let '(tr, mr) := fold_left (fun acc s => (g_siinit_settr__2 (fst s) (fst acc), g_siinit_setM__1 (snd acc) (snd s)))
                             sup (g_siinit_settr__1, g_siinit_setM__0) in
  (g_siinit_setM__2 mr tr, tr).

Lemma fold_pair_split (sup : list (Z * Z)) a b :
  fold_left (fun acc s => (Z.max (- fst s) (fst acc), Z.max (snd acc) (snd s))) sup (a, b)
  = (fold_max (fun s => - fst s) a sup, fold_max (fun s => snd s) b sup).
Proof.
  revert a b; induction sup as [|s t IH]; intros a b; [reflexivity|].
  cbn [fold_left fold_max fst snd]. rewrite IH. unfold fold_max. cbn [fold_left].
  f_equal. f_equal. apply Z.max_comm.
Qed.

Lemma geom_causal_tie sup : geom_causal_src sup = geom_support false sup.
Proof.
  unfold geom_causal_src, geom_support, g_siinit_settr__2, g_siinit_setM__1, g_siinit_settr__1, g_siinit_setM__0, g_siinit_setM__2.
  rewrite fold_pair_split. reflexivity.
Qed.

(* centered: M = max(right - left ...) is not integer-expression code (a generator); tr = M // 2 *)
Lemma geom_centered_tr_tie sup : snd (geom_support true sup) = g_siinit_settr__0 (fst (geom_support true sup)).
Proof. reflexivity. Qed.

(* _frame_length = _max_support + _frame_shift - 1 : the D >= M + S - 1 of [geo] and finalize's frame_length *)
Lemma frame_length_tie M S : g_siinit_setFL__0 M S = M + S - 1.
Proof. unfold g_siinit_setFL__0. lia. Qed.

Lemma geom_dft_tie M S dmin : geom_dft M S dmin false = Z.max (g_siinit_setFL__0 M S) dmin.
Proof. reflexivity. Qed.

(* y_blocks = int(ceil((D - M + 2 S) / S)) *)
Lemma geom_nblk_tie D M S : geom_nblk D M S = (g_siinit_y_blocks_0 D M S + S - 1) / S.
Proof. reflexivity. Qed.

Lemma geometry_tie (sup : list (Z * Z)) (D M S : Z) :
  geom_causal_src sup = geom_support false sup /\
  snd (geom_support true sup) = g_siinit_settr__0 (fst (geom_support true sup)) /\
  g_siinit_setFL__0 M S = M + S - 1 /\
  geom_nblk D M S = (g_siinit_y_blocks_0 D M S + S - 1) / S /\
  (forall dmin, geom_dft M S dmin true = g_siinit_setD__0 (geom_dft M S dmin false)).
Proof.
  split; [apply geom_causal_tie|]. split; [apply geom_centered_tr_tie|].
  split; [apply frame_length_tie|]. split; [apply geom_nblk_tie | reflexivity].
Qed.

(* the model's buffers have no dtype of their own: _x_buf and _y_buf are allocated once, at construction, as float64 *)
Lemma si_buffer_storage_tie : g_si_xbuf_is_f64_alloc_once = true /\ g_si_ybuf_is_f64_alloc_once = true.
Proof. split; reflexivity. Qed.

Section Tie.
  Variable K : Type.
  Variable kzero : K.
  Variables kadd kmul : K -> K -> K.
  Variable phi : K -> K.
  Variable post : K -> K.

  Notation cfg := (cfg K).
  Notation state := (state K).
  Notation lstate := (lstate K).
  Notation cS := (cS K). Notation cM := (cM K). Notation cTr := (cTr K). Notation cD := (cD K).
  Notation cCentered := (cCentered K). Notation cNblk := (cNblk K). Notation cTaps := (cTaps K).
  Notation cW0 := (cW0 K). Notation cW1 := (cW1 K).
  Notation xbuf := (xbuf K). Notation ybuf := (ybuf K). Notation x_rem := (x_rem K). Notation y_rem := (y_rem K).
  Notation skip := (skip K). Notation started := (started K). Notation dt := (dt K).
  Notation l_copied := (l_copied K). Notation l_xbuf := (l_xbuf K). Notation l_ybuf := (l_ybuf K).
  Notation l_yrem := (l_yrem K). Notation l_frames := (l_frames K). Notation mkL := (mkL K).

  (* ---- _compute_preamble ---- *)
  Definition preamble_src (c : cfg) (st : state) (d : dtype) : res state :=
    if started st then
      if dtype_eqb d (dt st) then Ok st else Err EValue
    else if negb (is_floating d) then Err EValue
    else
      let sk := g_sipre_setskip__0 (cTr c) (cS c) in
      Ok (mkState K (zrepeat kzero (cD c)) (map (fun _ => zrepeat (kzero, kzero) (cNblk c)) (cTaps c)) (if cCentered c then (if g_sipre_test_0 sk then g_sipre_setxrem__1 sk else g_sipre_setxrem__0) else g_sipre_setxrem__0) (g_sipre_setyrem__0) (if cCentered c then (if g_sipre_test_0 sk then g_sipre_setskip__1 else sk) else g_sipre_setskip__2 (cTr c)) (true) (d)).

  Lemma preamble_tie c st d : preamble_src c st d = preamble K kzero c st d.
  Proof. reflexivity. Qed.

  (* ---- _handle_skip ---- *)
  Definition handle_skip_src (c : cfg) (xb : list K) (xrem sk : Z) (ch : list K)
    : res (list K * Z * list K) :=
    if g_siskip_test_0 sk then Ok (xb, sk, ch)
    else if negb (g_siskip_test_1 xrem) then Err EAssert
    else
      let consumed := g_siskip_consumed_0 sk (zlen ch) in
      let x_len := zlen xb in
      let xb' := if g_siskip_test_2 consumed x_len
                 then zskipn consumed xb ++ zfirstn consumed ch
                 else slice (consumed - x_len) consumed ch in
      Ok (xb', g_siskip_setskip__0 sk consumed, zskipn consumed ch).

  Lemma handle_skip_tie c xb xrem sk ch : handle_skip_src c xb xrem sk ch = handle_skip K c xb xrem sk ch.
  Proof.
    unfold handle_skip_src, handle_skip, g_siskip_test_0, g_siskip_test_1, g_siskip_consumed_0, g_siskip_test_2, g_siskip_setskip__0.
    rewrite !negb_involutive. reflexivity.
  Qed.

  (* ---- one window block of _fill_y_buf ---- *)
  Definition block_update_src (c : cfg) (yv : list K) (y_keep block_end : Z) (blk : K * K) : K * K :=
    let S := cS c in
    let active_end := g_sifill_active_end_0 block_end y_keep in
    let active_start := g_sifill_active_start_0 block_end S in
    let y_active := slice active_start block_end yv in
    let window_start := g_sifill_window_start_0 S block_end in
    let window_end := g_sifill_window_end_0 S block_end active_end in
    (kadd (fst blk) (dot K kzero kadd kmul y_active (slice window_start window_end (cW0 c))),
     kadd (snd blk) (dot K kzero kadd kmul y_active (slice window_start window_end (cW1 c)))).

  Lemma block_update_tie c yv y_keep block_end blk :
    block_update_src c yv y_keep block_end blk = block_update K kzero kadd kmul c yv y_keep block_end blk.
  Proof. reflexivity. Qed.

  (* block offset, first block end, number of blocks = len(range(start, stop, step)), step of the range, y_rem update *)
  Definition range_len (a b s : Z) : Z := (b - a + s - 1) / s.

  Definition fill_one_src (c : cfg) (cur_buf : list K) (y_keep yrem : Z)
             (taps : list K) (yb : list (K * K)) : res (list (K * K)) :=
    let S := cS c in
    let block_offs := g_sifill_block_offs_0 yrem S in
    let second_block_start := g_sifill_second_block_start_0 block_offs S yrem in
    let nb := range_len (g_sifill_range_0_0 second_block_start) (g_sifill_range_0_1 y_keep S) (g_sifill_range_0_2 S) in
    fill_blocks K kzero kadd kmul c (y_valid K kzero kadd kmul phi c taps cur_buf y_keep) y_keep (Z.to_nat nb)
                second_block_start block_offs yb.

  Lemma fill_one_tie c cur_buf y_keep yrem taps yb :
    fill_one_src c cur_buf y_keep yrem taps yb = fill_one K kzero kadd kmul phi c cur_buf y_keep yrem taps yb.
  Proof. reflexivity. Qed.

  Lemma fill_block_tie c yv cur_buf taps y_keep block_end yrem blk yb :
    block_update_src c yv y_keep block_end blk = block_update K kzero kadd kmul c yv y_keep block_end blk /\
    fill_one_src c cur_buf y_keep yrem taps yb = fill_one K kzero kadd kmul phi c cur_buf y_keep yrem taps yb.
  Proof. split; [apply block_update_tie | apply fill_one_tie]. Qed.

  (* the loop advances block_end by the range's step *)
  Lemma fill_blocks_step_tie c yv y_keep n be bi yb :
    fill_blocks K kzero kadd kmul c yv y_keep (S n) be bi yb =
    if zlen yb <=? bi then Err EIndex
    else fill_blocks K kzero kadd kmul c yv y_keep n (be + g_sifill_range_0_2 (cS c)) (bi + 1)
           (zupd bi (block_update_src c yv y_keep be (znth bi yb (kzero, kzero))) yb).
  Proof. reflexivity. Qed.

  Lemma fill_y_buf_yrem_tie c cur_buf y_keep yb yrem yb' yr :
    fill_y_buf K kzero kadd kmul phi c cur_buf y_keep yb yrem = Ok (yb', yr) ->
    yr = g_sifill_setyrem__0 yrem y_keep.
  Proof.
    unfold fill_y_buf, g_sifill_setyrem__0. destruct (y_keep <=? 0); [discriminate|].
    destruct (map2_res _ _ _); cbn; [|discriminate]. intros H; inversion H; reflexivity.
  Qed.

  (* ---- the frame loop: while self._y_rem >= 2 S: _compute_frame; y_rem -= S ---- *)
  Lemma drain_step_tie c nf fuel yb yrem frames :
    drain K kzero kadd post c nf (S fuel) yb yrem frames =
    if negb (g_sicc_test_5 yrem (cS c)) then Ok (yb, yrem, frames)
    else if nf <=? zlen frames then Err EIndex
    else drain K kzero kadd post c nf fuel (shift_blocks K kzero yb) (g_siframe_setyrem__0 yrem (cS c))
               (frames ++ [frame_of K kzero kadd post yb]).
  Proof.
    cbn [drain]. unfold g_sicc_test_5, g_siframe_setyrem__0.
    destruct (yrem <? 2 * cS c) eqn:E; destruct (2 * cS c <=? yrem) eqn:E'; try lia; reflexivity.
  Qed.

  Lemma frame_guard_tie yrem S : g_siframe_test_0 yrem S = g_sicc_test_5 yrem S.
  Proof. reflexivity. Qed.

  (* ---- one DFT iteration of compute_chunk ---- *)
  Definition dft_iter_src (c : cfg) (xrem num_frames : Z) (ch : list K) (dft_idx : Z) (ls : lstate)
    : res lstate :=
    let D := cD c in
    let V := g_sicc_valid_samples_per_dft_0 D (cM c) in
    let chunk_len := g_sicc_chunk_len_0 (zlen ch) in
    let end_idx := g_sicc_end_idx_0 dft_idx V xrem chunk_len in
    if negb (g_sicc_test_2 end_idx) then Err EAssert
    else
      let y_keep := g_sicc_y_keep_0 end_idx dft_idx V xrem in
      let start_idx := g_sicc_start_idx_0 end_idx D in
      do xcc <-
         (if g_sicc_test_3 start_idx then
            let chunk_to_copy := g_sicc_chunk_to_copy_0 end_idx (l_copied ls) in
            if negb (g_sicc_test_4 chunk_to_copy D) || (chunk_to_copy <? 0) then Err EAssert
            else
              let xb := zskipn chunk_to_copy (l_xbuf ls) ++ slice (l_copied ls) end_idx ch in
              Ok (xb, g_sicc_chunk_copied_1 end_idx, xb)
          else Ok (l_xbuf ls, l_copied ls, slice start_idx end_idx ch));
      let '(xb, copied, cur_buf) := xcc in
      do yy <- fill_y_buf K kzero kadd kmul phi c cur_buf y_keep (l_ybuf ls) (l_yrem ls);
      let '(yb, yr) := yy in
      do dd <- drain K kzero kadd post c num_frames (Z.to_nat yr) yb yr (l_frames ls);
      let '(yb', yr', fr) := dd in
      Ok (mkL xb yb' yr' copied fr).

  Lemma dft_iter_tie c xrem nf ch i ls :
    dft_iter_src c xrem nf ch i ls = dft_iter K kzero kadd kmul phi post c xrem nf ch i ls.
  Proof.
    unfold dft_iter_src, dft_iter, g_sicc_valid_samples_per_dft_0, g_sicc_chunk_len_0, g_sicc_end_idx_0, g_sicc_test_2,
           g_sicc_y_keep_0, g_sicc_start_idx_0, g_sicc_test_3, g_sicc_chunk_to_copy_0, g_sicc_test_4, g_sicc_chunk_copied_1.
    cbv zeta.
    replace (cD c - cM c + 1) with (cD c - cM c + 1) by reflexivity.
    set (V := cD c - cM c + 1).
    set (e := Z.min ((i + 1) * V - xrem) (zlen ch)).
    assert (Hn : negb (0 <=? e) = (e <? 0)) by lia. rewrite Hn.
    destruct (e <? 0); [reflexivity|].
    assert (Hc : negb (e - l_copied ls <? cD c) = (cD c <=? e - l_copied ls)) by lia. rewrite Hc.
    reflexivity.
  Qed.

  (* ---- compute_chunk after the preamble ---- *)
  Definition chunk_body_src (c : cfg) (st : state) (ch0 : list K) : res (state * list (list K)) :=
    do hs <- handle_skip_src c (xbuf st) (x_rem st) (skip st) ch0;
    let '(xb1, sk1, ch) := hs in
    let S := cS c in
    let D := cD c in
    let chunk_len := g_sicc_chunk_len_0 (zlen ch) in
    let V := g_sicc_valid_samples_per_dft_0 D (cM c) in
    let num_raw := g_sicc_num_raw_0 (x_rem st) chunk_len in
    let num_dfts0 := g_sicc_num_dfts_0 num_raw V in
    let num_frames := g_sicc_num_frames_0 num_raw (y_rem st) S in
    let num_processed := if g_sicc_test_0 num_frames then g_sicc_num_processed_0 num_frames S else g_sicc_num_processed_1 (y_rem st) in
    let num_dfts := if g_sicc_test_1 num_processed (y_rem st) num_dfts0 V then g_sicc_num_dfts_1 num_dfts0 else num_dfts0 in
    do ls <- dft_loop K kzero kadd kmul phi post c (x_rem st) num_frames ch (Z.to_nat (g_sicc_range_0_0 num_dfts)) 0
                      (mkL xb1 (ybuf st) (y_rem st) g_sicc_chunk_copied_0 []);
    if negb (g_sicc_test_6 (zlen (l_frames ls)) num_frames) then Err EAssert
    else
      let xb2 :=
          if negb (g_sicc_test_7 chunk_len (l_copied ls)) then l_xbuf ls
          else
            let chunk_to_copy := g_sicc_chunk_to_copy_1 D chunk_len (l_copied ls) in
            zskipn chunk_to_copy (l_xbuf ls) ++ zlastn chunk_to_copy ch in
      Ok (mkState K (xb2) (l_ybuf ls) (g_sicc_setxrem__0 num_raw num_dfts V) (l_yrem ls) (sk1) (started st) (dt st),
          l_frames ls).

  Lemma chunk_body_tie c st ch0 :
    chunk_body_src c st ch0 = chunk_body K kzero kadd kmul phi post c st ch0.
  Proof.
    unfold chunk_body_src, chunk_body. rewrite handle_skip_tie.
    destruct (handle_skip K c (xbuf st) (x_rem st) (skip st) ch0) as [[[xb1 sk1] ch]|e]; [|reflexivity].
    cbn [bind].
    unfold g_sicc_chunk_len_0, g_sicc_valid_samples_per_dft_0, g_sicc_num_raw_0, g_sicc_num_dfts_0, g_sicc_num_frames_0,
           g_sicc_test_0, g_sicc_num_processed_0, g_sicc_num_processed_1, g_sicc_test_1, g_sicc_num_dfts_1, g_sicc_range_0_0,
           g_sicc_chunk_copied_0, g_sicc_test_6, g_sicc_test_7, g_sicc_chunk_to_copy_1, g_sicc_setxrem__0.
    cbv zeta.
    set (nf := Z.max 0 ((x_rem st + zlen ch + y_rem st) / cS c - 1)).
    assert (Hnp : (if negb (nf =? 0) then (nf + 1) * cS c else y_rem st)
                  = (if nf =? 0 then y_rem st else (nf + 1) * cS c)) by (destruct (nf =? 0); reflexivity).
    rewrite Hnp.
    destruct (dft_loop _ _ _ _ _ _ _ _ _ _ _ _ _) as [ls|e]; [|reflexivity].
    cbn [bind]. rewrite negb_involutive. reflexivity.
  Qed.

  (* ---- finalize ---- *)
  Definition finalize_src (c : cfg) (st : state) : res (state * list (list K)) :=
    if started st then
      let S := g_sifin_frame_shift_0 (cS c) in
      let frame_length := g_sifin_frame_length_0 (g_siinit_setFL__0 (cM c) (cS c)) in
      let borrowed := if cCentered c then g_sifin_borrowed_0 S else g_sifin_borrowed_1 in
      let buf_len := g_sifin_buf_len_1 (g_sifin_buf_len_0 (cTr c) (skip st) (x_rem st)) (y_rem st) borrowed in
      let num_frames := g_sifin_num_frames_0 buf_len S in
      if g_sifin_test_0 num_frames then
        let pad_right := g_sifin_pad_right_1 (g_sifin_pad_right_0 num_frames S frame_length) buf_len in
        if pad_right <? 0 then Err EValue
        else
          do r <- compute_chunk K kzero kadd kmul phi post c st (dt st, zrepeat kzero pad_right);
          let '(st', fr) := r in
          Ok (mkState K (xbuf st') (ybuf st') (x_rem st') (y_rem st') (skip st') (false) (dt st'),
              zfirstn num_frames fr)
      else
        Ok (mkState K (xbuf st) (ybuf st) (x_rem st) (y_rem st) (skip st) (false) (dt st), [])
    else Ok (st, []).

  Lemma finalize_tie c st : finalize_src c st = finalize K kzero kadd kmul phi post c st.
  Proof.
    unfold finalize_src, finalize, g_sifin_frame_shift_0, g_sifin_frame_length_0, g_siinit_setFL__0, g_sifin_borrowed_0,
           g_sifin_borrowed_1, g_sifin_buf_len_1, g_sifin_buf_len_0, g_sifin_num_frames_0, g_sifin_test_0,
           g_sifin_pad_right_1, g_sifin_pad_right_0.
    cbv zeta. destruct (started st); [|reflexivity].
    replace (cTr c - skip st + x_rem st + (y_rem st - (if cCentered c then cS c else 0)))
      with (cTr c - skip st + x_rem st + y_rem st - (if cCentered c then cS c else 0)) by lia.
    reflexivity.
  Qed.

  Lemma history_tie c st (d : dtype) ch :
    preamble_src c st d = preamble K kzero c st d /\
    chunk_body_src c st ch = chunk_body K kzero kadd kmul phi post c st ch /\
    finalize_src c st = finalize K kzero kadd kmul phi post c st.
  Proof. split; [apply preamble_tie|]. split; [apply chunk_body_tie | apply finalize_tie]. Qed.

  (* the constructor's initial integer state (before any utterance): all zero, as [preamble] resets it *)
  Lemma init_state_tie : (g_siinit_setxrem__0, g_siinit_setyrem__0, g_siinit_setskip__0) = (0, 0, 0).
  Proof. reflexivity. Qed.
End Tie.
