(* C04 - a computer's output depends only on the current utterance (STFT computer;
   the short-integration computer's part is in C03/Props.v).
   Model: coq/Stft/Model.v (compute_chunk / finalize / compute_full /
   frame_by_frame_calculation as operations of a history on ONE instance whose
   buffer initially holds arbitrary stale values). *)
From Coq Require Import ZArith List Bool.
From Verif Require Import lib.ZList Stft.Model Stft.History C04.SiHistory.
From Verif Require C03.Model.
Import ListNotations.
Open Scope Z_scope.

(* after any history that leaves the instance idle, every further sequence of
   operations returns exactly what a fresh instance (with any other stale buffer
   contents) returns: frames handed to the per-frame routine are identical, hence
   features are bit-identical *)
Theorem stft_history_independent :
  forall (A : Type) (c : cfg), 0 < S c -> S c <= L c ->
  forall (st1 st2 : list A) (h ops : list (op A)),
  len st1 = L c -> len st2 = L c -> Forall valid_op h -> Forall valid_op ops ->
  started (fst (run c (init c st1) h)) = false ->
  snd (run c (fst (run c (init c st1) h)) ops) = snd (run c (init c st2) ops).
Proof. exact @history_independent_l. Qed.
Print Assumptions stft_history_independent.

(* stale buffer cells are never read: outputs do not depend on them *)
Theorem stft_stale_irrelevant :
  forall (A : Type) (c : cfg), 0 < S c -> S c <= L c ->
  forall (st1 st2 : list A) (ops : list (op A)),
  len st1 = L c -> len st2 = L c -> Forall valid_op ops ->
  snd (run c (init c st1) ops) = snd (run c (init c st2) ops).
Proof. exact @stale_irrelevant_l. Qed.
Print Assumptions stft_stale_irrelevant.

(* started is true exactly from the first compute_chunk until the next finalize;
   compute_full / frame_by_frame_calculation never change it *)
Theorem stft_started_iff :
  forall (A : Type) (c : cfg) (ops : list (op A)) (s : st A),
  started (fst (run c s ops)) = fold_left started_after ops (started s).
Proof. exact @started_fold_l. Qed.
Print Assumptions stft_started_iff.

(* mid-utterance, compute_full and frame_by_frame_calculation refuse (None models
   ValueError) and leave the utterance in progress undisturbed *)
Theorem stft_refuse_mid_utterance :
  forall (A : Type) (c : cfg) (s : st A) (x : list A) (k : Z),
  started s = true ->
  step c s (OFull x) = (s, None) /\ step c s (OFbf x k) = (s, None).
Proof. exact @refuse_mid_utterance_l. Qed.
Print Assumptions stft_refuse_mid_utterance.

Theorem stft_full_when_idle :
  forall (A : Type) (c : cfg) (s : st A) (x : list A),
  started s = false -> step c s (OFull x) = (s, Some (full_frames c x)).
Proof. exact @full_when_idle_l. Qed.
Print Assumptions stft_full_when_idle.

(* ---- tie to the source (see C01/Props.v) ---- *)
From Verif Require Import Stft.Tie.
Theorem stft_model_is_source :
  forall (A : Type) (c : cfg) (s : st A) (chunk : list A),
  compute_chunk_src c s chunk = compute_chunk c s chunk /\ finalize_src c s = finalize c s.
Proof. intros; split; [apply compute_chunk_tie | apply finalize_tie]. Qed.
Print Assumptions stft_model_is_source.

(* ---- short-integration computer (model coq/C03/Model.v) ---- *)
(* any two idle instances - whatever utterances, chunkings, repeated finalize calls
   they went through - give the same feature matrix for the next utterance, computed at
   once or streamed in any chunks, and are idle again afterwards *)
Theorem si_full_fresh_twin :
  forall (K : Type) (kzero : K) (kadd kmul : K -> K -> K) (phi post : K -> K),
  (forall a b c, kadd a (kadd b c) = kadd (kadd a b) c) ->
  (forall a, kadd kzero a = a) -> (forall a, kadd a kzero = a) ->
  forall (c : C03.Model.cfg K) (st1 st2 : C03.Model.state K) (d : C03.Model.dtype) (xs : list K),
  C03.Model.pre K c -> C03.Model.started K st1 = false -> C03.Model.started K st2 = false ->
  C03.Model.is_floating d = true ->
  exists s1 s2 rows,
    C03.Model.compute_full K kzero kadd kmul phi post c st1 (d, xs) = C03.Model.Ok (s1, d, rows) /\
    C03.Model.compute_full K kzero kadd kmul phi post c st2 (d, xs) = C03.Model.Ok (s2, d, rows) /\
    C03.Model.started K s1 = false /\ C03.Model.started K s2 = false.
Proof. exact si_full_fresh_twin_l. Qed.
Print Assumptions si_full_fresh_twin.

Theorem si_stream_fresh_twin :
  forall (K : Type) (kzero : K) (kadd kmul : K -> K -> K) (phi post : K -> K),
  (forall a b c, kadd a (kadd b c) = kadd (kadd a b) c) ->
  (forall a, kadd kzero a = a) -> (forall a, kadd a kzero = a) ->
  forall (c : C03.Model.cfg K) (st1 st2 : C03.Model.state K) (d : C03.Model.dtype) (chunks : list (list K)),
  C03.Model.pre K c -> C03.Model.started K st1 = false -> C03.Model.started K st2 = false ->
  C03.Model.is_floating d = true -> chunks <> [] ->
  exists s1 s2 rows,
    C03.Model.si_stream K kzero kadd kmul phi post c st1 (map (fun ch => (d, ch)) chunks) = C03.Model.Ok (s1, d, rows) /\
    C03.Model.si_stream K kzero kadd kmul phi post c st2 (map (fun ch => (d, ch)) chunks) = C03.Model.Ok (s2, d, rows) /\
    C03.Model.started K s1 = false /\ C03.Model.started K s2 = false.
Proof. exact si_stream_fresh_twin_l. Qed.
Print Assumptions si_stream_fresh_twin.

(* ---- tie of the short-integration model to the source (see C03/Props.v, coq/C03/Tie.v) ---- *)
Require Verif.C03.Tie.
Theorem si_model_is_source :
  forall (K : Type) (kzero : K) (kadd kmul : K -> K -> K) (phi post : K -> K)
         (c : C03.Model.cfg K) (st : C03.Model.state K) (d : C03.Model.dtype) (ch : list K),
  C03.Tie.preamble_src K kzero c st d = C03.Model.preamble K kzero c st d /\
  C03.Tie.chunk_body_src K kzero kadd kmul phi post c st ch = C03.Model.chunk_body K kzero kadd kmul phi post c st ch /\
  C03.Tie.finalize_src K kzero kadd kmul phi post c st = C03.Model.finalize K kzero kadd kmul phi post c st.
Proof. exact C03.Tie.history_tie. Qed.
Print Assumptions si_model_is_source.

(* the work buffers of both computers are allocated once, at construction, as float64: their precision cannot
   depend on the dtypes of earlier utterances (the models store samples unchanged) *)
Theorem buffers_have_fixed_dtype :
  gen.StftK.g_stft_buf_is_f64_alloc_once = true /\
  gen.SiK.g_si_xbuf_is_f64_alloc_once = true /\ gen.SiK.g_si_ybuf_is_f64_alloc_once = true.
Proof. exact (conj Stft.Tie.buffer_storage_tie C03.Tie.si_buffer_storage_tie). Qed.
Print Assumptions buffers_have_fixed_dtype.
