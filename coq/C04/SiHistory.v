(* C04 for the short-integration computer: consequences of the C03 theorems, which hold
   from ANY not-started state (in particular one left behind by earlier utterances). *)
From Coq Require Import ZArith List Bool.
From Verif Require Import C03.Model C03.Props.
Import ListNotations.

Section SiHistory.
Variable K : Type.
Variables (kzero : K) (kadd kmul : K -> K -> K) (phi post : K -> K).
Hypothesis kadd_assoc : forall a b c, kadd a (kadd b c) = kadd (kadd a b) c.
Hypothesis kadd_0_l : forall a, kadd kzero a = a.
Hypothesis kadd_0_r : forall a, kadd a kzero = a.

Lemma si_full_fresh_twin_l (c : cfg K) (st1 st2 : state K) (d : dtype) (xs : list K) :
  pre K c -> started K st1 = false -> started K st2 = false -> is_floating d = true ->
  exists s1 s2 rows,
    compute_full K kzero kadd kmul phi post c st1 (d, xs) = Ok (s1, d, rows) /\
    compute_full K kzero kadd kmul phi post c st2 (d, xs) = Ok (s2, d, rows) /\
    started K s1 = false /\ started K s2 = false.
Proof.
  intros Hp H1 H2 Hd.
  destruct (si_full_eq_spec K kzero kadd kmul phi post kadd_assoc kadd_0_l kadd_0_r c st1 d xs Hp H1 Hd) as (s1 & E1 & F1).
  destruct (si_full_eq_spec K kzero kadd kmul phi post kadd_assoc kadd_0_l kadd_0_r c st2 d xs Hp H2 Hd) as (s2 & E2 & F2).
  exists s1, s2, (si_spec K kzero kadd kmul phi post c xs). repeat split; assumption.
Qed.

Lemma si_stream_fresh_twin_l (c : cfg K) (st1 st2 : state K) (d : dtype) (chunks : list (list K)) :
  pre K c -> started K st1 = false -> started K st2 = false -> is_floating d = true -> chunks <> [] ->
  exists s1 s2 rows,
    si_stream K kzero kadd kmul phi post c st1 (map (fun ch => (d, ch)) chunks) = Ok (s1, d, rows) /\
    si_stream K kzero kadd kmul phi post c st2 (map (fun ch => (d, ch)) chunks) = Ok (s2, d, rows) /\
    started K s1 = false /\ started K s2 = false.
Proof.
  intros Hp H1 H2 Hd Hc.
  destruct (si_stream_eq_spec K kzero kadd kmul phi post kadd_assoc kadd_0_l kadd_0_r c st1 d chunks Hp H1 Hd Hc) as (s1 & E1 & F1).
  destruct (si_stream_eq_spec K kzero kadd kmul phi post kadd_assoc kadd_0_l kadd_0_r c st2 d chunks Hp H2 Hd Hc) as (s2 & E2 & F2).
  exists s1, s2, (si_spec K kzero kadd kmul phi post c (concat chunks)). repeat split; assumption.
Qed.
End SiHistory.
