(* C05 - bank-level statements: every filter i of a bank laid out on a scale that is
   ScaleOK on [low_hz, effective high_hz] satisfies the per-filter theorems. *)
From Coq Require Import Reals ZArith Bool Lra Lia.
From Verif Require Import gen.Scales gen.Banks C05.Model C05.Proofs C05.Gabor C05.Gammatone C05.Response.
Open Scope R_scope.

Section Banks.
  Variables (h2s s2h : R -> R) (n : nat) (low high rate : R).
  Hypothesis OK : ScaleOK h2s s2h low high.
  Hypothesis Hlow : 0 <= low.
  Hypothesis Hhigh : high <= rate / 2.

  Lemma low_lt_high : low < high.
  Proof.
    pose proof (grid_incr h2s s2h n low high OK 0 (INR n + 1) ltac:(lra) (INR_n1_pos n) ltac:(lra)) as G.
    rewrite (grid_0 h2s s2h n low high OK), (grid_top h2s s2h n low high OK) in G. exact G.
  Qed.

  Lemma rate_pos : 0 < rate.
  Proof. pose proof low_lt_high. lra. Qed.

  (** ** triangular *)
  Lemma tri_bank_response_l (analytic half : bool) i (width k : Z) : (i < n)%nat ->
    (0 < width)%Z -> (0 <= k < dft_size half width)%Z ->
    tri_freq_resp analytic half rate
      (tri_vertex h2s s2h n low high i) (tri_vertex h2s s2h n low high (S i)) (tri_vertex h2s s2h n low high (S (S i)))
      width k
    = triangle (tri_support_lo h2s s2h n low high i) (tri_center h2s s2h n low high i) (tri_support_hi h2s s2h n low high i)
        (bin_hz (negb half && negb analytic) rate width k).
  Proof.
    intros Hi Hw Hk. destruct (tri_vertices_ordered_l h2s s2h n low high OK i Hi) as (A & B & C & D).
    unfold tri_support_lo, tri_center, tri_support_hi.
    apply tri_response_spec_l; try assumption; lra.
  Qed.

  Lemma tri_bank_peak_l i : (i < n)%nat ->
    let T := triangle (tri_support_lo h2s s2h n low high i) (tri_center h2s s2h n low high i) (tri_support_hi h2s s2h n low high i) in
    T (tri_center h2s s2h n low high i) = 1 /\ (forall x, 0 <= T x <= 1) /\ (forall x, x <> tri_center h2s s2h n low high i -> T x < 1).
  Proof.
    intros Hi T. destruct (tri_center_in_support_l h2s s2h n low high OK i Hi) as [A B].
    split; [apply triangle_peak; assumption|]. split; intros x.
    - apply triangle_range; assumption.
    - intros Hx. apply triangle_lt_one; assumption.
  Qed.

  (** ** Gabor *)
  Lemma edge_gap i : (i < n)%nat ->
    gabor_edge h2s s2h n low high i < gabor_edge h2s s2h n low high (S i)
    /\ gabor_edge h2s s2h n low high (S i) - gabor_edge h2s s2h n low high i <= rate.
  Proof.
    intros Hi. pose proof (gabor_edge_incr_l h2s s2h n low high OK i (S i) ltac:(lia) ltac:(lia)).
    pose proof (gabor_edges_inside_l h2s s2h n low high OK i ltac:(lia)).
    pose proof (gabor_edges_inside_l h2s s2h n low high OK (S i) ltac:(lia)). split; lra.
  Qed.

  Lemma gabor_bank_center_in_support_l (l2 erb : bool) i : (i < n)%nat ->
    let l := gabor_edge h2s s2h n low high i in
    let r := gabor_edge h2s s2h n low high (S i) in
    gabor_self_supports_hz_elt_0 l2 erb rate l r < gabor_center h2s s2h n low high i
    /\ gabor_center h2s s2h n low high i < gabor_self_supports_hz_elt_1 l2 erb rate l r.
  Proof.
    intros Hi l r. destruct (edge_gap i Hi). apply gabor_center_in_support_l; [apply rate_pos | assumption | assumption].
  Qed.

  (* filter i and filter i+1 both pass through -3 dB at their common edge *)
  Lemma gabor_bank_cross_3dB_l i : (S i < n)%nat ->
    let e := gabor_edge h2s s2h n low high in
    gabor_image false (gabor_self_stds_elt false rate (e i) (e (S i))) (gabor_self_centers_ang_elt rate (e i) (e (S i)))
      (hertz_to_angular (e (S i)) rate) ^ 2 = Rpower 10 (- 3 / 10)
    /\ gabor_image false (gabor_self_stds_elt false rate (e (S i)) (e (S (S i)))) (gabor_self_centers_ang_elt rate (e (S i)) (e (S (S i))))
      (hertz_to_angular (e (S i)) rate) ^ 2 = Rpower 10 (- 3 / 10).
  Proof.
    intros Hi e. destruct (edge_gap i ltac:(lia)) as [A _]. destruct (edge_gap (S i) Hi) as [B _].
    split.
    - apply (gabor_3dB_l rate (e i) (e (S i)) rate_pos A).
    - apply (gabor_3dB_l rate (e (S i)) (e (S (S i))) rate_pos B).
  Qed.

  Lemma gabor_bank_erb_l (l2 : bool) i : (i < n)%nat ->
    let e := gabor_edge h2s s2h n low high in
    angular_to_hertz (gabor_erb_ang l2 (gabor_self_stds_elt true rate (e i) (e (S i)))) rate = e (S i) - e i.
  Proof.
    intros Hi e. destruct (edge_gap i Hi) as [A _]. pose proof rate_pos.
    rewrite gabor_erb_is_edge_spacing_l by assumption.
    unfold angular_to_hertz, hertz_to_angular. pose proof PI_RGT_0. field. split; lra.
  Qed.

  (** ** gammatone *)
  Lemma gammatone_bank_cross_3dB_l order i : (1 <= order)%nat -> (S i < n)%nat ->
    let e := gammatone_edge h2s s2h n low high in
    let H l r := gammatone_H_abs (gammatone_self_cs_elt false false order rate l r)
                   (gammatone_self_alphas_elt false order rate l r) (gammatone_self_xis_elt rate l r) order in
    H (e i) (e (S i)) (hertz_to_angular (e (S i)) rate) ^ 2 = 1 / 2
    /\ H (e (S i)) (e (S (S i))) (hertz_to_angular (e (S i)) rate) ^ 2 = 1 / 2.
  Proof.
    intros Ho Hi e H. destruct (edge_gap i ltac:(lia)) as [A _]. destruct (edge_gap (S i) Hi) as [B _].
    split.
    - apply (gammatone_3dB_l order rate (e i) (e (S i)) Ho rate_pos A).
    - apply (gammatone_3dB_l order rate (e (S i)) (e (S (S i))) Ho rate_pos B).
  Qed.

  Lemma gammatone_bank_erb_l order i : (1 <= order)%nat -> (i < n)%nat ->
    let e := gammatone_edge h2s s2h n low high in
    angular_to_hertz (gammatone_erb_ang (gammatone_self_alphas_elt true order rate (e i) (e (S i))) order) rate
    = e (S i) - e i.
  Proof.
    intros Ho Hi e. destruct (edge_gap i Hi) as [A _]. pose proof rate_pos.
    rewrite gammatone_erb_is_edge_spacing_l by assumption.
    unfold angular_to_hertz, hertz_to_angular. pose proof PI_RGT_0. field. split; lra.
  Qed.
End Banks.

(** * Fbank = the triangular layout on the mel scale, response sqrt of a mel triangle *)
Lemma fbank_bank_response_l (n : nat) (low high rate : R) (analytic half : bool) i (width k : Z) :
  0 <= low -> low < high -> high <= rate / 2 -> (i < n)%nat ->
  (0 < width)%Z -> (0 <= k < dft_size half width)%Z ->
  fbank_freq_resp analytic half rate (fbank_vertex n low high i) (fbank_vertex n low high (S i)) (fbank_vertex n low high (S (S i)))
    width k
  = sqrt (triangle (mel_h2s (fbank_vertex n low high i)) (mel_h2s (fbank_vertex n low high (S i)))
            (mel_h2s (fbank_vertex n low high (S (S i))))
            (mel_h2s (bin_hz (negb half && negb analytic) rate width k))).
Proof.
  intros Hl Hlh Hh Hi Hw Hk.
  assert (OK : ScaleOK mel_h2s mel_s2h low high) by (apply mel_scale_ok_l; lra).
  destruct (tri_vertices_ordered_l mel_h2s mel_s2h n low high OK i Hi) as (A & B & C & D).
  change (fbank_vertex n low high) with (tri_vertex mel_h2s mel_s2h n low high).
  apply fbank_response_spec_l; try assumption; lra.
Qed.

(* in mel the Fbank vertices are equally spaced, so the mel triangle is symmetric *)
Lemma fbank_mel_vertices_l (n : nat) (low high : R) i : 0 <= low -> low < high -> (i <= n)%nat ->
  mel_h2s (fbank_vertex n low high (S i)) - mel_h2s (fbank_vertex n low high i) = fbank_scale_delta (INR n) low high.
Proof.
  intros Hl Hlh Hi. assert (OK : ScaleOK mel_h2s mel_s2h low high) by (apply mel_scale_ok_l; lra).
  change (fbank_vertex n low high) with (tri_vertex mel_h2s mel_s2h n low high).
  change (fbank_scale_delta (INR n) low high) with (tri_scale_delta mel_h2s (INR n) low high).
  apply tri_equally_spaced_l; assumption.
Qed.

Example banks_hypotheses_satisfiable :
  ScaleOK bark_h2s bark_s2h 20 4000 /\ 0 <= 20 /\ 4000 <= 16000 / 2.
Proof. split; [apply bark_scale_ok_l; lra | lra]. Qed.
