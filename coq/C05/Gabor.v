(* C05 - Gabor bank: unit peak gain, 3 dB crossings, ERB, L2 norm, centre inside
   supports_hz.  About gen/Banks.v (regenerated from filters.py on every run). *)
From Coq Require Import Reals ZArith Lra Lia.
From Interval Require Import Tactic.
From Flocq Require Import Core.Raux.
From Verif Require Import gen.Scales gen.Banks C05.Model.
Open Scope R_scope.

Lemma h2a_pos a rate : 0 < rate -> 0 < a -> 0 < hertz_to_angular a rate.
Proof.
  intros Hr Ha. unfold hertz_to_angular. pose proof PI_RGT_0.
  apply Rdiv_lt_0_compat; [|exact Hr]. apply Rmult_lt_0_compat; lra.
Qed.

Lemma h2a_linear a b rate : rate <> 0 ->
  hertz_to_angular a rate - hertz_to_angular b rate = hertz_to_angular (a - b) rate.
Proof. intros Hr. unfold hertz_to_angular. field; exact Hr. Qed.

Lemma a2h_h2a_shift c d rate : rate <> 0 ->
  angular_to_hertz (hertz_to_angular c rate + d) rate = c + d * rate / (2 * PI).
Proof. intros Hr. unfold angular_to_hertz, hertz_to_angular. pose proof PI_RGT_0. field; lra. Qed.

Lemma ln10_pos : 0 < ln 10.
Proof. rewrite <- ln_1. apply ln_increasing; lra. Qed.

Lemma pow2_gt_0 x : x <> 0 -> 0 < x ^ 2.
Proof. intros H. replace (x ^ 2) with (Rsqr x) by (unfold Rsqr; ring). apply Rsqr_pos_lt; exact H. Qed.

Lemma exp_pow_n x n : exp x ^ n = exp (INR n * x).
Proof.
  induction n as [|n IH].
  - simpl. rewrite Rmult_0_l, exp_0. reflexivity.
  - rewrite S_INR. simpl pow. rewrite IH, <- exp_plus. f_equal. ring.
Qed.

Lemma pow2_lt x y : 0 <= x -> x < y -> x ^ 2 < y ^ 2.
Proof. intros H0 H. nra. Qed.

Lemma sqrt_sq x : 0 <= x -> sqrt x ^ 2 = x.
Proof. intros H. simpl. rewrite Rmult_1_r. apply sqrt_sqrt; exact H. Qed.

Lemma exp_sq x : exp x ^ 2 = exp (2 * x).
Proof. simpl. rewrite Rmult_1_r, <- exp_plus. f_equal. ring. Qed.

(** * Shapes of the generated constants *)
Lemma gabor_bandwidth_const_shape erb :
  gabor_bandwidth_const erb = if erb then sqrt PI / 2 else sqrt (3 / 10 * ln 10).
Proof. reflexivity. Qed.

Lemma gabor_std_shape erb rate l r :
  gabor_self_stds_elt erb rate l r
  = gabor_bandwidth_const erb / hertz_to_angular ((l + r) / 2 - l) rate.
Proof. reflexivity. Qed.

Lemma gabor_center_ang_shape rate l r :
  gabor_self_centers_ang_elt rate l r = hertz_to_angular ((l + r) / 2) rate.
Proof. reflexivity. Qed.

Lemma gabor_f_support_const_shape l2 :
  gabor_f_support_const l2
  = if l2 then -2 * ln effective_support_threshold + (ln 2 + 1 / 2 * ln PI)
    else -2 * ln effective_support_threshold.
Proof. reflexivity. Qed.

Lemma gabor_diff_ang_shape l2 erb rate l r :
  gabor_diff_ang l2 erb rate l r
  = if l2 then sqrt (ln (gabor_self_stds_elt erb rate l r) + gabor_f_support_const true) / gabor_self_stds_elt erb rate l r
    else sqrt (gabor_f_support_const false) / gabor_self_stds_elt erb rate l r.
Proof. destruct l2; reflexivity. Qed.

Lemma gabor_supports_hz_shape l2 erb rate l r :
  gabor_self_supports_hz_elt_0 l2 erb rate l r
  = angular_to_hertz (gabor_self_centers_ang_elt rate l r - gabor_diff_ang l2 erb rate l r) rate
  /\ gabor_self_supports_hz_elt_1 l2 erb rate l r
  = angular_to_hertz (gabor_self_centers_ang_elt rate l r + gabor_diff_ang l2 erb rate l r) rate.
Proof. split; reflexivity. Qed.

Lemma gabor_fr_val_image l2 width center std idx period :
  gabor_fr_res_idx_add l2 width center std idx period
  = gabor_image l2 std center (gabor_fr_omega width idx period).
Proof. reflexivity. Qed.

Lemma gabor_fr_omega_shape width idx period :
  gabor_fr_omega width idx period = (idx / width + period) * 2 * PI.
Proof. reflexivity. Qed.

Lemma gabor_image_shape l2 std c w :
  gabor_image l2 std c w
  = exp (- (std ^ 2) / 2 * (c - w) ^ 2 + (if l2 then 1 / 2 * ln (2 * std) + 1 / 4 * ln PI else 0)).
Proof. destruct l2; reflexivity. Qed.

Lemma gabor_ir_const_shape l2 std :
  gabor_ir_const_term l2 std
  = if l2 then - (1 / 2) * ln std - 1 / 4 * ln PI else - (1 / 2) * ln (2 * PI) - ln std.
Proof. destruct l2; reflexivity. Qed.

Lemma gabor_ir_denom_shape std : gabor_ir_denom_term std = 2 * std ^ 2.
Proof. reflexivity. Qed.

(** * Positivity *)
Lemma gabor_bandwidth_const_pos erb : 0 < gabor_bandwidth_const erb.
Proof.
  rewrite gabor_bandwidth_const_shape. destruct erb.
  - apply Rdiv_lt_0_compat; [apply sqrt_lt_R0, PI_RGT_0 | lra].
  - apply sqrt_lt_R0. pose proof ln10_pos. lra.
Qed.

Lemma gabor_std_pos_l erb rate l r : 0 < rate -> l < r -> 0 < gabor_self_stds_elt erb rate l r.
Proof.
  intros Hr Hlr. rewrite gabor_std_shape.
  apply Rdiv_lt_0_compat; [apply gabor_bandwidth_const_pos | apply h2a_pos; lra].
Qed.

(** * Unit peak gain (scale_l2_norm = False) *)
Lemma gabor_peak_one_l std c : gabor_image false std c c = 1.
Proof.
  rewrite gabor_image_shape. replace (- std ^ 2 / 2 * (c - c) ^ 2 + 0) with 0 by ring. apply exp_0.
Qed.

Lemma gabor_le_one_l std c w : gabor_image false std c w <= 1.
Proof.
  rewrite gabor_image_shape. rewrite <- exp_0.
  destruct (Req_dec (- std ^ 2 / 2 * (c - w) ^ 2 + 0) 0) as [E|E]; [rewrite E; lra|].
  left. apply exp_increasing.
  assert (0 <= std ^ 2 * (c - w) ^ 2) by (apply Rmult_le_pos; apply pow2_ge_0). nra.
Qed.

Lemma gabor_lt_one_l std c w : std <> 0 -> w <> c -> gabor_image false std c w < 1.
Proof.
  intros Hs Hw. rewrite gabor_image_shape. rewrite <- exp_0. apply exp_increasing.
  assert (0 < std ^ 2) by (apply pow2_gt_0; exact Hs).
  assert (0 < (c - w) ^ 2) by (apply pow2_gt_0; lra).
  assert (0 < std ^ 2 * (c - w) ^ 2) by (apply Rmult_lt_0_compat; lra). lra.
Qed.

(* the value depends on |c - w| only and decreases with it: the response is unimodal *)
Lemma gabor_image_decreasing_l l2 std c w1 w2 :
  std <> 0 -> Rabs (c - w1) < Rabs (c - w2) -> gabor_image l2 std c w2 < gabor_image l2 std c w1.
Proof.
  intros Hs Hw. rewrite !gabor_image_shape. apply exp_increasing.
  assert (0 < std ^ 2) by (apply pow2_gt_0; exact Hs).
  assert ((c - w1) ^ 2 < (c - w2) ^ 2).
  { rewrite <- (pow2_abs (c - w1)), <- (pow2_abs (c - w2)). pose proof (Rabs_pos (c - w1)). nra. }
  nra.
Qed.

(** * 3 dB crossing (erb = False) *)
Lemma gabor_edge_distance rate l r : rate <> 0 ->
  gabor_self_centers_ang_elt rate l r - hertz_to_angular l rate = hertz_to_angular ((l + r) / 2 - l) rate
  /\ gabor_self_centers_ang_elt rate l r - hertz_to_angular r rate = - hertz_to_angular ((l + r) / 2 - l) rate.
Proof. intros Hr. rewrite gabor_center_ang_shape. unfold hertz_to_angular. split; field; exact Hr. Qed.

Lemma gabor_at_edge erb rate l r w :
  0 < rate -> l < r ->
  (gabor_self_centers_ang_elt rate l r - w) ^ 2 = hertz_to_angular ((l + r) / 2 - l) rate ^ 2 ->
  gabor_image false (gabor_self_stds_elt erb rate l r) (gabor_self_centers_ang_elt rate l r) w ^ 2
  = exp (- gabor_bandwidth_const erb ^ 2).
Proof.
  intros Hr Hlr Hw. rewrite gabor_image_shape, exp_sq, Hw, gabor_std_shape. f_equal.
  pose proof (h2a_pos ((l + r) / 2 - l) rate Hr ltac:(lra)). field. lra.
Qed.

Lemma gabor_3dB_l rate l r : 0 < rate -> l < r ->
  let std := gabor_self_stds_elt false rate l r in
  let c := gabor_self_centers_ang_elt rate l r in
  gabor_image false std c (hertz_to_angular l rate) ^ 2 = Rpower 10 (- 3 / 10)
  /\ gabor_image false std c (hertz_to_angular r rate) ^ 2 = Rpower 10 (- 3 / 10).
Proof.
  intros Hr Hlr std c. destruct (gabor_edge_distance rate l r ltac:(lra)) as [E1 E2].
  assert (B : exp (- gabor_bandwidth_const false ^ 2) = Rpower 10 (- 3 / 10)).
  { rewrite gabor_bandwidth_const_shape, sqrt_sq by (pose proof ln10_pos; lra). unfold Rpower. f_equal. lra. }
  split; unfold std, c; rewrite gabor_at_edge; try assumption.
  - rewrite E1. reflexivity.
  - rewrite E2. ring.
Qed.

(** * Equivalent rectangular bandwidth (erb = True) *)
Lemma gauss_integral_sq s : 0 < s -> gauss_integral (s ^ 2) = sqrt PI / s.
Proof.
  intros Hs. unfold gauss_integral. pose proof PI_RGT_0 as Hpi.
  assert (0 < sqrt PI) by (apply sqrt_lt_R0; exact Hpi).
  apply sqrt_lem_1.
  - left. apply Rdiv_lt_0_compat; [exact Hpi | apply pow2_gt_0; lra].
  - left. apply Rdiv_lt_0_compat; lra.
  - replace (sqrt PI / s * (sqrt PI / s)) with (sqrt PI * sqrt PI / s ^ 2) by (field; lra).
    rewrite sqrt_sqrt by lra. reflexivity.
Qed.

Lemma gabor_erb_closed_l l2 std : 0 < std -> gabor_erb_ang l2 std = sqrt PI / std.
Proof.
  intros Hs. unfold gabor_erb_ang. rewrite gauss_integral_sq by exact Hs.
  unfold gabor_image. replace (gabor_fr_num_term std * (0 - 0) ^ 2 + gabor_fr_const_term l2 std)
    with (gabor_fr_const_term l2 std) by ring.
  pose proof (exp_pos (gabor_fr_const_term l2 std)). field. split; lra.
Qed.

Lemma gabor_erb_is_edge_spacing_l l2 rate l r : 0 < rate -> l < r ->
  gabor_erb_ang l2 (gabor_self_stds_elt true rate l r) = hertz_to_angular (r - l) rate.
Proof.
  intros Hr Hlr. rewrite gabor_erb_closed_l by (apply gabor_std_pos_l; assumption).
  rewrite gabor_std_shape, gabor_bandwidth_const_shape.
  pose proof (h2a_pos ((l + r) / 2 - l) rate Hr ltac:(lra)) as Hp.
  assert (0 < sqrt PI) by (apply sqrt_lt_R0, PI_RGT_0).
  replace (hertz_to_angular (r - l) rate) with (2 * hertz_to_angular ((l + r) / 2 - l) rate)
    by (unfold hertz_to_angular; field; lra).
  field. split; lra.
Qed.

(** * Unit L2 norm (scale_l2_norm = True) *)
Lemma exp_half_ln x : 0 < x -> exp (1 / 2 * ln x) = sqrt x.
Proof.
  intros Hx. apply Rsqr_inj; [left; apply exp_pos | apply sqrt_pos |].
  rewrite Rsqr_sqrt by lra. unfold Rsqr. rewrite <- exp_plus.
  replace (1 / 2 * ln x + 1 / 2 * ln x) with (ln x) by field. apply exp_ln; exact Hx.
Qed.

Lemma gabor_l2_time_l std : 0 < std -> gabor_l2sq_time true std = 1.
Proof.
  intros Hs. unfold gabor_l2sq_time. rewrite gabor_ir_const_shape, gabor_ir_denom_shape, exp_sq.
  replace (2 / (2 * std ^ 2)) with (/ std ^ 2) by (field; lra).
  unfold gauss_integral. replace (PI / / std ^ 2) with (PI * std ^ 2) by (field; lra).
  rewrite sqrt_mult by (try (left; apply PI_RGT_0); apply pow2_ge_0).
  replace (std ^ 2) with (Rsqr std) by (unfold Rsqr; ring). rewrite sqrt_Rsqr by lra.
  replace (2 * (- (1 / 2) * ln std - 1 / 4 * ln PI)) with (- (ln std + 1 / 2 * ln PI)) by field.
  rewrite exp_Ropp, exp_plus, exp_ln by exact Hs. rewrite exp_half_ln by apply PI_RGT_0.
  assert (0 < sqrt PI) by (apply sqrt_lt_R0, PI_RGT_0). field. split; lra.
Qed.

Lemma gabor_l2_freq_l std : 0 < std -> gabor_l2sq_freq true std = 1.
Proof.
  intros Hs. unfold gabor_l2sq_freq. rewrite gauss_integral_sq by exact Hs.
  replace (gabor_fr_const_term true std) with (1 / 2 * ln (2 * std) + 1 / 4 * ln PI) by reflexivity.
  rewrite exp_sq.
  replace (2 * (1 / 2 * ln (2 * std) + 1 / 4 * ln PI)) with (ln (2 * std) + 1 / 2 * ln PI) by field.
  rewrite exp_plus, exp_ln by lra. rewrite exp_half_ln by apply PI_RGT_0.
  assert (0 < sqrt PI) by (apply sqrt_lt_R0, PI_RGT_0). pose proof PI_RGT_0.
  replace (2 * std * sqrt PI * (sqrt PI / std) / (2 * PI)) with (sqrt PI * sqrt PI / PI) by (field; lra).
  rewrite sqrt_sqrt by lra. field. lra.
Qed.

(* the constant of the impulse response and the constant of the frequency response are
   consistent: the response at the centre is the integral of the envelope, for both
   normalisations (int exp(-t^2/(2 std^2)) dt = gauss_integral (1 / denom_term)) *)
Lemma gabor_ir_fr_consistent_l l2 std : 0 < std ->
  exp (gabor_ir_const_term l2 std) * gauss_integral (1 / gabor_ir_denom_term std)
  = exp (gabor_fr_const_term l2 std).
Proof.
  intros Hs. rewrite gabor_ir_denom_shape. unfold gauss_integral.
  replace (PI / (1 / (2 * std ^ 2))) with ((2 * PI) * std ^ 2) by (field; lra).
  pose proof PI_RGT_0.
  rewrite sqrt_mult by (try lra; apply pow2_ge_0).
  replace (std ^ 2) with (Rsqr std) by (unfold Rsqr; ring). rewrite sqrt_Rsqr by lra.
  rewrite gabor_ir_const_shape. destruct l2.
  - replace (gabor_fr_const_term true std) with (1 / 2 * ln (2 * std) + 1 / 4 * ln PI) by reflexivity.
    apply Rmult_eq_reg_l with (exp (1 / 2 * ln std + 1 / 4 * ln PI)); [|pose proof (exp_pos (1 / 2 * ln std + 1 / 4 * ln PI)); lra].
    rewrite <- Rmult_assoc, <- !exp_plus.
    replace (1 / 2 * ln std + 1 / 4 * ln PI + (- (1 / 2) * ln std - 1 / 4 * ln PI)) with 0 by field.
    rewrite exp_0, Rmult_1_l.
    replace (1 / 2 * ln std + 1 / 4 * ln PI + (1 / 2 * ln (2 * std) + 1 / 4 * ln PI))
      with (1 / 2 * ln (2 * PI) + ln std) by (rewrite !ln_mult by lra; field).
    rewrite exp_plus, exp_half_ln, exp_ln by lra. reflexivity.
  - replace (gabor_fr_const_term false std) with 0 by reflexivity. rewrite exp_0.
    replace (- (1 / 2) * ln (2 * PI) - ln std) with (- (1 / 2 * ln (2 * PI) + ln std)) by field.
    rewrite exp_Ropp, exp_plus, exp_half_ln, exp_ln by lra.
    assert (0 < sqrt (2 * PI)) by (apply sqrt_lt_R0; lra). field. split; lra.
Qed.

(** * Centre inside supports_hz *)
Lemma f_support_const_pos : 0 < gabor_f_support_const false.
Proof. rewrite gabor_f_support_const_shape. unfold effective_support_threshold. interval. Qed.

(* with scale_l2_norm the half-width is sqrt(log std + const)/std, real as long as the
   filter is not absurdly wide; any filter with edges at most the sampling rate apart is fine *)
Lemma gabor_l2_radicand_pos erb rate l r : 0 < rate -> l < r -> r - l <= rate ->
  0 < ln (gabor_self_stds_elt erb rate l r) + gabor_f_support_const true.
Proof.
  intros Hr Hlr Hw. rewrite gabor_std_shape.
  pose proof (h2a_pos ((l + r) / 2 - l) rate Hr ltac:(lra)) as Hp.
  assert (Hle : hertz_to_angular ((l + r) / 2 - l) rate <= PI).
  { unfold hertz_to_angular. pose proof PI_RGT_0.
    apply Rmult_le_reg_r with rate; [exact Hr|].
    replace (((l + r) / 2 - l) * 2 * PI / rate * rate) with ((r - l) * PI) by (field; lra). nra. }
  pose proof (gabor_bandwidth_const_pos erb) as HB.
  assert (HBl : 4 / 5 <= gabor_bandwidth_const erb).
  { rewrite gabor_bandwidth_const_shape. destruct erb; interval. }
  assert (Hq : 1 / 4 <= gabor_bandwidth_const erb / hertz_to_angular ((l + r) / 2 - l) rate).
  { apply Rmult_le_reg_r with (hertz_to_angular ((l + r) / 2 - l) rate); [exact Hp|].
    replace (gabor_bandwidth_const erb / hertz_to_angular ((l + r) / 2 - l) rate * hertz_to_angular ((l + r) / 2 - l) rate)
      with (gabor_bandwidth_const erb) by (field; lra).
    assert (PI <= 16 / 5) by interval. nra. }
  assert (ln (1 / 4) <= ln (gabor_bandwidth_const erb / hertz_to_angular ((l + r) / 2 - l) rate)).
  { destruct Hq as [Hq|Hq]; [left; apply ln_increasing; lra | right; rewrite Hq; reflexivity]. }
  assert (0 < ln (1 / 4) + gabor_f_support_const true).
  { rewrite gabor_f_support_const_shape. unfold effective_support_threshold. interval. }
  lra.
Qed.

Lemma gabor_diff_ang_pos l2 erb rate l r : 0 < rate -> l < r -> r - l <= rate ->
  0 < gabor_diff_ang l2 erb rate l r.
Proof.
  intros Hr Hlr Hw. pose proof (gabor_std_pos_l erb rate l r Hr Hlr) as Hs.
  rewrite gabor_diff_ang_shape. destruct l2; (apply Rdiv_lt_0_compat; [apply sqrt_lt_R0 | exact Hs]).
  - apply gabor_l2_radicand_pos; assumption.
  - apply f_support_const_pos.
Qed.

Lemma gabor_center_in_support_l l2 erb rate l r : 0 < rate -> l < r -> r - l <= rate ->
  gabor_self_supports_hz_elt_0 l2 erb rate l r < gabor_self_centers_hz_elt l r
  /\ gabor_self_centers_hz_elt l r < gabor_self_supports_hz_elt_1 l2 erb rate l r.
Proof.
  intros Hr Hlr Hw. destruct (gabor_supports_hz_shape l2 erb rate l r) as [E0 E1]. rewrite E0, E1.
  pose proof (gabor_diff_ang_pos l2 erb rate l r Hr Hlr Hw) as Hd.
  rewrite gabor_center_ang_shape.
  replace (hertz_to_angular ((l + r) / 2) rate - gabor_diff_ang l2 erb rate l r)
    with (hertz_to_angular ((l + r) / 2) rate + - gabor_diff_ang l2 erb rate l r) by ring.
  rewrite !a2h_h2a_shift by lra.
  replace (gabor_self_centers_hz_elt l r) with ((l + r) / 2) by reflexivity.
  pose proof PI_RGT_0.
  assert (0 < gabor_diff_ang l2 erb rate l r * rate / (2 * PI)).
  { apply Rdiv_lt_0_compat; [apply Rmult_lt_0_compat; assumption | lra]. }
  replace (- gabor_diff_ang l2 erb rate l r * rate / (2 * PI)) with (- (gabor_diff_ang l2 erb rate l r * rate / (2 * PI))) by (field; lra).
  lra.
Qed.

(* the response at the support ends is exactly the threshold (scale_l2_norm = False) *)
Lemma gabor_support_edge_value_l erb rate l r : 0 < rate -> l < r ->
  let std := gabor_self_stds_elt erb rate l r in
  let c := gabor_self_centers_ang_elt rate l r in
  gabor_image false std c (c + gabor_diff_ang false erb rate l r) = effective_support_threshold.
Proof.
  intros Hr Hlr std c. pose proof (gabor_std_pos_l erb rate l r Hr Hlr) as Hs. fold std in Hs.
  rewrite gabor_image_shape, gabor_diff_ang_shape. fold std.
  replace (- std ^ 2 / 2 * (c - (c + sqrt (gabor_f_support_const false) / std)) ^ 2 + 0)
    with (- (sqrt (gabor_f_support_const false) ^ 2) / 2) by (field; lra).
  rewrite sqrt_sq by (left; apply f_support_const_pos). rewrite gabor_f_support_const_shape.
  replace (- (-2 * ln effective_support_threshold) / 2) with (ln effective_support_threshold) by field.
  apply exp_ln. unfold effective_support_threshold. lra.
Qed.

(* hypotheses satisfiable: a 16 kHz filter between 1000 and 1200 Hz *)
Example gabor_example : 0 < 16000 /\ 1000 < 1200 /\ 1200 - 1000 <= 16000.
Proof. lra. Qed.

(** * The periodised response written by get_frequency_response *)
Lemma Ztrunc_unit x : 0 <= x < 1 -> Ztrunc x = 0%Z.
Proof.
  intros [H0 H1]. rewrite Ztrunc_floor by exact H0. apply Zfloor_imp. simpl. lra.
Qed.

(* a filter whose support lies in (-2 PI, 2 PI) is summed over the periods -1, 0, 1 *)
Lemma gabor_freq_resp_three_images_l l2 std c lowest highest (width k : Z) :
  - (2 * PI) < lowest -> 0 <= highest < 2 * PI ->
  gabor_freq_resp l2 std c lowest highest width k
  = gabor_image l2 std c ((IZR k / IZR width + -1) * 2 * PI)
    + (gabor_image l2 std c ((IZR k / IZR width + 0) * 2 * PI)
       + (gabor_image l2 std c ((IZR k / IZR width + 1) * 2 * PI) + 0)).
Proof.
  intros Hl Hh. pose proof PI_RGT_0 as Hpi. unfold gabor_freq_resp.
  assert (S : gabor_fr_period_start lowest = (-1)%Z).
  { unfold gabor_fr_period_start. cbv zeta. rewrite Ztrunc_unit; [reflexivity|].
    split.
    - apply Rmult_le_pos; [apply Rmax_r | left; apply Rinv_0_lt_compat; lra].
    - apply Rmult_lt_reg_r with (2 * PI); [lra|].
      replace (Rmax (- lowest) 0 / (2 * PI) * (2 * PI)) with (Rmax (- lowest) 0) by (field; lra).
      apply Rmax_lub_lt; lra. }
  assert (E : gabor_fr_period_stop highest = 2%Z).
  { unfold gabor_fr_period_stop. cbv zeta. rewrite Ztrunc_unit; [reflexivity|].
    split.
    - apply Rmult_le_pos; [lra | left; apply Rinv_0_lt_compat; lra].
    - apply Rmult_lt_reg_r with (2 * PI); [lra|].
      replace (highest / (2 * PI) * (2 * PI)) with highest by (field; lra). lra. }
  rewrite S, E. unfold Zsum. change (Z.to_nat (2 - -1)) with 3%nat. cbn [Zsum_from].
  change (-1 + 1)%Z with 0%Z. change (0 + 1)%Z with 1%Z.
  rewrite !gabor_fr_val_image, !gabor_fr_omega_shape. reflexivity.
Qed.

(* in the property's regime (angular support narrower than PI, scale_l2_norm = False) the
   two neighbouring images of the response at the centre are below threshold^16 *)
Lemma gabor_neighbour_images_negligible_l erb rate l r : 0 < rate -> l < r ->
  let std := gabor_self_stds_elt erb rate l r in
  let c := gabor_self_centers_ang_elt rate l r in
  2 * gabor_diff_ang false erb rate l r < PI ->
  gabor_image false std c (c + 2 * PI) <= effective_support_threshold ^ 16
  /\ gabor_image false std c (c - 2 * PI) <= effective_support_threshold ^ 16.
Proof.
  intros Hr Hlr std c Hd. pose proof PI_RGT_0 as Hpi.
  pose proof (gabor_std_pos_l erb rate l r Hr Hlr) as Hs. fold std in Hs.
  pose proof f_support_const_pos as Hf.
  rewrite gabor_diff_ang_shape in Hd. fold std in Hd.
  (* sqrt(fc) / std < PI / 2, so std^2 PI^2 > 4 fc *)
  assert (Hq : 4 * gabor_f_support_const false < std ^ 2 * PI ^ 2).
  { assert (A : 2 * sqrt (gabor_f_support_const false) < std * PI).
    { apply Rmult_lt_reg_r with (/ std); [apply Rinv_0_lt_compat; exact Hs|].
      replace (std * PI * / std) with PI by (field; lra).
      replace (2 * sqrt (gabor_f_support_const false) * / std) with (2 * (sqrt (gabor_f_support_const false) / std)) by (field; lra).
      exact Hd. }
    assert (0 <= sqrt (gabor_f_support_const false)) by apply sqrt_pos.
    replace (4 * gabor_f_support_const false) with ((2 * sqrt (gabor_f_support_const false)) ^ 2)
      by (rewrite Rpow_mult_distr, sqrt_sq by lra; ring).
    replace (std ^ 2 * PI ^ 2) with ((std * PI) ^ 2) by ring.
    apply pow2_lt; lra. }
  assert (Hv : forall w, (c - w) ^ 2 = 4 * PI ^ 2 ->
                         gabor_image false std c w <= effective_support_threshold ^ 16).
  { intros w Hw. rewrite gabor_image_shape, Hw.
    replace (effective_support_threshold ^ 16) with (exp (16 * ln effective_support_threshold))
      by (replace 16 with (INR 16) by (simpl; lra); rewrite <- exp_pow_n, exp_ln by (unfold effective_support_threshold; lra); reflexivity).
    rewrite gabor_f_support_const_shape in Hq.
    left. apply exp_increasing. nra. }
  split; apply Hv; ring.
Qed.
