(* C05: with the Gaussian integral proved (C05/Gauss.v), the closed forms of the Gabor bank's
   equivalent rectangular bandwidth and L2 norms - built on [gauss_integral], which Model.v
   introduces as the textbook value sqrt (PI / a) - ARE the improper integrals they stand for. *)
From Coq Require Import Reals Lra Lia.
From Coquelicot Require Import Coquelicot.
From Verif Require Import gen.Scales gen.Banks C05.Model C05.Gabor C05.Gauss.
Open Scope R_scope.

Lemma gauss_integral_is_integral_l a : 0 < a ->
  is_RInt_gen (fun u => exp (- (a * u ^ 2))) (Rbar_locally m_infty) (Rbar_locally p_infty)
              (gauss_integral a).
Proof. intros Ha. unfold gauss_integral. apply (gaussian_integral a Ha). Qed.

(* k * exp(-(a u^2)) integrates to k * gauss_integral a *)
Lemma scaled_gauss_integral k a (f : R -> R) : 0 < a ->
  (forall u, f u = k * exp (- (a * u ^ 2))) ->
  is_RInt_gen f (Rbar_locally m_infty) (Rbar_locally p_infty) (k * gauss_integral a).
Proof.
  intros Ha E.
  apply (is_RInt_gen_ext (fun u => scal k (exp (- (a * u ^ 2))))).
  { apply filter_forall. intros [x y] u _. symmetry. apply E. }
  apply (@is_RInt_gen_scal R_CompleteNormedModule (Rbar_locally m_infty) (Rbar_locally p_infty) _ _
           (fun u => exp (- (a * u ^ 2))) k).
  apply gauss_integral_is_integral_l. exact Ha.
Qed.

(* |G(omega)|^2 of one image centred at 0 *)
Lemma gabor_image_sq l2 std omega :
  gabor_image l2 std 0 omega ^ 2 = exp (gabor_fr_const_term l2 std) ^ 2 * exp (- (std ^ 2 * omega ^ 2)).
Proof.
  unfold gabor_image, gabor_fr_num_term. cbv zeta.
  rewrite exp_plus.
  replace (- (std ^ 2 * omega ^ 2)) with (- std ^ 2 / 2 * (0 - omega) ^ 2 + - std ^ 2 / 2 * (0 - omega) ^ 2) by field.
  rewrite exp_plus. ring.
Qed.

(* int |G|^2 / max |G|^2 : the model's equivalent rectangular bandwidth (angular) *)
Lemma gabor_erb_is_integral_l l2 std : 0 < std ->
  is_RInt_gen (fun omega => (gabor_image l2 std 0 omega / gabor_image l2 std 0 0) ^ 2)
              (Rbar_locally m_infty) (Rbar_locally p_infty) (gabor_erb_ang l2 std).
Proof.
  intros Hs.
  assert (Hp : 0 < gabor_image l2 std 0 0) by (unfold gabor_image; apply exp_pos).
  assert (Ha : 0 < std ^ 2) by (apply pow_lt; exact Hs).
  replace (gabor_erb_ang l2 std)
    with ((exp (gabor_fr_const_term l2 std) ^ 2 / gabor_image l2 std 0 0 ^ 2) * gauss_integral (std ^ 2)).
  2:{ unfold gabor_erb_ang. field. lra. }
  apply scaled_gauss_integral; [exact Ha|].
  intros u. replace ((gabor_image l2 std 0 u / gabor_image l2 std 0 0) ^ 2)
    with (gabor_image l2 std 0 u ^ 2 / gabor_image l2 std 0 0 ^ 2) by (field; lra).
  rewrite gabor_image_sq. field. lra.
Qed.

(* int |f(t)|^2 dt *)
Lemma gabor_l2_time_is_integral_l l2 std : 0 < std ->
  is_RInt_gen (fun t => gabor_ir_abs l2 std t ^ 2)
              (Rbar_locally m_infty) (Rbar_locally p_infty) (gabor_l2sq_time l2 std).
Proof.
  intros Hs. unfold gabor_l2sq_time.
  assert (Hd : 0 < gabor_ir_denom_term std).
  { unfold gabor_ir_denom_term. cbv zeta. assert (0 < std ^ 2) by (apply pow_lt; exact Hs). lra. }
  apply scaled_gauss_integral; [apply Rdiv_lt_0_compat; lra|].
  intros t. unfold gabor_ir_abs.
  rewrite exp_plus.
  replace (- (2 / gabor_ir_denom_term std * t ^ 2))
    with (- t ^ 2 / gabor_ir_denom_term std + - t ^ 2 / gabor_ir_denom_term std) by (field; lra).
  rewrite exp_plus. ring.
Qed.

(* 1/(2 PI) int |G(omega)|^2 d omega  (Parseval's other side) *)
Lemma gabor_l2_freq_is_integral_l l2 std : 0 < std ->
  is_RInt_gen (fun omega => gabor_image l2 std 0 omega ^ 2 / (2 * PI))
              (Rbar_locally m_infty) (Rbar_locally p_infty) (gabor_l2sq_freq l2 std).
Proof.
  intros Hs. pose proof PI_RGT_0 as HPI.
  assert (Ha : 0 < std ^ 2) by (apply pow_lt; exact Hs).
  replace (gabor_l2sq_freq l2 std)
    with ((exp (gabor_fr_const_term l2 std) ^ 2 / (2 * PI)) * gauss_integral (std ^ 2)).
  2:{ unfold gabor_l2sq_freq. field. lra. }
  apply scaled_gauss_integral; [exact Ha|].
  intros u. rewrite gabor_image_sq. field. lra.
Qed.

(* with scale_l2_norm the impulse response has unit L2 norm - as an integral, in both domains *)
Lemma gabor_unit_l2_norm_time_l std : 0 < std ->
  is_RInt_gen (fun t => gabor_ir_abs true std t ^ 2) (Rbar_locally m_infty) (Rbar_locally p_infty) 1.
Proof. intros Hs. rewrite <- (gabor_l2_time_l std Hs). apply gabor_l2_time_is_integral_l. exact Hs. Qed.

Lemma gabor_unit_l2_norm_freq_l std : 0 < std ->
  is_RInt_gen (fun omega => gabor_image true std 0 omega ^ 2 / (2 * PI))
              (Rbar_locally m_infty) (Rbar_locally p_infty) 1.
Proof. intros Hs. rewrite <- (gabor_l2_freq_l std Hs). apply gabor_l2_freq_is_integral_l. exact Hs. Qed.

(* the response at the centre frequency is the integral of the impulse-response envelope
   (the omega = centre value of the Fourier transform), for both normalisations *)
Lemma gabor_centre_gain_is_integral_l l2 std : 0 < std ->
  is_RInt_gen (fun t => gabor_ir_abs l2 std t)
              (Rbar_locally m_infty) (Rbar_locally p_infty) (exp (gabor_fr_const_term l2 std)).
Proof.
  intros Hs.
  assert (Hd : 0 < gabor_ir_denom_term std).
  { unfold gabor_ir_denom_term. cbv zeta. assert (0 < std ^ 2) by (apply pow_lt; exact Hs). lra. }
  rewrite <- (gabor_ir_fr_consistent_l l2 std Hs).
  apply scaled_gauss_integral; [apply Rdiv_lt_0_compat; lra|].
  intros t. unfold gabor_ir_abs. rewrite exp_plus.
  replace (- (1 / gabor_ir_denom_term std * t ^ 2)) with (- t ^ 2 / gabor_ir_denom_term std) by (field; lra).
  ring.
Qed.
