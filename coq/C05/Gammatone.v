(* C05 - complex gammatone bank: unit peak gain, half-power crossings, ERB, L2 norm,
   centre inside supports_hz.  About gen/Banks.v (regenerated from filters.py). *)
From Coq Require Import Reals ZArith Lra Lia.
From Verif Require Import gen.Scales gen.Banks C05.Model C05.Gabor.
Open Scope R_scope.

(** * Helpers *)
Lemma fact_pos k : 0 < INR (fact k).
Proof. apply INR_fact_lt_0. Qed.

Lemma sqrt_pow_sq x n : 0 <= x -> (sqrt x ^ n) ^ 2 = x ^ n.
Proof.
  intros Hx. rewrite <- pow_mult, Nat.mul_comm, pow_mult. rewrite sqrt_sq by exact Hx. reflexivity.
Qed.

Lemma exp_ln2_pow k : exp (ln 2 * INR k) = 2 ^ k.
Proof. rewrite Rmult_comm, <- exp_pow_n, exp_ln by lra. reflexivity. Qed.

Lemma INR_2n1 n : (1 <= n)%nat -> INR (2 * n - 1) = 2 * INR n - 1.
Proof. intros H. rewrite minus_INR by lia. rewrite mult_INR. simpl. lra. Qed.

Lemma INR_n1 n : (1 <= n)%nat -> INR (n - 1) = INR n - 1.
Proof. intros H. rewrite minus_INR by lia. simpl. lra. Qed.

(** * Shapes of the generated constants *)
Lemma gammatone_alpha_shape erb n rate l r :
  gammatone_self_alphas_elt erb n rate l r = exp (gammatone_log_alpha erb n rate l r).
Proof. reflexivity. Qed.

Lemma gammatone_log_alpha_shape erb n rate l r :
  gammatone_log_alpha erb n rate l r = gammatone_alpha_const erb n + ln (hertz_to_angular (r - l) rate).
Proof. reflexivity. Qed.

Lemma gammatone_alpha_const_shape erb n :
  gammatone_alpha_const erb n
  = if erb then ln 2 * (2 * INR n - 1) + 2 * ln (INR (fact (n - 1))) - ln (INR (fact (2 * n - 2))) - ln (2 * PI)
    else - (1 / 2) * ln (4 * Rpower 2 (1 / INR n) - 4).
Proof. destruct erb; reflexivity. Qed.

Lemma gammatone_c_shape l2 erb n rate l r :
  gammatone_self_cs_elt l2 erb n rate l r = exp (gammatone_log_c l2 erb n rate l r).
Proof. reflexivity. Qed.

Lemma gammatone_log_c_shape l2 erb n rate l r :
  gammatone_log_c l2 erb n rate l r
  = let la := gammatone_log_alpha erb n rate l r in
    if l2 then INR n * (la + ln 2) - 1 / 2 * (ln 2 + la + ln (INR (fact (2 * n - 2))))
    else INR n * la - ln (INR (fact (n - 1))).
Proof. destruct l2; reflexivity. Qed.

Lemma gammatone_xi_shape rate l r : gammatone_self_xis_elt rate l r = hertz_to_angular ((l + r) / 2) rate.
Proof. reflexivity. Qed.

Lemma gammatone_offset_shape erb mc n rate l r :
  gammatone_self_offsets_elt erb mc n rate l r
  = if mc then - (INR n - 1) / gammatone_self_alphas_elt erb n rate l r else 0.
Proof. destruct mc; reflexivity. Qed.

Lemma gammatone_diff_ang_shape l2 erb n rate l r :
  gammatone_diff_ang l2 erb n rate l r
  = sqrt (exp (gammatone_supp_a l2 erb n rate l r) - gammatone_supp_b erb n rate l r).
Proof. reflexivity. Qed.

Lemma gammatone_supp_shape l2 erb n rate l r :
  gammatone_supp_a l2 erb n rate l r
  = 2 / INR n * (gammatone_log_c l2 erb n rate l r + ln (INR (fact (n - 1))) - ln effective_support_threshold)
  /\ gammatone_supp_b erb n rate l r = exp (2 * gammatone_log_alpha erb n rate l r).
Proof. split; reflexivity. Qed.

Lemma gammatone_supports_hz_shape l2 erb n rate l r :
  gammatone_self_supports_hz_elt_0 l2 erb n rate l r
  = angular_to_hertz (gammatone_self_xis_elt rate l r - gammatone_diff_ang l2 erb n rate l r) rate
  /\ gammatone_self_supports_hz_elt_1 l2 erb n rate l r
  = angular_to_hertz (gammatone_self_xis_elt rate l r + gammatone_diff_ang l2 erb n rate l r) rate.
Proof. split; reflexivity. Qed.

Lemma gammatone_alpha_pos_l erb n rate l r : 0 < gammatone_self_alphas_elt erb n rate l r.
Proof. rewrite gammatone_alpha_shape. apply exp_pos. Qed.

(** * Unit peak gain (scale_l2_norm = False), for every order, erb flag and max_centered *)
Lemma gammatone_H_at_center c alpha xi n : 0 < alpha ->
  gammatone_H_abs c alpha xi n xi = c * INR (fact (n - 1)) / alpha ^ n.
Proof.
  intros Ha. unfold gammatone_H_abs. replace (alpha ^ 2 + (xi - xi) ^ 2) with (Rsqr alpha) by (unfold Rsqr; ring).
  rewrite sqrt_Rsqr by lra. reflexivity.
Qed.

Lemma gammatone_peak_one_l erb n rate l r :
  let c := gammatone_self_cs_elt false erb n rate l r in
  let alpha := gammatone_self_alphas_elt erb n rate l r in
  forall xi, gammatone_H_abs c alpha xi n xi = 1.
Proof.
  intros c alpha xi. rewrite gammatone_H_at_center by apply gammatone_alpha_pos_l.
  unfold c, alpha. rewrite gammatone_c_shape, gammatone_alpha_shape, gammatone_log_c_shape. cbv zeta.
  set (la := gammatone_log_alpha erb n rate l r).
  rewrite exp_pow_n. unfold Rminus. rewrite exp_plus, exp_Ropp, exp_ln by apply fact_pos.
  pose proof (fact_pos (n - 1)). pose proof (exp_pos (INR n * la)). field. split; lra.
Qed.

Lemma gammatone_le_peak_l c alpha xi n omega : 0 <= c -> 0 < alpha ->
  gammatone_H_abs c alpha xi n omega <= gammatone_H_abs c alpha xi n xi.
Proof.
  intros Hc Ha. rewrite gammatone_H_at_center by exact Ha. unfold gammatone_H_abs.
  assert (Hs : alpha <= sqrt (alpha ^ 2 + (omega - xi) ^ 2)).
  { rewrite <- (sqrt_Rsqr alpha) at 1 by lra. apply sqrt_le_1_alt. unfold Rsqr. pose proof (pow2_ge_0 (omega - xi)). nra. }
  assert (Hp : alpha ^ n <= sqrt (alpha ^ 2 + (omega - xi) ^ 2) ^ n) by (apply pow_incr; lra).
  assert (0 < alpha ^ n) by (apply pow_lt; exact Ha).
  pose proof (fact_pos (n - 1)).
  unfold Rdiv. apply Rmult_le_compat_l; [apply Rmult_le_pos; lra|].
  apply Rinv_le_contravar; lra.
Qed.

Lemma gammatone_le_one_l erb n rate l r xi omega :
  gammatone_H_abs (gammatone_self_cs_elt false erb n rate l r) (gammatone_self_alphas_elt erb n rate l r) xi n omega <= 1.
Proof.
  rewrite <- (gammatone_peak_one_l erb n rate l r xi). apply gammatone_le_peak_l.
  - rewrite gammatone_c_shape. left; apply exp_pos.
  - apply gammatone_alpha_pos_l.
Qed.

(* squared response relative to the peak: (alpha^2 / (alpha^2 + u^2))^n *)
Lemma gammatone_rel_power c alpha xi n omega : 0 < alpha -> 0 < c ->
  (gammatone_H_abs c alpha xi n omega / gammatone_H_abs c alpha xi n xi) ^ 2
  = (alpha ^ 2 / (alpha ^ 2 + (omega - xi) ^ 2)) ^ n.
Proof.
  intros Ha Hc. rewrite gammatone_H_at_center by exact Ha. unfold gammatone_H_abs.
  assert (Hq : 0 < alpha ^ 2 + (omega - xi) ^ 2) by (pose proof (pow2_gt_0 alpha ltac:(lra)); pose proof (pow2_ge_0 (omega - xi)); lra).
  assert (Hsn : 0 < sqrt (alpha ^ 2 + (omega - xi) ^ 2) ^ n) by (apply pow_lt, sqrt_lt_R0; exact Hq).
  assert (0 < alpha ^ n) by (apply pow_lt; exact Ha). pose proof (fact_pos (n - 1)).
  replace (c * INR (fact (n - 1)) / sqrt (alpha ^ 2 + (omega - xi) ^ 2) ^ n / (c * INR (fact (n - 1)) / alpha ^ n))
    with (alpha ^ n / sqrt (alpha ^ 2 + (omega - xi) ^ 2) ^ n) by (field; repeat split; lra).
  unfold Rdiv. rewrite Rpow_mult_distr, <- Rinv_pow by lra.
  rewrite sqrt_pow_sq by lra. rewrite Rpow_mult_distr, <- Rinv_pow by lra.
  rewrite <- pow_mult, Nat.mul_comm, pow_mult. reflexivity.
Qed.

(** * Half-power (3 dB) crossing at the edges (erb = False) *)
Lemma Rpower2_inv_pos n : (1 <= n)%nat -> 1 < Rpower 2 (1 / INR n).
Proof.
  intros Hn. assert (0 < INR n) by (apply lt_0_INR; lia).
  rewrite <- (Rpower_O 2) at 1 by lra. apply Rpower_lt; [lra|]. apply Rdiv_lt_0_compat; lra.
Qed.

Lemma Rpower2_inv_pow n : (1 <= n)%nat -> Rpower 2 (1 / INR n) ^ n = 2.
Proof.
  intros Hn. assert (0 < INR n) by (apply lt_0_INR; lia).
  unfold Rpower. rewrite exp_pow_n. replace (INR n * (1 / INR n * ln 2)) with (ln 2) by (field; lra).
  apply exp_ln; lra.
Qed.

Lemma gammatone_alpha_3dB_sq n rate l r : (1 <= n)%nat -> 0 < rate -> l < r ->
  gammatone_self_alphas_elt false n rate l r ^ 2
  = hertz_to_angular (r - l) rate ^ 2 / (4 * Rpower 2 (1 / INR n) - 4).
Proof.
  intros Hn Hr Hlr. pose proof (Rpower2_inv_pos n Hn) as HK. pose proof (h2a_pos (r - l) rate Hr ltac:(lra)) as Hb.
  rewrite gammatone_alpha_shape, exp_sq, gammatone_log_alpha_shape, gammatone_alpha_const_shape.
  replace (2 * (- (1 / 2) * ln (4 * Rpower 2 (1 / INR n) - 4) + ln (hertz_to_angular (r - l) rate)))
    with (- ln (4 * Rpower 2 (1 / INR n) - 4) + 2 * ln (hertz_to_angular (r - l) rate)) by field.
  rewrite exp_plus, exp_Ropp, exp_ln by lra. rewrite <- exp_sq, exp_ln by exact Hb. field. lra.
Qed.

Lemma gammatone_3dB_l n rate l r : (1 <= n)%nat -> 0 < rate -> l < r ->
  let c := gammatone_self_cs_elt false false n rate l r in
  let alpha := gammatone_self_alphas_elt false n rate l r in
  let xi := gammatone_self_xis_elt rate l r in
  gammatone_H_abs c alpha xi n (hertz_to_angular l rate) ^ 2 = 1 / 2
  /\ gammatone_H_abs c alpha xi n (hertz_to_angular r rate) ^ 2 = 1 / 2.
Proof.
  intros Hn Hr Hlr c alpha xi.
  pose proof (gammatone_alpha_pos_l false n rate l r) as Ha. fold alpha in Ha.
  assert (Hc : 0 < c) by (unfold c; rewrite gammatone_c_shape; apply exp_pos).
  pose proof (gammatone_peak_one_l false n rate l r xi) as Hpk. fold c alpha in Hpk.
  pose proof (Rpower2_inv_pos n Hn) as HK. pose proof (h2a_pos (r - l) rate Hr ltac:(lra)) as Hb.
  assert (Hedge : forall w, (w - xi) ^ 2 = hertz_to_angular (r - l) rate ^ 2 / 4 ->
                            gammatone_H_abs c alpha xi n w ^ 2 = 1 / 2).
  { intros w Hw.
    assert (E : gammatone_H_abs c alpha xi n w ^ 2 = (gammatone_H_abs c alpha xi n w / gammatone_H_abs c alpha xi n xi) ^ 2)
      by (rewrite Hpk; f_equal; field).
    rewrite E. rewrite gammatone_rel_power by assumption. rewrite Hw. unfold alpha.
    rewrite gammatone_alpha_3dB_sq by assumption.
    set (K := Rpower 2 (1 / INR n)) in *. set (b := hertz_to_angular (r - l) rate) in *.
    replace (b ^ 2 / (4 * K - 4) / (b ^ 2 / (4 * K - 4) + b ^ 2 / 4)) with (/ K).
    2:{ assert (0 < b ^ 2) by (apply pow2_gt_0; lra).
        assert (0 < b ^ 2 * K) by (apply Rmult_lt_0_compat; lra).
        field. repeat split; lra. }
    rewrite <- Rinv_pow by lra. unfold K. rewrite Rpower2_inv_pow by exact Hn. lra. }
  split; apply Hedge; unfold xi; rewrite gammatone_xi_shape; unfold hertz_to_angular; field; lra.
Qed.

(** * Equivalent rectangular bandwidth (erb = True) *)
Lemma gammatone_erb_is_edge_spacing_l n rate l r : (1 <= n)%nat -> 0 < rate -> l < r ->
  gammatone_erb_ang (gammatone_self_alphas_elt true n rate l r) n = hertz_to_angular (r - l) rate.
Proof.
  intros Hn Hr Hlr. pose proof (h2a_pos (r - l) rate Hr ltac:(lra)) as Hb. pose proof PI_RGT_0 as Hpi.
  pose proof (fact_pos (n - 1)) as F1. pose proof (fact_pos (2 * n - 2)) as F2.
  unfold gammatone_erb_ang. rewrite gammatone_alpha_shape, gammatone_log_alpha_shape, gammatone_alpha_const_shape.
  set (b := hertz_to_angular (r - l) rate) in *.
  replace (ln 2 * (2 * INR n - 1) + 2 * ln (INR (fact (n - 1))) - ln (INR (fact (2 * n - 2))) - ln (2 * PI) + ln b)
    with (ln 2 * INR (2 * n - 1) + 2 * ln (INR (fact (n - 1))) + - ln (INR (fact (2 * n - 2))) + - ln (2 * PI) + ln b)
    by (rewrite INR_2n1 by exact Hn; ring).
  rewrite !exp_plus, !exp_Ropp, !exp_ln by lra.
  rewrite exp_ln2_pow.
  replace (exp (2 * ln (INR (fact (n - 1))))) with (INR (fact (n - 1)) ^ 2)
    by (rewrite <- exp_sq, exp_ln by exact F1; reflexivity).
  replace (2 * n - 1)%nat with (S (2 * n - 2)) by lia. rewrite <- tech_pow_Rmult.
  assert (0 < 2 ^ (2 * n - 2)) by (apply pow_lt; lra).
  field. repeat split; lra.
Qed.

(** * Unit L2 norm (scale_l2_norm = True) *)
Lemma gammatone_l2_one_l erb n rate l r : (1 <= n)%nat ->
  gammatone_l2sq (gammatone_self_cs_elt true erb n rate l r) (gammatone_self_alphas_elt erb n rate l r) n = 1.
Proof.
  intros Hn. unfold gammatone_l2sq. rewrite gammatone_c_shape, gammatone_alpha_shape, gammatone_log_c_shape. cbv zeta.
  set (la := gammatone_log_alpha erb n rate l r). pose proof (fact_pos (2 * n - 2)) as F2.
  replace (2 * exp la) with (exp (ln 2 + la)) by (rewrite exp_plus, exp_ln by lra; reflexivity).
  rewrite exp_sq, exp_pow_n. rewrite INR_2n1 by exact Hn.
  replace (2 * (INR n * (la + ln 2) - 1 / 2 * (ln 2 + la + ln (INR (fact (2 * n - 2))))))
    with ((2 * INR n - 1) * (ln 2 + la) + - ln (INR (fact (2 * n - 2)))) by field.
  rewrite exp_plus, exp_Ropp, exp_ln by exact F2.
  pose proof (exp_pos ((2 * INR n - 1) * (ln 2 + la))). field. split; lra.
Qed.

(** * Centre inside supports_hz *)
Lemma ln_eps_neg : ln effective_support_threshold < 0.
Proof. unfold effective_support_threshold. rewrite <- ln_1. apply ln_increasing; lra. Qed.

Lemma gammatone_radicand_pos n erb rate l r : (1 <= n)%nat ->
  gammatone_supp_b erb n rate l r < exp (gammatone_supp_a false erb n rate l r).
Proof.
  intros Hn. destruct (gammatone_supp_shape false erb n rate l r) as [Ea Eb]. rewrite Ea, Eb.
  rewrite gammatone_log_c_shape. cbv zeta. set (la := gammatone_log_alpha erb n rate l r).
  assert (0 < INR n) by (apply lt_0_INR; lia). pose proof ln_eps_neg.
  apply exp_increasing.
  replace (2 / INR n * (INR n * la - ln (INR (fact (n - 1))) + ln (INR (fact (n - 1))) - ln effective_support_threshold))
    with (2 * la + 2 / INR n * - ln effective_support_threshold) by (field; lra).
  assert (0 < 2 / INR n * - ln effective_support_threshold).
  { apply Rmult_lt_0_compat; [apply Rdiv_lt_0_compat; lra | lra]. }
  lra.
Qed.

(* stated for both normalisations; with scale_l2_norm the radicand is positive exactly when
   the peak gain exceeds the threshold, which the hypothesis says *)
Lemma gammatone_center_in_support_l l2 erb n rate l r : 0 < rate ->
  gammatone_supp_b erb n rate l r < exp (gammatone_supp_a l2 erb n rate l r) ->
  gammatone_self_supports_hz_elt_0 l2 erb n rate l r < gammatone_self_centers_hz_elt l r
  /\ gammatone_self_centers_hz_elt l r < gammatone_self_supports_hz_elt_1 l2 erb n rate l r.
Proof.
  intros Hr Hrad. destruct (gammatone_supports_hz_shape l2 erb n rate l r) as [E0 E1]. rewrite E0, E1.
  assert (Hd : 0 < gammatone_diff_ang l2 erb n rate l r) by (rewrite gammatone_diff_ang_shape; apply sqrt_lt_R0; lra).
  rewrite gammatone_xi_shape.
  replace (hertz_to_angular ((l + r) / 2) rate - gammatone_diff_ang l2 erb n rate l r)
    with (hertz_to_angular ((l + r) / 2) rate + - gammatone_diff_ang l2 erb n rate l r) by ring.
  rewrite !a2h_h2a_shift by lra.
  replace (gammatone_self_centers_hz_elt l r) with ((l + r) / 2) by reflexivity.
  pose proof PI_RGT_0.
  assert (0 < gammatone_diff_ang l2 erb n rate l r * rate / (2 * PI)).
  { apply Rdiv_lt_0_compat; [apply Rmult_lt_0_compat; assumption | lra]. }
  replace (- gammatone_diff_ang l2 erb n rate l r * rate / (2 * PI))
    with (- (gammatone_diff_ang l2 erb n rate l r * rate / (2 * PI))) by (field; lra).
  lra.
Qed.

Lemma gammatone_center_in_support_peak_l erb n rate l r : (1 <= n)%nat -> 0 < rate ->
  gammatone_self_supports_hz_elt_0 false erb n rate l r < gammatone_self_centers_hz_elt l r
  /\ gammatone_self_centers_hz_elt l r < gammatone_self_supports_hz_elt_1 false erb n rate l r.
Proof. intros Hn Hr. apply gammatone_center_in_support_l; [exact Hr | apply gammatone_radicand_pos; exact Hn]. Qed.

(* max_centered shifts the filter so that the envelope maximum (n-1)/alpha lands on sample 0 *)
Lemma gammatone_offset_l erb n rate l r :
  gammatone_self_offsets_elt erb false n rate l r = 0
  /\ gammatone_self_offsets_elt erb true n rate l r + (INR n - 1) / gammatone_self_alphas_elt erb n rate l r = 0.
Proof.
  rewrite !gammatone_offset_shape. split; [reflexivity|].
  pose proof (gammatone_alpha_pos_l erb n rate l r). field. lra.
Qed.
