(* C05 - complex gammatone bank: the periodic images of a filter whose support spans less than
   half the sampling rate.  get_frequency_response adds H(omega + 2 pi k) over the periods that
   meet the support; here: |H| falls with the distance from the centre, equals
   EFFECTIVE_SUPPORT_THRESHOLD exactly at the edges of supports_ang, hence every image other
   than the principal one stays below the threshold at every bin of the principal period, and
   the gain of a sum "unit-modulus term + m small terms" is within m * threshold of 1.
   About gen/Banks.v (regenerated from filters.py). *)
From Coq Require Import Reals ZArith Lra Lia List.
From Coquelicot Require Import Coquelicot.
From Verif Require Import gen.Scales gen.Banks C05.Model C05.Gabor C05.Gammatone.
Open Scope R_scope.

(** * |H| is a decreasing function of the distance from the centre *)
Lemma gammatone_H_abs_antitone_l c alpha xi n w1 w2 : 0 <= c -> 0 < alpha ->
  Rabs (w1 - xi) <= Rabs (w2 - xi) ->
  gammatone_H_abs c alpha xi n w2 <= gammatone_H_abs c alpha xi n w1.
Proof.
  intros Hc Ha Hd. unfold gammatone_H_abs.
  assert (Hsq : (w1 - xi) ^ 2 <= (w2 - xi) ^ 2).
  { rewrite <- !Rsqr_pow2. apply Rsqr_le_abs_1. exact Hd. }
  assert (H1 : 0 < alpha ^ 2 + (w1 - xi) ^ 2) by (pose proof (pow2_ge_0 (w1 - xi)); nra).
  assert (Hs : sqrt (alpha ^ 2 + (w1 - xi) ^ 2) <= sqrt (alpha ^ 2 + (w2 - xi) ^ 2)) by (apply sqrt_le_1_alt; lra).
  assert (Hs0 : 0 < sqrt (alpha ^ 2 + (w1 - xi) ^ 2)) by (apply sqrt_lt_R0; exact H1).
  assert (Hp : sqrt (alpha ^ 2 + (w1 - xi) ^ 2) ^ n <= sqrt (alpha ^ 2 + (w2 - xi) ^ 2) ^ n) by (apply pow_incr; lra).
  assert (Hp0 : 0 < sqrt (alpha ^ 2 + (w1 - xi) ^ 2) ^ n) by (apply pow_lt; exact Hs0).
  pose proof (fact_pos (n - 1)).
  unfold Rdiv. apply Rmult_le_compat_l; [apply Rmult_le_pos; lra|].
  apply Rinv_le_contravar; lra.
Qed.

(** * At the edges of supports_ang the magnitude is exactly the threshold *)
Lemma gammatone_edge_radius erb n rate l r : (1 <= n)%nat ->
  let alpha := gammatone_self_alphas_elt erb n rate l r in
  let d := gammatone_diff_ang false erb n rate l r in
  alpha ^ 2 + d ^ 2 = exp (gammatone_supp_a false erb n rate l r).
Proof.
  intros Hn alpha d. unfold d, alpha. rewrite gammatone_diff_ang_shape.
  pose proof (gammatone_radicand_pos n erb rate l r Hn) as Hrad.
  rewrite pow2_sqrt by lra.
  destruct (gammatone_supp_shape false erb n rate l r) as [_ Eb]. rewrite Eb.
  rewrite gammatone_alpha_shape. rewrite exp_pow_n. simpl INR.
  replace (exp ((1 + 1) * gammatone_log_alpha erb n rate l r)) with (exp (2 * gammatone_log_alpha erb n rate l r)) by (f_equal; ring).
  ring.
Qed.

Lemma gammatone_edge_value_gen erb n rate l r w : (1 <= n)%nat ->
  let c := gammatone_self_cs_elt false erb n rate l r in
  let alpha := gammatone_self_alphas_elt erb n rate l r in
  let xi := gammatone_self_xis_elt rate l r in
  let d := gammatone_diff_ang false erb n rate l r in
  (w - xi) ^ 2 = d ^ 2 ->
  gammatone_H_abs c alpha xi n w = effective_support_threshold.
Proof.
  intros Hn c alpha xi d Hw. unfold gammatone_H_abs. rewrite Hw.
  unfold alpha, d. rewrite (gammatone_edge_radius erb n rate l r Hn).
  destruct (gammatone_supp_shape false erb n rate l r) as [Ea _]. rewrite Ea.
  set (lc := gammatone_log_c false erb n rate l r).
  set (lf := ln (INR (fact (n - 1)))).
  set (le := ln effective_support_threshold).
  assert (Hn0 : 0 < INR n) by (apply lt_0_INR; lia).
  (* sqrt (exp a) ^ n = exp (n a / 2) *)
  replace (2 / INR n * (lc + lf - le)) with ((lc + lf - le) / INR n + (lc + lf - le) / INR n) by (field; lra).
  rewrite exp_plus, sqrt_square by (left; apply exp_pos).
  rewrite exp_pow_n.
  replace (INR n * ((lc + lf - le) / INR n)) with (lc + lf - le) by (field; lra).
  unfold c. rewrite gammatone_c_shape. fold lc.
  unfold Rminus. rewrite !exp_plus, exp_Ropp. unfold lf, le.
  rewrite !exp_ln; [| unfold effective_support_threshold; lra | apply fact_pos].
  pose proof (exp_pos lc). pose proof (fact_pos (n - 1)).
  field. repeat split; try lra. unfold effective_support_threshold; lra.
Qed.

Lemma gammatone_support_edge_value_l erb n rate l r : (1 <= n)%nat ->
  let c := gammatone_self_cs_elt false erb n rate l r in
  let alpha := gammatone_self_alphas_elt erb n rate l r in
  let xi := gammatone_self_xis_elt rate l r in
  let d := gammatone_diff_ang false erb n rate l r in
  gammatone_H_abs c alpha xi n (xi - d) = effective_support_threshold /\
  gammatone_H_abs c alpha xi n (xi + d) = effective_support_threshold.
Proof.
  intros Hn c alpha xi d. split; apply gammatone_edge_value_gen; try exact Hn; fold xi; fold d; ring.
Qed.

(** * Images other than the principal one, at any bin of the principal period *)
Lemma far_image_distance w xi k : Rabs (w - xi) <= PI -> (k <> 0)%Z ->
  PI <= Rabs (w + 2 * PI * IZR k - xi).
Proof.
  intros Hw Hk. pose proof PI_RGT_0 as Hpi.
  assert (Hk1 : 1 <= Rabs (IZR k)).
  { rewrite <- abs_IZR. apply (IZR_le 1). lia. }
  replace (w + 2 * PI * IZR k - xi) with (2 * PI * IZR k - - (w - xi)) by ring.
  eapply Rle_trans; [| apply Rabs_triang_inv].
  rewrite Rabs_Ropp, Rabs_mult, (Rabs_pos_eq (2 * PI)) by lra.
  assert (2 * PI * 1 <= 2 * PI * Rabs (IZR k)) by (apply Rmult_le_compat_l; lra).
  lra.
Qed.

Lemma gammatone_far_image_le_edge_l c alpha xi n d w k : 0 <= c -> 0 < alpha ->
  0 <= d <= PI -> Rabs (w - xi) <= PI -> (k <> 0)%Z ->
  gammatone_H_abs c alpha xi n (w + 2 * PI * IZR k) <= gammatone_H_abs c alpha xi n (xi + d).
Proof.
  intros Hc Ha Hd Hw Hk. apply gammatone_H_abs_antitone_l; try assumption.
  replace (xi + d - xi) with d by ring. rewrite (Rabs_pos_eq d) by lra.
  eapply Rle_trans; [apply Hd | apply far_image_distance; assumption].
Qed.

Lemma gammatone_bank_far_images_le_threshold_l erb n rate l r w k : (1 <= n)%nat ->
  let c := gammatone_self_cs_elt false erb n rate l r in
  let alpha := gammatone_self_alphas_elt erb n rate l r in
  let xi := gammatone_self_xis_elt rate l r in
  gammatone_diff_ang false erb n rate l r <= PI ->
  Rabs (w - xi) <= PI -> (k <> 0)%Z ->
  gammatone_H_abs c alpha xi n (w + 2 * PI * IZR k) <= effective_support_threshold.
Proof.
  intros Hn c alpha xi Hd Hw Hk.
  destruct (gammatone_support_edge_value_l erb n rate l r Hn) as [_ E]. cbv zeta in E. rewrite <- E.
  apply gammatone_far_image_le_edge_l; try assumption.
  - unfold c. rewrite gammatone_c_shape. left; apply exp_pos.
  - apply gammatone_alpha_pos_l.
  - split; [| exact Hd]. rewrite gammatone_diff_ang_shape. apply sqrt_pos.
Qed.

(** * Gain of "one unit-modulus term plus m small terms" (the periodised response at the centre) *)
Lemma Cmod_sum_small (zs : list C) e : List.Forall (fun z => Cmod z <= e) zs ->
  Cmod (fold_right Cplus 0 zs) <= INR (List.length zs) * e.
Proof.
  induction 1 as [| z zs Hz _ IH].
  - simpl. rewrite Cmod_0. lra.
  - cbn [fold_right length]. rewrite S_INR. eapply Rle_trans; [apply Cmod_triangle|]. lra.
Qed.

Lemma periodised_gain_l (z0 : C) (zs : list C) e : Cmod z0 = 1 ->
  List.Forall (fun z => Cmod z <= e) zs ->
  Rabs (Cmod (z0 + fold_right Cplus 0 zs)%C - 1) <= INR (List.length zs) * e.
Proof.
  intros H0 Hs. pose proof (Cmod_sum_small zs e Hs) as Hb.
  set (s := fold_right Cplus 0 zs) in *.
  assert (Hup : Cmod (z0 + s)%C <= 1 + Cmod s) by (rewrite <- H0; apply Cmod_triangle).
  assert (Hlo : 1 <= Cmod (z0 + s)%C + Cmod s).
  { rewrite <- H0. replace z0 with ((z0 + s) + - s)%C at 1 by ring.
    eapply Rle_trans; [apply Cmod_triangle|]. rewrite Cmod_opp. lra. }
  apply Rabs_le. lra.
Qed.
