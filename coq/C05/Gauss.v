(* The Gaussian integral, proved (Coquelicot):

     int_R exp (- a u^2) du = sqrt (PI / a)        (a > 0)

   so that C05's [gauss_integral] - until now the textbook closed form TAKEN AS A
   DEFINITION - is the improper integral it stands for, and the Gabor ERB / L2-norm
   theorems are statements about integrals of the filters.

   Proof (the classical one that needs no double integral): with
     G t = int_0^t exp(-x^2) dx     H t = int_0^1 exp(-t^2 (1+x^2)) / (1+x^2) dx
   the function G^2 + H has derivative 0 (differentiation under the integral sign and
   the substitution y = t x), hence equals its value PI/4 at 0; 0 <= H t <= exp(-t^2)
   gives G t -> sqrt PI / 2; G is an antiderivative of the integrand on the whole line. *)
From Coq Require Import Reals Lra Lia.
From Coquelicot Require Import Coquelicot.
Open Scope R_scope.

Definition gf (x : R) : R := exp (- x ^ 2).
Definition GG (t : R) : R := RInt gf 0 t.
Definition hh (t x : R) : R := exp (- t ^ 2 * (1 + x ^ 2)) / (1 + x ^ 2).
Definition HH (t : R) : R := RInt (hh t) 0 1.

Lemma one_plus_sq_pos x : 0 < 1 + x ^ 2.
Proof. pose proof (pow2_ge_0 x). lra. Qed.

Lemma gf_continuous x : continuous gf x.
Proof.
  apply (@ex_derive_continuous R_AbsRing R_NormedModule). unfold gf. auto_derive. exact I.
Qed.

Lemma gf_ex_RInt a b : ex_RInt gf a b.
Proof. apply (@ex_RInt_continuous R_CompleteNormedModule). intros z _. apply gf_continuous. Qed.

Lemma GG_is_derive t : is_derive GG t (gf t).
Proof.
  apply (is_derive_RInt gf GG 0 t).
  - apply filter_forall. intros b. apply (@RInt_correct R_CompleteNormedModule). apply gf_ex_RInt.
  - apply gf_continuous.
Qed.

Lemma GG_0 : GG 0 = 0.
Proof. unfold GG. apply (@RInt_point R_CompleteNormedModule). Qed.

(** * differentiation of H under the integral sign *)
Lemma hh_is_derive x t : is_derive (fun u => hh u x) t (- 2 * t * exp (- t ^ 2 * (1 + x ^ 2))).
Proof.
  pose proof (one_plus_sq_pos x) as Hx.
  unfold hh. auto_derive; [lra|]. simpl. field. lra.
Qed.

Lemma hh_continuous t x : continuous (hh t) x.
Proof.
  pose proof (one_plus_sq_pos x) as Hx.
  apply (@ex_derive_continuous R_AbsRing R_NormedModule). unfold hh. auto_derive. simpl in *. lra.
Qed.

Lemma hh_ex_RInt t a b : ex_RInt (hh t) a b.
Proof. apply (@ex_RInt_continuous R_CompleteNormedModule). intros z _. apply hh_continuous. Qed.

Definition dhh (u v : R) : R := - 2 * u * exp (- u ^ 2 * (1 + v ^ 2)).

Lemma dhh_continuity_2d u v : continuity_2d_pt dhh u v.
Proof.
  unfold dhh.
  apply continuity_2d_pt_mult.
  - apply continuity_2d_pt_mult; [apply continuity_2d_pt_const | apply continuity_2d_pt_id1].
  - apply (continuity_1d_2d_pt_comp exp (fun u v => - u ^ 2 * (1 + v ^ 2))).
    + apply derivable_continuous_pt. apply derivable_pt_exp.
    + apply continuity_2d_pt_mult.
      * apply continuity_2d_pt_opp. simpl.
        apply continuity_2d_pt_mult; [apply continuity_2d_pt_id1|].
        apply continuity_2d_pt_mult; [apply continuity_2d_pt_id1 | apply continuity_2d_pt_const].
      * apply continuity_2d_pt_plus; [apply continuity_2d_pt_const|]. simpl.
        apply continuity_2d_pt_mult; [apply continuity_2d_pt_id2|].
        apply continuity_2d_pt_mult; [apply continuity_2d_pt_id2 | apply continuity_2d_pt_const].
Qed.

Lemma HH_is_derive t : is_derive HH t (RInt (dhh t) 0 1).
Proof.
  assert (E : forall u v, Derive (fun z => hh z v) u = dhh u v).
  { intros u v. apply is_derive_unique. apply hh_is_derive. }
  rewrite <- (RInt_ext (fun x => Derive (fun u => hh u x) t)) by (intros x _; apply E).
  apply (is_derive_RInt_param hh 0 1 t).
  - apply filter_forall. intros y x _. eexists. apply hh_is_derive.
  - intros x _. apply (continuity_2d_pt_ext dhh); [intros u v; symmetry; apply E|].
    apply dhh_continuity_2d.
  - apply filter_forall. intros y. apply hh_ex_RInt.
Qed.

(* the substitution y = t x *)
Lemma RInt_dhh t : RInt (dhh t) 0 1 = - 2 * exp (- t ^ 2) * GG t.
Proof.
  assert (E' : forall x, dhh t x = (- 2 * exp (- t ^ 2)) * (t * gf (t * x + 0))).
  { intros x. unfold dhh, gf.
    replace (- t ^ 2 * (1 + x ^ 2)) with (- t ^ 2 + - (t * x + 0) ^ 2) by ring.
    rewrite exp_plus. ring. }
  assert (E : forall x, dhh t x = scal (- 2 * exp (- t ^ 2)) (scal t (gf (t * x + 0)))).
  { intros x. exact (E' x). }
  etransitivity; [apply RInt_ext; intros x _; apply E|].
  etransitivity.
  { apply (RInt_scal (fun x => scal t (gf (t * x + 0))) 0 1 (- 2 * exp (- t ^ 2))).
    apply (@ex_RInt_continuous R_CompleteNormedModule). intros z _.
    apply (@ex_derive_continuous R_AbsRing R_NormedModule).
    unfold scal; simpl; unfold mult; simpl. unfold gf. auto_derive. exact I. }
  pose proof (RInt_comp_lin gf t 0 0 1 (gf_ex_RInt _ _)) as L.
  replace (t * 0 + 0) with 0 in L by ring. replace (t * 1 + 0) with t in L by ring.
  unfold GG. rewrite <- L. reflexivity.
Qed.

(** * G^2 + H is constant *)
Definition GH (t : R) : R := GG t ^ 2 + HH t.

Lemma GH_is_derive t : is_derive GH t 0.
Proof.
  unfold GH.
  replace 0 with (2 * GG t * gf t + RInt (dhh t) 0 1).
  2:{ rewrite RInt_dhh. unfold gf. ring. }
  apply (is_derive_plus (fun t => GG t ^ 2) HH).
  - evar_last.
    + apply (is_derive_pow GG 2 t (gf t)). apply GG_is_derive.
    + simpl. ring.
  - apply HH_is_derive.
Qed.

Lemma HH_0 : HH 0 = PI / 4.
Proof.
  unfold HH.
  rewrite (RInt_ext _ (fun x => / (1 + x ^ 2))).
  2:{ intros x _. unfold hh. replace (- 0 ^ 2 * (1 + x ^ 2)) with 0 by ring. rewrite exp_0.
      unfold Rdiv. apply Rmult_1_l. }
  apply is_RInt_unique.
  replace (PI / 4) with (minus (atan 1) (atan 0)).
  2:{ rewrite atan_1, atan_0. unfold minus, plus, opp; simpl. ring. }
  apply (is_RInt_derive atan (fun x => / (1 + x ^ 2))).
  - intros x _. evar_last; [apply is_derive_atan|]. unfold Rsqr. f_equal. f_equal. ring.
  - intros x _. pose proof (one_plus_sq_pos x) as Hx.
    apply (@ex_derive_continuous R_AbsRing R_NormedModule). auto_derive. simpl in *. lra.
Qed.

Lemma GH_const t : GH t = PI / 4.
Proof.
  destruct (MVT_gen GH 0 t (fun _ => 0)) as [c [_ Hc]].
  - intros x _. apply GH_is_derive.
  - intros x _. apply continuity_pt_filterlim.
    apply (@ex_derive_continuous R_AbsRing R_NormedModule). eexists. apply GH_is_derive.
  - unfold GH at 2 in Hc. rewrite GG_0, HH_0 in Hc. lra.
Qed.

(** * bounds on H, the limit of G *)
Lemma HH_bounds t : 0 <= HH t <= exp (- t ^ 2).
Proof.
  unfold HH. split.
  - apply RInt_ge_0; [lra | apply hh_ex_RInt|]. intros x _. unfold hh.
    apply Rmult_le_pos; [left; apply exp_pos | left; apply Rinv_0_lt_compat, one_plus_sq_pos].
  - replace (exp (- t ^ 2)) with (RInt (fun _ => exp (- t ^ 2)) 0 1).
    2:{ rewrite RInt_const. unfold scal; simpl; unfold mult; simpl. ring. }
    apply RInt_le; [lra | apply hh_ex_RInt | apply ex_RInt_const |].
    intros x _. unfold hh. pose proof (one_plus_sq_pos x) as Hx. pose proof (pow2_ge_0 x) as Hx2.
    pose proof (pow2_ge_0 t) as Ht2.
    assert (E1 : exp (- t ^ 2 * (1 + x ^ 2)) <= exp (- t ^ 2)).
    { destruct (Req_dec (t ^ 2 * x ^ 2) 0) as [Z|Z].
      - right. f_equal. nra.
      - left. apply exp_increasing. assert (0 <= t ^ 2 * x ^ 2) by (apply Rmult_le_pos; assumption). nra. }
    pose proof (exp_pos (- t ^ 2 * (1 + x ^ 2))) as Hp.
    apply Rle_trans with (exp (- t ^ 2 * (1 + x ^ 2)) / 1).
    + unfold Rdiv. apply Rmult_le_compat_l; [lra|]. apply Rinv_le_contravar; lra.
    + unfold Rdiv. rewrite Rinv_1, Rmult_1_r. exact E1.
Qed.

Lemma GG_nonneg t : 0 <= t -> 0 <= GG t.
Proof.
  intros Ht. unfold GG. apply RInt_ge_0; [exact Ht | apply gf_ex_RInt|].
  intros x _. left. apply exp_pos.
Qed.

Definition gauss_half : R := sqrt PI / 2.

Lemma gauss_half_pos : 0 < gauss_half.
Proof. unfold gauss_half. pose proof (sqrt_lt_R0 PI PI_RGT_0). lra. Qed.

Lemma gauss_half_sq : gauss_half ^ 2 = PI / 4.
Proof.
  unfold gauss_half. replace ((sqrt PI / 2) ^ 2) with (sqrt PI * sqrt PI / 4) by field.
  rewrite sqrt_sqrt by (left; exact PI_RGT_0). reflexivity.
Qed.

Lemma GG_close t : 0 <= t -> gauss_half - exp (- t ^ 2) / gauss_half <= GG t <= gauss_half.
Proof.
  intros Ht. pose proof (GG_nonneg t Ht) as Hg. pose proof (HH_bounds t) as [H0 H1].
  pose proof (GH_const t) as HP. unfold GH in HP. pose proof gauss_half_pos as Hs.
  pose proof gauss_half_sq as Hs2.
  assert (Hle : GG t <= gauss_half).
  { destruct (Rle_or_lt (GG t) gauss_half) as [L|L]; [exact L|]. exfalso.
    assert (gauss_half ^ 2 < GG t ^ 2) by (simpl; nra). lra. }
  split; [|exact Hle].
  (* s - G = (s^2 - G^2)/(s + G) = H/(s+G) <= H/s *)
  apply Rmult_le_reg_r with gauss_half; [exact Hs|].
  replace ((gauss_half - exp (- t ^ 2) / gauss_half) * gauss_half)
    with (gauss_half ^ 2 - exp (- t ^ 2)) by (field; lra).
  assert (GG t ^ 2 <= GG t * gauss_half) by (simpl; nra).
  lra.
Qed.

Lemma lim_exp_neg_sq : is_lim (fun t => exp (- t ^ 2)) p_infty 0.
Proof.
  apply (is_lim_le_le_loc (fun _ => 0) (fun t => exp (- t))).
  - exists 1. intros t Ht. split; [left; apply exp_pos|].
    destruct (Req_dec t (t ^ 2)) as [E|E]; [right; rewrite <- E; reflexivity|].
    left. apply exp_increasing. nra.
  - apply is_lim_const.
  - apply (is_lim_comp exp (fun t => - t) p_infty 0 m_infty).
    + apply is_lim_exp_m.
    + replace m_infty with (Rbar_opp p_infty) by reflexivity. apply is_lim_opp. apply is_lim_id.
    + exists 0. intros y _. discriminate.
Qed.

Lemma GG_lim_p : is_lim GG p_infty gauss_half.
Proof.
  pose proof gauss_half_pos as Hs.
  apply (is_lim_le_le_loc (fun t => gauss_half - exp (- t ^ 2) / gauss_half) (fun _ => gauss_half)).
  - exists 0. intros t Ht. apply GG_close. lra.
  - replace (Finite gauss_half) with (Finite (gauss_half - 0)) by (f_equal; ring).
    apply (is_lim_minus' (fun _ => gauss_half) (fun t => exp (- t ^ 2) / gauss_half) p_infty gauss_half 0).
    + apply is_lim_const.
    + replace (Finite 0) with (Rbar_mult 0 (/ gauss_half)) by (simpl; f_equal; ring).
      apply (is_lim_mult (fun t => exp (- t ^ 2)) (fun _ => / gauss_half) p_infty 0 (/ gauss_half));
        [apply lim_exp_neg_sq | apply is_lim_const | exact I].
  - apply is_lim_const.
Qed.

(* G is odd *)
Lemma GG_odd t : GG (- t) = - GG t.
Proof.
  assert (A : is_RInt (fun y => opp (gf (- y))) 0 t (GG (- t))).
  { apply (@is_RInt_comp_opp R_NormedModule gf 0 t (GG (- t))).
    rewrite Ropp_0. apply (@RInt_correct R_CompleteNormedModule). apply gf_ex_RInt. }
  assert (B : is_RInt (fun y => opp (gf y)) 0 t (opp (GG t))).
  { apply (@is_RInt_opp R_NormedModule). apply (@RInt_correct R_CompleteNormedModule). apply gf_ex_RInt. }
  assert (A' : is_RInt (fun y => opp (gf y)) 0 t (GG (- t))).
  { apply (is_RInt_ext (fun y => opp (gf (- y)))); [|exact A].
    intros x _. unfold gf. f_equal. f_equal. f_equal. ring. }
  rewrite <- (is_RInt_unique _ _ _ _ A'). rewrite (is_RInt_unique _ _ _ _ B). reflexivity.
Qed.

Lemma GG_lim_m : is_lim GG m_infty (- gauss_half).
Proof.
  apply (is_lim_ext (fun t => - GG (- t))).
  { intros t. rewrite GG_odd. ring. }
  replace (Finite (- gauss_half)) with (Rbar_opp gauss_half) by reflexivity.
  apply is_lim_opp.
  apply (is_lim_comp GG (fun t => - t) m_infty gauss_half p_infty).
  - apply GG_lim_p.
  - replace p_infty with (Rbar_opp m_infty) by reflexivity. apply is_lim_opp. apply is_lim_id.
  - exists 0. intros y _. discriminate.
Qed.

(** * The Gaussian integral over the whole line, for every a > 0 *)
Definition gauss_fun (a : R) (u : R) : R := exp (- (a * u ^ 2)).
Definition gauss_anti (a : R) (u : R) : R := / sqrt a * GG (sqrt a * u).

Lemma gauss_anti_is_derive a u : 0 < a -> is_derive (gauss_anti a) u (gauss_fun a u).
Proof.
  intros Ha. pose proof (sqrt_lt_R0 a Ha) as Hs.
  unfold gauss_anti, gauss_fun.
  replace (exp (- (a * u ^ 2))) with (/ sqrt a * (sqrt a * gf (sqrt a * u))).
  2:{ unfold gf. replace ((sqrt a * u) ^ 2) with (sqrt a * sqrt a * u ^ 2) by ring.
      rewrite sqrt_sqrt by lra. field. lra. }
  apply is_derive_scal.
  apply (is_derive_comp GG (fun u => sqrt a * u) u (gf (sqrt a * u)) (sqrt a)).
  - apply GG_is_derive.
  - auto_derive; [exact I | ring].
Qed.

Lemma gauss_fun_continuous a u : continuous (gauss_fun a) u.
Proof.
  apply (@ex_derive_continuous R_AbsRing R_NormedModule). unfold gauss_fun. auto_derive. exact I.
Qed.

Lemma gauss_anti_lim_p a : 0 < a -> is_lim (gauss_anti a) p_infty (/ sqrt a * gauss_half).
Proof.
  intros Ha. pose proof (sqrt_lt_R0 a Ha) as Hs. unfold gauss_anti.
  replace (Finite (/ sqrt a * gauss_half)) with (Rbar_mult (/ sqrt a) gauss_half) by reflexivity.
  apply is_lim_scal_l.
  apply (is_lim_comp GG (fun u => sqrt a * u) p_infty gauss_half p_infty).
  - apply GG_lim_p.
  - replace p_infty with (Rbar_mult (sqrt a) p_infty) at 2.
    2:{ simpl. destruct (Rle_dec 0 (sqrt a)) as [H|H]; [|lra].
        destruct (Rle_lt_or_eq_dec 0 (sqrt a) H) as [H'|H']; [reflexivity | lra]. }
    apply is_lim_scal_l. apply is_lim_id.
  - exists 0. intros y _. discriminate.
Qed.

Lemma gauss_anti_lim_m a : 0 < a -> is_lim (gauss_anti a) m_infty (- (/ sqrt a * gauss_half)).
Proof.
  intros Ha. pose proof (sqrt_lt_R0 a Ha) as Hs. unfold gauss_anti.
  replace (Finite (- (/ sqrt a * gauss_half))) with (Rbar_mult (/ sqrt a) (- gauss_half)).
  2:{ simpl. f_equal. ring. }
  apply is_lim_scal_l.
  apply (is_lim_comp GG (fun u => sqrt a * u) m_infty (- gauss_half) m_infty).
  - apply GG_lim_m.
  - replace m_infty with (Rbar_mult (sqrt a) m_infty) at 2.
    2:{ simpl. destruct (Rle_dec 0 (sqrt a)) as [H|H]; [|lra].
        destruct (Rle_lt_or_eq_dec 0 (sqrt a) H) as [H'|H']; [reflexivity | lra]. }
    apply is_lim_scal_l. apply is_lim_id.
  - exists 0. intros y _. discriminate.
Qed.

Theorem gaussian_integral a : 0 < a ->
  is_RInt_gen (gauss_fun a) (Rbar_locally m_infty) (Rbar_locally p_infty) (sqrt (PI / a)).
Proof.
  intros Ha. pose proof (sqrt_lt_R0 a Ha) as Hs.
  assert (E : forall x, Derive (gauss_anti a) x = gauss_fun a x).
  { intros x. apply is_derive_unique. apply gauss_anti_is_derive. exact Ha. }
  apply (is_RInt_gen_ext (Derive (gauss_anti a))).
  { apply filter_forall. intros [u v] x _. apply E. }
  replace (sqrt (PI / a)) with (/ sqrt a * gauss_half - - (/ sqrt a * gauss_half)).
  2:{ rewrite sqrt_div_alt by exact Ha. unfold gauss_half. field. lra. }
  apply is_RInt_gen_Derive.
  - apply filter_forall. intros [u v] x _. eexists. apply gauss_anti_is_derive. exact Ha.
  - apply filter_forall. intros [u v] x _.
    apply (continuous_ext (gauss_fun a)); [intros t; symmetry; apply E|]. apply gauss_fun_continuous.
  - apply gauss_anti_lim_m. exact Ha.
  - apply gauss_anti_lim_p. exact Ha.
Qed.

(* the half line, and the plain exp(-x^2) *)
Corollary gaussian_integral_std :
  is_RInt_gen (fun x => exp (- x ^ 2)) (Rbar_locally m_infty) (Rbar_locally p_infty) (sqrt PI).
Proof.
  apply (is_RInt_gen_ext (gauss_fun 1)).
  { apply filter_forall. intros [u v] x _. unfold gauss_fun. f_equal. ring. }
  replace (sqrt PI) with (sqrt (PI / 1)) by (f_equal; field).
  apply gaussian_integral. lra.
Qed.
