(* C05 - the two integrals behind the gammatone ERB and L2 closed forms, PROVED
   (Coquelicot improper Riemann integrals), so that for the gammatone bank the closed forms
   of C05/Model.v are theorems and not definitions:
     int_0^oo t^k e^(-a t) dt = k! / a^(k+1)                                  (G_integral)
     int_R (alpha^2/(alpha^2 + (x - xi)^2))^(m+1) dx = alpha PI (2m)!/(2^(2m) m!^2)   (W_integral, u_closed)
   The Gaussian integral (Gabor ERB / L2) is NOT proved; it stays a definition. *)
From Coq Require Import Reals Lra Lia.
From Coquelicot Require Import Coquelicot.
From Verif Require Import gen.Scales gen.Banks C05.Model C05.Gabor C05.Gammatone.
Open Scope R_scope.


Lemma lim_exp_neg a : 0 < a -> is_lim (fun t => exp (- a * t)) p_infty 0.
Proof.
  intros Ha.
  apply (is_lim_ext (fun t => exp (- a * t + 0))); [intros t; f_equal; ring|].
  apply (is_lim_comp_lin exp (- a) 0 p_infty 0); [|lra].
  replace (Rbar_plus (Rbar_mult (- a) p_infty) 0) with m_infty; [apply is_lim_exp_m|].
  unfold Rbar_mult, Rbar_mult'. destruct (Rle_dec 0 (- a)) as [H|H]; [exfalso; lra|]. reflexivity.
Qed.

Lemma lim_t_exp_neg b : 0 < b -> is_lim (fun t => t * exp (- b * t)) p_infty 0.
Proof.
  intros Hb.
  apply (is_lim_ext (fun t => (- / b) * ((- b * t + 0) * exp (- b * t + 0)))).
  { intros t. replace (- b * t + 0) with (- b * t) by ring. field. lra. }
  replace (Finite 0) with (Rbar_mult (- / b) 0) by (simpl; f_equal; ring).
  apply is_lim_scal_l.
  apply (is_lim_comp_lin (fun y => y * exp y) (- b) 0 p_infty 0); [|lra].
  replace (Rbar_plus (Rbar_mult (- b) p_infty) 0) with m_infty; [apply is_lim_mul_exp_m|].
  unfold Rbar_mult, Rbar_mult'. destruct (Rle_dec 0 (- b)) as [H|H]; [exfalso; lra|]. reflexivity.
Qed.

Lemma lim_pow_exp_neg m : forall a, 0 < a -> is_lim (fun t => t ^ m * exp (- a * t)) p_infty 0.
Proof.
  induction m as [|m IH]; intros a Ha.
  - apply (is_lim_ext (fun t => exp (- a * t))); [intros t; simpl; ring|]. apply lim_exp_neg; exact Ha.
  - apply (is_lim_ext (fun t => (t * exp (- (a / 2) * t)) * (t ^ m * exp (- (a / 2) * t)))).
    { intros t. simpl pow. replace (- a * t) with (- (a / 2) * t + - (a / 2) * t) by field. rewrite exp_plus. ring. }
    replace (Finite 0) with (Rbar_mult 0 0) by (simpl; f_equal; ring).
    apply is_lim_mult; [apply lim_t_exp_neg; lra | apply IH; lra | simpl; exact I].
Qed.

(* F(t) -> F(0) along at_point 0 *)
Lemma filterlim_at_point_0 (F : R -> R) : filterlim F (at_point 0) (locally (F 0)).
Proof. intros P HP. unfold filtermap, at_point. apply locally_singleton. exact HP. Qed.

Section Gamma.
  Variable a : R.
  Hypothesis Ha : 0 < a.

  Definition G (k : nat) (t : R) : R := t ^ k * exp (- a * t).

  Lemma G_integral k :
    is_RInt_gen (G k) (at_point 0) (Rbar_locally p_infty) (INR (fact k) / a ^ (S k)).
  Proof.
    induction k as [|k IH].
    - (* antiderivative - exp(-a t)/a *)
      pose (F := fun t : R => - exp (- a * t) / a).
      assert (DF : forall x, is_derive F x (G 0 x)).
      { intros x. unfold F, G. auto_derive; [exact I|]. simpl. field. lra. }
      assert (E : forall x, Derive F x = G 0 x) by (intros x; apply is_derive_unique, DF).
      apply (is_RInt_gen_ext (Derive F)).
      { apply filter_forall. intros [u v] x _. apply E. }
      replace (INR (fact 0) / a ^ 1) with (0 - F 0) by (unfold F; simpl; rewrite Rmult_0_r, exp_0; field; lra).
      apply is_RInt_gen_Derive.
      + apply filter_forall. intros [u v] x _. exists (G 0 x). apply DF.
      + apply filter_forall. intros [u v] x _.
        apply (continuous_ext (G 0)); [intros t; symmetry; apply E|].
        apply (@ex_derive_continuous R_AbsRing R_NormedModule). unfold G. auto_derive. exact I.
      + apply filterlim_at_point_0.
      + assert (L : is_lim F p_infty 0); [|exact L].
        unfold F. apply (is_lim_ext (fun t => (- / a) * exp (- a * t))); [intros t; field; lra|].
        replace (Finite 0) with (Rbar_mult (- / a) 0) by (simpl; f_equal; ring).
        apply is_lim_scal_l. apply lim_exp_neg; exact Ha.
    - (* t^(k+1) e^(-at) = ((k+1) t^k e^(-at) - d/dt [t^(k+1) e^(-at)]) / a *)
      pose (F := G (S k)).
      assert (DF : forall x, is_derive F x (INR (S k) * G k x - a * G (S k) x)).
      { intros x. unfold F, G. auto_derive; [exact I|].
        change (match k with | 0%nat => 1 | S _ => INR k + 1 end) with (INR (S k)). simpl pow. ring. }
      assert (E : forall x, Derive F x = INR (S k) * G k x - a * G (S k) x) by (intros x; apply is_derive_unique, DF).
      assert (IB : is_RInt_gen (Derive F) (at_point 0) (Rbar_locally p_infty) (0 - F 0)).
      { apply is_RInt_gen_Derive.
        + apply filter_forall. intros [u v] x _. eexists. apply DF.
        + apply filter_forall. intros [u v] x _.
          apply (continuous_ext (fun x => INR (S k) * G k x - a * G (S k) x)); [intros t; symmetry; apply E|].
          apply (@ex_derive_continuous R_AbsRing R_NormedModule). unfold G. auto_derive. exact I.
        + apply filterlim_at_point_0.
        + assert (L : is_lim F p_infty 0); [|exact L]. unfold F, G. apply lim_pow_exp_neg; exact Ha. }
      assert (F0 : F 0 = 0) by (unfold F, G; simpl; ring).
      rewrite F0 in IB.
      apply (is_RInt_gen_ext (fun t => scal (/ a) (minus (scal (INR (S k)) (G k t)) (Derive F t)))).
      { apply filter_forall. intros [u v] x _. rewrite E. unfold scal, minus, plus, opp; simpl. unfold mult; simpl. field. lra. }
      assert (X : scal (/ a) (minus (scal (INR (S k)) (INR (fact k) / a ^ S k)) (0 - 0)) = INR (fact (S k)) / a ^ S (S k)).
      { unfold scal, minus, plus, opp; simpl. unfold mult; simpl.
        change (match k with | 0%nat => 1 | S _ => INR k + 1 end) with (INR (S k)).
        rewrite plus_INR, mult_INR, S_INR.
        assert (a ^ k <> 0) by (apply pow_nonzero; lra). field. split; lra. }
      rewrite <- X.
      apply (@is_RInt_gen_scal R_CompleteNormedModule (at_point 0) (Rbar_locally p_infty) _ _
               (fun t => minus (scal (INR (S k)) (G k t)) (Derive F t)) (/ a)).
      apply (@is_RInt_gen_minus R_CompleteNormedModule (at_point 0) (Rbar_locally p_infty) _ _
               (fun t => scal (INR (S k)) (G k t)) (Derive F)).
      - apply (@is_RInt_gen_scal R_CompleteNormedModule (at_point 0) (Rbar_locally p_infty) _ _ (G k) (INR (S k))). exact IH.
      - exact IB.
  Qed.
End Gamma.

(** the squared envelope of a gammatone of order n: c t^(n-1) e^(-alpha t) *)
Lemma gammatone_envelope_sq_integral (n : nat) (c alpha : R) : 0 < alpha -> (1 <= n)%nat ->
  is_RInt_gen (fun t => (c * t ^ (n - 1) * exp (- alpha * t)) ^ 2) (at_point 0) (Rbar_locally p_infty)
              (c ^ 2 * INR (fact (2 * n - 2)) / (2 * alpha) ^ (2 * n - 1)).
Proof.
  intros Ha Hn.
  assert (P : forall x, (c * x ^ (n - 1) * exp (- alpha * x)) ^ 2 = c ^ 2 * G (2 * alpha) (2 * n - 2) x).
  { intros x. unfold G. replace (2 * n - 2)%nat with ((n - 1) + (n - 1))%nat by lia. rewrite pow_add.
    replace (- (2 * alpha) * x) with (- alpha * x + - alpha * x) by ring. rewrite exp_plus. ring. }
  apply (is_RInt_gen_ext (fun t => scal (c ^ 2) (G (2 * alpha) (2 * n - 2) t))).
  { apply filter_forall. intros [u v] x _. symmetry. apply P. }
  replace (c ^ 2 * INR (fact (2 * n - 2)) / (2 * alpha) ^ (2 * n - 1))
    with (scal (c ^ 2) (INR (fact (2 * n - 2)) / (2 * alpha) ^ S (2 * n - 2))).
  2:{ replace (S (2 * n - 2)) with (2 * n - 1)%nat by lia.
      change (c ^ 2 * (INR (fact (2 * n - 2)) / (2 * alpha) ^ (2 * n - 1)) = c ^ 2 * INR (fact (2 * n - 2)) / (2 * alpha) ^ (2 * n - 1)).
      unfold Rdiv. ring. }
  apply (@is_RInt_gen_scal R_CompleteNormedModule (at_point 0) (Rbar_locally p_infty) _ _ (G (2 * alpha) (2 * n - 2)) (c ^ 2)).
  apply G_integral. lra.
Qed.



Lemma lim_atan_p : is_lim atan p_infty (PI / 2).
Proof.
  apply is_lim_spec. intros eps. pose proof PI_RGT_0 as Hpi. destruct eps as [e He]. simpl.
  set (y0 := Rmax 0 (PI / 2 - e / 2)).
  assert (Hy0 : - (PI / 2) < y0 < PI / 2).
  { unfold y0, Rmax. destruct (Rle_dec 0 (PI / 2 - e / 2)); lra. }
  exists (tan y0). intros x Hx.
  assert (A : y0 < atan x) by (rewrite <- (atan_tan y0 Hy0); apply atan_increasing; exact Hx).
  pose proof (atan_bound x) as [_ B].
  assert (PI / 2 - e / 2 <= y0) by (unfold y0; apply Rmax_r).
  rewrite Rabs_left by lra. lra.
Qed.

Lemma lim_atan_m : is_lim atan m_infty (- (PI / 2)).
Proof.
  apply is_lim_spec. intros eps. pose proof PI_RGT_0 as Hpi. destruct eps as [e He]. simpl.
  set (y0 := Rmin 0 (- (PI / 2) + e / 2)).
  assert (Hy0 : - (PI / 2) < y0 < PI / 2).
  { unfold y0, Rmin. destruct (Rle_dec 0 (- (PI / 2) + e / 2)); lra. }
  exists (tan y0). intros x Hx.
  assert (A : atan x < y0) by (rewrite <- (atan_tan y0 Hy0); apply atan_increasing; exact Hx).
  pose proof (atan_bound x) as [B _].
  assert (y0 <= - (PI / 2) + e / 2) by (unfold y0; apply Rmin_r).
  rewrite Rabs_right by lra. lra.
Qed.

Section Wallis.
  Variables alpha xi : R.
  Hypothesis Ha : 0 < alpha.

  Definition W (n : nat) (x : R) : R := (alpha ^ 2 / (alpha ^ 2 + (x - xi) ^ 2)) ^ n.

  Lemma den_pos x : 0 < alpha ^ 2 + (x - xi) ^ 2.
  Proof. pose proof (pow2_ge_0 (x - xi)). assert (0 < alpha ^ 2) by (apply pow_lt; exact Ha). lra. Qed.

  Lemma W1_bounds x : 0 < alpha ^ 2 / (alpha ^ 2 + (x - xi) ^ 2) <= 1.
  Proof.
    pose proof (den_pos x) as Hd. assert (0 < alpha ^ 2) by (apply pow_lt; exact Ha). pose proof (pow2_ge_0 (x - xi)).
    split; [apply Rdiv_lt_0_compat; lra|].
    apply Rmult_le_reg_r with (alpha ^ 2 + (x - xi) ^ 2); [exact Hd|].
    replace (alpha ^ 2 / (alpha ^ 2 + (x - xi) ^ 2) * (alpha ^ 2 + (x - xi) ^ 2)) with (alpha ^ 2) by (field; lra). lra.
  Qed.

  Lemma W_pos n x : 0 < W n x.
  Proof. unfold W. apply pow_lt, W1_bounds. Qed.

  (* |x W_n(x)| <= alpha^2/|x| for n >= 1 *)
  Lemma xW_bound n x : (1 <= n)%nat -> x - xi <> 0 -> Rabs ((x - xi) * W n x) <= alpha ^ 2 / Rabs (x - xi).
  Proof.
    intros Hn Hx. pose proof (den_pos x) as Hp. pose proof (Rabs_pos_lt (x - xi) Hx) as Hax.
    assert (Ha2 : 0 < alpha ^ 2) by (apply pow_lt; exact Ha).
    rewrite Rabs_mult, (Rabs_right (W n x)) by (left; apply W_pos).
    assert (Hpow : W n x <= alpha ^ 2 / (alpha ^ 2 + (x - xi) ^ 2)).
    { unfold W. destruct (W1_bounds x) as [A B]. destruct n as [|n]; [lia|]. rewrite <- tech_pow_Rmult.
      assert ((alpha ^ 2 / (alpha ^ 2 + (x - xi) ^ 2)) ^ n <= 1) by (rewrite <- (pow1 n); apply pow_incr; lra).
      assert (0 < (alpha ^ 2 / (alpha ^ 2 + (x - xi) ^ 2)) ^ n) by (apply pow_lt; lra). nra. }
    assert (Hsq : Rabs (x - xi) * Rabs (x - xi) = (x - xi) ^ 2).
    { rewrite <- Rabs_mult. rewrite Rabs_right; [simpl; ring | apply Rle_ge; nra]. }
    apply Rle_trans with (Rabs (x - xi) * (alpha ^ 2 / (alpha ^ 2 + (x - xi) ^ 2))); [apply Rmult_le_compat_l; lra|].
    apply Rmult_le_reg_r with (Rabs (x - xi) * (alpha ^ 2 + (x - xi) ^ 2)); [apply Rmult_lt_0_compat; lra|].
    replace (Rabs (x - xi) * (alpha ^ 2 / (alpha ^ 2 + (x - xi) ^ 2)) * (Rabs (x - xi) * (alpha ^ 2 + (x - xi) ^ 2)))
      with (Rabs (x - xi) * Rabs (x - xi) * alpha ^ 2) by (field; lra).
    replace (alpha ^ 2 / Rabs (x - xi) * (Rabs (x - xi) * (alpha ^ 2 + (x - xi) ^ 2))) with (alpha ^ 2 * (alpha ^ 2 + (x - xi) ^ 2)) by (field; lra).
    rewrite Hsq. nra.
  Qed.

  Lemma lim_xW_p n : (1 <= n)%nat -> is_lim (fun x => (x - xi) * W n x) p_infty 0.
  Proof.
    intros Hn. apply is_lim_spec. intros [e He]. simpl.
    assert (Ha2 : 0 < alpha ^ 2) by (apply pow_lt; exact Ha).
    exists (alpha ^ 2 / e + 1 + xi). intros x Hx.
    assert (0 < alpha ^ 2 / e) by (apply Rdiv_lt_0_compat; lra).
    rewrite Rminus_0_r. apply Rle_lt_trans with (alpha ^ 2 / Rabs (x - xi)); [apply xW_bound; [exact Hn | lra]|].
    rewrite Rabs_right by lra.
    apply Rmult_lt_reg_r with (x - xi); [lra|]. replace (alpha ^ 2 / (x - xi) * (x - xi)) with (alpha ^ 2) by (field; lra).
    apply Rmult_lt_reg_r with (/ e); [apply Rinv_0_lt_compat; exact He|].
    replace (e * (x - xi) * / e) with (x - xi) by (field; lra). unfold Rdiv in *. lra.
  Qed.

  Lemma lim_xW_m n : (1 <= n)%nat -> is_lim (fun x => (x - xi) * W n x) m_infty 0.
  Proof.
    intros Hn. apply is_lim_spec. intros [e He]. simpl.
    assert (Ha2 : 0 < alpha ^ 2) by (apply pow_lt; exact Ha).
    exists (- (alpha ^ 2 / e + 1) + xi). intros x Hx.
    assert (0 < alpha ^ 2 / e) by (apply Rdiv_lt_0_compat; lra).
    rewrite Rminus_0_r. apply Rle_lt_trans with (alpha ^ 2 / Rabs (x - xi)); [apply xW_bound; [exact Hn | lra]|].
    rewrite Rabs_left by lra.
    apply Rmult_lt_reg_r with (- (x - xi)); [lra|]. replace (alpha ^ 2 / - (x - xi) * - (x - xi)) with (alpha ^ 2) by (field; lra).
    apply Rmult_lt_reg_r with (/ e); [apply Rinv_0_lt_compat; exact He|].
    replace (e * - (x - xi) * / e) with (- (x - xi)) by (field; lra). unfold Rdiv in *. lra.
  Qed.

  (* value: u 0 = alpha PI, u (m+1) = u m (2m+1)/(2m+2) *)
  Fixpoint u (m : nat) : R :=
    match m with O => alpha * PI | S m' => u m' * (2 * INR m' + 1) / (2 * INR m' + 2) end.

  Lemma lim_atan_scaled_p : is_lim (fun x => alpha * atan ((x - xi) / alpha)) p_infty (alpha * (PI / 2)).
  Proof.
    replace (Finite (alpha * (PI / 2))) with (Rbar_mult alpha (PI / 2)) by reflexivity.
    apply is_lim_scal_l.
    apply (is_lim_ext (fun x => atan (/ alpha * x + - xi / alpha))); [intros x; f_equal; field; lra|].
    apply (is_lim_comp_lin atan (/ alpha) (- xi / alpha) p_infty (PI / 2)); [|apply Rgt_not_eq, Rinv_0_lt_compat; exact Ha].
    replace (Rbar_plus (Rbar_mult (/ alpha) p_infty) (- xi / alpha)) with p_infty; [apply lim_atan_p|].
    assert (0 < / alpha) by (apply Rinv_0_lt_compat; exact Ha).
    unfold Rbar_mult, Rbar_mult'. destruct (Rle_dec 0 (/ alpha)) as [H0|H0]; [|exfalso; lra].
    destruct (Rle_lt_or_eq_dec 0 (/ alpha) H0) as [H1|H1]; [reflexivity | exfalso; lra].
  Qed.

  Lemma lim_atan_scaled_m : is_lim (fun x => alpha * atan ((x - xi) / alpha)) m_infty (alpha * (- (PI / 2))).
  Proof.
    replace (Finite (alpha * (- (PI / 2)))) with (Rbar_mult alpha (- (PI / 2))) by reflexivity.
    apply is_lim_scal_l.
    apply (is_lim_ext (fun x => atan (/ alpha * x + - xi / alpha))); [intros x; f_equal; field; lra|].
    apply (is_lim_comp_lin atan (/ alpha) (- xi / alpha) m_infty (- (PI / 2))); [|apply Rgt_not_eq, Rinv_0_lt_compat; exact Ha].
    replace (Rbar_plus (Rbar_mult (/ alpha) m_infty) (- xi / alpha)) with m_infty; [apply lim_atan_m|].
    assert (0 < / alpha) by (apply Rinv_0_lt_compat; exact Ha).
    unfold Rbar_mult, Rbar_mult'. destruct (Rle_dec 0 (/ alpha)) as [H0|H0]; [|exfalso; lra].
    destruct (Rle_lt_or_eq_dec 0 (/ alpha) H0) as [H1|H1]; [reflexivity | exfalso; lra].
  Qed.

  Lemma W_integral m :
    is_RInt_gen (W (S m)) (Rbar_locally m_infty) (Rbar_locally p_infty) (u m).
  Proof.
    induction m as [|m IH].
    - pose (F := fun x : R => alpha * atan ((x - xi) / alpha)).
      assert (DF : forall x, is_derive F x (W 1 x)).
      { intros x. unfold F, W. pose proof (den_pos x). auto_derive; [exact I|]. rewrite pow_1. field. split; lra. }
      assert (E : forall x, Derive F x = W 1 x) by (intros x; apply is_derive_unique, DF).
      apply (is_RInt_gen_ext (Derive F)).
      { apply filter_forall. intros [a b] x _. apply E. }
      replace (u 0) with (alpha * (PI / 2) - alpha * (- (PI / 2))) by (simpl; field).
      apply is_RInt_gen_Derive.
      + apply filter_forall. intros [a b] x _. exists (W 1 x). apply DF.
      + apply filter_forall. intros [a b] x _.
        apply (continuous_ext (W 1)); [intros t; symmetry; apply E|].
        apply (@ex_derive_continuous R_AbsRing R_NormedModule). unfold W. auto_derive. pose proof (den_pos x). lra.
      + exact lim_atan_scaled_m.
      + exact lim_atan_scaled_p.
    - set (n := S m) in *.
      pose (F := fun x : R => (x - xi) * W n x).
      assert (DF : forall x, is_derive F x (2 * INR n * W (S n) x - (2 * INR n - 1) * W n x)).
      { intros x. unfold F, W. pose proof (den_pos x) as Hd. auto_derive; [lra|].
        unfold n. change (match m with | 0%nat => 1 | S _ => INR m + 1 end) with (INR (S m)).
        simpl pow. simpl in Hd. unfold Rdiv.
        unfold Rminus in *. set (P := (alpha * (alpha * 1) * / (alpha * (alpha * 1) + (x + - xi) * ((x + - xi) * 1))) ^ m). clearbody P.
        generalize (INR (S m)). intros N. field. lra. }
      assert (E : forall x, Derive F x = 2 * INR n * W (S n) x - (2 * INR n - 1) * W n x)
        by (intros x; apply is_derive_unique, DF).
      assert (IB : is_RInt_gen (Derive F) (Rbar_locally m_infty) (Rbar_locally p_infty) (0 - 0)).
      { apply is_RInt_gen_Derive.
        + apply filter_forall. intros [a b] x _. eexists. apply DF.
        + apply filter_forall. intros [a b] x _.
          apply (continuous_ext (fun x => 2 * INR n * W (S n) x - (2 * INR n - 1) * W n x)); [intros t; symmetry; apply E|].
          apply (@ex_derive_continuous R_AbsRing R_NormedModule). unfold W. auto_derive. pose proof (den_pos x). lra.
        + assert (L : is_lim F m_infty 0); [|exact L]. apply lim_xW_m. unfold n; lia.
        + assert (L : is_lim F p_infty 0); [|exact L]. apply lim_xW_p. unfold n; lia. }
      assert (Hn : 0 < INR n) by (apply lt_0_INR; unfold n; lia).
      apply (is_RInt_gen_ext (fun t => scal (/ (2 * INR n)) (plus (Derive F t) (scal (2 * INR n - 1) (W n t))))).
      { apply filter_forall. intros [a b] x _. rewrite E.
        change (/ (2 * INR n) * (2 * INR n * W (S n) x - (2 * INR n - 1) * W n x + (2 * INR n - 1) * W n x) = W (S n) x).
        field. lra. }
      assert (X : scal (/ (2 * INR n)) (plus (0 - 0) (scal (2 * INR n - 1) (u m))) = u n).
      { change (/ (2 * INR n) * (0 - 0 + (2 * INR n - 1) * u m) = u n). unfold n. simpl u.
        rewrite S_INR. field. pose proof (pos_INR m). lra. }
      rewrite <- X.
      apply (@is_RInt_gen_scal R_CompleteNormedModule (Rbar_locally m_infty) (Rbar_locally p_infty) _ _
               (fun t => plus (Derive F t) (scal (2 * INR n - 1) (W n t))) (/ (2 * INR n))).
      apply (@is_RInt_gen_plus R_CompleteNormedModule (Rbar_locally m_infty) (Rbar_locally p_infty) _ _
               (Derive F) (fun t => scal (2 * INR n - 1) (W n t))).
      + exact IB.
      + apply (@is_RInt_gen_scal R_CompleteNormedModule (Rbar_locally m_infty) (Rbar_locally p_infty) _ _ (W n) (2 * INR n - 1)).
        exact IH.
  Qed.
End Wallis.


(** * closed form of the Wallis-type value *)
Lemma u_closed alpha m :
  u alpha m = alpha * PI * INR (fact (2 * m)) / (2 ^ (2 * m) * INR (fact m) ^ 2).
Proof.
  induction m as [|m IH].
  - simpl. field.
  - simpl u. rewrite IH.
    replace (2 * S m)%nat with (S (S (2 * m))) by lia.
    rewrite !fact_simpl, !mult_INR, !S_INR, <- !tech_pow_Rmult, mult_INR. simpl (INR 2).
    pose proof (INR_fact_lt_0 m). pose proof (pos_INR m).
    assert (0 < 2 ^ (2 * m)) by (apply pow_lt; lra).
    field. repeat split; lra.
Qed.

(** * the model's closed forms are these integrals *)
Lemma gammatone_erb_integral_l c alpha xi n : 0 < alpha -> 0 < c -> (1 <= n)%nat ->
  is_RInt_gen (fun w => (gammatone_H_abs c alpha xi n w / gammatone_H_abs c alpha xi n xi) ^ 2)
              (Rbar_locally m_infty) (Rbar_locally p_infty) (gammatone_erb_ang alpha n).
Proof.
  intros Ha Hc Hn. destruct n as [|m]; [lia|].
  apply (is_RInt_gen_ext (W alpha xi (S m))).
  { apply filter_forall. intros [a b] x _. unfold W. symmetry. apply gammatone_rel_power; assumption. }
  replace (gammatone_erb_ang alpha (S m)) with (u alpha m); [apply W_integral; exact Ha|].
  rewrite u_closed. unfold gammatone_erb_ang.
  replace (2 * S m - 2)%nat with (2 * m)%nat by lia. replace (S m - 1)%nat with m by lia. reflexivity.
Qed.

Lemma gammatone_h_abs_causal c alpha n t : 0 < c -> (1 <= n)%nat -> 0 < t ->
  gammatone_h_abs c alpha n 0 t = c * t ^ (n - 1) * exp (- alpha * t).
Proof.
  intros Hc Hn Ht. unfold gammatone_h_abs. destruct (Rle_dec t 0) as [H|H]; [lra|].
  rewrite Rminus_0_r. unfold Rminus. rewrite !exp_plus, exp_ln by exact Hc.
  replace (INR n + - (1)) with (INR (n - 1)) by (rewrite minus_INR by lia; simpl; ring).
  rewrite <- exp_pow_n, exp_ln by exact Ht.
  replace (- (alpha * t)) with (- alpha * t) by ring. reflexivity.
Qed.

Lemma gammatone_l2_integral_l c alpha n : 0 < alpha -> 0 < c -> (1 <= n)%nat ->
  is_RInt_gen (fun t => gammatone_h_abs c alpha n 0 t ^ 2)
              (at_point 0) (Rbar_locally p_infty) (gammatone_l2sq c alpha n).
Proof.
  intros Ha Hc Hn.
  apply (is_RInt_gen_ext (fun t => (c * t ^ (n - 1) * exp (- alpha * t)) ^ 2)).
  { apply (Filter_prod _ _ _ (fun a => a = 0) (fun b => 0 < b)).
    - reflexivity.
    - exists 0. intros x Hx; exact Hx.
    - intros a b -> Hb x [Hx _]. simpl in Hx. rewrite Rmin_left in Hx by lra.
      rewrite gammatone_h_abs_causal by assumption. reflexivity. }
  unfold gammatone_l2sq. apply gammatone_envelope_sq_integral; assumption.
Qed.
