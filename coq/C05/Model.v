(* C05 - model of the four filter banks' layout and responses.
   DEFINITIONS ONLY.  The scalar formulas (range tests, vertices / edges, Gabor
   sigma, gammatone alpha / c, support half-widths, the value written into a DFT
   bin, ...) are NOT written here: they are regenerated from filters.py by
   gen/banks.py into gen/Banks.v on every run.  This file adds what the translator
   pins but does not translate:
     - which element of which tuple a filter index refers to (Python slicing / zip),
     - the loop that fills the output array of the triangular / Fbank
       get_frequency_response (bin range, mirrored write res[-idx]),
     - the sum over periodic images of the Gabor response,
     - the moduli of the complex-valued gammatone _H / _h and Gabor impulse response,
     - the textbook closed forms used as DEFINITIONS of ERB and L2 norm. *)
From Coq Require Import Reals ZArith Bool List.
From Flocq Require Import Core.Raux.
From Verif Require Import gen.Scales gen.Banks.
Open Scope R_scope.

(** * What a bank needs from its scaling function on [low, high] *)
Record ScaleOK (h2s s2h : R -> R) (low high : R) : Prop := {
  so_lt : h2s low < h2s high;
  so_lo : s2h (h2s low) = low;
  so_hi : s2h (h2s high) = high;
  so_sec : forall s, h2s low <= s <= h2s high -> h2s (s2h s) = s;
  so_incr : forall a b, h2s low <= a -> a < b -> b <= h2s high -> s2h a < s2h b
}.

(** * Layout: which tuple element belongs to which filter.
   [n] = num_filts, [high] = the effective upper edge (<cls>_high_none/_some). *)
Section Layout.
  Variables (h2s s2h : R -> R) (n : nat) (low high : R).

  (* self._vertices = tuple(elt(idx) for idx in range(0, n + 2)): position i holds elt(i) *)
  Definition tri_vertex (i : nat) : R := tri_self_vertices_elt h2s s2h (INR n) low high (INR i).
  (* centers_hz = self._vertices[1:-1] *)
  Definition tri_center (i : nat) : R := tri_vertex (S i).
  (* supports_hz = zip(self._vertices[:-2], self._vertices[2:]) *)
  Definition tri_support_lo (i : nat) : R := tri_vertex i.
  Definition tri_support_hi (i : nat) : R := tri_vertex (S (S i)).

  (* edges = tuple(elt(idx) for idx in range(0, n + 1)); filter i is built from
     (edges[i], edges[i+1]) = zip(edges[:-1], edges[1:])[i] *)
  Definition gabor_edge (i : nat) : R := gabor_edges_elt h2s s2h (INR n) low high (INR i).
  Definition gabor_center (i : nat) : R := gabor_self_centers_hz_elt (gabor_edge i) (gabor_edge (S i)).
  Definition gammatone_edge (i : nat) : R := gammatone_edges_elt h2s s2h (INR n) low high (INR i).
  Definition gammatone_center (i : nat) : R :=
    gammatone_self_centers_hz_elt (gammatone_edge i) (gammatone_edge (S i)).
End Layout.

Definition fbank_vertex (n : nat) (low high : R) (i : nat) : R :=
  fbank_self_vertices_elt (INR n) low high (INR i).

(** * The array loop of get_frequency_response (triangular and Fbank) *)
(* if half: (width + 1) // 2 if width % 2 else width // 2 + 1;  else width *)
Definition dft_size (half : bool) (width : Z) : Z :=
  if half then (if Z.eqb (width mod 2) 0 then width / 2 + 1 else (width + 1) / 2)%Z else width.

(* idx in range(left_idx, min(dft_size, right_idx + 1)) *)
Definition in_loop (li ri ds idx : Z) : bool :=
  (li <=? idx)%Z && (idx <? Z.min ds (ri + 1))%Z.

(* res = zeros(ds); for idx in loop (ascending): res[idx] = v(idx); if mirror: res[-idx] = v(idx).
   Slot k is written by iteration k (primary) and, when mirroring (then ds = width),
   by iteration (-k) mod width; the later iteration wins. *)
Definition loop_result (v : Z -> R) (mirror : bool) (li ri width ds k : Z) : R :=
  let src := ((- k) mod width)%Z in
  if mirror && in_loop li ri ds src && ((k <=? src)%Z || negb (in_loop li ri ds k)) then v src
  else if in_loop li ri ds k then v k else 0.

Definition tri_freq_resp (analytic half : bool) (rate left mid right : R) (width k : Z) : R :=
  loop_result (fun idx => tri_fr_res_idx rate (IZR width) left mid right (IZR idx))
              (negb half && negb analytic)
              (tri_fr_left_idx rate (IZR width) left) (tri_fr_right_idx rate (IZR width) right)
              width (dft_size half width) k.

Definition fbank_freq_resp (analytic half : bool) (rate left mid right : R) (width k : Z) : R :=
  loop_result (fun idx => fbank_fr_res_idx rate (IZR width) left mid right (IZR idx))
              (negb half && negb analytic)
              (fbank_fr_left_idx rate (IZR width) left) (fbank_fr_right_idx rate (IZR width) right)
              width (dft_size half width) k.

(* the documented shape: a triangle with vertices left < mid < right, zero outside *)
Definition triangle (left mid right x : R) : R :=
  Rmax 0 (Rmin ((x - left) / (mid - left)) ((right - x) / (right - mid))).

(* the frequency (Hz) a bin stands for; a real filter's full spectrum is even *)
Definition bin_hz (folded : bool) (rate : R) (width k : Z) : R :=
  rate * IZR (if folded then Z.min k (width - k) else k) / IZR width.

(** * Gabor *)
(* one periodic image of the frequency response at angular frequency omega *)
Definition gabor_image (l2 : bool) (std center omega : R) : R :=
  exp (gabor_fr_num_term std * (center - omega) ^ 2 + gabor_fr_const_term l2 std).

Fixpoint Zsum_from (f : Z -> R) (a : Z) (len : nat) : R :=
  match len with O => 0 | S m => f a + Zsum_from f (a + 1)%Z m end.
(* sum of f over range(a, b) *)
Definition Zsum (f : Z -> R) (a b : Z) : R := Zsum_from f a (Z.to_nat (b - a)).

(* res[idx] += val for period in range(period_start, period_stop) *)
Definition gabor_freq_resp (l2 : bool) (std center lowest highest : R) (width k : Z) : R :=
  Zsum (fun p => gabor_fr_res_idx_add l2 (IZR width) center std (IZR k) (IZR p))
       (gabor_fr_period_start lowest) (gabor_fr_period_stop highest).

(* |exp(-t^2/denom_term + const_term + 1j*center_ang*t)| *)
Definition gabor_ir_abs (l2 : bool) (std t : R) : R :=
  exp (- (t ^ 2) / gabor_ir_denom_term std + gabor_ir_const_term l2 std).

(* Gaussian integral int_R exp(-a u^2) du, a > 0: its closed form; that it IS that improper
   integral is proved in C05/Gauss.v (gaussian_integral) and C05/GaborIntegrals.v *)
Definition gauss_integral (a : R) : R := sqrt (PI / a).
(* int |G(omega)|^2 d omega / max |G|^2  for one image *)
Definition gabor_erb_ang (l2 : bool) (std : R) : R :=
  (exp (gabor_fr_const_term l2 std)) ^ 2 * gauss_integral (std ^ 2)
  / (gabor_image l2 std 0 0) ^ 2.
(* int |f(t)|^2 dt  and  1/(2 PI) int |G(omega)|^2 d omega *)
Definition gabor_l2sq_time (l2 : bool) (std : R) : R :=
  (exp (gabor_ir_const_term l2 std)) ^ 2 * gauss_integral (2 / gabor_ir_denom_term std).
Definition gabor_l2sq_freq (l2 : bool) (std : R) : R :=
  (exp (gabor_fr_const_term l2 std)) ^ 2 * gauss_integral (std ^ 2) / (2 * PI).

(** * Complex gammatone (moduli of the pinned _H and _h) *)
(* |exp(-1j w offset) c (n-1)! / (alpha + 1j (w - xi))^n| *)
Definition gammatone_H_abs (c alpha xi : R) (n : nat) (omega : R) : R :=
  c * INR (fact (n - 1)) / (sqrt (alpha ^ 2 + (omega - xi) ^ 2)) ^ n.
(* |exp(log c + (n-1) log(t - offset) + (-alpha + 1j xi)(t - offset))| for t > offset, else 0 *)
Definition gammatone_h_abs (c alpha : R) (n : nat) (offset t : R) : R :=
  if Rle_dec t offset then 0 else exp (ln c + (INR n - 1) * ln (t - offset) - alpha * (t - offset)).

(* Textbook closed forms, TAKEN AS DEFINITIONS (the integrals themselves are proved for
   the gammatone in C05/Integrals.v):
     int_R (alpha^2 / (alpha^2 + u^2))^n du = alpha PI (2n-2)! / (2^(2n-2) (n-1)!^2)
     int_0^oo (c t^(n-1) e^(-alpha t))^2 dt = c^2 (2n-2)! / (2 alpha)^(2n-1)        *)
Definition gammatone_erb_ang (alpha : R) (n : nat) : R :=
  alpha * PI * INR (fact (2 * n - 2)) / (2 ^ (2 * n - 2) * INR (fact (n - 1)) ^ 2).
Definition gammatone_l2sq (c alpha : R) (n : nat) : R :=
  c ^ 2 * INR (fact (2 * n - 2)) / (2 * alpha) ^ (2 * n - 1).
