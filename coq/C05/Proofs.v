(* C05 - layout lemmas: band edges equally spaced on the scale, centres strictly
   increasing and inside supports_hz, range test.  All statements are about
   gen/Banks.v (regenerated from filters.py on every run) through C05/Model.v. *)
From Coq Require Import Reals ZArith Lra Lia.
From Flocq Require Import Core.Raux.
From Verif Require Import gen.Scales gen.Banks C05.Model C19.Proofs.
Open Scope R_scope.

(** * Arithmetic helpers *)
Lemma frac_bounds D N x : 0 < D -> 0 < N -> 0 <= x <= N -> 0 <= D / N * x <= D.
Proof.
  intros HD HN [H0 H1].
  replace (D / N * x) with (D * (x / N)) by (field; lra).
  assert (0 <= x / N <= 1).
  { split; [apply Rmult_le_pos; [lra | left; apply Rinv_0_lt_compat; lra]|].
    apply Rmult_le_reg_r with N; [lra|]. replace (x / N * N) with x by (field; lra). lra. }
  split; [apply Rmult_le_pos; lra|]. nra.
Qed.

Lemma frac_mono D N x y : 0 < D -> 0 < N -> x < y -> D / N * x < D / N * y.
Proof.
  intros HD HN Hxy. apply Rmult_lt_compat_l; [apply Rdiv_lt_0_compat; lra | lra].
Qed.

Lemma INR_n1_pos n : 0 < INR n + 1.
Proof. pose proof (pos_INR n). lra. Qed.

(** * Shapes of the generated layout formulas (break when the source formulas change) *)
Lemma tri_vertex_shape h2s s2h N low high x :
  tri_self_vertices_elt h2s s2h N low high x = s2h (h2s low + (h2s high - h2s low) / (N + 1) * x).
Proof. reflexivity. Qed.
Lemma fbank_vertex_shape N low high x :
  fbank_self_vertices_elt N low high x = mel_s2h (mel_h2s low + (mel_h2s high - mel_h2s low) / (N + 1) * x).
Proof. reflexivity. Qed.
Lemma fbank_is_tri_mel N low high x :
  fbank_self_vertices_elt N low high x = tri_self_vertices_elt mel_h2s mel_s2h N low high x.
Proof. reflexivity. Qed.
Lemma gabor_edge_shape h2s s2h N low high x :
  gabor_edges_elt h2s s2h N low high x = s2h (h2s low + (h2s high - h2s low) / (N + 1) * (x + 1 / 2)).
Proof. reflexivity. Qed.
Lemma gammatone_edge_shape h2s s2h N low high x :
  gammatone_edges_elt h2s s2h N low high x = gabor_edges_elt h2s s2h N low high x.
Proof. reflexivity. Qed.
Lemma scale_delta_shape h2s N low high :
  tri_scale_delta h2s N low high = (h2s high - h2s low) / (N + 1)
  /\ gabor_scale_delta h2s N low high = (h2s high - h2s low) / (N + 1)
  /\ gammatone_scale_delta h2s N low high = (h2s high - h2s low) / (N + 1)
  /\ fbank_scale_delta N low high = (mel_h2s high - mel_h2s low) / (N + 1).
Proof. repeat split; reflexivity. Qed.
Lemma range_shape N :
  tri_self_vertices_start = 0 /\ tri_self_vertices_stop N = N + 2 /\
  fbank_self_vertices_start = 0 /\ fbank_self_vertices_stop N = N + 2 /\
  gabor_edges_start = 0 /\ gabor_edges_stop N = N + 1 /\
  gammatone_edges_start = 0 /\ gammatone_edges_stop N = N + 1.
Proof. repeat split; reflexivity. Qed.
Lemma center_shape l r :
  gabor_self_centers_hz_elt l r = (l + r) / 2 /\ gammatone_self_centers_hz_elt l r = (l + r) / 2.
Proof. split; reflexivity. Qed.

(** * Points s2h(sl + delta * x) of a uniform grid on the scale *)
Section Grid.
  Variables (h2s s2h : R -> R) (n : nat) (low high : R).
  Hypothesis OK : ScaleOK h2s s2h low high.
  Let sl := h2s low.
  Let sh := h2s high.
  Let delta := (sh - sl) / (INR n + 1).
  Definition grid (x : R) : R := s2h (sl + delta * x).

  Lemma delta_pos : 0 < delta.
  Proof.
    unfold delta. apply Rdiv_lt_0_compat; [|apply INR_n1_pos].
    pose proof (so_lt _ _ _ _ OK). unfold sl, sh. lra.
  Qed.

  Lemma grid_in x : 0 <= x <= INR n + 1 -> sl <= sl + delta * x <= sh.
  Proof.
    intros Hx. pose proof (so_lt _ _ _ _ OK) as Hlt. fold sl sh in Hlt.
    destruct (frac_bounds (sh - sl) (INR n + 1) x) as [A B]; [lra | apply INR_n1_pos | exact Hx |].
    fold delta in A, B. lra.
  Qed.

  Lemma grid_h2s x : 0 <= x <= INR n + 1 -> h2s (grid x) = sl + delta * x.
  Proof. intros Hx. unfold grid. apply (so_sec _ _ _ _ OK). apply grid_in; exact Hx. Qed.

  Lemma grid_incr x y : 0 <= x -> x < y -> y <= INR n + 1 -> grid x < grid y.
  Proof.
    intros H0 Hxy H1. unfold grid. pose proof delta_pos as Hd.
    apply (so_incr _ _ _ _ OK).
    - apply grid_in; lra.
    - apply Rplus_lt_compat_l, Rmult_lt_compat_l; lra.
    - apply grid_in; lra.
  Qed.

  Lemma grid_0 : grid 0 = low.
  Proof. unfold grid. rewrite Rmult_0_r, Rplus_0_r. apply (so_lo _ _ _ _ OK). Qed.

  Lemma grid_top : grid (INR n + 1) = high.
  Proof.
    unfold grid, delta. pose proof (INR_n1_pos n).
    replace (sl + (sh - sl) / (INR n + 1) * (INR n + 1)) with sh by (field; lra).
    apply (so_hi _ _ _ _ OK).
  Qed.
End Grid.

(** * Triangular bank (and Fbank, which is the triangular layout on the mel scale) *)
Section Tri.
  Variables (h2s s2h : R -> R) (n : nat) (low high : R).
  Hypothesis OK : ScaleOK h2s s2h low high.

  Lemma tri_vertex_grid i : tri_vertex h2s s2h n low high i = grid h2s s2h n low high (INR i).
  Proof. reflexivity. Qed.

  Lemma INR_le_n1 i : (i <= S n)%nat -> 0 <= INR i <= INR n + 1.
  Proof. intros H. split; [apply pos_INR|]. rewrite <- S_INR. apply le_INR; exact H. Qed.

  (* the documented layout: vertex i sits at scale_low + i * scale_delta *)
  Lemma tri_vertex_on_scale_l i : (i <= S n)%nat ->
    h2s (tri_vertex h2s s2h n low high i) = tri_scale_low h2s low + tri_scale_delta h2s (INR n) low high * INR i.
  Proof. intros H. rewrite tri_vertex_grid. apply grid_h2s; [exact OK | apply INR_le_n1; exact H]. Qed.

  Lemma tri_equally_spaced_l i : (i <= n)%nat ->
    h2s (tri_vertex h2s s2h n low high (S i)) - h2s (tri_vertex h2s s2h n low high i)
    = tri_scale_delta h2s (INR n) low high.
  Proof.
    intros H. rewrite !tri_vertex_on_scale_l by lia. rewrite S_INR. ring.
  Qed.

  Lemma tri_first_vertex_l : tri_vertex h2s s2h n low high 0 = low.
  Proof. rewrite tri_vertex_grid. apply grid_0; exact OK. Qed.

  Lemma tri_last_vertex_l : tri_vertex h2s s2h n low high (S n) = high.
  Proof. rewrite tri_vertex_grid, S_INR. apply grid_top; exact OK. Qed.

  Lemma tri_vertex_incr_l i j : (i < j)%nat -> (j <= S n)%nat ->
    tri_vertex h2s s2h n low high i < tri_vertex h2s s2h n low high j.
  Proof.
    intros Hij Hj. rewrite !tri_vertex_grid. apply grid_incr; [exact OK | apply pos_INR | apply lt_INR; exact Hij |].
    apply INR_le_n1; exact Hj.
  Qed.

  Lemma tri_centers_increasing_l i j : (i < j)%nat -> (j < n)%nat ->
    tri_center h2s s2h n low high i < tri_center h2s s2h n low high j.
  Proof. intros Hij Hj. unfold tri_center. apply tri_vertex_incr_l; lia. Qed.

  Lemma tri_center_in_support_l i : (i < n)%nat ->
    tri_support_lo h2s s2h n low high i < tri_center h2s s2h n low high i < tri_support_hi h2s s2h n low high i.
  Proof.
    intros Hi. unfold tri_support_lo, tri_center, tri_support_hi. split; apply tri_vertex_incr_l; lia.
  Qed.

  (* every filter's vertices satisfy the precondition of the response theorems *)
  Lemma tri_vertices_ordered_l i : (i < n)%nat ->
    low <= tri_vertex h2s s2h n low high i
    /\ tri_vertex h2s s2h n low high i < tri_vertex h2s s2h n low high (S i)
    /\ tri_vertex h2s s2h n low high (S i) < tri_vertex h2s s2h n low high (S (S i))
    /\ tri_vertex h2s s2h n low high (S (S i)) <= high.
  Proof.
    intros Hi. repeat split.
    - destruct i; [rewrite tri_first_vertex_l; lra|].
      left. rewrite <- tri_first_vertex_l at 1. apply tri_vertex_incr_l; lia.
    - apply tri_vertex_incr_l; lia.
    - apply tri_vertex_incr_l; lia.
    - destruct (Nat.eq_dec (S (S i)) (S n)) as [E|E]; [rewrite E, tri_last_vertex_l; lra|].
      left. rewrite <- tri_last_vertex_l at 2. apply tri_vertex_incr_l; lia.
  Qed.
End Tri.

(** * Gabor and gammatone banks: edges half a step inside, centres between edges *)
Section Edges.
  Variables (h2s s2h : R -> R) (n : nat) (low high : R).
  Hypothesis OK : ScaleOK h2s s2h low high.

  Lemma gabor_edge_grid i : gabor_edge h2s s2h n low high i = grid h2s s2h n low high (INR i + 1 / 2).
  Proof. reflexivity. Qed.
  Lemma gammatone_edge_gabor i : gammatone_edge h2s s2h n low high i = gabor_edge h2s s2h n low high i.
  Proof. reflexivity. Qed.
  Lemma gammatone_center_gabor i : gammatone_center h2s s2h n low high i = gabor_center h2s s2h n low high i.
  Proof. reflexivity. Qed.

  Lemma half_in i : (i <= n)%nat -> 0 <= INR i + 1 / 2 <= INR n + 1.
  Proof. intros H. pose proof (pos_INR i). apply le_INR in H. lra. Qed.

  Lemma gabor_edge_on_scale_l i : (i <= n)%nat ->
    h2s (gabor_edge h2s s2h n low high i)
    = gabor_scale_low h2s low + gabor_scale_delta h2s (INR n) low high * (INR i + 1 / 2).
  Proof. intros H. rewrite gabor_edge_grid. apply grid_h2s; [exact OK | apply half_in; exact H]. Qed.

  Lemma gabor_equally_spaced_l i : (i < n)%nat ->
    h2s (gabor_edge h2s s2h n low high (S i)) - h2s (gabor_edge h2s s2h n low high i)
    = gabor_scale_delta h2s (INR n) low high.
  Proof. intros H. rewrite !gabor_edge_on_scale_l by lia. rewrite S_INR. ring. Qed.

  (* the outermost edges are half a step inside [low_hz, high_hz] *)
  Lemma gabor_outer_edges_l :
    h2s (gabor_edge h2s s2h n low high 0) - h2s low = gabor_scale_delta h2s (INR n) low high / 2
    /\ h2s high - h2s (gabor_edge h2s s2h n low high n) = gabor_scale_delta h2s (INR n) low high / 2.
  Proof.
    rewrite !gabor_edge_on_scale_l by lia. destruct (scale_delta_shape h2s (INR n) low high) as (_ & E & _).
    rewrite E. unfold gabor_scale_low. simpl INR. pose proof (INR_n1_pos n). split; field; lra.
  Qed.

  Lemma gabor_edge_incr_l i j : (i < j)%nat -> (j <= n)%nat ->
    gabor_edge h2s s2h n low high i < gabor_edge h2s s2h n low high j.
  Proof.
    intros Hij Hj. rewrite !gabor_edge_grid. pose proof (pos_INR i). apply lt_INR in Hij. apply le_INR in Hj.
    apply grid_incr; [exact OK | lra | lra | lra].
  Qed.

  Lemma gabor_edges_inside_l i : (i <= n)%nat -> low < gabor_edge h2s s2h n low high i < high.
  Proof.
    intros H. rewrite gabor_edge_grid. pose proof (pos_INR i). apply le_INR in H. split.
    - pose proof (grid_incr h2s s2h n low high OK 0 (INR i + 1 / 2) ltac:(lra) ltac:(lra) ltac:(lra)) as L.
      rewrite (grid_0 h2s s2h n low high OK) in L. exact L.
    - pose proof (grid_incr h2s s2h n low high OK (INR i + 1 / 2) (INR n + 1) ltac:(lra) ltac:(lra) ltac:(lra)) as L.
      rewrite (grid_top h2s s2h n low high OK) in L. exact L.
  Qed.

  Lemma gabor_center_between_l i : (i < n)%nat ->
    gabor_edge h2s s2h n low high i < gabor_center h2s s2h n low high i < gabor_edge h2s s2h n low high (S i).
  Proof.
    intros H. unfold gabor_center. destruct (center_shape (gabor_edge h2s s2h n low high i) (gabor_edge h2s s2h n low high (S i))) as [E _].
    rewrite E. pose proof (gabor_edge_incr_l i (S i) ltac:(lia) ltac:(lia)). lra.
  Qed.

  Lemma gabor_centers_increasing_l i j : (i < j)%nat -> (j < n)%nat ->
    gabor_center h2s s2h n low high i < gabor_center h2s s2h n low high j.
  Proof.
    intros Hij Hj.
    pose proof (gabor_center_between_l i ltac:(lia)) as [_ A].
    pose proof (gabor_center_between_l j ltac:(lia)) as [B _].
    destruct (Nat.eq_dec (S i) j) as [E|E]; [subst j; lra|].
    pose proof (gabor_edge_incr_l (S i) j ltac:(lia) ltac:(lia)). lra.
  Qed.
End Edges.

(** * The four scaling functions satisfy ScaleOK (from the C19 theorems) *)
Lemma mel_scale_ok_l low high : -700 < low -> low < high -> ScaleOK mel_h2s mel_s2h low high.
Proof.
  intros Hl Hlh. constructor.
  - apply mel_h2s_incr_l; lra.
  - apply mel_s2h_h2s_l; lra.
  - apply mel_s2h_h2s_l; lra.
  - intros s _. apply mel_h2s_s2h_l.
  - intros a b _ Hab _. apply mel_s2h_incr_l; exact Hab.
Qed.

Lemma linear_scale_ok_l l m low high : 0 < m -> low < high -> ScaleOK (linear_h2s l m) (linear_s2h l m) low high.
Proof.
  intros Hm Hlh. constructor.
  - apply linear_h2s_incr_l; lra.
  - apply linear_s2h_h2s_l; lra.
  - apply linear_s2h_h2s_l; lra.
  - intros s _. apply linear_h2s_s2h_l; lra.
  - intros a b _ Hab _. apply linear_s2h_incr_l; lra.
Qed.

Lemma octave_scale_ok_l l low high : 0 < low -> low < high -> ScaleOK (octave_h2s l) (octave_s2h l) low high.
Proof.
  intros Hl Hlh. constructor.
  - apply octave_h2s_incr_l; lra.
  - apply octave_s2h_h2s_l; lra.
  - apply octave_s2h_h2s_l; lra.
  - intros s _. apply octave_h2s_s2h_l.
  - intros a b _ Hab _. apply octave_s2h_incr_l; exact Hab.
Qed.

Lemma bark_h2s_bound f : -1960 < f -> bark_h2s f < 69099 / 2500.
Proof.
  intros Hf. rewrite bark_h2s_decomp. pose proof (bark_z_lt f Hf) as Hz.
  apply Rlt_le_trans with (bark_corr (657 / 25)); [apply bark_corr_incr; exact Hz|].
  unfold bark_corr. destruct (Rlt_dec _ 2); [lra|]. destruct (Rgt_dec _ _); lra.
Qed.

Lemma bark_scale_ok_l low high : -1960 < low -> low < high -> ScaleOK bark_h2s bark_s2h low high.
Proof.
  intros Hl Hlh. pose proof (bark_h2s_bound high ltac:(lra)) as Hb. constructor.
  - apply bark_h2s_incr_l; lra.
  - apply bark_s2h_h2s_l; lra.
  - apply bark_s2h_h2s_l; lra.
  - intros s [_ Hs]. apply bark_h2s_s2h_l; lra.
  - intros a b _ Hab Hbh. apply bark_s2h_incr_l; lra.
Qed.

(** * Range test *)
Lemma Zfloor_half_le r : IZR (Zfloor (r / 2)) <= r / 2.
Proof. apply Zfloor_lb. Qed.

(* the triangular test (after 82a0881): not (0 <= low < min(high, nyquist) and high <= nyquist + 1) *)
Lemma tri_rejects_shape low high rate :
  tri_rejects_some low high rate
  = ~ ((0 <= low /\ low < Rmin high (rate / 2)) /\ high <= rate / 2 + 1).
Proof. reflexivity. Qed.

Lemma tri_range_rejected_l low high rate :
  low < 0 \/ high <= low \/ rate / 2 <= low \/ high > rate / 2 + 1 -> tri_rejects_some low high rate.
Proof.
  rewrite tri_rejects_shape. intros H [[A B] C]. unfold Rmin in B. destruct (Rle_dec high (rate / 2)); lra.
Qed.

Lemma tri_range_rejected_none_l low rate : low < 0 \/ rate / 2 <= low -> tri_rejects_none low rate.
Proof.
  unfold tri_rejects_none. cbv zeta. intros H [[A B] C]. unfold Rmin in B. destruct (Rle_dec (rate / 2) (rate / 2)); lra.
Qed.

Lemma tri_range_accepted_l low high rate :
  0 <= low -> low < Rmin high (rate / 2) -> high <= rate / 2 + 1 -> ~ tri_rejects_some low high rate.
Proof. rewrite tri_rejects_shape. intros A B C H. apply H. tauto. Qed.

(* exactly the accepted set *)
Lemma tri_accepts_iff_l low high rate :
  ~ tri_rejects_some low high rate <-> (0 <= low /\ low < Rmin high (rate / 2) /\ high <= rate / 2 + 1).
Proof.
  rewrite tri_rejects_shape. split.
  - intros H. destruct (Rle_dec 0 low); destruct (Rlt_dec low (Rmin high (rate / 2)));
      destruct (Rle_dec high (rate / 2 + 1)); try tauto; exfalso; apply H; intros [[X Y] Z]; lra.
  - intros (A & B & C) H. apply H. tauto.
Qed.

(* every ACCEPTED triangular range is valid: 0 <= low < effective high <= nyquist (no side condition) *)
Lemma tri_effective_high_l low high rate :
  ~ tri_rejects_some low high rate ->
  0 <= low /\ low < tri_high_some high rate /\ tri_high_some high rate <= rate / 2
  /\ tri_high_some high rate <= high.
Proof.
  intros H. apply tri_accepts_iff_l in H. destruct H as (A & B & C).
  change (tri_high_some high rate) with (Rmin high (rate / 2)).
  repeat split; try assumption; [apply Rmin_r | apply Rmin_l].
Qed.

Lemma tri_effective_high_none_l low rate :
  ~ tri_rejects_none low rate -> 0 <= low /\ low < tri_high_none rate /\ tri_high_none rate <= rate / 2.
Proof.
  unfold tri_rejects_none, tri_high_none. cbv zeta. intros H.
  assert (E : Rmin (rate / 2) (rate / 2) = rate / 2) by (unfold Rmin; destruct (Rle_dec _ _); reflexivity).
  rewrite E in *.
  assert (0 <= low /\ low < rate / 2) as (A & B).
  { destruct (Rle_dec 0 low); destruct (Rlt_dec low (rate / 2)); try lra; exfalso; apply H; intros [[X Y] Z]; lra. }
  lra.
Qed.

(* Fbank, Gabor and gammatone share one test *)
Lemma other_rejects_same low high rate :
  (fbank_rejects_some low high rate <-> gabor_rejects_some low high rate)
  /\ (gabor_rejects_some low high rate <-> gammatone_rejects_some low high rate).
Proof. split; reflexivity. Qed.

Lemma gabor_range_rejected_l low high rate :
  low < 0 \/ (0 < high /\ (high <= low \/ high > rate / 2 + 1)) -> gabor_rejects_some low high rate.
Proof.
  unfold gabor_rejects_some. intros [H | [Hp [H | H]]]; [left; exact H | right | right].
  - split; [lra | left; exact H].
  - split; [lra | right]. pose proof (Zfloor_half_le rate). lra.
Qed.

Lemma gabor_range_rejected_none_l low : low < 0 -> gabor_rejects_none low.
Proof. unfold gabor_rejects_none. intros H; exact H. Qed.

Lemma gabor_range_accepted_l low high rate :
  0 <= low -> low < high -> high <= IZR (Zfloor (rate / 2)) -> ~ gabor_rejects_some low high rate.
Proof. unfold gabor_rejects_some. intros A B C [H | [_ [H | H]]]; lra. Qed.

Lemma gabor_effective_high_l low high rate :
  ~ gabor_rejects_some low high rate -> high <> 0 ->
  0 <= low /\ low < gabor_high_some high /\ gabor_high_some high <= rate / 2.
Proof.
  unfold gabor_rejects_some, gabor_high_some. intros H Hz. pose proof (Zfloor_half_le rate).
  destruct (Rle_dec 0 low); [|exfalso; apply H; left; lra].
  destruct (Rlt_dec low high); [|exfalso; apply H; right; split; [exact Hz | left; lra]].
  destruct (Rle_dec high (IZR (Zfloor (rate / 2)))); [lra|].
  exfalso; apply H; right; split; [exact Hz | right; lra].
Qed.

Lemma gabor_effective_high_none_l rate : gabor_high_none rate <= rate / 2.
Proof. unfold gabor_high_none. cbv zeta. apply Zfloor_half_le. Qed.

(* RECORD of a repaired defect (see NOTES.md, fixed in /repo 82a0881).  The OLD triangular test
   was  not (0 <= low < high <= nyquist + 1): its 1 Hz leeway admitted a lower edge above the
   Nyquist frequency, for which the clipped upper edge lies BELOW the lower edge.  The test as it
   is now rejects that witness. *)
Definition tri_old_rejects (low high rate : R) : Prop :=
  ~ (0 <= low /\ low < high /\ high <= rate / 2 + 1).

Lemma tri_old_test_admitted_inverted_range_l :
  exists low high rate, ~ tri_old_rejects low high rate /\ Rmin high (rate / 2) < low.
Proof.
  exists (16001 / 2), (80009 / 10), 16000. split.
  - unfold tri_old_rejects. intros H. apply H. lra.
  - unfold Rmin. destruct (Rle_dec _ _); lra.
Qed.

Lemma tri_inverted_range_now_rejected_l : tri_rejects_some (16001 / 2) (80009 / 10) 16000.
Proof. apply tri_range_rejected_l. lra. Qed.

(* the hypotheses of the layout lemmas are satisfiable: mel scale, 20 Hz .. 4 kHz, 10 filters *)
Example layout_hypotheses_satisfiable :
  ScaleOK mel_h2s mel_s2h 20 4000 /\ ~ gabor_rejects_some 20 4000 16000 /\ ~ tri_rejects_some 20 4000 16000.
Proof.
  split; [apply mel_scale_ok_l; lra|]. split.
  - apply gabor_range_accepted_l; try lra. replace (16000 / 2) with (IZR 8000) by (simpl; lra).
    rewrite Zfloor_IZR. simpl. lra.
  - apply tri_range_accepted_l; try lra. unfold Rmin. destruct (Rle_dec _ _); lra.
Qed.
