(* C05 - the property theorems, and nothing else.  Each is closed by [exact] of a lemma
   of C05/{Proofs,Gabor,Gammatone,Response,Bank,Integrals,Gauss,GaborIntegrals,GammatoneImages}.v; the axioms each depends on are
   printed beneath it.  All are statements about gen/Banks.v and gen/Scales.v, which are
   regenerated from filters.py / util.py / config.py / scales.py on every run, through
   C05/Model.v. *)
From Coq Require Import Reals ZArith Bool.
From Flocq Require Import Core.Raux.
From Coquelicot Require Import Coquelicot.
From Verif Require Import gen.Scales gen.Banks C05.Model C05.Proofs C05.Gabor C05.Gammatone C05.Response C05.Bank C05.Integrals C05.Gauss C05.GaborIntegrals C05.GammatoneImages.
Open Scope R_scope.

Theorem mel_scale_ok :
  forall low high : R, -700 < low -> low < high -> ScaleOK mel_h2s mel_s2h low high.
Proof. exact mel_scale_ok_l. Qed.
Print Assumptions mel_scale_ok.

Theorem bark_scale_ok :
  forall low high : R, -1960 < low -> low < high -> ScaleOK bark_h2s bark_s2h low high.
Proof. exact bark_scale_ok_l. Qed.
Print Assumptions bark_scale_ok.

Theorem linear_scale_ok :
  forall l m low high : R,
       0 < m -> low < high -> ScaleOK (linear_h2s l m) (linear_s2h l m) low high.
Proof. exact linear_scale_ok_l. Qed.
Print Assumptions linear_scale_ok.

Theorem octave_scale_ok :
  forall l low high : R,
       0 < low -> low < high -> ScaleOK (octave_h2s l) (octave_s2h l) low high.
Proof. exact octave_scale_ok_l. Qed.
Print Assumptions octave_scale_ok.

Theorem tri_vertex_on_scale :
  forall (h2s s2h : R -> R) (n : nat) (low high : R),
       ScaleOK h2s s2h low high ->
       forall i : nat,
       (i <= S n)%nat ->
       h2s (tri_vertex h2s s2h n low high i) =
       tri_scale_low h2s low + tri_scale_delta h2s (INR n) low high * INR i.
Proof. exact tri_vertex_on_scale_l. Qed.
Print Assumptions tri_vertex_on_scale.

Theorem tri_equally_spaced :
  forall (h2s s2h : R -> R) (n : nat) (low high : R),
       ScaleOK h2s s2h low high ->
       forall i : nat,
       (i <= n)%nat ->
       h2s (tri_vertex h2s s2h n low high (S i)) - h2s (tri_vertex h2s s2h n low high i) =
       tri_scale_delta h2s (INR n) low high.
Proof. exact tri_equally_spaced_l. Qed.
Print Assumptions tri_equally_spaced.

Theorem tri_first_vertex :
  forall (h2s s2h : R -> R) (n : nat) (low high : R),
       ScaleOK h2s s2h low high -> tri_vertex h2s s2h n low high 0 = low.
Proof. exact tri_first_vertex_l. Qed.
Print Assumptions tri_first_vertex.

Theorem tri_last_vertex :
  forall (h2s s2h : R -> R) (n : nat) (low high : R),
       ScaleOK h2s s2h low high -> tri_vertex h2s s2h n low high (S n) = high.
Proof. exact tri_last_vertex_l. Qed.
Print Assumptions tri_last_vertex.

Theorem tri_centers_increasing :
  forall (h2s s2h : R -> R) (n : nat) (low high : R),
       ScaleOK h2s s2h low high ->
       forall i j : nat,
       (i < j)%nat ->
       (j < n)%nat -> tri_center h2s s2h n low high i < tri_center h2s s2h n low high j.
Proof. exact tri_centers_increasing_l. Qed.
Print Assumptions tri_centers_increasing.

Theorem tri_center_in_support :
  forall (h2s s2h : R -> R) (n : nat) (low high : R),
       ScaleOK h2s s2h low high ->
       forall i : nat,
       (i < n)%nat ->
       tri_support_lo h2s s2h n low high i < tri_center h2s s2h n low high i <
       tri_support_hi h2s s2h n low high i.
Proof. exact tri_center_in_support_l. Qed.
Print Assumptions tri_center_in_support.

Theorem fbank_is_tri_mel :
  forall N low high x : R,
       fbank_self_vertices_elt N low high x = tri_self_vertices_elt mel_h2s mel_s2h N low high x.
Proof. exact fbank_is_tri_mel. Qed.
Print Assumptions fbank_is_tri_mel.

Theorem fbank_mel_vertices :
  forall (n : nat) (low high : R) (i : nat),
       0 <= low ->
       low < high ->
       (i <= n)%nat ->
       mel_h2s (fbank_vertex n low high (S i)) - mel_h2s (fbank_vertex n low high i) =
       fbank_scale_delta (INR n) low high.
Proof. exact fbank_mel_vertices_l. Qed.
Print Assumptions fbank_mel_vertices.

Theorem gabor_edge_on_scale :
  forall (h2s s2h : R -> R) (n : nat) (low high : R),
       ScaleOK h2s s2h low high ->
       forall i : nat,
       (i <= n)%nat ->
       h2s (gabor_edge h2s s2h n low high i) =
       gabor_scale_low h2s low + gabor_scale_delta h2s (INR n) low high * (INR i + 1 / 2).
Proof. exact gabor_edge_on_scale_l. Qed.
Print Assumptions gabor_edge_on_scale.

Theorem gabor_equally_spaced :
  forall (h2s s2h : R -> R) (n : nat) (low high : R),
       ScaleOK h2s s2h low high ->
       forall i : nat,
       (i < n)%nat ->
       h2s (gabor_edge h2s s2h n low high (S i)) - h2s (gabor_edge h2s s2h n low high i) =
       gabor_scale_delta h2s (INR n) low high.
Proof. exact gabor_equally_spaced_l. Qed.
Print Assumptions gabor_equally_spaced.

Theorem gabor_outer_edges :
  forall (h2s s2h : R -> R) (n : nat) (low high : R),
       ScaleOK h2s s2h low high ->
       h2s (gabor_edge h2s s2h n low high 0) - h2s low = gabor_scale_delta h2s (INR n) low high / 2 /\
       h2s high - h2s (gabor_edge h2s s2h n low high n) =
       gabor_scale_delta h2s (INR n) low high / 2.
Proof. exact gabor_outer_edges_l. Qed.
Print Assumptions gabor_outer_edges.

Theorem gabor_center_between :
  forall (h2s s2h : R -> R) (n : nat) (low high : R),
       ScaleOK h2s s2h low high ->
       forall i : nat,
       (i < n)%nat ->
       gabor_edge h2s s2h n low high i < gabor_center h2s s2h n low high i <
       gabor_edge h2s s2h n low high (S i).
Proof. exact gabor_center_between_l. Qed.
Print Assumptions gabor_center_between.

Theorem gabor_centers_increasing :
  forall (h2s s2h : R -> R) (n : nat) (low high : R),
       ScaleOK h2s s2h low high ->
       forall i j : nat,
       (i < j)%nat ->
       (j < n)%nat -> gabor_center h2s s2h n low high i < gabor_center h2s s2h n low high j.
Proof. exact gabor_centers_increasing_l. Qed.
Print Assumptions gabor_centers_increasing.

Theorem gammatone_edge_gabor :
  forall (h2s s2h : R -> R) (n : nat) (low high : R) (i : nat),
       gammatone_edge h2s s2h n low high i = gabor_edge h2s s2h n low high i.
Proof. exact gammatone_edge_gabor. Qed.
Print Assumptions gammatone_edge_gabor.

Theorem gammatone_center_gabor :
  forall (h2s s2h : R -> R) (n : nat) (low high : R) (i : nat),
       gammatone_center h2s s2h n low high i = gabor_center h2s s2h n low high i.
Proof. exact gammatone_center_gabor. Qed.
Print Assumptions gammatone_center_gabor.

Theorem tri_response_spec :
  forall (analytic half : bool) (rate left mid right : R) (width k : Z),
       0 <= left ->
       left < mid ->
       mid < right ->
       right <= rate / 2 ->
       (0 < width)%Z ->
       (0 <= k < dft_size half width)%Z ->
       tri_freq_resp analytic half rate left mid right width k =
       triangle left mid right (bin_hz (negb half && negb analytic) rate width k).
Proof. exact tri_response_spec_l. Qed.
Print Assumptions tri_response_spec.

Theorem fbank_response_spec :
  forall (analytic half : bool) (rate left mid right : R) (width k : Z),
       0 <= left ->
       left < mid ->
       mid < right ->
       right <= rate / 2 ->
       (0 < width)%Z ->
       (0 <= k < dft_size half width)%Z ->
       fbank_freq_resp analytic half rate left mid right width k =
       sqrt
         (triangle (mel_h2s left) (mel_h2s mid) (mel_h2s right)
            (mel_h2s (bin_hz (negb half && negb analytic) rate width k))).
Proof. exact fbank_response_spec_l. Qed.
Print Assumptions fbank_response_spec.

Theorem tri_bank_response :
  forall (h2s s2h : R -> R) (n : nat) (low high rate : R),
       ScaleOK h2s s2h low high ->
       0 <= low ->
       high <= rate / 2 ->
       forall (analytic half : bool) (i : nat) (width k : Z),
       (i < n)%nat ->
       (0 < width)%Z ->
       (0 <= k < dft_size half width)%Z ->
       tri_freq_resp analytic half rate (tri_vertex h2s s2h n low high i)
         (tri_vertex h2s s2h n low high (S i)) (tri_vertex h2s s2h n low high (S (S i))) width k =
       triangle (tri_support_lo h2s s2h n low high i) (tri_center h2s s2h n low high i)
         (tri_support_hi h2s s2h n low high i) (bin_hz (negb half && negb analytic) rate width k).
Proof. exact tri_bank_response_l. Qed.
Print Assumptions tri_bank_response.

Theorem fbank_bank_response :
  forall (n : nat) (low high rate : R) (analytic half : bool) (i : nat) (width k : Z),
       0 <= low ->
       low < high ->
       high <= rate / 2 ->
       (i < n)%nat ->
       (0 < width)%Z ->
       (0 <= k < dft_size half width)%Z ->
       fbank_freq_resp analytic half rate (fbank_vertex n low high i)
         (fbank_vertex n low high (S i)) (fbank_vertex n low high (S (S i))) width k =
       sqrt
         (triangle (mel_h2s (fbank_vertex n low high i)) (mel_h2s (fbank_vertex n low high (S i)))
            (mel_h2s (fbank_vertex n low high (S (S i))))
            (mel_h2s (bin_hz (negb half && negb analytic) rate width k))).
Proof. exact fbank_bank_response_l. Qed.
Print Assumptions fbank_bank_response.

Theorem tri_bank_peak :
  forall (h2s s2h : R -> R) (n : nat) (low high : R),
       ScaleOK h2s s2h low high ->
       forall i : nat,
       (i < n)%nat ->
       let T :=
         triangle (tri_support_lo h2s s2h n low high i) (tri_center h2s s2h n low high i)
           (tri_support_hi h2s s2h n low high i) in
       T (tri_center h2s s2h n low high i) = 1 /\
       (forall x : R, 0 <= T x <= 1) /\
       (forall x : R, x <> tri_center h2s s2h n low high i -> T x < 1).
Proof. exact tri_bank_peak_l. Qed.
Print Assumptions tri_bank_peak.

Theorem gabor_peak_one :
  forall std c : R, gabor_image false std c c = 1.
Proof. exact gabor_peak_one_l. Qed.
Print Assumptions gabor_peak_one.

Theorem gabor_le_one :
  forall std c w : R, gabor_image false std c w <= 1.
Proof. exact gabor_le_one_l. Qed.
Print Assumptions gabor_le_one.

Theorem gabor_lt_one :
  forall std c w : R, std <> 0 -> w <> c -> gabor_image false std c w < 1.
Proof. exact gabor_lt_one_l. Qed.
Print Assumptions gabor_lt_one.

Theorem gabor_image_decreasing :
  forall (l2 : bool) (std c w1 w2 : R),
       std <> 0 ->
       Rabs (c - w1) < Rabs (c - w2) -> gabor_image l2 std c w2 < gabor_image l2 std c w1.
Proof. exact gabor_image_decreasing_l. Qed.
Print Assumptions gabor_image_decreasing.

Theorem gabor_bank_center_in_support :
  forall (h2s s2h : R -> R) (n : nat) (low high rate : R),
       ScaleOK h2s s2h low high ->
       0 <= low ->
       high <= rate / 2 ->
       forall (l2 erb : bool) (i : nat),
       (i < n)%nat ->
       let l := gabor_edge h2s s2h n low high i in
       let r := gabor_edge h2s s2h n low high (S i) in
       gabor_self_supports_hz_elt_0 l2 erb rate l r < gabor_center h2s s2h n low high i <
       gabor_self_supports_hz_elt_1 l2 erb rate l r.
Proof. exact gabor_bank_center_in_support_l. Qed.
Print Assumptions gabor_bank_center_in_support.

Theorem gabor_support_edge_value :
  forall (erb : bool) (rate l r : R),
       0 < rate ->
       l < r ->
       let std := gabor_self_stds_elt erb rate l r in
       let c := gabor_self_centers_ang_elt rate l r in
       gabor_image false std c (c + gabor_diff_ang false erb rate l r) =
       effective_support_threshold.
Proof. exact gabor_support_edge_value_l. Qed.
Print Assumptions gabor_support_edge_value.

Theorem gabor_bank_cross_3dB :
  forall (h2s s2h : R -> R) (n : nat) (low high rate : R),
       ScaleOK h2s s2h low high ->
       0 <= low ->
       high <= rate / 2 ->
       forall i : nat,
       (S i < n)%nat ->
       let e := gabor_edge h2s s2h n low high in
       gabor_image false (gabor_self_stds_elt false rate (e i) (e (S i)))
         (gabor_self_centers_ang_elt rate (e i) (e (S i))) (hertz_to_angular (e (S i)) rate) ^ 2 =
       Rpower 10 (-3 / 10) /\
       gabor_image false (gabor_self_stds_elt false rate (e (S i)) (e (S (S i))))
         (gabor_self_centers_ang_elt rate (e (S i)) (e (S (S i))))
         (hertz_to_angular (e (S i)) rate) ^ 2 = Rpower 10 (-3 / 10).
Proof. exact gabor_bank_cross_3dB_l. Qed.
Print Assumptions gabor_bank_cross_3dB.

Theorem gabor_bank_erb :
  forall (h2s s2h : R -> R) (n : nat) (low high rate : R),
       ScaleOK h2s s2h low high ->
       0 <= low ->
       high <= rate / 2 ->
       forall (l2 : bool) (i : nat),
       (i < n)%nat ->
       let e := gabor_edge h2s s2h n low high in
       angular_to_hertz (gabor_erb_ang l2 (gabor_self_stds_elt true rate (e i) (e (S i)))) rate =
       e (S i) - e i.
Proof. exact gabor_bank_erb_l. Qed.
Print Assumptions gabor_bank_erb.

Theorem gabor_l2_time :
  forall std : R, 0 < std -> gabor_l2sq_time true std = 1.
Proof. exact gabor_l2_time_l. Qed.
Print Assumptions gabor_l2_time.

Theorem gabor_l2_freq :
  forall std : R, 0 < std -> gabor_l2sq_freq true std = 1.
Proof. exact gabor_l2_freq_l. Qed.
Print Assumptions gabor_l2_freq.

(* The Gaussian integral is PROVED (C05/Gauss.v), so the closed forms above are integrals of the filters *)
Theorem gaussian_integral_value : forall a : R, 0 < a ->
  is_RInt_gen (fun u => exp (- (a * u ^ 2))) (Rbar_locally m_infty) (Rbar_locally p_infty) (sqrt (PI / a)).
Proof. exact gaussian_integral. Qed.
Print Assumptions gaussian_integral_value.

Theorem gauss_integral_is_integral : forall a : R, 0 < a ->
  is_RInt_gen (fun u => exp (- (a * u ^ 2))) (Rbar_locally m_infty) (Rbar_locally p_infty) (gauss_integral a).
Proof. exact gauss_integral_is_integral_l. Qed.
Print Assumptions gauss_integral_is_integral.

Theorem gabor_erb_is_integral : forall (l2 : bool) (std : R), 0 < std ->
  is_RInt_gen (fun omega => (gabor_image l2 std 0 omega / gabor_image l2 std 0 0) ^ 2)
              (Rbar_locally m_infty) (Rbar_locally p_infty) (gabor_erb_ang l2 std).
Proof. exact gabor_erb_is_integral_l. Qed.
Print Assumptions gabor_erb_is_integral.

Theorem gabor_l2_time_is_integral : forall (l2 : bool) (std : R), 0 < std ->
  is_RInt_gen (fun t => gabor_ir_abs l2 std t ^ 2)
              (Rbar_locally m_infty) (Rbar_locally p_infty) (gabor_l2sq_time l2 std).
Proof. exact gabor_l2_time_is_integral_l. Qed.
Print Assumptions gabor_l2_time_is_integral.

Theorem gabor_l2_freq_is_integral : forall (l2 : bool) (std : R), 0 < std ->
  is_RInt_gen (fun omega => gabor_image l2 std 0 omega ^ 2 / (2 * PI))
              (Rbar_locally m_infty) (Rbar_locally p_infty) (gabor_l2sq_freq l2 std).
Proof. exact gabor_l2_freq_is_integral_l. Qed.
Print Assumptions gabor_l2_freq_is_integral.

Theorem gabor_unit_l2_norm_time : forall std : R, 0 < std ->
  is_RInt_gen (fun t => gabor_ir_abs true std t ^ 2) (Rbar_locally m_infty) (Rbar_locally p_infty) 1.
Proof. exact gabor_unit_l2_norm_time_l. Qed.
Print Assumptions gabor_unit_l2_norm_time.

Theorem gabor_unit_l2_norm_freq : forall std : R, 0 < std ->
  is_RInt_gen (fun omega => gabor_image true std 0 omega ^ 2 / (2 * PI))
              (Rbar_locally m_infty) (Rbar_locally p_infty) 1.
Proof. exact gabor_unit_l2_norm_freq_l. Qed.
Print Assumptions gabor_unit_l2_norm_freq.

Theorem gabor_centre_gain_is_integral : forall (l2 : bool) (std : R), 0 < std ->
  is_RInt_gen (fun t => gabor_ir_abs l2 std t)
              (Rbar_locally m_infty) (Rbar_locally p_infty) (exp (gabor_fr_const_term l2 std)).
Proof. exact gabor_centre_gain_is_integral_l. Qed.
Print Assumptions gabor_centre_gain_is_integral.

Theorem gabor_ir_fr_consistent :
  forall (l2 : bool) (std : R),
       0 < std ->
       exp (gabor_ir_const_term l2 std) * gauss_integral (1 / gabor_ir_denom_term std) =
       exp (gabor_fr_const_term l2 std).
Proof. exact gabor_ir_fr_consistent_l. Qed.
Print Assumptions gabor_ir_fr_consistent.

Theorem gammatone_peak_one :
  forall (erb : bool) (n : nat) (rate l r : R),
       let c := gammatone_self_cs_elt false erb n rate l r in
       let alpha := gammatone_self_alphas_elt erb n rate l r in
       forall xi : R, gammatone_H_abs c alpha xi n xi = 1.
Proof. exact gammatone_peak_one_l. Qed.
Print Assumptions gammatone_peak_one.

Theorem gammatone_le_one :
  forall (erb : bool) (n : nat) (rate l r xi omega : R),
       gammatone_H_abs (gammatone_self_cs_elt false erb n rate l r)
         (gammatone_self_alphas_elt erb n rate l r) xi n omega <= 1.
Proof. exact gammatone_le_one_l. Qed.
Print Assumptions gammatone_le_one.

Theorem gammatone_bank_cross_3dB :
  forall (h2s s2h : R -> R) (n : nat) (low high rate : R),
       ScaleOK h2s s2h low high ->
       0 <= low ->
       high <= rate / 2 ->
       forall order i : nat,
       (1 <= order)%nat ->
       (S i < n)%nat ->
       let e := gammatone_edge h2s s2h n low high in
       let H :=
         fun l r : R =>
         gammatone_H_abs (gammatone_self_cs_elt false false order rate l r)
           (gammatone_self_alphas_elt false order rate l r) (gammatone_self_xis_elt rate l r) order
         in
       H (e i) (e (S i)) (hertz_to_angular (e (S i)) rate) ^ 2 = 1 / 2 /\
       H (e (S i)) (e (S (S i))) (hertz_to_angular (e (S i)) rate) ^ 2 = 1 / 2.
Proof. exact gammatone_bank_cross_3dB_l. Qed.
Print Assumptions gammatone_bank_cross_3dB.

Theorem gammatone_bank_erb :
  forall (h2s s2h : R -> R) (n : nat) (low high rate : R),
       ScaleOK h2s s2h low high ->
       0 <= low ->
       high <= rate / 2 ->
       forall order i : nat,
       (1 <= order)%nat ->
       (i < n)%nat ->
       let e := gammatone_edge h2s s2h n low high in
       angular_to_hertz
         (gammatone_erb_ang (gammatone_self_alphas_elt true order rate (e i) (e (S i))) order) rate =
       e (S i) - e i.
Proof. exact gammatone_bank_erb_l. Qed.
Print Assumptions gammatone_bank_erb.

Theorem gammatone_l2_one :
  forall (erb : bool) (n : nat) (rate l r : R),
       (1 <= n)%nat ->
       gammatone_l2sq (gammatone_self_cs_elt true erb n rate l r)
         (gammatone_self_alphas_elt erb n rate l r) n = 1.
Proof. exact gammatone_l2_one_l. Qed.
Print Assumptions gammatone_l2_one.

Theorem gammatone_center_in_support_peak :
  forall (erb : bool) (n : nat) (rate l r : R),
       (1 <= n)%nat ->
       0 < rate ->
       gammatone_self_supports_hz_elt_0 false erb n rate l r < gammatone_self_centers_hz_elt l r <
       gammatone_self_supports_hz_elt_1 false erb n rate l r.
Proof. exact gammatone_center_in_support_peak_l. Qed.
Print Assumptions gammatone_center_in_support_peak.

Theorem gammatone_center_in_support :
  forall (l2 erb : bool) (n : nat) (rate l r : R),
       0 < rate ->
       gammatone_supp_b erb n rate l r < exp (gammatone_supp_a l2 erb n rate l r) ->
       gammatone_self_supports_hz_elt_0 l2 erb n rate l r < gammatone_self_centers_hz_elt l r <
       gammatone_self_supports_hz_elt_1 l2 erb n rate l r.
Proof. exact gammatone_center_in_support_l. Qed.
Print Assumptions gammatone_center_in_support.

Theorem gammatone_offset :
  forall (erb : bool) (n : nat) (rate l r : R),
       gammatone_self_offsets_elt erb false n rate l r = 0 /\
       gammatone_self_offsets_elt erb true n rate l r +
       (INR n - 1) / gammatone_self_alphas_elt erb n rate l r = 0.
Proof. exact gammatone_offset_l. Qed.
Print Assumptions gammatone_offset.

Theorem tri_range_rejected :
  forall low high rate : R,
       low < 0 \/ high <= low \/ rate / 2 <= low \/ high > rate / 2 + 1 ->
       tri_rejects_some low high rate.
Proof. exact tri_range_rejected_l. Qed.
Print Assumptions tri_range_rejected.

Theorem tri_range_rejected_none :
  forall low rate : R, low < 0 \/ rate / 2 <= low -> tri_rejects_none low rate.
Proof. exact tri_range_rejected_none_l. Qed.
Print Assumptions tri_range_rejected_none.

Theorem tri_range_accepted :
  forall low high rate : R,
       0 <= low ->
       low < Rmin high (rate / 2) -> high <= rate / 2 + 1 -> ~ tri_rejects_some low high rate.
Proof. exact tri_range_accepted_l. Qed.
Print Assumptions tri_range_accepted.

Theorem tri_accepts_iff :
  forall low high rate : R,
       ~ tri_rejects_some low high rate <->
       0 <= low /\ low < Rmin high (rate / 2) /\ high <= rate / 2 + 1.
Proof. exact tri_accepts_iff_l. Qed.
Print Assumptions tri_accepts_iff.

Theorem tri_accepted_is_valid :
  forall low high rate : R,
       ~ tri_rejects_some low high rate ->
       0 <= low /\
       low < tri_high_some high rate /\
       tri_high_some high rate <= rate / 2 /\ tri_high_some high rate <= high.
Proof. exact tri_effective_high_l. Qed.
Print Assumptions tri_accepted_is_valid.

Theorem tri_accepted_is_valid_none :
  forall low rate : R,
       ~ tri_rejects_none low rate -> 0 <= low /\ low < tri_high_none rate <= rate / 2.
Proof. exact tri_effective_high_none_l. Qed.
Print Assumptions tri_accepted_is_valid_none.

Theorem other_rejects_same :
  forall low high rate : R,
       (fbank_rejects_some low high rate <-> gabor_rejects_some low high rate) /\
       (gabor_rejects_some low high rate <-> gammatone_rejects_some low high rate).
Proof. exact other_rejects_same. Qed.
Print Assumptions other_rejects_same.

Theorem gabor_range_rejected :
  forall low high rate : R,
       low < 0 \/ 0 < high /\ (high <= low \/ high > rate / 2 + 1) ->
       gabor_rejects_some low high rate.
Proof. exact gabor_range_rejected_l. Qed.
Print Assumptions gabor_range_rejected.

Theorem gabor_range_rejected_none :
  forall low : R, low < 0 -> gabor_rejects_none low.
Proof. exact gabor_range_rejected_none_l. Qed.
Print Assumptions gabor_range_rejected_none.

Theorem gabor_range_accepted :
  forall low high rate : R,
       0 <= low ->
       low < high -> high <= IZR (Zfloor (rate / 2)) -> ~ gabor_rejects_some low high rate.
Proof. exact gabor_range_accepted_l. Qed.
Print Assumptions gabor_range_accepted.

Theorem gabor_effective_high :
  forall low high rate : R,
       ~ gabor_rejects_some low high rate ->
       high <> 0 -> 0 <= low /\ low < gabor_high_some high <= rate / 2.
Proof. exact gabor_effective_high_l. Qed.
Print Assumptions gabor_effective_high.

Theorem gabor_effective_high_none :
  forall rate : R, gabor_high_none rate <= rate / 2.
Proof. exact gabor_effective_high_none_l. Qed.
Print Assumptions gabor_effective_high_none.

Theorem tri_old_test_admitted_inverted_range :
  exists low high rate : R, ~ tri_old_rejects low high rate /\ Rmin high (rate / 2) < low.
Proof. exact tri_old_test_admitted_inverted_range_l. Qed.
Print Assumptions tri_old_test_admitted_inverted_range.

Theorem tri_inverted_range_now_rejected :
  tri_rejects_some (16001 / 2) (80009 / 10) 16000.
Proof. exact tri_inverted_range_now_rejected_l. Qed.
Print Assumptions tri_inverted_range_now_rejected.

Theorem gabor_freq_resp_three_images :
  forall (l2 : bool) (std c lowest highest : R) (width k : Z),
       - (2 * PI) < lowest ->
       0 <= highest < 2 * PI ->
       gabor_freq_resp l2 std c lowest highest width k =
       gabor_image l2 std c ((IZR k / IZR width + -1) * 2 * PI) +
       (gabor_image l2 std c ((IZR k / IZR width + 0) * 2 * PI) +
        (gabor_image l2 std c ((IZR k / IZR width + 1) * 2 * PI) + 0)).
Proof. exact gabor_freq_resp_three_images_l. Qed.
Print Assumptions gabor_freq_resp_three_images.

Theorem gabor_neighbour_images_negligible :
  forall (erb : bool) (rate l r : R),
       0 < rate ->
       l < r ->
       let std := gabor_self_stds_elt erb rate l r in
       let c := gabor_self_centers_ang_elt rate l r in
       2 * gabor_diff_ang false erb rate l r < PI ->
       gabor_image false std c (c + 2 * PI) <= effective_support_threshold ^ 16 /\
       gabor_image false std c (c - 2 * PI) <= effective_support_threshold ^ 16.
Proof. exact gabor_neighbour_images_negligible_l. Qed.
Print Assumptions gabor_neighbour_images_negligible.

Theorem gamma_integral :
  forall a : R,
       0 < a ->
       forall k : nat,
       is_RInt_gen (G a k) (at_point 0) (Rbar_locally p_infty) (INR (fact k) / a ^ S k).
Proof. exact G_integral. Qed.
Print Assumptions gamma_integral.

Theorem wallis_integral :
  forall alpha xi : R,
       0 < alpha ->
       forall m : nat,
       is_RInt_gen (W alpha xi (S m)) (Rbar_locally m_infty) (Rbar_locally p_infty) (u alpha m).
Proof. exact W_integral. Qed.
Print Assumptions wallis_integral.

Theorem wallis_value_closed_form :
  forall (alpha : R) (m : nat),
       u alpha m = alpha * PI * INR (fact (2 * m)) / (2 ^ (2 * m) * INR (fact m) ^ 2).
Proof. exact u_closed. Qed.
Print Assumptions wallis_value_closed_form.

Theorem gammatone_erb_integral :
  forall (c alpha xi : R) (n : nat),
       0 < alpha ->
       0 < c ->
       (1 <= n)%nat ->
       is_RInt_gen
         (fun w : R => (gammatone_H_abs c alpha xi n w / gammatone_H_abs c alpha xi n xi) ^ 2)
         (Rbar_locally m_infty) (Rbar_locally p_infty) (gammatone_erb_ang alpha n).
Proof. exact gammatone_erb_integral_l. Qed.
Print Assumptions gammatone_erb_integral.

Theorem gammatone_l2_integral :
  forall (c alpha : R) (n : nat),
       0 < alpha ->
       0 < c ->
       (1 <= n)%nat ->
       is_RInt_gen (fun t : R => gammatone_h_abs c alpha n 0 t ^ 2) (at_point 0)
         (Rbar_locally p_infty) (gammatone_l2sq c alpha n).
Proof. exact gammatone_l2_integral_l. Qed.
Print Assumptions gammatone_l2_integral.

(* The periodic images of a gammatone filter whose support spans less than half the sampling rate
   (get_frequency_response adds H(omega + 2 pi k) over the periods meeting the support). *)
Theorem gammatone_magnitude_decreases_with_distance :
  forall (c alpha xi : R) (n : nat) (w1 w2 : R), 0 <= c -> 0 < alpha ->
       Rabs (w1 - xi) <= Rabs (w2 - xi) ->
       gammatone_H_abs c alpha xi n w2 <= gammatone_H_abs c alpha xi n w1.
Proof. exact gammatone_H_abs_antitone_l. Qed.
Print Assumptions gammatone_magnitude_decreases_with_distance.

Theorem gammatone_support_edge_value :
  forall (erb : bool) (n : nat) (rate l r : R), (1 <= n)%nat ->
       let c := gammatone_self_cs_elt false erb n rate l r in
       let alpha := gammatone_self_alphas_elt erb n rate l r in
       let xi := gammatone_self_xis_elt rate l r in
       let d := gammatone_diff_ang false erb n rate l r in
       gammatone_H_abs c alpha xi n (xi - d) = effective_support_threshold /\
       gammatone_H_abs c alpha xi n (xi + d) = effective_support_threshold.
Proof. exact gammatone_support_edge_value_l. Qed.
Print Assumptions gammatone_support_edge_value.

Theorem gammatone_far_images_below_threshold :
  forall (erb : bool) (n : nat) (rate l r w : R) (k : Z), (1 <= n)%nat ->
       let c := gammatone_self_cs_elt false erb n rate l r in
       let alpha := gammatone_self_alphas_elt erb n rate l r in
       let xi := gammatone_self_xis_elt rate l r in
       gammatone_diff_ang false erb n rate l r <= PI ->
       Rabs (w - xi) <= PI -> (k <> 0)%Z ->
       gammatone_H_abs c alpha xi n (w + 2 * PI * IZR k) <= effective_support_threshold.
Proof. exact gammatone_bank_far_images_le_threshold_l. Qed.
Print Assumptions gammatone_far_images_below_threshold.

Theorem periodised_gain_near_one :
  forall (z0 : C) (zs : list C) (e : R), Cmod z0 = 1 ->
       List.Forall (fun z => Cmod z <= e) zs ->
       Rabs (Cmod (z0 + List.fold_right Cplus 0 zs)%C - 1) <= INR (List.length zs) * e.
Proof. exact periodised_gain_l. Qed.
Print Assumptions periodised_gain_near_one.
