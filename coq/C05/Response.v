(* C05 - the frequency responses of the triangular bank and of Fbank equal the
   documented triangle (linear in Hz / square root of a triangle in mel) at EVERY
   DFT bin, for every DFT width, full / half spectrum, real / analytic. *)
From Coq Require Import Reals ZArith Bool Lra Lia.
From Flocq Require Import Core.Raux.
From Verif Require Import gen.Scales gen.Banks C05.Model C19.Proofs.
Open Scope R_scope.

(** * The triangle *)
Lemma triangle_inside l m r x : l < m -> m < r -> l <= x <= r ->
  triangle l m r x = if Rle_dec x m then (x - l) / (m - l) else (r - x) / (r - m).
Proof.
  intros Hlm Hmr Hx. unfold triangle.
  assert (A : 0 <= (x - l) / (m - l)) by (apply Rmult_le_pos; [lra | left; apply Rinv_0_lt_compat; lra]).
  assert (B : 0 <= (r - x) / (r - m)) by (apply Rmult_le_pos; [lra | left; apply Rinv_0_lt_compat; lra]).
  destruct (Rle_dec x m) as [H|H].
  - assert ((x - l) / (m - l) <= 1).
    { apply Rmult_le_reg_r with (m - l); [lra|]. replace ((x - l) / (m - l) * (m - l)) with (x - l) by (field; lra). lra. }
    assert (1 <= (r - x) / (r - m)).
    { apply Rmult_le_reg_r with (r - m); [lra|]. replace ((r - x) / (r - m) * (r - m)) with (r - x) by (field; lra). lra. }
    rewrite Rmin_left by lra. apply Rmax_right; exact A.
  - assert ((r - x) / (r - m) <= 1).
    { apply Rmult_le_reg_r with (r - m); [lra|]. replace ((r - x) / (r - m) * (r - m)) with (r - x) by (field; lra). lra. }
    assert (1 <= (x - l) / (m - l)).
    { apply Rmult_le_reg_r with (m - l); [lra|]. replace ((x - l) / (m - l) * (m - l)) with (x - l) by (field; lra). lra. }
    rewrite Rmin_right by lra. apply Rmax_right; exact B.
Qed.

Lemma triangle_outside l m r x : l < m -> m < r -> x <= l \/ r <= x -> triangle l m r x = 0.
Proof.
  intros Hlm Hmr Hx. unfold triangle. apply Rmax_left. destruct Hx as [Hx|Hx].
  - apply Rle_trans with ((x - l) / (m - l)); [apply Rmin_l|].
    apply Rmult_le_reg_r with (m - l); [lra|]. replace ((x - l) / (m - l) * (m - l)) with (x - l) by (field; lra). lra.
  - apply Rle_trans with ((r - x) / (r - m)); [apply Rmin_r|].
    apply Rmult_le_reg_r with (r - m); [lra|]. replace ((r - x) / (r - m) * (r - m)) with (r - x) by (field; lra). lra.
Qed.

Lemma triangle_range l m r x : l < m -> m < r -> 0 <= triangle l m r x <= 1.
Proof.
  intros Hlm Hmr. split; [apply Rmax_l|]. unfold triangle. apply Rmax_lub; [lra|].
  destruct (Rle_dec x m).
  - apply Rle_trans with ((x - l) / (m - l)); [apply Rmin_l|].
    apply Rmult_le_reg_r with (m - l); [lra|]. replace ((x - l) / (m - l) * (m - l)) with (x - l) by (field; lra). lra.
  - apply Rle_trans with ((r - x) / (r - m)); [apply Rmin_r|].
    apply Rmult_le_reg_r with (r - m); [lra|]. replace ((r - x) / (r - m) * (r - m)) with (r - x) by (field; lra). lra.
Qed.

Lemma triangle_peak l m r : l < m -> m < r -> triangle l m r m = 1.
Proof.
  intros Hlm Hmr. rewrite triangle_inside by lra. destruct (Rle_dec m m); [field; lra | lra].
Qed.

Lemma triangle_lt_one l m r x : l < m -> m < r -> x <> m -> triangle l m r x < 1.
Proof.
  intros Hlm Hmr Hx.
  destruct (Rle_dec x l); [rewrite triangle_outside by lra; lra|].
  destruct (Rle_dec r x); [rewrite triangle_outside by lra; lra|].
  rewrite triangle_inside by lra. destruct (Rle_dec x m).
  - apply Rmult_lt_reg_r with (m - l); [lra|]. replace ((x - l) / (m - l) * (m - l)) with (x - l) by (field; lra). lra.
  - apply Rmult_lt_reg_r with (r - m); [lra|]. replace ((r - x) / (r - m) * (r - m)) with (r - x) by (field; lra). lra.
Qed.

(** * Shapes of the generated per-bin formulas *)
Lemma tri_fr_shape rate W l m r idx :
  tri_fr_left_idx rate W l = Zceil (W * l / rate)
  /\ tri_fr_right_idx rate W r = Ztrunc (W * r / rate)
  /\ tri_fr_hz rate W idx = rate * idx / W
  /\ tri_fr_res_idx rate W l m r idx
     = if Rle_dec (tri_fr_hz rate W idx) m then (tri_fr_hz rate W idx - l) / (m - l)
       else (r - tri_fr_hz rate W idx) / (r - m).
Proof. repeat split; reflexivity. Qed.

Lemma fbank_fr_shape rate W l m r idx :
  fbank_fr_left_idx rate W l = Zceil (W * l / rate)
  /\ fbank_fr_right_idx rate W r = Ztrunc (W * r / rate)
  /\ fbank_fr_res_idx rate W l m r idx
     = sqrt (if Rle_dec (mel_h2s (tri_fr_hz rate W idx)) (mel_h2s m)
             then (mel_h2s (tri_fr_hz rate W idx) - mel_h2s l) / (mel_h2s m - mel_h2s l)
             else (mel_h2s r - mel_h2s (tri_fr_hz rate W idx)) / (mel_h2s r - mel_h2s m)).
Proof. repeat split; reflexivity. Qed.

(** * The loop, for an arbitrary per-bin value V and spec T *)
Section Loop.
  Variables (rate left right : R) (width : Z).
  Hypothesis Hrate : 0 < rate.
  Hypothesis Hleft : 0 <= left.
  Hypothesis Hlr : left < right.
  Hypothesis Hright : right <= rate / 2.
  Hypothesis Hwidth : (0 < width)%Z.

  Let W := IZR width.
  Let hz (j : Z) : R := rate * IZR j / W.
  Let li := Zceil (W * left / rate).
  Let ri := Ztrunc (W * right / rate).

  Lemma W_pos : 0 < W.
  Proof. unfold W. apply IZR_lt; exact Hwidth. Qed.

  Lemma li_spec j : (li <= j)%Z <-> left <= hz j.
  Proof.
    pose proof W_pos as HW. unfold li, hz.
    assert (E : forall t, W * left / rate <= t <-> left <= rate * t / W).
    { intros t. split; intros H.
      - apply Rmult_le_reg_r with (W / rate); [apply Rdiv_lt_0_compat; lra|].
        replace (left * (W / rate)) with (W * left / rate) by (field; lra).
        replace (rate * t / W * (W / rate)) with t by (field; lra). exact H.
      - apply Rmult_le_reg_r with (rate / W); [apply Rdiv_lt_0_compat; lra|].
        replace (W * left / rate * (rate / W)) with left by (field; lra).
        replace (t * (rate / W)) with (rate * t / W) by (field; lra). exact H. }
    split; intros H.
    - apply E. apply Rle_trans with (IZR (Zceil (W * left / rate))); [apply Zceil_ub | apply IZR_le; exact H].
    - apply Zceil_glb. apply E. exact H.
  Qed.

  Lemma ri_spec j : (j <= ri)%Z <-> hz j <= right.
  Proof.
    pose proof W_pos as HW. unfold ri, hz.
    assert (Hnn : 0 <= W * right / rate).
    { apply Rmult_le_pos; [apply Rmult_le_pos; lra | left; apply Rinv_0_lt_compat; lra]. }
    rewrite Ztrunc_floor by exact Hnn.
    assert (E : forall t, t <= W * right / rate <-> rate * t / W <= right).
    { intros t. split; intros H.
      - apply Rmult_le_reg_r with (W / rate); [apply Rdiv_lt_0_compat; lra|].
        replace (right * (W / rate)) with (W * right / rate) by (field; lra).
        replace (rate * t / W * (W / rate)) with t by (field; lra). exact H.
      - apply Rmult_le_reg_r with (rate / W); [apply Rdiv_lt_0_compat; lra|].
        replace (W * right / rate * (rate / W)) with right by (field; lra).
        replace (t * (rate / W)) with (rate * t / W) by (field; lra). exact H. }
    split; intros H.
    - apply E. apply Rle_trans with (IZR (Zfloor (W * right / rate))); [apply IZR_le; exact H | apply Zfloor_lb].
    - apply Zfloor_lub. apply E. exact H.
  Qed.

  Lemma in_loop_spec ds j :
    in_loop li ri ds j = true <-> (left <= hz j /\ hz j <= right /\ (j < ds)%Z).
  Proof.
    unfold in_loop. rewrite andb_true_iff, Z.leb_le, Z.ltb_lt, Z.min_glb_lt_iff.
    rewrite li_spec. rewrite <- ri_spec. intuition lia.
  Qed.

  Lemma in_loop_low_half ds j : in_loop li ri ds j = true -> (2 * j <= width)%Z.
  Proof.
    intros H. apply in_loop_spec in H. destruct H as (_ & H & _). pose proof W_pos as HW.
    assert (hz j <= rate / 2) by lra. unfold hz in H0.
    assert (IZR j <= W / 2).
    { apply Rmult_le_reg_r with (rate / W); [apply Rdiv_lt_0_compat; lra|].
      replace (IZR j * (rate / W)) with (rate * IZR j / W) by (field; lra).
      replace (W / 2 * (rate / W)) with (rate / 2) by (field; lra). exact H0. }
    apply le_IZR. rewrite mult_IZR. fold W. lra.
  Qed.

  Variables (V : Z -> R) (T : R -> R).
  Hypothesis V_inside : forall j, left <= hz j <= right -> V j = T (hz j).
  Hypothesis T_outside : forall x, 0 <= x -> x < left \/ right < x -> T x = 0.

  Lemma hz_nonneg j : (0 <= j)%Z -> 0 <= hz j.
  Proof.
    intros H. unfold hz. pose proof W_pos. apply IZR_le in H.
    apply Rmult_le_pos; [apply Rmult_le_pos; lra | left; apply Rinv_0_lt_compat; lra].
  Qed.

  Lemma slot_value ds j : (0 <= j < ds)%Z ->
    (if in_loop li ri ds j then V j else 0) = T (hz j).
  Proof.
    intros Hj. destruct (in_loop li ri ds j) eqn:E.
    - apply in_loop_spec in E. apply V_inside. lra.
    - symmetry. apply T_outside; [apply hz_nonneg; lia|].
      destruct (Rlt_dec (hz j) left); [left; assumption|].
      destruct (Rlt_dec right (hz j)); [right; assumption|].
      exfalso. assert (in_loop li ri ds j = true) by (apply in_loop_spec; split; [lra | split; [lra | lia]]).
      congruence.
  Qed.

  Lemma loop_result_spec (mirror half : bool) k :
    (mirror = true -> half = false) ->
    (0 <= k < dft_size half width)%Z ->
    loop_result V mirror li ri width (dft_size half width) k
    = T (rate * IZR (if mirror then Z.min k (width - k) else k) / W).
  Proof.
    intros Hm Hk. unfold loop_result. destruct mirror; simpl andb.
    2:{ apply slot_value; exact Hk. }
    rewrite (Hm eq_refl) in *. unfold dft_size in *.
    destruct (Z.eq_dec k 0) as [K0|K0].
    - subst k. rewrite Z.mod_0_l by lia. simpl Z.leb. simpl orb. rewrite andb_true_r.
      rewrite Z.min_l by lia.
      etransitivity; [|apply (slot_value width 0); lia].
      destruct (in_loop li ri width 0); reflexivity.
    - assert (Hsrc : ((- k) mod width = width - k)%Z).
      { symmetry. apply Z.mod_unique with (q := (-1)%Z); lia. }
      rewrite Hsrc.
      destruct (Z_le_gt_dec k (width - k)) as [Hle|Hgt].
      + rewrite Z.min_l by lia.
        assert ((k <=? width - k)%Z = true) as -> by (apply Z.leb_le; lia). simpl orb. rewrite andb_true_r.
        etransitivity; [|apply (slot_value width k); lia].
        destruct (in_loop li ri width (width - k)) eqn:E; [|reflexivity].
        pose proof (in_loop_low_half _ _ E). assert (width - k = k)%Z as E2 by lia.
        rewrite E2 in E. rewrite E2, E. reflexivity.
      + rewrite Z.min_r by lia.
        assert ((k <=? width - k)%Z = false) as -> by (apply Z.leb_gt; lia). simpl orb.
        assert (in_loop li ri width k = false) as Ek.
        { destruct (in_loop li ri width k) eqn:E; [|reflexivity]. pose proof (in_loop_low_half _ _ E). lia. }
        rewrite Ek. simpl negb. rewrite andb_true_r.
        apply (slot_value width (width - k)); lia.
  Qed.
End Loop.

(** * Triangular bank *)
Lemma tri_response_spec_l (analytic half : bool) rate left mid right (width k : Z) :
  0 <= left -> left < mid -> mid < right -> right <= rate / 2 ->
  (0 < width)%Z -> (0 <= k < dft_size half width)%Z ->
  tri_freq_resp analytic half rate left mid right width k
  = triangle left mid right (bin_hz (negb half && negb analytic) rate width k).
Proof.
  intros H0 Hlm Hmr Hr Hw Hk. unfold tri_freq_resp, bin_hz.
  destruct (tri_fr_shape rate (IZR width) left mid right 0) as (E1 & E2 & _). rewrite E1, E2.
  assert (Hrate : 0 < rate) by lra.
  apply (loop_result_spec rate left right width Hrate H0 ltac:(lra) Hr Hw
           (fun idx => tri_fr_res_idx rate (IZR width) left mid right (IZR idx)) (triangle left mid right)).
  - intros j Hj. destruct (tri_fr_shape rate (IZR width) left mid right (IZR j)) as (_ & _ & E3 & E4).
    rewrite E4, E3. symmetry. apply triangle_inside; lra.
  - intros x _ Hx. apply triangle_outside; lra.
  - destruct half; simpl; [discriminate | reflexivity].
  - exact Hk.
Qed.

(** * Fbank: square root of a triangle in mel *)
Lemma fbank_response_spec_l (analytic half : bool) rate left mid right (width k : Z) :
  0 <= left -> left < mid -> mid < right -> right <= rate / 2 ->
  (0 < width)%Z -> (0 <= k < dft_size half width)%Z ->
  fbank_freq_resp analytic half rate left mid right width k
  = sqrt (triangle (mel_h2s left) (mel_h2s mid) (mel_h2s right)
            (mel_h2s (bin_hz (negb half && negb analytic) rate width k))).
Proof.
  intros H0 Hlm Hmr Hr Hw Hk. unfold fbank_freq_resp, bin_hz.
  destruct (fbank_fr_shape rate (IZR width) left mid right 0) as (E1 & E2 & _). rewrite E1, E2.
  assert (Hrate : 0 < rate) by lra.
  assert (Mlm : mel_h2s left < mel_h2s mid) by (apply mel_h2s_incr_l; lra).
  assert (Mmr : mel_h2s mid < mel_h2s right) by (apply mel_h2s_incr_l; lra).
  assert (Mmono : forall a b, -700 < a -> a <= b -> mel_h2s a <= mel_h2s b).
  { intros a b Ha [Hab|Hab]; [left; apply mel_h2s_incr_l; lra | subst; lra]. }
  apply (loop_result_spec rate left right width Hrate H0 ltac:(lra) Hr Hw
           (fun idx => fbank_fr_res_idx rate (IZR width) left mid right (IZR idx))
           (fun x => sqrt (triangle (mel_h2s left) (mel_h2s mid) (mel_h2s right) (mel_h2s x)))).
  - intros j Hj. destruct (fbank_fr_shape rate (IZR width) left mid right (IZR j)) as (_ & _ & E3).
    rewrite E3. destruct (tri_fr_shape rate (IZR width) left mid right (IZR j)) as (_ & _ & E4 & _). rewrite E4.
    set (X := rate * IZR j / IZR width) in *. clearbody X. destruct Hj as [Hj1 Hj2].
    f_equal. symmetry. apply triangle_inside; try assumption. split; apply Mmono; lra.
  - intros x Hx0 Hx. rewrite triangle_outside; [apply sqrt_0 | assumption | assumption |].
    destruct Hx as [Hx|Hx]; [left | right]; left; apply mel_h2s_incr_l; lra.
  - destruct half; simpl; [discriminate | reflexivity].
  - exact Hk.
Qed.

(* hypotheses satisfiable, and a concrete bin: width 8, rate 16, vertices 2 < 4 < 6:
   bins 0..7 stand for 0,2,4,6,8(,6,4,2) Hz *)
Example tri_response_example :
  tri_freq_resp false false 16 2 4 6 8 2 = 1 /\ tri_freq_resp false false 16 2 4 6 8 6 = 1.
Proof.
  assert (D : dft_size false 8 = 8%Z) by reflexivity.
  assert (B2 : bin_hz (negb false && negb false) 16 8 2 = 4)
    by (unfold bin_hz; simpl negb; simpl andb; cbv iota; change (Z.min 2 (8 - 2)) with 2%Z; field).
  assert (B6 : bin_hz (negb false && negb false) 16 8 6 = 4)
    by (unfold bin_hz; simpl negb; simpl andb; cbv iota; change (Z.min 6 (8 - 6)) with 2%Z; field).
  split.
  - rewrite tri_response_spec_l by (try lra; try lia; rewrite D; lia). rewrite B2. apply triangle_peak; lra.
  - rewrite tri_response_spec_l by (try lra; try lia; rewrite D; lia). rewrite B6. apply triangle_peak; lra.
Qed.
