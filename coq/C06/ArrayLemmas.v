(* C06 - lemmas about the NumPy-array layer of Model.v: pointwise
   characterisation ([get]) of np.zeros, item assignment, slice reads and slice
   assignment, and an invariant rule for "for idx in range(a, b)" loops. *)
From Coq Require Import ZArith List Bool Lia ZifyBool.
From Verif Require Import C06.Model.
Import ListNotations.
Open Scope Z_scope.

Lemma zrange_nil a b : b <= a -> zrange a b = [].
Proof. intros H; unfold zrange. replace (Z.to_nat (b - a)) with 0%nat by lia. reflexivity. Qed.

Lemma zrange_cons a b : a < b -> zrange a b = a :: zrange (a + 1) b.
Proof.
  intros H; unfold zrange.
  replace (Z.to_nat (b - a)) with (S (Z.to_nat (b - (a + 1)))) by lia.
  cbn [seq map]. f_equal; [lia|].
  rewrite <- seq_shift, map_map. apply map_ext; intros; lia.
Qed.

Lemma zrange_length a b : length (zrange a b) = Z.to_nat (b - a).
Proof. unfold zrange; now rewrite map_length, seq_length. Qed.

Lemma zrange_nth a b k : (k < Z.to_nat (b - a))%nat -> nth k (zrange a b) 0 = a + Z.of_nat k.
Proof.
  intros H; unfold zrange.
  rewrite (nth_indep _ 0 (a + Z.of_nat 0)) by (now rewrite map_length, seq_length).
  pose proof (map_nth (fun k => a + Z.of_nat k) (seq 0 (Z.to_nat (b - a))) 0%nat k) as M.
  cbv beta in M. rewrite M, seq_nth by exact H. reflexivity.
Qed.

Lemma in_zrange a b x : In x (zrange a b) <-> a <= x < b.
Proof.
  unfold zrange; rewrite in_map_iff; split.
  - intros (k & <- & Hk). apply in_seq in Hk. lia.
  - intros H. exists (Z.to_nat (x - a)); split; [lia|]. apply in_seq. lia.
Qed.

Lemma zrange_app a b c : a <= b <= c -> zrange a c = zrange a b ++ zrange b c.
Proof.
  intros H. remember (Z.to_nat (b - a)) as n eqn:En. revert a En H.
  induction n; intros.
  - assert (a = b) by lia. subst. now rewrite (zrange_nil b b) by lia.
  - rewrite (zrange_cons a c), (zrange_cons a b) by lia. cbn. f_equal. apply IHn; lia.
Qed.

(* invariant rule for a monadic loop over range(a, b) *)
Lemma foldM_zrange_inv {S : Type} (f : S -> Z -> option S) (P : Z -> S -> Prop) :
  forall a b s0, a <= b -> P a s0 ->
    (forall t s, a <= t < b -> P t s -> exists s', f s t = Some s' /\ P (t + 1) s') ->
    exists s', foldM f (zrange a b) s0 = Some s' /\ P b s'.
Proof.
  intros a b s0 Hab. remember (Z.to_nat (b - a)) as n eqn:En. revert a s0 Hab En.
  induction n; intros a s0 Hab En H0 Hstep.
  - assert (a = b) by lia; subst. rewrite zrange_nil by lia. exists s0; auto.
  - rewrite zrange_cons by lia. cbn [foldM].
    destruct (Hstep a s0 ltac:(lia) H0) as (s1 & -> & H1).
    apply IHn; [lia | lia | exact H1 |]. intros; apply Hstep; [lia | assumption].
Qed.

Section ArrayLemmas.
  Context {V : Type}.
  Variable zero : V.
  Notation get := (get zero).
  Notation zeros := (zeros zero).

  Lemma len_nonneg (a : list V) : 0 <= len a.
  Proof. unfold len; lia. Qed.

  Lemma len_app (a b : list V) : len (a ++ b) = len a + len b.
  Proof. unfold len; rewrite app_length; lia. Qed.

  Lemma len_repeat (v : V) n : len (repeat v n) = Z.of_nat n.
  Proof. unfold len; now rewrite repeat_length. Qed.

  Lemma len_map {W} (f : V -> W) a : len (map f a) = len a.
  Proof. unfold len; now rewrite map_length. Qed.

  Lemma len_rev (a : list V) : len (rev a) = len a.
  Proof. unfold len; now rewrite rev_length. Qed.

  Lemma upd_length (a : list V) n v : length (upd a n v) = length a.
  Proof. revert n; induction a; destruct n; cbn; auto. Qed.

  Lemma len_upd (a : list V) n v : len (upd a n v) = len a.
  Proof. unfold len; now rewrite upd_length. Qed.

  Lemma nth_upd (a : list V) n m v :
    (n < length a)%nat -> nth m (upd a n v) zero = if Nat.eqb m n then v else nth m a zero.
  Proof.
    revert n m; induction a; intros n m H; cbn in H; [lia|].
    destruct n, m; cbn; auto. apply IHa; lia.
  Qed.

  Lemma get_upd (a : list V) k v j :
    0 <= k < len a -> 0 <= j ->
    get (upd a (Z.to_nat k) v) j = if j =? k then v else get a j.
  Proof.
    intros Hk Hj. unfold Model.get, len in *.
    destruct (j <? 0) eqn:E; [lia|].
    rewrite nth_upd by lia.
    destruct (Nat.eqb_spec (Z.to_nat j) (Z.to_nat k)); destruct (Z.eqb_spec j k); try lia; reflexivity.
  Qed.

  Lemma get_repeat_zero n j : get (repeat zero n) j = zero.
  Proof.
    unfold Model.get. destruct (j <? 0); [reflexivity|].
    generalize (Z.to_nat j) as m; induction n; intros m; destruct m; cbn; auto.
  Qed.

  Lemma get_outside (a : list V) j : len a <= j -> get a j = zero.
  Proof.
    intros H; unfold Model.get, len in *. destruct (j <? 0); [reflexivity|].
    apply nth_overflow; lia.
  Qed.

  Lemma get_neg (a : list V) j : j < 0 -> get a j = zero.
  Proof. intros H; unfold Model.get. destruct (j <? 0) eqn:E; [reflexivity | lia]. Qed.

  Lemma list_ext_get (a b : list V) :
    len a = len b -> (forall j, 0 <= j < len a -> get a j = get b j) -> a = b.
  Proof.
    intros Hl H. apply nth_ext with (d := zero) (d' := zero); [unfold len in Hl; lia|].
    intros n Hn. specialize (H (Z.of_nat n)). unfold Model.get, len in H.
    destruct (Z.of_nat n <? 0) eqn:E; [lia|]. rewrite Nat2Z.id in H. apply H; lia.
  Qed.

  Lemma zeros_spec n : 0 <= n ->
    exists a, zeros n = Some a /\ len a = n /\ forall j, get a j = zero.
  Proof.
    intros H; unfold Model.zeros. destruct (n <? 0) eqn:E; [lia|].
    eexists; split; [reflexivity|]; split; [rewrite len_repeat; lia | apply get_repeat_zero].
  Qed.

  Lemma get_app (a b : list V) j : 0 <= j ->
    get (a ++ b) j = if j <? len a then get a j else get b (j - len a).
  Proof.
    intros Hj; unfold Model.get, len.
    destruct (j <? 0) eqn:E; [lia|].
    destruct (j <? Z.of_nat (length a)) eqn:E1.
    - rewrite app_nth1 by lia. reflexivity.
    - destruct (j - Z.of_nat (length a) <? 0) eqn:E2; [lia|].
      rewrite app_nth2 by lia. f_equal; lia.
  Qed.

  Lemma nth_skipn' (a : list V) k n : nth n (skipn k a) zero = nth (k + n) a zero.
  Proof.
    revert a; induction k; intros a; [reflexivity|].
    destruct a; cbn; [destruct n; reflexivity | apply IHk].
  Qed.

  Lemma nth_firstn' (a : list V) k n : (n < k)%nat -> nth n (firstn k a) zero = nth n a zero.
  Proof.
    revert a n; induction k; intros a n H; [lia|].
    destruct a; cbn; [destruct n; reflexivity|]. destruct n; [reflexivity|]. apply IHk; lia.
  Qed.

  Lemma get_firstn (a : list V) k j : j < k -> get (firstn (Z.to_nat k) a) j = get a j.
  Proof.
    intros H; unfold Model.get. destruct (j <? 0) eqn:E; [reflexivity|].
    apply nth_firstn'; lia.
  Qed.

  Lemma get_skipn (a : list V) k j : 0 <= k -> 0 <= j ->
    get (skipn (Z.to_nat k) a) j = get a (k + j).
  Proof.
    intros Hk Hj; unfold Model.get.
    destruct (j <? 0) eqn:E; [lia|]. destruct (k + j <? 0) eqn:E2; [lia|].
    rewrite nth_skipn'. f_equal; lia.
  Qed.

  Lemma len_firstn (a : list V) k : 0 <= k <= len a -> len (firstn (Z.to_nat k) a) = k.
  Proof. intros H; unfold len in *; rewrite firstn_length; lia. Qed.

  Lemma len_skipn (a : list V) k : 0 <= k <= len a -> len (skipn (Z.to_nat k) a) = len a - k.
  Proof. intros H; unfold len in *; rewrite skipn_length; lia. Qed.

  Lemma get_rev (a : list V) j : 0 <= j < len a -> get (rev a) j = get a (len a - 1 - j).
  Proof.
    intros H; unfold Model.get, len in *.
    destruct (j <? 0) eqn:E; [lia|].
    destruct (Z.of_nat (length a) - 1 - j <? 0) eqn:E2; [lia|].
    rewrite rev_nth by lia. f_equal; lia.
  Qed.

  Lemma get_tl (a : list V) j : 0 <= j -> get (tl a) j = get a (j + 1).
  Proof.
    intros H; unfold Model.get.
    destruct (j <? 0) eqn:E; [lia|]. destruct (j + 1 <? 0) eqn:E2; [lia|].
    replace (Z.to_nat (j + 1)) with (S (Z.to_nat j)) by lia.
    destruct a; cbn; [destruct (Z.to_nat j); reflexivity | reflexivity].
  Qed.

  Lemma len_tl (a : list V) : len (tl a) = Z.max 0 (len a - 1).
  Proof. destruct a; unfold len; cbn [tl length]; lia. Qed.

  Lemma get_map (f : V -> V) (a : list V) j : 0 <= j < len a -> get (map f a) j = f (get a j).
  Proof.
    intros H; unfold Model.get, len in *. destruct (j <? 0) eqn:E; [lia|].
    rewrite (nth_indep _ zero (f zero)) by (rewrite map_length; lia). apply map_nth.
  Qed.

  (* item assignment *)
  Lemma set_item_spec (a : list V) i v k :
    norm_index (len a) i = Some k ->
    exists a', set_item a i v = Some a' /\ len a' = len a /\
               forall j, 0 <= j -> get a' j = if j =? k then v else get a j.
  Proof.
    intros Hn. unfold set_item. rewrite Hn. eexists; split; [reflexivity|].
    split; [apply len_upd|]. intros j Hj. apply get_upd; [|exact Hj].
    unfold norm_index in Hn.
    destruct ((0 <=? i) && (i <? len a)) eqn:E1; [inversion Hn; lia|].
    destruct ((i <? 0) && (0 <=? i + len a)) eqn:E2; [inversion Hn; lia | discriminate].
  Qed.

  Lemma norm_index_pos n i : 0 <= i < n -> norm_index n i = Some i.
  Proof. intros H; unfold norm_index. destruct ((0 <=? i) && (i <? n)) eqn:E; [reflexivity | lia]. Qed.

  Lemma norm_index_neg n i : - n <= i < 0 -> norm_index n i = Some (i + n).
  Proof.
    intros H; unfold norm_index.
    destruct ((0 <=? i) && (i <? n)) eqn:E; [lia|].
    destruct ((i <? 0) && (0 <=? i + n)) eqn:E2; [reflexivity | lia].
  Qed.

  (* slice read *)
  Lemma get_slice_spec (a : list V) s e :
    let st := slice_start (len a) s in
    let L := slice_len (len a) s e in
    0 <= st -> st + L <= len a ->
    len (get_slice a s e) = L /\
    forall j, 0 <= j < L -> get (get_slice a s e) j = get a (st + j).
  Proof.
    intros st L Hst HL. unfold get_slice. fold st L.
    assert (0 <= L) by (unfold L, slice_len; lia).
    split.
    - rewrite len_firstn; [reflexivity|]. rewrite len_skipn; lia.
    - intros j Hj. rewrite get_firstn by lia. apply get_skipn; lia.
  Qed.

  (* slice assignment with matching shapes *)
  Lemma set_slice_spec (a : list V) s e vals :
    let st := slice_start (len a) s in
    let L := slice_len (len a) s e in
    0 <= st -> st + L <= len a -> len vals = L ->
    exists a', set_slice a s e vals = Some a' /\ len a' = len a /\
      forall j, 0 <= j < len a ->
        get a' j = if (st <=? j) && (j <? st + L) then get vals (j - st) else get a j.
  Proof.
    intros st L Hst HL Hv. unfold set_slice. fold st L. rewrite Hv, Z.eqb_refl.
    assert (0 <= L) by (unfold L, slice_len; lia).
    eexists; split; [reflexivity|]. split.
    - rewrite !len_app, len_firstn, len_skipn by lia. lia.
    - intros j Hj. rewrite get_app by lia. rewrite len_firstn by lia.
      destruct (j <? st) eqn:E1.
      + rewrite get_firstn by lia. destruct ((st <=? j) && (j <? st + L)) eqn:E2; [lia | reflexivity].
      + rewrite get_app by lia. rewrite Hv.
        destruct (j - st <? L) eqn:E2.
        * destruct ((st <=? j) && (j <? st + L)) eqn:E3; [reflexivity | lia].
        * destruct ((st <=? j) && (j <? st + L)) eqn:E3; [lia|].
          rewrite get_skipn by lia. f_equal; lia.
  Qed.
End ArrayLemmas.
