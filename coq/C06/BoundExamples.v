(* C06 - the hypotheses of the 2*eps theorems are met by concrete filters. *)
From Coq Require Import Reals ZArith Lra Lia.
From Interval Require Import Tactic.
From Verif Require Import C06.Model C06.ModelR.
Open Scope R_scope.

(* a Gabor filter with std 2 (rad^-1) centred at 1 rad, threshold 5e-4 *)
Example gabor_hypotheses_example :
  let l2 := false in let sigma := 2 in let eps := 5 / 10000 in
  0 < sigma /\ 0 < eps /\ 0 < gabor_T l2 eps sigma /\ 1 <= gabor_T l2 eps sigma + ln 2 /\
  ~ gabor_whole_period l2 eps sigma /\ 0 <= 1 <= PI.
Proof.
  cbv zeta. unfold gabor_whole_period, gabor_wd, gabor_T.
  repeat split; try lra; try interval.
  apply Rlt_not_ge. interval.
Qed.

(* the same with scale_l2_norm=True *)
Example gabor_l2_hypotheses_example :
  let l2 := true in let sigma := 3 in let eps := 5 / 10000 in
  0 < gabor_T l2 eps sigma /\ 1 <= gabor_T l2 eps sigma + ln 2 /\ ~ gabor_whole_period l2 eps sigma.
Proof.
  cbv zeta. unfold gabor_whole_period, gabor_wd, gabor_T.
  repeat split; try interval.
  apply Rlt_not_ge. interval.
Qed.

(* an order-4 gammatone with alpha = 0.1, peak gain 1 (c = alpha^4 / 3!) *)
Example gammatone_hypotheses_example :
  let n := 4%nat in let alpha := 1 / 10 in let cc := (1 / 10) ^ 4 / 6 in let eps := 5 / 10000 in
  (1 <= n)%nat /\ 0 < alpha /\ 0 < cc /\ 0 < eps /\
  alpha ^ 2 < exp (gt_supp_a n cc eps) /\ ~ gt_whole_period n alpha cc eps.
Proof.
  cbv zeta. unfold gt_whole_period, gt_d, gt_wd, gt_supp_a. cbn [fact Nat.sub Nat.mul Nat.add INR].
  repeat split; try lia; try lra; try interval.
  apply Rlt_not_ge. interval.
Qed.
