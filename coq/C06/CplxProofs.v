(* C06 - Gabor / gammatone (and the analytic triangular banks): what the
   complex recipe rebuilds, and how it differs from the full response.  All
   statements are over an abstract commutative monoid of values (V, add, zero)
   and an arbitrary single-image function F on unrolled bin numbers. *)
From Coq Require Import ZArith List Bool Lia ZifyBool.
From Verif Require Import C06.Model C06.ArrayLemmas C06.TriProofs.
Import ListNotations.
Open Scope Z_scope.
Ltac Zify.zify_post_hook ::= Z.to_euclidean_division_equations.

Lemma clip_nonneg n i : 0 <= i -> clip n i = Z.min i n.
Proof. intros H; unfold clip. destruct (i <? 0) eqn:E; lia. Qed.

Lemma mod_shift_cases k b w :
  0 <= k < w -> 0 <= b < w -> (k - b) mod w = if b <=? k then k - b else k - b + w.
Proof.
  intros Hk Hb. destruct (b <=? k) eqn:E.
  - apply Z.mod_small; lia.
  - symmetry. apply Z.mod_unique with (q := -1); lia.
Qed.

Section RebuildComplex.
  Context {V : Type}.
  Variable zero : V.
  Notation get := (get zero).

  (** ** the complex recipe places the truncated response circularly *)
  Lemma rebuild_complex_spec (w b : Z) (t : list V) :
    0 <= b < w -> len t <= w ->
    exists r, rebuild_complex zero w b t = Some r /\ len r = w /\
      forall k, 0 <= k < w ->
        get r k = if (k - b) mod w <? len t then get t ((k - b) mod w) else zero.
  Proof.
    intros Hb Ht. unfold rebuild_complex.
    pose proof (len_nonneg t) as Ht0.
    destruct (zeros_spec zero w ltac:(lia)) as (f0 & -> & Hl0 & Hg0).
    set (wrap := Z.min (b + len t) w - b).
    assert (Hwrap : 0 <= wrap <= len t /\ b + wrap <= w) by (unfold wrap; lia).
    (* trnc[:wrap] *)
    destruct (get_slice_spec zero t None (Some wrap)) as (Hls1 & Hgs1).
    { cbn [slice_start]; lia. }
    { unfold slice_len; cbn [slice_start slice_stop]. rewrite clip_nonneg by lia. lia. }
    assert (L1 : slice_len (len t) None (Some wrap) = wrap)
      by (unfold slice_len; cbn [slice_start slice_stop]; rewrite clip_nonneg by lia; lia).
    cbn [slice_start] in Hgs1. rewrite L1 in *.
    set (t1 := get_slice t None (Some wrap)) in *.
    (* full[bin_idx:bin_idx + wrap] = ... *)
    assert (S2 : slice_start (len f0) (Some b) = b)
      by (cbn [slice_start]; rewrite clip_nonneg by lia; lia).
    assert (L2 : slice_len (len f0) (Some b) (Some (b + wrap)) = wrap)
      by (unfold slice_len; cbn [slice_start slice_stop]; rewrite !clip_nonneg by lia; lia).
    destruct (set_slice_spec zero f0 (Some b) (Some (b + wrap)) t1) as (f1 & -> & Hl1 & Hg1);
      [rewrite S2; lia | rewrite S2, L2; lia | rewrite L2; exact Hls1 |].
    rewrite S2, L2 in Hg1.
    (* trnc[wrap:] *)
    assert (S3 : slice_start (len t) (Some wrap) = wrap)
      by (cbn [slice_start]; rewrite clip_nonneg by lia; lia).
    assert (L3 : slice_len (len t) (Some wrap) None = len t - wrap)
      by (unfold slice_len; cbn [slice_start slice_stop]; rewrite clip_nonneg by lia; lia).
    destruct (get_slice_spec zero t (Some wrap) None) as (Hls3 & Hgs3);
      [rewrite S3; lia | rewrite S3, L3; lia |].
    rewrite S3, L3 in *.
    set (t2 := get_slice t (Some wrap) None) in *.
    (* full[:len(trnc) - wrap] = ... *)
    assert (L4 : slice_len (len f1) None (Some (len t - wrap)) = len t - wrap)
      by (unfold slice_len; cbn [slice_start slice_stop]; rewrite clip_nonneg by lia; lia).
    destruct (set_slice_spec zero f1 None (Some (len t - wrap)) t2) as (f2 & -> & Hl2 & Hg2);
      [cbn [slice_start]; lia | cbn [slice_start]; rewrite L4; lia | rewrite L4; exact Hls3 |].
    cbn [slice_start] in Hg2. rewrite L4 in Hg2.
    exists f2; split; [reflexivity|]. split; [lia|].
    intros k Hk. rewrite Hg2 by lia. rewrite mod_shift_cases by lia.
    destruct ((0 <=? k) && (k <? 0 + (len t - wrap))) eqn:E.
    - rewrite Hgs3 by lia. unfold wrap in *.
      destruct (b <=? k) eqn:E1; ifs; try lia; f_equal; lia.
    - rewrite Hg1 by lia.
      destruct ((b <=? k) && (k <? b + wrap)) eqn:E1.
      + rewrite Hgs1 by lia. unfold wrap in *.
        destruct (b <=? k) eqn:E2; ifs; try lia; f_equal; lia.
      + rewrite Hg0. unfold wrap in *.
        destruct (b <=? k) eqn:E2; ifs; try reflexivity; lia.
  Qed.

  Lemma get_map_zrange (f : Z -> V) a b j :
    0 <= j < b - a -> get (map f (zrange a b)) j = f (a + j).
  Proof.
    intros H. unfold Model.get. destruct (j <? 0) eqn:E; [lia|].
    rewrite (nth_indep _ zero (f 0)) by (rewrite map_length, zrange_length; lia).
    rewrite map_nth. rewrite zrange_nth by lia. f_equal; lia.
  Qed.

  Lemma len_map_zrange (f : Z -> V) a b : a <= b -> len (map f (zrange a b)) = b - a.
  Proof. intros H; unfold len. rewrite map_length, zrange_length. lia. Qed.

  (** ** analytic triangular / Fbank banks: the complex recipe is exact *)
  Lemma rebuild_analytic_exact_l (val : Z -> V) fbank w li ri :
    0 <= li <= ri + 1 -> 2 * ri <= w -> 2 <= w -> li < w ->
    exists t f, tri_trunc zero fbank w li ri val = Some (li, t) /\
                tri_full zero w li ri true false val = Some f /\
                rebuild_complex zero w li t = Some f.
  Proof.
    intros Hli Hri Hw Hlw.
    destruct (tri_trunc_spec zero val fbank w li ri Hli Hri ltac:(lia)) as (t & Ht & Hlt & Hgt).
    destruct (tri_full_spec zero val w li ri true ltac:(lia) Hri ltac:(lia)) as (f & Hf & Hlf & Hgf).
    exists t, f; repeat split; auto.
    destruct (rebuild_complex_spec w li t ltac:(lia) ltac:(lia)) as (r & -> & Hlr & Hgr).
    f_equal. apply (list_ext_get zero); [lia|].
    intros k Hk. rewrite Hlr in Hk. rewrite Hgr, Hgf by lia.
    rewrite mod_shift_cases by lia. unfold full_spec. cbn [negb andb]. rewrite Hlt.
    destruct (li <=? k) eqn:E1.
    - destruct (k - li <? ri + 1 - li) eqn:E2.
      + rewrite Hgt by lia. ifs; try lia; f_equal; lia.
      + ifs; try reflexivity; lia.
    - ifs; try reflexivity; lia.
  Qed.
End RebuildComplex.

(* ------------------------------------------------------------------ *)
(** * Unrolled bin numbers (pure integer facts) *)

(* the unrolled bin numbers whose images make up one value *)
Definition img_list (w plo phi n : Z) : list Z := map (fun p => n + w * p) (zrange plo phi).

Lemma img_list_split w plo pm phi n :
  plo <= pm <= phi -> img_list w plo phi n = img_list w plo pm n ++ img_list w pm phi n.
Proof. intros H; unfold img_list. rewrite (zrange_app plo pm phi H). apply map_app. Qed.

Lemma zrange_shift a b q : zrange (a + q) (b + q) = map (fun p => p + q) (zrange a b).
Proof.
  unfold zrange. replace (b + q - (a + q)) with (b - a) by lia.
  rewrite map_map. apply map_ext; intros; lia.
Qed.

Lemma img_list_shift w plo phi n q :
  img_list w plo phi (n + w * q) = img_list w (plo + q) (phi + q) n.
Proof.
  unfold img_list. rewrite zrange_shift, map_map. apply map_ext; intros; lia.
Qed.

Lemma in_img_list w plo phi n x :
  In x (img_list w plo phi n) <-> exists p, plo <= p < phi /\ x = n + w * p.
Proof.
  unfold img_list. rewrite in_map_iff. split.
  - intros (p & <- & Hp). apply in_zrange in Hp. eauto.
  - intros (p & Hp & ->). exists p; split; [reflexivity | now apply in_zrange].
Qed.

(* the representative of residue class k in the window [li, li + w) *)
Definition rep (w li k : Z) : Z := li + (k - li) mod w.

Lemma rep_spec w li k : 0 < w -> li <= rep w li k < li + w /\ (rep w li k - k) mod w = 0.
Proof.
  intros Hw. unfold rep. pose proof (Z.mod_pos_bound (k - li) w Hw). split; [lia|].
  replace (li + (k - li) mod w - k) with ((k - li) mod w - (k - li)) by lia.
  pose proof (Z.div_mod (k - li) w ltac:(lia)) as D.
  replace ((k - li) mod w - (k - li)) with ((- ((k - li) / w)) * w) by lia.
  apply Z.mod_mul; lia.
Qed.

(* period offset of the retained representative *)
Definition qof (w li k : Z) : Z := (rep w li k - k) / w.

Lemma rep_as_shift w li k : 0 < w -> rep w li k = k + w * qof w li k.
Proof.
  intros Hw. unfold qof. destruct (rep_spec w li k Hw) as [_ Hm].
  pose proof (Z.div_mod (rep w li k - k) w ltac:(lia)). lia.
Qed.

(* unrolled bins summed by the full response but not by the rebuilt one *)
Definition resid_list (w li ri tlo thi flo fhi k : Z) : list Z :=
  if rep w li k <=? ri then
    img_list w flo (tlo + qof w li k) k ++ img_list w (thi + qof w li k) fhi k
  else img_list w flo fhi k.

(* every residual image is congruent to k and lies outside [li, ri], provided
   the retained bin contributes the single image 0 (gammatone always;
   Gabor when its period range is range(0, 1)) *)
Lemma resid_outside w li ri flo fhi k x :
  1 <= w -> li <= ri + 1 -> ri + 1 - li <= w -> 0 <= k < w ->
  (rep w li k <= ri -> flo <= qof w li k /\ 1 + qof w li k <= fhi) ->
  In x (resid_list w li ri 0 1 flo fhi k) ->
  (exists p, flo <= p < fhi /\ x = k + w * p /\
             (rep w li k <= ri -> p <> qof w li k)) /\ ~ (li <= x <= ri).
Proof.
  intros Hw Hne Hle Hk Hper Hin. unfold resid_list in Hin.
  destruct (rep_spec w li k ltac:(lia)) as [R1 R2].
  pose proof (rep_as_shift w li k ltac:(lia)) as R3.
  assert (Huniq : forall p, li <= k + w * p <= ri -> k + w * p = rep w li k).
  { intros p Hp. rewrite R3. rewrite R3 in R1. set (q := qof w li k) in *.
    assert (Hd : - w < w * (p - q) < w) by lia.
    assert (p - q = 0) by nia. f_equal. f_equal. lia. }
  destruct (rep w li k <=? ri) eqn:E.
  - destruct (Hper ltac:(lia)) as [P1 P2].
    apply in_app_or in Hin. destruct Hin as [Hin | Hin]; apply in_img_list in Hin;
      destruct Hin as (p & Hp & ->).
    + split; [exists p; repeat split; lia|].
      intros Hc. apply Huniq in Hc. rewrite R3 in Hc. nia.
    + split; [exists p; repeat split; lia|].
      intros Hc. apply Huniq in Hc. rewrite R3 in Hc. nia.
  - apply in_img_list in Hin. destruct Hin as (p & Hp & ->).
    split; [exists p; repeat split; lia|]. intros Hc. pose proof (Huniq p Hc). lia.
Qed.

(* ------------------------------------------------------------------ *)
Section ImagesPlain.
  Context {V : Type}.
  Variable zero : V.
  Variable add : V -> V -> V.
  Notation get := (get zero).
  Notation img_sum := (img_sum zero add).

  Lemma cplx_rebuilt_spec gammatone w li ri F tlo thi flo fhi :
    1 <= w -> li <= ri + 1 -> ri + 1 - li <= w ->
    exists t r,
      cplx_trunc zero add gammatone false w li ri F tlo thi flo fhi = Some (li mod w, t) /\
      len t = ri + 1 - li /\ 0 <= li mod w < w /\
      rebuild_complex zero w (li mod w) t = Some r /\ len r = w /\
      forall k, 0 <= k < w ->
        get r k = if rep w li k <=? ri then img_sum w F tlo thi (rep w li k) else zero.
  Proof.
    intros Hw Hne Hle. unfold cplx_trunc.
    replace (negb gammatone && (1 + ri - li <? 0)) with false
      by (destruct gammatone; cbn [negb andb]; try reflexivity; lia).
    set (t := map (img_sum w F tlo thi) (zrange li (ri + 1))).
    assert (Hlt : len t = ri + 1 - li) by (unfold t; apply len_map_zrange; lia).
    pose proof (Z.mod_pos_bound li w ltac:(lia)) as Hb.
    destruct (rebuild_complex_spec zero w (li mod w) t Hb ltac:(lia)) as (r & Hr & Hlr & Hgr).
    exists t, r. repeat split; auto; try lia.
    intros k Hk. rewrite Hgr by lia.
    rewrite Zminus_mod_idemp_r. unfold rep. rewrite Hlt.
    pose proof (Z.mod_pos_bound (k - li) w ltac:(lia)).
    destruct ((k - li) mod w <? ri + 1 - li) eqn:E.
    - unfold t. rewrite get_map_zrange by lia. ifs; try reflexivity; lia.
    - ifs; try reflexivity; lia.
  Qed.

  Lemma cplx_full_spec w F flo fhi k :
    0 <= k < w -> get (cplx_full zero add w false F flo fhi) k = img_sum w F flo fhi k.
  Proof.
    intros Hk. unfold cplx_full. cbn [dft_size].
    rewrite get_map_zrange by lia. f_equal; lia.
  Qed.

  Lemma cplx_full_len w half F flo fhi :
    0 <= w -> len (cplx_full zero add w half F flo fhi) = dft_size w half.
  Proof.
    intros Hw. unfold cplx_full. rewrite len_map_zrange; [lia|].
    unfold dft_size. destruct half; [destruct (w mod 2 =? 0)|]; lia.
  Qed.

  (** ** half=True is a prefix of the full response *)
  Lemma cplx_half_is_prefix_l w F flo fhi :
    1 <= w ->
    cplx_full zero add w true F flo fhi =
    firstn (Z.to_nat (doc_half_len w)) (cplx_full zero add w false F flo fhi) /\
    len (cplx_full zero add w true F flo fhi) = doc_half_len w.
  Proof.
    intros Hw. rewrite doc_half_len_eq by lia.
    pose proof (dft_size_half w ltac:(lia)) as Hd.
    split; [|apply cplx_full_len; lia].
    apply (list_ext_get zero).
    - rewrite len_firstn; rewrite !cplx_full_len by lia;
        change (dft_size w false) with w; lia.
    - intros j Hj. rewrite cplx_full_len in Hj by lia.
      rewrite get_firstn by lia. unfold cplx_full.
      change (dft_size w false) with w.
      rewrite !get_map_zrange by lia. reflexivity.
  Qed.

  (** ** whole-period fallback: the recipe returns the full response unchanged *)
  Lemma cplx_fallback_exact_l gammatone w li ri F tlo thi flo fhi :
    1 <= w ->
    cplx_trunc zero add gammatone true w li ri F tlo thi flo fhi
      = Some (0, cplx_full zero add w false F flo fhi) /\
    rebuild_complex zero w 0 (cplx_full zero add w false F flo fhi)
      = Some (cplx_full zero add w false F flo fhi).
  Proof.
    intros Hw. split; [reflexivity|].
    set (f := cplx_full zero add w false F flo fhi).
    assert (Hlf : len f = w) by (unfold f; rewrite cplx_full_len by lia; reflexivity).
    destruct (rebuild_complex_spec zero w 0 f ltac:(lia) ltac:(lia)) as (r & -> & Hlr & Hgr).
    f_equal. apply (list_ext_get zero); [lia|].
    intros k Hk. rewrite Hgr by lia. rewrite Z.sub_0_r, Z.mod_small by lia.
    rewrite Hlf. ifs; try reflexivity; lia.
  Qed.

End ImagesPlain.

Section Images.
  Context {V : Type}.
  Variable zero : V.
  Variable add : V -> V -> V.
  Hypothesis add_assoc : forall a b c, add a (add b c) = add (add a b) c.
  Hypothesis add_comm : forall a b, add a b = add b a.
  Hypothesis add_0_l : forall a, add zero a = a.
  Notation get := (get zero).
  Notation img_sum := (img_sum zero add).

  Definition sumV (l : list V) : V := fold_left add l zero.

  Lemma add_0_r a : add a zero = a.
  Proof. rewrite add_comm. apply add_0_l. Qed.

  Lemma fold_add_acc (l : list V) (acc : V) : fold_left add l acc = add acc (sumV l).
  Proof.
    unfold sumV. revert acc. induction l; intros acc; cbn.
    - now rewrite add_0_r.
    - rewrite IHl, (IHl (add zero a)), add_0_l. apply eq_sym, add_assoc.
  Qed.

  Lemma sumV_app (a b : list V) : sumV (a ++ b) = add (sumV a) (sumV b).
  Proof. unfold sumV at 1. rewrite fold_left_app. apply fold_add_acc. Qed.

  Lemma sumV_cons x l : sumV (x :: l) = add x (sumV l).
  Proof. unfold sumV at 1. cbn. rewrite fold_add_acc, add_0_l. reflexivity. Qed.

  Lemma img_sum_sumV w F plo phi n :
    img_sum w F plo phi n = sumV (map F (img_list w plo phi n)).
  Proof.
    unfold Model.img_sum, sumV, img_list. rewrite map_map.
    generalize zero. induction (zrange plo phi); intros acc; cbn; [reflexivity | apply IHl].
  Qed.

  (** ** the rebuilt response, bin by bin *)

  (** ** full = rebuilt + residual images, all of which lie outside [li, ri] *)

  Theorem cplx_residual_l gammatone w li ri F tlo thi flo fhi :
    1 <= w -> li <= ri + 1 -> ri + 1 - li <= w -> tlo <= thi ->
    (* the images summed for a retained bin are among those of the full response *)
    (forall k, 0 <= k < w -> rep w li k <= ri ->
               flo <= tlo + qof w li k /\ thi + qof w li k <= fhi) ->
    flo <= fhi ->
    exists t r,
      cplx_trunc zero add gammatone false w li ri F tlo thi flo fhi = Some (li mod w, t) /\
      rebuild_complex zero w (li mod w) t = Some r /\
      forall k, 0 <= k < w ->
        get (cplx_full zero add w false F flo fhi) k =
        add (get r k) (sumV (map F (resid_list w li ri tlo thi flo fhi k))).
  Proof.
    intros Hw Hne Hle Ht Hper Hf.
    destruct (cplx_rebuilt_spec zero add gammatone w li ri F tlo thi flo fhi Hw Hne Hle)
      as (t & r & Htr & Hlt & Hb & Hr & Hlr & Hgr).
    exists t, r; repeat split; auto.
    intros k Hk. rewrite (cplx_full_spec zero add), Hgr by lia. unfold resid_list.
    destruct (rep w li k <=? ri) eqn:E.
    - destruct (Hper k Hk ltac:(lia)) as [P1 P2].
      rewrite (rep_as_shift w li k) at 1 by lia.
      rewrite !img_sum_sumV. rewrite img_list_shift.
      rewrite (img_list_split w flo (tlo + qof w li k) fhi k) by lia.
      rewrite (img_list_split w (tlo + qof w li k) (thi + qof w li k) fhi k) by lia.
      rewrite !map_app, !sumV_app.
      set (A := sumV (map F (img_list w flo (tlo + qof w li k) k))).
      set (B := sumV (map F (img_list w (tlo + qof w li k) (thi + qof w li k) k))).
      set (C := sumV (map F (img_list w (thi + qof w li k) fhi k))).
      rewrite (add_comm A (add B C)). rewrite <- !add_assoc. f_equal. apply add_comm.
    - rewrite add_0_l. apply img_sum_sumV.
  Qed.

End Images.
