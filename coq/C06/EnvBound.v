(* C06 - abstract 2*eps bound.  A single-image response whose magnitude is
   bounded by a non-increasing envelope [env] of the angular distance to the
   centre c, with env d <= eps at the support half-width d, env wd <= k2 at the
   "wrap" half-width wd < pi, env (2 pi) <= k3, k2 <= eps and k2 + k3 <= eps:
   then the images of a bin that the rebuilt response lacks sum to <= 2 eps. *)
From Coq Require Import Reals ZArith List Lia Lra.
From Verif Require Import C06.Model C06.CplxProofs C06.ModelR.
Import ListNotations.
Open Scope R_scope.

Lemma IZR_w_pos w : (1 <= w)%Z -> 0 < IZR w.
Proof. intros H. apply (IZR_lt 0). lia. Qed.

Lemma bin_angle_shift w k p :
  (1 <= w)%Z -> bin_angle w (k + w * p) = bin_angle w k + 2 * PI * IZR p.
Proof.
  intros Hw. pose proof (IZR_w_pos w Hw). unfold bin_angle.
  rewrite plus_IZR, mult_IZR. field. lra.
Qed.

Lemma bin_angle_range w k : (1 <= w)%Z -> (0 <= k < w)%Z -> 0 <= bin_angle w k < 2 * PI.
Proof.
  intros Hw [Hk1 Hk2]. pose proof (IZR_w_pos w Hw) as Hp. pose proof PI_RGT_0 as Hpi.
  apply IZR_le in Hk1. apply IZR_lt in Hk2. unfold bin_angle.
  assert (0 <= IZR k / IZR w < 1).
  { split.
    - apply Rmult_le_pos; [lra | left; apply Rinv_0_lt_compat; lra].
    - apply (Rmult_lt_reg_r (IZR w)); [lra|]. unfold Rdiv. rewrite Rmult_assoc, Rinv_l by lra. lra. }
  split; nra.
Qed.

Section EnvBound.
  Variables (c d wd eps k2 k3 : R) (env : R -> R).
  Hypothesis Hc : 0 <= c <= PI.
  Hypothesis Hd : 0 < d.
  Hypothesis Hdw : d <= wd.
  Hypothesis Hwd : wd < PI.
  Hypothesis env_mono : forall x y, 0 <= x -> x <= y -> env y <= env x.
  Hypothesis env_pos : forall x, 0 <= env x.
  Hypothesis E1 : env d <= eps.
  Hypothesis E2 : env wd <= k2.
  Hypothesis E3 : env (2 * PI) <= k3.
  Hypothesis K2 : k2 <= eps.
  Hypothesis K23 : k2 + k3 <= eps.

  Lemma env_le_eps x : d <= x -> env x <= eps.
  Proof. intros H. apply Rle_trans with (env d); [apply env_mono; lra | exact E1]. Qed.
  Lemma env_le_k2 x : wd <= x -> env x <= k2.
  Proof. intros H. apply Rle_trans with (env wd); [apply env_mono; lra | exact E2]. Qed.
  Lemma env_le_k3 x : 2 * PI <= x -> env x <= k3.
  Proof.
    intros H. pose proof PI_RGT_0.
    apply Rle_trans with (env (2 * PI)); [apply env_mono; lra | exact E3].
  Qed.

  (* distance of image p of the angle theta to the centre *)
  Definition D (theta : R) (p : Z) : R := Rabs (theta + 2 * PI * IZR p - c).

  Lemma no_image_inside theta :
    0 <= theta < 2 * PI ->
    d < D theta (-1) -> d < D theta 0 -> d < D theta 1 ->
    env (D theta (-1)) + env (D theta 0) + env (D theta 1) <= eps + k2 + k3.
  Proof.
    intros Ht. unfold D. pose proof PI_RGT_0 as Hpi.
    replace (theta + 2 * PI * -1 - c) with (theta - c - 2 * PI) by ring.
    replace (theta + 2 * PI * 0 - c) with (theta - c) by ring.
    replace (theta + 2 * PI * 1 - c) with (theta - c + 2 * PI) by ring.
    set (u := theta - c). assert (Hu : - PI <= u < 2 * PI) by (unfold u; lra).
    destruct (Rlt_le_dec u 0) as [U0 | U0]; [|destruct (Rle_lt_dec u PI) as [U1 | U1]].
    - (* u in [-pi, 0) *)
      rewrite (Rabs_left (u - 2 * PI)), (Rabs_left u), (Rabs_right (u + 2 * PI)) by lra.
      intros A B C0.
      pose proof (env_le_k3 (- (u - 2 * PI)) ltac:(lra)).
      pose proof (env_le_eps (- u) ltac:(lra)).
      pose proof (env_le_k2 (u + 2 * PI) ltac:(lra)). lra.
    - (* u in [0, pi] *)
      rewrite (Rabs_left (u - 2 * PI)), (Rabs_right u), (Rabs_right (u + 2 * PI)) by lra.
      intros A B C0.
      pose proof (env_le_k2 (- (u - 2 * PI)) ltac:(lra)).
      pose proof (env_le_eps u ltac:(lra)).
      pose proof (env_le_k3 (u + 2 * PI) ltac:(lra)). lra.
    - (* u in (pi, 2 pi) *)
      rewrite (Rabs_left (u - 2 * PI)), (Rabs_right u), (Rabs_right (u + 2 * PI)) by lra.
      intros A B C0.
      pose proof (env_le_eps (- (u - 2 * PI)) ltac:(lra)).
      pose proof (env_le_k2 u ltac:(lra)).
      pose proof (env_le_k3 (u + 2 * PI) ltac:(lra)). lra.
  Qed.

  Lemma other_image_far theta (q p : Z) :
    D theta q <= d -> p <> q -> env (D theta p) <= k2.
  Proof.
    intros Hq Hpq. apply env_le_k2. unfold D in *. pose proof PI_RGT_0 as Hpi.
    assert (Hdist : 1 <= Rabs (IZR p - IZR q)).
    { rewrite <- minus_IZR. rewrite <- abs_IZR. apply (IZR_le 1). lia. }
    replace (theta + 2 * PI * IZR p - c)
      with ((theta + 2 * PI * IZR q - c) + 2 * PI * (IZR p - IZR q)) by ring.
    set (a := theta + 2 * PI * IZR q - c) in *. set (b := IZR p - IZR q) in *.
    assert (2 * PI <= Rabs (2 * PI * b)).
    { rewrite Rabs_mult, (Rabs_right (2 * PI)) by lra. nra. }
    pose proof (Rabs_triang_inv (2 * PI * b) (- a)) as T.
    rewrite Rabs_Ropp in T. replace (2 * PI * b - - a) with (a + 2 * PI * b) in T by ring.
    lra.
  Qed.
End EnvBound.

(* ------------------------------------------------------------------ *)
Lemma fold_Rplus_acc (l : list R) (a : R) : fold_left Rplus l a = a + fold_left Rplus l 0.
Proof.
  revert a; induction l; intros a0; cbn; [lra|]. rewrite IHl, (IHl (0 + a)). lra.
Qed.

Lemma sum_le_len {A} (f : A -> R) (L : list A) (M : R) :
  (forall x, In x L -> f x <= M) -> fold_left Rplus (map f L) 0 <= INR (length L) * M.
Proof.
  induction L; intros H; [cbn; lra|].
  cbn [map fold_left length]. rewrite fold_Rplus_acc, S_INR.
  pose proof (H a (or_introl eq_refl)). specialize (IHL (fun x Hx => H x (or_intror Hx))). lra.
Qed.

Lemma sum_le_pointwise {A} (f g : A -> R) (L : list A) :
  (forall x, In x L -> f x <= g x) ->
  fold_left Rplus (map f L) 0 <= fold_left Rplus (map g L) 0.
Proof.
  induction L; intros H; [cbn; lra|].
  cbn [map fold_left]. rewrite fold_Rplus_acc, (fold_Rplus_acc _ (0 + g a)).
  pose proof (H a (or_introl eq_refl)). specialize (IHL (fun x Hx => H x (or_intror Hx))). lra.
Qed.

Lemma img_list_length w a b k : length (img_list w a b k) = Z.to_nat (b - a).
Proof. unfold img_list. rewrite map_length. apply ArrayLemmas.zrange_length. Qed.

Lemma img_list_m1_2 w k : img_list w (-1) 2 k = [k + w * -1; k + w * 0; k + w * 1]%Z.
Proof. reflexivity. Qed.
Lemma img_list_m1_1 w k : img_list w (-1) 1 k = [k + w * -1; k + w * 0]%Z.
Proof. reflexivity. Qed.
Lemma img_list_0_2 w k : img_list w 0 2 k = [k + w * 0; k + w * 1]%Z.
Proof. reflexivity. Qed.
Lemma img_list_0_1 w k : img_list w 0 1 k = [k + w * 0]%Z.
Proof. reflexivity. Qed.

Section ResidBound.
  Variables (w li ri : Z) (c d wd eps k2 k3 : R) (env : R -> R).
  Hypothesis Hw : (1 <= w)%Z.
  Hypothesis Hc : 0 <= c <= PI.
  Hypothesis Hd : 0 < d.
  Hypothesis Hdw : d <= wd.
  Hypothesis Hwd : wd < PI.
  Hypothesis env_mono : forall x y, 0 <= x -> x <= y -> env y <= env x.
  Hypothesis env_pos : forall x, 0 <= env x.
  Hypothesis E1 : env d <= eps.
  Hypothesis E2 : env wd <= k2.
  Hypothesis E3 : env (2 * PI) <= k3.
  Hypothesis K2 : k2 <= eps.
  Hypothesis K23 : k2 + k3 <= eps.
  (* left_idx = ceil(width * (c - d) / 2pi), right_idx = floor(width * (c + d) / 2pi) *)
  Hypothesis Hli : IZR li - 1 < IZR w * (c - d) / (2 * PI) <= IZR li.
  Hypothesis Hri : IZR ri <= IZR w * (c + d) / (2 * PI) < IZR ri + 1.

  Let s : R := 2 * PI / IZR w.

  Lemma s_pos : 0 < s.
  Proof.
    unfold s. pose proof PI_RGT_0. pose proof (IZR_w_pos w Hw).
    apply Rmult_lt_0_compat; [lra | apply Rinv_0_lt_compat; lra].
  Qed.

  Lemma bin_angle_s n : bin_angle w n = IZR n * s.
  Proof. unfold bin_angle, s. pose proof (IZR_w_pos w Hw). field. lra. Qed.

  Lemma edge_lo : IZR w * (c - d) / (2 * PI) * s = c - d.
  Proof. unfold s. pose proof (IZR_w_pos w Hw). pose proof PI_RGT_0. field. lra. Qed.
  Lemma edge_hi : IZR w * (c + d) / (2 * PI) * s = c + d.
  Proof. unfold s. pose proof (IZR_w_pos w Hw). pose proof PI_RGT_0. field. lra. Qed.

  Lemma inside_close n : (li <= n <= ri)%Z -> Rabs (bin_angle w n - c) <= d.
  Proof.
    intros [H1 H2]. apply IZR_le in H1, H2. rewrite bin_angle_s.
    pose proof s_pos as Hs. pose proof edge_lo as EL. pose proof edge_hi as EH.
    set (X := IZR w * (c - d) / (2 * PI)) in *. set (Y := IZR w * (c + d) / (2 * PI)) in *.
    apply Rabs_le. split; nra.
  Qed.

  Lemma outside_far n : ~ (li <= n <= ri)%Z -> d < Rabs (bin_angle w n - c).
  Proof.
    intros H. rewrite bin_angle_s.
    pose proof s_pos as Hs. pose proof edge_lo as EL. pose proof edge_hi as EH.
    set (X := IZR w * (c - d) / (2 * PI)) in *. set (Y := IZR w * (c + d) / (2 * PI)) in *.
    destruct (Z_lt_le_dec n li) as [L | L].
    - assert (IZR n <= IZR li - 1) by (rewrite <- minus_IZR; apply IZR_le; lia).
      rewrite Rabs_left; nra.
    - assert (R0 : (ri < n)%Z) by lia.
      assert (IZR ri + 1 <= IZR n) by (rewrite <- plus_IZR; apply IZR_le; lia).
      rewrite Rabs_right; nra.
  Qed.

  (* consequences for the integer window *)
  Lemma window_facts : (li <= ri + 1 /\ ri + 1 - li <= w /\ - w < li /\ ri < w)%Z.
  Proof.
    pose proof s_pos as Hs. pose proof edge_lo as EL. pose proof edge_hi as EH.
    pose proof (IZR_w_pos w Hw) as Hwp. pose proof PI_RGT_0 as Hpi.
    assert (Ws : IZR w * s = 2 * PI) by (unfold s; field; lra).
    set (X := IZR w * (c - d) / (2 * PI)) in *. set (Y := IZR w * (c + d) / (2 * PI)) in *.
    assert (XY : X <= Y) by nra.
    assert (YX : Y - X < IZR w) by nra.
    assert (XW : - IZR w < X) by nra.
    assert (YW : Y < IZR w) by nra.
    repeat split.
    - cut (li < ri + 2)%Z; [lia|]. apply lt_IZR. rewrite plus_IZR. lra.
    - cut (ri + 1 - li < w + 1)%Z; [lia|]. apply lt_IZR. rewrite plus_IZR, minus_IZR, plus_IZR. lra.
    - apply lt_IZR. rewrite opp_IZR. lra.
    - apply lt_IZR. lra.
  Qed.

  Definition g (n : Z) : R := env (Rabs (bin_angle w n - c)).

  Lemma g_image k p : g (k + w * p) = env (D c (bin_angle w k) p).
  Proof. unfold g, D. now rewrite bin_angle_shift. Qed.

  Lemma resid_sum_le_2eps flo fhi k :
    (-1 <= flo <= 0)%Z -> (1 <= fhi <= 2)%Z -> (0 <= k < w)%Z ->
    ((rep w li k <= ri)%Z -> (flo <= qof w li k < fhi)%Z) ->
    fold_left Rplus (map g (resid_list w li ri 0 1 flo fhi k)) 0 <= 2 * eps.
  Proof.
    intros Hflo Hfhi Hk Hq.
    destruct window_facts as (W1 & W2 & W3 & W4).
    destruct (rep_spec w li k ltac:(lia)) as [R1 R2].
    pose proof (rep_as_shift w li k ltac:(lia)) as R3.
    pose proof (bin_angle_range w k Hw Hk) as Hth.
    assert (K2pos : 0 <= k2) by (eapply Rle_trans; [apply (env_pos wd) | exact E2]).
    unfold resid_list. destruct (rep w li k <=? ri)%Z eqn:E.
    - (* one image retained *)
      apply Z.leb_le in E. specialize (Hq E). set (q := qof w li k) in *.
      assert (Hin : Rabs (bin_angle w (k + w * q) - c) <= d)
        by (apply inside_close; rewrite <- R3; lia).
      rewrite bin_angle_shift in Hin by exact Hw. fold (D c (bin_angle w k) q) in Hin.
      eapply Rle_trans.
      + apply sum_le_len with (M := k2). intros x Hx.
        apply in_app_or in Hx. destruct Hx as [Hx | Hx]; apply in_img_list in Hx;
          destruct Hx as (p & Hp & ->); rewrite g_image;
          apply (other_image_far c d wd k2 env Hc Hd Hdw Hwd env_mono env_pos E2 (bin_angle w k) q p Hin); lia.
      + rewrite app_length, !img_list_length.
        assert (Hlen : (Z.to_nat (0 + q - flo) + Z.to_nat (fhi - (1 + q)) <= 2)%nat) by lia.
        apply le_INR in Hlen. change (INR 2) with 2 in Hlen. nra.
    - (* no image retained: none of the three images lies in [li, ri] *)
      apply Z.leb_gt in E.
      assert (Hout : forall p, d < D c (bin_angle w k) p).
      { intros p. unfold D. rewrite <- bin_angle_shift by exact Hw. apply outside_far.
        intros Hc0. assert (k + w * p = rep w li k)%Z; [|lia].
        rewrite R3. rewrite R3 in R1. set (q := qof w li k) in *.
        assert (Hd0 : (- w < w * (p - q) < w)%Z) by lia.
        assert (p - q = 0)%Z by nia. f_equal. f_equal. lia. }
      pose proof (no_image_inside c d wd eps k2 k3 env Hc Hd Hdw Hwd env_mono E1 E2 E3
                                  (bin_angle w k) Hth (Hout (-1)%Z) (Hout 0%Z) (Hout 1%Z)) as N.
      pose proof (env_pos (D c (bin_angle w k) (-1))) as P1.
      pose proof (env_pos (D c (bin_angle w k) 0)) as P2.
      pose proof (env_pos (D c (bin_angle w k) 1)) as P3.
      assert (Hf : flo = (-1)%Z \/ flo = 0%Z) by lia.
      assert (Hh : fhi = 1%Z \/ fhi = 2%Z) by lia.
      destruct Hf as [-> | ->]; destruct Hh as [-> | ->];
        rewrite ?img_list_m1_2, ?img_list_m1_1, ?img_list_0_2, ?img_list_0_1;
        cbn [map fold_left]; rewrite !g_image; lra.
  Qed.
End ResidBound.
