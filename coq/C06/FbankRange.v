(* C06 - Fbank values: the triangle in mel of every bin between the two index
   bounds lies in [0, 1], so its square root is defined and lies in [0, 1]
   (all values finite).  About the mel scale generated from scales.py. *)
From Coq Require Import Reals ZArith Lia Lra.
From Verif Require Import gen.Scales C06.Model C06.ModelR.
Open Scope R_scope.

Lemma mel_h2s_le x y : -700 < x -> x <= y -> mel_h2s x <= mel_h2s y.
Proof.
  intros Hx Hxy. unfold mel_h2s.
  destruct (Req_dec x y) as [-> | Hne]; [lra|].
  assert (ln (1 + x / 700) < ln (1 + y / 700)) by (apply ln_increasing; lra). lra.
Qed.

Lemma mel_h2s_lt x y : -700 < x -> x < y -> mel_h2s x < mel_h2s y.
Proof.
  intros Hx Hxy. unfold mel_h2s.
  assert (ln (1 + x / 700) < ln (1 + y / 700)) by (apply ln_increasing; lra). lra.
Qed.

Lemma unit_ratio a b : 0 <= a -> a <= b -> 0 < b -> 0 <= a / b <= 1.
Proof.
  intros H0 H1 Hb. split.
  - apply Rmult_le_pos; [lra | left; apply Rinv_0_lt_compat; lra].
  - apply (Rmult_le_reg_r b); [lra|]. unfold Rdiv. rewrite Rmult_assoc, Rinv_l by lra. lra.
Qed.

Lemma bin_hz_in_support (w li ri idx : Z) (l r rate : R) :
  (1 <= w)%Z -> 0 < rate ->
  IZR w * l / rate <= IZR li -> IZR ri <= IZR w * r / rate ->
  (li <= idx <= ri)%Z -> l <= rate * IZR idx / IZR w <= r.
Proof.
  intros Hw Hr Hli Hri [H1 H2]. apply IZR_le in H1, H2.
  assert (Hwp : 0 < IZR w) by (apply (IZR_lt 0); lia).
  assert (El : IZR w * l / rate = IZR w * (l / rate)) by (field; lra).
  assert (Er : IZR w * r / rate = IZR w * (r / rate)) by (field; lra).
  assert (El2 : l = l / rate * rate) by (field; lra).
  assert (Er2 : r = r / rate * rate) by (field; lra).
  assert (Eh : rate * IZR idx / IZR w = IZR idx / IZR w * rate) by (field; lra).
  assert (Ei : IZR idx = IZR idx / IZR w * IZR w) by (field; lra).
  rewrite El in Hli. rewrite Er in Hri. rewrite Eh.
  set (ql := l / rate) in *. set (qr := r / rate) in *. set (qi := IZR idx / IZR w) in *.
  assert (ql <= qi) by nra. assert (qi <= qr) by nra. split; nra.
Qed.

Theorem fbank_values_in_unit_interval_l (w li ri idx : Z) (l m r rate : R) :
  (1 <= w)%Z -> 0 < rate -> 0 <= l -> l < m -> m < r ->
  IZR w * l / rate <= IZR li -> IZR ri <= IZR w * r / rate ->
  (li <= idx <= ri)%Z ->
  0 <= fbank_tri l m r rate w idx <= 1 /\ 0 <= fbank_val l m r rate w idx <= 1.
Proof.
  intros Hw Hr Hl Hlm Hmr Hli Hri Hidx.
  destruct (bin_hz_in_support w li ri idx l r rate Hw Hr Hli Hri Hidx) as [B1 B2].
  assert (T : 0 <= fbank_tri l m r rate w idx <= 1).
  { unfold fbank_tri. set (hz := rate * IZR idx / IZR w) in *. cbv zeta.
    pose proof (mel_h2s_le l hz ltac:(lra) B1) as M1.
    pose proof (mel_h2s_le hz r ltac:(lra) B2) as M2.
    pose proof (mel_h2s_lt l m ltac:(lra) Hlm) as M3.
    pose proof (mel_h2s_lt m r ltac:(lra) Hmr) as M4.
    destruct (Rle_dec (mel_h2s hz) (mel_h2s m)); apply unit_ratio; lra. }
  split; [exact T|]. unfold fbank_val. split; [apply sqrt_pos|].
  rewrite <- sqrt_1. apply sqrt_le_1; lra.
Qed.
