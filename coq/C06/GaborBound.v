(* C06 - Gabor: the response rebuilt from the truncated response differs from
   get_frequency_response by at most 2 * EFFECTIVE_SUPPORT_THRESHOLD. *)
From Coq Require Import Reals ZArith List Lia Lra.
From Verif Require Import C06.Model C06.ArrayLemmas C06.CplxProofs C06.ModelR C06.ValueLemmas.
From Verif Require Import C06.EnvBound.
Import ListNotations.
Open Scope R_scope.

Section Gabor.
  Variables (l2 : bool) (sigma c eps : R).
  Hypothesis Hs : 0 < sigma.
  Hypothesis Heps : 0 < eps.
  Let K := gabor_K l2 sigma.
  Let T := gabor_T l2 eps sigma.
  Let d := gabor_d l2 eps sigma.
  Let wd := gabor_wd l2 eps sigma.
  Definition genv (x : R) : R := exp (- (sigma ^ 2) / 2 * x ^ 2 + K).

  Lemma genv_mono x y : 0 <= x -> x <= y -> genv y <= genv x.
  Proof.
    intros Hx Hxy. unfold genv.
    destruct (Req_dec x y) as [-> | Hne]; [lra|].
    left. apply exp_increasing. assert (S2 : 0 < sigma ^ 2) by (apply pow_lt; lra).
    assert (x ^ 2 < y ^ 2) by nra. set (a := sigma ^ 2) in *. set (X := x ^ 2) in *. set (Y := y ^ 2) in *. nra.
  Qed.

  Lemma genv_pos x : 0 <= genv x.
  Proof. left. apply exp_pos. Qed.

  Lemma gabor_G_env omega : gabor_G l2 sigma c omega = genv (Rabs (omega - c)).
  Proof.
    unfold gabor_G, genv. fold K. f_equal. f_equal. f_equal.
    rewrite <- (Rsqr_abs (omega - c)) at 1 || idtac.
    replace ((c - omega) ^ 2) with ((omega - c) ^ 2) by ring.
    rewrite <- !Rsqr_pow2. apply Rsqr_abs.
  Qed.

  (* exponent at a half-width sqrt(S)/sigma *)
  Lemma genv_at S : 0 <= S -> genv (sqrt S / sigma) = exp (- S / 2 + K).
  Proof.
    intros HS. unfold genv. f_equal.
    replace ((sqrt S / sigma) ^ 2) with (sqrt S * sqrt S / sigma ^ 2) by (field; lra).
    rewrite sqrt_sqrt by exact HS. field. lra.
  Qed.

  Lemma K_T_eps : - T / 2 + K = ln eps.
  Proof.
    unfold T, K, gabor_T, gabor_K. destruct l2; [|lra].
    rewrite ln_mult by lra. lra.
  Qed.

  Hypothesis HT : 0 < T.

  Lemma genv_d : genv d = eps.
  Proof.
    unfold d, gabor_d. fold T. rewrite genv_at by lra. rewrite K_T_eps. apply exp_ln; exact Heps.
  Qed.

  Lemma ln2_pos' : 0 < ln 2.
  Proof. rewrite <- ln_1. apply ln_increasing; lra. Qed.

  Lemma genv_wd : genv wd = eps * exp (- ln 2 / 2).
  Proof.
    pose proof ln2_pos'.
    unfold wd, gabor_wd. fold T. rewrite genv_at by lra.
    replace (- (T + ln 2) / 2 + K) with (ln eps + - ln 2 / 2) by (rewrite <- K_T_eps; lra).
    rewrite exp_plus, exp_ln by exact Heps. reflexivity.
  Qed.

  Lemma d_pos : 0 < d.
  Proof.
    unfold d, gabor_d. fold T. apply Rdiv_lt_0_compat; [apply sqrt_lt_R0; lra | lra].
  Qed.

  Lemma d_le_wd : d <= wd.
  Proof.
    pose proof ln2_pos'. unfold d, wd, gabor_d, gabor_wd. fold T.
    apply Rmult_le_compat_r; [left; apply Rinv_0_lt_compat; lra|].
    apply sqrt_le_1; lra.
  Qed.

  Hypothesis Hreg : 1 <= T + ln 2.
  Hypothesis Hnw : ~ gabor_whole_period l2 eps sigma.

  Lemma wd_lt_pi : wd < PI.
  Proof. unfold gabor_whole_period in Hnw. fold wd in Hnw. lra. Qed.

  Lemma genv_2pi : genv (2 * PI) <= eps * exp (- ln 2 / 2) * exp (- 3 / 2).
  Proof.
    pose proof ln2_pos'. pose proof wd_lt_pi. pose proof d_pos. pose proof d_le_wd.
    apply Rle_trans with (genv (2 * wd)); [apply genv_mono; lra|].
    unfold wd, gabor_wd. fold T.
    replace (2 * (sqrt (T + ln 2) / sigma)) with (sqrt (4 * (T + ln 2)) / sigma).
    2:{ replace (4 * (T + ln 2)) with ((2 * 2) * (T + ln 2)) by ring.
        rewrite sqrt_mult by lra. rewrite sqrt_square by lra. field. lra. }
    rewrite genv_at by lra.
    replace (- (4 * (T + ln 2)) / 2 + K) with (ln eps + - ln 2 / 2 + - (3 / 2) * (T + ln 2))
      by (rewrite <- K_T_eps; lra).
    rewrite !exp_plus, exp_ln by exact Heps.
    apply Rmult_le_compat_l.
    - left. apply Rmult_lt_0_compat; [exact Heps | apply exp_pos].
    - destruct (Req_dec (T + ln 2) 1) as [E | E]; [rewrite E; right; f_equal; lra|].
      left. apply exp_increasing. lra.
  Qed.

  (* numeric facts: exp(-ln 2 / 2) = 1/sqrt 2 <= 0.7072 and exp(-3/2) < 8/27 *)
  Lemma inv_sqrt2_bound : 0 < exp (- ln 2 / 2) <= 7072 / 10000.
  Proof.
    set (s := exp (- ln 2 / 2)).
    assert (Hs0 : 0 < s) by apply exp_pos.
    assert (Hs2 : s * s = / 2).
    { unfold s. rewrite <- exp_plus. replace (- ln 2 / 2 + - ln 2 / 2) with (- ln 2) by lra.
      rewrite exp_Ropp, exp_ln by lra. reflexivity. }
    split; [exact Hs0|]. destruct (Rle_lt_dec s (7072 / 10000)) as [H | H]; [exact H|]. nra.
  Qed.

  Lemma exp_m32_bound : 0 < exp (- 3 / 2) < 8 / 27.
  Proof.
    split; [apply exp_pos|].
    replace (- 3 / 2) with (- (3 / 2)) by lra. rewrite exp_Ropp.
    assert (H12 : 3 / 2 < exp (1 / 2)) by (pose proof (exp_ineq1 (1 / 2) ltac:(lra)); lra).
    assert (E : exp (3 / 2) = exp (1 / 2) * exp (1 / 2) * exp (1 / 2)).
    { rewrite <- !exp_plus. f_equal. lra. }
    assert (27 / 8 < exp (3 / 2)) by (rewrite E; nra).
    replace (8 / 27) with (/ (27 / 8)) by field.
    apply Rinv_lt_contravar; [|lra].
    apply Rmult_lt_0_compat; [lra | apply exp_pos].
  Qed.

  Lemma k_sum : eps * exp (- ln 2 / 2) + eps * exp (- ln 2 / 2) * exp (- 3 / 2) <= eps.
  Proof.
    pose proof inv_sqrt2_bound as [S0 S1]. pose proof exp_m32_bound as [T0 T1].
    set (s := exp (- ln 2 / 2)) in *. set (t := exp (- 3 / 2)) in *.
    assert (s * (1 + t) <= 1) by nra. nra.
  Qed.

  Lemma k2_le : eps * exp (- ln 2 / 2) <= eps.
  Proof. pose proof inv_sqrt2_bound as [S0 S1]. nra. Qed.

  Hypothesis Hc : 0 <= c <= PI.

  Theorem gabor_rebuild_within_2eps_l (w li ri : Z) :
    (1 <= w)%Z ->
    IZR li - 1 < IZR w * (c - d) / (2 * PI) <= IZR li ->
    IZR ri <= IZR w * (c + d) / (2 * PI) < IZR ri + 1 ->
    let F := gabor_img l2 sigma c w in
    exists t r,
      cplx_trunc 0 Rplus false false w li ri F 0 1 (-1) 2 = Some ((li mod w)%Z, t) /\
      rebuild_complex 0 w (li mod w) t = Some r /\
      forall k, (0 <= k < w)%Z ->
        Rabs (get 0 (cplx_full 0 Rplus w false F (-1) 2) k - get 0 r k) <= 2 * eps.
  Proof.
    intros Hw Hli Hri F.
    pose proof d_pos as Hd. pose proof d_le_wd as Hdw. pose proof wd_lt_pi as Hwd.
    pose proof (window_facts w li ri c d wd genv Hw Hc Hd Hdw Hwd genv_mono genv_pos Hli Hri) as (W1 & W2 & W3 & W4).
    assert (Hper : forall k, (0 <= k < w)%Z -> (rep w li k <= ri)%Z ->
                             (-1 <= 0 + qof w li k /\ 1 + qof w li k <= 2)%Z).
    { intros k Hk Hrep. destruct (rep_spec w li k ltac:(lia)) as [R1 _].
      pose proof (rep_as_shift w li k ltac:(lia)) as R3. set (q := qof w li k) in *. nia. }
    destruct (cplx_residual_l 0 Rplus
                (fun a b c0 => eq_sym (Rplus_assoc a b c0)) Rplus_comm Rplus_0_l
                false w li ri F 0 1 (-1) 2 Hw W1 W2 ltac:(lia) Hper ltac:(lia))
      as (t & r & Ht & Hr & Hg).
    exists t, r. split; [exact Ht|]. split; [exact Hr|].
    intros k Hk. rewrite (Hg k Hk).
    replace (get 0 r k + sumV 0 Rplus (map F (resid_list w li ri 0 1 (-1) 2 k)) - get 0 r k)
      with (sumV 0 Rplus (map F (resid_list w li ri 0 1 (-1) 2 k))) by ring.
    unfold sumV.
    assert (HF : forall n, F n = g w c genv n).
    { intros n. unfold F, gabor_img, g. apply gabor_G_env. }
    rewrite (map_ext F (g w c genv) HF).
    assert (Hnn : 0 <= fold_left Rplus (map (g w c genv) (resid_list w li ri 0 1 (-1) 2 k)) 0).
    { eapply Rle_trans; [|apply (sum_le_pointwise (fun _ => 0))].
      - generalize (resid_list w li ri 0 1 (-1) 2 k). intros L.
        induction L; cbn; [lra|]. rewrite fold_Rplus_acc. lra.
      - intros x _. unfold g. apply genv_pos. }
    rewrite Rabs_right by lra.
    apply (resid_sum_le_2eps w li ri c d wd eps (eps * exp (- ln 2 / 2))
                             (eps * exp (- ln 2 / 2) * exp (- 3 / 2)) genv
                             Hw Hc Hd Hdw Hwd genv_mono genv_pos).
    - rewrite genv_d; lra.
    - rewrite genv_wd; lra.
    - apply genv_2pi.
    - apply k2_le.
    - apply k_sum.
    - exact Hli.
    - exact Hri.
    - lia.
    - lia.
    - exact Hk.
    - intros Hrep. specialize (Hper k Hk Hrep). lia.
  Qed.
End Gabor.
