(* C06 - complex gammatone: |H| is c (n-1)! / (alpha^2 + (omega - xi)^2)^(n/2),
   it equals eps at the support half-width and eps/2 at the wrap half-width the
   constructor computes, hence the response rebuilt from the truncated response
   differs from get_frequency_response by at most 2 * EFFECTIVE_SUPPORT_THRESHOLD
   in modulus. *)
From Coq Require Import Reals ZArith List Lia Lra.
From Verif Require Import C06.Model C06.ArrayLemmas C06.CplxProofs C06.ModelR C06.ValueLemmas.
From Verif Require Import C06.EnvBound.
Import ListNotations.
Open Scope R_scope.

Lemma Cnorm_mul (a b : ModelR.C) : Cnorm (Cmul a b) = Cnorm a * Cnorm b.
Proof.
  destruct a as [a1 a2], b as [b1 b2]. unfold Cnorm, Cmul; cbn [fst snd].
  rewrite <- sqrt_mult by nra. f_equal. ring.
Qed.

(* triangle inequality in the plane *)
Lemma Cnorm_triangle (a b : ModelR.C) : Cnorm (Cadd a b) <= Cnorm a + Cnorm b.
Proof.
  destruct a as [a1 a2], b as [b1 b2]. unfold Cnorm, Cadd; cbn [fst snd].
  set (A := sqrt (a1 ^ 2 + a2 ^ 2)). set (B := sqrt (b1 ^ 2 + b2 ^ 2)).
  assert (HA : 0 <= A) by apply sqrt_pos. assert (HB : 0 <= B) by apply sqrt_pos.
  assert (A2 : A * A = a1 ^ 2 + a2 ^ 2) by (apply sqrt_sqrt; nra).
  assert (B2 : B * B = b1 ^ 2 + b2 ^ 2) by (apply sqrt_sqrt; nra).
  assert (CS : a1 * b1 + a2 * b2 <= A * B).
  { destruct (Rle_lt_dec (a1 * b1 + a2 * b2) 0) as [N | P]; [nra|].
    assert (S2 : (a1 * b1 + a2 * b2) * (a1 * b1 + a2 * b2) <= (A * B) * (A * B)).
    { replace (A * B * (A * B)) with ((A * A) * (B * B)) by ring. rewrite A2, B2.
      assert (0 <= (a1 * b2 - a2 * b1) ^ 2) by apply pow2_ge_0. nra. }
    assert (0 <= A * B) by nra. nra. }
  rewrite <- (sqrt_square (A + B)) by lra.
  replace ((a1 + b1) ^ 2 + (a2 + b2) ^ 2)
    with ((a1 ^ 2 + a2 ^ 2) + (b1 ^ 2 + b2 ^ 2) + 2 * (a1 * b1 + a2 * b2)) by ring.
  replace ((A + B) * (A + B)) with (A * A + B * B + 2 * (A * B)) by ring.
  rewrite A2, B2.
  apply sqrt_le_1; [| |lra].
  - pose proof (pow2_ge_0 (a1 + b1)). pose proof (pow2_ge_0 (a2 + b2)). nra.
  - nra.
Qed.

Lemma Cnorm_pow (a : ModelR.C) (n : nat) : Cnorm (ModelR.Cpow a n) = Cnorm a ^ n.
Proof.
  induction n; cbn [ModelR.Cpow pow].
  - unfold Cnorm; cbn [fst snd]. replace (1 ^ 2 + 0 ^ 2) with 1 by ring. apply sqrt_1.
  - rewrite Cnorm_mul, IHn. reflexivity.
Qed.

Lemma Cnorm_nonneg (a : ModelR.C) : 0 <= Cnorm a.
Proof. apply sqrt_pos. Qed.

Lemma Cnorm_div (a b : ModelR.C) : 0 < Cnorm b -> Cnorm (ModelR.Cdiv a b) = Cnorm a / Cnorm b.
Proof.
  intros Hb. destruct a as [a1 a2], b as [b1 b2]. unfold Cnorm, ModelR.Cdiv in *. cbn [fst snd] in *.
  set (D := b1 ^ 2 + b2 ^ 2) in *.
  assert (HD : 0 < D).
  { destruct (Rle_lt_dec D 0) as [H|H]; [|exact H]. rewrite sqrt_neg_0 in Hb by exact H. lra. }
  replace (((a1 * b1 + a2 * b2) / D) ^ 2 + ((a2 * b1 - a1 * b2) / D) ^ 2)
    with ((a1 ^ 2 + a2 ^ 2) / D) by (unfold D; field; fold D; lra).
  apply sqrt_div_alt. exact HD.
Qed.

Lemma exp_pow' x n : exp x ^ n = exp (INR n * x).
Proof.
  induction n; [cbn; rewrite Rmult_0_l, exp_0; reflexivity|].
  rewrite S_INR. cbn [pow]. rewrite IHn, <- exp_plus. f_equal. ring.
Qed.

Lemma sqrt_exp y : sqrt (exp y) = exp (y / 2).
Proof.
  rewrite <- (sqrt_square (exp (y / 2))) by (left; apply exp_pos).
  rewrite <- exp_plus. f_equal. f_equal. lra.
Qed.

Section Gammatone.
  Variables (n : nat) (alpha cc xi off eps : R).
  Hypothesis Hn : (1 <= n)%nat.
  Hypothesis Ha : 0 < alpha.
  Hypothesis Hcc : 0 < cc.
  Hypothesis Heps : 0 < eps.
  Let A := cc * INR (fact (n - 1)).
  Let sa := gt_supp_a n cc eps.
  Let d := gt_d n alpha cc eps.
  Let wd := gt_wd n alpha cc eps.

  Definition tenv (x : R) : R := A / sqrt (alpha ^ 2 + x ^ 2) ^ n.

  Lemma fact_pos : 0 < INR (fact (n - 1)).
  Proof. apply lt_0_INR, lt_O_fact. Qed.

  Lemma A_pos : 0 < A.
  Proof. unfold A. pose proof fact_pos. nra. Qed.

  Lemma root_pos x : 0 < sqrt (alpha ^ 2 + x ^ 2).
  Proof. apply sqrt_lt_R0. nra. Qed.

  Lemma tenv_pos x : 0 <= tenv x.
  Proof.
    unfold tenv. left. apply Rdiv_lt_0_compat; [apply A_pos | apply pow_lt, root_pos].
  Qed.

  Lemma tenv_mono x y : 0 <= x -> x <= y -> tenv y <= tenv x.
  Proof.
    intros Hx Hxy. unfold tenv. pose proof A_pos.
    apply Rmult_le_compat_l; [lra|].
    apply Rinv_le_contravar; [apply pow_lt, root_pos|].
    apply pow_incr. split; [left; apply root_pos|]. apply sqrt_le_1; nra.
  Qed.

  (* modulus of the single-image response *)
  Lemma gt_H_norm omega : Cnorm (gt_H n alpha cc xi off omega) = tenv (Rabs (omega - xi)).
  Proof.
    unfold gt_H. fold A.
    assert (Hden : Cnorm (ModelR.Cpow (alpha, omega - xi) n) = sqrt (alpha ^ 2 + (omega - xi) ^ 2) ^ n).
    { rewrite Cnorm_pow. reflexivity. }
    rewrite Cnorm_div by (rewrite Hden; apply pow_lt, root_pos).
    rewrite Cnorm_mul, Hden. unfold tenv.
    replace (Rabs (omega - xi) ^ 2) with ((omega - xi) ^ 2)
      by (rewrite <- !Rsqr_pow2; apply Rsqr_abs).
    f_equal.
    unfold Cnorm; cbn [fst snd].
    replace (cos (omega * off) ^ 2 + (- sin (omega * off)) ^ 2) with 1.
    2:{ pose proof (sin2_cos2 (omega * off)) as S. unfold Rsqr in S. lra. }
    rewrite sqrt_1. replace (A ^ 2 + 0 ^ 2) with (A * A) by ring.
    rewrite sqrt_square by (left; apply A_pos). ring.
  Qed.

  Lemma INRn_pos : 0 < INR n.
  Proof. apply lt_0_INR. lia. Qed.

  (* (alpha^2 + x^2)^(n/2) when alpha^2 + x^2 = exp y *)
  Lemma tenv_at y x : 0 <= x -> alpha ^ 2 + x ^ 2 = exp y -> tenv x = A / exp (INR n * (y / 2)).
  Proof.
    intros Hx E. unfold tenv. rewrite E, sqrt_exp, exp_pow'. reflexivity.
  Qed.

  Lemma sa_half : INR n * (sa / 2) = ln A - ln eps.
  Proof.
    unfold sa, gt_supp_a, A. pose proof INRn_pos. pose proof fact_pos.
    rewrite ln_mult by lra. field. lra.
  Qed.

  Hypothesis Hsupp : alpha ^ 2 < exp sa.

  Lemma d_pos : 0 < d.
  Proof. unfold d, gt_d. fold sa. apply sqrt_lt_R0. lra. Qed.

  Lemma ln2_pos'' : 0 < ln 2.
  Proof. rewrite <- ln_1. apply ln_increasing; lra. Qed.

  Lemma d_le_wd : d <= wd.
  Proof.
    unfold d, wd, gt_d, gt_wd. fold sa. apply sqrt_le_1; try lra.
    - assert (exp sa <= exp (sa + 2 / INR n * ln 2)); [|lra].
      pose proof ln2_pos''. pose proof INRn_pos.
      assert (0 < 2 / INR n * ln 2).
      { apply Rmult_lt_0_compat; [apply Rdiv_lt_0_compat; lra | lra]. }
      left. apply exp_increasing. lra.
    - assert (exp sa <= exp (sa + 2 / INR n * ln 2)); [|lra].
      pose proof ln2_pos''. pose proof INRn_pos.
      assert (0 < 2 / INR n * ln 2).
      { apply Rmult_lt_0_compat; [apply Rdiv_lt_0_compat; lra | lra]. }
      left. apply exp_increasing. lra.
  Qed.

  Lemma tenv_d : tenv d = eps.
  Proof.
    pose proof A_pos.
    rewrite (tenv_at sa) by (try (left; apply d_pos);
      unfold d, gt_d; fold sa; rewrite pow2_sqrt by lra; lra).
    rewrite sa_half. unfold Rminus. rewrite exp_plus, exp_Ropp, !exp_ln by lra. field. lra.
  Qed.

  Lemma tenv_wd : tenv wd = eps / 2.
  Proof.
    pose proof A_pos. pose proof d_pos. pose proof d_le_wd. pose proof INRn_pos.
    assert (E : alpha ^ 2 + wd ^ 2 = exp (sa + 2 / INR n * ln 2)).
    { unfold wd, gt_wd. fold sa. rewrite pow2_sqrt; [lra|].
      assert (exp sa <= exp (sa + 2 / INR n * ln 2)); [|lra].
      pose proof ln2_pos''.
      assert (0 < 2 / INR n * ln 2).
      { apply Rmult_lt_0_compat; [apply Rdiv_lt_0_compat; lra | lra]. }
      left. apply exp_increasing. lra. }
    rewrite (tenv_at _ wd ltac:(lra) E).
    replace (INR n * ((sa + 2 / INR n * ln 2) / 2)) with (INR n * (sa / 2) + ln 2) by (field; lra).
    rewrite sa_half. unfold Rminus. rewrite !exp_plus, exp_Ropp, !exp_ln by lra. field. lra.
  Qed.

  Hypothesis Hnw : ~ gt_whole_period n alpha cc eps.

  Lemma wd_lt_pi : wd < PI.
  Proof.
    pose proof d_pos. unfold gt_whole_period in Hnw. fold d wd in Hnw. lra.
  Qed.

  Hypothesis Hxi : 0 <= xi <= PI.

  (* monoid laws of pairs *)
  Lemma Cadd_assoc a b c0 : Cadd a (Cadd b c0) = Cadd (Cadd a b) c0.
  Proof. unfold Cadd; cbn [fst snd]. f_equal; ring. Qed.
  Lemma Cadd_comm a b : Cadd a b = Cadd b a.
  Proof. unfold Cadd. f_equal; ring. Qed.
  Lemma Cadd_0_l a : Cadd C0 a = a.
  Proof. destruct a. unfold Cadd, C0; cbn [fst snd]. f_equal; ring. Qed.

  Lemma Cnorm_sum_le (l : list ModelR.C) (acc : ModelR.C) :
    Cnorm (fold_left Cadd l acc) <= Cnorm acc + fold_left Rplus (map Cnorm l) 0.
  Proof.
    revert acc; induction l; intros acc; cbn [fold_left map]; [lra|].
    rewrite (fold_Rplus_acc _ (0 + Cnorm a)).
    eapply Rle_trans; [apply IHl|]. pose proof (Cnorm_triangle acc a). lra.
  Qed.

  Theorem gammatone_rebuild_within_2eps_l (w li ri flo fhi : Z) :
    (1 <= w)%Z ->
    IZR li - 1 < IZR w * (xi - d) / (2 * PI) <= IZR li ->
    IZR ri <= IZR w * (xi + d) / (2 * PI) < IZR ri + 1 ->
    (* left_period = floor(left_sup / 2pi), right_period = ceil(right_sup / 2pi) *)
    IZR flo <= (xi - d) / (2 * PI) < IZR flo + 1 ->
    IZR fhi - 2 < (xi + d) / (2 * PI) <= IZR fhi - 1 ->
    let F := gt_img n alpha cc xi off w in
    exists t r,
      cplx_trunc C0 Cadd true false w li ri F 0 1 flo fhi = Some ((li mod w)%Z, t) /\
      rebuild_complex C0 w (li mod w) t = Some r /\
      forall k, (0 <= k < w)%Z ->
        exists resid,
          get C0 (cplx_full C0 Cadd w false F flo fhi) k = Cadd (get C0 r k) resid /\
          Cnorm resid <= 2 * eps.
  Proof.
    intros Hw Hli Hri Hflo Hfhi F.
    pose proof d_pos as Hd. pose proof d_le_wd as Hdw. pose proof wd_lt_pi as Hwd.
    pose proof PI_RGT_0 as Hpi.
    pose proof (window_facts w li ri xi d wd tenv Hw Hxi Hd Hdw Hwd tenv_mono tenv_pos Hli Hri)
      as (W1 & W2 & W3 & W4).
    (* the period range is within {-1, 0, 1} *)
    assert (Hlo : -1 < (xi - d) / (2 * PI)).
    { apply (Rmult_lt_reg_r (2 * PI)); [lra|]. unfold Rdiv. rewrite Rmult_assoc, Rinv_l by lra. lra. }
    assert (Hhi0 : 0 < (xi + d) / (2 * PI)) by (apply Rdiv_lt_0_compat; lra).
    assert (Hhi : (xi + d) / (2 * PI) < 1).
    { apply (Rmult_lt_reg_r (2 * PI)); [lra|]. unfold Rdiv. rewrite Rmult_assoc, Rinv_l by lra. lra. }
    assert (Hlo0 : (xi - d) / (2 * PI) < 1 / 2 + 1 / 2).
    { apply (Rmult_lt_reg_r (2 * PI)); [lra|]. unfold Rdiv at 1. rewrite Rmult_assoc, Rinv_l by lra. lra. }
    assert (Fl : (-1 <= flo <= 0)%Z).
    { split; [cut (-2 < flo)%Z; [lia|] | cut (flo < 1)%Z; [lia|]]; apply lt_IZR; lra. }
    assert (Fh : (1 <= fhi <= 2)%Z).
    { split; [cut (0 < fhi)%Z; [lia|] | cut (fhi < 3)%Z; [lia|]]; apply lt_IZR; lra. }
    (* the retained image is one the full response sums *)
    assert (Hq : forall k, (0 <= k < w)%Z -> (rep w li k <= ri)%Z ->
                           (flo <= qof w li k < fhi)%Z).
    { intros k Hk Hrep. destruct (rep_spec w li k ltac:(lia)) as [R1 _].
      pose proof (rep_as_shift w li k ltac:(lia)) as R3. set (q := qof w li k) in *.
      pose proof (IZR_w_pos w Hw) as Hwp.
      assert (Q1 : IZR li <= IZR (k + w * q)) by (apply IZR_le; lia).
      assert (Q2 : IZR (k + w * q) <= IZR ri) by (apply IZR_le; lia).
      rewrite plus_IZR, mult_IZR in Q1, Q2.
      assert (K1 : 0 <= IZR k) by (apply (IZR_le 0); lia).
      assert (K2 : IZR k < IZR w) by (apply IZR_lt; lia).
      assert (EL : IZR w * (xi - d) / (2 * PI) = IZR w * ((xi - d) / (2 * PI))) by (field; lra).
      assert (EH : IZR w * (xi + d) / (2 * PI) = IZR w * ((xi + d) / (2 * PI))) by (field; lra).
      rewrite EL in Hli. rewrite EH in Hri.
      set (lo := (xi - d) / (2 * PI)) in *. set (hi := (xi + d) / (2 * PI)) in *.
      split.
      - cut (flo < q + 1)%Z; [lia|]. apply lt_IZR. rewrite plus_IZR. nra.
      - cut (q < fhi - 1 + 1)%Z; [lia|]. apply lt_IZR. rewrite plus_IZR, minus_IZR. nra. }
    assert (Hper : forall k, (0 <= k < w)%Z -> (rep w li k <= ri)%Z ->
                             (flo <= 0 + qof w li k /\ 1 + qof w li k <= fhi)%Z).
    { intros k Hk Hrep. specialize (Hq k Hk Hrep). lia. }
    destruct (cplx_residual_l C0 Cadd Cadd_assoc Cadd_comm Cadd_0_l
                true w li ri F 0 1 flo fhi Hw W1 W2 ltac:(lia) Hper ltac:(lia))
      as (t & r & Ht & Hr & Hg).
    exists t, r. split; [exact Ht|]. split; [exact Hr|].
    intros k Hk. eexists; split; [apply (Hg k Hk)|].
    unfold sumV. eapply Rle_trans; [apply Cnorm_sum_le|].
    replace (Cnorm C0) with 0.
    2:{ unfold Cnorm, C0; cbn [fst snd]. replace (0 ^ 2 + 0 ^ 2) with 0 by ring. now rewrite sqrt_0. }
    rewrite Rplus_0_l, map_map.
    assert (HF : forall x, Cnorm (F x) = g w xi tenv x).
    { intros x. unfold F, gt_img, g. apply gt_H_norm. }
    rewrite (map_ext _ (g w xi tenv) HF).
    apply (resid_sum_le_2eps w li ri xi d wd eps (eps / 2) (eps / 2) tenv
                             Hw Hxi Hd Hdw Hwd tenv_mono tenv_pos).
    - rewrite tenv_d; lra.
    - rewrite tenv_wd; lra.
    - apply Rle_trans with (tenv wd); [apply tenv_mono; lra | rewrite tenv_wd; lra].
    - lra.
    - lra.
    - exact Hli.
    - exact Hri.
    - exact Fl.
    - exact Fh.
    - exact Hk.
    - apply Hq; exact Hk.
  Qed.
End Gammatone.
