(* C06 - the index arithmetic over Q: ceil/floor of width*f/rate.
   The first group of lemmas is stated for ARBITRARY quotients xl, xr (whatever
   the floating-point evaluation of width*left/rate and width*right/rate
   produced), under bounds that a monotone rounding with relative error below
   1/width preserves; the second group instantiates them with exact rational
   arithmetic. *)
From Coq Require Import ZArith QArith Qround Qminmax Lqa Lia Bool.
From Verif Require Import C06.Model.
Open Scope Q_scope.

Lemma Zle_of_Q a b : inject_Z a <= inject_Z b -> (a <= b)%Z.
Proof. now rewrite Zle_Qle. Qed.
Lemma Zlt_of_Q a b : inject_Z a < inject_Z b -> (a < b)%Z.
Proof. now rewrite Zlt_Qlt. Qed.

Lemma inject_Z_minus a b : inject_Z (a - b) = inject_Z a - inject_Z b.
Proof. unfold Z.sub, Qminus. now rewrite inject_Z_plus, inject_Z_opp. Qed.

(* push inject_Z through integer arithmetic *)
Ltac pushZ :=
  repeat first [rewrite inject_Z_plus | rewrite inject_Z_minus | rewrite inject_Z_mult | rewrite inject_Z_opp];
  change (inject_Z 0) with 0; change (inject_Z 1) with 1; change (inject_Z 2) with 2;
  change (inject_Z (-1)) with (-1).
Ltac zlt := apply Zlt_of_Q; pushZ.
Ltac zle_via_lt a b := cut (a < b + 1)%Z; [lia | zlt].

Lemma inject_Z_succ a : inject_Z (a + 1) == inject_Z a + 1.
Proof. rewrite inject_Z_plus. reflexivity. Qed.
Lemma inject_Z_pred a : inject_Z (a - 1) == inject_Z a - 1.
Proof. unfold Z.sub. rewrite inject_Z_plus. reflexivity. Qed.

Lemma py_int_nonneg x : 0 <= x -> py_int x = Qfloor x.
Proof. intros H; unfold py_int. apply Qle_bool_iff in H. now rewrite H. Qed.

(* floor / ceiling as the usual sandwiches *)
Lemma floor_spec x : inject_Z (Qfloor x) <= x /\ x < inject_Z (Qfloor x) + 1.
Proof. split; [apply Qfloor_le|]. rewrite <- inject_Z_succ. apply Qlt_floor. Qed.
Lemma ceil_spec x : inject_Z (Qceiling x) - 1 < x /\ x <= inject_Z (Qceiling x).
Proof. split; [|apply Qle_ceiling]. rewrite <- inject_Z_pred. apply Qceiling_lt. Qed.

(** * Float-robust index facts (arbitrary quotients) *)

(* 0 <= left_idx <= right_idx + 1 and 2*right_idx <= width, from
   -1 < xl <= xr and 0 <= xr, 2*xr < width + 1 *)
Lemma indices_of_quotients (w : Z) (xl xr : Q) :
  -1 < xl -> xl <= xr -> 0 <= xr -> 2 * xr < inject_Z w + 1 ->
  (0 <= Qceiling xl <= py_int xr + 1 /\ 2 * py_int xr <= w)%Z.
Proof.
  intros H1 H2 H3 H4. rewrite py_int_nonneg by exact H3.
  destruct (floor_spec xr) as [F1 F2]. destruct (ceil_spec xl) as [C1 C2].
  repeat split.
  - zle_via_lt 0%Z (Qceiling xl). lra.
  - zle_via_lt (Qceiling xl) (Qfloor xr + 1)%Z. lra.
  - zle_via_lt (2 * Qfloor xr)%Z w. lra.
Qed.

(* the start bin is below the width as soon as the left quotient is below width/2 *)
Lemma start_lt_width_of_quotient (w : Z) (xl : Q) :
  (2 <= w)%Z -> 2 * xl < inject_Z w -> (Qceiling xl < w)%Z.
Proof.
  intros Hw H. destruct (ceil_spec xl) as [C1 C2].
  assert (2 * Qceiling xl < w + 2)%Z.
  { zlt. lra. }
  lia.
Qed.

(* a computed quotient may exceed width/2 by a relative error d < 1/width
   and the right index still stays in the half spectrum *)
Lemma right_quotient_robust (w : Z) (x d : Q) :
  (1 <= w)%Z -> 2 * x <= inject_Z w * (1 + d) -> inject_Z w * d < 1 ->
  2 * x < inject_Z w + 1.
Proof. intros Hw H1 H2. nra. Qed.

(** * Exact rational arithmetic *)

Lemma quotient_bounds (w : Z) (f rate : Q) :
  (1 <= w)%Z -> 0 < rate ->
  forall c, (inject_Z w * c <= inject_Z w * f / rate <-> c * rate <= f) /\
            (inject_Z w * f / rate <= inject_Z w * c <-> f <= c * rate) /\
            (inject_Z w * f / rate < inject_Z w * c <-> f < c * rate).
Proof.
  intros Hw Hr c.
  assert (0 < inject_Z w) by (change 0 with (inject_Z 0); rewrite <- Zlt_Qlt; lia).
  assert (E : inject_Z w * f / rate == inject_Z w * (f / rate)) by (field; lra).
  assert (E2 : f == f / rate * rate) by (field; lra).
  set (q := f / rate) in *. rewrite E.
  repeat split; intros; nra.
Qed.

Lemma tri_indices_ok (w : Z) (l r rate : Q) :
  (1 <= w)%Z -> 0 < rate -> 0 <= l -> l <= r -> 2 * r <= rate ->
  (0 <= left_index w l rate <= right_index w r rate + 1 /\ 2 * right_index w r rate <= w)%Z.
Proof.
  intros Hw Hr Hl Hlr Hrn. unfold left_index, right_index.
  assert (0 < inject_Z w) by (change 0 with (inject_Z 0); rewrite <- Zlt_Qlt; lia).
  assert (El : inject_Z w * l / rate == inject_Z w * (l / rate)) by (field; lra).
  assert (Er : inject_Z w * r / rate == inject_Z w * (r / rate)) by (field; lra).
  assert (El2 : l == l / rate * rate) by (field; lra).
  assert (Er2 : r == r / rate * rate) by (field; lra).
  set (ql := l / rate) in *. set (qr := r / rate) in *.
  apply indices_of_quotients; rewrite ?El, ?Er; nra.
Qed.

Lemma tri_start_in_range (w : Z) (l rate : Q) :
  (2 <= w)%Z -> 0 < rate -> 0 <= l -> 2 * l < rate ->
  (0 <= left_index w l rate < w)%Z.
Proof.
  intros Hw Hr Hl Hln. unfold left_index.
  assert (0 < inject_Z w) by (change 0 with (inject_Z 0); rewrite <- Zlt_Qlt; lia).
  assert (El : inject_Z w * l / rate == inject_Z w * (l / rate)) by (field; lra).
  assert (El2 : l == l / rate * rate) by (field; lra).
  set (ql := l / rate) in *.
  split.
  - change 0%Z with (Qceiling 0). apply Qceiling_resp_le. rewrite El. nra.
  - apply start_lt_width_of_quotient; [lia|]. rewrite El. nra.
Qed.

(* bins of the loop lie between the outer vertices *)
Lemma bin_in_support (w : Z) (l r rate : Q) (idx : Z) :
  (1 <= w)%Z -> 0 < rate -> 0 <= r ->
  (left_index w l rate <= idx <= right_index w r rate)%Z ->
  l <= rate * inject_Z idx / inject_Z w <= r.
Proof.
  intros Hw Hr Hr0 [H1 H2]. unfold left_index, right_index in *.
  assert (Hw0 : 0 < inject_Z w) by (change 0 with (inject_Z 0); rewrite <- Zlt_Qlt; lia).
  assert (El : inject_Z w * l / rate == inject_Z w * (l / rate)) by (field; lra).
  assert (Er : inject_Z w * r / rate == inject_Z w * (r / rate)) by (field; lra).
  assert (El2 : l == l / rate * rate) by (field; lra).
  assert (Er2 : r == r / rate * rate) by (field; lra).
  assert (Eh : rate * inject_Z idx / inject_Z w == inject_Z idx / inject_Z w * rate) by (field; lra).
  assert (Ei : inject_Z idx == inject_Z idx / inject_Z w * inject_Z w) by (field; lra).
  set (ql := l / rate) in *. set (qr := r / rate) in *. set (qi := inject_Z idx / inject_Z w) in *.
  rewrite py_int_nonneg in H2 by (rewrite Er; nra).
  rewrite Zle_Qle in H1, H2.
  rewrite (Qceiling_comp _ _ El) in H1. rewrite (Qfloor_comp _ _ Er) in H2.
  destruct (ceil_spec (inject_Z w * ql)) as [_ C].
  destruct (floor_spec (inject_Z w * qr)) as [F _].
  rewrite Eh.
  assert (ql <= qi) by nra. assert (qi <= qr) by nra.
  split; nra.
Qed.

(* hence every triangle value lies in [0, 1]: finite, and a legitimate
   argument of the square root Fbank takes *)
Lemma tri_val_range_l (w : Z) (l m r rate : Q) (idx : Z) :
  (1 <= w)%Z -> 0 < rate -> 0 <= l -> l < m -> m < r ->
  (left_index w l rate <= idx <= right_index w r rate)%Z ->
  0 <= tri_val l m r rate w idx <= 1.
Proof.
  intros Hw Hr Hl Hlm Hmr Hidx.
  destruct (bin_in_support w l r rate idx Hw Hr ltac:(lra) Hidx) as [B1 B2].
  unfold tri_val. set (hz := rate * inject_Z idx / inject_Z w) in *.
  destruct (Qle_bool hz m) eqn:E.
  - apply Qle_bool_iff in E. split.
    + apply Qle_shift_div_l; lra.
    + apply Qle_shift_div_r; lra.
  - assert (m < hz).
    { destruct (Qlt_le_dec m hz); [assumption|]. apply Qle_bool_iff in q. congruence. }
    split.
    + apply Qle_shift_div_l; lra.
    + apply Qle_shift_div_r; lra.
Qed.

(** * Gabor / gammatone: support edges in turns *)

Lemma Qmax_neg_zero x : -1 < x -> 0 <= Qmax (- x) 0 < 1.
Proof.
  intros H. destruct (Q.max_spec (- x) 0) as [[A ->] | [A ->]]; lra.
Qed.

Lemma floor_unit x : 0 <= x -> x < 1 -> Qfloor x = 0%Z.
Proof.
  intros H0 H1. destruct (floor_spec x) as [F1 F2].
  assert (-1 < Qfloor x < 1)%Z; [|lia].
  split; zlt; lra.
Qed.

Lemma cplx_indices_ok (w : Z) (lo_t hi_t : Q) :
  (1 <= w)%Z -> -1 < lo_t -> lo_t <= hi_t -> 0 <= hi_t -> hi_t < 1 -> hi_t - lo_t < 1 ->
  let li := left_index w lo_t 1 in
  let ri := right_index w hi_t 1 in
  (li <= ri + 1 /\ ri + 1 - li <= w /\ - w < li /\ ri < w)%Z /\
  gabor_A lo_t = 0%Z /\ gabor_B hi_t = 0%Z /\
  (-1 <= gt_flo lo_t <= 0)%Z /\ (1 <= gt_fhi hi_t <= 2)%Z.
Proof.
  intros Hw H1 H2 H3 H4 H5 li ri. unfold li, ri, left_index, right_index.
  assert (Hw0 : 1 <= inject_Z w) by (change 1 with (inject_Z 1); rewrite <- Zle_Qle; lia).
  assert (El : inject_Z w * lo_t / 1 == inject_Z w * lo_t) by field.
  assert (Er : inject_Z w * hi_t / 1 == inject_Z w * hi_t) by field.
  rewrite (Qceiling_comp _ _ El).
  assert (Epi : py_int (inject_Z w * hi_t / 1) = Qfloor (inject_Z w * hi_t)).
  { rewrite py_int_nonneg by (rewrite Er; nra). now rewrite (Qfloor_comp _ _ Er). }
  rewrite Epi.
  destruct (ceil_spec (inject_Z w * lo_t)) as [C1 C2].
  destruct (floor_spec (inject_Z w * hi_t)) as [F1 F2].
  assert (P1 : inject_Z w * lo_t <= inject_Z w * hi_t) by nra.
  assert (P2 : inject_Z w * hi_t - inject_Z w * lo_t < inject_Z w) by nra.
  assert (P3 : - inject_Z w < inject_Z w * lo_t) by nra.
  assert (P4 : inject_Z w * hi_t < inject_Z w) by nra.
  set (a := inject_Z w * lo_t) in *. set (b := inject_Z w * hi_t) in *.
  clearbody a b. clear El Er Epi.
  repeat split.
  - zle_via_lt (Qceiling a) (Qfloor b + 1)%Z. lra.
  - zle_via_lt (Qfloor b + 1 - Qceiling a)%Z w. lra.
  - zlt. lra.
  - zlt. lra.
  - unfold gabor_A. pose proof (Qmax_neg_zero lo_t H1) as [M1 M2].
    rewrite py_int_nonneg by exact M1. apply floor_unit; assumption.
  - unfold gabor_B. rewrite py_int_nonneg by exact H3. apply floor_unit; assumption.
  - unfold gt_flo. destruct (floor_spec lo_t) as [G1 G2].
    zle_via_lt (-1)%Z (Qfloor lo_t). lra.
  - unfold gt_flo. destruct (floor_spec lo_t) as [G1 G2].
    zle_via_lt (Qfloor lo_t) 0%Z. lra.
  - unfold gt_fhi. destruct (ceil_spec hi_t) as [G1 G2].
    assert (0 <= Qceiling hi_t)%Z; [|lia].
    zle_via_lt 0%Z (Qceiling hi_t). lra.
  - unfold gt_fhi. destruct (ceil_spec hi_t) as [G1 G2].
    assert (Qceiling hi_t < 2)%Z; [|lia].
    zlt. lra.
Qed.
