(* C06 - model of the frequency-domain representations of a filter
   (src/pydrobert/speech/filters.py: get_frequency_response, get_truncated_response
   of the four banks, and the rebuild recipes documented in
   LinearFilterBank.get_truncated_response).  Definitions only.

   Layers
   ------
   1. NumPy 1-D arrays as lists: np.zeros, integer indexing with negative
      indices, basic slices (step 1) for reading and assignment.
   2. Triangular / Fbank: the two loops (full/half response, truncated
      response) as monadic folds over range(...), parametric in the value type V
      and in the per-bin value [val idx] (triangle in Hz, or sqrt-triangle in mel).
   3. The documented rebuild recipes (real and complex).
   4. Gabor / gammatone: responses as finite sums of images F(n) of one
      underlying function over unrolled bin numbers n = idx + width*period.
   5. Index arithmetic from rational vertices / support edges (Q).           *)
From Coq Require Import ZArith List Bool QArith Qround Qminmax.
Import ListNotations.
Open Scope Z_scope.

(* ------------------------------------------------------------------ *)
(** * 1. Arrays *)

Fixpoint foldM {A S : Type} (f : S -> A -> option S) (l : list A) (s : S) : option S :=
  match l with
  | [] => Some s
  | x :: r => match f s x with Some s' => foldM f r s' | None => None end
  end.

(* Python's range(a, b) *)
Definition zrange (a b : Z) : list Z :=
  map (fun k => a + Z.of_nat k) (seq 0 (Z.to_nat (b - a))).

Section Arrays.
  Context {V : Type}.
  Variable zero : V.

  Definition len (a : list V) : Z := Z.of_nat (length a).

  (* element j (total: zero outside; only used inside the bounds) *)
  Definition get (a : list V) (j : Z) : V :=
    if j <? 0 then zero else nth (Z.to_nat j) a zero.

  Fixpoint upd (a : list V) (n : nat) (v : V) : list V :=
    match a, n with
    | [], _ => []
    | _ :: r, O => v :: r
    | x :: r, S k => x :: upd r k v
    end.

  (* np.zeros(n): ValueError for n < 0 *)
  Definition zeros (n : Z) : option (list V) :=
    if n <? 0 then None else Some (repeat zero (Z.to_nat n)).

  (* a[i] with an integer i: negative indices count from the end, IndexError outside *)
  Definition norm_index (n i : Z) : option Z :=
    if (0 <=? i) && (i <? n) then Some i
    else if (i <? 0) && (0 <=? i + n) then Some (i + n)
    else None.

  Definition set_item (a : list V) (i : Z) (v : V) : option (list V) :=
    match norm_index (len a) i with
    | Some k => Some (upd a (Z.to_nat k) v)
    | None => None
    end.

  (* slice.indices for step 1: None = omitted bound *)
  Definition clip (n i : Z) : Z := if i <? 0 then Z.max 0 (i + n) else Z.min i n.
  Definition slice_start (n : Z) (s : option Z) : Z :=
    match s with None => 0 | Some i => clip n i end.
  Definition slice_stop (n : Z) (e : option Z) : Z :=
    match e with None => n | Some i => clip n i end.
  Definition slice_len (n : Z) (s e : option Z) : Z :=
    Z.max 0 (slice_stop n e - slice_start n s).

  Definition get_slice (a : list V) (s e : option Z) : list V :=
    firstn (Z.to_nat (slice_len (len a) s e)) (skipn (Z.to_nat (slice_start (len a) s)) a).

  (* a[s:e] = vals ; shapes must agree, except that a length-1 right-hand side
     is broadcast; otherwise ValueError *)
  Definition set_slice (a : list V) (s e : option Z) (vals : list V) : option (list V) :=
    let st := slice_start (len a) s in
    let L := slice_len (len a) s e in
    let put (vs : list V) :=
      firstn (Z.to_nat st) a ++ vs ++ skipn (Z.to_nat (st + L)) a in
    if len vals =? L then Some (put vals)
    else match vals with
         | [v] => Some (put (repeat v (Z.to_nat L)))
         | _ => None
         end.
End Arrays.

(* length of the half spectrum as get_frequency_response(half=True) computes it:
     if width % 2: dft_size = (width + 1) // 2  else: dft_size = width // 2 + 1 *)
Definition dft_size (w : Z) (half : bool) : Z :=
  if half then (if w mod 2 =? 0 then w / 2 + 1 else (w + 1) / 2) else w.

(* the length the docstring of get_frequency_response / the recipe announce:
     (width + width % 2) // 2 + 1 - width % 2 *)
Definition doc_half_len (w : Z) : Z := (w + w mod 2) / 2 + 1 - w mod 2.

(* ------------------------------------------------------------------ *)
(** * 2. Triangular and Fbank *)

Section Tri.
  Context {V : Type}.
  Variable zero : V.

  (* get_frequency_response of TriangularOverlappingFilterBank / Fbank
     (filters.py:395-421, 571-602):
        res = zeros(dft_size)
        for idx in range(left_idx, min(dft_size, right_idx + 1)):
            res[idx] = val
            if not half and not self._analytic: res[-idx] = val            *)
  Definition tri_full (w li ri : Z) (analytic half : bool) (val : Z -> V)
    : option (list V) :=
    match zeros zero (dft_size w half) with
    | None => None
    | Some res0 =>
      foldM (fun res idx =>
               match set_item res idx (val idx) with
               | None => None
               | Some r1 =>
                 if negb half && negb analytic then set_item r1 (- idx) (val idx)
                 else Some r1
               end)
            (zrange li (Z.min (dft_size w half) (ri + 1))) res0
    end.

  (* get_truncated_response (filters.py:423-440 and 604-626).  The two classes
     differ in the length they allocate:
        triangular: zeros(1 + right_idx - left_idx)
        Fbank     : zeros(min(width, right_idx + 1) - left_idx)
        for idx in range(left_idx, min(width, right_idx + 1)):
            res[idx - left_idx] = val
        return left_idx, res                                               *)
  Definition tri_trunc (fbank : bool) (w li ri : Z) (val : Z -> V)
    : option (Z * list V) :=
    match zeros zero (if fbank then Z.min w (ri + 1) - li else 1 + ri - li) with
    | None => None
    | Some r0 =>
      match foldM (fun res idx => set_item res (idx - li) (val idx))
                  (zrange li (Z.min w (ri + 1))) r0 with
      | None => None
      | Some r => Some (li, r)
      end
    end.
End Tri.

(* ------------------------------------------------------------------ *)
(** * 3. The documented recipes (docstring of get_truncated_response) *)

Section Recipes.
  Context {V : Type}.
  Variable zero : V.
  Variable conj : V -> V.

  (* trnc[:None if bin_idx else 0:-1] : the whole array reversed, or - when
     bin_idx is 0 - elements len-1 .. 1 *)
  Definition rev_for_mirror (b : Z) (t : list V) : list V :=
    if b =? 0 then rev (tl t) else rev t.

  (* real banks:
       full = zeros(width)
       full[bin_idx:bin_idx + len(trnc)] = trnc
       full[width - bin_idx - len(trnc) + 1:width - bin_idx + 1] =
           trnc[:None if bin_idx else 0:-1].conj()                          *)
  Definition rebuild_real (w b : Z) (t : list V) : option (list V) :=
    match zeros zero w with
    | None => None
    | Some f0 =>
      match set_slice f0 (Some b) (Some (b + len t)) t with
      | None => None
      | Some f1 =>
        set_slice f1 (Some (w - b - len t + 1)) (Some (w - b + 1))
                  (map conj (rev_for_mirror b t))
      end
    end.

  (*   half = zeros((width + width % 2) // 2 + 1 - width % 2)
       half[bin_idx:bin_idx + len(trnc)] = trnc                              *)
  Definition rebuild_half (w b : Z) (t : list V) : option (list V) :=
    match zeros zero (doc_half_len w) with
    | None => None
    | Some h0 => set_slice h0 (Some b) (Some (b + len t)) t
    end.

  (* complex banks:
       full = zeros(width)
       wrap = min(bin_idx + len(trnc), width) - bin_idx
       full[bin_idx:bin_idx + wrap] = trnc[:wrap]
       full[:len(trnc) - wrap] = trnc[wrap:]                                 *)
  Definition rebuild_complex (w b : Z) (t : list V) : option (list V) :=
    match zeros zero w with
    | None => None
    | Some f0 =>
      let wrap := Z.min (b + len t) w - b in
      match set_slice f0 (Some b) (Some (b + wrap)) (get_slice t None (Some wrap)) with
      | None => None
      | Some f1 =>
        set_slice f1 None (Some (len t - wrap)) (get_slice t (Some wrap) None)
      end
    end.
End Recipes.

(* ------------------------------------------------------------------ *)
(** * 4. Gabor and complex gammatone *)

Section Cplx.
  Context {V : Type}.
  Variable zero : V.
  Variable add : V -> V -> V.

  (* One value of a periodised response.  In the code the angular frequency is
     (idx / width + period) * 2 pi ; here the underlying single-image response
     is sampled on the unrolled bin grid, F n = response at 2 pi n / width, so
     that image [period] of bin [idx] is F (idx + width * period).  The loop
     "res[idx] += val" over range(plo, phi) starts from 0. *)
  Definition img_sum (w : Z) (F : Z -> V) (plo phi : Z) (n : Z) : V :=
    fold_left (fun acc p => add acc (F (n + w * p))) (zrange plo phi) zero.

  (* get_frequency_response (filters.py:841-868, 1128-1145): periods
     range(flo, fhi) for every bin of range(dft_size). *)
  Definition cplx_full (w : Z) (half : bool) (F : Z -> V) (flo fhi : Z) : list V :=
    map (img_sum w F flo fhi) (zrange 0 (dft_size w half)).

  (* get_truncated_response (filters.py:870-900, 1147-1162).
       if <whole-period test>: return 0, self.get_frequency_response(filt_idx, width)
       Gabor     : res = zeros(1 + right_idx - left_idx)   (ValueError if negative)
                   bins range(left_idx, right_idx + 1), periods range(tlo, thi)
       gammatone : bins arange(left_idx, right_idx + 1), the single image 0
       return left_idx % width, res                                          *)
  Definition cplx_trunc (gammatone fallback : bool) (w li ri : Z) (F : Z -> V)
             (tlo thi flo fhi : Z) : option (Z * list V) :=
    if fallback then Some (0, cplx_full w false F flo fhi)
    else if negb gammatone && (1 + ri - li <? 0) then None
    else Some (li mod w, map (img_sum w F tlo thi) (zrange li (ri + 1))).
End Cplx.

(* ------------------------------------------------------------------ *)
(** * 5. Index arithmetic over Q *)

Open Scope Q_scope.

(* Python's int() on a float: truncation toward zero *)
Definition py_int (q : Q) : Z := if Qle_bool 0 q then Qfloor q else Qceiling q.

(* int(np.ceil(width * left / self._rate)) and int(width * right / self._rate);
   the same expressions serve Gabor / gammatone with lowest_ang / (2 pi) =
   supports_hz[0] / rate (support edges counted in turns) *)
Definition left_index (w : Z) (l rate : Q) : Z := Qceiling (inject_Z w * l / rate).
Definition right_index (w : Z) (r rate : Q) : Z := py_int (inject_Z w * r / rate).

(* triangle value of bin idx, vertices in Hz (filters.py:413-418, 435-439) *)
Definition tri_val (l m r rate : Q) (w idx : Z) : Q :=
  let hz := rate * inject_Z idx / inject_Z w in
  if Qle_bool hz m then (hz - l) / (m - l) else (r - hz) / (r - m).

(* Period ranges.  lo_t, hi_t are the support edges in turns (angle / 2 pi).
   Gabor (filters.py:860-863, 892-895):
     full : range(-1 - int(max(-lo, 0) / 2pi), 2 + int(hi / 2pi))
     trunc: range(   - int(max(-lo, 0) / 2pi), 1 + int(hi / 2pi))
   gammatone (filters.py:1132-1133,1143): range(floor(lo/2pi), ceil(hi/2pi) + 1);
     truncated response: the image 0 only. *)
Definition gabor_A (lo_t : Q) : Z := py_int (Qmax (- lo_t) 0).
Definition gabor_B (hi_t : Q) : Z := py_int hi_t.
Definition gabor_flo lo_t : Z := (-1 - gabor_A lo_t)%Z.
Definition gabor_fhi hi_t : Z := (2 + gabor_B hi_t)%Z.
Definition gabor_tlo lo_t : Z := (- gabor_A lo_t)%Z.
Definition gabor_thi hi_t : Z := (1 + gabor_B hi_t)%Z.
Definition gt_flo (lo_t : Q) : Z := Qfloor lo_t.
Definition gt_fhi (hi_t : Q) : Z := (Qceiling hi_t + 1)%Z.

Close Scope Q_scope.

(* ------------------------------------------------------------------ *)
(** * 6. Instances used by the correspondence (evaluated by vm_compute) *)

(* Tag semantics: the value of bin idx is the tag idx+1 (0 = untouched zero),
   so that the printed arrays show which bin's value landed where. *)
Definition tag (idx : Z) : Z := idx + 1.

(* run-length encoding of a tag list: (start position, length, first tag, step)
   for maximal runs of non-zero tags with constant step in {-1, 0, 1} *)
Fixpoint rle_aux (pos : Z) (l : list Z) (cur : option (Z * Z * Z * Z)) (acc : list (Z * Z * Z * Z))
  : list (Z * Z * Z * Z) :=
  match l with
  | [] => rev (match cur with Some c => c :: acc | None => acc end)
  | x :: r =>
    if x =? 0 then
      rle_aux (pos + 1) r None (match cur with Some c => c :: acc | None => acc end)
    else
      match cur with
      | None => rle_aux (pos + 1) r (Some (pos, 1, x, 0)) acc
      | Some (s, n, t0, st) =>
        let expect := t0 + st * n in
        if (n =? 1) && ((x =? t0 + 1) || (x =? t0 - 1) || (x =? t0)) then
          rle_aux (pos + 1) r (Some (s, 2, t0, x - t0)) acc
        else if (1 <? n) && (x =? expect) then
          rle_aux (pos + 1) r (Some (s, n + 1, t0, st)) acc
        else rle_aux (pos + 1) r (Some (pos, 1, x, 0)) ((s, n, t0, st) :: acc)
      end
  end.
Definition rle (l : list Z) : list (Z * Z * Z * Z) := rle_aux 0 l None [].

(* one triangular/Fbank case from the two quotients the ceil / int() are applied to *)
Definition tri_case_q (fbank analytic : bool) (w : Z) (xl xr : Q) :=
  let li := Qceiling xl in
  let ri := py_int xr in
  let full := tri_full 0 w li ri analytic false tag in
  let half := tri_full 0 w li ri analytic true tag in
  let tr := tri_trunc 0 fbank w li ri tag in
  (li, ri,
   option_map rle full, option_map rle half,
   match tr with Some (b, t) => Some (b, len t, rle t) | None => None end,
   match tr with
   | Some (b, t) =>
     if analytic then option_map rle (rebuild_complex 0 w b t)
     else option_map rle (rebuild_real 0 (fun x => x) w b t)
   | None => None
   end).

(* ... and from vertices and rate as rationals (exact arithmetic) *)
Definition tri_case (fbank analytic : bool) (w : Z) (l r rate : Q) :=
  tri_case_q fbank analytic w (inject_Z w * l / rate)%Q (inject_Z w * r / rate)%Q.

(* Image multisets for Gabor/gammatone: V = list Z (the list of unrolled bin
   numbers whose images are summed, in summation order), add = append. *)
Definition img_tag (n : Z) : list Z := [n].
Definition cplx_case (gammatone fallback : bool) (w : Z) (lo_t hi_t : Q) :=
  let li := left_index w lo_t 1 in
  let ri := right_index w hi_t 1 in
  let flo := if gammatone then gt_flo lo_t else gabor_flo lo_t in
  let fhi := if gammatone then gt_fhi hi_t else gabor_fhi hi_t in
  let tlo := if gammatone then 0 else gabor_tlo lo_t in
  let thi := if gammatone then 1 else gabor_thi hi_t in
  let tr := cplx_trunc [] (@app Z) gammatone fallback w li ri img_tag tlo thi flo fhi in
  (li, ri, (flo, fhi), (tlo, thi),
   match tr with Some (b, t) => Some (b, len t) | None => None end).
