(* C06 - real-valued part of the model: the values the loops of Model.v place.
   Definitions only.
     - Fbank: square root of the triangle in mel (uses the scale generated from
       scales.py, gen/Scales.v).
     - Gabor: Gaussian single image, its normalisation constant, the support
       half-widths the constructor derives from EFFECTIVE_SUPPORT_THRESHOLD and
       the whole-period test of get_truncated_response.
     - complex gammatone: H(omega) = exp(-i omega off) c (n-1)! / (alpha + i (omega - xi))^n
       over pairs of reals, support half-widths, whole-period test.            *)
From Coq Require Import Reals ZArith List.
From Verif Require Import gen.Scales C06.Model.
Open Scope R_scope.

(* angular frequency of the unrolled bin n = idx + width * period:
   (idx / width + period) * 2 * pi *)
Definition bin_angle (w n : Z) : R := IZR n / IZR w * (2 * PI).

(** * Fbank (filters.py:593-601, 620-626) *)
Definition fbank_tri (l m r rate : R) (w idx : Z) : R :=
  let hz := rate * IZR idx / IZR w in
  let mel := mel_h2s hz in
  let lm := mel_h2s l in
  let mm := mel_h2s m in
  let rm := mel_h2s r in
  if Rle_dec mel mm then (mel - lm) / (mm - lm) else (rm - mel) / (rm - mm).
Definition fbank_val (l m r rate : R) (w idx : Z) : R := sqrt (fbank_tri l m r rate w idx).

(* triangular bank over R (same formula as Model.tri_val over Q) *)
Definition tri_val_R (l m r rate : R) (w idx : Z) : R :=
  let hz := rate * IZR idx / IZR w in
  if Rle_dec hz m then (hz - l) / (m - l) else (r - hz) / (r - m).

(** * Gabor (filters.py:730-757, 854-867, 886-899) *)
Definition gabor_K (l2 : bool) (sigma : R) : R :=
  if l2 then / 2 * ln (2 * sigma) + / 4 * ln PI else 0.
(* val = exp(num_term * (center_ang - omega) ** 2 + const_term), num_term = -(std ** 2) / 2 *)
Definition gabor_G (l2 : bool) (sigma c omega : R) : R :=
  exp (- (sigma ^ 2) / 2 * (c - omega) ^ 2 + gabor_K l2 sigma).
Definition gabor_img (l2 : bool) (sigma c : R) (w n : Z) : R :=
  gabor_G l2 sigma c (bin_angle w n).

(* log_std + f_support_const (scale_l2_norm) resp. f_support_const *)
Definition gabor_T (l2 : bool) (eps sigma : R) : R :=
  (if l2 then ln sigma + ln 2 + / 2 * ln PI else 0) - 2 * ln eps.
Definition gabor_d (l2 : bool) (eps sigma : R) : R := sqrt (gabor_T l2 eps sigma) / sigma.
Definition gabor_wd (l2 : bool) (eps sigma : R) : R := sqrt (gabor_T l2 eps sigma + ln 2) / sigma.
(* self._wrap_supports_ang[filt_idx] >= 2 * np.pi *)
Definition gabor_whole_period (l2 : bool) (eps sigma : R) : Prop :=
  2 * gabor_wd l2 eps sigma >= 2 * PI.

(* sums of images, with Model.img_sum instantiated on R *)
Definition Rimg_sum (w : Z) (F : Z -> R) (plo phi n : Z) : R := img_sum 0 Rplus w F plo phi n.

(** * Complex gammatone (filters.py:1040-1054, 1177-1186) *)
Definition C : Type := (R * R)%type.
Definition C0 : C := (0, 0).
Definition Cadd (a b : C) : C := (fst a + fst b, snd a + snd b).
Definition Cmul (a b : C) : C :=
  (fst a * fst b - snd a * snd b, fst a * snd b + snd a * fst b).
Fixpoint Cpow (a : C) (n : nat) : C :=
  match n with O => (1, 0) | S k => Cmul a (Cpow a k) end.
Definition Cdiv (a b : C) : C :=
  let d := fst b ^ 2 + snd b ^ 2 in
  ((fst a * fst b + snd a * snd b) / d, (snd a * fst b - fst a * snd b) / d).
Definition Cnorm (a : C) : R := sqrt (fst a ^ 2 + snd a ^ 2).

(* numer = exp(-1j * omega * offset) * c * (n - 1)!;  denom = (alpha + 1j (omega - xi)) ** n *)
Definition gt_H (n : nat) (alpha c xi off omega : R) : C :=
  Cdiv (Cmul (cos (omega * off), - sin (omega * off)) (c * INR (fact (n - 1)), 0))
       (Cpow (alpha, omega - xi) n).
Definition gt_img (n : nat) (alpha c xi off : R) (w k : Z) : C :=
  gt_H n alpha c xi off (bin_angle w k).

(* supp_a = (2 / order) * (log_c + log_factorial - log_eps) *)
Definition gt_supp_a (n : nat) (c eps : R) : R :=
  2 / INR n * (ln c + ln (INR (fact (n - 1))) - ln eps).
Definition gt_d (n : nat) (alpha c eps : R) : R :=
  sqrt (exp (gt_supp_a n c eps) - alpha ^ 2).
Definition gt_wd (n : nat) (alpha c eps : R) : R :=
  sqrt (exp (gt_supp_a n c eps + 2 / INR n * ln 2) - alpha ^ 2).
(* right_sup - left_sup + wrap_ang >= 2 * np.pi *)
Definition gt_whole_period (n : nat) (alpha c eps : R) : Prop :=
  2 * gt_d n alpha c eps + 2 * gt_wd n alpha c eps >= 2 * PI.

Definition Cimg_sum (w : Z) (F : Z -> C) (plo phi n : Z) : C := img_sum C0 Cadd w F plo phi n.
