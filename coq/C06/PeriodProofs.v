(* C06 - Gabor / gammatone: with the support edges given in turns, the images a
   retained bin sums are among those the full response sums (hypothesis of
   CplxProofs.cplx_residual_l), for the period ranges the code computes. *)
From Coq Require Import ZArith QArith Qround Qminmax Lqa Lia Bool.
From Verif Require Import C06.Model C06.IndexProofs C06.CplxProofs.
Open Scope Q_scope.

Definition cplx_flo (gt : bool) (lo_t : Q) : Z := if gt then gt_flo lo_t else gabor_flo lo_t.
Definition cplx_fhi (gt : bool) (hi_t : Q) : Z := if gt then gt_fhi hi_t else gabor_fhi hi_t.
Definition cplx_tlo (gt : bool) (lo_t : Q) : Z := if gt then 0%Z else gabor_tlo lo_t.
Definition cplx_thi (gt : bool) (hi_t : Q) : Z := if gt then 1%Z else gabor_thi hi_t.

Lemma cplx_trunc_single_image gt lo_t hi_t :
  -1 < lo_t -> 0 <= hi_t -> hi_t < 1 ->
  cplx_tlo gt lo_t = 0%Z /\ cplx_thi gt hi_t = 1%Z.
Proof.
  intros H1 H3 H4. destruct gt; cbn; [split; reflexivity|].
  unfold gabor_tlo, gabor_thi, gabor_A, gabor_B.
  pose proof (Qmax_neg_zero lo_t H1) as [M1 M2].
  rewrite !py_int_nonneg by assumption.
  rewrite (floor_unit (Qmax (- lo_t) 0)), (floor_unit hi_t) by assumption. split; reflexivity.
Qed.

Lemma cplx_periods_ok (gt : bool) (w : Z) (lo_t hi_t : Q) (k : Z) :
  (1 <= w)%Z -> -1 < lo_t -> lo_t <= hi_t -> 0 <= hi_t -> hi_t < 1 -> hi_t - lo_t < 1 ->
  let li := left_index w lo_t 1 in
  let ri := right_index w hi_t 1 in
  (0 <= k < w)%Z -> (rep w li k <= ri)%Z ->
  (cplx_flo gt lo_t <= cplx_tlo gt lo_t + qof w li k /\
   cplx_thi gt hi_t + qof w li k <= cplx_fhi gt hi_t)%Z /\
  (cplx_flo gt lo_t <= cplx_fhi gt hi_t)%Z.
Proof.
  intros Hw H1 H2 H3 H4 H5 li ri Hk Hrep.
  destruct (cplx_indices_ok w lo_t hi_t Hw H1 H2 H3 H4 H5) as ((I1 & I2 & I3 & I4) & IA & IB & IF1 & IF2).
  fold li ri in I1, I2, I3, I4.
  destruct (cplx_trunc_single_image gt lo_t hi_t H1 H3 H4) as [T1 T2]. rewrite T1, T2.
  destruct (rep_spec w li k ltac:(lia)) as [R1 R2].
  pose proof (rep_as_shift w li k ltac:(lia)) as R3.
  set (q := qof w li k) in *.
  assert (Hq : (-1 <= q <= 0)%Z) by nia.
  destruct gt; cbn [cplx_flo cplx_fhi].
  - (* gammatone: floor(lo_t) <= q and q <= ceil(hi_t) *)
    unfold gt_flo, gt_fhi in *.
    assert (Hw0 : 1 <= inject_Z w) by (change 1 with (inject_Z 1); rewrite <- Zle_Qle; lia).
    assert (El : inject_Z w * lo_t / 1 == inject_Z w * lo_t) by field.
    assert (Er : inject_Z w * hi_t / 1 == inject_Z w * hi_t) by field.
    assert (Eli : li = Qceiling (inject_Z w * lo_t))
      by (unfold li, left_index; apply Qceiling_comp, El).
    assert (Eri : ri = Qfloor (inject_Z w * hi_t)).
    { unfold ri, right_index. rewrite py_int_nonneg by (rewrite Er; nra). apply Qfloor_comp, Er. }
    destruct (ceil_spec (inject_Z w * lo_t)) as [_ C2].
    destruct (floor_spec (inject_Z w * hi_t)) as [F1 _].
    destruct (floor_spec lo_t) as [G1 G2]. destruct (ceil_spec hi_t) as [G3 G4].
    rewrite <- Eli in C2. rewrite <- Eri in F1.
    assert (Q1 : inject_Z li <= inject_Z (rep w li k)) by (rewrite <- Zle_Qle; lia).
    assert (Q2 : inject_Z (rep w li k) <= inject_Z ri) by (rewrite <- Zle_Qle; lia).
    rewrite R3 in Q1, Q2. rewrite inject_Z_plus, inject_Z_mult in Q1, Q2.
    assert (Q3 : 0 <= inject_Z k < inject_Z w).
    { split; [change 0 with (inject_Z 0); rewrite <- Zle_Qle | rewrite <- Zlt_Qlt]; lia. }
    set (a := inject_Z (Qfloor lo_t)) in *. set (b := inject_Z (Qceiling hi_t)) in *.
    assert (QA : a < inject_Z q + 1) by nra.
    assert (QB : inject_Z q <= b) by nra.
    assert ((Qfloor lo_t < q + 1)%Z) by (zlt; exact QA).
    assert ((q <= Qceiling hi_t)%Z) by (apply Zle_of_Q; exact QB).
    lia.
  - unfold gabor_flo, gabor_fhi. rewrite IA, IB. lia.
Qed.
