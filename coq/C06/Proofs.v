(* C06 - the lemmas Props.v exports: the array-level theorems (TriProofs,
   CplxProofs) instantiated with the rational index arithmetic (IndexProofs,
   PeriodProofs).  Each is followed by an Example showing that its hypotheses
   are met by a concrete non-trivial input. *)
From Coq Require Import ZArith List Bool QArith Qround Lqa Lia.
From Verif Require Import C06.Model C06.ArrayLemmas C06.TriProofs C06.IndexProofs
     C06.CplxProofs C06.PeriodProofs.
Import ListNotations.
Open Scope Q_scope.

(* hypotheses shared by the triangular / Fbank theorems: a DFT width, a positive
   rate and outer vertices 0 <= l <= r <= rate/2 *)
Definition tri_ok (w : Z) (l r rate : Q) : Prop :=
  (1 <= w)%Z /\ 0 < rate /\ 0 <= l /\ l <= r /\ 2 * r <= rate.

Example tri_ok_example : tri_ok 512 (1000 # 1) (3000 # 1) (16000 # 1).
Proof. unfold tri_ok; repeat split; try lia; try lra. Qed.

Section WithValues.
  Context {V : Type}.
  Variable zero : V.
  Variable val : Z -> V.

  Lemma tri_rebuild_exact_real_l (conj : V -> V) fbank w l r rate :
    (forall i, conj (val i) = val i) -> tri_ok w l r rate ->
    let li := left_index w l rate in
    let ri := right_index w r rate in
    exists t f, tri_trunc zero fbank w li ri val = Some (li, t) /\
                tri_full zero w li ri false false val = Some f /\
                rebuild_real zero conj w li t = Some f.
  Proof.
    intros Hc (Hw & Hr & Hl & Hlr & Hn) li ri.
    destruct (tri_indices_ok w l r rate Hw Hr Hl Hlr Hn) as [I1 I2].
    apply rebuild_real_exact_l; auto.
  Qed.

  Lemma tri_rebuild_exact_analytic_l fbank w l r rate :
    tri_ok w l r rate -> (2 <= w)%Z -> 2 * l < rate ->
    let li := left_index w l rate in
    let ri := right_index w r rate in
    exists t f, tri_trunc zero fbank w li ri val = Some (li, t) /\
                tri_full zero w li ri true false val = Some f /\
                rebuild_complex zero w li t = Some f.
  Proof.
    intros (Hw & Hr & Hl & Hlr & Hn) Hw2 Hl2 li ri.
    destruct (tri_indices_ok w l r rate Hw Hr Hl Hlr Hn) as [I1 I2].
    destruct (tri_start_in_range w l rate Hw2 Hr Hl Hl2) as [S1 S2].
    apply rebuild_analytic_exact_l; auto.
  Qed.

  Lemma tri_rebuild_half_exact_l fbank analytic w l r rate :
    tri_ok w l r rate ->
    let li := left_index w l rate in
    let ri := right_index w r rate in
    exists t h, tri_trunc zero fbank w li ri val = Some (li, t) /\
                tri_full zero w li ri analytic true val = Some h /\
                rebuild_half zero w li t = Some h.
  Proof.
    intros (Hw & Hr & Hl & Hlr & Hn) li ri.
    destruct (tri_indices_ok w l r rate Hw Hr Hl Hlr Hn) as [I1 I2].
    apply rebuild_half_exact_l; auto.
  Qed.

  Lemma tri_start_and_extent_l fbank w l r rate :
    tri_ok w l r rate -> (2 <= w)%Z -> 2 * l < rate ->
    let li := left_index w l rate in
    let ri := right_index w r rate in
    exists t, tri_trunc zero fbank w li ri val = Some (li, t) /\
              (0 <= li < w)%Z /\ (li + len t <= doc_half_len w)%Z.
  Proof.
    intros (Hw & Hr & Hl & Hlr & Hn) Hw2 Hl2 li ri.
    destruct (tri_indices_ok w l r rate Hw Hr Hl Hlr Hn) as [I1 I2].
    destruct (tri_start_in_range w l rate Hw2 Hr Hl Hl2) as [S1 S2].
    destruct (real_within_half_l zero val fbank w li ri I1 I2 Hw) as (t & Ht & _ & Hh).
    exists t; repeat split; auto.
  Qed.

  Lemma tri_half_is_prefix_l analytic w l r rate :
    tri_ok w l r rate ->
    let li := left_index w l rate in
    let ri := right_index w r rate in
    exists f h, tri_full zero w li ri analytic false val = Some f /\
                tri_full zero w li ri analytic true val = Some h /\
                len h = doc_half_len w /\
                h = firstn (Z.to_nat (doc_half_len w)) f.
  Proof.
    intros (Hw & Hr & Hl & Hlr & Hn) li ri.
    destruct (tri_indices_ok w l r rate Hw Hr Hl Hlr Hn) as [I1 I2].
    apply half_is_prefix_l; auto; lia.
  Qed.

  Lemma tri_real_hermitian_l w l r rate :
    tri_ok w l r rate ->
    let li := left_index w l rate in
    let ri := right_index w r rate in
    exists f, tri_full zero w li ri false false val = Some f /\ len f = w /\
              forall j, (0 <= j < w)%Z -> get zero f j = get zero f ((w - j) mod w).
  Proof.
    intros (Hw & Hr & Hl & Hlr & Hn) li ri.
    destruct (tri_indices_ok w l r rate Hw Hr Hl Hlr Hn) as [I1 I2].
    apply real_hermitian_l; auto; lia.
  Qed.

  Lemma tri_analytic_zero_negative_l w l r rate :
    tri_ok w l r rate ->
    let li := left_index w l rate in
    let ri := right_index w r rate in
    exists f, tri_full zero w li ri true false val = Some f /\ len f = w /\
              forall j, (w / 2 < j < w)%Z -> get zero f j = zero.
  Proof.
    intros (Hw & Hr & Hl & Hlr & Hn) li ri.
    destruct (tri_indices_ok w l r rate Hw Hr Hl Hlr Hn) as [I1 I2].
    apply analytic_zero_negative_l; auto; lia.
  Qed.

  (* the same conclusions for whatever quotients the floating-point evaluation of
     width*left/rate and width*right/rate returned, as long as they are ordered
     and the right one exceeds width/2 by less than 1/2 *)
  Lemma tri_float_robust_l (conj : V -> V) fbank w (xl xr : Q) :
    (forall i, conj (val i) = val i) ->
    (1 <= w)%Z -> -1 < xl -> xl <= xr -> 0 <= xr -> 2 * xr < inject_Z w + 1 ->
    let li := Qceiling xl in
    let ri := py_int xr in
    exists t f h, tri_trunc zero fbank w li ri val = Some (li, t) /\
                  tri_full zero w li ri false false val = Some f /\
                  tri_full zero w li ri false true val = Some h /\
                  rebuild_real zero conj w li t = Some f /\
                  rebuild_half zero w li t = Some h /\
                  (li + len t <= doc_half_len w)%Z.
  Proof.
    intros Hc Hw H1 H2 H3 H4 li ri.
    destruct (indices_of_quotients w xl xr H1 H2 H3 H4) as [I1 I2]. fold li ri in I1, I2.
    destruct (rebuild_real_exact_l zero val conj Hc fbank w li ri I1 I2 Hw) as (t & f & Ht & Hf & Hr).
    destruct (rebuild_half_exact_l zero val fbank w li ri false I1 I2 Hw) as (t' & h & Ht' & Hh & Hrh).
    rewrite Ht in Ht'. inversion Ht'; subst t'.
    destruct (real_within_half_l zero val fbank w li ri I1 I2 Hw) as (t'' & Ht'' & _ & Hwh).
    rewrite Ht in Ht''. inversion Ht''; subst t''.
    exists t, f, h. repeat split; auto.
  Qed.
End WithValues.

(* instance showing the conclusions are not vacuous: a 16-bin response *)
Example tri_rebuild_example :
  let li := left_index 16 (1000 # 1) (8000 # 1) in
  let ri := right_index 16 (3000 # 1) (8000 # 1) in
  tri_full 0%Z 16 li ri false false tag
  = Some [0; 0; 3; 4; 5; 6; 7; 0; 0; 0; 7; 6; 5; 4; 3; 0]%Z.
Proof. vm_compute. reflexivity. Qed.

(** * Gabor / gammatone *)

(* support edges in turns: the centre lies in [0, 1/2] turns and the support
   is narrower than a period *)
Definition cplx_ok (w : Z) (lo_t hi_t : Q) : Prop :=
  (1 <= w)%Z /\ -1 < lo_t /\ lo_t <= hi_t /\ 0 <= hi_t /\ hi_t < 1 /\ hi_t - lo_t < 1.

Example cplx_ok_example : cplx_ok 64 (- (1 # 10)) (3 # 10).
Proof. unfold cplx_ok; repeat split; try lia; try lra. Qed.

Section WithImages.
  Context {V : Type}.
  Variable zero : V.
  Variable add : V -> V -> V.
  Hypothesis add_assoc : forall a b c, add a (add b c) = add (add a b) c.
  Hypothesis add_comm : forall a b, add a b = add b a.
  Hypothesis add_0_l : forall a, add zero a = a.
  Variable F : Z -> V.

  (* truncated response: start bin in range, at most one period long, so the
     recipe never overwrites what it wrote; the rebuilt value of bin k is the
     value of the one unrolled bin congruent to k inside [li, ri], or zero *)
  Lemma cplx_trunc_fits_l (gt : bool) w lo_t hi_t :
    cplx_ok w lo_t hi_t ->
    let li := left_index w lo_t 1 in
    let ri := right_index w hi_t 1 in
    exists t r,
      cplx_trunc zero add gt false w li ri F (cplx_tlo gt lo_t) (cplx_thi gt hi_t)
                 (cplx_flo gt lo_t) (cplx_fhi gt hi_t) = Some (li mod w, t) /\
      (0 <= li mod w < w)%Z /\ (len t <= w)%Z /\
      rebuild_complex zero w (li mod w) t = Some r /\ len r = w /\
      forall k, (0 <= k < w)%Z ->
        get zero r k = if (rep w li k <=? ri)%Z then F (rep w li k) else zero.
  Proof.
    intros (Hw & H1 & H2 & H3 & H4 & H5) li ri.
    destruct (cplx_indices_ok w lo_t hi_t Hw H1 H2 H3 H4 H5) as ((I1 & I2 & I3 & I4) & _).
    fold li ri in I1, I2, I3, I4.
    destruct (cplx_trunc_single_image gt lo_t hi_t H1 H3 H4) as [T1 T2]. rewrite T1, T2.
    destruct (cplx_rebuilt_spec zero add gt w li ri F 0 1 (cplx_flo gt lo_t) (cplx_fhi gt hi_t)
                                Hw I1 I2) as (t & r & Ht & Hlt & Hb & Hr & Hlr & Hg).
    exists t, r. repeat split; auto; try lia.
    intros k Hk. rewrite Hg by lia. destruct (rep w li k <=? ri)%Z; [|reflexivity].
    unfold img_sum. rewrite (zrange_cons 0 1) by lia. rewrite zrange_nil by lia. cbn.
    rewrite add_0_l. f_equal. lia.
  Qed.

  Lemma cplx_residual_main_l (gt : bool) w lo_t hi_t :
    cplx_ok w lo_t hi_t ->
    let li := left_index w lo_t 1 in
    let ri := right_index w hi_t 1 in
    let flo := cplx_flo gt lo_t in
    let fhi := cplx_fhi gt hi_t in
    exists t r,
      cplx_trunc zero add gt false w li ri F (cplx_tlo gt lo_t) (cplx_thi gt hi_t) flo fhi
        = Some (li mod w, t) /\
      rebuild_complex zero w (li mod w) t = Some r /\
      forall k, (0 <= k < w)%Z ->
        get zero (cplx_full zero add w false F flo fhi) k =
        add (get zero r k) (sumV zero add (map F (resid_list w li ri 0 1 flo fhi k))) /\
        forall x, In x (resid_list w li ri 0 1 flo fhi k) ->
                  (exists p, (flo <= p < fhi)%Z /\ x = (k + w * p)%Z) /\ ~ (li <= x <= ri)%Z.
  Proof.
    intros (Hw & H1 & H2 & H3 & H4 & H5) li ri flo fhi.
    destruct (cplx_indices_ok w lo_t hi_t Hw H1 H2 H3 H4 H5) as ((I1 & I2 & I3 & I4) & _).
    fold li ri in I1, I2, I3, I4.
    destruct (cplx_trunc_single_image gt lo_t hi_t H1 H3 H4) as [T1 T2]. rewrite T1, T2.
    assert (Hper : forall k, (0 <= k < w)%Z -> (rep w li k <= ri)%Z ->
                             (flo <= 0 + qof w li k /\ 1 + qof w li k <= fhi)%Z).
    { intros k Hk Hrep.
      destruct (cplx_periods_ok gt w lo_t hi_t k Hw H1 H2 H3 H4 H5 Hk Hrep) as [P _].
      rewrite T1, T2 in P. exact P. }
    assert (Hff : (flo <= fhi)%Z).
    { destruct (cplx_indices_ok w lo_t hi_t Hw H1 H2 H3 H4 H5) as (_ & IA & IB & IF1 & IF2).
      unfold flo, fhi, cplx_flo, cplx_fhi, gabor_flo, gabor_fhi. destruct gt; [lia|].
      rewrite IA, IB. lia. }
    destruct (cplx_residual_l zero add add_assoc add_comm add_0_l gt w li ri F 0 1 flo fhi
                              Hw I1 I2 ltac:(lia) Hper Hff) as (t & r & Ht & Hr & Hg).
    exists t, r. split; [exact Ht|]. split; [exact Hr|].
    intros k Hk. split; [apply Hg; exact Hk|].
    intros x Hx.
    assert (Hp' : (rep w li k <= ri)%Z -> (flo <= qof w li k /\ 1 + qof w li k <= fhi)%Z)
      by (intros Hrep; specialize (Hper k Hk Hrep); lia).
    destruct (resid_outside w li ri flo fhi k x Hw I1 I2 Hk Hp' Hx) as [(p & P1 & P2 & _) N].
    split; [exists p; split; assumption | exact N].
  Qed.
End WithImages.

Example cplx_residual_example :
  (* Gabor, 16 bins, support [-0.1, 0.3] turns: bin 15 is rebuilt from the
     unrolled bin -1 and the full response adds the images 15 and 31 *)
  cplx_case false false 16 (- (1 # 10)) (3 # 10) = (-1, 4, (-1, 2), (0, 1), Some (15, 6))%Z /\
  resid_list 16 (-1) 4 0 1 (-1) 2 15 = [15; 31]%Z /\
  resid_list 16 (-1) 4 0 1 (-1) 2 8 = [-8; 8; 24]%Z.
Proof. vm_compute. repeat split. Qed.
