(* C06 - the property theorems, and nothing else.  Each is closed by [exact] of a
   lemma of the proof files; the axioms each depends on are printed beneath it.
   Model: C06/Model.v (arrays, loops, recipes, index arithmetic) and
   C06/ModelR.v (Gabor / gammatone / Fbank values over R). *)
From Coq Require Import ZArith List Bool QArith Qround Reals.
From Verif Require Import C06.Model C06.ModelR C06.CplxProofs C06.PeriodProofs C06.Proofs
     C06.FbankRange C06.GaborBound C06.GammatoneBound C06.GenTie gen.C06Index.
Import ListNotations.

(* ---- triangular / Fbank: the recipes rebuild the responses exactly ---- *)

(* real bank: full response = documented real recipe applied to the truncated one *)
Theorem tri_rebuild_exact_real :
  forall (V : Type) (zero : V) (val : Z -> V) (conj : V -> V) (fbank : bool)
         (w : Z) (l r rate : Q),
    (forall i, conj (val i) = val i) -> tri_ok w l r rate ->
    let li := left_index w l rate in
    let ri := right_index w r rate in
    exists t f, tri_trunc zero fbank w li ri val = Some (li, t) /\
                tri_full zero w li ri false false val = Some f /\
                rebuild_real zero conj w li t = Some f.
Proof. exact @tri_rebuild_exact_real_l. Qed.
Print Assumptions tri_rebuild_exact_real.

(* analytic bank: the complex recipe is exact as well (width >= 2) *)
Theorem tri_rebuild_exact_analytic :
  forall (V : Type) (zero : V) (val : Z -> V) (fbank : bool) (w : Z) (l r rate : Q),
    tri_ok w l r rate -> (2 <= w)%Z -> (2 * l < rate)%Q ->
    let li := left_index w l rate in
    let ri := right_index w r rate in
    exists t f, tri_trunc zero fbank w li ri val = Some (li, t) /\
                tri_full zero w li ri true false val = Some f /\
                rebuild_complex zero w li t = Some f.
Proof. exact @tri_rebuild_exact_analytic_l. Qed.
Print Assumptions tri_rebuild_exact_analytic.

(* the half-spectrum recipe yields get_frequency_response(half=True) *)
Theorem tri_rebuild_half_exact :
  forall (V : Type) (zero : V) (val : Z -> V) (fbank analytic : bool) (w : Z) (l r rate : Q),
    tri_ok w l r rate ->
    let li := left_index w l rate in
    let ri := right_index w r rate in
    exists t h, tri_trunc zero fbank w li ri val = Some (li, t) /\
                tri_full zero w li ri analytic true val = Some h /\
                rebuild_half zero w li t = Some h.
Proof. exact @tri_rebuild_half_exact_l. Qed.
Print Assumptions tri_rebuild_half_exact.

(* start bin in [0, width); start + length within the half spectrum *)
Theorem tri_start_and_extent :
  forall (V : Type) (zero : V) (val : Z -> V) (fbank : bool) (w : Z) (l r rate : Q),
    tri_ok w l r rate -> (2 <= w)%Z -> (2 * l < rate)%Q ->
    let li := left_index w l rate in
    let ri := right_index w r rate in
    exists t, tri_trunc zero fbank w li ri val = Some (li, t) /\
              (0 <= li < w)%Z /\ (li + len t <= doc_half_len w)%Z.
Proof. exact @tri_start_and_extent_l. Qed.
Print Assumptions tri_start_and_extent.

(* half=True: the leading bins of the full response, with the documented length *)
Theorem tri_half_is_prefix :
  forall (V : Type) (zero : V) (val : Z -> V) (analytic : bool) (w : Z) (l r rate : Q),
    tri_ok w l r rate ->
    let li := left_index w l rate in
    let ri := right_index w r rate in
    exists f h, tri_full zero w li ri analytic false val = Some f /\
                tri_full zero w li ri analytic true val = Some h /\
                len h = doc_half_len w /\
                h = firstn (Z.to_nat (doc_half_len w)) f.
Proof. exact @tri_half_is_prefix_l. Qed.
Print Assumptions tri_half_is_prefix.

(* real banks are Hermitian-symmetric (their values are real) *)
Theorem tri_real_hermitian :
  forall (V : Type) (zero : V) (val : Z -> V) (w : Z) (l r rate : Q),
    tri_ok w l r rate ->
    let li := left_index w l rate in
    let ri := right_index w r rate in
    exists f, tri_full zero w li ri false false val = Some f /\ len f = w /\
              forall j, (0 <= j < w)%Z -> get zero f j = get zero f ((w - j) mod w).
Proof. exact @tri_real_hermitian_l. Qed.
Print Assumptions tri_real_hermitian.

(* analytic banks vanish on the negative frequencies *)
Theorem tri_analytic_zero_negative :
  forall (V : Type) (zero : V) (val : Z -> V) (w : Z) (l r rate : Q),
    tri_ok w l r rate ->
    let li := left_index w l rate in
    let ri := right_index w r rate in
    exists f, tri_full zero w li ri true false val = Some f /\ len f = w /\
              forall j, (w / 2 < j < w)%Z -> get zero f j = zero.
Proof. exact @tri_analytic_zero_negative_l. Qed.
Print Assumptions tri_analytic_zero_negative.

(* the same for whatever quotients floating point produced for width*f/rate *)
Theorem tri_float_robust :
  forall (V : Type) (zero : V) (val : Z -> V) (conj : V -> V) (fbank : bool) (w : Z) (xl xr : Q),
    (forall i, conj (val i) = val i) ->
    (1 <= w)%Z -> (-1 < xl)%Q -> (xl <= xr)%Q -> (0 <= xr)%Q -> (2 * xr < inject_Z w + 1)%Q ->
    let li := Qceiling xl in
    let ri := py_int xr in
    exists t f h, tri_trunc zero fbank w li ri val = Some (li, t) /\
                  tri_full zero w li ri false false val = Some f /\
                  tri_full zero w li ri false true val = Some h /\
                  rebuild_real zero conj w li t = Some f /\
                  rebuild_half zero w li t = Some h /\
                  (li + len t <= doc_half_len w)%Z.
Proof. exact @tri_float_robust_l. Qed.
Print Assumptions tri_float_robust.

(* every triangle value lies in [0, 1] (finite; a legitimate sqrt argument) *)
Theorem tri_values_in_unit_interval :
  forall (w : Z) (l m r rate : Q) (idx : Z),
    (1 <= w)%Z -> (0 < rate)%Q -> (0 <= l)%Q -> (l < m)%Q -> (m < r)%Q ->
    (left_index w l rate <= idx <= right_index w r rate)%Z ->
    (0 <= tri_val l m r rate w idx <= 1)%Q.
Proof. exact IndexProofs.tri_val_range_l. Qed.
Print Assumptions tri_values_in_unit_interval.

(* ---- Gabor / gammatone ---- *)

(* start bin in [0, width), length at most one period, recipe total, and bin k of
   the rebuilt response is the image of the one unrolled bin congruent to k in
   [left_idx, right_idx] (zero if there is none) *)
Theorem cplx_trunc_fits :
  forall (V : Type) (zero : V) (add : V -> V -> V),
    (forall a b c, add a (add b c) = add (add a b) c) ->
    (forall a b, add a b = add b a) ->
    (forall a, add zero a = a) ->
    forall (F : Z -> V) (gt : bool) (w : Z) (lo_t hi_t : Q),
    cplx_ok w lo_t hi_t ->
    let li := left_index w lo_t 1 in
    let ri := right_index w hi_t 1 in
    exists t r,
      cplx_trunc zero add gt false w li ri F (cplx_tlo gt lo_t) (cplx_thi gt hi_t)
                 (cplx_flo gt lo_t) (cplx_fhi gt hi_t) = Some (li mod w, t) /\
      (0 <= li mod w < w)%Z /\ (len t <= w)%Z /\
      rebuild_complex zero w (li mod w) t = Some r /\ len r = w /\
      forall k, (0 <= k < w)%Z ->
        get zero r k = if (rep w li k <=? ri)%Z then F (rep w li k) else zero.
Proof. exact @cplx_trunc_fits_l. Qed.
Print Assumptions cplx_trunc_fits.

(* full = rebuilt + residual images; every residual image is another period of
   the same bin and lies outside [left_idx, right_idx] *)
Theorem cplx_full_is_rebuilt_plus_residual :
  forall (V : Type) (zero : V) (add : V -> V -> V),
    (forall a b c, add a (add b c) = add (add a b) c) ->
    (forall a b, add a b = add b a) ->
    (forall a, add zero a = a) ->
    forall (F : Z -> V) (gt : bool) (w : Z) (lo_t hi_t : Q),
    cplx_ok w lo_t hi_t ->
    let li := left_index w lo_t 1 in
    let ri := right_index w hi_t 1 in
    let flo := cplx_flo gt lo_t in
    let fhi := cplx_fhi gt hi_t in
    exists t r,
      cplx_trunc zero add gt false w li ri F (cplx_tlo gt lo_t) (cplx_thi gt hi_t) flo fhi
        = Some (li mod w, t) /\
      rebuild_complex zero w (li mod w) t = Some r /\
      forall k, (0 <= k < w)%Z ->
        get zero (cplx_full zero add w false F flo fhi) k =
        add (get zero r k) (sumV zero add (map F (resid_list w li ri 0 1 flo fhi k))) /\
        forall x, In x (resid_list w li ri 0 1 flo fhi k) ->
                  (exists p, (flo <= p < fhi)%Z /\ x = (k + w * p)%Z) /\ ~ (li <= x <= ri)%Z.
Proof. exact @cplx_residual_main_l. Qed.
Print Assumptions cplx_full_is_rebuilt_plus_residual.

(* whole-period fallback: (0, full response), which the recipe returns unchanged *)
Theorem cplx_fallback_exact :
  forall (V : Type) (zero : V) (add : V -> V -> V) (gt : bool) (w li ri : Z) (F : Z -> V)
         (tlo thi flo fhi : Z),
    (1 <= w)%Z ->
    cplx_trunc zero add gt true w li ri F tlo thi flo fhi
      = Some (0%Z, cplx_full zero add w false F flo fhi) /\
    rebuild_complex zero w 0 (cplx_full zero add w false F flo fhi)
      = Some (cplx_full zero add w false F flo fhi).
Proof. exact @cplx_fallback_exact_l. Qed.
Print Assumptions cplx_fallback_exact.

(* half=True: leading bins of the full response, documented length *)
Theorem cplx_half_is_prefix :
  forall (V : Type) (zero : V) (add : V -> V -> V) (w : Z) (F : Z -> V) (flo fhi : Z),
    (1 <= w)%Z ->
    cplx_full zero add w true F flo fhi =
    firstn (Z.to_nat (doc_half_len w)) (cplx_full zero add w false F flo fhi) /\
    len (cplx_full zero add w true F flo fhi) = doc_half_len w.
Proof. exact @cplx_half_is_prefix_l. Qed.
Print Assumptions cplx_half_is_prefix.

(* ---- values over R ---- *)
Local Open Scope R_scope.

(* Fbank: for every bin of the loops the triangle in mel lies in [0, 1], hence
   its square root is defined and within [0, 1]: all values finite
   (li, ri: any integers with ceil / floor-like bounds w.r.t. width*f/rate) *)
Theorem fbank_values_in_unit_interval :
  forall (w li ri idx : Z) (l m r rate : R),
    (1 <= w)%Z -> 0 < rate -> 0 <= l -> l < m -> m < r ->
    IZR w * l / rate <= IZR li -> IZR ri <= IZR w * r / rate ->
    (li <= idx <= ri)%Z ->
    0 <= fbank_tri l m r rate w idx <= 1 /\ 0 <= fbank_val l m r rate w idx <= 1.
Proof. exact fbank_values_in_unit_interval_l. Qed.
Print Assumptions fbank_values_in_unit_interval.

(* Gabor, normal branch of get_truncated_response: the rebuilt response is within
   2 * eps of the full one, for every width and every bin.  Hypotheses: the
   constructor's support half-width is defined (0 < T), the wrap half-width is
   at least one standard deviation (1 <= T + ln 2), centre within [0, pi],
   left_idx / right_idx are the ceil / floor of width * (c -+ d) / 2pi. *)
Theorem gabor_rebuild_within_2eps :
  forall (l2 : bool) (sigma c eps : R),
    0 < sigma -> 0 < eps ->
    0 < gabor_T l2 eps sigma -> 1 <= gabor_T l2 eps sigma + ln 2 ->
    ~ gabor_whole_period l2 eps sigma -> 0 <= c <= PI ->
    forall w li ri : Z,
    (1 <= w)%Z ->
    IZR li - 1 < IZR w * (c - gabor_d l2 eps sigma) / (2 * PI) <= IZR li ->
    IZR ri <= IZR w * (c + gabor_d l2 eps sigma) / (2 * PI) < IZR ri + 1 ->
    let F := gabor_img l2 sigma c w in
    exists t r : list R,
      cplx_trunc 0 Rplus false false w li ri F 0 1 (-1) 2 = Some ((li mod w)%Z, t) /\
      rebuild_complex 0 w (li mod w) t = Some r /\
      forall k : Z, (0 <= k < w)%Z ->
        Rabs (get 0 (cplx_full 0 Rplus w false F (-1) 2) k - get 0 r k) <= 2 * eps.
Proof. exact gabor_rebuild_within_2eps_l. Qed.
Print Assumptions gabor_rebuild_within_2eps.

(* complex gammatone, normal branch: full = rebuilt + residual with |residual| <= 2 eps.
   flo / fhi: the period range floor(left_sup/2pi) .. ceil(right_sup/2pi) + 1. *)
Theorem gammatone_rebuild_within_2eps :
  forall (n : nat) (alpha cc xi off eps : R),
    (1 <= n)%nat -> 0 < alpha -> 0 < cc -> 0 < eps ->
    alpha ^ 2 < exp (gt_supp_a n cc eps) ->
    ~ gt_whole_period n alpha cc eps -> 0 <= xi <= PI ->
    forall w li ri flo fhi : Z,
    (1 <= w)%Z ->
    IZR li - 1 < IZR w * (xi - gt_d n alpha cc eps) / (2 * PI) <= IZR li ->
    IZR ri <= IZR w * (xi + gt_d n alpha cc eps) / (2 * PI) < IZR ri + 1 ->
    IZR flo <= (xi - gt_d n alpha cc eps) / (2 * PI) < IZR flo + 1 ->
    IZR fhi - 2 < (xi + gt_d n alpha cc eps) / (2 * PI) <= IZR fhi - 1 ->
    let F := gt_img n alpha cc xi off w in
    exists t r : list C,
      cplx_trunc C0 Cadd true false w li ri F 0 1 flo fhi = Some ((li mod w)%Z, t) /\
      rebuild_complex C0 w (li mod w) t = Some r /\
      forall k : Z, (0 <= k < w)%Z ->
        exists resid : C,
          get C0 (cplx_full C0 Cadd w false F flo fhi) k = Cadd (get C0 r k) resid /\
          Cnorm resid <= 2 * eps.
Proof. exact gammatone_rebuild_within_2eps_l. Qed.
Print Assumptions gammatone_rebuild_within_2eps.

(* ---- tie by translation: the index arithmetic extracted from filters.py
   (gen/C06Index.v, module Ix) is the one the model is built from ---- *)
Local Open Scope Z_scope.

Theorem source_tri_indices_are_the_models :
  forall (w : Z) (f rate : Q),
    Ix.tri_full_left_idx w f rate = left_index w f rate /\
    Ix.tri_trunc_left_idx w f rate = left_index w f rate /\
    Ix.fbank_full_left_idx w f rate = left_index w f rate /\
    Ix.fbank_trunc_left_idx w f rate = left_index w f rate /\
    Ix.tri_full_right_idx w f rate = right_index w f rate /\
    Ix.tri_trunc_right_idx w f rate = right_index w f rate /\
    Ix.fbank_full_right_idx w f rate = right_index w f rate /\
    Ix.fbank_trunc_right_idx w f rate = right_index w f rate.
Proof. exact tri_index_tie. Qed.
Print Assumptions source_tri_indices_are_the_models.

Theorem source_dft_size_is_the_models :
  forall (w : Z) (half : bool),
    Ix.tri_full_dft_size w half = dft_size w half /\
    Ix.fbank_full_dft_size w half = dft_size w half /\
    Ix.gabor_full_dft_size w half = dft_size w half /\
    Ix.gt_full_dft_size w half = dft_size w half.
Proof. exact dft_size_tie. Qed.
Print Assumptions source_dft_size_is_the_models.

Theorem source_tri_loops_are_the_models :
  forall (V : Type) (zero : V) (w li ri : Z) (analytic half : bool) (val : Z -> V),
    (tri_full zero w li ri analytic half val =
     full_from zero (Ix.tri_full_zeros (Ix.tri_full_dft_size w half))
               (Ix.tri_full_range li ri (Ix.tri_full_dft_size w half))
               (Ix.tri_full_mirror half analytic) val /\
     tri_full zero w li ri analytic half val =
     full_from zero (Ix.fbank_full_zeros (Ix.fbank_full_dft_size w half))
               (Ix.fbank_full_range li ri (Ix.fbank_full_dft_size w half))
               (Ix.fbank_full_mirror half analytic) val) /\
    (tri_trunc zero false w li ri val =
     trunc_from zero (Ix.tri_trunc_zeros w li ri) (Ix.tri_trunc_range w li ri)
                (fun idx => Ix.tri_trunc_offset idx li) (Ix.tri_trunc_start w li) val /\
     tri_trunc zero true w li ri val =
     trunc_from zero (Ix.fbank_trunc_zeros w li ri) (Ix.fbank_trunc_range w li ri)
                (fun idx => Ix.fbank_trunc_offset idx li) (Ix.fbank_trunc_start w li) val).
Proof. intros; split; [apply tri_full_tie | apply tri_trunc_tie]. Qed.
Print Assumptions source_tri_loops_are_the_models.

Theorem source_cplx_loops_are_the_models :
  forall (V : Type) (zero : V) (add : V -> V -> V) (fallback : bool) (w li ri : Z) (F : Z -> V)
         (tlo thi flo fhi : Z),
    cplx_trunc zero add false fallback w li ri F tlo thi flo fhi =
      (if fallback then Some (Ix.gabor_trunc_whole_start, cplx_full zero add w false F flo fhi)
       else if Ix.gabor_trunc_zeros li ri <? 0 then None
       else Some (Ix.gabor_trunc_start w li,
                  map (img_sum zero add w F tlo thi)
                      (zrange (fst (Ix.gabor_trunc_bins li ri)) (snd (Ix.gabor_trunc_bins li ri))))) /\
    cplx_trunc zero add true fallback w li ri F tlo thi flo fhi =
      (if fallback then Some (Ix.gt_trunc_whole_start, cplx_full zero add w false F flo fhi)
       else Some (Ix.gt_trunc_start w li,
                  map (img_sum zero add w F tlo thi)
                      (zrange (fst (Ix.gt_trunc_bins li ri)) (snd (Ix.gt_trunc_bins li ri))))).
Proof. exact @cplx_trunc_tie. Qed.
Print Assumptions source_cplx_loops_are_the_models.

Theorem source_cplx_indices_are_the_models :
  forall (w : Z) (lo_t hi_t pi_ : Q),
    (0 < pi_)%Q ->
    Ix.gabor_trunc_left_idx w lo_t pi_ = left_index w lo_t 1 /\
    Ix.gabor_trunc_right_idx w hi_t pi_ = right_index w hi_t 1 /\
    Ix.gt_trunc_left_idx w lo_t pi_ = left_index w lo_t 1 /\
    Ix.gt_trunc_right_idx w hi_t pi_ = right_index w hi_t 1 /\
    Ix.gabor_full_periods lo_t hi_t pi_ = (gabor_flo lo_t, gabor_fhi hi_t) /\
    Ix.gabor_trunc_periods lo_t hi_t pi_ = (gabor_tlo lo_t, gabor_thi hi_t) /\
    Ix.gt_full_periods (Ix.gt_full_left_period lo_t pi_) (Ix.gt_full_right_period hi_t pi_)
      = (gt_flo lo_t, gt_fhi hi_t).
Proof. exact cplx_index_tie. Qed.
Print Assumptions source_cplx_indices_are_the_models.

Theorem source_whole_period_tests :
  forall (lo_t hi_t wrap pi_ : Q),
    (Ix.gabor_whole_period lo_t hi_t wrap pi_ = true <-> (2 * pi_ <= wrap)%Q) /\
    (Ix.gt_whole_period lo_t hi_t wrap pi_ = true <->
     (2 * pi_ <= hi_t * (2 * pi_) - lo_t * (2 * pi_) + wrap)%Q).
Proof. exact whole_period_tie. Qed.
Print Assumptions source_whole_period_tests.
