(* C06 - triangular / Fbank: pointwise specifications of the loops and the
   theorems relating full, half and truncated responses through the documented
   recipes.  Everything is parametric in the value type V and the per-bin value
   [val]; the hypotheses on the indices (0 <= li, 2*ri <= w) are discharged for
   the rational index arithmetic in IndexProofs.v. *)
From Coq Require Import ZArith List Bool Lia ZifyBool.
From Verif Require Import C06.Model C06.ArrayLemmas.
Import ListNotations.
Open Scope Z_scope.
Ltac Zify.zify_post_hook ::= Z.to_euclidean_division_equations.

Ltac ifs :=
  repeat match goal with
         | |- context [if ?c then _ else _] => destruct c eqn:?
         end.

Lemma dft_size_half w : 0 <= w -> dft_size w true = w / 2 + 1.
Proof. intros H; unfold dft_size. destruct (w mod 2 =? 0) eqn:E; lia. Qed.

Lemma doc_half_len_eq w : 0 <= w -> doc_half_len w = dft_size w true.
Proof. intros H; unfold doc_half_len, dft_size. destruct (w mod 2 =? 0) eqn:E; lia. Qed.

Section TriProofs.
  Context {V : Type}.
  Variable zero : V.
  Variable val : Z -> V.
  Notation get := (get zero).

  (* what bin j of the full response holds *)
  Definition full_spec (w li ri : Z) (analytic : bool) (j : Z) : V :=
    if (li <=? j) && (j <=? ri) then val j
    else if negb analytic && (0 <? j) && (li <=? w - j) && (w - j <=? ri) then val (w - j)
    else zero.

  Definition half_spec (li ri : Z) (j : Z) : V :=
    if (li <=? j) && (j <=? ri) then val j else zero.

  Lemma tri_full_spec w li ri analytic :
    0 <= li -> 2 * ri <= w -> 1 <= w ->
    exists a, tri_full zero w li ri analytic false val = Some a /\ len a = w /\
              forall j, 0 <= j < w -> get a j = full_spec w li ri analytic j.
  Proof.
    intros Hli Hri Hw. unfold tri_full. cbn [dft_size].
    destruct (zeros_spec zero w ltac:(lia)) as (a0 & -> & Hl0 & Hg0).
    destruct (Z_lt_le_dec (ri + 1) li) as [Hempty | Hne].
    - rewrite zrange_nil by lia. cbn. exists a0; repeat split; auto.
      intros j Hj. rewrite Hg0. unfold full_spec. ifs; try reflexivity; lia.
    - replace (Z.min w (ri + 1)) with (ri + 1) by lia.
      destruct (foldM_zrange_inv
                  (fun res idx =>
                     match set_item res idx (val idx) with
                     | None => None
                     | Some r1 => if negb false && negb analytic then set_item r1 (- idx) (val idx)
                                  else Some r1
                     end)
                  (fun t a => len a = w /\ forall j, 0 <= j < w -> get a j = full_spec w li (t - 1) analytic j)
                  li (ri + 1) a0 Hne) as (a & Ha & Hl & Hg).
      + split; [exact Hl0|]. intros j Hj. rewrite Hg0. unfold full_spec. ifs; try reflexivity; lia.
      + intros t a Ht (Hl & Hg).
        destruct (set_item_spec zero a t (val t) t) as (a1 & -> & Hl1 & Hg1);
          [rewrite Hl; apply norm_index_pos; lia|].
        destruct analytic; cbn [negb andb].
        * exists a1; split; [reflexivity|]. split; [lia|].
          intros j Hj. rewrite Hg1 by lia. unfold full_spec in *. cbn [negb andb] in *.
          destruct (j =? t) eqn:E.
          -- ifs; try reflexivity; try lia; f_equal; lia.
          -- rewrite Hg by lia. ifs; try reflexivity; lia.
        * assert (Hn : norm_index (len a1) (- t) = Some (if t =? 0 then 0 else w - t)).
          { rewrite Hl1, Hl. destruct (t =? 0) eqn:E.
            - replace (- t) with 0 by lia. apply norm_index_pos; lia.
            - rewrite norm_index_neg by lia. f_equal; lia. }
          destruct (set_item_spec zero a1 (- t) (val t) _ Hn) as (a2 & -> & Hl2 & Hg2).
          exists a2; split; [reflexivity|]. split; [lia|].
          intros j Hj. rewrite Hg2, Hg1 by lia. unfold full_spec in *. cbn [negb andb] in *.
          destruct (t =? 0) eqn:E0; destruct (j =? t) eqn:E1.
          -- ifs; try reflexivity; try lia; f_equal; lia.
          -- rewrite Hg by lia. ifs; try reflexivity; try lia.
          -- ifs; try reflexivity; try lia; f_equal; lia.
          -- destruct (j =? w - t) eqn:E2.
             ++ ifs; try reflexivity; try lia; f_equal; lia.
             ++ rewrite Hg by lia. ifs; try reflexivity; try lia.
      + exists a; split; [exact Ha|]. split; [exact Hl|].
        intros j Hj. rewrite Hg by lia. replace (ri + 1 - 1) with ri by lia. reflexivity.
  Qed.

  Lemma tri_half_spec w li ri analytic :
    0 <= li -> 2 * ri <= w -> 1 <= w ->
    exists a, tri_full zero w li ri analytic true val = Some a /\ len a = dft_size w true /\
              forall j, 0 <= j < dft_size w true -> get a j = half_spec li ri j.
  Proof.
    intros Hli Hri Hw. unfold tri_full.
    pose proof (dft_size_half w ltac:(lia)) as Hd. set (n := dft_size w true) in *.
    destruct (zeros_spec zero n ltac:(lia)) as (a0 & -> & Hl0 & Hg0).
    destruct (Z_lt_le_dec (ri + 1) li) as [Hempty | Hne].
    - rewrite zrange_nil by lia. cbn. exists a0; repeat split; auto.
      intros j Hj. rewrite Hg0. unfold half_spec. ifs; try reflexivity; lia.
    - replace (Z.min n (ri + 1)) with (ri + 1) by lia.
      destruct (foldM_zrange_inv
                  (fun res idx =>
                     match set_item res idx (val idx) with
                     | None => None
                     | Some r1 => if negb true && negb analytic then set_item r1 (- idx) (val idx)
                                  else Some r1
                     end)
                  (fun t a => len a = n /\ forall j, 0 <= j < n -> get a j = half_spec li (t - 1) j)
                  li (ri + 1) a0 Hne) as (a & Ha & Hl & Hg).
      + split; [exact Hl0|]. intros j Hj. rewrite Hg0. unfold half_spec. ifs; try reflexivity; lia.
      + intros t a Ht (Hl & Hg).
        destruct (set_item_spec zero a t (val t) t) as (a1 & -> & Hl1 & Hg1);
          [rewrite Hl; apply norm_index_pos; lia|].
        cbn [negb andb]. exists a1; split; [reflexivity|]. split; [lia|].
        intros j Hj. rewrite Hg1 by lia. unfold half_spec in *.
        destruct (j =? t) eqn:E.
        * ifs; try reflexivity; try lia; f_equal; lia.
        * rewrite Hg by lia. ifs; try reflexivity; lia.
      + exists a; split; [exact Ha|]. split; [exact Hl|].
        intros j Hj. rewrite Hg by lia. replace (ri + 1 - 1) with ri by lia. reflexivity.
  Qed.

  Lemma tri_trunc_spec fbank w li ri :
    0 <= li <= ri + 1 -> 2 * ri <= w -> 1 <= w ->
    exists t, tri_trunc zero fbank w li ri val = Some (li, t) /\ len t = ri + 1 - li /\
              forall j, 0 <= j < ri + 1 - li -> get t j = val (li + j).
  Proof.
    intros Hli Hri Hw. unfold tri_trunc.
    replace (Z.min w (ri + 1)) with (ri + 1) by lia.
    replace (if fbank then ri + 1 - li else 1 + ri - li) with (ri + 1 - li) by (destruct fbank; lia).
    destruct (zeros_spec zero (ri + 1 - li) ltac:(lia)) as (a0 & -> & Hl0 & Hg0).
    destruct (foldM_zrange_inv
                (fun res idx => set_item res (idx - li) (val idx))
                (fun t a => len a = ri + 1 - li /\
                            forall j, 0 <= j < ri + 1 - li ->
                                      get a j = if j <? t - li then val (li + j) else zero)
                li (ri + 1) a0 ltac:(lia)) as (a & -> & Hl & Hg).
    - split; [exact Hl0|]. intros j Hj. rewrite Hg0. ifs; try reflexivity; lia.
    - intros t a Ht (Hl & Hg).
      destruct (set_item_spec zero a (t - li) (val t) (t - li)) as (a1 & -> & Hl1 & Hg1);
        [rewrite Hl; apply norm_index_pos; lia|].
      exists a1; split; [reflexivity|]. split; [lia|].
      intros j Hj. rewrite Hg1 by lia. destruct (j =? t - li) eqn:E.
      + ifs; try lia; f_equal; lia.
      + rewrite Hg by lia. ifs; try reflexivity; lia.
    - exists a; split; [reflexivity|]. split; [exact Hl|].
      intros j Hj. rewrite Hg by lia. ifs; try reflexivity; lia.
  Qed.

  (** ** half=True is the documented prefix of the full response *)
  Lemma half_is_prefix_l w li ri analytic :
    0 <= li -> 2 * ri <= w -> 1 <= w ->
    exists f h, tri_full zero w li ri analytic false val = Some f /\
                tri_full zero w li ri analytic true val = Some h /\
                len h = doc_half_len w /\
                h = firstn (Z.to_nat (doc_half_len w)) f.
  Proof.
    intros Hli Hri Hw.
    destruct (tri_full_spec w li ri analytic Hli Hri Hw) as (f & Hf & Hlf & Hgf).
    destruct (tri_half_spec w li ri analytic Hli Hri Hw) as (h & Hh & Hlh & Hgh).
    exists f, h. rewrite doc_half_len_eq by lia.
    pose proof (dft_size_half w ltac:(lia)) as Hd.
    repeat split; auto.
    apply (list_ext_get zero).
    - rewrite len_firstn; lia.
    - intros j Hj. rewrite get_firstn by lia. rewrite Hgh, Hgf by lia.
      unfold half_spec, full_spec. ifs; try reflexivity; try lia; f_equal; lia.
  Qed.

  (** ** real banks: Hermitian symmetry (values are real: conjugation is the identity) *)
  Lemma real_hermitian_l w li ri :
    0 <= li -> 2 * ri <= w -> 1 <= w ->
    exists f, tri_full zero w li ri false false val = Some f /\ len f = w /\
              forall j, 0 <= j < w -> get f j = get f ((w - j) mod w).
  Proof.
    intros Hli Hri Hw.
    destruct (tri_full_spec w li ri false Hli Hri Hw) as (f & Hf & Hlf & Hgf).
    exists f; repeat split; auto. intros j Hj.
    destruct (Z.eq_dec j 0) as [-> | Hn].
    - replace ((w - 0) mod w) with 0; [reflexivity|].
      rewrite Z.sub_0_r, Z_mod_same_full. reflexivity.
    - rewrite Z.mod_small by lia. rewrite !Hgf by lia.
      unfold full_spec. cbn [negb andb]. replace (w - (w - j)) with j by lia.
      ifs; try reflexivity; try lia; f_equal; lia.
  Qed.

  (** ** analytic banks: nothing above the Nyquist bin *)
  Lemma analytic_zero_negative_l w li ri :
    0 <= li -> 2 * ri <= w -> 1 <= w ->
    exists f, tri_full zero w li ri true false val = Some f /\ len f = w /\
              forall j, w / 2 < j < w -> get f j = zero.
  Proof.
    intros Hli Hri Hw.
    destruct (tri_full_spec w li ri true Hli Hri Hw) as (f & Hf & Hlf & Hgf).
    exists f; repeat split; auto. intros j Hj. rewrite Hgf by lia.
    unfold full_spec. cbn [negb andb]. ifs; try reflexivity; lia.
  Qed.

  (** ** a real bank's truncated response stays within the half spectrum *)
  Lemma real_within_half_l fbank w li ri :
    0 <= li <= ri + 1 -> 2 * ri <= w -> 1 <= w ->
    exists t, tri_trunc zero fbank w li ri val = Some (li, t) /\
              0 <= li /\ li + len t <= doc_half_len w.
  Proof.
    intros Hli Hri Hw.
    destruct (tri_trunc_spec fbank w li ri Hli Hri Hw) as (t & Ht & Hlt & _).
    exists t; split; [exact Ht|]. rewrite doc_half_len_eq, dft_size_half by lia. lia.
  Qed.

  Lemma rebuild_half_exact_l fbank w li ri analytic :
    0 <= li <= ri + 1 -> 2 * ri <= w -> 1 <= w ->
    exists t h, tri_trunc zero fbank w li ri val = Some (li, t) /\
                tri_full zero w li ri analytic true val = Some h /\
                rebuild_half zero w li t = Some h.
  Proof.
    intros Hli Hri Hw.
    destruct (tri_trunc_spec fbank w li ri Hli Hri Hw) as (t & Ht & Hlt & Hgt).
    destruct (tri_half_spec w li ri analytic ltac:(lia) Hri Hw) as (h & Hh & Hlh & Hgh).
    exists t, h; repeat split; auto.
    unfold rebuild_half. rewrite doc_half_len_eq by lia.
    pose proof (dft_size_half w ltac:(lia)) as Hd. set (n := dft_size w true) in *.
    destruct (zeros_spec zero n ltac:(lia)) as (f0 & -> & Hl0 & Hg0).
    assert (S1 : slice_start (len f0) (Some li) = li)
      by (cbn [slice_start]; unfold clip; rewrite Hl0; ifs; lia).
    assert (L1 : slice_len (len f0) (Some li) (Some (li + len t)) = len t)
      by (unfold slice_len; cbn [slice_start slice_stop]; unfold clip; rewrite Hl0, Hlt; ifs; lia).
    destruct (set_slice_spec zero f0 (Some li) (Some (li + len t)) t) as (f1 & -> & Hl1 & Hg1);
      [rewrite S1; lia | rewrite S1, L1; lia | rewrite L1; reflexivity |].
    rewrite S1, L1 in Hg1.
    f_equal. apply (list_ext_get zero); [lia|].
    intros j Hj. rewrite Hl1, Hl0 in Hj. rewrite Hg1 by lia. rewrite Hgh by lia.
    unfold half_spec. rewrite Hlt.
    destruct ((li <=? j) && (j <? li + (ri + 1 - li))) eqn:E.
    - rewrite Hgt by lia. ifs; try lia; f_equal; lia.
    - rewrite Hg0. ifs; try reflexivity; lia.
  Qed.
  (** ** the recipes rebuild the full / half response exactly *)
  Variable conj : V -> V.
  Hypothesis conj_val : forall i, conj (val i) = val i.

  Lemma rebuild_real_exact_l fbank w li ri :
    0 <= li <= ri + 1 -> 2 * ri <= w -> 1 <= w ->
    exists t f, tri_trunc zero fbank w li ri val = Some (li, t) /\
                tri_full zero w li ri false false val = Some f /\
                rebuild_real zero conj w li t = Some f.
  Proof.
    intros Hli Hri Hw.
    destruct (tri_trunc_spec fbank w li ri Hli Hri Hw) as (t & Ht & Hlt & Hgt).
    destruct (tri_full_spec w li ri false ltac:(lia) Hri Hw) as (f & Hf & Hlf & Hgf).
    exists t, f; repeat split; auto.
    unfold rebuild_real.
    destruct (zeros_spec zero w ltac:(lia)) as (f0 & -> & Hl0 & Hg0).
    (* first assignment *)
    destruct (set_slice_spec zero f0 (Some li) (Some (li + len t)) t) as (f1 & -> & Hl1 & Hg1).
    { cbn [slice_start]; unfold clip; rewrite Hl0; ifs; lia. }
    { cbn [slice_start slice_len slice_stop]; unfold slice_len; cbn [slice_start slice_stop];
        unfold clip; rewrite Hl0, Hlt; ifs; lia. }
    { unfold slice_len; cbn [slice_start slice_stop]; unfold clip; rewrite Hl0, Hlt; ifs; lia. }
    assert (S1 : slice_start (len f0) (Some li) = li)
      by (cbn [slice_start]; unfold clip; rewrite Hl0; ifs; lia).
    assert (L1 : slice_len (len f0) (Some li) (Some (li + len t)) = len t)
      by (unfold slice_len; cbn [slice_start slice_stop]; unfold clip; rewrite Hl0, Hlt; ifs; lia).
    rewrite S1, L1 in Hg1.
    (* second assignment *)
    set (m := map conj (rev_for_mirror li t)).
    assert (Hlr : len (rev_for_mirror li t) = if li =? 0 then Z.max 0 (len t - 1) else len t).
    { unfold rev_for_mirror. destruct (li =? 0); rewrite len_rev; [apply len_tl | reflexivity]. }
    assert (Hlm : len m = if li =? 0 then Z.max 0 (len t - 1) else len t).
    { unfold m. rewrite len_map. exact Hlr. }
    assert (S2 : slice_start (len f1) (Some (w - li - len t + 1)) = Z.min w (w - li - len t + 1))
      by (cbn [slice_start]; unfold clip; rewrite Hl1, Hl0, Hlt; ifs; lia).
    assert (L2 : slice_len (len f1) (Some (w - li - len t + 1)) (Some (w - li + 1)) = len m).
    { unfold slice_len; cbn [slice_start slice_stop]; unfold clip; rewrite Hl1, Hl0, Hlm, Hlt.
      ifs; lia. }
    destruct (set_slice_spec zero f1 (Some (w - li - len t + 1)) (Some (w - li + 1)) m)
      as (f2 & -> & Hl2 & Hg2).
    { rewrite S2; lia. }
    { rewrite S2, L2, Hl1, Hl0, Hlm, Hlt. ifs; lia. }
    { rewrite L2; reflexivity. }
    rewrite S2, L2 in Hg2.
    f_equal. apply (list_ext_get zero); [lia|].
    intros j Hj. rewrite Hl2, Hl1, Hl0 in Hj.
    rewrite Hg2 by lia. rewrite Hgf by lia. unfold full_spec. cbn [negb andb].
    destruct ((Z.min w (w - li - len t + 1) <=? j) && (j <? Z.min w (w - li - len t + 1) + len m)) eqn:E.
    - (* mirrored part *)
      rewrite Hlm, Hlt in E.
      unfold m. rewrite get_map.
      2:{ rewrite Hlr, Hlt. ifs; lia. }
      unfold rev_for_mirror. destruct (li =? 0) eqn:E0.
      + rewrite get_rev by (rewrite len_tl, Hlt; lia).
        rewrite len_tl, Hlt. rewrite get_tl by lia. rewrite Hgt by lia. rewrite conj_val.
        ifs; try lia; f_equal; lia.
      + rewrite get_rev by (rewrite Hlt; lia). rewrite Hlt. rewrite Hgt by lia. rewrite conj_val.
        ifs; try lia; f_equal; lia.
    - rewrite Hg1 by lia. rewrite Hlm, Hlt in E. destruct (li =? 0) eqn:E0.
      all: destruct ((li <=? j) && (j <? li + len t)) eqn:E1.
      all: rewrite Hlt in E1.
      all: try (rewrite Hgt by lia; ifs; try lia; f_equal; lia).
      all: rewrite Hg0; ifs; try reflexivity; lia.
  Qed.

End TriProofs.
