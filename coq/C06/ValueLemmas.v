(* C06 - sums of images over R and over pairs of reals as explicit sums over the
   list of unrolled bin numbers (used by the certified value comparisons and by
   the 2*eps bounds). *)
From Coq Require Import Reals ZArith List Lia.
From Verif Require Import C06.Model C06.CplxProofs C06.ModelR.
Import ListNotations.
Open Scope R_scope.

Lemma Rimg_sum_as_list (w : Z) (F : Z -> R) (plo phi n : Z) :
  Rimg_sum w F plo phi n = fold_left Rplus (map F (img_list w plo phi n)) 0.
Proof. unfold Rimg_sum. rewrite img_sum_sumV. reflexivity. Qed.

Lemma fst_fold_Cadd (l : list C) (acc : C) :
  fst (fold_left Cadd l acc) = fold_left Rplus (map fst l) (fst acc).
Proof. revert acc; induction l; intros acc; cbn; [reflexivity|]. rewrite IHl. reflexivity. Qed.

Lemma snd_fold_Cadd (l : list C) (acc : C) :
  snd (fold_left Cadd l acc) = fold_left Rplus (map snd l) (snd acc).
Proof. revert acc; induction l; intros acc; cbn; [reflexivity|]. rewrite IHl. reflexivity. Qed.

Lemma Cimg_sum_fst (w : Z) (F : Z -> C) (plo phi n : Z) :
  fst (Cimg_sum w F plo phi n) = fold_left Rplus (map (fun x => fst (F x)) (img_list w plo phi n)) 0.
Proof.
  unfold Cimg_sum. rewrite img_sum_sumV. unfold sumV. rewrite fst_fold_Cadd, map_map. reflexivity.
Qed.

Lemma Cimg_sum_snd (w : Z) (F : Z -> C) (plo phi n : Z) :
  snd (Cimg_sum w F plo phi n) = fold_left Rplus (map (fun x => snd (F x)) (img_list w plo phi n)) 0.
Proof.
  unfold Cimg_sum. rewrite img_sum_sumV. unfold sumV. rewrite snd_fold_Cadd, map_map. reflexivity.
Qed.
