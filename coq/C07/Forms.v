(* C07: real and imaginary parts of the complex-valued model functions, in the
   shape the Interval tactic can evaluate.  Used by the generated correspondence
   files (harness/c07.py) to certify values observed on the implementation. *)
From Coq Require Import Reals ZArith Lra Lia.
From Coquelicot Require Import Complex.
From Flocq Require Import Core.Raux.
From Verif Require Import lib.C07_Base C07.Model.
Open Scope R_scope.

Lemma cis_plus a b : (cis a * cis b)%C = cis (a + b).
Proof. unfold cis, Cmult; simpl. rewrite cos_plus, sin_plus. f_equal; ring. Qed.

Lemma re_scal_cis r x : fst (RtoC r * cis x)%C = r * cos x.
Proof. simpl. ring. Qed.
Lemma im_scal_cis r x : snd (RtoC r * cis x)%C = r * sin x.
Proof. simpl. ring. Qed.

(** * Gabor *)
Lemma gabor_ir_re l2 std xi W j :
  fst (gabor_ir l2 std xi W j) =
  gabor_env l2 std (IZR j) * cos (xi * IZR j) + gabor_env l2 std (IZR (W - j)) * cos (xi * IZR (W - j)).
Proof. unfold gabor_ir, gabor_val. simpl. ring. Qed.

Lemma gabor_ir_im l2 std xi W j :
  snd (gabor_ir l2 std xi W j) =
  gabor_env l2 std (IZR j) * sin (xi * IZR j) - gabor_env l2 std (IZR (W - j)) * sin (xi * IZR (W - j)).
Proof. unfold gabor_ir, gabor_val. simpl. ring. Qed.

(* the frequency response once the period range is known *)
Lemma gabor_fr_periods l2 std xi lo_ang hi_ang W idx (plo phi : Z) :
  gabor_period_lo lo_ang = plo -> gabor_period_hi hi_ang = phi ->
  gabor_fr l2 std xi lo_ang hi_ang W idx =
  Rsum (fun period => gabor_fr_term l2 std xi ((IZR idx / IZR W + IZR period) * 2 * PI)) plo (phi - 1).
Proof. intros <- <-. reflexivity. Qed.

Lemma Ztrunc_eq x (n : Z) : (0 <= n)%Z -> IZR n <= x < IZR n + 1 -> Ztrunc x = n.
Proof.
  intros Hn [H1 H2]. assert (0 <= x) by (apply Rle_trans with (IZR n); [apply (IZR_le 0); exact Hn | exact H1]).
  rewrite Ztrunc_floor by assumption. apply Zfloor_imp. rewrite plus_IZR. simpl. lra.
Qed.

(** * Triangular *)
Lemma Cdiv_R (z : C) x : x <> 0 -> (z / RtoC x)%C = (fst z / x, snd z / x).
Proof.
  intros Hx. destruct z as [a b]. unfold Cdiv, Cinv, Cmult, RtoC; simpl.
  f_equal; field; exact Hx.
Qed.

Definition tri_num_re (l m r t : R) : R :=
  let d := tri_div_term l m r in
  (r - l) / d * cos (m * t) - (r - m) / d * cos (l * t) - (m - l) / d * cos (r * t).
Definition tri_num_im (l m r t : R) : R :=
  let d := tri_div_term l m r in
  (r - l) / d * sin (m * t) - (r - m) / d * sin (l * t) - (m - l) / d * sin (r * t).

Lemma tri_numer_parts analytic l m r t :
  tri_numer analytic l m r t = (tri_num_re l m r t, if analytic then tri_num_im l m r t else 0).
Proof.
  unfold tri_numer, tri_num_re, tri_num_im. cbv zeta. destruct analytic.
  - unfold cis, Cminus, Cplus, Copp, Cmult, RtoC; simpl. f_equal; ring.
  - reflexivity.
Qed.

Lemma tri_val_parts analytic l m r (t : Z) : t <> 0%Z ->
  tri_val analytic l m r t =
  (tri_num_re l m r (IZR t) / (IZR t ^ 2), (if analytic then tri_num_im l m r (IZR t) else 0) / (IZR t ^ 2)).
Proof.
  intros Ht. unfold tri_val. rewrite tri_numer_parts.
  assert (IZR t <> 0) by (apply not_0_IZR; exact Ht).
  rewrite Cdiv_R by (apply pow_nonzero; assumption). reflexivity.
Qed.

Lemma tri_denom_neq analytic l m r : l < m < r -> tri_denom analytic l m r <> 0.
Proof.
  intros [H1 H2]. pose proof PI_RGT_0. unfold tri_denom, tri_denom0.
  destruct (Rgt_dec (r - m) (m - l)); destruct analytic;
    apply Rgt_not_eq; apply Rmult_lt_0_compat; try lra; apply Rmult_lt_0_compat; lra.
Qed.

(* samples 0 < j < W *)
Lemma tri_ir_re analytic l m r W j : l < m < r -> (0 < j < W)%Z ->
  fst (tri_ir analytic l m r W j) =
  (tri_num_re l m r (IZR j) / (IZR j ^ 2) + tri_num_re l m r (IZR (W - j)) / (IZR (W - j) ^ 2))
  / tri_denom analytic l m r.
Proof.
  intros H Hj. unfold tri_ir. destruct (Z.eqb_spec j 0) as [E|E]; [lia|].
  rewrite Cdiv_R by (apply tri_denom_neq; exact H).
  rewrite !tri_val_parts by lia. reflexivity.
Qed.

Lemma tri_ir_im analytic l m r W j : l < m < r -> (0 < j < W)%Z ->
  snd (tri_ir analytic l m r W j) =
  (if analytic then
     (tri_num_im l m r (IZR j) / (IZR j ^ 2) - tri_num_im l m r (IZR (W - j)) / (IZR (W - j) ^ 2))
     / tri_denom analytic l m r
   else 0).
Proof.
  intros H Hj. unfold tri_ir. destruct (Z.eqb_spec j 0) as [E|E]; [lia|].
  rewrite Cdiv_R by (apply tri_denom_neq; exact H).
  rewrite !tri_val_parts by lia. destruct analytic; simpl; [reflexivity|].
  unfold Rdiv. ring.
Qed.

(* sample 0 *)
Lemma tri_ir0_re analytic l m r W : l < m < r -> (0 < W)%Z ->
  fst (tri_ir analytic l m r W 0) =
  (tri_num_re l m r (IZR W) / (IZR W ^ 2) + tri_numer0 l m r / 2) / tri_denom analytic l m r.
Proof.
  intros H HW. unfold tri_ir. simpl Z.eqb. cbv iota.
  rewrite Cdiv_R by (apply tri_denom_neq; exact H).
  rewrite tri_val_parts by lia. reflexivity.
Qed.

(** * Gammatone *)
Lemma gt_h_re c alpha xi n offset t :
  fst (gt_h c alpha xi n offset t) = gt_habs c alpha n offset t * cos (xi * (t - offset)).
Proof. unfold gt_h. apply re_scal_cis. Qed.
Lemma gt_h_im c alpha xi n offset t :
  snd (gt_h c alpha xi n offset t) = gt_habs c alpha n offset t * sin (xi * (t - offset)).
Proof. unfold gt_h. apply im_scal_cis. Qed.

Lemma gt_habs_after c alpha n offset t : offset < t ->
  gt_habs c alpha n offset t = exp (ln c + (INR n - 1) * ln (t - offset) + - alpha * (t - offset)).
Proof. intros H. unfold gt_habs. destruct (Rle_dec t offset); [lra | reflexivity]. Qed.

Lemma gt_habs_before' c alpha n offset t : t <= offset -> gt_habs c alpha n offset t = 0.
Proof. intros H. unfold gt_habs. destruct (Rle_dec t offset); [reflexivity | lra]. Qed.

(* the impulse response once the period range is known *)
Lemma gt_ir_periods c alpha xi n offset (sup : Z * Z) W j (plo phi : Z) :
  Zfloor (IZR (fst sup) / IZR W) = plo -> Zceil (IZR (snd sup) / IZR W) = phi ->
  gt_ir c alpha xi n offset sup W j =
  Csum (fun period => gt_h c alpha xi n offset (IZR (period * W + j))) plo phi.
Proof. intros <- <-. reflexivity. Qed.

Lemma fst_Csum3 f (a : Z) : fst (Csum f a (a + 2)) = fst (f a) + fst (f (a + 1)%Z) + fst (f (a + 2)%Z).
Proof.
  unfold Csum, sum_range. replace (a + 2 + 1 - a)%Z with 3%Z by lia. simpl.
  replace (a + 1 + 1)%Z with (a + 2)%Z by lia. ring.
Qed.
Lemma snd_Csum3 f (a : Z) : snd (Csum f a (a + 2)) = snd (f a) + snd (f (a + 1)%Z) + snd (f (a + 2)%Z).
Proof.
  unfold Csum, sum_range. replace (a + 2 + 1 - a)%Z with 3%Z by lia. simpl.
  replace (a + 1 + 1)%Z with (a + 2)%Z by lia. ring.
Qed.
Lemma fst_Csum2 f (a : Z) : fst (Csum f a (a + 1)) = fst (f a) + fst (f (a + 1)%Z).
Proof. unfold Csum, sum_range. replace (a + 1 + 1 - a)%Z with 2%Z by lia. simpl. ring. Qed.
Lemma snd_Csum2 f (a : Z) : snd (Csum f a (a + 1)) = snd (f a) + snd (f (a + 1)%Z).
Proof. unfold Csum, sum_range. replace (a + 1 + 1 - a)%Z with 2%Z by lia. simpl. ring. Qed.

(* polar form of the frequency response: (alpha + i x)^n = rho^n cis(n atan(x/alpha)) *)
Lemma polar_base alpha x : 0 < alpha ->
  ((alpha, x) : C) = (RtoC (sqrt (alpha * alpha + x * x)) * cis (atan (x / alpha)))%C.
Proof.
  intros Ha. unfold cis. rewrite cos_atan, sin_atan.
  assert (Hs : 0 < alpha * alpha + x * x).
  { pose proof (Rle_0_sqr x) as H. unfold Rsqr in H. nra. }
  assert (E : sqrt (1 + (x / alpha)²) = sqrt (alpha * alpha + x * x) / alpha).
  { replace (1 + (x / alpha)²) with ((alpha * alpha + x * x) / (alpha * alpha)) by (unfold Rsqr; field; lra).
    rewrite sqrt_div_alt by nra. rewrite sqrt_square by lra. reflexivity. }
  rewrite E. assert (0 < sqrt (alpha * alpha + x * x)) by (apply sqrt_lt_R0; exact Hs).
  unfold Cmult, RtoC; simpl. f_equal; field; split; lra.
Qed.

Lemma Cpow_nat_polar rho th n :
  Cpow_nat (RtoC rho * cis th)%C n = (RtoC (rho ^ n) * cis (INR n * th))%C.
Proof.
  induction n as [|n IH].
  - simpl. unfold cis. rewrite Rmult_0_l, cos_0, sin_0. unfold Cmult, RtoC; simpl. f_equal; ring.
  - cbn [Cpow_nat]. rewrite IH. rewrite S_INR.
    replace ((INR n + 1) * th) with (th + INR n * th) by ring. rewrite <- cis_plus.
    change (rho ^ S n) with (rho * rho ^ n). rewrite RtoC_mult. ring.
Qed.

Lemma cis_inv th : (/ cis th)%C = cis (- th).
Proof.
  unfold cis, Cinv; simpl. rewrite cos_neg, sin_neg.
  assert (E : cos th * (cos th * 1) + sin th * (sin th * 1) = 1).
  { replace (cos th * (cos th * 1) + sin th * (sin th * 1)) with ((sin th)² + (cos th)²) by (unfold Rsqr; ring).
    apply sin2_cos2. }
  rewrite !E. f_equal; field.
Qed.

Lemma Cinv_mult (a b : C) : a <> RtoC 0 -> b <> RtoC 0 -> (/ (a * b))%C = (/ a * / b)%C.
Proof. intros Ha Hb. field. split; assumption. Qed.

Definition gt_H_mag (c alpha xi : R) (n : nat) (omega : R) : R :=
  c * INR (fact (n - 1)) / sqrt (alpha * alpha + (omega - xi) * (omega - xi)) ^ n.
Definition gt_H_arg (alpha xi : R) (n : nat) (offset omega : R) : R :=
  - omega * offset + - (INR n * atan ((omega - xi) / alpha)).

Lemma gt_H_polar c alpha xi n offset omega : 0 < alpha ->
  gt_H c alpha xi n offset omega =
  (RtoC (gt_H_mag c alpha xi n omega) * cis (gt_H_arg alpha xi n offset omega))%C.
Proof.
  intros Ha. unfold gt_H, gt_H_mag, gt_H_arg. cbv zeta.
  rewrite (polar_base alpha (omega - xi) Ha), Cpow_nat_polar.
  set (rho := sqrt (alpha * alpha + (omega - xi) * (omega - xi))).
  assert (Hrho : 0 < rho).
  { apply sqrt_lt_R0. pose proof (Rle_0_sqr (omega - xi)) as H. unfold Rsqr in H. nra. }
  assert (Hrn : rho ^ n <> 0) by (apply pow_nonzero; lra).
  assert (Hc1 : RtoC (rho ^ n) <> RtoC 0) by (intro E; apply (f_equal fst) in E; simpl in E; contradiction).
  assert (Hc2 : cis (INR n * atan ((omega - xi) / alpha)) <> RtoC 0).
  { intro E. apply (f_equal Cmod) in E. rewrite Cmod_cis, Cmod_0 in E. lra. }
  unfold Cdiv. rewrite Cinv_mult by assumption. rewrite cis_inv.
  rewrite <- cis_plus. rewrite <- RtoC_inv by exact Hrn.
  unfold Rdiv. rewrite !RtoC_mult. ring.
Qed.

Lemma gt_H_re c alpha xi n offset omega : 0 < alpha ->
  fst (gt_H c alpha xi n offset omega) = gt_H_mag c alpha xi n omega * cos (gt_H_arg alpha xi n offset omega).
Proof. intros Ha. rewrite gt_H_polar by exact Ha. apply re_scal_cis. Qed.
Lemma gt_H_im c alpha xi n offset omega : 0 < alpha ->
  snd (gt_H c alpha xi n offset omega) = gt_H_mag c alpha xi n omega * sin (gt_H_arg alpha xi n offset omega).
Proof. intros Ha. rewrite gt_H_polar by exact Ha. apply im_scal_cis. Qed.

Lemma gt_fr_periods c alpha xi n offset left_sup right_sup W idx (plo phi : Z) :
  Zfloor (left_sup / 2 / PI) = plo -> Zceil (right_sup / 2 / PI) = phi ->
  gt_fr c alpha xi n offset left_sup right_sup W idx =
  Csum (fun period => gt_H c alpha xi n offset (IZR idx * 2 * PI / IZR W + 2 * PI * IZR period)) plo phi.
Proof. intros <- <-. reflexivity. Qed.

(* the first period of the Gabor frequency loop, without Rmax *)
Lemma gabor_period_lo_nonneg lo : 0 <= lo -> gabor_period_lo lo = (-1)%Z.
Proof.
  intros H. unfold gabor_period_lo. rewrite Rmax_right by lra.
  replace (0 / (2 * PI)) with 0 by (unfold Rdiv; ring). rewrite (Ztrunc_IZR 0). reflexivity.
Qed.
Lemma gabor_period_lo_neg lo (k : Z) : lo < 0 -> (0 <= k)%Z ->
  IZR k <= - lo / (2 * PI) < IZR k + 1 -> gabor_period_lo lo = (-1 - k)%Z.
Proof.
  intros H Hk Hb. unfold gabor_period_lo. rewrite Rmax_left by lra.
  rewrite (Ztrunc_eq _ k Hk Hb). reflexivity.
Qed.
