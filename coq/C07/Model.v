(* C07 - model of the parts of pydrobert/speech/filters.py that the property
   "impulse and frequency responses agree, within the advertised supports" is
   anchored in.  Definitions only.

   Conventions
   - float64 values are modelled by real numbers (rounding is not modelled);
   - [int(np.ceil x)] is [Zceil x], [int(np.floor x)] is [Zfloor x], [int(x)] on a
     float is [Ztrunc x] (Flocq's definitions);
   - complex128 is Coquelicot's [C]; [np.exp(1j * x)] is [cis x];
   - [np.zeros(width)] followed by [res[i] += v] loops: the Gabor and triangular
     get_impulse_response loops are modelled statement by statement ([gabor_ir_writes],
     [tri_ir_writes], [acc_read]) and proved equal to the closed forms [gabor_ir], [tri_ir]
     (ProofsLoops.v); loops of the form "for period: res[idx] += f(idx, period)" are written
     directly as the sum over the period range; assignment loops ([res[i] = v]) are modelled
     as "last write wins" ([fr_writes], [read_writes]);
   - scalar constructor formulas are ALSO regenerated from the source by
     gen/c07_filters.py (coq/gen/C07Filters.v); C07/Tie.v proves them equal to the
     definitions below.
   Source line numbers refer to src/pydrobert/speech/filters.py. *)
From Coq Require Import Reals ZArith List Bool.
From Coquelicot Require Import Complex.
From Flocq Require Import Core.Raux.
From Verif Require Import lib.C07_Base.
Open Scope R_scope.

(** * Classes, flags, dtypes (lines 309-319, 364, 507-517, 562-569, 778-792, 826, 1068-1086, 1121) *)
Inductive bank_kind := Tri | Fbank | Gabor | Gammatone.
Inductive dtype := Float64 | Complex128.

Definition is_real (k : bank_kind) (analytic : bool) : bool :=
  match k with
  | Tri | Fbank => negb analytic          (* return not self._analytic *)
  | Gabor | Gammatone => false            (* return False *)
  end.

Definition is_zero_phase (k : bank_kind) : bool :=
  match k with Gammatone => false | _ => true end.

(* dtype of the array returned by get_impulse_response *)
Definition ir_dtype (k : bank_kind) (analytic : bool) : dtype :=
  match k with
  | Tri => if analytic then Complex128 else Float64   (* np.zeros(width, dtype=complex128 if self._analytic else float64) *)
  | Fbank => if analytic then Complex128 else Float64 (* np.fft.ifft(...) : complex128 | np.fft.irfft(...) : float64 *)
  | Gabor | Gammatone => Complex128                   (* np.zeros(width, dtype=np.complex128) *)
  end.

(** * Unit conversion (util.py:108-115) *)
Definition h2a (hz rate : R) : R := hz * 2 * PI / rate.
Definition a2h (ang rate : R) : R := ang * rate / (2 * PI).

(** * Triangular bank *)
(* supports, lines 349-357.  l m r are the angular vertices. *)
Definition tri_K_real (eps l m r : R) : R :=
  sqrt (8 * (r - l) / PI) / sqrt eps / (sqrt (m - l) * sqrt (r - m)).
Definition tri_K (eps l m r : R) : Z := Zceil (tri_K_real eps l m r).
(* (-K // 2 - 1, K // 2 + 1): Python parses -K // 2 as (-K) // 2; Z.div floors *)
Definition tri_supports (K : Z) : Z * Z := ((- K) / 2 - 1, K / 2 + 1)%Z.

(* Fbank supports, lines 548-559 *)
Definition fbank_K_real (eps l m r : R) : R :=
  Rpower
    ((r - l + 2 * ((r - m) * (m - l)) ^ 2) / (eps ^ 2 * PI) / ((r - m) * (m - l))
       / sqrt eps / (sqrt (m - l) * sqrt (r - m)))
    (3333 / 10000).
Definition fbank_K (eps l m r : R) : Z := Zceil (fbank_K_real eps l m r).

(* get_impulse_response, lines 360-393 *)
Definition tri_div_term (l m r : R) : R := if Rgt_dec (r - m) (m - l) then m - l else r - m.
Definition tri_denom0 (l m r : R) : R := if Rgt_dec (r - m) (m - l) then r - m else m - l.
Definition tri_denom (analytic : bool) (l m r : R) : R :=
  tri_denom0 l m r * ((if analytic then 1 else 0) + 1) * PI.
(* numer for sample t, lines 374-381 *)
Definition tri_numer (analytic : bool) (l m r t : R) : C :=
  let d := tri_div_term l m r in
  if analytic then
    (RtoC ((r - l) / d) * cis (m * t) - RtoC ((r - m) / d) * cis (l * t)
     - RtoC ((m - l) / d) * cis (r * t))%C
  else
    RtoC ((r - l) / d * cos (m * t) - (r - m) / d * cos (l * t) - (m - l) / d * cos (r * t)).
Definition tri_val (analytic : bool) (l m r : R) (t : Z) : C :=
  (tri_numer analytic l m r (IZR t) / RtoC (IZR t ^ 2))%C.
(* lines 388-391 *)
Definition tri_numer0 (l m r : R) : R :=
  let d := tri_div_term l m r in
  m / d * (r ^ 2 - l ^ 2) + r / d * (l ^ 2 - m ^ 2) + l / d * (m ^ 2 - r ^ 2).
(* What the loop "for t in range(1, width + 1)" leaves in res[j], 0 <= j < W:
   t = j writes val(j) into res[j] (t < width), t = W - j writes conj(val(W-j)) into
   res[-(W-j)] = res[j]; t = W writes val(W) into res[0]; then res[0] += numer0/2
   and res /= denom. *)
Definition tri_ir (analytic : bool) (l m r : R) (W j : Z) : C :=
  ((if (j =? 0)%Z then tri_val analytic l m r W + RtoC (tri_numer0 l m r / 2)
    else tri_val analytic l m r j + Cconj (tri_val analytic l m r (W - j)))
   / RtoC (tri_denom analytic l m r))%C.

(* get_frequency_response, lines 395-421 (and Fbank's, 571-602, with another val).
   left, mid, right are the vertices in Hz.  The loop performs assignments, so the
   array is "last write wins". *)
Definition dft_size (W : Z) (half : bool) : Z :=
  if half then (if (W mod 2 =? 0)%Z then W / 2 + 1 else (W + 1) / 2)%Z else W.
Definition tri_left_idx (left rate : R) (W : Z) : Z := Zceil (IZR W * left / rate).
Definition tri_right_idx (right rate : R) (W : Z) : Z := Ztrunc (IZR W * right / rate).
Definition tri_point (left mid right hz : R) : R :=
  if Rle_dec hz mid then (hz - left) / (mid - left) else (right - hz) / (right - mid).

Fixpoint Zseq (lo : Z) (n : nat) : list Z :=
  match n with O => nil | S k => lo :: Zseq (lo + 1) k end.
(* range(lo, hi) *)
Definition Zrange (lo hi : Z) : list Z := Zseq lo (Z.to_nat (hi - lo)).

(* res[-idx] on an array of length n: position 0 for idx = 0, n - idx otherwise *)
Definition neg_index (n idx : Z) : Z := if (idx =? 0)%Z then 0%Z else (n - idx)%Z.

(* the assignments performed by the loop, in order *)
Definition fr_writes (val : Z -> R) (mirror : bool) (n lo hi : Z) : list (Z * R) :=
  flat_map (fun idx => (idx, val idx) :: (if mirror then (neg_index n idx, val idx) :: nil else nil))
           (Zrange lo hi).
(* reading cell j after performing the assignments on np.zeros *)
Definition read_writes (ws : list (Z * R)) (j : Z) : R :=
  fold_left (fun acc iv => if (fst iv =? j)%Z then snd iv else acc) ws 0.

Definition tri_fr_val (left mid right rate : R) (W idx : Z) : R :=
  tri_point left mid right (rate * IZR idx / IZR W).
Definition tri_fr (analytic half : bool) (left mid right rate : R) (W j : Z) : R :=
  let n := dft_size W half in
  read_writes
    (fr_writes (tri_fr_val left mid right rate W) (negb half && negb analytic) n
               (tri_left_idx left rate W) (Z.min n (tri_right_idx right rate W + 1)))
    j.

(* Fbank: the triangle is taken on the mel scale and square-rooted (lines 593-601);
   [mel] is MelScaling.hertz_to_scale. *)
Definition fbank_fr_val (mel : R -> R) (left mid right rate : R) (W idx : Z) : R :=
  Rpower (tri_point (mel left) (mel mid) (mel right) (mel (rate * IZR idx / IZR W))) (1 / 2).
Definition fbank_fr (mel : R -> R) (analytic half : bool) (left mid right rate : R) (W j : Z) : R :=
  let n := dft_size W half in
  read_writes
    (fr_writes (fbank_fr_val mel left mid right rate W) (negb half && negb analytic) n
               (tri_left_idx left rate W) (Z.min n (tri_right_idx right rate W + 1)))
    j.

(** * Edges of the Gabor / gammatone banks (constructor lines 711-722, 995-1002):
   uniformly spaced on the scale, half a step inside [low, high].  [h2s]/[s2h] are the
   scaling function's hertz_to_scale / scale_to_hertz (gen/Scales.v, property C19);
   [high] is the effective upper edge (sampling_rate // 2 when high_hz is None). *)
Definition bank_edge (h2s s2h : R -> R) (low high nf idx : R) : R :=
  let scale_low := h2s low in
  let scale_high := h2s high in
  let scale_delta := (scale_high - scale_low) / (nf + 1) in
  s2h (scale_low + scale_delta * (idx + 1 / 2)).

(** * Gabor bank (constructor lines 730-776) *)
Definition gabor_t_support_const (eps : R) (l2 : bool) : R :=
  if l2 then - 2 * ln eps - 1 / 2 * ln PI else - 2 * ln eps - (ln 2 + ln PI).
Definition gabor_f_support_const (eps : R) (l2 : bool) : R :=
  if l2 then - 2 * ln eps + (ln 2 + 1 / 2 * ln PI) else - 2 * ln eps.
Definition gabor_bandwidth_const (erb : bool) : R :=
  if erb then sqrt PI / 2 else sqrt (3 / 10 * ln 10).
Definition gabor_std (erb : bool) (rate left_edge right_edge : R) : R :=
  let center := (left_edge + right_edge) / 2 in
  gabor_bandwidth_const erb / h2a (center - left_edge) rate.
Definition gabor_diff_ang (eps : R) (l2 : bool) (std : R) : R :=
  if l2 then sqrt (ln std + gabor_f_support_const eps l2) / std
  else sqrt (gabor_f_support_const eps l2) / std.
Definition gabor_diff_samps_real (eps : R) (l2 : bool) (std : R) : R :=
  if l2 then std * sqrt (gabor_t_support_const eps l2 - ln std)
  else std * sqrt (gabor_t_support_const eps l2 - 2 * ln std).
Definition gabor_diff_samps (eps : R) (l2 : bool) (std : R) : Z :=
  Zceil (gabor_diff_samps_real eps l2 std).
Definition gabor_supports (d : Z) : Z * Z := (- d, d)%Z.
Definition gabor_supports_ang (center_ang diff_ang : R) : R * R :=
  (center_ang - diff_ang, center_ang + diff_ang).

(* get_impulse_response, lines 823-839 *)
Definition gabor_ir_const (l2 : bool) (std : R) : R :=
  if l2 then - (1 / 2) * ln std - 1 / 4 * ln PI else - (1 / 2) * ln (2 * PI) - ln std.
(* val for sample t: np.exp(-(t**2)/denom_term + const_term + 1j*center_ang*t) *)
Definition gabor_env (l2 : bool) (std t : R) : R :=
  exp (- (t ^ 2) / (2 * std ^ 2) + gabor_ir_const l2 std).
Definition gabor_val (l2 : bool) (std center_ang : R) (t : Z) : C :=
  (RtoC (gabor_env l2 std (IZR t)) * cis (center_ang * IZR t))%C.
(* res[j], 0 <= j < W: t = j adds val(j) (t != width); t = W - j (1 <= t <= W) adds
   conj(val(W - j)) to res[-t] = res[j] *)
Definition gabor_ir (l2 : bool) (std center_ang : R) (W j : Z) : C :=
  (gabor_val l2 std center_ang j + Cconj (gabor_val l2 std center_ang (W - j)))%C.

(* get_frequency_response, lines 841-868 *)
Definition gabor_fr_const (l2 : bool) (std : R) : R :=
  if l2 then 1 / 2 * ln (2 * std) + 1 / 4 * ln PI else 0.
Definition gabor_fr_term (l2 : bool) (std center_ang omega : R) : R :=
  exp (- (std ^ 2) / 2 * (center_ang - omega) ^ 2 + gabor_fr_const l2 std).
(* range(-1 - int(max(-lowest_ang, 0) / (2 pi)), 2 + int(highest_ang / (2 pi))) *)
Definition gabor_period_lo (lowest_ang : R) : Z := (- 1 - Ztrunc (Rmax (- lowest_ang) 0 / (2 * PI)))%Z.
Definition gabor_period_hi (highest_ang : R) : Z := (2 + Ztrunc (highest_ang / (2 * PI)))%Z.
Definition gabor_fr (l2 : bool) (std center_ang lowest_ang highest_ang : R) (W idx : Z) : R :=
  Rsum (fun period => gabor_fr_term l2 std center_ang ((IZR idx / IZR W + IZR period) * 2 * PI))
       (gabor_period_lo lowest_ang) (gabor_period_hi highest_ang - 1).

(** * Complex gammatone bank (constructor lines 1012-1054) *)
Definition gt_alpha_const (erb : bool) (n : nat) : R :=
  if erb then
    ln 2 * (2 * INR n - 1) + 2 * ln (INR (fact (n - 1))) - ln (INR (fact (2 * n - 2))) - ln (2 * PI)
  else - (1 / 2) * ln (4 * Rpower 2 (1 / INR n) - 4).
Definition gt_log_alpha (erb : bool) (n : nat) (rate left_edge right_edge : R) : R :=
  gt_alpha_const erb n + ln (h2a (right_edge - left_edge) rate).
Definition gt_log_c (l2 : bool) (n : nat) (log_alpha : R) : R :=
  if l2 then
    INR n * (log_alpha + ln 2) - 1 / 2 * (ln 2 + log_alpha + ln (INR (fact (2 * n - 2))))
  else INR n * log_alpha - ln (INR (fact (n - 1))).
Definition gt_offset (max_centered : bool) (n : nat) (alpha : R) : R :=
  if max_centered then - (INR n - 1) / alpha else 0.
Definition gt_supp_a (eps : R) (n : nat) (log_c : R) : R :=
  2 / INR n * (log_c + ln (INR (fact (n - 1))) - ln eps).
Definition gt_diff_ang (eps : R) (n : nat) (log_c log_alpha : R) : R :=
  Rpower (exp (gt_supp_a eps n log_c) - exp (2 * log_alpha)) (1 / 2).

(* _h, lines 1164-1175: modulus and value at (real) time t *)
Definition gt_habs (c alpha : R) (n : nat) (offset t : R) : R :=
  if Rle_dec t offset then 0
  else exp (ln c + (INR n - 1) * ln (t - offset) + - alpha * (t - offset)).
Definition gt_h (c alpha xi : R) (n : nat) (offset t : R) : C :=
  (RtoC (gt_habs c alpha n offset t) * cis (xi * (t - offset)))%C.
(* the envelope in shifted time s = t - offset *)
Definition gt_env (c alpha : R) (n : nat) (s : R) : R := c * s ^ (n - 1) * exp (- alpha * s).

(* _H, lines 1177-1186 *)
Fixpoint Cpow_nat (z : C) (n : nat) : C :=
  match n with O => RtoC 1 | S k => (z * Cpow_nat z k)%C end.
Definition gt_H (c alpha xi : R) (n : nat) (offset omega : R) : C :=
  let denom_base : C := (alpha, (omega - xi)%R) in
  ((cis (- omega * offset) * RtoC c * RtoC (INR (fact (n - 1)))) / Cpow_nat denom_base n)%C.

(* _calculate_temp_support, lines 1188-1213, branch n >= 2.
   _d uses the UNSHIFTED time t although h_0 is evaluated in shifted time; this is
   what the code does and it is modelled as such. *)
Definition gt_d (c alpha : R) (n : nat) (t : R) : R :=
  c * exp (- alpha * t) * t ^ (n - 2) * ((INR n - 1) - alpha * t).
Definition gt_newton_start (alpha : R) (n : nat) : R :=
  (INR n - 1 + sqrt ((INR n - 1) / 2)) / alpha.
(* while h_0 > eps: right -= h_0 / d_0.  [None] = fuel exhausted (the Python loop
   would still be running). *)
Fixpoint gt_newton (fuel : nat) (eps c alpha : R) (n : nat) (offset right : R) : option R :=
  let h0 := gt_habs c alpha n offset right in
  if Rgt_dec h0 eps then
    match fuel with
    | O => None
    | S f => gt_newton f eps c alpha n offset (right - h0 / gt_d c alpha n right)
    end
  else Some right.
Definition gt_supports (offset right : R) : Z * Z := (Zfloor offset, Zceil right).

(* get_impulse_response, lines 1117-1126 *)
Definition gt_ir (c alpha xi : R) (n : nat) (offset : R) (sup : Z * Z) (W j : Z) : C :=
  Csum (fun period => gt_h c alpha xi n offset (IZR (period * W + j)))
       (Zfloor (IZR (fst sup) / IZR W)) (Zceil (IZR (snd sup) / IZR W)).

(* get_frequency_response, lines 1128-1145 *)
Definition gt_fr (c alpha xi : R) (n : nat) (offset left_sup right_sup : R) (W idx : Z) : C :=
  Csum (fun period => gt_H c alpha xi n offset (IZR idx * 2 * PI / IZR W + 2 * PI * IZR period))
       (Zfloor (left_sup / 2 / PI)) (Zceil (right_sup / 2 / PI)).

(** * The accumulation loops of get_impulse_response, statement by statement *)
(* np.zeros(width) followed by "res[i] += v" statements, in order *)
Definition acc_read (ws : list (Z * C)) (j : Z) : C :=
  fold_left (fun a iv => if (fst iv =? j)%Z then (a + snd iv)%C else a) ws (RtoC 0).
(* position of res[-t] in an array of length n, for 1 <= t <= n *)
Definition py_neg (n t : Z) : Z := (n - t)%Z.

(* GaborFilterBank.get_impulse_response, lines 832-838: for t in range(width + 1) *)
Definition gabor_ir_writes (l2 : bool) (std xi : R) (W : Z) : list (Z * C) :=
  flat_map (fun t =>
              (if (t =? W)%Z then nil else (t, gabor_val l2 std xi t) :: nil) ++
              (if (t =? 0)%Z then nil else (py_neg W t, Cconj (gabor_val l2 std xi t)) :: nil))
           (Zrange 0 (W + 1)).

(* TriangularOverlappingFilterBank.get_impulse_response, lines 373-392 *)
Definition tri_ir_writes (analytic : bool) (l m r : R) (W : Z) : list (Z * C) :=
  flat_map (fun t =>
              if (t <? W)%Z then (t, tri_val analytic l m r t) :: (py_neg W t, Cconj (tri_val analytic l m r t)) :: nil
              else (0%Z, tri_val analytic l m r t) :: nil)
           (Zrange 1 (W + 1))
  ++ (0%Z, RtoC (tri_numer0 l m r / 2)) :: nil.
Definition tri_ir_loop (analytic : bool) (l m r : R) (W j : Z) : C :=
  (acc_read (tri_ir_writes analytic l m r W) j / RtoC (tri_denom analytic l m r))%C.


(** * "outside the advertised support, modulo the buffer / the sampling rate" *)
Definition outside_mod (lo hi : Z) (W j : Z) : Prop :=
  forall k : Z, ~ (lo <= j + k * W <= hi)%Z.
Definition outside_mod_R (lo hi period x : R) : Prop :=
  forall k : Z, ~ (lo <= x + IZR k * period <= hi).
