(* C07: dtype logic, support straddling, the frequency-domain loops of the
   compactly supported banks. *)
From Coq Require Import Reals ZArith List Bool Lra Lia ZifyBool.
From Coquelicot Require Import Complex.
From Flocq Require Import Core.Raux.
From Verif Require Import lib.C07_Base C07.Model.
Ltac Zify.zify_post_hook ::= Z.to_euclidean_division_equations.
Open Scope R_scope.

(** * dtype logic *)
Lemma ir_real_iff_is_real_l : forall k analytic,
  ir_dtype k analytic = Float64 <-> is_real k analytic = true.
Proof. intros [] []; simpl; split; intros H; try reflexivity; discriminate. Qed.

Lemma zero_phase_kinds_l : forall k, is_zero_phase k = true <-> k <> Gammatone.
Proof. intros []; simpl; split; intros H; try reflexivity; try discriminate; try congruence. Qed.

(** * supports straddle sample 0 *)
Lemma tri_supports_straddle_l : forall K : Z, (0 <= K)%Z ->
  (fst (tri_supports K) < 0 < snd (tri_supports K))%Z.
Proof. intros K HK; unfold tri_supports; simpl; lia. Qed.

Lemma tri_supports_length_l : forall K : Z,
  (snd (tri_supports K) - fst (tri_supports K) = K + 2)%Z.
Proof. intros K; unfold tri_supports; simpl; lia. Qed.

Lemma tri_supports_symmetric_l : forall K : Z,
  (- snd (tri_supports K) - 1 <= fst (tri_supports K) <= - snd (tri_supports K))%Z.
Proof. intros K; unfold tri_supports; simpl; lia. Qed.

Lemma tri_K_real_pos eps l m r : 0 < eps -> l < m < r -> 0 < tri_K_real eps l m r.
Proof.
  intros He [Hlm Hmr]. unfold tri_K_real.
  assert (0 < sqrt (8 * (r - l) / PI)).
  { apply sqrt_lt_R0. apply Rdiv_lt_0_compat; [lra | apply PI_RGT_0]. }
  assert (0 < sqrt eps) by (apply sqrt_lt_R0; lra).
  assert (0 < sqrt (m - l)) by (apply sqrt_lt_R0; lra).
  assert (0 < sqrt (r - m)) by (apply sqrt_lt_R0; lra).
  apply Rdiv_lt_0_compat; [apply Rdiv_lt_0_compat; assumption | apply Rmult_lt_0_compat; assumption].
Qed.

Lemma tri_bank_supports_straddle_l : forall eps l m r, 0 < eps -> l < m < r ->
  let s := tri_supports (tri_K eps l m r) in (fst s < 0 < snd s)%Z.
Proof.
  intros eps l m r He H. apply tri_supports_straddle_l.
  pose proof (Zceil_pos _ (tri_K_real_pos eps l m r He H)). unfold tri_K. lia.
Qed.

Lemma fbank_bank_supports_straddle_l : forall eps l m r,
  let s := tri_supports (fbank_K eps l m r) in (fst s < 0 < snd s)%Z.
Proof.
  intros eps l m r. apply tri_supports_straddle_l.
  unfold fbank_K, fbank_K_real, Rpower.
  pose proof (Zceil_pos _ (exp_pos (3333 / 10000 *
    ln ((r - l + 2 * ((r - m) * (m - l)) ^ 2) / (eps ^ 2 * PI) / ((r - m) * (m - l)) / sqrt eps /
        (sqrt (m - l) * sqrt (r - m)))))). lia.
Qed.

Lemma gabor_supports_straddle_l : forall eps l2 std,
  0 < gabor_diff_samps_real eps l2 std ->
  let s := gabor_supports (gabor_diff_samps eps l2 std) in (fst s < 0 < snd s)%Z.
Proof.
  intros eps l2 std H. pose proof (Zceil_pos _ H). unfold gabor_supports, gabor_diff_samps; simpl. lia.
Qed.

(* the hypothesis of the previous lemma in terms of the constructor's quantities *)
Lemma gabor_diff_samps_real_pos eps l2 std :
  0 < std ->
  0 < gabor_t_support_const eps l2 - (if l2 then 1 else 2) * ln std ->
  0 < gabor_diff_samps_real eps l2 std.
Proof.
  intros Hs H. unfold gabor_diff_samps_real. destruct l2.
  - apply Rmult_lt_0_compat; [lra | apply sqrt_lt_R0; lra].
  - apply Rmult_lt_0_compat; [lra | apply sqrt_lt_R0; lra].
Qed.

Lemma gt_causal_starts_at_zero_l : forall n alpha right,
  fst (gt_supports (gt_offset false n alpha) right) = 0%Z.
Proof. intros; unfold gt_supports, gt_offset; cbn [fst]. exact (Zfloor_IZR 0). Qed.

Lemma gt_centered_starts_before_zero_l : forall (n : nat) alpha right,
  (2 <= n)%nat -> 0 < alpha ->
  (fst (gt_supports (gt_offset true n alpha) right) < 0)%Z.
Proof.
  intros n alpha right Hn Ha. unfold gt_supports, gt_offset; cbn [fst].
  assert (Hn1 : 1 <= INR n - 1).
  { assert (2 <= INR n) by (apply (le_INR 2); exact Hn). lra. }
  assert (Hneg : - (INR n - 1) / alpha < 0).
  { unfold Rdiv. rewrite <- Ropp_mult_distr_l. apply Ropp_lt_gt_0_contravar.
    apply Rmult_lt_0_compat; [lra | apply Rinv_0_lt_compat; lra]. }
  pose proof (Zfloor_lb (- (INR n - 1) / alpha)) as Hl.
  assert (IZR (Zfloor (- (INR n - 1) / alpha)) < 0) by lra.
  apply lt_IZR in H. exact H.
Qed.

(** * "last write wins" arrays *)
Lemma read_writes_app ws1 ws2 j :
  read_writes (ws1 ++ ws2) j =
  fold_left (fun acc iv => if (fst iv =? j)%Z then snd iv else acc) ws2 (read_writes ws1 j).
Proof. unfold read_writes. apply fold_left_app. Qed.

Lemma fold_untouched (ws : list (Z * R)) (j : Z) : forall a : R,
  (forall iv, In iv ws -> fst iv <> j) ->
  fold_left (fun acc iv => if (fst iv =? j)%Z then snd iv else acc) ws a = a.
Proof.
  induction ws as [|[i v] ws IH]; intros a H; simpl; [reflexivity|].
  assert (i <> j) by (apply (H (i, v)); left; reflexivity).
  destruct (Z.eqb_spec i j); [contradiction|].
  apply IH. intros iv Hin. apply H. right; exact Hin.
Qed.

Lemma read_untouched ws j :
  (forall iv, In iv ws -> fst iv <> j) -> read_writes ws j = 0.
Proof. apply fold_untouched. Qed.

(* every value ever written is a value of [val] on the range *)
Lemma fold_all_same (P : R -> Prop) (ws : list (Z * R)) (j : Z) : forall a : R,
  P a -> (forall iv, In iv ws -> P (snd iv)) ->
  P (fold_left (fun acc iv => if (fst iv =? j)%Z then snd iv else acc) ws a).
Proof.
  induction ws as [|[i v] ws IH]; intros a Ha H; simpl; [exact Ha|].
  apply IH.
  - destruct (i =? j)%Z; [apply (H (i, v)); left; reflexivity | exact Ha].
  - intros iv Hin. apply H. right; exact Hin.
Qed.

Lemma In_Zseq x n : forall lo, In x (Zseq lo n) <-> (lo <= x < lo + Z.of_nat n)%Z.
Proof.
  induction n as [|n IH]; intros lo; simpl.
  - split; [tauto | lia].
  - rewrite IH. split; [intros [H|H]; lia | intros H; destruct (Z.eq_dec lo x); [left; assumption | right; lia]].
Qed.

Lemma In_Zrange x lo hi : In x (Zrange lo hi) <-> (lo <= x < hi)%Z.
Proof. unfold Zrange. rewrite In_Zseq. lia. Qed.

Lemma In_fr_writes val mirror n lo hi iv :
  In iv (fr_writes val mirror n lo hi) ->
  exists idx, (lo <= idx < hi)%Z /\ snd iv = val idx /\
              (fst iv = idx \/ (mirror = true /\ fst iv = neg_index n idx)).
Proof.
  unfold fr_writes. rewrite in_flat_map. intros [idx [Hr Hin]].
  apply In_Zrange in Hr. exists idx. split; [exact Hr|].
  destruct Hin as [H|H].
  - subst iv; simpl. split; [reflexivity | left; reflexivity].
  - destruct mirror; [|destruct H].
    destruct H as [H|[]]. subst iv; simpl. split; [reflexivity | right; split; reflexivity].
Qed.

(* A cell that is neither a visited bin nor the mirror image of one stays 0. *)
Lemma fr_zero_outside_l val mirror n lo hi j :
  ~ (lo <= j < hi)%Z ->
  (mirror = true -> forall idx, (lo <= idx < hi)%Z -> neg_index n idx <> j) ->
  read_writes (fr_writes val mirror n lo hi) j = 0.
Proof.
  intros H1 H2. apply read_untouched. intros iv Hin.
  apply In_fr_writes in Hin. destruct Hin as [idx [Hr [_ [Hi|[Hm Hi]]]]].
  - rewrite Hi. intro; subst; contradiction.
  - rewrite Hi. apply H2; assumption.
Qed.

(* every cell holds 0 or a value of val on the visited range *)
Lemma fr_value_l val mirror n lo hi j :
  read_writes (fr_writes val mirror n lo hi) j = 0 \/
  exists idx, (lo <= idx < hi)%Z /\ read_writes (fr_writes val mirror n lo hi) j = val idx.
Proof.
  unfold read_writes.
  apply (fold_all_same (fun x => x = 0 \/ exists idx, (lo <= idx < hi)%Z /\ x = val idx)).
  - left; reflexivity.
  - intros iv Hin. apply In_fr_writes in Hin. destruct Hin as [idx [Hr [Hv _]]].
    right. exists idx. split; assumption.
Qed.

(** ** index range of the triangular banks = the bins whose frequency lies in [left, right] *)
Lemma tri_idx_range_iff left right rate W idx :
  0 < rate -> (0 < W)%Z -> 0 <= right -> (0 <= idx)%Z ->
  ((tri_left_idx left rate W <= idx < tri_right_idx right rate W + 1)%Z <->
   left <= rate * IZR idx / IZR W <= right).
Proof.
  intros Hr HW Hright Hidx. unfold tri_left_idx, tri_right_idx.
  assert (HWr : 0 < IZR W) by (apply (IZR_lt 0); exact HW).
  assert (Hnn : 0 <= IZR W * right / rate).
  { apply Rmult_le_pos; [apply Rmult_le_pos; lra | left; apply Rinv_0_lt_compat; lra]. }
  rewrite (Ztrunc_floor _ Hnn).
  assert (E1 : forall x, x <= rate * IZR idx / IZR W <-> IZR W * x / rate <= IZR idx).
  { intros x. split; intros H.
    - apply Rmult_le_reg_r with (rate / IZR W); [apply Rdiv_lt_0_compat; lra|].
      replace (IZR W * x / rate * (rate / IZR W)) with x by (field; lra).
      replace (IZR idx * (rate / IZR W)) with (rate * IZR idx / IZR W) by (field; lra). exact H.
    - apply Rmult_le_reg_r with (IZR W / rate); [apply Rdiv_lt_0_compat; lra|].
      replace (x * (IZR W / rate)) with (IZR W * x / rate) by (field; lra).
      replace (rate * IZR idx / IZR W * (IZR W / rate)) with (IZR idx) by (field; lra). exact H. }
  assert (E2 : forall x, rate * IZR idx / IZR W <= x <-> IZR idx <= IZR W * x / rate).
  { intros x. split; intros H.
    - apply Rmult_le_reg_r with (rate / IZR W); [apply Rdiv_lt_0_compat; lra|].
      replace (IZR W * x / rate * (rate / IZR W)) with x by (field; lra).
      replace (IZR idx * (rate / IZR W)) with (rate * IZR idx / IZR W) by (field; lra). exact H.
    - apply Rmult_le_reg_r with (IZR W / rate); [apply Rdiv_lt_0_compat; lra|].
      replace (x * (IZR W / rate)) with (IZR W * x / rate) by (field; lra).
      replace (rate * IZR idx / IZR W * (IZR W / rate)) with (IZR idx) by (field; lra). exact H. }
  rewrite E1, E2. split.
  - intros [Ha Hb]. split.
    + eapply Rle_trans; [apply Zceil_ub|]. apply IZR_le; exact Ha.
    + assert (idx <= Zfloor (IZR W * right / rate))%Z by lia.
      eapply Rle_trans; [apply IZR_le; exact H|]. apply Zfloor_lb.
  - intros [Ha Hb]. split.
    + apply Zceil_glb; exact Ha.
    + pose proof (Zfloor_lub idx _ Hb). lia.
Qed.

(* Outside the advertised frequency support (modulo the sampling rate, mirrored for a
   real bank) the triangular / Fbank frequency response is exactly zero. *)
Lemma fr_loop_zero_outside_hz_l val (analytic half : bool) left right rate W j :
  0 < rate -> (0 < W)%Z -> 0 <= left -> 0 <= right ->
  (0 <= j < dft_size W half)%Z ->
  ~ (left <= rate * IZR j / IZR W <= right) ->
  (half = false -> analytic = false -> ~ (left <= rate * IZR (W - j) / IZR W <= right)) ->
  let n := dft_size W half in
  read_writes
    (fr_writes val (negb half && negb analytic) n
               (tri_left_idx left rate W) (Z.min n (tri_right_idx right rate W + 1))) j = 0.
Proof.
  intros Hr HW Hl Hrt Hj Hout Hmir n. apply fr_zero_outside_l.
  - intros [Ha Hb]. apply Hout. apply tri_idx_range_iff; try assumption; lia.
  - intros Hm idx [Ha Hb]. apply andb_true_iff in Hm. destruct Hm as [Hh Han].
    apply negb_true_iff in Hh. apply negb_true_iff in Han. subst half analytic.
    assert (Hli : (0 <= tri_left_idx left rate W)%Z).
    { unfold tri_left_idx. rewrite <- (Zceil_IZR 0). apply Zceil_le.
      assert (0 < IZR W) by (apply (IZR_lt 0); exact HW).
      apply Rmult_le_pos; [apply Rmult_le_pos; lra | left; apply Rinv_0_lt_compat; lra]. }
    unfold neg_index. destruct (Z.eqb_spec idx 0) as [E|E].
    + subst idx. intro Hj0. subst j. apply Hout.
      apply tri_idx_range_iff; try assumption; lia.
    + intro Hj0. subst j. apply (Hmir eq_refl eq_refl).
      replace (W - (n - idx))%Z with idx by (unfold n, dft_size; lia).
      apply tri_idx_range_iff; try assumption; lia.
Qed.

(** ** exact contents of the assignment loop; even symmetry of a real bank's full response *)
(* if every assignment to cell j stores x, the cell holds x as soon as it is assigned at all *)
Lemma fold_same_value (ws : list (Z * R)) (j : Z) (x : R) : forall a : R,
  (forall iv, In iv ws -> fst iv = j -> snd iv = x) ->
  fold_left (fun acc iv => if (fst iv =? j)%Z then snd iv else acc) ws a =
  if existsb (fun iv => (fst iv =? j)%Z) ws then x else a.
Proof.
  induction ws as [|[i v] ws IH]; intros a H; simpl; [reflexivity|].
  assert (Hrest : forall iv, In iv ws -> fst iv = j -> snd iv = x) by (intros iv Hin; apply H; right; exact Hin).
  rewrite IH by exact Hrest.
  destruct (Z.eqb_spec i j) as [E|E]; simpl.
  - assert (Hv : v = x) by (apply (H (i, v)); [left; reflexivity | exact E]). subst v.
    destruct (existsb _ ws); reflexivity.
  - reflexivity.
Qed.

Lemma existsb_fr_direct val mirror n lo hi j : (lo <= j < hi)%Z ->
  existsb (fun iv : Z * R => (fst iv =? j)%Z) (fr_writes val mirror n lo hi) = true.
Proof.
  intros Hj. apply existsb_exists. exists (j, val j). split; [|simpl; lia].
  unfold fr_writes. apply in_flat_map. exists j. split; [apply In_Zrange; exact Hj | left; reflexivity].
Qed.

Lemma existsb_fr_mirror val n lo hi idx : (lo <= idx < hi)%Z ->
  existsb (fun iv : Z * R => (fst iv =? neg_index n idx)%Z) (fr_writes val true n lo hi) = true.
Proof.
  intros Hj. apply existsb_exists. exists (neg_index n idx, val idx). split; [|simpl; lia].
  unfold fr_writes. apply in_flat_map. exists idx. split; [apply In_Zrange; exact Hj | right; left; reflexivity].
Qed.

(* bins at most half way: 0 <= lo, 2 (hi - 1) <= n *)
Lemma fr_direct_value_l : forall val mirror n lo hi j, (0 <= lo)%Z -> (2 * (hi - 1) <= n)%Z ->
  (lo <= j < hi)%Z ->
  read_writes (fr_writes val mirror n lo hi) j = val j.
Proof.
  intros val mirror n lo hi j Hlo Hhi Hj. unfold read_writes.
  rewrite (fold_same_value _ j (val j)).
  - rewrite existsb_fr_direct by exact Hj. reflexivity.
  - intros iv Hin Hfst. apply In_fr_writes in Hin. destruct Hin as [idx [Hr [Hv [Hi|[Hm Hi]]]]].
    + rewrite Hv. f_equal. lia.
    + rewrite Hv. f_equal. unfold neg_index in Hi. destruct (Z.eqb_spec idx 0); lia.
Qed.

Lemma fr_mirror_value_l : forall val n lo hi idx, (0 <= lo)%Z -> (2 * (hi - 1) <= n)%Z ->
  (lo <= idx < hi)%Z ->
  read_writes (fr_writes val true n lo hi) (neg_index n idx) = val idx.
Proof.
  intros val n lo hi idx Hlo Hhi Hj. unfold read_writes.
  rewrite (fold_same_value _ (neg_index n idx) (val idx)).
  - rewrite existsb_fr_mirror by exact Hj. reflexivity.
  - intros iv Hin Hfst. apply In_fr_writes in Hin. destruct Hin as [i2 [Hr [Hv [Hi|[Hm Hi]]]]].
    + rewrite Hv. f_equal. unfold neg_index in *. destruct (Z.eqb_spec idx 0); lia.
    + rewrite Hv. f_equal. unfold neg_index in *.
      destruct (Z.eqb_spec idx 0); destruct (Z.eqb_spec i2 0); lia.
Qed.

(* Hermitian (here: even) symmetry of the full response of a real bank *)
Lemma fr_real_bank_symmetric_l : forall val n lo hi j, (0 <= lo)%Z -> (2 * (hi - 1) <= n)%Z ->
  (0 < j < n)%Z ->
  read_writes (fr_writes val true n lo hi) (n - j) = read_writes (fr_writes val true n lo hi) j.
Proof.
  intros val n lo hi j Hlo Hhi Hj.
  destruct (Z_lt_le_dec j hi) as [H1|H1]; [destruct (Z_lt_le_dec j lo) as [H0|H0]|].
  - (* j below the range: n - j above it *)
    rewrite (fr_zero_outside_l val true n lo hi j); [|lia|].
    + rewrite (fr_zero_outside_l val true n lo hi (n - j)); [reflexivity | lia |].
      intros _ idx Hr. unfold neg_index. destruct (Z.eqb_spec idx 0); lia.
    + intros _ idx Hr. unfold neg_index. destruct (Z.eqb_spec idx 0); lia.
  - (* j in the range *)
    rewrite (fr_direct_value_l val true n lo hi j) by lia.
    replace (n - j)%Z with (neg_index n j) by (unfold neg_index; destruct (Z.eqb_spec j 0); lia).
    apply fr_mirror_value_l; lia.
  - (* j above the range: is n - j in it? *)
    destruct (Z_lt_le_dec (n - j) hi) as [H2|H2]; [destruct (Z_lt_le_dec (n - j) lo) as [H3|H3]|].
    + rewrite (fr_zero_outside_l val true n lo hi (n - j)); [|lia|].
      * rewrite (fr_zero_outside_l val true n lo hi j); [reflexivity | lia |].
        intros _ idx Hr. unfold neg_index. destruct (Z.eqb_spec idx 0); lia.
      * intros _ idx Hr. unfold neg_index. destruct (Z.eqb_spec idx 0); lia.
    + rewrite (fr_direct_value_l val true n lo hi (n - j)) by lia.
      replace j with (neg_index n (n - j)) at 2 by (unfold neg_index; destruct (Z.eqb_spec (n - j) 0); lia).
      symmetry. apply fr_mirror_value_l; lia.
    + rewrite (fr_zero_outside_l val true n lo hi (n - j)); [|lia|].
      * rewrite (fr_zero_outside_l val true n lo hi j); [reflexivity | lia |].
        intros _ idx Hr. unfold neg_index. destruct (Z.eqb_spec idx 0); lia.
      * intros _ idx Hr. unfold neg_index. destruct (Z.eqb_spec idx 0); lia.
Qed.

Lemma tri_right_idx_half right rate W : 0 < rate -> (0 < W)%Z -> 0 <= right <= rate / 2 ->
  (2 * tri_right_idx right rate W <= W)%Z.
Proof.
  intros Hr HW [H0 H1]. unfold tri_right_idx.
  assert (HWr : 0 < IZR W) by (apply (IZR_lt 0); exact HW).
  assert (Hnn : 0 <= IZR W * right / rate).
  { apply Rmult_le_pos; [apply Rmult_le_pos; lra | left; apply Rinv_0_lt_compat; lra]. }
  rewrite (Ztrunc_floor _ Hnn).
  assert (Hle : IZR W * right / rate <= IZR W / 2).
  { apply Rmult_le_reg_r with rate; [lra|].
    replace (IZR W * right / rate * rate) with (IZR W * right) by (field; lra). nra. }
  pose proof (Zfloor_lb (IZR W * right / rate)) as Hf.
  assert (IZR (2 * Zfloor (IZR W * right / rate)) <= IZR W) by (rewrite mult_IZR; lra).
  apply le_IZR in H. exact H.
Qed.

(* the full (half = false) response of a real triangular / Fbank filter is even: X[W - j] = X[j] *)
Lemma fr_loop_real_symmetric_l val left right rate W j :
  0 < rate -> (0 < W)%Z -> 0 <= left -> 0 <= right <= rate / 2 -> (0 < j < W)%Z ->
  let ws := fr_writes val (negb false && negb false) (dft_size W false)
                      (tri_left_idx left rate W) (Z.min (dft_size W false) (tri_right_idx right rate W + 1)) in
  read_writes ws (W - j) = read_writes ws j.
Proof.
  intros Hr HW Hl Hrt Hj. cbv zeta. unfold dft_size. cbn [negb andb].
  apply fr_real_bank_symmetric_l; try exact Hj.
  - unfold tri_left_idx. rewrite <- (Zceil_IZR 0). apply Zceil_le.
    assert (0 < IZR W) by (apply (IZR_lt 0); exact HW).
    apply Rmult_le_pos; [apply Rmult_le_pos; lra | left; apply Rinv_0_lt_compat; lra].
  - pose proof (tri_right_idx_half right rate W Hr HW Hrt). lia.
Qed.
