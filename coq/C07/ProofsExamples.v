(* C07: the hypotheses of the main theorems are satisfiable by concrete,
   non-trivial filters (with the threshold 5e-4; independent of config.py so that a
   different threshold does not invalidate the examples). *)
From Coq Require Import Reals ZArith Lra Lia.
From Coquelicot Require Import Complex.
From Flocq Require Import Core.Raux.
From Interval Require Import Tactic.
From Verif Require Import lib.C07_Base C07.Model C07.ProofsBasic C07.ProofsGabor C07.ProofsGammatone
  C07.ProofsTri gen.C07Filters C07.Tie.
Ltac Zify.zify_post_hook ::= Z.to_euclidean_division_equations.
Open Scope R_scope.

Definition ex_eps : R := 1 / 2000.

(* Gabor, std = 1 sample, no L2 scaling: the support is (-4, 4); sample 10 of a
   20-sample buffer lies outside it, modulo the buffer *)
Example gabor_time_example :
  let d := gabor_diff_samps ex_eps false 1 in
  (0 <= d <= 4)%Z /\ outside_mod (fst (gabor_supports d)) (snd (gabor_supports d)) 20 10 /\
  Cmod (gabor_ir false 1 (PI / 4) 20 10) < 2 * ex_eps.
Proof.
  cbv zeta.
  assert (Hd : (0 <= gabor_diff_samps ex_eps false 1 <= 4)%Z).
  { unfold gabor_diff_samps. split.
    - rewrite <- (Zceil_IZR 0). apply Zceil_le. apply gabor_diff_samps_real_nonneg. lra.
    - apply Zceil_glb. unfold gabor_diff_samps_real, gabor_t_support_const, ex_eps. interval. }
  assert (Ho : outside_mod (fst (gabor_supports (gabor_diff_samps ex_eps false 1)))
                           (snd (gabor_supports (gabor_diff_samps ex_eps false 1))) 20 10).
  { unfold gabor_supports, outside_mod; cbn [fst snd]. intros k.
    set (d := gabor_diff_samps ex_eps false 1) in *. lia. }
  split; [exact Hd|]. split; [exact Ho|].
  apply (gabor_ir_outside_supports_l ex_eps); try lia; try lra; try exact Ho; try (unfold ex_eps; lra).
Qed.

(* Gabor, frequency: std = 4, centre PI/2: half-width sqrt(-2 ln eps)/4 < 1; the
   bin at angle PI/8 of an 16-bin response lies outside the support *)
Example gabor_freq_example :
  let diff := gabor_diff_ang ex_eps false 4 in
  diff < 1 /\
  outside_mod_R (PI / 2 - diff) (PI / 2 + diff) (2 * PI) (IZR 1 / IZR 16 * 2 * PI) /\
  gabor_fr false 4 (PI / 2) (PI / 2 - diff) (PI / 2 + diff) 16 1 < 5 / 2 * ex_eps.
Proof.
  cbv zeta.
  assert (Hd : gabor_diff_ang ex_eps false 4 < 1).
  { unfold gabor_diff_ang, gabor_f_support_const, ex_eps. interval. }
  assert (Hd0 : 0 <= gabor_diff_ang ex_eps false 4) by (apply gabor_diff_ang_nonneg; lra).
  assert (HPI : 3 < PI < 4) by (split; interval).
  assert (Ho : outside_mod_R (PI / 2 - gabor_diff_ang ex_eps false 4) (PI / 2 + gabor_diff_ang ex_eps false 4)
                             (2 * PI) (IZR 1 / IZR 16 * 2 * PI)).
  { intros k [H1 H2].
    destruct (Z_lt_le_dec k 0) as [Hk|Hk].
    - assert (IZR k <= -1) by (apply (IZR_le k (-1)); lia). nra.
    - destruct (Z.eq_dec k 0) as [E|E].
      + subst k. simpl in *. nra.
      + assert (1 <= IZR k) by (apply (IZR_le 1 k); lia). nra. }
  split; [exact Hd|]. split; [exact Ho|].
  apply gabor_fr_outside_supports_l; try lia; try lra; try exact Ho;
    try (unfold ex_eps; lra); try (intros E; discriminate).
Qed.

(* gammatone of order 4, alpha = 1/10, unit gain: c = alpha^4 / 3!; at t = 200 the
   envelope is below the threshold and beyond the mode (n-1)/alpha = 30 *)
Example gt_time_example :
  let c := (1 / 10) ^ 4 / 6 in
  (INR 4 - 1) / (1 / 10) <= 200 - 0 /\ gt_habs c (1 / 10) 4 0 200 <= ex_eps /\
  outside_mod (fst (gt_supports 0 200)) (snd (gt_supports 0 200)) 300 250 /\
  Cmod (gt_ir c (1 / 10) 1 4 0 (gt_supports 0 200) 300 250) < 2 * ex_eps.
Proof.
  cbv zeta.
  assert (H1 : (INR 4 - 1) / (1 / 10) <= 200 - 0) by (simpl; lra).
  assert (H2 : gt_habs ((1 / 10) ^ 4 / 6) (1 / 10) 4 0 200 <= ex_eps).
  { unfold gt_habs. destruct (Rle_dec 200 0); [lra|]. unfold ex_eps. simpl INR. interval. }
  assert (Ho : outside_mod (fst (gt_supports 0 200)) (snd (gt_supports 0 200)) 300 250).
  { unfold gt_supports; cbn [fst snd]. rewrite (Zfloor_IZR 0), (Zceil_IZR 200). intros k. lia. }
  split; [exact H1|]. split; [exact H2|]. split; [exact Ho|].
  apply (gt_ir_outside_supports_l ex_eps); try lia; try lra; try assumption; try (unfold ex_eps; lra).
Qed.

(* the support search: with enough fuel it terminates on this filter (2 steps) *)
Example gt_frequency_example :
  let log_alpha := ln (1 / 10) in
  let log_c := gt_log_c false 4 log_alpha in
  let diff := gt_diff_ang ex_eps 4 log_c log_alpha in
  diff < 1 /\
  outside_mod_R (1 - diff) (1 + diff) (2 * PI) (IZR 8 * 2 * PI / IZR 16) /\
  Cmod (gt_fr (exp log_c) (exp log_alpha) 1 4 0 (1 - diff) (1 + diff) 16 8) < 5 / 2 * ex_eps.
Proof.
  cbv zeta.
  set (diff := gt_diff_ang ex_eps 4 (gt_log_c false 4 (ln (1 / 10))) (ln (1 / 10))).
  assert (Hd : diff < 1).
  { unfold diff, gt_diff_ang, gt_supp_a, gt_log_c, ex_eps, Rpower. simpl INR. simpl fact. simpl INR. interval. }
  assert (Hd0 : 0 < diff) by (apply gt_diff_ang_pos).
  assert (HPI : 3 < PI < 4) by (split; interval).
  assert (Ho : outside_mod_R (1 - diff) (1 + diff) (2 * PI) (IZR 8 * 2 * PI / IZR 16)).
  { intros k [H1 H2].
    replace (IZR 8 * 2 * PI / IZR 16) with PI in * by (simpl; field).
    destruct (Z_lt_le_dec k 0) as [Hk|Hk].
    - assert (IZR k <= -1) by (apply (IZR_le k (-1)); lia). nra.
    - assert (0 <= IZR k) by (apply (IZR_le 0 k); lia). nra. }
  split; [exact Hd|]. split; [exact Ho|].
  apply gt_fr_outside_supports_l; try lia; try exact Ho; try lra; try (unfold ex_eps; lra).
Qed.

(* triangular filter with angular vertices 1/2 < 1 < 3/2: K <= 143, so sample 100 of a
   200-sample buffer is outside the support (-K//2 - 1, K//2 + 1) *)
Example tri_time_example :
  let K := tri_K ex_eps (1 / 2) 1 (3 / 2) in
  (0 <= K <= 143)%Z /\
  outside_mod (fst (tri_supports K)) (snd (tri_supports K)) 200 100 /\
  Cmod (tri_ir false (1 / 2) 1 (3 / 2) 200 100) < 2 * ex_eps.
Proof.
  cbv zeta.
  assert (HK : (0 <= tri_K ex_eps (1 / 2) 1 (3 / 2) <= 143)%Z).
  { unfold tri_K. split.
    - rewrite <- (Zceil_IZR 0). apply Zceil_le. left. apply tri_K_real_pos; unfold ex_eps; lra.
    - apply Zceil_glb. unfold tri_K_real, ex_eps. interval. }
  assert (Ho : outside_mod (fst (tri_supports (tri_K ex_eps (1 / 2) 1 (3 / 2))))
                           (snd (tri_supports (tri_K ex_eps (1 / 2) 1 (3 / 2)))) 200 100).
  { unfold tri_supports, outside_mod; cbn [fst snd]. intros k.
    set (K := tri_K ex_eps (1 / 2) 1 (3 / 2)) in *.
    lia. }
  split; [exact HK|]. split; [exact Ho|].
  apply (tri_ir_outside_supports_l ex_eps); try lia; try lra; try exact Ho; try (unfold ex_eps; lra).
Qed.

(* the support search terminates on a concrete filter: one evaluation suffices when the
   start value is already below the threshold *)
Example gt_search_example :
  exists r, gt_newton 0 (1 / 2) 1 1 2 0 (gt_newton_start 1 2) = Some r.
Proof.
  eexists. simpl gt_newton.
  destruct (Rgt_dec _ (1 / 2)) as [H|H]; [exfalso|reflexivity].
  revert H. unfold gt_habs, gt_newton_start. simpl INR.
  destruct (Rle_dec _ 0) as [H0|H0]; [lra|].
  intros H. apply Rgt_not_le in H. apply H. interval.
Qed.
