(* C07: the real triangular bank is real valued; "outside supports_hz modulo the sampling
   rate" (what the property says) is "outside supports_ang modulo 2 pi" (what the frequency
   theorems assume). *)
From Coq Require Import Reals ZArith Lra Lia.
From Coquelicot Require Import Complex.
From Flocq Require Import Core.Raux.
From Verif Require Import lib.C07_Base C07.Model C07.Forms.
Open Scope R_scope.

(* the impulse response of the real (non-analytic) triangular bank has no imaginary part *)
Lemma tri_ir_real_valued_l : forall l m r W j, l < m < r -> (0 <= j < W)%Z ->
  snd (tri_ir false l m r W j) = 0.
Proof.
  intros l m r W j H Hj. destruct (Z.eq_dec j 0) as [E|E].
  - subst j. unfold tri_ir. simpl Z.eqb. cbv iota.
    rewrite Cdiv_R by (apply tri_denom_neq; exact H).
    rewrite tri_val_parts by lia. simpl. unfold Rdiv. ring.
  - rewrite tri_ir_im by (try exact H; lia). reflexivity.
Qed.

(* "outside supports_hz modulo the sampling rate" is "outside supports_ang modulo 2 pi" *)
Lemma outside_hz_iff_ang_l : forall lo hi rate x, 0 < rate ->
  (outside_mod_R (a2h lo rate) (a2h hi rate) rate (a2h x rate) <-> outside_mod_R lo hi (2 * PI) x).
Proof.
  intros lo hi rate x Hr. pose proof PI_RGT_0 as HPI.
  assert (Hs : 0 < rate / (2 * PI)) by (apply Rdiv_lt_0_compat; lra).
  assert (E : forall y k, a2h y rate + IZR k * rate = (y + IZR k * (2 * PI)) * (rate / (2 * PI))).
  { intros y k. unfold a2h. field. lra. }
  assert (A : forall y, a2h y rate = y * (rate / (2 * PI))) by (intros y; unfold a2h; field; lra).
  unfold outside_mod_R. split; intros H k [H1 H2]; apply (H k).
  - rewrite E, !A. split; apply Rmult_le_compat_r; lra.
  - rewrite E, !A in *. split; eapply Rmult_le_reg_r; try exact Hs; lra.
Qed.

(* bin idx of a width-W response sits at a2h (2 pi idx / W) = idx rate / W *)
Lemma bin_frequency_l : forall rate (W idx : Z), 0 < rate -> (0 < W)%Z ->
  a2h (IZR idx * 2 * PI / IZR W) rate = IZR idx * rate / IZR W.
Proof.
  intros rate W idx Hr HW. pose proof PI_RGT_0. assert (0 < IZR W) by (apply (IZR_lt 0); lia).
  unfold a2h. field. split; lra.
Qed.
