(* C07: Gabor bank - Gaussian tails in both domains, including the images that
   the code itself sums (two in time, three in frequency). *)
From Coq Require Import Reals ZArith Lra Lia.
From Coquelicot Require Import Complex.
From Flocq Require Import Core.Raux.
From Interval Require Import Tactic.
From Verif Require Import lib.C07_Base C07.Model.
Open Scope R_scope.

Lemma sqrt_sqr_ge x : x <= sqrt x * sqrt x.
Proof.
  destruct (Rle_dec 0 x) as [H|H].
  - rewrite sqrt_sqrt by exact H. lra.
  - assert (0 <= sqrt x * sqrt x) by (apply Rmult_le_pos; apply sqrt_pos). lra.
Qed.

Lemma exp_le_eps eps x : 0 < eps -> x <= ln eps -> exp x <= eps.
Proof. intros He H. rewrite <- (exp_ln eps He). apply exp_le_of_le; exact H. Qed.
Lemma exp_lt_eps eps x : 0 < eps -> x < ln eps -> exp x < eps.
Proof. intros He H. rewrite <- (exp_ln eps He). apply exp_increasing; exact H. Qed.

Lemma ln_2PI : ln (2 * PI) = ln 2 + ln PI.
Proof. apply ln_mult; [lra | apply PI_RGT_0]. Qed.

Lemma gabor_diff_samps_real_nonneg eps l2 std : 0 < std -> 0 <= gabor_diff_samps_real eps l2 std.
Proof.
  intros Hs. unfold gabor_diff_samps_real. destruct l2; apply Rmult_le_pos; try lra; apply sqrt_pos.
Qed.

(* D^2 >= std^2 * radicand *)
Lemma gabor_diff_samps_sqr eps l2 std : 0 < std ->
  std * std * (gabor_t_support_const eps l2 - (if l2 then 1 else 2) * ln std)
  <= gabor_diff_samps_real eps l2 std * gabor_diff_samps_real eps l2 std.
Proof.
  intros Hs. unfold gabor_diff_samps_real. destruct l2.
  - set (x := gabor_t_support_const eps true - ln std).
    replace (gabor_t_support_const eps true - 1 * ln std) with x by (unfold x; ring).
    replace (std * sqrt x * (std * sqrt x)) with (std * std * (sqrt x * sqrt x)) by ring.
    apply Rmult_le_compat_l; [apply Rmult_le_pos; lra | apply sqrt_sqr_ge].
  - set (x := gabor_t_support_const eps false - 2 * ln std).
    replace (std * sqrt x * (std * sqrt x)) with (std * std * (sqrt x * sqrt x)) by ring.
    apply Rmult_le_compat_l; [apply Rmult_le_pos; lra | apply sqrt_sqr_ge].
Qed.

(* exponent of the envelope at the support boundary is ln eps *)
Lemma gabor_env_exponent eps l2 std t : 0 < eps -> 0 < std ->
  - (t ^ 2) / (2 * std ^ 2) + gabor_ir_const l2 std
  = ln eps - (t * t - std * std * (gabor_t_support_const eps l2 - (if l2 then 1 else 2) * ln std))
             / (2 * std * std).
Proof.
  intros He Hs. unfold gabor_ir_const, gabor_t_support_const. destruct l2.
  - field. lra.
  - rewrite ln_2PI. field. lra.
Qed.

(** ** one image, time *)
Lemma gabor_time_tail_l : forall eps l2 std t, 0 < eps -> 0 < std ->
  gabor_diff_samps_real eps l2 std <= Rabs t -> gabor_env l2 std t <= eps.
Proof.
  intros eps l2 std t He Hs Ht. unfold gabor_env.
  rewrite (gabor_env_exponent eps) by assumption.
  apply exp_le_eps; [exact He|].
  pose proof (gabor_diff_samps_sqr eps l2 std Hs) as H1.
  pose proof (sqr_ge_of_abs_ge t _ (gabor_diff_samps_real_nonneg eps l2 std Hs) Ht) as H2.
  set (rad := std * std * _) in *.
  assert (0 <= (t * t - rad) / (2 * std * std)).
  { apply Rmult_le_pos; [lra | left; apply Rinv_0_lt_compat; nra]. }
  lra.
Qed.

Lemma gabor_time_tail_strict eps l2 std t : 0 < eps -> 0 < std ->
  gabor_diff_samps_real eps l2 std < Rabs t -> gabor_env l2 std t < eps.
Proof.
  intros He Hs Ht. unfold gabor_env.
  rewrite (gabor_env_exponent eps) by assumption.
  apply exp_lt_eps; [exact He|].
  pose proof (gabor_diff_samps_sqr eps l2 std Hs) as H1.
  pose proof (gabor_diff_samps_real_nonneg eps l2 std Hs) as H0.
  assert (H2 : gabor_diff_samps_real eps l2 std * gabor_diff_samps_real eps l2 std < t * t).
  { replace (t * t) with (Rabs t * Rabs t) by (unfold Rabs; destruct (Rcase_abs t); ring).
    apply Rmult_le_0_lt_compat; lra. }
  set (rad := std * std * _) in *.
  assert (0 < (t * t - rad) / (2 * std * std)).
  { apply Rmult_lt_0_compat; [lra | apply Rinv_0_lt_compat; nra]. }
  lra.
Qed.

Lemma Cmod_gabor_val l2 std xi t : Cmod (gabor_val l2 std xi t) = gabor_env l2 std (IZR t).
Proof. unfold gabor_val. apply Cmod_scal_cis_pos. unfold gabor_env. left; apply exp_pos. Qed.

(** ** the buffer: both images the code adds *)
Lemma gabor_ir_outside_supports_l : forall eps l2 std xi W j, 0 < eps -> 0 < std ->
  (0 <= j < W)%Z ->
  let d := gabor_diff_samps eps l2 std in
  outside_mod (fst (gabor_supports d)) (snd (gabor_supports d)) W j ->
  Cmod (gabor_ir l2 std xi W j) < 2 * eps.
Proof.
  intros eps l2 std xi W j He Hs Hj d Hout. unfold gabor_supports in Hout; simpl in Hout.
  assert (Hd0 : (0 <= d)%Z).
  { unfold d, gabor_diff_samps. rewrite <- (Zceil_IZR 0). apply Zceil_le.
    apply gabor_diff_samps_real_nonneg; exact Hs. }
  pose proof (Hout 0%Z) as H0. pose proof (Hout (-1)%Z) as H1.
  assert (Hjd : (d < j)%Z) by lia.
  assert (Hwd : (d < W - j)%Z) by lia.
  assert (HD : gabor_diff_samps_real eps l2 std <= IZR d) by (apply Zceil_ub).
  unfold gabor_ir. eapply Rle_lt_trans; [apply Cmod_triangle|].
  rewrite Cmod_Cconj, !Cmod_gabor_val.
  assert (gabor_env l2 std (IZR j) < eps).
  { apply (gabor_time_tail_strict eps); try assumption.
    apply IZR_lt in Hjd. rewrite Rabs_pos_eq; [lra | apply (IZR_le 0); lia]. }
  assert (gabor_env l2 std (IZR (W - j)) < eps).
  { apply (gabor_time_tail_strict eps); try assumption.
    apply IZR_lt in Hwd. rewrite Rabs_pos_eq; [lra | apply (IZR_le 0); lia]. }
  lra.
Qed.

(** ** one image, frequency *)
Definition gabor_f_rad (eps : R) (l2 : bool) (std : R) : R :=
  if l2 then ln std + gabor_f_support_const eps l2 else gabor_f_support_const eps l2.

Lemma gabor_diff_ang_eq eps l2 std : gabor_diff_ang eps l2 std = sqrt (gabor_f_rad eps l2 std) / std.
Proof. unfold gabor_diff_ang, gabor_f_rad. destruct l2; reflexivity. Qed.

Lemma gabor_diff_ang_nonneg eps l2 std : 0 < std -> 0 <= gabor_diff_ang eps l2 std.
Proof.
  intros Hs. rewrite gabor_diff_ang_eq. apply Rmult_le_pos; [apply sqrt_pos | left; apply Rinv_0_lt_compat; lra].
Qed.

Lemma gabor_diff_ang_sqr eps l2 std : 0 < std ->
  gabor_f_rad eps l2 std <= std * std * (gabor_diff_ang eps l2 std * gabor_diff_ang eps l2 std).
Proof.
  intros Hs. rewrite gabor_diff_ang_eq. set (x := gabor_f_rad eps l2 std).
  replace (std * std * (sqrt x / std * (sqrt x / std))) with (sqrt x * sqrt x) by (field; lra).
  apply sqrt_sqr_ge.
Qed.

Lemma gabor_fr_exponent eps l2 std xi omega : 0 < eps -> 0 < std ->
  - (std ^ 2) / 2 * (xi - omega) ^ 2 + gabor_fr_const l2 std
  = ln eps - (std * std * ((xi - omega) * (xi - omega)) - gabor_f_rad eps l2 std) / 2.
Proof.
  intros He Hs. unfold gabor_fr_const, gabor_f_rad, gabor_f_support_const. destruct l2.
  - rewrite ln_mult by lra. field.
  - field.
Qed.

Lemma gabor_freq_tail_l : forall eps l2 std xi omega, 0 < eps -> 0 < std ->
  gabor_diff_ang eps l2 std <= Rabs (xi - omega) -> gabor_fr_term l2 std xi omega <= eps.
Proof.
  intros eps l2 std xi omega He Hs H. unfold gabor_fr_term.
  rewrite (gabor_fr_exponent eps) by assumption.
  apply exp_le_eps; [exact He|].
  pose proof (gabor_diff_ang_sqr eps l2 std Hs) as H1.
  pose proof (sqr_ge_of_abs_ge (xi - omega) _ (gabor_diff_ang_nonneg eps l2 std Hs) H) as H2.
  assert (std * std * (gabor_diff_ang eps l2 std * gabor_diff_ang eps l2 std)
          <= std * std * ((xi - omega) * (xi - omega))).
  { apply Rmult_le_compat_l; [apply Rmult_le_pos; lra | exact H2]. }
  lra.
Qed.

Lemma gabor_freq_tail_strict eps l2 std xi omega : 0 < eps -> 0 < std ->
  gabor_diff_ang eps l2 std < Rabs (xi - omega) -> gabor_fr_term l2 std xi omega < eps.
Proof.
  intros He Hs H. unfold gabor_fr_term.
  rewrite (gabor_fr_exponent eps) by assumption.
  apply exp_lt_eps; [exact He|].
  pose proof (gabor_diff_ang_sqr eps l2 std Hs) as H1.
  pose proof (gabor_diff_ang_nonneg eps l2 std Hs) as H0.
  assert (H2 : gabor_diff_ang eps l2 std * gabor_diff_ang eps l2 std < (xi - omega) * (xi - omega)).
  { replace ((xi - omega) * (xi - omega)) with (Rabs (xi - omega) * Rabs (xi - omega))
      by (unfold Rabs; destruct (Rcase_abs (xi - omega)); ring).
    apply Rmult_le_0_lt_compat; lra. }
  assert (std * std * (gabor_diff_ang eps l2 std * gabor_diff_ang eps l2 std)
          < std * std * ((xi - omega) * (xi - omega))).
  { apply Rmult_lt_compat_l; [apply Rmult_lt_0_compat; lra | exact H2]. }
  lra.
Qed.

(* a far image: beyond distance x0 >= diff_ang the term is damped by exp(-std^2 (x^2 - x0^2)/2) *)
Lemma gabor_freq_far eps l2 std xi omega gap : 0 < eps -> 0 < std -> 0 <= gap ->
  gabor_diff_ang eps l2 std * gabor_diff_ang eps l2 std + gap <= (xi - omega) * (xi - omega) ->
  gabor_fr_term l2 std xi omega <= eps * exp (- (std * std * gap / 2)).
Proof.
  intros He Hs Hg H. unfold gabor_fr_term.
  rewrite (gabor_fr_exponent eps) by assumption.
  replace (eps * exp (- (std * std * gap / 2))) with (exp (ln eps + - (std * std * gap / 2)))
    by (rewrite exp_plus, exp_ln by exact He; reflexivity).
  apply exp_le_of_le.
  pose proof (gabor_diff_ang_sqr eps l2 std Hs) as H1.
  assert (std * std * (gabor_diff_ang eps l2 std * gabor_diff_ang eps l2 std + gap)
          <= std * std * ((xi - omega) * (xi - omega))).
  { apply Rmult_le_compat_l; [apply Rmult_le_pos; lra | exact H]. }
  lra.
Qed.

Lemma ln2_lt : ln 2 < 7 / 10.
Proof. interval. Qed.
Lemma ln2_gt : 69 / 100 < ln 2.
Proof. interval. Qed.

(* the damping of the third image is at least a factor 2 *)
Lemma gabor_third_damping eps l2 std : 0 < eps <= 1 / 2 -> 0 < std ->
  (l2 = true -> 1 / 4 <= std) ->
  gabor_diff_ang eps l2 std < PI ->
  exp (- (std * std * (3 * (PI * PI)) / 2)) <= 1 / 2.
Proof.
  intros [He He2] Hs Hl2 Hd.
  assert (HPI : 3 < PI) by (pose proof PI_RGT_0; interval).
  replace (1 / 2) with (exp (- ln 2)) by (rewrite exp_Ropp, exp_ln by lra; lra).
  apply exp_le_of_le.
  pose proof ln2_lt as L2.
  destruct l2.
  - specialize (Hl2 eq_refl).
    assert (1 / 16 <= std * std) by nra.
    assert (9 < PI * PI) by nra. nra.
  - (* std^2 * diff_ang^2 = -2 ln eps >= 2 ln 2, diff_ang < PI *)
    pose proof (gabor_diff_ang_sqr eps false std Hs) as H1.
    unfold gabor_f_rad, gabor_f_support_const in H1.
    assert (Hle : ln eps <= - ln 2).
    { rewrite <- ln_Rinv by lra. destruct (Req_dec eps (/ 2)) as [E|E]; [rewrite E; lra|].
      left; apply ln_increasing; lra. }
    pose proof (gabor_diff_ang_nonneg eps false std Hs) as Hnn.
    set (D := gabor_diff_ang eps false std) in *.
    assert (D * D <= PI * PI) by nra.
    assert (std * std * (D * D) <= std * std * (PI * PI)).
    { apply Rmult_le_compat_l; [apply Rmult_le_pos; lra | assumption]. }
    pose proof ln2_gt. nra.
Qed.

(** ** the periodised frequency response: all images the code sums *)
Lemma Ztrunc_small x : 0 <= x < 1 -> Ztrunc x = 0%Z.
Proof.
  intros [H0 H1]. rewrite Ztrunc_floor by exact H0. apply Zfloor_imp. simpl. lra.
Qed.

Lemma gabor_fr_outside_supports_l : forall eps l2 std xi W idx,
  0 < eps <= 1 / 2 -> 0 < std -> (l2 = true -> 1 / 4 <= std) ->
  0 <= xi <= PI -> (0 <= idx < W)%Z ->
  let diff := gabor_diff_ang eps l2 std in
  outside_mod_R (xi - diff) (xi + diff) (2 * PI) (IZR idx / IZR W * 2 * PI) ->
  gabor_fr l2 std xi (xi - diff) (xi + diff) W idx < 5 / 2 * eps.
Proof.
  intros eps l2 std xi W idx [He He2] Hs Hl2 [Hxi0 Hxi1] [Hi0 Hi1] diff Hout.
  pose proof PI_RGT_0 as HPI.
  assert (HW : 0 < IZR W) by (apply (IZR_lt 0); lia).
  set (w0 := IZR idx / IZR W * 2 * PI) in *.
  assert (Hw0 : 0 <= w0 < 2 * PI).
  { unfold w0. assert (0 <= IZR idx / IZR W < 1).
    { split.
      - apply Rmult_le_pos; [apply (IZR_le 0); lia | left; apply Rinv_0_lt_compat; lra].
      - apply Rmult_lt_reg_r with (IZR W); [lra|].
        replace (IZR idx / IZR W * IZR W) with (IZR idx) by (field; lra).
        rewrite Rmult_1_l. apply IZR_lt; lia. }
    nra. }
  assert (Hd0 : 0 <= diff) by (apply gabor_diff_ang_nonneg; exact Hs).
  assert (Hdpi : diff < PI).
  { destruct (Rlt_dec diff PI) as [H|H]; [exact H|]. exfalso.
    destruct (Rle_dec w0 (xi + PI)) as [Hc|Hc].
    - apply (Hout 0%Z). simpl. lra.
    - apply (Hout (-1)%Z). replace (IZR (-1)) with (-1) by reflexivity. lra. }
  (* the loop visits periods -1, 0, 1 *)
  assert (Hlo : gabor_period_lo (xi - diff) = (-1)%Z).
  { unfold gabor_period_lo. rewrite Ztrunc_small; [reflexivity|].
    split.
    - apply Rmult_le_pos; [apply Rmax_r | left; apply Rinv_0_lt_compat; lra].
    - apply Rmult_lt_reg_r with (2 * PI); [lra|].
      replace (Rmax (- (xi - diff)) 0 / (2 * PI) * (2 * PI)) with (Rmax (- (xi - diff)) 0) by (field; lra).
      apply Rmax_lub_lt; lra. }
  assert (Hhi : gabor_period_hi (xi + diff) = 2%Z).
  { unfold gabor_period_hi. rewrite Ztrunc_small; [reflexivity|].
    split.
    - apply Rmult_le_pos; [lra | left; apply Rinv_0_lt_compat; lra].
    - apply Rmult_lt_reg_r with (2 * PI); [lra|].
      replace ((xi + diff) / (2 * PI) * (2 * PI)) with (xi + diff) by (field; lra). lra. }
  unfold gabor_fr. rewrite Hlo, Hhi. replace (2 - 1)%Z with (-1 + 2)%Z by reflexivity.
  rewrite Rsum_3. cbv beta.
  replace ((IZR idx / IZR W + IZR (-1)) * 2 * PI) with (w0 - 2 * PI)
    by (unfold w0; replace (IZR (-1)) with (-1) by reflexivity; ring).
  replace ((IZR idx / IZR W + IZR (-1 + 1)) * 2 * PI) with w0
    by (unfold w0; replace (IZR (-1 + 1)) with 0 by reflexivity; ring).
  replace ((IZR idx / IZR W + IZR (-1 + 2)) * 2 * PI) with (w0 + 2 * PI)
    by (unfold w0; replace (IZR (-1 + 2)) with 1 by reflexivity; ring).
  (* each image lies outside the support *)
  assert (Hm : diff < Rabs (xi - (w0 - 2 * PI))).
  { pose proof (Hout (-1)%Z) as H. replace (IZR (-1)) with (-1) in H by reflexivity.
    unfold Rabs; destruct (Rcase_abs _); lra. }
  assert (H0 : diff < Rabs (xi - w0)).
  { pose proof (Hout 0%Z) as H. simpl in H. unfold Rabs; destruct (Rcase_abs _); lra. }
  assert (Hp : diff < Rabs (xi - (w0 + 2 * PI))).
  { pose proof (Hout 1%Z) as H. unfold Rabs; destruct (Rcase_abs _); lra. }
  assert (Tm : gabor_fr_term l2 std xi (w0 - 2 * PI) <= eps) by (apply gabor_freq_tail_l; fold diff; lra).
  assert (T0 : gabor_fr_term l2 std xi w0 < eps) by (apply gabor_freq_tail_strict; fold diff; lra).
  assert (Tp : gabor_fr_term l2 std xi (w0 + 2 * PI) <= eps) by (apply gabor_freq_tail_l; fold diff; lra).
  pose proof (gabor_third_damping eps l2 std (conj He He2) Hs Hl2 Hdpi) as Hdamp.
  assert (Hgap : diff * diff + 3 * (PI * PI) <= 2 * PI * (2 * PI)) by nra.
  (* one of the two outer images is at distance >= 2 PI *)
  destruct (Rle_dec xi w0) as [Hc|Hc].
  - assert (Far : gabor_fr_term l2 std xi (w0 + 2 * PI) <= eps * exp (- (std * std * (3 * (PI * PI)) / 2))).
    { apply gabor_freq_far; try assumption; [nra|]. fold diff.
      assert (2 * PI <= w0 + 2 * PI - xi) by lra.
      replace ((xi - (w0 + 2 * PI)) * (xi - (w0 + 2 * PI))) with ((w0 + 2 * PI - xi) * (w0 + 2 * PI - xi)) by ring.
      nra. }
    assert (gabor_fr_term l2 std xi (w0 + 2 * PI) <= eps * (1 / 2)).
    { eapply Rle_trans; [exact Far|]. apply Rmult_le_compat_l; lra. }
    lra.
  - assert (Far : gabor_fr_term l2 std xi (w0 - 2 * PI) <= eps * exp (- (std * std * (3 * (PI * PI)) / 2))).
    { apply gabor_freq_far; try assumption; [nra|]. fold diff.
      assert (2 * PI <= xi - (w0 - 2 * PI)) by lra. nra. }
    assert (gabor_fr_term l2 std xi (w0 - 2 * PI) <= eps * (1 / 2)).
    { eapply Rle_trans; [exact Far|]. apply Rmult_le_compat_l; lra. }
    lra.
Qed.

(* every Gabor filter whose edges are at most half the sampling rate apart (all banks: the
   edges lie in [low_hz, high_hz] within [0, rate/2]) has std >= 1/4 sample *)
Lemma gabor_std_ge_quarter_l : forall erb rate le re, 0 < rate -> le < re -> re - le <= rate / 2 ->
  1 / 4 <= gabor_std erb rate le re.
Proof.
  intros erb rate le re Hr Hl Hw. unfold gabor_std, h2a. cbv zeta.
  pose proof PI_RGT_0 as HPI. assert (HPI4 : PI < 4) by interval.
  set (h := ((le + re) / 2 - le) * 2 * PI / rate).
  assert (Hh : 0 < h <= 2).
  { unfold h. replace (((le + re) / 2 - le) * 2 * PI / rate) with ((re - le) / rate * PI) by (field; lra).
    assert (0 < (re - le) / rate <= 1 / 2).
    { split; [apply Rdiv_lt_0_compat; lra|].
      apply Rmult_le_reg_r with rate; [lra|]. replace ((re - le) / rate * rate) with (re - le) by (field; lra). lra. }
    nra. }
  assert (Hb : 4 / 5 <= gabor_bandwidth_const erb).
  { unfold gabor_bandwidth_const. destruct erb; interval. }
  apply Rmult_le_reg_r with h; [lra|].
  replace (gabor_bandwidth_const erb / h * h) with (gabor_bandwidth_const erb) by (field; lra). nra.
Qed.
