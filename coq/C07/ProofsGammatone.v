(* C07: complex gammatone bank - the envelope beyond its mode, partial
   correctness of the support search, the periodised impulse response, the
   (alpha^2 + x^2)^(-n/2) tail and the periodised frequency response. *)
From Coq Require Import Reals ZArith Lra Lia.
From Coquelicot Require Import Complex.
From Flocq Require Import Core.Raux.
From Verif Require Import lib.C07_Base C07.Model.
Open Scope R_scope.

(** * The envelope *)
Lemma INR_pred n : (1 <= n)%nat -> INR n - 1 = INR (n - 1).
Proof. intros H. rewrite minus_INR by exact H. reflexivity. Qed.

Lemma exp_INR_ln (k : nat) s : 0 < s -> exp (INR k * ln s) = s ^ k.
Proof. intros H. rewrite <- ln_pow by exact H. apply exp_ln. apply pow_lt; exact H. Qed.

Lemma gt_habs_env c alpha n offset t : 0 < c -> (1 <= n)%nat -> offset < t ->
  gt_habs c alpha n offset t = gt_env c alpha n (t - offset).
Proof.
  intros Hc Hn Ht. unfold gt_habs, gt_env.
  destruct (Rle_dec t offset) as [H|H]; [lra|].
  rewrite INR_pred by exact Hn.
  rewrite !exp_plus, exp_ln by exact Hc. rewrite exp_INR_ln by lra. reflexivity.
Qed.

Lemma gt_habs_nonneg c alpha n offset t : 0 <= gt_habs c alpha n offset t.
Proof. unfold gt_habs. destruct (Rle_dec t offset); [lra | left; apply exp_pos]. Qed.

Lemma gt_habs_before c alpha n offset t : t <= offset -> gt_habs c alpha n offset t = 0.
Proof. intros H. unfold gt_habs. destruct (Rle_dec t offset); [reflexivity | lra]. Qed.

Lemma ln_div x y : 0 < x -> 0 < y -> ln (x / y) = ln x - ln y.
Proof.
  intros Hx Hy. unfold Rdiv. rewrite ln_mult by (try apply Rinv_0_lt_compat; assumption).
  rewrite ln_Rinv by exact Hy. ring.
Qed.

Lemma ln_le_minus1 x : 0 < x -> ln x <= x - 1.
Proof.
  intros Hx. pose proof (exp_ineq1_le (ln x)) as H. rewrite exp_ln in H by exact Hx. lra.
Qed.

Lemma ln_lt_minus1 x : 0 < x -> x <> 1 -> ln x < x - 1.
Proof.
  intros Hx H1. assert (ln x <> 0).
  { intro E. apply H1. rewrite <- (exp_ln x Hx), E. apply exp_0. }
  pose proof (exp_ineq1 (ln x) H) as H2. rewrite exp_ln in H2 by exact Hx. lra.
Qed.

(* exponent of the envelope: g(s) = (n-1) ln s - alpha s decreases beyond (n-1)/alpha *)
Lemma gt_exponent_decr (k alpha s1 s2 : R) : 0 < alpha -> 0 <= k -> 0 < s1 ->
  k / alpha <= s1 -> s1 <= s2 ->
  k * ln s2 - alpha * s2 <= k * ln s1 - alpha * s1.
Proof.
  intros Ha Hk Hs1 Hm H12.
  assert (Hq : ln s2 - ln s1 <= s2 / s1 - 1).
  { rewrite <- ln_div by lra. apply ln_le_minus1. apply Rdiv_lt_0_compat; lra. }
  assert (Hk1 : k <= alpha * s1).
  { apply Rmult_le_reg_r with (/ alpha); [apply Rinv_0_lt_compat; lra|].
    replace (alpha * s1 * / alpha) with s1 by (field; lra). exact Hm. }
  assert (k * (s2 / s1 - 1) <= alpha * (s2 - s1)).
  { replace (k * (s2 / s1 - 1)) with (k / s1 * (s2 - s1)) by (field; lra).
    apply Rmult_le_compat_r; [lra|].
    apply Rmult_le_reg_r with s1; [lra|]. replace (k / s1 * s1) with k by (field; lra). lra. }
  assert (k * (ln s2 - ln s1) <= k * (s2 / s1 - 1)) by (apply Rmult_le_compat_l; lra).
  lra.
Qed.

Lemma gt_exponent_decr_strict (k alpha s1 s2 : R) : 0 < alpha -> 0 <= k -> 0 < s1 ->
  k / alpha <= s1 -> s1 < s2 ->
  k * ln s2 - alpha * s2 < k * ln s1 - alpha * s1.
Proof.
  intros Ha Hk Hs1 Hm H12.
  assert (Hq : ln s2 - ln s1 <= s2 / s1 - 1).
  { rewrite <- ln_div by lra. apply ln_le_minus1. apply Rdiv_lt_0_compat; lra. }
  assert (Hk1 : k <= alpha * s1).
  { apply Rmult_le_reg_r with (/ alpha); [apply Rinv_0_lt_compat; lra|].
    replace (alpha * s1 * / alpha) with s1 by (field; lra). exact Hm. }
  assert (Hx : k * (s2 / s1 - 1) <= alpha * (s2 - s1)).
  { replace (k * (s2 / s1 - 1)) with (k / s1 * (s2 - s1)) by (field; lra).
    apply Rmult_le_compat_r; [lra|].
    apply Rmult_le_reg_r with s1; [lra|]. replace (k / s1 * s1) with k by (field; lra). lra. }
  assert (k * (ln s2 - ln s1) <= k * (s2 / s1 - 1)) by (apply Rmult_le_compat_l; lra).
  destruct (Req_dec k 0) as [E|E].
  - subst k. nra.
  - (* k > 0: the logarithm inequality is strict *)
    assert (Hq' : ln s2 - ln s1 < s2 / s1 - 1).
    { rewrite <- ln_div by lra. apply ln_lt_minus1; [apply Rdiv_lt_0_compat; lra|].
      intro E1. assert (s2 = s1); [|lra].
      replace s2 with (s2 / s1 * s1) by (field; lra). rewrite E1. ring. }
    assert (k * (ln s2 - ln s1) < k * (s2 / s1 - 1)) by (apply Rmult_lt_compat_l; lra).
    lra.
Qed.

(* |_h| is non-increasing (strictly decreasing) in t once t - offset is beyond the mode *)
Lemma gt_habs_decr c alpha n offset t1 t2 : 0 < alpha -> (2 <= n)%nat ->
  (INR n - 1) / alpha <= t1 - offset -> t1 <= t2 ->
  gt_habs c alpha n offset t2 <= gt_habs c alpha n offset t1.
Proof.
  intros Ha Hn Hm H12.
  assert (Hk : 1 <= INR n - 1).
  { assert (2 <= INR n) by (apply (le_INR 2); exact Hn). lra. }
  assert (Hpos : 0 < (INR n - 1) / alpha) by (apply Rdiv_lt_0_compat; lra).
  unfold gt_habs.
  destruct (Rle_dec t1 offset) as [H1|H1]; [lra|].
  destruct (Rle_dec t2 offset) as [H2|H2]; [lra|].
  apply exp_le_of_le.
  pose proof (gt_exponent_decr (INR n - 1) alpha (t1 - offset) (t2 - offset)). lra.
Qed.

Lemma gt_habs_decr_strict c alpha n offset t1 t2 : 0 < alpha -> (2 <= n)%nat ->
  (INR n - 1) / alpha <= t1 - offset -> t1 < t2 ->
  gt_habs c alpha n offset t2 < gt_habs c alpha n offset t1.
Proof.
  intros Ha Hn Hm H12.
  assert (Hk : 1 <= INR n - 1).
  { assert (2 <= INR n) by (apply (le_INR 2); exact Hn). lra. }
  assert (Hpos : 0 < (INR n - 1) / alpha) by (apply Rdiv_lt_0_compat; lra).
  unfold gt_habs.
  destruct (Rle_dec t1 offset) as [H1|H1]; [lra|].
  destruct (Rle_dec t2 offset) as [H2|H2]; [lra|].
  apply exp_increasing.
  pose proof (gt_exponent_decr_strict (INR n - 1) alpha (t1 - offset) (t2 - offset)). lra.
Qed.

(** ** one image, time: beyond the right end of the support *)
Lemma gt_time_tail_l : forall eps c alpha n offset right t, 0 < alpha -> (2 <= n)%nat ->
  (INR n - 1) / alpha <= right - offset ->
  gt_habs c alpha n offset right <= eps ->
  right <= t -> gt_habs c alpha n offset t <= eps.
Proof.
  intros eps c alpha n offset right t Ha Hn Hm He Ht.
  eapply Rle_trans; [apply (gt_habs_decr c alpha n offset right t); assumption | exact He].
Qed.

Lemma Cmod_gt_h c alpha xi n offset t : Cmod (gt_h c alpha xi n offset t) = gt_habs c alpha n offset t.
Proof. unfold gt_h. apply Cmod_scal_cis_pos. apply gt_habs_nonneg. Qed.

(** * The support search (lines 1200-1211): partial correctness *)
Lemma gt_newton_start_beyond_mode alpha n : 0 < alpha -> (2 <= n)%nat ->
  (INR n - 1) / alpha < gt_newton_start alpha n.
Proof.
  intros Ha Hn. unfold gt_newton_start.
  assert (Hk : 1 <= INR n - 1).
  { assert (2 <= INR n) by (apply (le_INR 2); exact Hn). lra. }
  assert (0 < sqrt ((INR n - 1) / 2)) by (apply sqrt_lt_R0; lra).
  unfold Rdiv. apply Rmult_lt_compat_r; [apply Rinv_0_lt_compat; lra | lra].
Qed.

Lemma gt_d_neg c alpha n t : 0 < c -> 0 < alpha -> (INR n - 1) / alpha < t -> 0 < t ->
  gt_d c alpha n t < 0.
Proof.
  intros Hc Ha Hm Ht. unfold gt_d.
  assert (INR n - 1 < alpha * t).
  { apply Rmult_lt_reg_r with (/ alpha); [apply Rinv_0_lt_compat; lra|].
    replace (alpha * t * / alpha) with t by (field; lra). exact Hm. }
  assert (0 < c * exp (- alpha * t) * t ^ (n - 2)).
  { apply Rmult_lt_0_compat; [apply Rmult_lt_0_compat; [lra | apply exp_pos] | apply pow_lt; lra]. }
  nra.
Qed.

Lemma gt_newton_sound_l : forall fuel eps c alpha n offset right r,
  0 < eps -> 0 < c -> 0 < alpha -> (2 <= n)%nat ->
  (INR n - 1) / alpha < right ->
  gt_newton fuel eps c alpha n offset right = Some r ->
  right <= r /\ gt_habs c alpha n offset r <= eps.
Proof.
  induction fuel as [|fuel IH]; intros eps c alpha n offset right r He Hc Ha Hn Hm.
  - simpl. destruct (Rgt_dec _ eps) as [H|H]; [discriminate|].
    intros E; inversion E; subst. split; lra.
  - simpl. destruct (Rgt_dec _ eps) as [H|H].
    + intros E.
      assert (Hk : 1 <= INR n - 1).
      { assert (2 <= INR n) by (apply (le_INR 2); exact Hn). lra. }
      assert (Hpos : 0 < (INR n - 1) / alpha) by (apply Rdiv_lt_0_compat; lra).
      pose proof (gt_d_neg c alpha n right Hc Ha Hm ltac:(lra)) as Hd.
      set (h0 := gt_habs c alpha n offset right) in *.
      assert (Hstep : 0 < - (h0 / gt_d c alpha n right)).
      { assert (0 < h0) by lra.
        assert (/ gt_d c alpha n right < 0) by (apply Rinv_lt_0_compat; lra).
        unfold Rdiv. nra. }
      destruct (IH eps c alpha n offset (right - h0 / gt_d c alpha n right) r He Hc Ha Hn ltac:(lra) E) as [H1 H2].
      split; [lra | exact H2].
    + intros E; inversion E; subst. split; lra.
Qed.

(* what the constructor stores: the search started at gt_newton_start with offset <= 0 *)
Lemma gt_search_result_l : forall fuel eps c alpha n max_centered r,
  0 < eps -> 0 < c -> 0 < alpha -> (2 <= n)%nat ->
  gt_newton fuel eps c alpha n (gt_offset max_centered n alpha) (gt_newton_start alpha n) = Some r ->
  (INR n - 1) / alpha <= r - gt_offset max_centered n alpha /\
  gt_habs c alpha n (gt_offset max_centered n alpha) r <= eps.
Proof.
  intros fuel eps c alpha n mc r He Hc Ha Hn E.
  pose proof (gt_newton_start_beyond_mode alpha n Ha Hn) as Hs.
  destruct (gt_newton_sound_l _ _ _ _ _ _ _ _ He Hc Ha Hn Hs E) as [H1 H2].
  split; [|exact H2].
  assert (gt_offset mc n alpha <= 0).
  { unfold gt_offset. destruct mc; [|lra].
    assert (Hk : 1 <= INR n - 1).
    { assert (2 <= INR n) by (apply (le_INR 2); exact Hn). lra. }
    assert (0 < (INR n - 1) / alpha) by (apply Rdiv_lt_0_compat; lra).
    unfold Rdiv in *. rewrite <- Ropp_mult_distr_l. lra. }
  lra.
Qed.

(** * The periodised impulse response *)
Lemma sum_from_last2 (g : Z -> R) n : forall lo hi,
  (forall p, 0 <= g p) -> (forall p, (p < hi - 1)%Z -> g p = 0) ->
  (lo + Z.of_nat n = hi + 1)%Z ->
  sum_from 0 Rplus g lo n <= g (hi - 1)%Z + g hi.
Proof.
  induction n as [|n IH]; intros lo hi Hg Hz Hl.
  - simpl. pose proof (Hg (hi - 1)%Z). pose proof (Hg hi). lra.
  - cbn [sum_from].
    destruct (Z_lt_le_dec lo (hi - 1)) as [Hlt|Hge].
    + rewrite (Hz lo Hlt). pose proof (IH (lo + 1)%Z hi Hg Hz ltac:(lia)). lra.
    + destruct (Z.eq_dec lo (hi - 1)) as [E|E].
      * destruct n as [|[|n]]; try lia. simpl.
        replace (lo + 1)%Z with hi by lia. subst lo. lra.
      * assert (lo = hi) by lia. destruct n as [|n]; try lia. simpl. subst lo.
        pose proof (Hg (hi - 1)%Z). lra.
Qed.

Lemma Rsum_last2 (g : Z -> R) lo hi :
  (forall p, 0 <= g p) -> (forall p, (p < hi - 1)%Z -> g p = 0) ->
  Rsum g lo hi <= g (hi - 1)%Z + g hi.
Proof.
  intros Hg Hz. unfold Rsum, sum_range.
  destruct (Z_lt_le_dec hi lo) as [H|H].
  - replace (Z.to_nat (hi + 1 - lo)) with O by lia. simpl.
    pose proof (Hg (hi - 1)%Z). pose proof (Hg hi). lra.
  - apply sum_from_last2; try assumption. lia.
Qed.

Lemma gt_ir_outside_supports_l : forall eps c alpha xi n offset r W j,
  0 < eps -> 0 < alpha -> (2 <= n)%nat ->
  (INR n - 1) / alpha <= r - offset ->
  gt_habs c alpha n offset r <= eps ->
  (0 <= j < W)%Z ->
  let sup := gt_supports offset r in
  outside_mod (fst sup) (snd sup) W j ->
  Cmod (gt_ir c alpha xi n offset sup W j) < 2 * eps.
Proof.
  intros eps c alpha xi n offset r W j He Ha Hn Hm Hr Hj sup Hout.
  unfold gt_ir. subst sup. unfold gt_supports in *. cbn [fst snd] in *.
  set (L := Zfloor offset) in *. set (Rz := Zceil r) in *.
  set (g := fun p : Z => gt_habs c alpha n offset (IZR (p * W + j))).
  set (hi := Zceil (IZR Rz / IZR W)).
  eapply Rle_lt_trans.
  { apply (Cmod_Csum_le _ g). intros p _. unfold g. rewrite Cmod_gt_h. lra. }
  assert (HW : 0 < IZR W) by (apply (IZR_lt 0); lia).
  (* every sample of every period is before the support (0) or beyond it (< eps) *)
  assert (Hcase : forall p, g p = 0 \/ ((Rz < p * W + j)%Z /\ g p < eps)).
  { intros p. unfold g. pose proof (Hout p) as Hp.
    destruct (Z_lt_le_dec (j + p * W) L) as [Hlt|Hge].
    - left. apply gt_habs_before.
      apply Rle_trans with (IZR L); [apply IZR_le; lia | apply Zfloor_lb].
    - right. assert (Hgt : (Rz < p * W + j)%Z) by lia. split; [exact Hgt|].
      eapply Rlt_le_trans; [|exact Hr].
      apply gt_habs_decr_strict; try assumption.
      apply Rle_lt_trans with (IZR Rz); [apply Zceil_ub | apply IZR_lt; exact Hgt]. }
  (* only the last two periods of the loop can be beyond the support *)
  assert (Hz : forall p, (p < hi - 1)%Z -> g p = 0).
  { intros p Hp. destruct (Hcase p) as [E|[Hgt _]]; [exact E|]. exfalso.
    assert (Hhi : IZR hi < IZR Rz / IZR W + 1) by (apply Zceil_lb).
    assert (IZR (p + 2) <= IZR hi) by (apply IZR_le; lia).
    assert (IZR Rz < IZR (p * W + j)) by (apply IZR_lt; exact Hgt).
    assert (IZR j < IZR W) by (apply IZR_lt; lia).
    rewrite plus_IZR, mult_IZR in H0. rewrite plus_IZR in H.
    assert (IZR hi * IZR W < IZR Rz + IZR W).
    { apply Rmult_lt_reg_r with (/ IZR W); [apply Rinv_0_lt_compat; lra|].
      replace (IZR hi * IZR W * / IZR W) with (IZR hi) by (field; lra).
      replace ((IZR Rz + IZR W) * / IZR W) with (IZR Rz / IZR W + 1) by (field; lra). exact Hhi. }
    assert ((IZR p + 2) * IZR W <= IZR hi * IZR W) by (apply Rmult_le_compat_r; lra).
    nra. }
  eapply Rle_lt_trans.
  { apply Rsum_last2; [intros p; unfold g; apply gt_habs_nonneg | exact Hz]. }
  destruct (Hcase (hi - 1)%Z) as [E1|[_ E1]]; destruct (Hcase hi) as [E2|[_ E2]]; lra.
Qed.

(* the same, for the support the constructor computes *)
Lemma gt_bank_ir_outside_supports_l : forall fuel eps c alpha xi n max_centered r W j,
  0 < eps -> 0 < c -> 0 < alpha -> (2 <= n)%nat ->
  let offset := gt_offset max_centered n alpha in
  gt_newton fuel eps c alpha n offset (gt_newton_start alpha n) = Some r ->
  (0 <= j < W)%Z ->
  let sup := gt_supports offset r in
  outside_mod (fst sup) (snd sup) W j ->
  Cmod (gt_ir c alpha xi n offset sup W j) < 2 * eps.
Proof.
  intros fuel eps c alpha xi n mc r W j He Hc Ha Hn offset E Hj sup Hout.
  destruct (gt_search_result_l fuel eps c alpha n mc r He Hc Ha Hn E) as [H1 H2].
  apply gt_ir_outside_supports_l; assumption.
Qed.

(** * Frequency domain *)
Lemma Cmod_Cpow_nat z n : Cmod (Cpow_nat z n) = Cmod z ^ n.
Proof.
  induction n as [|n IH]; simpl.
  - apply Cmod_1.
  - rewrite Cmod_mult, IH. reflexivity.
Qed.

Lemma Cmod_pair a b : Cmod (a, b) = sqrt (a * a + b * b).
Proof. unfold Cmod; simpl. f_equal. ring. Qed.

Lemma sum_sq_pos a x : 0 < a -> 0 < a * a + x * x.
Proof. intros Ha. pose proof (Rle_0_sqr x) as H. unfold Rsqr in H. nra. Qed.

Definition gt_Habs (c alpha xi : R) (n : nat) (omega : R) : R :=
  c * INR (fact (n - 1)) / sqrt (alpha * alpha + (omega - xi) * (omega - xi)) ^ n.

Lemma Cmod_gt_H c alpha xi n offset omega : 0 < c -> 0 < alpha ->
  Cmod (gt_H c alpha xi n offset omega) = gt_Habs c alpha xi n omega.
Proof.
  intros Hc Ha. unfold gt_H, gt_Habs. cbv zeta.
  assert (Hs : 0 < sqrt (alpha * alpha + (omega - xi) * (omega - xi))) by (apply sqrt_lt_R0; apply sum_sq_pos; assumption).
  assert (Hne : Cpow_nat (alpha, omega - xi) n <> RtoC 0).
  { intro E. apply (f_equal Cmod) in E. rewrite Cmod_Cpow_nat, Cmod_pair, Cmod_0 in E.
    pose proof (pow_lt _ n Hs). lra. }
  rewrite Cmod_div by exact Hne.
  rewrite !Cmod_mult, Cmod_cis, !Cmod_R, Cmod_Cpow_nat, Cmod_pair.
  rewrite (Rabs_pos_eq c) by lra.
  rewrite (Rabs_pos_eq (INR (fact (n - 1)))) by (left; apply INR_fact_lt_0).
  rewrite Rmult_1_l. reflexivity.
Qed.

Lemma gt_Habs_nonneg c alpha xi n omega : 0 < c -> 0 < alpha -> 0 <= gt_Habs c alpha xi n omega.
Proof.
  intros Hc Ha. unfold gt_Habs.
  assert (Hs : 0 < sqrt (alpha * alpha + (omega - xi) * (omega - xi))) by (apply sqrt_lt_R0; apply sum_sq_pos; assumption).
  apply Rmult_le_pos; [apply Rmult_le_pos; [lra | left; apply INR_fact_lt_0] |
                       left; apply Rinv_0_lt_compat; apply pow_lt; exact Hs].
Qed.

(* Q = exp(supp_a) = (c (n-1)! / eps)^(2/n);  sqrt(Q)^n = c (n-1)! / eps *)
Lemma gt_supp_a_root eps n log_c : 0 < eps -> (1 <= n)%nat ->
  sqrt (exp (gt_supp_a eps n log_c)) ^ n = exp log_c * INR (fact (n - 1)) / eps.
Proof.
  intros He Hn. unfold gt_supp_a.
  assert (Hn0 : 0 < INR n) by (apply lt_0_INR; lia).
  set (y := log_c + ln (INR (fact (n - 1))) - ln eps).
  replace (exp (2 / INR n * y)) with (exp (y / INR n) * exp (y / INR n))
    by (rewrite <- exp_plus; f_equal; field; lra).
  rewrite sqrt_square by (left; apply exp_pos).
  rewrite <- (exp_ln (exp (y / INR n) ^ n)) by (apply pow_lt; apply exp_pos).
  rewrite ln_pow by apply exp_pos. rewrite ln_exp.
  replace (INR n * (y / INR n)) with y by (field; lra).
  unfold y. unfold Rminus. rewrite !exp_plus, exp_Ropp, !exp_ln; [reflexivity | exact He | apply INR_fact_lt_0].
Qed.

Lemma gt_diff_ang_sqr eps n log_c log_alpha :
  exp (2 * log_alpha) < exp (gt_supp_a eps n log_c) ->
  gt_diff_ang eps n log_c log_alpha * gt_diff_ang eps n log_c log_alpha
  = exp (gt_supp_a eps n log_c) - exp log_alpha * exp log_alpha.
Proof.
  intros H. unfold gt_diff_ang.
  replace (1 / 2) with (/ 2) by lra. rewrite Rpower_sqrt by lra. rewrite sqrt_sqrt by lra.
  rewrite <- exp_plus. f_equal. f_equal. ring.
Qed.

Lemma gt_diff_ang_pos eps n log_c log_alpha : 0 < gt_diff_ang eps n log_c log_alpha.
Proof. unfold gt_diff_ang, Rpower. apply exp_pos. Qed.

(** ** one image, frequency (any scaling constant c) *)
Lemma gt_freq_tail_l : forall eps n log_c log_alpha xi omega, 0 < eps -> (1 <= n)%nat ->
  exp (2 * log_alpha) < exp (gt_supp_a eps n log_c) ->
  gt_diff_ang eps n log_c log_alpha <= Rabs (omega - xi) ->
  gt_Habs (exp log_c) (exp log_alpha) xi n omega <= eps.
Proof.
  intros eps n log_c log_alpha xi omega He Hn HQ H.
  pose proof (gt_diff_ang_sqr eps n log_c log_alpha HQ) as Hsq.
  pose proof (gt_diff_ang_pos eps n log_c log_alpha) as Hdp.
  pose proof (sqr_ge_of_abs_ge (omega - xi) _ (Rlt_le _ _ Hdp) H) as H2.
  set (Q := exp (gt_supp_a eps n log_c)) in *. set (a := exp log_alpha) in *.
  assert (Ha : 0 < a) by apply exp_pos.
  assert (HQle : Q <= a * a + (omega - xi) * (omega - xi)) by lra.
  assert (HQ0 : 0 < Q) by apply exp_pos.
  unfold gt_Habs.
  assert (Hroot : sqrt Q ^ n <= sqrt (a * a + (omega - xi) * (omega - xi)) ^ n).
  { apply pow_incr. split; [apply sqrt_pos | apply sqrt_le_1; lra]. }
  unfold Q in Hroot at 1. rewrite gt_supp_a_root in Hroot by assumption.
  set (P := sqrt (a * a + (omega - xi) * (omega - xi)) ^ n) in *.
  set (N := exp log_c * INR (fact (n - 1))) in *.
  assert (HN : 0 < N) by (apply Rmult_lt_0_compat; [apply exp_pos | apply INR_fact_lt_0]).
  assert (HP : 0 < P).
  { eapply Rlt_le_trans; [|exact Hroot]. apply Rdiv_lt_0_compat; lra. }
  apply Rmult_le_reg_r with P; [exact HP|].
  replace (N / P * P) with N by (field; lra).
  apply Rmult_le_reg_r with (/ eps); [apply Rinv_0_lt_compat; lra|].
  replace (eps * P * / eps) with P by (field; lra). exact Hroot.
Qed.

Lemma pow_lt_base x y (n : nat) : 0 <= x < y -> (1 <= n)%nat -> x ^ n < y ^ n.
Proof.
  intros [Hx Hxy] Hn. induction n as [|n IH]; [lia|].
  destruct n as [|n].
  - simpl. lra.
  - assert (x ^ S n < y ^ S n) by (apply IH; lia).
    assert (0 <= x ^ S n) by (apply pow_le; exact Hx).
    change (x ^ S (S n)) with (x * x ^ S n). change (y ^ S (S n)) with (y * y ^ S n). nra.
Qed.

Lemma gt_freq_tail_strict eps n log_c log_alpha xi omega : 0 < eps -> (1 <= n)%nat ->
  exp (2 * log_alpha) < exp (gt_supp_a eps n log_c) ->
  gt_diff_ang eps n log_c log_alpha < Rabs (omega - xi) ->
  gt_Habs (exp log_c) (exp log_alpha) xi n omega < eps.
Proof.
  intros He Hn HQ H.
  pose proof (gt_diff_ang_sqr eps n log_c log_alpha HQ) as Hsq.
  pose proof (gt_diff_ang_pos eps n log_c log_alpha) as Hdp.
  assert (H2 : gt_diff_ang eps n log_c log_alpha * gt_diff_ang eps n log_c log_alpha
               < (omega - xi) * (omega - xi)).
  { replace ((omega - xi) * (omega - xi)) with (Rabs (omega - xi) * Rabs (omega - xi))
      by (unfold Rabs; destruct (Rcase_abs (omega - xi)); ring).
    apply Rmult_le_0_lt_compat; lra. }
  set (Q := exp (gt_supp_a eps n log_c)) in *. set (a := exp log_alpha) in *.
  assert (Ha : 0 < a) by apply exp_pos.
  assert (HQlt : Q < a * a + (omega - xi) * (omega - xi)) by lra.
  assert (HQ0 : 0 < Q) by apply exp_pos.
  unfold gt_Habs.
  assert (Hroot : sqrt Q ^ n < sqrt (a * a + (omega - xi) * (omega - xi)) ^ n).
  { apply pow_lt_base; [|exact Hn]. split; [apply sqrt_pos | apply sqrt_lt_1; lra]. }
  unfold Q in Hroot at 1. rewrite gt_supp_a_root in Hroot by assumption.
  set (P := sqrt (a * a + (omega - xi) * (omega - xi)) ^ n) in *.
  set (N := exp log_c * INR (fact (n - 1))) in *.
  assert (HN : 0 < N) by (apply Rmult_lt_0_compat; [apply exp_pos | apply INR_fact_lt_0]).
  assert (HP : 0 < P).
  { eapply Rlt_trans; [|exact Hroot]. apply Rdiv_lt_0_compat; lra. }
  apply Rmult_lt_reg_r with P; [exact HP|].
  replace (N / P * P) with N by (field; lra).
  apply Rmult_lt_reg_r with (/ eps); [apply Rinv_0_lt_compat; lra|].
  replace (eps * P * / eps) with P by (field; lra). exact Hroot.
Qed.

(** ** unit-gain (no L2 scaling) banks: c (n-1)! = alpha^n *)
Lemma gt_unit_gain n log_alpha : (1 <= n)%nat ->
  exp (gt_log_c false n log_alpha) * INR (fact (n - 1)) = exp log_alpha ^ n.
Proof.
  intros Hn. unfold gt_log_c. unfold Rminus. rewrite exp_plus, exp_Ropp, exp_ln by apply INR_fact_lt_0.
  rewrite <- (exp_ln (exp log_alpha ^ n)) by (apply pow_lt; apply exp_pos).
  rewrite ln_pow by apply exp_pos. rewrite ln_exp.
  field. apply INR_fact_neq_0.
Qed.

Lemma gt_unit_gain_support_exists eps n log_alpha : 0 < eps < 1 -> (1 <= n)%nat ->
  exp (2 * log_alpha) < exp (gt_supp_a eps n (gt_log_c false n log_alpha)).
Proof.
  intros [He He1] Hn. apply exp_increasing. unfold gt_supp_a, gt_log_c.
  assert (Hn0 : 0 < INR n) by (apply lt_0_INR; lia).
  assert (ln eps < 0) by (rewrite <- ln_1; apply ln_increasing; lra).
  replace (2 / INR n * (INR n * log_alpha - ln (INR (fact (n - 1))) + ln (INR (fact (n - 1))) - ln eps))
    with (2 * log_alpha + 2 / INR n * (- ln eps)) by (field; lra).
  assert (0 < 2 / INR n * (- ln eps)).
  { apply Rmult_lt_0_compat; [apply Rdiv_lt_0_compat; lra | lra]. }
  lra.
Qed.

Lemma bernoulli_minus (n : nat) v : 0 <= v <= 1 -> 1 - INR n * v <= (1 - v) ^ n.
Proof.
  intros Hv. induction n as [|n IH].
  - simpl. lra.
  - rewrite S_INR. simpl.
    assert (0 <= (1 - v) ^ n) by (apply pow_le; lra).
    assert (0 <= INR n) by apply pos_INR. nra.
Qed.

(* an image at distance >= 3 * diff_ang is below eps / 2 *)
Lemma gt_freq_far_l eps n log_alpha xi omega : 0 < eps <= 1 / 2 -> (1 <= n)%nat ->
  let log_c := gt_log_c false n log_alpha in
  3 * gt_diff_ang eps n log_c log_alpha <= Rabs (omega - xi) ->
  gt_Habs (exp log_c) (exp log_alpha) xi n omega <= eps / 2.
Proof.
  intros [He He2] Hn log_c H.
  assert (HQ : exp (2 * log_alpha) < exp (gt_supp_a eps n log_c)).
  { apply gt_unit_gain_support_exists; [lra | exact Hn]. }
  pose proof (gt_diff_ang_sqr eps n log_c log_alpha HQ) as Hsq.
  pose proof (gt_diff_ang_pos eps n log_c log_alpha) as Hdp.
  assert (H3 : 0 <= 3 * gt_diff_ang eps n log_c log_alpha) by lra.
  pose proof (sqr_ge_of_abs_ge (omega - xi) _ H3 H) as H2.
  pose proof (gt_supp_a_root eps n log_c He Hn) as Hroot.
  unfold log_c in Hroot at 2. rewrite gt_unit_gain in Hroot by exact Hn.
  unfold gt_Habs. fold log_c. unfold log_c at 1. rewrite gt_unit_gain by exact Hn.
  set (Q := exp (gt_supp_a eps n log_c)) in *. set (a := exp log_alpha) in *.
  set (D := gt_diff_ang eps n log_c log_alpha) in *.
  set (x2 := (omega - xi) * (omega - xi)) in *.
  assert (Ha : 0 < a) by apply exp_pos.
  assert (HQ0 : 0 < Q) by apply exp_pos.
  replace (exp (2 * log_alpha)) with (a * a) in HQ by (unfold a; rewrite <- exp_plus; f_equal; ring).
  (* u = a^2 / Q, u^n = eps^2 *)
  set (u := a * a / Q).
  assert (Hu : 0 < u < 1).
  { unfold u. split; [apply Rdiv_lt_0_compat; nra|].
    apply Rmult_lt_reg_r with Q; [lra|]. replace (a * a / Q * Q) with (a * a) by (field; lra). lra. }
  assert (Hun : u ^ n = eps * eps).
  { unfold u, Rdiv. rewrite Rpow_mult_distr, pow_inv.
    assert (EQ : Q ^ n = (a ^ n / eps) * (a ^ n / eps)).
    { rewrite <- Hroot. rewrite <- Rpow_mult_distr. rewrite sqrt_sqrt by lra. reflexivity. }
    rewrite EQ. rewrite Rpow_mult_distr.
    assert (0 < a ^ n) by (apply pow_lt; lra). field. split; lra. }
  (* Bernoulli twice: n (1 - u) >= 1 - eps^2, (9 - 8u)^n >= 1 + 8 n (1 - u) *)
  pose proof (bernoulli_minus n (1 - u) ltac:(lra)) as B1.
  replace (1 - (1 - u)) with u in B1 by ring. rewrite Hun in B1.
  assert (B2 : 1 + INR n * (8 * (1 - u)) <= (1 + 8 * (1 - u)) ^ n) by (apply poly; lra).
  assert (Hfour : 4 <= (9 - 8 * u) ^ n).
  { replace (9 - 8 * u) with (1 + 8 * (1 - u)) by ring. nra. }
  (* a^2 + x^2 >= Q (9 - 8u) *)
  assert (Hden : Q * (9 - 8 * u) <= a * a + x2).
  { replace (Q * (9 - 8 * u)) with (9 * Q - 8 * (a * a)) by (unfold u; field; lra). nra. }
  (* compare squares *)
  set (S := sqrt (a * a + x2)).
  assert (HS : 0 < S) by (apply sqrt_lt_R0; unfold x2; apply sum_sq_pos; assumption).
  assert (HSn : 0 < S ^ n) by (apply pow_lt; exact HS).
  assert (HS2 : S ^ n * S ^ n = (a * a + x2) ^ n).
  { rewrite <- Rpow_mult_distr. unfold S. rewrite sqrt_sqrt by (left; unfold x2; apply sum_sq_pos; assumption). reflexivity. }
  assert (Han : 0 < a ^ n) by (apply pow_lt; lra).
  assert (Hbig : (Q * (9 - 8 * u)) ^ n <= (a * a + x2) ^ n).
  { apply pow_incr. split; [apply Rmult_le_pos; lra | exact Hden]. }
  rewrite Rpow_mult_distr in Hbig.
  assert (EQ : Q ^ n = (a ^ n / eps) * (a ^ n / eps)).
  { rewrite <- Hroot. rewrite <- Rpow_mult_distr. rewrite sqrt_sqrt by lra. reflexivity. }
  (* (a^n / S^n)^2 <= eps^2 / 4 *)
  assert (Hsq2 : (2 * a ^ n) * (2 * a ^ n) <= (eps * S ^ n) * (eps * S ^ n)).
  { replace (eps * S ^ n * (eps * S ^ n)) with (eps * eps * (S ^ n * S ^ n)) by ring.
    rewrite HS2.
    assert (4 * (a ^ n * a ^ n) <= eps * eps * (Q ^ n * (9 - 8 * u) ^ n)).
    { rewrite EQ. replace (eps * eps * (a ^ n / eps * (a ^ n / eps) * (9 - 8 * u) ^ n))
        with (a ^ n * a ^ n * (9 - 8 * u) ^ n) by (field; lra).
      assert (0 < a ^ n * a ^ n) by nra. nra. }
    assert (eps * eps * (Q ^ n * (9 - 8 * u) ^ n) <= eps * eps * (a * a + x2) ^ n).
    { apply Rmult_le_compat_l; [nra | exact Hbig]. }
    lra. }
  assert (Hlin : 2 * a ^ n <= eps * S ^ n).
  { destruct (Rle_dec (2 * a ^ n) (eps * S ^ n)) as [Hle|Hgt]; [exact Hle|].
    assert (0 < eps * S ^ n) by (apply Rmult_lt_0_compat; lra). nra. }
  apply Rmult_le_reg_r with (S ^ n); [exact HSn|].
  replace (a ^ n / S ^ n * S ^ n) with (a ^ n) by (field; lra). lra.
Qed.

(* the three consecutive images of a bin, relative to a support of half-width d < PI *)
Lemma three_images xi d w0 : 0 <= xi <= PI -> 0 <= w0 < 2 * PI -> 0 <= d ->
  outside_mod_R (xi - d) (xi + d) (2 * PI) w0 ->
  d < PI /\ d < Rabs (w0 - 2 * PI - xi) /\ d < Rabs (w0 - xi) /\ d < Rabs (w0 + 2 * PI - xi) /\
  (3 * d <= Rabs (w0 + 2 * PI - xi) \/ 3 * d <= Rabs (w0 - 2 * PI - xi)).
Proof.
  intros Hxi Hw Hd Hout. pose proof PI_RGT_0 as HPI.
  assert (Hdpi : d < PI).
  { destruct (Rlt_dec d PI) as [H|H]; [exact H|]. exfalso.
    destruct (Rle_dec w0 (xi + PI)) as [Hc|Hc].
    - apply (Hout 0%Z). simpl. lra.
    - apply (Hout (-1)%Z). replace (IZR (-1)) with (-1) by reflexivity. lra. }
  pose proof (Hout (-1)%Z) as Hm. replace (IZR (-1)) with (-1) in Hm by reflexivity.
  pose proof (Hout 0%Z) as H0. simpl in H0.
  pose proof (Hout 1%Z) as Hp.
  split; [exact Hdpi|].
  split; [unfold Rabs; destruct (Rcase_abs _); lra|].
  split; [unfold Rabs; destruct (Rcase_abs _); lra|].
  split; [unfold Rabs; destruct (Rcase_abs _); lra|].
  destruct (Rle_dec xi w0) as [Hc|Hc].
  - left. assert (d < w0 - xi) by lra. rewrite Rabs_pos_eq; lra.
  - right. assert (d < xi - w0) by lra. rewrite Rabs_left; lra.
Qed.

(** ** the periodised frequency response: all images the code sums *)
Lemma gt_fr_outside_supports_l : forall eps n log_alpha xi offset W idx,
  0 < eps <= 1 / 2 -> (1 <= n)%nat -> 0 <= xi <= PI -> (0 <= idx < W)%Z ->
  let log_c := gt_log_c false n log_alpha in
  let diff := gt_diff_ang eps n log_c log_alpha in
  outside_mod_R (xi - diff) (xi + diff) (2 * PI) (IZR idx * 2 * PI / IZR W) ->
  Cmod (gt_fr (exp log_c) (exp log_alpha) xi n offset (xi - diff) (xi + diff) W idx) < 5 / 2 * eps.
Proof.
  intros eps n log_alpha xi offset W idx [He He2] Hn Hxi [Hi0 Hi1] log_c diff Hout.
  pose proof PI_RGT_0 as HPI.
  assert (HW : 0 < IZR W) by (apply (IZR_lt 0); lia).
  set (w0 := IZR idx * 2 * PI / IZR W) in *.
  assert (Hw0 : 0 <= w0 < 2 * PI).
  { unfold w0. assert (0 <= IZR idx / IZR W < 1).
    { split.
      - apply Rmult_le_pos; [apply (IZR_le 0); lia | left; apply Rinv_0_lt_compat; lra].
      - apply Rmult_lt_reg_r with (IZR W); [lra|].
        replace (IZR idx / IZR W * IZR W) with (IZR idx) by (field; lra).
        rewrite Rmult_1_l. apply IZR_lt; lia. }
    replace (IZR idx * 2 * PI / IZR W) with (IZR idx / IZR W * (2 * PI)) by (field; lra). nra. }
  pose proof (gt_diff_ang_pos eps n log_c log_alpha) as Hdp. fold diff in Hdp.
  destruct (three_images xi diff w0 Hxi Hw0 (Rlt_le _ _ Hdp) Hout) as [Hdpi [Hm [H0 [Hp Hfar]]]].
  assert (HQ : exp (2 * log_alpha) < exp (gt_supp_a eps n log_c)).
  { apply gt_unit_gain_support_exists; [lra | exact Hn]. }
  set (g := fun p : Z => gt_Habs (exp log_c) (exp log_alpha) xi n (w0 + 2 * PI * IZR p)).
  unfold gt_fr.
  eapply Rle_lt_trans.
  { apply (Cmod_Csum_le _ g). intros p _. unfold g. fold w0.
    rewrite Cmod_gt_H by apply exp_pos. lra. }
  (* the loop runs over a sub-range of -1 .. 1 *)
  assert (Hlo : (-1 <= Zfloor ((xi - diff) / 2 / PI))%Z).
  { apply Zfloor_lub. replace (IZR (-1)) with (-1) by reflexivity.
    apply Rmult_le_reg_r with (2 * PI); [lra|].
    replace ((xi - diff) / 2 / PI * (2 * PI)) with (xi - diff) by (field; lra). lra. }
  assert (Hhi : (Zceil ((xi + diff) / 2 / PI) <= 1)%Z).
  { apply Zceil_glb. apply Rmult_le_reg_r with (2 * PI); [lra|].
    replace ((xi + diff) / 2 / PI * (2 * PI)) with (xi + diff) by (field; lra). lra. }
  eapply Rle_lt_trans.
  { apply (Rsum_mono_range g _ _ (-1)%Z 1%Z); [|exact Hlo|exact Hhi].
    intros p. unfold g. apply gt_Habs_nonneg; apply exp_pos. }
  replace 1%Z with (-1 + 2)%Z by reflexivity. rewrite Rsum_3. unfold g.
  replace (w0 + 2 * PI * IZR (-1)) with (w0 - 2 * PI) by (replace (IZR (-1)) with (-1) by reflexivity; ring).
  replace (w0 + 2 * PI * IZR (-1 + 1)) with w0 by (replace (IZR (-1 + 1)) with 0 by reflexivity; ring).
  replace (w0 + 2 * PI * IZR (-1 + 2)) with (w0 + 2 * PI) by (replace (IZR (-1 + 2)) with 1 by reflexivity; ring).
  assert (Tm : gt_Habs (exp log_c) (exp log_alpha) xi n (w0 - 2 * PI) <= eps)
    by (apply gt_freq_tail_l; try assumption; fold diff; lra).
  assert (T0 : gt_Habs (exp log_c) (exp log_alpha) xi n w0 < eps)
    by (apply gt_freq_tail_strict; try assumption; fold diff; lra).
  assert (Tp : gt_Habs (exp log_c) (exp log_alpha) xi n (w0 + 2 * PI) <= eps)
    by (apply gt_freq_tail_l; try assumption; fold diff; lra).
  destruct Hfar as [Hf|Hf].
  - assert (gt_Habs (exp log_c) (exp log_alpha) xi n (w0 + 2 * PI) <= eps / 2)
      by (apply gt_freq_far_l; [lra | exact Hn | fold log_c; fold diff; exact Hf]).
    lra.
  - assert (gt_Habs (exp log_c) (exp log_alpha) xi n (w0 - 2 * PI) <= eps / 2)
      by (apply gt_freq_far_l; [lra | exact Hn | fold log_c; fold diff; exact Hf]).
    lra.
Qed.
