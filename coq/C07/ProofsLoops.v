(* C07: the accumulation loops of the Gabor and triangular get_impulse_response
   (np.zeros, then "res[i] += v" in program order) leave exactly the closed forms
   [gabor_ir] / [tri_ir] that the tail theorems are about. *)
From Coq Require Import Reals ZArith List Bool Lra Lia ZifyBool.
From Coquelicot Require Import Complex.
From Verif Require Import lib.C07_Base C07.Model.
Open Scope R_scope.

Definition contrib (ws : list (Z * C)) (j : Z) : C :=
  fold_right (fun iv s => if (fst iv =? j)%Z then (snd iv + s)%C else s) (RtoC 0) ws.

Lemma acc_fold_start ws j : forall a,
  fold_left (fun a iv => if (fst iv =? j)%Z then (a + snd iv)%C else a) ws a = (a + contrib ws j)%C.
Proof.
  induction ws as [|[i v] ws IH]; intros a; simpl.
  - ring.
  - rewrite IH. destruct (i =? j)%Z; ring.
Qed.

Lemma acc_read_contrib ws j : acc_read ws j = contrib ws j.
Proof. unfold acc_read. rewrite acc_fold_start. ring. Qed.

Lemma contrib_app ws1 ws2 j : contrib (ws1 ++ ws2) j = (contrib ws1 j + contrib ws2 j)%C.
Proof.
  induction ws1 as [|[i v] ws IH]; simpl.
  - ring.
  - rewrite IH. destruct (i =? j)%Z; ring.
Qed.

Lemma contrib_flat_map (f : Z -> list (Z * C)) ts j :
  contrib (flat_map f ts) j = fold_right (fun t s => (contrib (f t) j + s)%C) (RtoC 0) ts.
Proof.
  induction ts as [|t ts IH]; simpl; [reflexivity|].
  rewrite contrib_app, IH. reflexivity.
Qed.

(* a sum over a range of a function that vanishes except at one point *)
Lemma sum_single (g : Z -> C) (a : Z) n : forall lo,
  (forall t, t <> a -> g t = RtoC 0) ->
  fold_right (fun t s => (g t + s)%C) (RtoC 0) (Zseq lo n) =
  if ((lo <=? a) && (a <? lo + Z.of_nat n))%Z then g a else RtoC 0.
Proof.
  induction n as [|n IH]; intros lo Hz.
  - simpl. destruct (lo <=? a)%Z eqn:E1; simpl; [|reflexivity].
    destruct (a <? lo + 0)%Z eqn:E2; [lia | reflexivity].
  - cbn [Zseq fold_right]. rewrite IH by exact Hz.
    destruct (Z.eq_dec lo a) as [E|E].
    + subst lo.
      destruct ((a + 1 <=? a)%Z) eqn:E1; [lia|]. cbn [andb].
      destruct ((a <=? a)%Z) eqn:E2; [|lia]. destruct ((a <? a + Z.of_nat (S n))%Z) eqn:E3; [|lia].
      cbn [andb]. ring.
    + rewrite (Hz lo E).
      destruct (lo <=? a)%Z eqn:E1; destruct (lo + 1 <=? a)%Z eqn:E2; try lia; cbn [andb].
      * destruct (a <? lo + 1 + Z.of_nat n)%Z eqn:E3; destruct (a <? lo + Z.of_nat (S n))%Z eqn:E4; try lia; ring.
      * ring.
Qed.

Lemma sum_two (g1 g2 : Z -> C) ts :
  fold_right (fun t s => ((g1 t + g2 t) + s)%C) (RtoC 0) ts =
  (fold_right (fun t s => (g1 t + s)%C) (RtoC 0) ts + fold_right (fun t s => (g2 t + s)%C) (RtoC 0) ts)%C.
Proof. induction ts as [|t ts IH]; simpl; [ring | rewrite IH; ring]. Qed.

Lemma fold_right_ext (g h : Z -> C) ts : (forall t, In t ts -> g t = h t) ->
  fold_right (fun t s => (g t + s)%C) (RtoC 0) ts = fold_right (fun t s => (h t + s)%C) (RtoC 0) ts.
Proof.
  induction ts as [|t ts IH]; intros H; simpl; [reflexivity|].
  rewrite (H t) by (left; reflexivity). rewrite IH; [reflexivity|]. intros u Hu. apply H. right; exact Hu.
Qed.

Lemma In_Zseq_loc x n : forall lo, In x (Zseq lo n) -> (lo <= x < lo + Z.of_nat n)%Z.
Proof.
  induction n as [|n IH]; intros lo; simpl; [tauto|].
  intros [H|H]; [lia | apply IH in H; lia].
Qed.
Lemma In_Zrange_loc x lo hi : In x (Zrange lo hi) -> (lo <= x < hi)%Z.
Proof. unfold Zrange. intros H. apply In_Zseq_loc in H. lia. Qed.

Lemma gabor_ir_loop_closed_form_l : forall l2 std xi W j, (0 <= j < W)%Z ->
  acc_read (gabor_ir_writes l2 std xi W) j = gabor_ir l2 std xi W j.
Proof.
  intros l2 std xi W j Hj. rewrite acc_read_contrib. unfold gabor_ir_writes. rewrite contrib_flat_map.
  set (v := gabor_val l2 std xi).
  set (g1 := fun t : Z => if ((t =? j) && negb (t =? W))%Z then v t else RtoC 0).
  set (g2 := fun t : Z => if ((py_neg W t =? j) && negb (t =? 0))%Z then Cconj (v t) else RtoC 0).
  rewrite (fold_right_ext _ (fun t => (g1 t + g2 t)%C)).
  2:{ intros t _. rewrite contrib_app. unfold g1, g2, py_neg.
      destruct (t =? W)%Z eqn:E1; destruct (t =? 0)%Z eqn:E2; simpl;
        destruct (t =? j)%Z eqn:E3; destruct (W - t =? j)%Z eqn:E4; simpl; try ring; lia. }
  rewrite sum_two. unfold Zrange.
  rewrite (sum_single g1 j), (sum_single g2 (W - j)%Z).
  - replace ((0 <=? j) && (j <? 0 + Z.of_nat (Z.to_nat (W + 1 - 0))))%Z with true by lia.
    replace ((0 <=? W - j) && (W - j <? 0 + Z.of_nat (Z.to_nat (W + 1 - 0))))%Z with true by lia.
    unfold g1, g2, py_neg, gabor_ir. fold v.
    replace ((j =? j) && negb (j =? W))%Z with true by lia.
    replace ((W - (W - j) =? j) && negb (W - j =? 0))%Z with true by lia. reflexivity.
  - intros t Ht. unfold g2, py_neg. replace (W - t =? j)%Z with false by lia. reflexivity.
  - intros t Ht. unfold g1. replace (t =? j)%Z with false by lia. reflexivity.
Qed.

Lemma tri_ir_loop_closed_form_l : forall analytic l m r W j, (0 <= j < W)%Z ->
  tri_ir_loop analytic l m r W j = tri_ir analytic l m r W j.
Proof.
  intros analytic l m r W j Hj. unfold tri_ir_loop, tri_ir. f_equal.
  rewrite acc_read_contrib. unfold tri_ir_writes. rewrite contrib_app, contrib_flat_map.
  set (v := tri_val analytic l m r).
  set (g1 := fun t : Z => if ((t =? j) && (t <? W))%Z then v t else RtoC 0).
  set (g2 := fun t : Z => if ((py_neg W t =? j) && (t <? W))%Z then Cconj (v t) else RtoC 0).
  set (g3 := fun t : Z => if ((0 =? j) && (t =? W))%Z then v t else RtoC 0).
  rewrite (fold_right_ext _ (fun t => ((g1 t + g2 t) + g3 t)%C)).
  2:{ intros t Ht. apply In_Zrange_loc in Ht. unfold g1, g2, g3, py_neg.
      destruct (t <? W)%Z eqn:E1; cbn [contrib fold_right fst snd andb].
      - replace (t =? W)%Z with false by lia.
        destruct (t =? j)%Z eqn:E3; destruct (W - t =? j)%Z eqn:E4; destruct (0 =? j)%Z eqn:E5;
          cbn [andb]; try ring; lia.
      - replace (t =? W)%Z with true by lia.
        destruct (t =? j)%Z eqn:E3; destruct (W - t =? j)%Z eqn:E4; destruct (0 =? j)%Z eqn:E5;
          cbn [andb]; try ring; lia. }
  rewrite (sum_two (fun t => (g1 t + g2 t)%C) g3), (sum_two g1 g2). unfold Zrange.
  rewrite (sum_single g1 j), (sum_single g2 (W - j)%Z), (sum_single g3 W).
  - unfold g1, g2, g3, py_neg. simpl contrib.
    destruct (Z.eqb_spec j 0) as [E|E].
    + subst j.
      replace ((1 <=? 0) && (0 <? 1 + Z.of_nat (Z.to_nat (W + 1 - 1))))%Z with false by lia.
      replace ((1 <=? W - 0) && (W - 0 <? 1 + Z.of_nat (Z.to_nat (W + 1 - 1))))%Z with true by lia.
      replace ((1 <=? W) && (W <? 1 + Z.of_nat (Z.to_nat (W + 1 - 1))))%Z with true by lia.
      replace ((W - (W - 0) =? 0) && (W - 0 <? W))%Z with false by lia.
      replace ((0 =? 0) && (W =? W))%Z with true by lia. simpl. fold v. ring.
    + replace ((1 <=? j) && (j <? 1 + Z.of_nat (Z.to_nat (W + 1 - 1))))%Z with true by lia.
      replace ((1 <=? W - j) && (W - j <? 1 + Z.of_nat (Z.to_nat (W + 1 - 1))))%Z with true by lia.
      replace ((1 <=? W) && (W <? 1 + Z.of_nat (Z.to_nat (W + 1 - 1))))%Z with true by lia.
      replace ((j =? j) && (j <? W))%Z with true by lia.
      replace ((W - (W - j) =? j) && (W - j <? W))%Z with true by lia.
      replace ((0 =? j) && (W =? W))%Z with false by lia.
      fold v. destruct j as [|p|p]; [contradiction | ring | lia].
  - intros t Ht. unfold g3. replace (t =? W)%Z with false by lia. rewrite andb_false_r. reflexivity.
  - intros t Ht. unfold g2, py_neg. replace (W - t =? j)%Z with false by lia. reflexivity.
  - intros t Ht. unfold g1. replace (t =? j)%Z with false by lia. reflexivity.
Qed.
