(* C07: the support search of ComplexGammatoneFilterBank._calculate_temp_support
   (filters.py 1200-1211, `while h_0 > eps: right -= h_0 / _d(right)`) TERMINATES, with an
   explicit bound on the number of iterations.  Together with [gt_search_result_l]
   (partial correctness) this is total correctness of the search.

   Argument: beyond the mode every Newton step moves `right` by at least
   delta = exp (alpha * offset) / alpha > 0 to the right (offset <= 0), and the envelope
   c s^(n-1) exp(-alpha s) is at most c (n/alpha)^n / s, hence below eps once
   s >= c (n/alpha)^n / eps. *)
From Coq Require Import Reals ZArith Lra Lia.
From Coquelicot Require Import Complex.
From Flocq Require Import Core.Raux.
From Verif Require Import lib.C07_Base C07.Model C07.ProofsGammatone.
Open Scope R_scope.

(** * exp beats every power *)
Lemma exp_ge_pow_over (n : nat) x : (1 <= n)%nat -> 0 <= x -> (x / INR n) ^ n <= exp x.
Proof.
  intros Hn Hx.
  assert (Hn0 : 0 < INR n) by (apply lt_0_INR; lia).
  assert (E : exp x = exp (x / INR n) ^ n).
  { rewrite <- (exp_INR_ln n (exp (x / INR n))) by apply exp_pos.
    rewrite ln_exp. f_equal. field. lra. }
  rewrite E. apply pow_incr. split.
  - apply Rmult_le_pos; [exact Hx | left; apply Rinv_0_lt_compat; exact Hn0].
  - pose proof (exp_ineq1_le (x / INR n)). lra.
Qed.

(* the envelope in shifted time is at most c (n/alpha)^n / s *)
Definition gt_env_cap (c alpha : R) (n : nat) : R := c * (INR n / alpha) ^ n.

Lemma gt_env_le_cap_over_s c alpha n s : 0 < c -> 0 < alpha -> (1 <= n)%nat -> 0 < s ->
  gt_env c alpha n s <= gt_env_cap c alpha n / s.
Proof.
  intros Hc Ha Hn Hs. unfold gt_env, gt_env_cap.
  assert (Hn0 : 0 < INR n) by (apply lt_0_INR; lia).
  assert (Hx : 0 <= alpha * s) by (apply Rmult_le_pos; lra).
  pose proof (exp_ge_pow_over n (alpha * s) Hn Hx) as Hp.
  assert (Hq : 0 < (alpha * s / INR n) ^ n).
  { apply pow_lt. apply Rdiv_lt_0_compat; [apply Rmult_lt_0_compat; lra | exact Hn0]. }
  (* exp(-alpha s) <= (n/(alpha s))^n *)
  assert (He : exp (- alpha * s) <= / (alpha * s / INR n) ^ n).
  { replace (- alpha * s) with (- (alpha * s)) by ring. rewrite exp_Ropp.
    apply Rinv_le_contravar; [exact Hq | exact Hp]. }
  assert (Hs1 : 0 <= c * s ^ (n - 1)).
  { apply Rmult_le_pos; [lra | apply pow_le; lra]. }
  eapply Rle_trans; [apply Rmult_le_compat_l; [exact Hs1 | exact He]|].
  right.
  assert (Hb : alpha / INR n <> 0).
  { apply Rgt_not_eq. apply Rdiv_lt_0_compat; lra. }
  replace (alpha * s / INR n) with ((alpha / INR n) * s) by (field; lra).
  rewrite Rpow_mult_distr.
  replace (INR n / alpha) with (/ (alpha / INR n)) by (field; lra).
  rewrite pow_inv.
  assert (Es : s ^ n = s * s ^ (n - 1)).
  { replace n with (S (n - 1)) at 1 by lia. reflexivity. }
  rewrite Es.
  assert (HA : (alpha / INR n) ^ n <> 0) by (apply pow_nonzero; exact Hb).
  assert (HP : s ^ (n - 1) <> 0) by (apply pow_nonzero; lra).
  set (A := (alpha / INR n) ^ n) in *. set (P := s ^ (n - 1)) in *.
  field. repeat split; try assumption; lra.
Qed.

(* beyond this (shifted) time the envelope is below eps *)
Definition gt_far (eps c alpha : R) (n : nat) : R := gt_env_cap c alpha n / eps.

Lemma gt_env_cap_pos c alpha n : 0 < c -> 0 < alpha -> (1 <= n)%nat -> 0 < gt_env_cap c alpha n.
Proof.
  intros Hc Ha Hn. unfold gt_env_cap. apply Rmult_lt_0_compat; [exact Hc|].
  apply pow_lt. apply Rdiv_lt_0_compat; [apply lt_0_INR; lia | exact Ha].
Qed.

Lemma gt_habs_far c alpha n eps offset t : 0 < eps -> 0 < c -> 0 < alpha -> (1 <= n)%nat ->
  gt_far eps c alpha n <= t - offset -> gt_habs c alpha n offset t <= eps.
Proof.
  intros He Hc Ha Hn Ht.
  pose proof (gt_env_cap_pos c alpha n Hc Ha Hn) as HK.
  assert (HS : 0 < gt_far eps c alpha n) by (apply Rdiv_lt_0_compat; assumption).
  rewrite gt_habs_env by (try assumption; lra).
  eapply Rle_trans; [apply gt_env_le_cap_over_s; try assumption; lra|].
  unfold gt_far in *.
  apply Rmult_le_reg_r with (t - offset); [lra|].
  replace (gt_env_cap c alpha n / (t - offset) * (t - offset)) with (gt_env_cap c alpha n) by (field; lra).
  apply Rmult_le_reg_r with (/ eps); [apply Rinv_0_lt_compat; exact He|].
  replace (eps * (t - offset) * / eps) with (t - offset) by (field; lra).
  exact Ht.
Qed.

(** * every iteration moves right by at least delta *)
Definition gt_delta (alpha offset : R) : R := exp (alpha * offset) / alpha.

Lemma gt_delta_pos alpha offset : 0 < alpha -> 0 < gt_delta alpha offset.
Proof. intros Ha. apply Rdiv_lt_0_compat; [apply exp_pos | exact Ha]. Qed.

Lemma gt_newton_step_ge c alpha n offset t : 0 < c -> 0 < alpha -> (2 <= n)%nat ->
  offset <= 0 -> (INR n - 1) / alpha < t ->
  gt_delta alpha offset <= - (gt_habs c alpha n offset t / gt_d c alpha n t).
Proof.
  intros Hc Ha Hn Ho Hm.
  assert (Hk : 1 <= INR n - 1).
  { assert (2 <= INR n) by (apply (le_INR 2); exact Hn). lra. }
  assert (Hpos : 0 < (INR n - 1) / alpha) by (apply Rdiv_lt_0_compat; lra).
  assert (Ht : 0 < t) by lra.
  assert (Hat : INR n - 1 < alpha * t).
  { apply Rmult_lt_reg_r with (/ alpha); [apply Rinv_0_lt_compat; lra|].
    replace (alpha * t * / alpha) with t by (field; lra). exact Hm. }
  rewrite gt_habs_env by (try assumption; try lia; lra).
  unfold gt_env, gt_d, gt_delta.
  set (s := t - offset).
  assert (Hs : t <= s) by (unfold s; lra).
  (* numerator: s^(n-1) >= t^(n-1) = t * t^(n-2) *)
  assert (Hp : t * t ^ (n - 2) <= s ^ (n - 1)).
  { replace (n - 1)%nat with (S (n - 2)) by lia. simpl pow.
    apply Rmult_le_compat; [lra | apply pow_le; lra | exact Hs | apply pow_incr; lra]. }
  assert (Hp2 : 0 < t ^ (n - 2)) by (apply pow_lt; exact Ht).
  assert (Hex : exp (- alpha * s) = exp (alpha * offset) * exp (- alpha * t)).
  { rewrite <- exp_plus. f_equal. unfold s. ring. }
  rewrite Hex.
  set (E := exp (alpha * offset)). set (F := exp (- alpha * t)).
  assert (HE : 0 < E) by apply exp_pos. assert (HF : 0 < F) by apply exp_pos.
  set (q := alpha * t - (INR n - 1)).
  assert (Hq : 0 < q) by (unfold q; lra).
  assert (Hq2 : q <= alpha * t) by (unfold q; lra).
  replace (- (c * s ^ (n - 1) * (E * F) / (c * F * t ^ (n - 2) * (INR n - 1 - alpha * t))))
    with (E * (s ^ (n - 1) / (t ^ (n - 2) * q))).
  2:{ unfold q. field. repeat split; lra. }
  unfold Rdiv at 1. apply Rmult_le_compat_l; [lra|].
  apply Rmult_le_reg_r with (t ^ (n - 2) * q); [apply Rmult_lt_0_compat; assumption|].
  replace (s ^ (n - 1) / (t ^ (n - 2) * q) * (t ^ (n - 2) * q)) with (s ^ (n - 1)) by (field; lra).
  eapply Rle_trans; [|exact Hp].
  replace (/ alpha * (t ^ (n - 2) * q)) with (t ^ (n - 2) * (q / alpha)) by (field; lra).
  rewrite (Rmult_comm t). apply Rmult_le_compat_l; [lra|].
  apply Rmult_le_reg_r with alpha; [lra|].
  replace (q / alpha * alpha) with q by (field; lra). lra.
Qed.

(** * termination *)
Lemma gt_newton_terminates_from : forall fuel eps c alpha n offset right,
  0 < eps -> 0 < c -> 0 < alpha -> (2 <= n)%nat -> offset <= 0 ->
  (INR n - 1) / alpha < right ->
  gt_far eps c alpha n + offset <= right + INR fuel * gt_delta alpha offset ->
  exists r, gt_newton fuel eps c alpha n offset right = Some r.
Proof.
  induction fuel as [|fuel IH]; intros eps c alpha n offset right He Hc Ha Hn Ho Hm Hf.
  - simpl in *. destruct (Rgt_dec _ eps) as [H|H]; [|eexists; reflexivity].
    exfalso. pose proof (gt_habs_far c alpha n eps offset right He Hc Ha ltac:(lia)). lra.
  - cbn [gt_newton]. destruct (Rgt_dec _ eps) as [H|H]; [|eexists; reflexivity].
    pose proof (gt_newton_step_ge c alpha n offset right Hc Ha Hn Ho Hm) as Hs.
    pose proof (gt_delta_pos alpha offset Ha) as Hd.
    apply IH; try assumption; [lra|].
    rewrite S_INR in Hf. lra.
Qed.

(* more fuel never changes the answer *)
Lemma gt_newton_fuel_mono : forall fuel k eps c alpha n offset right r,
  gt_newton fuel eps c alpha n offset right = Some r ->
  gt_newton (fuel + k) eps c alpha n offset right = Some r.
Proof.
  induction fuel as [|fuel IH]; intros k eps c alpha n offset right r.
  - simpl. destruct (Rgt_dec _ eps) as [H|H]; [discriminate|]. intros E.
    destruct k; simpl; destruct (Rgt_dec _ eps); try contradiction; exact E.
  - simpl. destruct (Rgt_dec _ eps) as [H|H]; [apply IH | trivial].
Qed.

(* the number of iterations the constructor's loop can take, as a function of the filter *)
Definition gt_fuel_bound (eps c alpha : R) (n : nat) (offset : R) : nat :=
  Z.to_nat (Zceil ((gt_far eps c alpha n + offset) / gt_delta alpha offset)).

Lemma gt_offset_nonpos mc n alpha : 0 < alpha -> (2 <= n)%nat -> gt_offset mc n alpha <= 0.
Proof.
  intros Ha Hn. unfold gt_offset. destruct mc; [|lra].
  assert (Hk : 1 <= INR n - 1).
  { assert (2 <= INR n) by (apply (le_INR 2); exact Hn). lra. }
  assert (0 < (INR n - 1) / alpha) by (apply Rdiv_lt_0_compat; lra).
  unfold Rdiv in *. rewrite <- Ropp_mult_distr_l. lra.
Qed.

Lemma gt_search_terminates_l : forall eps c alpha n max_centered,
  0 < eps -> 0 < c -> 0 < alpha -> (2 <= n)%nat ->
  let offset := gt_offset max_centered n alpha in
  exists r, gt_newton (gt_fuel_bound eps c alpha n offset) eps c alpha n offset
              (gt_newton_start alpha n) = Some r.
Proof.
  intros eps c alpha n mc He Hc Ha Hn offset.
  pose proof (gt_offset_nonpos mc n alpha Ha Hn) as Ho. fold offset in Ho.
  pose proof (gt_newton_start_beyond_mode alpha n Ha Hn) as Hs.
  pose proof (gt_delta_pos alpha offset Ha) as Hd.
  apply gt_newton_terminates_from; try assumption.
  assert (Hk : 1 <= INR n - 1).
  { assert (2 <= INR n) by (apply (le_INR 2); exact Hn). lra. }
  assert (Hpos : 0 < (INR n - 1) / alpha) by (apply Rdiv_lt_0_compat; lra).
  unfold gt_fuel_bound.
  set (x := (gt_far eps c alpha n + offset) / gt_delta alpha offset).
  assert (Hx : x * gt_delta alpha offset = gt_far eps c alpha n + offset) by (unfold x; field; lra).
  destruct (Z_lt_le_dec (Zceil x) 0) as [Hz|Hz].
  - (* already far enough *)
    replace (Z.to_nat (Zceil x)) with O by lia. simpl.
    pose proof (Zceil_ub x). assert (IZR (Zceil x) <= -1) by (apply IZR_le; lia).
    assert (x <= 0) by lra. nra.
  - rewrite INR_IZR_INZ, Z2Nat.id by exact Hz.
    pose proof (Zceil_ub x). nra.
Qed.

(* total correctness: the search stops, and what it returns bounds the envelope *)
Lemma gt_search_total_l : forall eps c alpha n max_centered,
  0 < eps -> 0 < c -> 0 < alpha -> (2 <= n)%nat ->
  let offset := gt_offset max_centered n alpha in
  exists r, (forall k, gt_newton (gt_fuel_bound eps c alpha n offset + k) eps c alpha n offset
                         (gt_newton_start alpha n) = Some r) /\
            (INR n - 1) / alpha <= r - offset /\
            (forall t, r <= t -> gt_habs c alpha n offset t <= eps).
Proof.
  intros eps c alpha n mc He Hc Ha Hn offset.
  destruct (gt_search_terminates_l eps c alpha n mc He Hc Ha Hn) as [r Hr]. fold offset in Hr.
  exists r. split; [intros k; apply gt_newton_fuel_mono; exact Hr|].
  destruct (gt_search_result_l _ _ _ _ _ _ _ He Hc Ha Hn Hr) as [H1 H2]. fold offset in H1, H2.
  split; [exact H1|]. intros t Ht.
  apply (gt_time_tail_l eps c alpha n offset r t Ha Hn H1 H2 Ht).
Qed.
