(* C07: triangular bank, time domain - the closed-form impulse response decays
   like 1/t^2 and the advertised support is where that bound reaches the
   threshold; both images the code adds are accounted for. *)
From Coq Require Import Reals ZArith Lra Lia ZifyBool.
From Coquelicot Require Import Complex.
From Flocq Require Import Core.Raux.
From Verif Require Import lib.C07_Base C07.Model.
Ltac Zify.zify_post_hook ::= Z.to_euclidean_division_equations.
Open Scope R_scope.

Lemma pos4 a b c d : 0 < a -> 0 < b -> 0 < c -> 0 < d -> 0 < a * b * c * d.
Proof. intros. apply Rmult_lt_0_compat; [apply Rmult_lt_0_compat; [apply Rmult_lt_0_compat|]|]; assumption. Qed.
Lemma pos5 a b c d e : 0 < a -> 0 < b -> 0 < c -> 0 < d -> 0 < e -> 0 < a * b * c * d * e.
Proof. intros. apply Rmult_lt_0_compat; [apply pos4|]; assumption. Qed.

Lemma tri_div_denom l m r : l < m < r ->
  0 < tri_div_term l m r /\ 0 < tri_denom0 l m r /\
  tri_div_term l m r * tri_denom0 l m r = (m - l) * (r - m).
Proof.
  intros [H1 H2]. unfold tri_div_term, tri_denom0.
  destruct (Rgt_dec (r - m) (m - l)); repeat split; try lra; ring.
Qed.

Lemma Rabs_cos_le x : Rabs (cos x) <= 1.
Proof. apply Rabs_le. pose proof (COS_bound x). lra. Qed.

Lemma Rabs_3cos a b c x y z : 0 <= a -> 0 <= b -> 0 <= c ->
  Rabs (a * cos x - b * cos y - c * cos z) <= a + b + c.
Proof.
  intros Ha Hb Hc. apply Rabs_le.
  pose proof (COS_bound x). pose proof (COS_bound y). pose proof (COS_bound z).
  split; nra.
Qed.

Lemma Cmod_3cis a b c x y z : 0 <= a -> 0 <= b -> 0 <= c ->
  Cmod (RtoC a * cis x - RtoC b * cis y - RtoC c * cis z)%C <= a + b + c.
Proof.
  intros Ha Hb Hc.
  eapply Rle_trans; [apply Cmod_minus_triangle|].
  apply Rplus_le_compat; [|rewrite Cmod_scal_cis_pos by exact Hc; lra].
  eapply Rle_trans; [apply Cmod_minus_triangle|].
  rewrite !Cmod_scal_cis_pos by assumption. lra.
Qed.

Lemma Cmod_tri_numer analytic l m r t : l < m < r ->
  Cmod (tri_numer analytic l m r t) <= 2 * (r - l) / tri_div_term l m r.
Proof.
  intros H. destruct (tri_div_denom l m r H) as [Hd _]. destruct H as [H1 H2].
  set (d := tri_div_term l m r) in *.
  assert (Hi : 0 < / d) by (apply Rinv_0_lt_compat; exact Hd).
  assert (Ha : 0 <= (r - l) / d) by (unfold Rdiv; nra).
  assert (Hb : 0 <= (r - m) / d) by (unfold Rdiv; nra).
  assert (Hc : 0 <= (m - l) / d) by (unfold Rdiv; nra).
  replace (2 * (r - l) / d) with ((r - l) / d + (r - m) / d + (m - l) / d) by (field; lra).
  unfold tri_numer. fold d. destruct analytic.
  - apply Cmod_3cis; assumption.
  - rewrite Cmod_R. apply Rabs_3cos; assumption.
Qed.

Lemma Cmod_tri_val analytic l m r (t : Z) : l < m < r -> t <> 0%Z ->
  Cmod (tri_val analytic l m r t) <= 2 * (r - l) / tri_div_term l m r / (IZR t * IZR t).
Proof.
  intros H Ht. unfold tri_val.
  assert (Ht0 : IZR t <> 0) by (apply not_0_IZR; exact Ht).
  assert (Hsq : 0 < IZR t * IZR t).
  { destruct (Rtotal_order (IZR t) 0) as [Hn|[Hz|Hp]]; [nra | contradiction | nra]. }
  assert (Hne : RtoC (IZR t ^ 2) <> RtoC 0).
  { intro E. apply (f_equal fst) in E. simpl in E. nra. }
  rewrite Cmod_div by exact Hne. rewrite Cmod_R.
  replace (IZR t ^ 2) with (IZR t * IZR t) by ring.
  rewrite (Rabs_pos_eq (IZR t * IZR t)) by lra.
  unfold Rdiv at 1 3. apply Rmult_le_compat_r; [left; apply Rinv_0_lt_compat; exact Hsq|].
  apply Cmod_tri_numer; exact H.
Qed.

(* the bound the code's comment states: 2 (r-l) / ((m-l)(r-m) t^2 pi), halved for analytic *)
Definition tri_bound (analytic : bool) (l m r t : R) : R :=
  2 * (r - l) / ((m - l) * (r - m) * ((if analytic then 1 else 0) + 1) * PI * (t * t)).

Lemma tri_K_real_sqr eps l m r : 0 < eps -> l < m < r ->
  tri_K_real eps l m r * tri_K_real eps l m r = 8 * (r - l) / (PI * eps * (m - l) * (r - m)).
Proof.
  intros He [H1 H2]. pose proof PI_RGT_0 as HPI. unfold tri_K_real.
  assert (A : 0 <= 8 * (r - l) / PI) by (apply Rmult_le_pos; [lra | left; apply Rinv_0_lt_compat; lra]).
  assert (0 < sqrt eps) by (apply sqrt_lt_R0; lra).
  assert (0 < sqrt (m - l)) by (apply sqrt_lt_R0; lra).
  assert (0 < sqrt (r - m)) by (apply sqrt_lt_R0; lra).
  set (sa := sqrt (8 * (r - l) / PI)).
  replace (sa / sqrt eps / (sqrt (m - l) * sqrt (r - m)) * (sa / sqrt eps / (sqrt (m - l) * sqrt (r - m))))
    with ((sa * sa) / (sqrt eps * sqrt eps) / ((sqrt (m - l) * sqrt (m - l)) * (sqrt (r - m) * sqrt (r - m))))
    by (field; repeat split; lra).
  unfold sa. rewrite !sqrt_sqrt by lra. field. repeat split; lra.
Qed.

(** ** one image, time *)
Lemma tri_time_tail_l : forall eps analytic l m r (t : Z), 0 < eps -> l < m < r ->
  tri_K_real eps l m r / 2 < IZR t ->
  Cmod (tri_val analytic l m r t / RtoC (tri_denom analytic l m r))%C < eps.
Proof.
  intros eps analytic l m r t He H Ht.
  pose proof PI_RGT_0 as HPI.
  destruct (tri_div_denom l m r H) as [Hd [Hd0 Hprod]].
  pose proof (tri_K_real_sqr eps l m r He H) as HK.
  assert (HK0 : 0 <= tri_K_real eps l m r).
  { unfold tri_K_real. apply Rmult_le_pos; [apply Rmult_le_pos; [apply sqrt_pos | left; apply Rinv_0_lt_compat; apply sqrt_lt_R0; lra] |].
    left. apply Rinv_0_lt_compat. apply Rmult_lt_0_compat; apply sqrt_lt_R0; lra. }
  assert (Htpos : 0 < IZR t) by lra.
  assert (Htz : t <> 0%Z) by (intro E; subst t; simpl in Htpos; lra).
  set (k := (if analytic then 1 else 0) + 1).
  assert (Hk : 1 <= k) by (unfold k; destruct analytic; lra).
  assert (Hden : 0 < tri_denom analytic l m r).
  { unfold tri_denom. fold k. apply Rmult_lt_0_compat; [apply Rmult_lt_0_compat; lra | lra]. }
  assert (Hne : RtoC (tri_denom analytic l m r) <> RtoC 0).
  { intro E. apply (f_equal fst) in E. simpl in E. lra. }
  rewrite Cmod_div by exact Hne. rewrite Cmod_R, (Rabs_pos_eq _ (Rlt_le _ _ Hden)).
  pose proof (Cmod_tri_val analytic l m r t H Htz) as Hv.
  set (d := tri_div_term l m r) in *. set (d0 := tri_denom0 l m r) in *.
  assert (Hsq : tri_K_real eps l m r * tri_K_real eps l m r / 4 < IZR t * IZR t) by nra.
  rewrite HK in Hsq.
  destruct H as [H1 H2].
  (* |val| / denom <= 2(r-l) / (d d0 k pi t^2) < eps *)
  apply Rle_lt_trans with (2 * (r - l) / d / (IZR t * IZR t) / tri_denom analytic l m r).
  { unfold Rdiv at 1 3. apply Rmult_le_compat_r; [left; apply Rinv_0_lt_compat; exact Hden | exact Hv]. }
  unfold tri_denom. fold k. fold d0.
  replace (2 * (r - l) / d / (IZR t * IZR t) / (d0 * k * PI))
    with (2 * (r - l) / ((d * d0) * k * PI * (IZR t * IZR t))) by (field; repeat split; nra).
  rewrite Hprod.
  assert (Hpos : 0 < (m - l) * (r - m) * k * PI * (IZR t * IZR t)).
  { apply pos5; try lra; nra. }
  apply Rmult_lt_reg_r with ((m - l) * (r - m) * k * PI * (IZR t * IZR t)); [exact Hpos|].
  replace (2 * (r - l) / ((m - l) * (r - m) * k * PI * (IZR t * IZR t)) *
           ((m - l) * (r - m) * k * PI * (IZR t * IZR t))) with (2 * (r - l)) by (field; repeat split; nra).
  (* 2(r-l) < eps (m-l)(r-m) pi t^2 <= eps (m-l)(r-m) k pi t^2 *)
  assert (Hbase : 2 * (r - l) < eps * ((m - l) * (r - m) * PI * (IZR t * IZR t))).
  { assert (Hq : 0 < PI * eps * (m - l) * (r - m)) by (apply pos4; lra).
    apply Rmult_lt_compat_r with (r := PI * eps * (m - l) * (r - m)) in Hsq; [|exact Hq].
    replace (8 * (r - l) / (PI * eps * (m - l) * (r - m)) / 4 * (PI * eps * (m - l) * (r - m)))
      with (2 * (r - l)) in Hsq by (field; repeat split; lra).
    lra. }
  assert (0 < (m - l) * (r - m) * PI * (IZR t * IZR t)) by (apply pos4; try lra; nra).
  nra.
Qed.

(** ** the buffer: both images the code adds *)
Lemma tri_ir_outside_supports_l : forall eps analytic l m r W j, 0 < eps -> l < m < r ->
  (0 <= j < W)%Z ->
  let sup := tri_supports (tri_K eps l m r) in
  outside_mod (fst sup) (snd sup) W j ->
  Cmod (tri_ir analytic l m r W j) < 2 * eps.
Proof.
  intros eps analytic l m r W j He H Hj sup Hout.
  unfold sup, tri_supports in Hout. cbn [fst snd] in Hout.
  set (K := tri_K eps l m r) in *.
  assert (HKr : tri_K_real eps l m r <= IZR K) by (apply Zceil_ub).
  assert (HK0 : (0 <= K)%Z).
  { unfold K, tri_K. rewrite <- (Zceil_IZR 0). apply Zceil_le.
    destruct H as [H1 H2]. unfold tri_K_real.
    apply Rmult_le_pos; [apply Rmult_le_pos; [apply sqrt_pos | left; apply Rinv_0_lt_compat; apply sqrt_lt_R0; lra] |].
    left. apply Rinv_0_lt_compat. apply Rmult_lt_0_compat; apply sqrt_lt_R0; lra. }
  pose proof (Hout 0%Z) as H0. pose proof (Hout (-1)%Z) as H1.
  assert (Hj1 : (K / 2 + 1 < j)%Z) by lia.
  assert (Hj2 : (K / 2 + 1 < W - j)%Z) by lia.
  assert (Hhalf : forall t : Z, (K / 2 + 1 < t)%Z -> tri_K_real eps l m r / 2 < IZR t).
  { intros t Ht. assert (K < 2 * t)%Z by lia. apply IZR_lt in H2. rewrite mult_IZR in H2. lra. }
  unfold tri_ir. destruct (Z.eqb_spec j 0) as [E|E]; [lia|].
  pose proof PI_RGT_0 as HPI.
  destruct (tri_div_denom l m r H) as [Hd [Hd0 Hprod]].
  assert (Hden : 0 < tri_denom analytic l m r).
  { unfold tri_denom. destruct analytic; apply Rmult_lt_0_compat; try lra; apply Rmult_lt_0_compat; lra. }
  assert (Hne : RtoC (tri_denom analytic l m r) <> RtoC 0).
  { intro E0. apply (f_equal fst) in E0. simpl in E0. lra. }
  replace ((tri_val analytic l m r j + Cconj (tri_val analytic l m r (W - j))) / RtoC (tri_denom analytic l m r))%C
    with (tri_val analytic l m r j / RtoC (tri_denom analytic l m r)
          + Cconj (tri_val analytic l m r (W - j)) / RtoC (tri_denom analytic l m r))%C
    by (unfold Cdiv; ring).
  eapply Rle_lt_trans; [apply Cmod_triangle|].
  pose proof (tri_time_tail_l eps analytic l m r j He H (Hhalf j Hj1)) as T1.
  pose proof (tri_time_tail_l eps analytic l m r (W - j) He H (Hhalf (W - j)%Z Hj2)) as T2.
  rewrite Cmod_div in T2 by exact Hne.
  rewrite (Cmod_div (Cconj _)) by exact Hne. rewrite Cmod_Cconj. lra.
Qed.
