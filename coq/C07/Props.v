(* C07 - the property theorems, and nothing else.  Each is closed by [exact] of a
   lemma of the Proofs files; the axioms each depends on are printed beneath it.
   Model: C07/Model.v (hand-written, about src/pydrobert/speech/filters.py);
   gen/C07Filters.v is regenerated from the source on every run and C07/Tie.v
   (theorems tie_...) proves it equal to the model.

   NOT PROVED (checked numerically only, harness/c07.py):
   (* ifft_pair : for width >= max(temporal support, 2 rate / bandwidth),
        forall j, Cmod (IDFT (get_frequency_response i width) j - get_impulse_response i width j) <= 2 eps *)
   - needs Poisson summation for the sampled closed forms; no weaker statement is claimed.
   (* fbank_ir_outside_supports : Fbank's impulse response (an inverse FFT) is below 2 eps
        outside `supports` *) - the bound in the source comment is an inequality about a
   continuous inverse Fourier transform; not formalised. *)
From Coq Require Import Reals ZArith.
From Coquelicot Require Import Complex.
From Flocq Require Import Core.Raux.
From Verif Require Import lib.C07_Base C07.Model C07.ProofsBasic C07.ProofsGabor C07.ProofsGammatone
  C07.ProofsTri C07.ProofsTermination C07.ProofsLoops C07.ProofsExtra C07.Refuted gen.C07Filters C07.Tie C07.ProofsExamples.
Open Scope R_scope.

(** * "the impulse response is real exactly when is_real" (dtype level) *)
Theorem ir_real_iff_is_real : forall k analytic,
  ir_dtype k analytic = Model.Float64 <-> is_real k analytic = true.
Proof. exact ir_real_iff_is_real_l. Qed.
Print Assumptions ir_real_iff_is_real.

(* value level, triangular bank: no imaginary part when is_real *)
Theorem tri_ir_real_valued : forall l m r W j, l < m < r -> (0 <= j < W)%Z ->
  snd (tri_ir false l m r W j) = 0.
Proof. exact tri_ir_real_valued_l. Qed.
Print Assumptions tri_ir_real_valued.

(** * supports: zero-phase banks straddle sample 0, causal gammatones start at 0 *)
Theorem tri_supports_straddle_zero : forall eps l m r, 0 < eps -> l < m < r ->
  let s := tri_supports (tri_K eps l m r) in (fst s < 0 < snd s)%Z.
Proof. exact tri_bank_supports_straddle_l. Qed.
Print Assumptions tri_supports_straddle_zero.

Theorem fbank_supports_straddle_zero : forall eps l m r,
  let s := tri_supports (fbank_K eps l m r) in (fst s < 0 < snd s)%Z.
Proof. exact fbank_bank_supports_straddle_l. Qed.
Print Assumptions fbank_supports_straddle_zero.

Theorem gabor_supports_straddle_zero : forall eps l2 std,
  0 < gabor_diff_samps_real eps l2 std ->
  let s := gabor_supports (gabor_diff_samps eps l2 std) in (fst s < 0 < snd s)%Z.
Proof. exact gabor_supports_straddle_l. Qed.
Print Assumptions gabor_supports_straddle_zero.

Theorem causal_gammatone_starts_at_zero : forall n alpha right,
  fst (gt_supports (gt_offset false n alpha) right) = 0%Z.
Proof. exact gt_causal_starts_at_zero_l. Qed.
Print Assumptions causal_gammatone_starts_at_zero.

Theorem centered_gammatone_starts_before_zero : forall (n : nat) alpha right,
  (2 <= n)%nat -> 0 < alpha ->
  (fst (gt_supports (gt_offset true n alpha) right) < 0)%Z.
Proof. exact gt_centered_starts_before_zero_l. Qed.
Print Assumptions centered_gammatone_starts_before_zero.

(** * time domain: below 2 eps outside `supports`, modulo the buffer (all images the code adds) *)
Theorem gabor_time_tail : forall eps l2 std t, 0 < eps -> 0 < std ->
  gabor_diff_samps_real eps l2 std <= Rabs t -> gabor_env l2 std t <= eps.
Proof. exact gabor_time_tail_l. Qed.
Print Assumptions gabor_time_tail.

Theorem gabor_ir_outside_supports : forall eps l2 std xi W j, 0 < eps -> 0 < std ->
  (0 <= j < W)%Z ->
  let d := gabor_diff_samps eps l2 std in
  outside_mod (fst (gabor_supports d)) (snd (gabor_supports d)) W j ->
  Cmod (gabor_ir l2 std xi W j) < 2 * eps.
Proof. exact gabor_ir_outside_supports_l. Qed.
Print Assumptions gabor_ir_outside_supports.

Theorem tri_time_tail : forall eps analytic l m r (t : Z), 0 < eps -> l < m < r ->
  tri_K_real eps l m r / 2 < IZR t ->
  Cmod (tri_val analytic l m r t / RtoC (tri_denom analytic l m r))%C < eps.
Proof. exact tri_time_tail_l. Qed.
Print Assumptions tri_time_tail.

Theorem tri_ir_outside_supports : forall eps analytic l m r W j, 0 < eps -> l < m < r ->
  (0 <= j < W)%Z ->
  let sup := tri_supports (tri_K eps l m r) in
  outside_mod (fst sup) (snd sup) W j ->
  Cmod (tri_ir analytic l m r W j) < 2 * eps.
Proof. exact tri_ir_outside_supports_l. Qed.
Print Assumptions tri_ir_outside_supports.

Theorem gammatone_time_tail : forall eps c alpha n offset right t, 0 < alpha -> (2 <= n)%nat ->
  (INR n - 1) / alpha <= right - offset ->
  gt_habs c alpha n offset right <= eps ->
  right <= t -> gt_habs c alpha n offset t <= eps.
Proof. exact gt_time_tail_l. Qed.
Print Assumptions gammatone_time_tail.

(* partial correctness of the support search of _calculate_temp_support *)
Theorem gammatone_search_sound : forall fuel eps c alpha n max_centered r,
  0 < eps -> 0 < c -> 0 < alpha -> (2 <= n)%nat ->
  gt_newton fuel eps c alpha n (gt_offset max_centered n alpha) (gt_newton_start alpha n) = Some r ->
  (INR n - 1) / alpha <= r - gt_offset max_centered n alpha /\
  gt_habs c alpha n (gt_offset max_centered n alpha) r <= eps.
Proof. exact gt_search_result_l. Qed.
Print Assumptions gammatone_search_sound.

(* ... and the search TERMINATES: within gt_fuel_bound iterations (every step moves right by at
   least exp(alpha offset)/alpha; the envelope is below eps beyond c (n/alpha)^n / eps) *)
Theorem gammatone_search_terminates : forall eps c alpha n max_centered,
  0 < eps -> 0 < c -> 0 < alpha -> (2 <= n)%nat ->
  let offset := gt_offset max_centered n alpha in
  exists r, gt_newton (gt_fuel_bound eps c alpha n offset) eps c alpha n offset
              (gt_newton_start alpha n) = Some r.
Proof. exact gt_search_terminates_l. Qed.
Print Assumptions gammatone_search_terminates.

(* total correctness of _calculate_temp_support's loop: one answer for every sufficient fuel,
   beyond the mode, and the envelope stays below eps from there on *)
Theorem gammatone_search_total : forall eps c alpha n max_centered,
  0 < eps -> 0 < c -> 0 < alpha -> (2 <= n)%nat ->
  let offset := gt_offset max_centered n alpha in
  exists r, (forall k, gt_newton (gt_fuel_bound eps c alpha n offset + k) eps c alpha n offset
                         (gt_newton_start alpha n) = Some r) /\
            (INR n - 1) / alpha <= r - offset /\
            (forall t, r <= t -> gt_habs c alpha n offset t <= eps).
Proof. exact gt_search_total_l. Qed.
Print Assumptions gammatone_search_total.

Theorem gammatone_ir_outside_supports : forall fuel eps c alpha xi n max_centered r W j,
  0 < eps -> 0 < c -> 0 < alpha -> (2 <= n)%nat ->
  let offset := gt_offset max_centered n alpha in
  gt_newton fuel eps c alpha n offset (gt_newton_start alpha n) = Some r ->
  (0 <= j < W)%Z ->
  let sup := gt_supports offset r in
  outside_mod (fst sup) (snd sup) W j ->
  Cmod (gt_ir c alpha xi n offset sup W j) < 2 * eps.
Proof. exact gt_bank_ir_outside_supports_l. Qed.
Print Assumptions gammatone_ir_outside_supports.

(* the same for ANY right end that satisfies the search's postcondition (this is what the
   harness certifies for the value the implementation actually stores) *)
Theorem gammatone_ir_outside_validated_supports : forall eps c alpha xi n offset r W j,
  0 < eps -> 0 < alpha -> (2 <= n)%nat ->
  (INR n - 1) / alpha <= r - offset ->
  gt_habs c alpha n offset r <= eps ->
  (0 <= j < W)%Z ->
  let sup := gt_supports offset r in
  outside_mod (fst sup) (snd sup) W j ->
  Cmod (gt_ir c alpha xi n offset sup W j) < 2 * eps.
Proof. exact gt_ir_outside_supports_l. Qed.
Print Assumptions gammatone_ir_outside_validated_supports.

(** * frequency domain: below 2.5 eps outside `supports_hz`, modulo the sampling rate *)
Theorem tri_fbank_fr_zero_outside_supports_hz : forall val (analytic half : bool) left right rate W j,
  0 < rate -> (0 < W)%Z -> 0 <= left -> 0 <= right ->
  (0 <= j < dft_size W half)%Z ->
  ~ (left <= rate * IZR j / IZR W <= right) ->
  (half = false -> analytic = false -> ~ (left <= rate * IZR (W - j) / IZR W <= right)) ->
  let n := dft_size W half in
  read_writes
    (fr_writes val (negb half && negb analytic) n
               (tri_left_idx left rate W) (Z.min n (tri_right_idx right rate W + 1))) j = 0.
Proof. exact fr_loop_zero_outside_hz_l. Qed.
Print Assumptions tri_fbank_fr_zero_outside_supports_hz.

(* exact contents of the loop, and even symmetry X[W - j] = X[j] of a real bank's full response
   (what makes irfft(half) = ifft(full) and the impulse response real) *)
Theorem tri_fbank_fr_value : forall val mirror n lo hi j, (0 <= lo)%Z -> (2 * (hi - 1) <= n)%Z ->
  (lo <= j < hi)%Z ->
  read_writes (fr_writes val mirror n lo hi) j = val j.
Proof. exact fr_direct_value_l. Qed.
Print Assumptions tri_fbank_fr_value.

Theorem tri_fbank_fr_real_symmetric : forall val left right rate W j,
  0 < rate -> (0 < W)%Z -> 0 <= left -> 0 <= right <= rate / 2 -> (0 < j < W)%Z ->
  let ws := fr_writes val (negb false && negb false) (dft_size W false)
                      (tri_left_idx left rate W) (Z.min (dft_size W false) (tri_right_idx right rate W + 1)) in
  read_writes ws (W - j) = read_writes ws j.
Proof. exact fr_loop_real_symmetric_l. Qed.
Print Assumptions tri_fbank_fr_real_symmetric.

Theorem gabor_freq_tail : forall eps l2 std xi omega, 0 < eps -> 0 < std ->
  gabor_diff_ang eps l2 std <= Rabs (xi - omega) -> gabor_fr_term l2 std xi omega <= eps.
Proof. exact gabor_freq_tail_l. Qed.
Print Assumptions gabor_freq_tail.

Theorem gabor_fr_outside_supports_hz : forall eps l2 std xi W idx,
  0 < eps <= 1 / 2 -> 0 < std -> (l2 = true -> 1 / 4 <= std) ->
  0 <= xi <= PI -> (0 <= idx < W)%Z ->
  let diff := gabor_diff_ang eps l2 std in
  outside_mod_R (xi - diff) (xi + diff) (2 * PI) (IZR idx / IZR W * 2 * PI) ->
  gabor_fr l2 std xi (xi - diff) (xi + diff) W idx < 5 / 2 * eps.
Proof. exact gabor_fr_outside_supports_l. Qed.
Print Assumptions gabor_fr_outside_supports_hz.

(* the side condition [std >= 1/4] of the previous theorem holds for every bank: its edges lie
   within [0, rate / 2] *)
Theorem gabor_std_ge_quarter : forall erb rate le re, 0 < rate -> le < re -> re - le <= rate / 2 ->
  1 / 4 <= gabor_std erb rate le re.
Proof. exact gabor_std_ge_quarter_l. Qed.
Print Assumptions gabor_std_ge_quarter.

Theorem gammatone_freq_tail : forall eps n log_c log_alpha xi omega, 0 < eps -> (1 <= n)%nat ->
  exp (2 * log_alpha) < exp (gt_supp_a eps n log_c) ->
  gt_diff_ang eps n log_c log_alpha <= Rabs (omega - xi) ->
  gt_Habs (exp log_c) (exp log_alpha) xi n omega <= eps.
Proof. exact gt_freq_tail_l. Qed.
Print Assumptions gammatone_freq_tail.

Theorem gammatone_fr_outside_supports_hz : forall eps n log_alpha xi offset W idx,
  0 < eps <= 1 / 2 -> (1 <= n)%nat -> 0 <= xi <= PI -> (0 <= idx < W)%Z ->
  let log_c := gt_log_c false n log_alpha in
  let diff := gt_diff_ang eps n log_c log_alpha in
  outside_mod_R (xi - diff) (xi + diff) (2 * PI) (IZR idx * 2 * PI / IZR W) ->
  Cmod (gt_fr (exp log_c) (exp log_alpha) xi n offset (xi - diff) (xi + diff) W idx) < 5 / 2 * eps.
Proof. exact gt_fr_outside_supports_l. Qed.
Print Assumptions gammatone_fr_outside_supports_hz.

(* the hypothesis "outside supports_ang modulo 2 pi" of the two theorems above is the
   property's "outside supports_hz modulo the sampling rate" (supports_hz = a2h supports_ang,
   bin idx sits at idx * rate / W Hz) *)
Theorem outside_hz_iff_ang : forall lo hi rate x, 0 < rate ->
  (outside_mod_R (a2h lo rate) (a2h hi rate) rate (a2h x rate) <-> outside_mod_R lo hi (2 * PI) x).
Proof. exact outside_hz_iff_ang_l. Qed.
Print Assumptions outside_hz_iff_ang.

Theorem bin_frequency : forall rate (W idx : Z), 0 < rate -> (0 < W)%Z ->
  a2h (IZR idx * 2 * PI / IZR W) rate = IZR idx * rate / IZR W.
Proof. exact bin_frequency_l. Qed.
Print Assumptions bin_frequency.

(** * regression of the fixed finding: the pre-fix support tuple is refuted *)
Theorem gammatone_prefix_support_refuted :
  exists (c alpha : R) (n : nat) (right : R) (t : Z),
    let eps := 1 / 2000 in
    let offset := gt_offset true n alpha in
    0 < c /\ 0 < alpha /\ (2 <= n)%nat /\
    (INR n - 1) / alpha <= right - offset /\ gt_habs c alpha n offset right <= eps /\
    (snd (gt_supports_prefix offset right) < t)%Z /\
    13 * eps < gt_habs c alpha n offset (IZR t).
Proof. exact gammatone_prefix_support_refuted_l. Qed.
Print Assumptions gammatone_prefix_support_refuted.

(** * the accumulation loops leave the closed forms used above *)
Theorem gabor_ir_loop_closed_form : forall l2 std xi W j, (0 <= j < W)%Z ->
  acc_read (gabor_ir_writes l2 std xi W) j = gabor_ir l2 std xi W j.
Proof. exact gabor_ir_loop_closed_form_l. Qed.
Print Assumptions gabor_ir_loop_closed_form.

Theorem tri_ir_loop_closed_form : forall analytic l m r W j, (0 <= j < W)%Z ->
  tri_ir_loop analytic l m r W j = tri_ir analytic l m r W j.
Proof. exact tri_ir_loop_closed_form_l. Qed.
Print Assumptions tri_ir_loop_closed_form.

(** * the tie: generated-from-source definitions equal the model *)
Theorem threshold_in_range : 0 < src_eps <= 1 / 2.
Proof. exact src_eps_range. Qed.
Print Assumptions threshold_in_range.

Theorem source_flags_are_model : forall analytic,
  (src_tri_is_real analytic = is_real Tri analytic /\
   src_fbank_is_real analytic = is_real Fbank analytic /\
   src_gabor_is_real = is_real Gabor analytic /\
   src_gammatone_is_real = is_real Gammatone analytic /\
   src_tri_is_zero_phase = is_zero_phase Tri /\
   src_fbank_is_zero_phase = is_zero_phase Fbank /\
   src_gabor_is_zero_phase = is_zero_phase Gabor /\
   src_gammatone_is_zero_phase = is_zero_phase Gammatone) /\
  (dtype_of_src (src_tri_ir_dtype analytic) = ir_dtype Tri analytic /\
   dtype_of_src (src_fbank_ir_dtype analytic) = ir_dtype Fbank analytic /\
   dtype_of_src src_gabor_ir_dtype = ir_dtype Gabor analytic /\
   dtype_of_src src_gt_ir_dtype = ir_dtype Gammatone analytic).
Proof. exact tie_flags_all. Qed.
Print Assumptions source_flags_are_model.

Theorem source_supports_are_model :
  (forall eps l m r, src_tri_K_real eps l m r = tri_K_real eps l m r) /\
  (forall K, src_tri_supports K = tri_supports K) /\
  (forall eps l m r, src_fbank_K_real eps l m r = fbank_K_real eps l m r) /\
  (forall K, src_fbank_supports K = tri_supports K) /\
  (forall erb rate le re, src_gabor_std erb rate le re = gabor_std erb rate le re) /\
  (forall eps l2 std, src_gabor_diff_samps eps l2 std = gabor_diff_samps eps l2 std) /\
  (forall d, src_gabor_supports d = gabor_supports d) /\
  (forall eps l2 std, src_gabor_diff_ang eps l2 std = gabor_diff_ang eps l2 std) /\
  (forall erb n rate le re, src_gt_log_alpha erb n rate le re = gt_log_alpha erb n rate le re) /\
  (forall l2 n la, src_gt_log_c l2 n la = gt_log_c l2 n la) /\
  (forall mc n alpha, src_gt_offset mc n alpha = gt_offset mc n alpha) /\
  (forall eps n la lc, src_gt_diff_ang eps n la lc = gt_diff_ang eps n lc la) /\
  (forall alpha n, src_gt_search_start n alpha = gt_newton_start alpha n) /\
  (forall offset right, src_gt_supports right offset = gt_supports offset right).
Proof. exact tie_supports_all. Qed.
Print Assumptions source_supports_are_model.

Theorem source_search_loop_is_model : forall fuel eps c alpha n offset right,
  gt_newton (S fuel) eps c alpha n offset right =
  (let h_0 := gt_habs c alpha n offset right in
   if src_gt_search_continue eps h_0
   then gt_newton fuel eps c alpha n offset (src_gt_search_step right h_0 (src_gt_d n alpha c right))
   else Some right).
Proof. exact tie_gt_search_loop. Qed.
Print Assumptions source_search_loop_is_model.

Theorem source_responses_are_model :
  (forall analytic l m r (t : Z), t <> 0%Z ->
     tri_val analytic l m r t = (src_tri_val_re l m r (IZR t), src_tri_val_im analytic l m r (IZR t))) /\
  (forall analytic l m r, src_tri_denom analytic l m r = tri_denom analytic l m r) /\
  (forall l m r, src_tri_numer0 l m r = tri_numer0 l m r) /\
  (forall l2 std xi (t : Z),
     gabor_val l2 std xi t = (src_gabor_val_re l2 std xi (IZR t), src_gabor_val_im l2 std xi (IZR t))) /\
  (forall lo, src_gabor_period_lo lo = gabor_period_lo lo) /\
  (forall hi, src_gabor_period_hi hi = gabor_period_hi hi) /\
  (forall l2 std xi W idx period,
     src_gabor_fr_term l2 std xi W idx period = gabor_fr_term l2 std xi ((IZR idx / IZR W + IZR period) * 2 * PI)) /\
  (forall c alpha xi n offset t, offset < t ->
     gt_h c alpha xi n offset t = (src_gt_h_after_re n alpha c xi offset t, src_gt_h_after_im n alpha c xi offset t)) /\
  (forall c alpha xi n offset omega,
     gt_H c alpha xi n offset omega =
     ((src_gt_H_numer_re n c offset omega, src_gt_H_numer_im n c offset omega)
      / Cpow_nat (src_gt_H_base_re alpha, src_gt_H_base_im xi omega) n)%C) /\
  (forall c alpha xi n offset sup W j,
     gt_ir c alpha xi n offset sup W j =
     Csum (fun period => gt_h c alpha xi n offset (IZR (src_gt_ir_t W j period)))
          (src_gt_ir_left_period (fst sup) W) (src_gt_ir_right_period (snd sup) W)) /\
  (forall c alpha xi n offset ls rs W idx,
     gt_fr c alpha xi n offset ls rs W idx =
     Csum (fun period => gt_H c alpha xi n offset (src_gt_fr_omega W idx period))
          (src_gt_fr_left_period ls) (src_gt_fr_right_period rs)).
Proof. exact tie_responses_all. Qed.
Print Assumptions source_responses_are_model.
