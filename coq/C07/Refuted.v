(* C07: witness theorem for the code BEFORE commit 2513cb1, kept as regression of the finding. *)
From Coq Require Import Reals ZArith Lra Lia.
From Interval Require Import Tactic.
From Flocq Require Import Core.Raux.
From Verif Require Import lib.C07_Base C07.Model.
Open Scope R_scope.

(* Regression of the fixed finding (commit 2513cb1): before the fix _calculate_temp_support
   returned (floor(offset), int(ceil(right) + offset)), shifting the right end by the
   (negative) offset a second time. *)
Definition gt_supports_prefix (offset right : R) : Z * Z :=
  (Zfloor offset, Ztrunc (IZR (Zceil right) + offset)).

(* order 6, alpha = 1/10, unit gain, max_centered: offset = -50; right = 86 satisfies the exit
   condition of the search (|h(86)| <= eps, beyond the mode), the pre-fix support ends at 36,
   and sample 37 - outside it - carries more than 13 times the threshold. *)
Lemma gammatone_prefix_support_refuted_l :
  exists (c alpha : R) (n : nat) (right : R) (t : Z),
    let eps := 1 / 2000 in
    let offset := gt_offset true n alpha in
    0 < c /\ 0 < alpha /\ (2 <= n)%nat /\
    (INR n - 1) / alpha <= right - offset /\ gt_habs c alpha n offset right <= eps /\
    (snd (gt_supports_prefix offset right) < t)%Z /\
    13 * eps < gt_habs c alpha n offset (IZR t).
Proof.
  exists ((1 / 10) ^ 6 / 120), (1 / 10), 6%nat, 86, 37%Z. cbv zeta.
  assert (Hoff : gt_offset true 6 (1 / 10) = -50).
  { unfold gt_offset. simpl INR. field. }
  rewrite Hoff.
  split; [lra|]. split; [lra|]. split; [lia|].
  split; [simpl INR; lra|].
  split.
  { unfold gt_habs. destruct (Rle_dec 86 (-50)); [lra|]. simpl INR. interval. }
  split.
  { unfold gt_supports_prefix; cbn [snd]. rewrite (Zceil_IZR 86).
    replace (IZR 86 + -50) with (IZR 36) by (simpl; lra). rewrite Ztrunc_IZR. lia. }
  unfold gt_habs. destruct (Rle_dec (IZR 37) (-50)) as [H|H]; [simpl in H; lra|]. simpl INR. interval.
Qed.
