(* C07: the definitions that gen/c07_filters.py regenerates from filters.py /
   config.py / util.py on every run (coq/gen/C07Filters.v, names src_...) are equal
   to the hand-written model of C07/Model.v that the theorems are about.
   A change of a formula in the source changes the generated text and breaks the
   corresponding lemma here. *)
From Coq Require Import Reals ZArith Lra Lia.
From Coquelicot Require Import Complex.
From Flocq Require Import Core.Raux.
From Verif Require Import lib.C07_Base C07.Model C07.Forms gen.C07Filters.
Open Scope R_scope.

(* Equality of two real expressions "up to ring identities at every level": descends
   through equal head symbols (exp, ln, sqrt, cos, sin, Rpower, +, -, *, /, if) and closes
   the leaves by ring / field, so that a harmless re-ordering or re-association inside the
   source does not break the tie while a different formula still does. *)
Ltac req :=
  first
    [ reflexivity
    | ring
    | (unfold Rdiv; ring)
    | match goal with
      | |- exp _ = exp _ => apply f_equal; req
      | |- ln _ = ln _ => apply f_equal; req
      | |- sqrt _ = sqrt _ => apply f_equal; req
      | |- cos _ = cos _ => apply f_equal; req
      | |- sin _ = sin _ => apply f_equal; req
      | |- IZR _ = IZR _ => apply f_equal; req
      | |- Zceil _ = Zceil _ => apply f_equal; req
      | |- Zfloor _ = Zfloor _ => apply f_equal; req
      | |- Ztrunc _ = Ztrunc _ => apply f_equal; req
      | |- Rpower _ _ = Rpower _ _ => apply f_equal2; req
      | |- Rmax _ _ = Rmax _ _ => apply f_equal2; req
      | |- (_ ^ ?n)%R = (_ ^ ?n)%R => apply (f_equal (fun x => x ^ n)%R); req
      | |- (_ * _)%R = (_ * _)%R => apply f_equal2; req
      | |- (_ + _)%R = (_ + _)%R => apply f_equal2; req
      | |- (_ - _)%R = (_ - _)%R => apply f_equal2; req
      | |- (_ / _)%R = (_ / _)%R => apply f_equal2; req
      | |- (- _)%R = (- _)%R => apply f_equal; req
      | |- (_ - _)%Z = (_ - _)%Z => apply f_equal2; req
      | |- (_ + _)%Z = (_ + _)%Z => apply f_equal2; req
      | |- (- _)%Z = (- _)%Z => apply f_equal; req
      | |- (if ?c then _ else _) = (if ?c then _ else _) => destruct c; req
      | |- (_, _) = (_, _) => apply f_equal2; req
      end ].

Ltac tie :=
  repeat match goal with |- context [if ?c then _ else _] => is_var c; destruct c end;
  req.

(** the threshold *)
Lemma src_eps_range : 0 < src_eps <= 1 / 2.
Proof. unfold src_eps. lra. Qed.

Lemma tie_h2a hz rate : src_hertz_to_angular hz rate = h2a hz rate.
Proof. unfold src_hertz_to_angular, h2a. tie. Qed.
Lemma tie_a2h ang rate : src_angular_to_hertz ang rate = a2h ang rate.
Proof. unfold src_angular_to_hertz, a2h. tie. Qed.

(** flags and dtypes *)
Definition dtype_of_src (d : src_dtype) : dtype :=
  match d with C07Filters.Float64 => Model.Float64 | C07Filters.Complex128 => Model.Complex128 end.

Lemma tie_flags : forall analytic,
  src_tri_is_real analytic = is_real Tri analytic /\
  src_fbank_is_real analytic = is_real Fbank analytic /\
  src_gabor_is_real = is_real Gabor analytic /\
  src_gammatone_is_real = is_real Gammatone analytic /\
  src_tri_is_zero_phase = is_zero_phase Tri /\
  src_fbank_is_zero_phase = is_zero_phase Fbank /\
  src_gabor_is_zero_phase = is_zero_phase Gabor /\
  src_gammatone_is_zero_phase = is_zero_phase Gammatone.
Proof. intros a. repeat split. Qed.

Lemma tie_ir_dtype : forall analytic,
  dtype_of_src (src_tri_ir_dtype analytic) = ir_dtype Tri analytic /\
  dtype_of_src (src_fbank_ir_dtype analytic) = ir_dtype Fbank analytic /\
  dtype_of_src src_gabor_ir_dtype = ir_dtype Gabor analytic /\
  dtype_of_src src_gt_ir_dtype = ir_dtype Gammatone analytic.
Proof. intros []; repeat split. Qed.

(** triangular / Fbank *)
Lemma tie_tri_K_real eps l m r : src_tri_K_real eps l m r = tri_K_real eps l m r.
Proof. unfold src_tri_K_real, tri_K_real. tie. Qed.
Lemma tie_tri_supports K : src_tri_supports K = tri_supports K.
Proof. unfold src_tri_supports, tri_supports. tie. Qed.
Lemma tie_fbank_K_real eps l m r : src_fbank_K_real eps l m r = fbank_K_real eps l m r.
Proof. unfold src_fbank_K_real, fbank_K_real. tie. Qed.
Lemma tie_fbank_supports K : src_fbank_supports K = tri_supports K.
Proof. unfold src_fbank_supports, tri_supports. tie. Qed.
Lemma tie_tri_div_term l m r : src_tri_div_term l m r = tri_div_term l m r.
Proof. unfold src_tri_div_term, tri_div_term. tie. Qed.
Lemma tie_tri_denom analytic l m r : src_tri_denom analytic l m r = tri_denom analytic l m r.
Proof. unfold src_tri_denom, tri_denom, tri_denom0. tie. Qed.
Lemma tie_tri_numer0 l m r : src_tri_numer0 l m r = tri_numer0 l m r.
Proof. unfold src_tri_numer0, tri_numer0, tri_div_term. cbv zeta. tie. Qed.
Lemma tie_tri_val analytic l m r (t : Z) : t <> 0%Z ->
  tri_val analytic l m r t = (src_tri_val_re l m r (IZR t), src_tri_val_im analytic l m r (IZR t)).
Proof. 
  intros Ht. rewrite tri_val_parts by exact Ht.
  unfold src_tri_val_re, src_tri_val_im, tri_num_re, tri_num_im, tri_div_term. cbv zeta.
  destruct analytic; apply f_equal2; first [req | unfold Rdiv; ring].
 Qed.

(** Gabor *)
Lemma tie_gabor_t_support_const eps l2 : src_gabor_t_support_const eps l2 = gabor_t_support_const eps l2.
Proof. unfold src_gabor_t_support_const, gabor_t_support_const. tie. Qed.
Lemma tie_gabor_f_support_const eps l2 : src_gabor_f_support_const eps l2 = gabor_f_support_const eps l2.
Proof. unfold src_gabor_f_support_const, gabor_f_support_const. tie. Qed.
Lemma tie_gabor_bandwidth_const erb : src_gabor_bandwidth_const erb = gabor_bandwidth_const erb.
Proof. unfold src_gabor_bandwidth_const, gabor_bandwidth_const. tie. Qed.
Lemma tie_gabor_std erb rate le re : src_gabor_std erb rate le re = gabor_std erb rate le re.
Proof. unfold src_gabor_std, gabor_std, src_hertz_to_angular, h2a, src_gabor_bandwidth_const, gabor_bandwidth_const. cbv zeta. tie. Qed.
Lemma tie_gabor_diff_ang eps l2 std : src_gabor_diff_ang eps l2 std = gabor_diff_ang eps l2 std.
Proof. 
  unfold src_gabor_diff_ang, gabor_diff_ang. rewrite !tie_gabor_f_support_const. tie.
 Qed.
Lemma tie_gabor_diff_samps eps l2 std : src_gabor_diff_samps eps l2 std = gabor_diff_samps eps l2 std.
Proof. 
  unfold src_gabor_diff_samps, gabor_diff_samps, gabor_diff_samps_real.
  rewrite !tie_gabor_t_support_const. destruct l2; tie.
 Qed.
Lemma tie_gabor_supports d : src_gabor_supports d = gabor_supports d.
Proof. unfold src_gabor_supports, gabor_supports. tie. Qed.
Lemma tie_gabor_ir_const l2 std : src_gabor_ir_const l2 std = gabor_ir_const l2 std.
Proof. unfold src_gabor_ir_const, gabor_ir_const. tie. Qed.
Lemma tie_gabor_val l2 std xi (t : Z) :
  gabor_val l2 std xi t = (src_gabor_val_re l2 std xi (IZR t), src_gabor_val_im l2 std xi (IZR t)).
Proof. 
  unfold gabor_val, src_gabor_val_re, src_gabor_val_im, gabor_env, gabor_ir_const.
  unfold Cmult, RtoC, cis; cbn [fst snd].
  apply f_equal2; [rewrite Rmult_0_l, Rminus_0_r | rewrite Rmult_0_l, Rplus_0_r]; tie.
 Qed.
Lemma tie_gabor_period_lo lo : src_gabor_period_lo lo = gabor_period_lo lo.
Proof. unfold src_gabor_period_lo, gabor_period_lo. tie. Qed.
Lemma tie_gabor_period_hi hi : src_gabor_period_hi hi = gabor_period_hi hi.
Proof. unfold src_gabor_period_hi, gabor_period_hi. tie. Qed.
Lemma tie_gabor_fr_term l2 std xi W idx period :
  src_gabor_fr_term l2 std xi W idx period =
  gabor_fr_term l2 std xi ((IZR idx / IZR W + IZR period) * 2 * PI).
Proof. unfold src_gabor_fr_term, gabor_fr_term, gabor_fr_const. tie. Qed.

(** gammatone *)
Lemma tie_gt_alpha_const erb n : src_gt_alpha_const erb n = gt_alpha_const erb n.
Proof. unfold src_gt_alpha_const, gt_alpha_const. tie. Qed.
Lemma tie_gt_log_alpha erb n rate le re : src_gt_log_alpha erb n rate le re = gt_log_alpha erb n rate le re.
Proof. unfold src_gt_log_alpha, gt_log_alpha. rewrite tie_gt_alpha_const. unfold src_hertz_to_angular, h2a. tie. Qed.
Lemma tie_gt_log_c l2 n la : src_gt_log_c l2 n la = gt_log_c l2 n la.
Proof. unfold src_gt_log_c, gt_log_c. tie. Qed.
Lemma tie_gt_offset mc n alpha : src_gt_offset mc n alpha = gt_offset mc n alpha.
Proof. unfold src_gt_offset, gt_offset. tie. Qed.
Lemma tie_gt_supp_a eps n lc : src_gt_supp_a eps n lc = gt_supp_a eps n lc.
Proof. unfold src_gt_supp_a, gt_supp_a. tie. Qed.
Lemma tie_gt_diff_ang eps n la lc : src_gt_diff_ang eps n la lc = gt_diff_ang eps n lc la.
Proof. unfold src_gt_diff_ang, gt_diff_ang, gt_supp_a. tie. Qed.
Lemma tie_gt_h c alpha xi n offset t : offset < t ->
  gt_h c alpha xi n offset t = (src_gt_h_after_re n alpha c xi offset t, src_gt_h_after_im n alpha c xi offset t).
Proof. 
  intros Ht. unfold gt_h. rewrite gt_habs_after by exact Ht.
  unfold src_gt_h_after_re, src_gt_h_after_im, Cmult, RtoC, cis; cbn [fst snd].
  apply f_equal2; [rewrite Rmult_0_l, Rminus_0_r | rewrite Rmult_0_l, Rplus_0_r]; tie.
 Qed.
Lemma tie_gt_h_before c alpha xi n offset t : t <= offset -> gt_h c alpha xi n offset t = RtoC 0.
Proof.
  intros Ht. unfold gt_h. rewrite gt_habs_before' by exact Ht.
  unfold Cmult, RtoC, cis; simpl. f_equal; ring.
Qed.
Lemma tie_gt_H c alpha xi n offset omega :
  gt_H c alpha xi n offset omega =
  ((src_gt_H_numer_re n c offset omega, src_gt_H_numer_im n c offset omega)
   / Cpow_nat (src_gt_H_base_re alpha, src_gt_H_base_im xi omega) n)%C.
Proof.
  unfold gt_H. cbv zeta. f_equal.
  unfold src_gt_H_numer_re, src_gt_H_numer_im, Cmult, RtoC, cis; simpl.
  replace (-1 * omega * offset) with (- omega * offset) by ring. f_equal; ring.
Qed.
Lemma tie_gt_d c alpha n t : src_gt_d n alpha c t = gt_d c alpha n t.
Proof. unfold src_gt_d, gt_d. tie. Qed.
Lemma tie_gt_search_start alpha n : src_gt_search_start n alpha = gt_newton_start alpha n.
Proof. unfold src_gt_search_start, gt_newton_start. tie. Qed.
(* one unfolding of the model's loop is the source's test and step *)
Lemma tie_gt_search_loop fuel eps c alpha n offset right :
  gt_newton (S fuel) eps c alpha n offset right =
  (let h_0 := gt_habs c alpha n offset right in
   if src_gt_search_continue eps h_0
   then gt_newton fuel eps c alpha n offset (src_gt_search_step right h_0 (src_gt_d n alpha c right))
   else Some right).
Proof.
  cbn [gt_newton]. cbv zeta. unfold src_gt_search_continue, src_gt_search_step.
  destruct (Rgt_dec (gt_habs c alpha n offset right) eps); reflexivity.
Qed.
Lemma tie_gt_supports offset right : src_gt_supports right offset = gt_supports offset right.
Proof. unfold src_gt_supports, gt_supports. tie. Qed.
Lemma tie_gt_ir c alpha xi n offset sup W j :
  gt_ir c alpha xi n offset sup W j =
  Csum (fun period => gt_h c alpha xi n offset (IZR (src_gt_ir_t W j period)))
       (src_gt_ir_left_period (fst sup) W) (src_gt_ir_right_period (snd sup) W).
Proof. reflexivity. Qed.
Lemma tie_gt_fr c alpha xi n offset ls rs W idx :
  gt_fr c alpha xi n offset ls rs W idx =
  Csum (fun period => gt_H c alpha xi n offset (src_gt_fr_omega W idx period))
       (src_gt_fr_left_period ls) (src_gt_fr_right_period rs).
Proof.
  unfold gt_fr, src_gt_fr_left_period, src_gt_fr_right_period. f_equal.
  apply FunctionalExtensionality.functional_extensionality. intros p.
  unfold src_gt_fr_omega. rewrite mult_IZR. reflexivity.
Qed.

(** the conjunctions exported by Props.v *)
Lemma tie_flags_all : forall analytic,
  (src_tri_is_real analytic = is_real Tri analytic /\
   src_fbank_is_real analytic = is_real Fbank analytic /\
   src_gabor_is_real = is_real Gabor analytic /\
   src_gammatone_is_real = is_real Gammatone analytic /\
   src_tri_is_zero_phase = is_zero_phase Tri /\
   src_fbank_is_zero_phase = is_zero_phase Fbank /\
   src_gabor_is_zero_phase = is_zero_phase Gabor /\
   src_gammatone_is_zero_phase = is_zero_phase Gammatone) /\
  (dtype_of_src (src_tri_ir_dtype analytic) = ir_dtype Tri analytic /\
   dtype_of_src (src_fbank_ir_dtype analytic) = ir_dtype Fbank analytic /\
   dtype_of_src src_gabor_ir_dtype = ir_dtype Gabor analytic /\
   dtype_of_src src_gt_ir_dtype = ir_dtype Gammatone analytic).
Proof. exact (fun a => conj (tie_flags a) (tie_ir_dtype a)). Qed.

Lemma tie_supports_all :
  (forall eps l m r, src_tri_K_real eps l m r = tri_K_real eps l m r) /\
  (forall K, src_tri_supports K = tri_supports K) /\
  (forall eps l m r, src_fbank_K_real eps l m r = fbank_K_real eps l m r) /\
  (forall K, src_fbank_supports K = tri_supports K) /\
  (forall erb rate le re, src_gabor_std erb rate le re = gabor_std erb rate le re) /\
  (forall eps l2 std, src_gabor_diff_samps eps l2 std = gabor_diff_samps eps l2 std) /\
  (forall d, src_gabor_supports d = gabor_supports d) /\
  (forall eps l2 std, src_gabor_diff_ang eps l2 std = gabor_diff_ang eps l2 std) /\
  (forall erb n rate le re, src_gt_log_alpha erb n rate le re = gt_log_alpha erb n rate le re) /\
  (forall l2 n la, src_gt_log_c l2 n la = gt_log_c l2 n la) /\
  (forall mc n alpha, src_gt_offset mc n alpha = gt_offset mc n alpha) /\
  (forall eps n la lc, src_gt_diff_ang eps n la lc = gt_diff_ang eps n lc la) /\
  (forall alpha n, src_gt_search_start n alpha = gt_newton_start alpha n) /\
  (forall offset right, src_gt_supports right offset = gt_supports offset right).
Proof.
  exact (conj tie_tri_K_real (conj tie_tri_supports (conj tie_fbank_K_real (conj tie_fbank_supports
        (conj tie_gabor_std (conj tie_gabor_diff_samps (conj tie_gabor_supports (conj tie_gabor_diff_ang
        (conj tie_gt_log_alpha (conj tie_gt_log_c (conj tie_gt_offset (conj tie_gt_diff_ang
        (conj tie_gt_search_start tie_gt_supports))))))))))))).
Qed.

Lemma tie_responses_all :
  (forall analytic l m r (t : Z), t <> 0%Z ->
     tri_val analytic l m r t = (src_tri_val_re l m r (IZR t), src_tri_val_im analytic l m r (IZR t))) /\
  (forall analytic l m r, src_tri_denom analytic l m r = tri_denom analytic l m r) /\
  (forall l m r, src_tri_numer0 l m r = tri_numer0 l m r) /\
  (forall l2 std xi (t : Z),
     gabor_val l2 std xi t = (src_gabor_val_re l2 std xi (IZR t), src_gabor_val_im l2 std xi (IZR t))) /\
  (forall lo, src_gabor_period_lo lo = gabor_period_lo lo) /\
  (forall hi, src_gabor_period_hi hi = gabor_period_hi hi) /\
  (forall l2 std xi W idx period,
     src_gabor_fr_term l2 std xi W idx period = gabor_fr_term l2 std xi ((IZR idx / IZR W + IZR period) * 2 * PI)) /\
  (forall c alpha xi n offset t, offset < t ->
     gt_h c alpha xi n offset t = (src_gt_h_after_re n alpha c xi offset t, src_gt_h_after_im n alpha c xi offset t)) /\
  (forall c alpha xi n offset omega,
     gt_H c alpha xi n offset omega =
     ((src_gt_H_numer_re n c offset omega, src_gt_H_numer_im n c offset omega)
      / Cpow_nat (src_gt_H_base_re alpha, src_gt_H_base_im xi omega) n)%C) /\
  (forall c alpha xi n offset sup W j,
     gt_ir c alpha xi n offset sup W j =
     Csum (fun period => gt_h c alpha xi n offset (IZR (src_gt_ir_t W j period)))
          (src_gt_ir_left_period (fst sup) W) (src_gt_ir_right_period (snd sup) W)) /\
  (forall c alpha xi n offset ls rs W idx,
     gt_fr c alpha xi n offset ls rs W idx =
     Csum (fun period => gt_H c alpha xi n offset (src_gt_fr_omega W idx period))
          (src_gt_fr_left_period ls) (src_gt_fr_right_period rs)).
Proof.
  exact (conj tie_tri_val (conj tie_tri_denom (conj tie_tri_numer0 (conj tie_gabor_val
        (conj tie_gabor_period_lo (conj tie_gabor_period_hi (conj tie_gabor_fr_term (conj tie_gt_h
        (conj tie_gt_H (conj tie_gt_ir tie_gt_fr)))))))))).
Qed.
