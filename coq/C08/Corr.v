(* C08 - comparators used by the generated correspondence files (build/C08/*.v):
   the model is evaluated by vm_compute on inputs on which the implementation
   was run, and compared here; only the indices of disagreeing cases are printed. *)
From Coq Require Import String.
From Coq Require Import ZArith List Bool.
From Verif Require Import C08.Model C08.HeapModel.
Import ListNotations.

Definition opt_eqb (a b : option Z) : bool :=
  match a, b with
  | Some x, Some y => Z.eqb x y
  | None, None => true
  | _, _ => false
  end.

Fixpoint val_eqb (a b : val) {struct a} : bool :=
  let fix items (l1 l2 : list (string * val)) {struct l1} : bool :=
      match l1, l2 with
      | [], [] => true
      | (k1, v1) :: t1, (k2, v2) :: t2 => String.eqb k1 k2 && val_eqb v1 v2 && items t1 t2
      | _, _ => false
      end in
  match a, b with
  | VNone, VNone => true
  | VBool x, VBool y => Bool.eqb x y
  | VNum x, VNum y => String.eqb x y
  | VStr x, VStr y => String.eqb x y
  | VList l1, VList l2 =>
    (fix elems (l1 l2 : list val) {struct l1} : bool :=
       match l1, l2 with
       | [], [] => true
       | x :: t1, y :: t2 => val_eqb x y && elems t1 t2
       | _, _ => false
       end) l1 l2
  | VDict k1, VDict k2 => items k1 k2
  | VInst c1 f1, VInst c2 f2 => Z.eqb c1 c2 && items f1 f2
  | _, _ => false
  end.

Definition exn_eqb (a b : exn) : bool :=
  match a, b with
  | ValueError, ValueError | KeyError, KeyError | TypeError, TypeError
  | Unmodelled, Unmodelled => true
  | _, _ => false
  end.

Definition res_eqb (a b : res val) : bool :=
  match a, b with
  | Ok x, Ok y => val_eqb x y
  | Err x, Err y => exn_eqb x y
  | _, _ => false
  end.

Fixpoint mismatches_from {A} (ok : A -> bool) (i : Z) (l : list A) : list Z :=
  match l with
  | [] => []
  | x :: tl => if ok x then mismatches_from ok (i + 1) tl else i :: mismatches_from ok (i + 1) tl
  end.
Definition mismatches {A} (ok : A -> bool) (l : list A) : list Z := mismatches_from ok 0 l.

(* from_alias on a class tree: queries (class the method is called on, alias, class instantiated) *)
Definition tree_query_ok (t : ctree) (q : Z * string * option Z) : bool :=
  let '(c, a, e) := q in
  match subtree t c with
  | Some st => opt_eqb (tree_from_alias st a) e
  | None => false
  end.
Definition tree_case_ok (c : ctree * list (Z * string * option Z)) : bool :=
  forallb (tree_query_ok (fst c)) (snd c).

(* ... and on a class graph *)
Definition graph_query_ok (g : graph) (q : Z * string * option Z) : bool :=
  let '(c, a, e) := q in opt_eqb (graph_from_alias g c a) e.
Definition graph_case_ok (c : graph * list (Z * string * option Z)) : bool :=
  forallb (graph_query_ok (fst c)) (snd c).

(* trees are also run as graphs: both instances of the one machine must agree *)
Definition tree_as_graph_ok (c : ctree * list (Z * string * option Z)) : bool :=
  forallb (graph_query_ok (graph_of_tree (fst c))) (snd c).

Definition corr_fuel : nat := 12.

(* alias_factory_subclass_from_arg(family, arg) -> object / exception *)
Definition arg_case_ok (r : registry) (c : Z * val * res val) : bool :=
  let '(fam, arg, e) := c in res_eqb (from_arg r corr_fuel fam arg) e.

(* a nested configuration: alias-built and explicitly built objects, against the
   implementation's object built from the JSON document *)
Definition cfg_case_ok (r : registry) (c : Z * cfg * res val) : bool :=
  let '(fam, g, e) := c in
  res_eqb (from_arg r corr_fuel fam (to_json g)) e && res_eqb (explicit r corr_fuel g) e.

(* the heap model (HeapModel.v) on the same cases: the argument is stored as
   objects, the call is run on the store, the result is read back; besides the
   result, the store before the call must be a prefix of the store after it and
   the argument must read back unchanged *)
Definition read_fuel : nat := 24.

Definition read_res (h : heap) (x : res hval) : res val :=
  match x with
  | Ok v => match read read_fuel h v with Some y => Ok y | None => Err Unmodelled end
  | Err e => Err e
  | Diverge => Diverge
  end.

Definition heap_run_ok (r : registry) (fam : Z) (arg : val) (e : res val) : bool :=
  let (a, h) := load arg [] in
  let (x, h') := hfrom_arg r corr_fuel fam a h in
  res_eqb (read_res h' x) e && prefix_eqb h h'
  && match read read_fuel h' a with Some y => val_eqb y arg | None => false end.

Definition arg_case_heap_ok (r : registry) (c : Z * val * res val) : bool :=
  let '(fam, arg, e) := c in heap_run_ok r fam arg e.

Definition cfg_case_heap_ok (r : registry) (c : Z * cfg * res val) : bool :=
  let '(fam, g, e) := c in heap_run_ok r fam (to_json g) e.
