(* C08 - the same functions over a store of mutable, shareable objects.

   Model.v treats mappings as values, so "the mapping passed in is not modified"
   holds there by construction.  Here mappings, lists and instances live in a
   heap and are passed by reference, exactly the situation in which
   alias_factory_subclass_from_arg could damage its caller:
     arg = dict(arg)            allocates a SHALLOW copy (nested mappings are shared)
     arg.pop("alias")           is a destructive update of that copy
     from_alias(alias, ** arg)  hands the constructor the remaining items; values
                                that are mappings are still the caller's objects,
                                and the constructor passes them on to
                                alias_factory_subclass_from_arg again.
   Definitions only; ProofsHeap.v proves that no object that existed before the
   call is ever written, for every heap (any sharing, any cycles). *)
From Coq Require Import String.
From Coq Require Import ZArith List Bool Lia.
From Verif Require Import C08.Model.
Import ListNotations.
Local Open Scope string_scope.
Local Open Scope list_scope.

Inductive hval :=
| HNone
| HBool (b : bool)
| HNum (repr : string)
| HStr (s : string)
| HRef (a : nat).                 (* reference to a heap object *)

Inductive hobj :=
| ODict (kv : list (string * hval))
| OList (l : list hval)
| OInst (c : Z) (fields : list (string * hval)).

Definition heap := list hobj.     (* address = position *)

Definition hget (h : heap) (a : nat) : option hobj := nth_error h a.
Definition alloc (h : heap) (o : hobj) : heap * nat := (h ++ [o], List.length h).
Fixpoint hset (h : heap) (a : nat) (o : hobj) : heap :=
  match h, a with
  | [], _ => []
  | _ :: tl, O => o :: tl
  | x :: tl, S a' => x :: hset tl a' o
  end.

Fixpoint hpop (k : string) (kv : list (string * hval)) : option (hval * list (string * hval)) :=
  match kv with
  | [] => None
  | (k', v) :: tl =>
    if String.eqb k k' then Some (v, tl)
    else match hpop k tl with
         | Some (v', tl') => Some (v', (k', v) :: tl')
         | None => None
         end
  end.

Fixpoint hlookup (k : string) (kv : list (string * hval)) : option hval :=
  match kv with
  | [] => None
  | (k', v) :: tl => if String.eqb k k' then Some v else hlookup k tl
  end.

Definition hset_key (k : string) (v : hval) (kv : list (string * hval)) : list (string * hval) :=
  map (fun p => if String.eqb k (fst p) then (fst p, v) else p) kv.

Definition hkeys (kv : list (string * hval)) : list string := map fst kv.

Definition hbind_ok (i : cinfo) (kwargs : list (string * hval)) : bool :=
  forallb (fun k => mem_str k (map fst (ci_params i)) || ci_varkw i) (hkeys kwargs)
  && forallb (fun p => negb (snd p) || mem_str (fst p) (hkeys kwargs)) (ci_params i).

Definition h_is_none (v : hval) : bool := match v with HNone => true | _ => false end.

Section HeapBuild.
  Variable r : registry.

  Definition hrec := Z -> hval -> heap -> res hval * heap.

  Fixpoint hresolve_nested (rec : hrec) (ns : list nested) (fields : list (string * hval)) (h : heap)
    : res (list (string * hval)) * heap :=
    match ns with
    | [] => (Ok fields, h)
    | n :: tl =>
      match hlookup (n_param n) fields with
      | Some v =>
        if n_guarded n && h_is_none v then hresolve_nested rec tl fields h
        else match rec (n_family n) v h with
             | (Ok o, h') => hresolve_nested rec tl (hset_key (n_param n) o fields) h'
             | (Err e, h') => (Err e, h')
             | (Diverge, h') => (Diverge, h')
             end
      | None =>
        if n_guarded n then hresolve_nested rec tl fields h
        else match rec (n_family n) HNone h with
             | (Ok _, h') => hresolve_nested rec tl fields h'
             | (Err e, h') => (Err e, h')
             | (Diverge, h') => (Diverge, h')
             end
      end
    end.

  (* cls( ** kwargs ): the new object is allocated; the keyword values are bound to
     the constructor's local names (rebinding a local is not a heap write) *)
  Definition hconstruct_with (rec : hrec) (c : Z) (kwargs : list (string * hval)) (h : heap)
    : res hval * heap :=
    match info r c with
    | None => (Err TypeError, h)
    | Some i =>
      if ci_abstract i then (Err TypeError, h)
      else if negb (hbind_ok i kwargs) then (Err TypeError, h)
      else match hresolve_nested rec (ci_nested i) kwargs h with
           | (Ok fs, h') => let (h'', a) := alloc h' (OInst c fs) in (Ok (HRef a), h'')
           | (Err e, h') => (Err e, h')
           | (Diverge, h') => (Diverge, h')
           end
    end.

  Definition hfrom_alias_with (rec : hrec) (fam : Z) (alias : hval)
             (kwargs : list (string * hval)) (h : heap) : res hval * heap :=
    if mem_str "cls" (hkeys kwargs) then (Err TypeError, h)
    else
    match subtree (r_tree r) fam with
    | None => (Err TypeError, h)
    | Some ft =>
      match alias with
      | HStr s =>
        match tree_from_alias ft s with
        | Some c => hconstruct_with rec c kwargs h
        | None => (Err ValueError, h)
        end
      | HRef a =>
        match hget h a with
        | Some (OInst _ _) => (Err ValueError, h)      (* hashable, never an alias *)
        | _ => (Err TypeError, h)                      (* list / dict: unhashable *)
        end
      | HNone | HBool _ | HNum _ => (Err ValueError, h)
      end
    end.

  (* the mapping branch; [a1] is the address of the private copy made by dict(arg) *)
  Definition hfrom_mapping (rec : hrec) (fam : Z) (a1 : nat) (h : heap) : res hval * heap :=
    match hget h a1 with
    | Some (ODict kv) =>
      match hpop "alias" kv with
      | Some (al, rest) => hfrom_alias_with rec fam al rest (hset h a1 (ODict rest))   (* arg.pop("alias") *)
      | None =>
        match hpop "name" kv with
        | Some (al, rest) => hfrom_alias_with rec fam al rest (hset h a1 (ODict rest)) (* arg.pop("name") *)
        | None => (Err KeyError, h)
        end
      end
    | _ => (Err TypeError, h)
    end.

  (* dict(arg) for a list object: [key, value] pairs, themselves list objects *)
  Fixpoint hdict_update (h : heap) (acc : list (string * hval)) (l : list hval)
    : res (list (string * hval)) :=
    match l with
    | [] => Ok acc
    | HRef a :: tl =>
      match hget h a with
      | Some (OList [HStr k; v]) =>
        hdict_update h (if mem_str k (hkeys acc) then hset_key k v acc else acc ++ [(k, v)]) tl
      | Some (OList [_; _]) => Err Unmodelled
      | Some (OList _) => Err ValueError
      | Some (ODict kv) => if Nat.eqb (List.length kv) 2 then Err Unmodelled else Err ValueError
      | Some (OInst _ _) => Err TypeError
      | None => Err TypeError
      end
    | HStr s :: _ => if Nat.eqb (String.length s) 2 then Err Unmodelled else Err ValueError
    | _ :: _ => Err TypeError
    end.

  Fixpoint hfrom_arg (fuel : nat) (fam : Z) (arg : hval) (h : heap) : res hval * heap :=
    match fuel with
    | O => (Diverge, h)
    | S f =>
      match arg with
      | HRef a =>
        match hget h a with
        | Some (OInst c _) =>
          if is_subclass (r_tree r) c fam then (Ok arg, h) else (Err TypeError, h)
        | Some (ODict kv) =>
          let (h1, a1) := alloc h (ODict kv) in            (* arg = dict(arg) *)
          hfrom_mapping (hfrom_arg f) fam a1 h1
        | Some (OList l) =>
          match hdict_update h [] l with
          | Ok kv => let (h1, a1) := alloc h (ODict kv) in hfrom_mapping (hfrom_arg f) fam a1 h1
          | Err e => (Err e, h)
          | Diverge => (Diverge, h)
          end
        | None => (Err TypeError, h)
        end
      | HStr s => hfrom_alias_with (hfrom_arg f) fam (HStr s) [] h
      | HNone | HBool _ | HNum _ => (Err TypeError, h)
      end
    end.
End HeapBuild.

(* ------------------------------------------------------------------ *)
(** * between values and heaps (used by the correspondence check and the
      refinement statement) *)

(* store a value: components first, so references point to lower addresses *)
Fixpoint load (v : val) (h : heap) {struct v} : hval * heap :=
  let fix load_items (kv : list (string * val)) (h : heap) {struct kv}
      : list (string * hval) * heap :=
      match kv with
      | [] => ([], h)
      | (k, x) :: tl =>
        let (x', h1) := load x h in
        let (tl', h2) := load_items tl h1 in ((k, x') :: tl', h2)
      end in
  match v with
  | VNone => (HNone, h)
  | VBool b => (HBool b, h)
  | VNum s => (HNum s, h)
  | VStr s => (HStr s, h)
  | VList l =>
    let (l', h1) :=
        (fix load_list (l : list val) (h : heap) {struct l} : list hval * heap :=
           match l with
           | [] => ([], h)
           | x :: tl => let (x', h1) := load x h in
                        let (tl', h2) := load_list tl h1 in (x' :: tl', h2)
           end) l h in
    (HRef (List.length h1), h1 ++ [OList l'])
  | VDict kv => let (kv', h1) := load_items kv h in (HRef (List.length h1), h1 ++ [ODict kv'])
  | VInst c fs => let (fs', h1) := load_items fs h in (HRef (List.length h1), h1 ++ [OInst c fs'])
  end.

(* read a value back (fuel bounds the depth; cyclic stores give None) *)
Fixpoint read (fuel : nat) (h : heap) (v : hval) : option val :=
  match fuel with
  | O => None
  | S f =>
    let read_items :=
        fix go (kv : list (string * hval)) : option (list (string * val)) :=
          match kv with
          | [] => Some []
          | (k, x) :: tl =>
            match read f h x, go tl with
            | Some x', Some tl' => Some ((k, x') :: tl')
            | _, _ => None
            end
          end in
    match v with
    | HNone => Some VNone
    | HBool b => Some (VBool b)
    | HNum s => Some (VNum s)
    | HStr s => Some (VStr s)
    | HRef a =>
      match hget h a with
      | Some (ODict kv) => option_map VDict (read_items kv)
      | Some (OInst c fs) => option_map (VInst c) (read_items fs)
      | Some (OList l) =>
        option_map VList
                   ((fix go (l : list hval) : option (list val) :=
                       match l with
                       | [] => Some []
                       | x :: tl => match read f h x, go tl with
                                    | Some x', Some tl' => Some (x' :: tl')
                                    | _, _ => None
                                    end
                       end) l)
      | None => None
      end
    end
  end.

(* is h a prefix of h' (object by object)?  decided structurally *)
Definition hval_eqb (a b : hval) : bool :=
  match a, b with
  | HNone, HNone => true
  | HBool x, HBool y => Bool.eqb x y
  | HNum x, HNum y => String.eqb x y
  | HStr x, HStr y => String.eqb x y
  | HRef x, HRef y => Nat.eqb x y
  | _, _ => false
  end.

Fixpoint hitems_eqb (l1 l2 : list (string * hval)) : bool :=
  match l1, l2 with
  | [], [] => true
  | (k1, v1) :: t1, (k2, v2) :: t2 => String.eqb k1 k2 && hval_eqb v1 v2 && hitems_eqb t1 t2
  | _, _ => false
  end.

Fixpoint hlist_eqb (l1 l2 : list hval) : bool :=
  match l1, l2 with
  | [], [] => true
  | x :: t1, y :: t2 => hval_eqb x y && hlist_eqb t1 t2
  | _, _ => false
  end.

Definition hobj_eqb (a b : hobj) : bool :=
  match a, b with
  | ODict x, ODict y => hitems_eqb x y
  | OList x, OList y => hlist_eqb x y
  | OInst c x, OInst d y => Z.eqb c d && hitems_eqb x y
  | _, _ => false
  end.

Fixpoint prefix_eqb (h h' : heap) : bool :=
  match h, h' with
  | [], _ => true
  | x :: t, y :: t' => hobj_eqb x y && prefix_eqb t t'
  | _ :: _, [] => false
  end.
