(* C08 - model of pydrobert/speech/alias.py and of the constructors that route
   nested components through alias_factory_subclass_from_arg.

   Definitions only.  Everything is total and computable (vm_compute evaluates
   it for the correspondence check).

   1. [run]            AliasedFactory.from_alias (alias.py), statement by
                       statement (stack, seen, match, comparison of
                       _registration_index), over an ARBITRARY class graph given
                       by [nid] = identity of the class object, [nreg] =
                       cls._registration_index (set by __init_subclass__),
                       [nsubs] = cls.__subclasses__() and [nal] = cls.aliases.
                       [run_old]: the loop before the repair (documentation only).
   2. [ctree]          class trees (single inheritance, identity = registration
                       index): the instance used by the registry; [graph] :
                       association-list graphs (multiple inheritance).
   3. [val]            JSON-expressible values + instances.
   4. [from_arg]       alias_factory_subclass_from_arg (alias.py:90-100) and
                       [construct_with], the part of every registered __init__
                       that is relevant here: abstract-class rejection, keyword
                       binding, nested alias resolution in source order.
   5. [cfg]            nested configuration trees, their JSON rendering and their
                       explicit (bottom-up) construction. *)
From Coq Require Import String.
From Coq Require Import ZArith List Bool Lia.
Import ListNotations.
Local Open Scope string_scope.

(* ------------------------------------------------------------------ *)
(** * 1. The loop of [AliasedFactory.from_alias] *)

Definition mem_id (c : Z) (l : list Z) : bool := existsb (Z.eqb c) l.
Definition mem_str (a : string) (l : list string) : bool := existsb (String.eqb a) l.

(* The source this section models (alias.py, class AliasedFactory; pinned by
   gen/registry.py, which refuses any other text):

       _num_registered: int = 0
       _registration_index: int = 0

       def __init_subclass__(cls, ** kwargs):
           super().__init_subclass__( ** kwargs)
           AliasedFactory._num_registered += 1
           cls._registration_index = AliasedFactory._num_registered

       def from_alias(cls, alias, *args, ** kwargs):
           match = None
           stack = [cls]
           seen = set()
           while stack:
               subclass = stack.pop()
               if subclass in seen:
                   continue
               seen.add(subclass)
               stack.extend(subclass.__subclasses__())
               if alias in subclass.aliases and (
                   match is None
                   or subclass._registration_index > match._registration_index
               ):
                   match = subclass
           if match is None:
               raise ValueError(...)
           return match( *args, ** kwargs)

   __init_subclass__ gives every class created below AliasedFactory (class
   statement or type(), single or multiple inheritance) the next value of one
   global counter: [nreg] is injective on distinct classes and a class is
   registered after each of its bases. *)
Section Machine.
  Variable N : Type.                   (* class objects *)
  Variable nid : N -> Z.               (* identity of a class object (what `in seen` compares) *)
  Variable nreg : N -> Z.              (* cls._registration_index *)
  Variable nsubs : N -> list N.        (* cls.__subclasses__(), registration order *)
  Variable nal : N -> list string.     (* cls.aliases (the attribute, i.e. after inheritance) *)

  Definition has_alias (a : string) (n : N) : bool := mem_str a (nal n).

  Inductive outcome := Found (n : N) | NotFound | NoFuel.

  (* match is None or subclass._registration_index > match._registration_index *)
  Definition beats (subclass : N) (mtch : option N) : bool :=
    match mtch with
    | None => true
    | Some m => Z.ltb (nreg m) (nreg subclass)
    end.

  (* One iteration of `while stack:` per unit of fuel (the statements after the
     loop take the last unit).  The Python list `stack` is represented with its
     END (the side `pop()` takes from) as the HEAD, so
       stack.extend(subclass.__subclasses__())
     puts [rev (nsubs subclass)] in front.  `seen` is a set of class objects,
     represented by the list of their identities; `match` is [mtch]. *)
  Fixpoint run (fuel : nat) (stack : list N) (seen : list Z) (mtch : option N)
           (a : string) : outcome :=
    match fuel with
    | O => NoFuel
    | S f =>
      match stack with
      | [] =>                                                 (* loop ends *)
        match mtch with
        | None => NotFound                                    (* if match is None: raise ValueError *)
        | Some m => Found m                                   (* return match(...) *)
        end
      | subclass :: rest =>                                   (* subclass = stack.pop() *)
        if mem_id (nid subclass) seen                         (* if subclass in seen: *)
        then run f rest seen mtch a                           (*     continue *)
        else
          run f
              (rev (nsubs subclass) ++ rest)                  (* stack.extend(subclass.__subclasses__()) *)
              (nid subclass :: seen)                          (* seen.add(subclass) *)
              (if has_alias a subclass && beats subclass mtch (* if alias in subclass.aliases and (...) *)
               then Some subclass                             (*     match = subclass *)
               else mtch)
              a
      end
    end.

  Definition from_alias_run (fuel : nat) (root : N) (a : string) : outcome :=
    run fuel [root] [] None a.

  (* reachability through __subclasses__ *)
  Inductive Reach (root : N) : N -> Prop :=
  | Reach_refl : Reach root root
  | Reach_step : forall c d, Reach root c -> In d (nsubs c) -> Reach root d.

  (* fuel that suffices on a finite universe U of classes *)
  Definition weight (n : N) : nat := 1 + List.length (nsubs n).
  Definition fuel_bound (U : list N) : nat := 2 + list_sum (map weight U).

  (* ---- THE LOOP BEFORE THE REPAIR (kept only to document the repaired defect:
          theorem last_registered_wins_old_loop_refuted; nothing else uses it) ----
       stack = [cls]; pushed_children = set()
       while stack:
           parent = stack.pop()
           if parent not in pushed_children:
               children = parent.__subclasses__()
               stack.append(parent); stack.extend(children); pushed_children.add(parent)
           elif alias in parent.aliases:
               return parent(...)
       raise ValueError(...) *)
  Fixpoint run_old (fuel : nat) (stack : list N) (pushed : list Z) (a : string) : outcome :=
    match fuel with
    | O => NoFuel
    | S f =>
      match stack with
      | [] => NotFound
      | parent :: rest =>
        if negb (mem_id (nid parent) pushed)
        then run_old f (rev (nsubs parent) ++ parent :: rest) (nid parent :: pushed) a
        else if has_alias a parent then Found parent else run_old f rest pushed a
      end
    end.
End Machine.

Arguments Found {N} n.
Arguments NotFound {N}.
Arguments NoFuel {N}.

(* ------------------------------------------------------------------ *)
(** * 2a. Class trees *)

Inductive ctree := Node (cid : Z) (cal : list string) (csubs : list ctree).

Definition t_id (t : ctree) : Z := let 'Node c _ _ := t in c.
Definition t_al (t : ctree) : list string := let 'Node _ al _ := t in al.
Definition t_subs (t : ctree) : list ctree := let 'Node _ _ ch := t in ch.

Fixpoint tsize (t : ctree) : nat :=
  match t with Node _ _ ch => S (list_sum (map tsize ch)) end.

(* The classes of a tree as a list (subclasses before their base class, later
   registered siblings with their whole subtree before earlier ones). *)
Fixpoint visit_order (t : ctree) : list ctree :=
  match t with Node _ _ ch => concat (rev (map visit_order ch)) ++ [t] end.

Definition ids (t : ctree) : list Z := map t_id (visit_order t).

(* the loop on a tree: the identity of a class is its registration index
   (the translator and the harness number classes in registration order) *)
Definition tree_run := run ctree t_id t_id t_subs t_al.
Definition tree_fuel (t : ctree) : nat := fuel_bound ctree t_subs (visit_order t).

Definition tree_from_alias (t : ctree) (a : string) : option Z :=
  match tree_run (tree_fuel t) [t] [] None a with
  | Found n => Some (t_id n)
  | _ => None
  end.

(* the loop before the repair, on a tree (documentation of the repaired defect only) *)
Definition tree_from_alias_old (t : ctree) (a : string) : option Z :=
  match run_old ctree t_id t_subs t_al (2 * tsize t + 1) [t] [] a with
  | Found n => Some (t_id n)
  | _ => None
  end.

(* the subtree rooted at class [c] (first in visit order; identities are unique
   in a well-formed registry) *)
Definition subtree (t : ctree) (c : Z) : option ctree :=
  find (fun n => Z.eqb (t_id n) c) (visit_order t).

Definition is_subclass (t : ctree) (c fam : Z) : bool :=
  match subtree t fam with
  | Some ft => mem_id c (ids ft)
  | None => false
  end.

(* a family is "flat" when every concrete class is a direct subclass of the root *)
Definition is_leaf (t : ctree) : bool := match t_subs t with [] => true | _ => false end.
Definition flat (t : ctree) : bool := forallb is_leaf (t_subs t).

(* ------------------------------------------------------------------ *)
(** * 2b. Class graphs (multiple inheritance allowed) as association lists *)

Definition graph := list (Z * (list string * list Z)).

Definition g_entry (g : graph) (c : Z) : list string * list Z :=
  match find (fun e => Z.eqb (fst e) c) g with
  | Some e => snd e
  | None => ([], [])
  end.
Definition g_al (g : graph) (c : Z) : list string := fst (g_entry g c).
Definition g_subs (g : graph) (c : Z) : list Z := snd (g_entry g c).
(* a class is named by its registration index *)
Definition graph_run (g : graph) := run Z (fun c => c) (fun c => c) (g_subs g) (g_al g).
Definition graph_fuel (g : graph) : nat := fuel_bound Z (g_subs g) (map fst g).

Definition graph_from_alias (g : graph) (root : Z) (a : string) : option Z :=
  match graph_run g (graph_fuel g) [root] [] None a with
  | Found n => Some n
  | _ => None
  end.

(* the graph of a tree *)
Fixpoint graph_of_tree (t : ctree) : graph :=
  match t with
  | Node c al ch => (c, (al, map t_id ch)) :: concat (map graph_of_tree ch)
  end.

(* ------------------------------------------------------------------ *)
(** * 3. Values *)

Inductive val :=
| VNone
| VBool (b : bool)
| VNum (repr : string)                       (* numbers are opaque payload *)
| VStr (s : string)
| VList (l : list val)
| VDict (kv : list (string * val))           (* insertion-ordered, keys unique *)
| VInst (c : Z) (fields : list (string * val)).   (* an object: class + bound arguments *)

Inductive exn := ValueError | KeyError | TypeError | Unmodelled.

Inductive res (A : Type) := Ok (a : A) | Err (e : exn) | Diverge.
Arguments Ok {A} a.
Arguments Err {A} e.
Arguments Diverge {A}.

Definition bind {A B} (r : res A) (f : A -> res B) : res B :=
  match r with Ok a => f a | Err e => Err e | Diverge => Diverge end.

(* dict.pop(key) on an association list: the value and the remaining items *)
Fixpoint pop (k : string) (kv : list (string * val)) : option (val * list (string * val)) :=
  match kv with
  | [] => None
  | (k', v) :: tl =>
    if String.eqb k k' then Some (v, tl)
    else match pop k tl with
         | Some (v', tl') => Some (v', (k', v) :: tl')
         | None => None
         end
  end.

Definition keys (kv : list (string * val)) : list string := map fst kv.

Fixpoint lookup (k : string) (kv : list (string * val)) : option val :=
  match kv with
  | [] => None
  | (k', v) :: tl => if String.eqb k k' then Some v else lookup k tl
  end.

(* ------------------------------------------------------------------ *)
(** * 4. Registry, constructors, alias_factory_subclass_from_arg *)

(* a parameter of __init__ that is passed through alias_factory_subclass_from_arg:
   its name, the family named in the call, and whether the call is guarded by
   `if <param> is None: <default> else: <call>` *)
Record nested := { n_param : string; n_family : Z; n_guarded : bool }.

Record cinfo := {
  ci_id : Z;
  ci_abstract : bool;             (* has unimplemented abstract methods *)
  ci_params : list (string * bool);   (* keyword-bindable parameters, required? *)
  ci_varkw : bool;                (* __init__ takes **kwargs *)
  ci_nested : list nested         (* in the order the calls occur in the body *)
}.

Record registry := { r_tree : ctree; r_info : list cinfo }.

Definition info (r : registry) (c : Z) : option cinfo :=
  find (fun i => Z.eqb (ci_id i) c) (r_info r).

(* keyword binding as done by the interpreter: unknown keyword / missing
   required parameter -> TypeError *)
Definition bind_ok (i : cinfo) (kwargs : list (string * val)) : bool :=
  forallb (fun k => mem_str k (map fst (ci_params i)) || ci_varkw i) (keys kwargs)
  && forallb (fun p => negb (snd p) || mem_str (fst p) (keys kwargs)) (ci_params i).

(* d[k] = v for a key that is present (keys are unique) *)
Definition set_key (k : string) (v : val) (kv : list (string * val)) : list (string * val) :=
  map (fun p => if String.eqb k (fst p) then (fst p, v) else p) kv.

Definition is_none (v : val) : bool := match v with VNone => true | _ => false end.

Section Build.
  Variable r : registry.

  (* the nested alias resolutions of one __init__, in source order; [rec] is
     alias_factory_subclass_from_arg.  A parameter that was not passed has its
     default, None (the translator insists on that). *)
  Fixpoint resolve_nested (rec : Z -> val -> res val) (ns : list nested)
           (fields : list (string * val)) : res (list (string * val)) :=
    match ns with
    | [] => Ok fields
    | n :: tl =>
      match lookup (n_param n) fields with
      | Some v =>
        if n_guarded n && is_none v then resolve_nested rec tl fields
        else bind (rec (n_family n) v)
                  (fun o => resolve_nested rec tl (set_key (n_param n) o fields))
      | None =>
        if n_guarded n then resolve_nested rec tl fields
        else bind (rec (n_family n) VNone) (fun _ => resolve_nested rec tl fields)
      end
    end.

  (* cls( **kwargs ) *)
  Definition construct_with (rec : Z -> val -> res val) (c : Z)
             (kwargs : list (string * val)) : res val :=
    match info r c with
    | None => Err TypeError
    | Some i =>
      if ci_abstract i then Err TypeError
      else if negb (bind_ok i kwargs) then Err TypeError
      else bind (resolve_nested rec (ci_nested i) kwargs) (fun fs => Ok (VInst c fs))
    end.

  (* factory_class.from_alias(alias, ** kwargs) *)
  Definition from_alias_with (rec : Z -> val -> res val) (fam : Z) (alias : val)
             (kwargs : list (string * val)) : res val :=
    if mem_str "cls" (keys kwargs)
    then Err TypeError       (* from_alias(cls, alias, ...): multiple values for argument 'cls' *)
    else
    match subtree (r_tree r) fam with
    | None => Err TypeError
    | Some ft =>
      match alias with
      | VStr s =>
        match tree_from_alias ft s with
        | Some c => construct_with rec c kwargs
        | None => Err ValueError
        end
      | VList _ | VDict _ => Err TypeError          (* unhashable in `alias in parent.aliases` *)
      | VNone | VBool _ | VNum _ | VInst _ _ => Err ValueError   (* hashable, never an alias *)
      end
    end.

  (* dict(arg) for a JSON list: an update sequence of [key, value] pairs,
     processed left to right; a repeated key keeps its first position and takes
     the later value.  Elements that are 2-sequences but not [string, value]
     (non-string keys, 2-character strings, 2-key objects) give dictionaries
     this model cannot represent: [Unmodelled] (no claim is made). *)
  Fixpoint dict_update (acc : list (string * val)) (l : list val)
    : res (list (string * val)) :=
    match l with
    | [] => Ok acc
    | VList [VStr k; v] :: tl =>
      dict_update (if mem_str k (keys acc) then set_key k v acc else acc ++ [(k, v)]) tl
    | VList [_; _] :: _ => Err Unmodelled
    | VList _ :: _ => Err ValueError            (* element has length <> 2 *)
    | VStr s :: _ => if Nat.eqb (String.length s) 2 then Err Unmodelled else Err ValueError
    | VDict kv :: _ => if Nat.eqb (List.length kv) 2 then Err Unmodelled else Err ValueError
    | _ :: _ => Err TypeError                   (* element is not a sequence *)
    end.

  (* the mapping branch, on the private copy `arg = dict(arg)`:
       try: alias = arg.pop("alias")  except KeyError: alias = arg.pop("name")
       return factory_class.from_alias(alias, ** arg) *)
  Definition from_mapping (rec : Z -> val -> res val) (fam : Z)
             (kv : list (string * val)) : res val :=
    match pop "alias" kv with
    | Some (a, rest) => from_alias_with rec fam a rest
    | None =>
      match pop "name" kv with
      | Some (a, rest) => from_alias_with rec fam a rest
      | None => Err KeyError
      end
    end.

  (* alias_factory_subclass_from_arg(factory_class, arg) *)
  Fixpoint from_arg (fuel : nat) (fam : Z) (arg : val) : res val :=
    match fuel with
    | O => Diverge
    | S f =>
      match arg with
      | VInst c _ =>
        if is_subclass (r_tree r) c fam then Ok arg      (* isinstance(arg, factory_class) *)
        else Err TypeError                               (* dict(arg): not iterable *)
      | VStr s => from_alias_with (from_arg f) fam (VStr s) []
      | VDict kv => from_mapping (from_arg f) fam kv     (* arg = dict(arg) *)
      | VList l => bind (dict_update [] l) (from_mapping (from_arg f) fam)
      | VNone | VBool _ | VNum _ => Err TypeError        (* dict(arg): not iterable *)
      end
    end.

  Definition construct (fuel : nat) := construct_with (from_arg fuel).
  Definition from_alias (fuel : nat) := from_alias_with (from_arg fuel).
End Build.

(* what the caller's mapping looks like after the call: the function works on
   `dict(arg)`, a copy, so the caller's object is what it was (see HeapModel.v for the
   model with shared, mutable objects in which this is a theorem) *)

(* ------------------------------------------------------------------ *)
(** * 5. Nested configurations *)

Inductive style := SString | SAlias (pos : nat) | SName (pos : nat).

Inductive cfg := Cfg (c : Z) (alias : string) (st : style) (kw : list (string * carg))
with carg := Plain (v : val) | Nested (g : cfg).

Fixpoint insert_at {A} (n : nat) (x : A) (l : list A) : list A :=
  match n, l with
  | O, _ => x :: l
  | S n', [] => [x]
  | S n', y :: tl => y :: insert_at n' x tl
  end.

(* the JSON document a user would write *)
Fixpoint to_json (g : cfg) : val :=
  match g with
  | Cfg c a st kw =>
    let items := map (fun p => (fst p, match snd p with
                                       | Plain v => v
                                       | Nested g' => to_json g'
                                       end)) kw in
    match st with
    | SString => match items with [] => VStr a | _ => VDict (("name", VStr a) :: items) end
    | SAlias n => VDict (insert_at n ("alias", VStr a) items)
    | SName n => VDict (insert_at n ("name", VStr a) items)
    end
  end.

Fixpoint cfg_depth (g : cfg) : nat :=
  match g with
  | Cfg _ _ _ kw =>
    S (list_max (map (fun p => match snd p with Plain _ => O | Nested g' => cfg_depth g' end) kw))
  end.

(* explicit construction: inner objects first, then the class itself, by name *)
Section Explicit.
  Variable r : registry.
  Fixpoint explicit_args (ex : cfg -> res val) (kw : list (string * carg))
    : res (list (string * val)) :=
    match kw with
    | [] => Ok []
    | (k, Plain v) :: tl => bind (explicit_args ex tl) (fun l => Ok ((k, v) :: l))
    | (k, Nested g) :: tl =>
      bind (ex g) (fun o => bind (explicit_args ex tl) (fun l => Ok ((k, o) :: l)))
    end.

  Fixpoint explicit (fuel : nat) (g : cfg) : res val :=
    match fuel with
    | O => Diverge
    | S f =>
      match g with
      | Cfg c _ _ kw =>
        bind (explicit_args (explicit f) kw) (fun args => construct r f c args)
      end
    end.
End Explicit.

(* ------------------------------------------------------------------ *)
(** * 6. Registration order *)

(* classes in the order parent, then each child's subtree, children in
   registration order *)
Fixpoint preorder (t : ctree) : list ctree :=
  match t with Node _ _ ch => t :: concat (map preorder ch) end.

Fixpoint increasing (l : list Z) : bool :=
  match l with
  | x :: ((y :: _) as tl) => Z.ltb x y && increasing tl
  | _ => true
  end.

(* Identities are registration ranks (the translator numbers class statements
   in execution order).  A tree is "registered depth first" when every class was
   registered after its base and after the whole subtree of every earlier
   sibling - e.g. each family completely defined in one module.  Informative
   only: since the repair of from_alias no theorem needs this condition. *)
Definition registered_depth_first (t : ctree) : bool :=
  increasing (map t_id (preorder t)).

(* every node is registered after its base class, siblings in order: what any
   class tree built by Python satisfies *)
Fixpoint registration_consistent (t : ctree) : bool :=
  match t with
  | Node c _ ch =>
    forallb (fun x => Z.ltb c (t_id x)) ch && increasing (map t_id ch)
    && forallb registration_consistent ch
  end.
