(* C08 - lemmas about alias_factory_subclass_from_arg and the constructors. *)
From Coq Require Import String.
From Coq Require Import ZArith List Bool Lia.
From Verif Require Import C08.Model C08.ProofsMachine C08.ProofsTree.
Import ListNotations.
Local Open Scope string_scope.

(* ------------------------------------------------------------------ *)
(** * What from_alias instantiates lies in the family ([tree_from_alias_in]: ProofsTree.v) *)

Lemma tree_from_alias_is_subclass r fam ft a c :
  subtree (r_tree r) fam = Some ft -> tree_from_alias ft a = Some c ->
  is_subclass (r_tree r) c fam = true.
Proof.
  intros Hs Hc. unfold is_subclass. rewrite Hs.
  destruct (tree_from_alias_in _ _ _ Hc) as [n [Hn [Hid _]]].
  apply mem_id_true. unfold ids. rewrite <- Hid. now apply in_map.
Qed.

(* ------------------------------------------------------------------ *)
(** * dict.pop on association lists *)

Lemma pop_none k kv : pop k kv = None <-> ~ In k (keys kv).
Proof.
  induction kv as [|[k' v] tl IH]; simpl; [tauto|].
  destruct (String.eqb_spec k k') as [E|E].
  - split; [discriminate|]. intros H. exfalso. apply H. left. now symmetry.
  - destruct (pop k tl) as [[v' tl']|].
    + split; [discriminate|]. intros H. exfalso.
      assert (Hn : ~ In k (keys tl)) by (intro; apply H; now right).
      apply IH in Hn. discriminate.
    + split; [|reflexivity]. intros _ [H|H]; [congruence|]. now apply (proj1 IH).
Qed.

Lemma pop_some_lookup k kv v rest :
  pop k kv = Some (v, rest) -> lookup k kv = Some v.
Proof.
  revert v rest. induction kv as [|[k' v'] tl IH]; simpl; intros v rest H; [discriminate|].
  destruct (String.eqb k k'); [now inversion H|].
  destruct (pop k tl) as [[v2 tl2]|]; [|discriminate]. inversion H; subst. eapply IH. reflexivity.
Qed.

(* the other items are untouched: in particular 'name' stays a keyword argument
   when 'alias' is present *)
Lemma pop_other k k' kv v rest :
  pop k kv = Some (v, rest) -> k <> k' -> lookup k' rest = lookup k' kv.
Proof.
  revert v rest. induction kv as [|[k2 v2] tl IH]; simpl; intros v rest H Hne; [discriminate|].
  destruct (String.eqb_spec k k2) as [E|E].
  - inversion H; subst. destruct (String.eqb_spec k' k2); [congruence|reflexivity].
  - destruct (pop k tl) as [[v3 tl3]|]; [|discriminate]. inversion H; subst. simpl.
    destruct (String.eqb k' k2); [reflexivity|]. eapply IH; eauto.
Qed.

Lemma pop_keys k kv v rest :
  pop k kv = Some (v, rest) -> forall x, In x (keys rest) -> In x (keys kv).
Proof.
  revert v rest. induction kv as [|[k2 v2] tl IH]; simpl; intros v rest H x Hx; [discriminate|].
  destruct (String.eqb k k2).
  - inversion H; subst. now right.
  - destruct (pop k tl) as [[v3 tl3]|]; [|discriminate]. inversion H; subst. simpl in Hx.
    destruct Hx as [Hx|Hx]; [now left|right]. eapply IH; eauto.
Qed.

Lemma pop_insert_at k v : forall n l,
    ~ In k (keys l) -> pop k (insert_at n (k, v) l) = Some (v, l).
Proof.
  induction n as [|n IH]; intros l Hl.
  - destruct l; simpl; now rewrite String.eqb_refl.
  - destruct l as [|[k' v'] tl]; simpl.
    + now rewrite String.eqb_refl.
    + destruct (String.eqb_spec k k') as [E|E]; [exfalso; apply Hl; left; now symmetry|].
      rewrite IH; [reflexivity|]. intro; apply Hl; now right.
Qed.

Lemma pop_insert_at_other k k' v : forall n l,
    k <> k' -> ~ In k (keys l) -> pop k (insert_at n (k', v) l) = None.
Proof.
  intros n l Hne Hl. apply pop_none. revert l Hl.
  induction n as [|n IH]; intros l Hl.
  - destruct l; simpl; intros [H|H]; try congruence; try contradiction;
      apply Hl; simpl; tauto.
  - destruct l as [|[k2 v2] tl]; simpl.
    + intros [H|[]]. congruence.
    + intros [H|H]; [apply Hl; now left|]. apply (IH tl); [|exact H]. intro; apply Hl; now right.
Qed.

(* ------------------------------------------------------------------ *)
(** * alias_factory_subclass_from_arg, clause by clause *)

Section FromArg.
  Variable r : registry.

  (** an instance of the family is returned as it is *)
  Lemma from_arg_instance_l f fam c fs :
    is_subclass (r_tree r) c fam = true ->
    from_arg r (S f) fam (VInst c fs) = Ok (VInst c fs).
  Proof. intros H. simpl. now rewrite H. Qed.

  (** ... and an instance of another family is not accepted *)
  Lemma from_arg_foreign_instance_l f fam c fs :
    is_subclass (r_tree r) c fam = false ->
    from_arg r (S f) fam (VInst c fs) = Err TypeError.
  Proof. intros H. simpl. now rewrite H. Qed.

  (** a string is an alias; the class is built with no arguments at all *)
  Lemma from_arg_string_l f fam ft s c :
    subtree (r_tree r) fam = Some ft -> tree_from_alias ft s = Some c ->
    from_arg r (S f) fam (VStr s) = construct r f c [].
  Proof. intros Hs Hc. simpl. unfold from_alias_with. simpl. now rewrite Hs, Hc. Qed.

  (** a mapping with 'alias': that is the alias; every other item - 'name'
      included - is a keyword argument *)
  Lemma from_arg_alias_key_l f fam kv a rest :
    pop "alias" kv = Some (a, rest) ->
    from_arg r (S f) fam (VDict kv) = from_alias r f fam a rest
    /\ lookup "name" rest = lookup "name" kv.
  Proof.
    intros H. split.
    - simpl. unfold from_mapping. now rewrite H.
    - eapply pop_other; eauto. discriminate.
  Qed.

  (** a mapping without 'alias' but with 'name' *)
  Lemma from_arg_name_key_l f fam kv a rest :
    ~ In "alias" (keys kv) -> pop "name" kv = Some (a, rest) ->
    from_arg r (S f) fam (VDict kv) = from_alias r f fam a rest.
  Proof.
    intros Hn H. simpl. unfold from_mapping. apply pop_none in Hn. now rewrite Hn, H.
  Qed.

  (** neither key: KeyError *)
  Lemma from_arg_no_key_l f fam kv :
    ~ In "alias" (keys kv) -> ~ In "name" (keys kv) ->
    from_arg r (S f) fam (VDict kv) = Err KeyError.
  Proof.
    intros H1 H2. simpl. unfold from_mapping.
    apply pop_none in H1. apply pop_none in H2. now rewrite H1, H2.
  Qed.

  (** an alias no class of the family carries: ValueError, whatever the arguments *)
  Lemma no_cls kw : ~ In "cls" (keys kw) -> mem_str "cls" (keys kw) = false.
  Proof.
    intros H. destruct (mem_str "cls" (keys kw)) eqn:E; [|reflexivity].
    apply mem_str_true in E. contradiction.
  Qed.

  Lemma from_alias_unknown_l f fam ft s kw :
    subtree (r_tree r) fam = Some ft ->
    ~ In "cls" (keys kw) ->
    (forall n, In n (visit_order ft) -> ~ In s (t_al n)) ->
    from_alias r f fam (VStr s) kw = Err ValueError.
  Proof.
    intros Hs Hcls Hno. unfold from_alias, from_alias_with. rewrite (no_cls _ Hcls), Hs.
    destruct (tree_from_alias ft s) as [c|] eqn:E; [|reflexivity].
    destruct (tree_from_alias_in _ _ _ E) as [n [Hn [_ Ha]]]. exfalso. exact (Hno n Hn Ha).
  Qed.

  (** the class that is built is the one the alias search returns, it belongs to
      the family, and it receives exactly the remaining items as keywords *)
  Lemma from_alias_known_l f fam ft s kw c :
    subtree (r_tree r) fam = Some ft -> tree_from_alias ft s = Some c ->
    ~ In "cls" (keys kw) ->
    from_alias r f fam (VStr s) kw = construct r f c kw
    /\ is_subclass (r_tree r) c fam = true.
  Proof.
    intros Hs Hc Hcls. split.
    - unfold from_alias, from_alias_with. now rewrite (no_cls _ Hcls), Hs, Hc.
    - eapply tree_from_alias_is_subclass; eauto.
  Qed.

  (** a keyword named 'cls' collides with from_alias's own first parameter *)
  Lemma from_alias_cls_keyword_l f fam a kw :
    In "cls" (keys kw) -> from_alias r f fam a kw = Err TypeError.
  Proof.
    intros H. unfold from_alias, from_alias_with.
    apply mem_str_true in H. now rewrite H.
  Qed.
End FromArg.
