(* C08 - alias_factory_subclass_from_arg never writes to an object that existed
   before the call: the heap after the call is the heap before it plus newly
   allocated objects (the private copies, the built instances). *)
From Coq Require Import String.
From Coq Require Import ZArith List Bool Lia.
From Verif Require Import C08.Model C08.HeapModel.
Import ListNotations.
Local Open Scope string_scope.
Local Open Scope list_scope.

Definition extends (h h' : heap) : Prop := exists ext, h' = h ++ ext.

Lemma extends_refl h : extends h h.
Proof. exists []. now rewrite app_nil_r. Qed.

Lemma extends_trans h1 h2 h3 : extends h1 h2 -> extends h2 h3 -> extends h1 h3.
Proof. intros [e1 H1] [e2 H2]. exists (e1 ++ e2). subst. now rewrite app_assoc. Qed.

Lemma extends_alloc h o : extends h (fst (alloc h o)).
Proof. exists [o]. reflexivity. Qed.

Lemma hset_last h o o' : hset (h ++ [o]) (List.length h) o' = h ++ [o'].
Proof. induction h as [|x h IH]; simpl; [reflexivity|]. now rewrite IH. Qed.

(* objects present before are still there, unchanged *)
Lemma extends_hget h h' a o : extends h h' -> hget h a = Some o -> hget h' a = Some o.
Proof.
  intros [ext H] Hg. subst. unfold hget in *. rewrite nth_error_app1; [assumption|].
  apply nth_error_Some. congruence.
Qed.

Section Ext.
  Variable r : registry.

  Definition rec_ext (rec : hrec) : Prop :=
    forall fam v h res h', rec fam v h = (res, h') -> extends h h'.

  Lemma hresolve_ext rec : rec_ext rec ->
    forall ns fields h res h', hresolve_nested rec ns fields h = (res, h') -> extends h h'.
  Proof.
    intros Hrec. induction ns as [|n tl IH]; intros fields h res h' H; simpl in H.
    - inversion H. apply extends_refl.
    - destruct (hlookup (n_param n) fields) as [v|].
      + destruct (n_guarded n && h_is_none v); [eapply IH; eauto|].
        destruct (rec (n_family n) v h) as [[o|e|] h1] eqn:E.
        * eapply extends_trans; [eapply Hrec; eauto|eapply IH; eauto].
        * inversion H; subst. eapply Hrec; eauto.
        * inversion H; subst. eapply Hrec; eauto.
      + destruct (n_guarded n); [eapply IH; eauto|].
        destruct (rec (n_family n) HNone h) as [[o|e|] h1] eqn:E.
        * eapply extends_trans; [eapply Hrec; eauto|eapply IH; eauto].
        * inversion H; subst. eapply Hrec; eauto.
        * inversion H; subst. eapply Hrec; eauto.
  Qed.

  Lemma hconstruct_ext rec : rec_ext rec ->
    forall c kw h res h', hconstruct_with r rec c kw h = (res, h') -> extends h h'.
  Proof.
    intros Hrec c kw h res h' H. unfold hconstruct_with in H.
    destruct (info r c) as [i|]; [|inversion H; apply extends_refl].
    destruct (ci_abstract i); [inversion H; apply extends_refl|].
    destruct (negb (hbind_ok i kw)); [inversion H; apply extends_refl|].
    destruct (hresolve_nested rec (ci_nested i) kw h) as [[fs|e|] h1] eqn:E.
    - simpl in H. inversion H; subst. eapply extends_trans; [eapply hresolve_ext; eauto|].
      exists [OInst c fs]. reflexivity.
    - inversion H; subst. eapply hresolve_ext; eauto.
    - inversion H; subst. eapply hresolve_ext; eauto.
  Qed.

  Lemma hfrom_alias_ext rec : rec_ext rec ->
    forall fam al kw h res h', hfrom_alias_with r rec fam al kw h = (res, h') -> extends h h'.
  Proof.
    intros Hrec fam al kw h res h' H. unfold hfrom_alias_with in H.
    destruct (mem_str "cls" (hkeys kw)); [inversion H; apply extends_refl|].
    destruct (subtree (r_tree r) fam) as [ft|]; [|inversion H; apply extends_refl].
    destruct al; try (inversion H; apply extends_refl).
    - destruct (tree_from_alias ft s) as [c|]; [|inversion H; apply extends_refl].
      eapply hconstruct_ext; eauto.
    - destruct (hget h a) as [[?|?|? ?]|]; inversion H; apply extends_refl.
  Qed.

  (* the destructive pops hit the private copy, the last object allocated *)
  Lemma hfrom_mapping_ext rec : rec_ext rec ->
    forall fam h0 o res h', hfrom_mapping r rec fam (List.length h0) (h0 ++ [o]) = (res, h') -> extends h0 h'.
  Proof.
    intros Hrec fam h0 o res h' H. unfold hfrom_mapping in H.
    assert (Hbase : extends h0 (h0 ++ [o])) by (exists [o]; reflexivity).
    destruct (hget (h0 ++ [o]) (List.length h0)) as [[kv|?|? ?]|];
      try (inversion H; subst; exact Hbase).
    destruct (hpop "alias" kv) as [[al rest]|].
    - rewrite hset_last in H. eapply extends_trans; [|eapply hfrom_alias_ext; eauto].
      exists [ODict rest]. reflexivity.
    - destruct (hpop "name" kv) as [[al rest]|]; [|inversion H; subst; exact Hbase].
      rewrite hset_last in H. eapply extends_trans; [|eapply hfrom_alias_ext; eauto].
      exists [ODict rest]. reflexivity.
  Qed.

  Lemma hfrom_arg_ext : forall f, rec_ext (hfrom_arg r f).
  Proof.
    induction f as [|f IH]; intros fam v h res h' H; simpl in H.
    - inversion H. apply extends_refl.
    - destruct v; try (inversion H; apply extends_refl).
      + eapply hfrom_alias_ext; eauto.
      + destruct (hget h a) as [[kv|l|c fs]|]; try (inversion H; apply extends_refl).
        * unfold alloc in H. eapply hfrom_mapping_ext; eauto.
        * destruct (hdict_update h [] l) as [kv|e|]; try (inversion H; apply extends_refl).
          unfold alloc in H. eapply hfrom_mapping_ext; eauto.
        * destruct (is_subclass (r_tree r) c fam); inversion H; apply extends_refl.
  Qed.

  (** The theorem.  Whatever the heap looks like - mappings nested in mappings,
      the same mapping reachable twice, instances holding references to the
      argument - after alias_factory_subclass_from_arg(family, arg) every object
      that existed before the call is exactly what it was. *)
  Theorem from_arg_preserves_heap_l : forall f fam arg h res h',
      hfrom_arg r f fam arg h = (res, h') ->
      exists ext, h' = h ++ ext.
  Proof. intros. eapply hfrom_arg_ext; eauto. Qed.

  Corollary from_arg_preserves_objects_l : forall f fam arg h res h' a o,
      hfrom_arg r f fam arg h = (res, h') -> hget h a = Some o -> hget h' a = Some o.
  Proof. intros. eapply extends_hget; [eapply hfrom_arg_ext|]; eauto. Qed.

  (** an instance is returned as the very same reference (identity, not a copy) *)
  Lemma from_arg_instance_same_ref_l : forall f fam a h c fs,
      hget h a = Some (OInst c fs) -> is_subclass (r_tree r) c fam = true ->
      hfrom_arg r (S f) fam (HRef a) h = (Ok (HRef a), h).
  Proof. intros f fam a h c fs Hg Hs. simpl. now rewrite Hg, Hs. Qed.
End Ext.

(* a situation the theorem covers that no value-level model can express: the
   same scale mapping shared by two bank mappings *)
Example shared_mapping_example :
  let h := [ODict [("name", HStr "mel")];
            ODict [("alias", HStr "tri"); ("scaling_function", HRef 0)]] in
  hget h 1 = Some (ODict [("alias", HStr "tri"); ("scaling_function", HRef 0)]).
Proof. reflexivity. Qed.
