(* C08 - lemmas about the loop of AliasedFactory.from_alias (Model.run).

   Part A: any class graph (multiple inheritance, even cycles): the loop
           terminates within [fuel_bound]; what it returns is a reachable class
           carrying the alias whose registration index is the greatest among
           the reachable carriers; it raises exactly when no reachable class
           carries the alias; with injective registration indices this
           determines the answer ([run_spec]).
   Part B: class trees as an instance: reachability = membership in
           [visit_order], distinct identities = injectivity. *)
From Coq Require Import String.
From Coq Require Import ZArith List Bool Lia.
From Verif Require Import C08.Model.
Import ListNotations.

(* ------------------------------------------------------------------ *)
(** * Generic list facts *)

Lemma find_app {A} (p : A -> bool) (l1 l2 : list A) :
  find p (l1 ++ l2) = match find p l1 with Some x => Some x | None => find p l2 end.
Proof. induction l1 as [|x l1 IH]; simpl; [reflexivity|]. destruct (p x); auto. Qed.

Lemma find_none_iff {A} (p : A -> bool) (l : list A) :
  find p l = None <-> forall x, In x l -> p x = false.
Proof.
  split.
  - intros H x Hx. eapply find_none; eauto.
  - induction l as [|y l IH]; simpl; intros H; [reflexivity|].
    rewrite (H y (or_introl eq_refl)). apply IH. intros; apply H; now right.
Qed.

Lemma mem_id_true c l : mem_id c l = true <-> In c l.
Proof.
  unfold mem_id. rewrite existsb_exists. split.
  - intros [x [Hx E]]. apply Z.eqb_eq in E. now subst.
  - intros H. exists c. split; [assumption|apply Z.eqb_refl].
Qed.

Lemma mem_id_false c l : mem_id c l = false <-> ~ In c l.
Proof.
  rewrite <- mem_id_true. destruct (mem_id c l); split; congruence.
Qed.

Lemma mem_str_true a l : mem_str a l = true <-> In a l.
Proof.
  unfold mem_str. rewrite existsb_exists. split.
  - intros [x [Hx E]]. apply String.eqb_eq in E. now subst.
  - intros H. exists a. split; [assumption|apply String.eqb_refl].
Qed.

Lemma NoDup_app_inv {A} (l1 l2 : list A) :
  NoDup (l1 ++ l2) -> NoDup l1 /\ NoDup l2 /\ (forall x, In x l1 -> In x l2 -> False).
Proof.
  induction l1 as [|a l1 IH]; simpl; intros H.
  - repeat split; [constructor|assumption|intros x []].
  - inversion H as [|? ? Hn Hd]; subst. destruct (IH Hd) as [H1 [H2 H3]].
    repeat split; auto.
    + constructor; [|assumption]. intro Hc. apply Hn. apply in_or_app. now left.
    + intros x [Hx|Hx] Hx2; [subst; apply Hn; apply in_or_app; now right|eauto].
Qed.

Lemma list_sum_app l1 l2 : list_sum (l1 ++ l2) = list_sum l1 + list_sum l2.
Proof. induction l1; simpl; lia. Qed.

Lemma list_sum_rev l : list_sum (rev l) = list_sum l.
Proof. induction l; simpl; [reflexivity|]. rewrite list_sum_app. simpl. lia. Qed.

(* ------------------------------------------------------------------ *)
(** * Part A: arbitrary class graphs *)

Lemma mem_id_cons x c P : mem_id x (c :: P) = Z.eqb x c || mem_id x P.
Proof. reflexivity. Qed.

Section Generic.
  Variable N : Type.
  Variable nid : N -> Z.
  Variable nreg : N -> Z.
  Variable nsubs : N -> list N.
  Variable nal : N -> list string.

  Notation run := (run N nid nreg nsubs nal).
  Notation has_alias := (has_alias N nal).
  Notation beats := (beats N nreg).
  Notation Reach := (Reach N nsubs).
  Notation weight := (weight N nsubs).

  Lemma Reach_trans : forall x y z, Reach x y -> Reach y z -> Reach x z.
  Proof.
    intros x y z Hxy Hyz. induction Hyz as [|c d Hc IH Hd]; [assumption|].
    eapply Reach_step; eauto.
  Qed.

  (* more fuel never changes a definite answer *)
  Lemma run_mono : forall f st P m a,
      run f st P m a <> NoFuel -> forall f', f <= f' -> run f' st P m a = run f st P m a.
  Proof.
    induction f as [|f IH]; intros st P m a H f' Hle; [simpl in H; congruence|].
    destruct f' as [|f']; [lia|]. simpl in *.
    destruct st as [|p rest]; [reflexivity|].
    destruct (mem_id (nid p) P); apply IH; solve [assumption|lia].
  Qed.

  (** ** Soundness: what is returned is a reachable class that has the alias *)
  Lemma run_sound_gen : forall root f st P m a n,
      (forall s, In s st -> Reach root s) ->
      (forall x, m = Some x -> Reach root x /\ has_alias a x = true) ->
      run f st P m a = Found n -> Reach root n /\ has_alias a n = true.
  Proof.
    intros root. induction f as [|f IH]; intros st P m a n Hst Hm H; [discriminate|].
    simpl in H. destruct st as [|p rest].
    - destruct m as [x|]; [|discriminate]. inversion H; subst. now apply Hm.
    - destruct (mem_id (nid p) P).
      + eapply IH; [| |exact H]; [intros; apply Hst; now right|exact Hm].
      + eapply IH; [| |exact H].
        * intros s Hs. apply in_app_or in Hs as [Hs|Hs].
          -- apply in_rev in Hs. eapply Reach_step; [apply Hst; now left|exact Hs].
          -- apply Hst. now right.
        * intros x Hx. destruct (has_alias a p && beats p m) eqn:E; [|now apply Hm].
          inversion Hx; subst. apply andb_true_iff in E as [E _].
          split; [apply Hst; now left|exact E].
  Qed.

  Lemma run_sound : forall root f a n,
      run f [root] [] None a = Found n -> Reach root n /\ has_alias a n = true.
  Proof.
    intros root f a n H. eapply run_sound_gen; [| |exact H].
    - intros s [Hs|[]]. subst. constructor.
    - intros x Hx. discriminate.
  Qed.

  (** ** The invariant of the loop *)
  Section Spec.
    Variable root : N.
    Variable a : string.
    (* class identity: distinct reachable class objects have distinct identities *)
    Hypothesis nid_inj : forall x y, Reach root x -> Reach root y -> nid x = nid y -> x = y.

    (* [P] = seen.  Every reachable class whose identity is in [P] has been
       compared with [m]; its subclasses are seen or still on the stack. *)
    Record Inv (st : list N) (P : list Z) (m : option N) : Prop := {
      inv_root : mem_id (nid root) P = true \/ In root st;
      inv_exp : forall c, Reach root c -> mem_id (nid c) P = true ->
                          forall d, In d (nsubs c) -> mem_id (nid d) P = true \/ In d st;
      inv_st : forall s, In s st -> Reach root s;
      inv_none : m = None ->
                 forall c, Reach root c -> mem_id (nid c) P = true -> has_alias a c = false;
      inv_some : forall x, m = Some x ->
                 Reach root x /\ has_alias a x = true /\
                 forall c, Reach root c -> mem_id (nid c) P = true -> has_alias a c = true ->
                           (nreg c <= nreg x)%Z
    }.

    (* the answer: greatest registration index among the reachable carriers *)
    Definition answer (o : outcome N) : Prop :=
      match o with
      | Found x => Reach root x /\ has_alias a x = true /\
                   forall c, Reach root c -> has_alias a c = true -> (nreg c <= nreg x)%Z
      | NotFound => forall c, Reach root c -> has_alias a c = false
      | NoFuel => True
      end.

    Lemma inv_all_seen st P m :
      Inv st P m -> st = [] -> forall n, Reach root n -> mem_id (nid n) P = true.
    Proof.
      intros I E n Hn. subst st. induction Hn as [|c d Hc IHc Hd].
      - destruct (inv_root _ _ _ I) as [H|[]]. exact H.
      - destruct (inv_exp _ _ _ I c Hc IHc d Hd) as [H|[]]. exact H.
    Qed.

    Lemma inv_skip p rest P m :
      Inv (p :: rest) P m -> mem_id (nid p) P = true -> Inv rest P m.
    Proof.
      intros I Ep. constructor.
      - destruct (inv_root _ _ _ I) as [H|[H|H]]; [now left|subst; now left|now right].
      - intros c Hc Hm d Hd.
        destruct (inv_exp _ _ _ I c Hc Hm d Hd) as [H|[H|H]]; [now left|subst; now left|now right].
      - intros s Hs. apply (inv_st _ _ _ I). now right.
      - apply (inv_none _ _ _ I).
      - apply (inv_some _ _ _ I).
    Qed.

    Lemma inv_visit p rest P m :
      Inv (p :: rest) P m -> mem_id (nid p) P = false ->
      Inv (rev (nsubs p) ++ rest) (nid p :: P)
          (if has_alias a p && beats p m then Some p else m).
    Proof.
      intros I Ep.
      assert (Hp : Reach root p) by (apply (inv_st _ _ _ I); now left).
      (* a reachable class whose identity is in the new `seen` is p or was seen before *)
      assert (Hsplit : forall c, Reach root c -> mem_id (nid c) (nid p :: P) = true ->
                                 c = p \/ mem_id (nid c) P = true).
      { intros c Hc Hm. rewrite mem_id_cons in Hm. apply orb_true_iff in Hm as [Hm|Hm].
        - left. apply Z.eqb_eq in Hm. now apply nid_inj.
        - now right. }
      assert (Hup : forall x, mem_id x P = true -> mem_id x (nid p :: P) = true).
      { intros x Hx. rewrite mem_id_cons, Hx. apply orb_true_r. }
      assert (Hself : mem_id (nid p) (nid p :: P) = true).
      { rewrite mem_id_cons, Z.eqb_refl. reflexivity. }
      constructor.
      - destruct (inv_root _ _ _ I) as [H|[H|H]].
        + left. now apply Hup.
        + subst. now left.
        + right. apply in_or_app. now right.
      - intros c Hc Hm d Hd. destruct (Hsplit c Hc Hm) as [E|Hm'].
        + subst c. right. apply in_or_app. left. apply -> in_rev. exact Hd.
        + destruct (inv_exp _ _ _ I c Hc Hm' d Hd) as [H|[H|H]].
          * left. now apply Hup.
          * subst. now left.
          * right. apply in_or_app. now right.
      - intros s Hs. apply in_app_or in Hs as [Hs|Hs].
        + apply in_rev in Hs. eapply Reach_step; [exact Hp|exact Hs].
        + apply (inv_st _ _ _ I). now right.
      - intros Hnone c Hc Hm.
        destruct (has_alias a p && beats p m) eqn:E; [discriminate|].
        subst m. simpl in E. rewrite andb_true_r in E.
        destruct (Hsplit c Hc Hm) as [Ec|Hm']; [now subst|].
        now apply (inv_none _ _ _ I).
      - intros x Hx. destruct (has_alias a p && beats p m) eqn:E.
        + inversion Hx; subst x. apply andb_true_iff in E as [Ea Eb].
          split; [exact Hp|]. split; [exact Ea|].
          intros c Hc Hm Hac. destruct (Hsplit c Hc Hm) as [Ec|Hm']; [subst; lia|].
          destruct m as [y|].
          * simpl in Eb. apply Z.ltb_lt in Eb.
            destruct (inv_some _ _ _ I y eq_refl) as [_ [_ Hmax]].
            specialize (Hmax c Hc Hm' Hac). lia.
          * pose proof (inv_none _ _ _ I eq_refl c Hc Hm') as Hf. congruence.
        + subst m. destruct (inv_some _ _ _ I x eq_refl) as [Hx1 [Hx2 Hmax]].
          split; [exact Hx1|]. split; [exact Hx2|].
          intros c Hc Hm Hac. destruct (Hsplit c Hc Hm) as [Ec|Hm']; [|now apply Hmax].
          subst c. rewrite Hac in E. simpl in E. apply Z.ltb_ge in E. exact E.
    Qed.

    Lemma run_answer_gen : forall f st P m, Inv st P m -> answer (run f st P m a).
    Proof.
      induction f as [|f IH]; intros st P m I; [exact Logic.I|].
      simpl. destruct st as [|p rest].
      - pose proof (inv_all_seen _ _ _ I eq_refl) as Hall.
        destruct m as [x|]; simpl.
        + destruct (inv_some _ _ _ I x eq_refl) as [H1 [H2 H3]].
          split; [exact H1|]. split; [exact H2|]. intros c Hc Hac. apply H3; auto.
        + intros c Hc. apply (inv_none _ _ _ I eq_refl c Hc). now apply Hall.
      - destruct (mem_id (nid p) P) eqn:Ep.
        + apply IH. now apply inv_skip with p.
        + apply IH. now apply inv_visit.
    Qed.

    Lemma inv_init : Inv [root] [] None.
    Proof.
      constructor.
      - right. now left.
      - intros c _ Hm. discriminate.
      - intros s [Hs|[]]. subst. constructor.
      - intros _ c _ Hm. discriminate.
      - intros x Hx. discriminate.
    Qed.

    Lemma run_answer : forall f, answer (run f [root] [] None a).
    Proof. intros f. apply run_answer_gen. apply inv_init. Qed.

    (** the class that is instantiated was registered last among the reachable
        classes carrying the alias - in ANY hierarchy *)
    Lemma run_last_registered : forall f n,
        run f [root] [] None a = Found n ->
        forall c, Reach root c -> has_alias a c = true -> (nreg c <= nreg n)%Z.
    Proof. intros f n H. pose proof (run_answer f) as A. rewrite H in A. apply A. Qed.

    (** ValueError only if no reachable class has the alias *)
    Lemma run_complete : forall f,
        run f [root] [] None a = NotFound -> forall n, Reach root n -> has_alias a n = false.
    Proof. intros f H. pose proof (run_answer f) as A. rewrite H in A. exact A. Qed.
  End Spec.

  (** ** Termination on a finite universe of classes closed under __subclasses__ *)
  Section Terminate.
    Variable U : list N.
    Hypothesis U_closed : forall n, In n U -> forall d, In d (nsubs n) -> In d U.

    Definition unpushed (P : list Z) (l : list N) : nat :=
      list_sum (map (fun n => if mem_id (nid n) P then 0 else weight n) l).

    Lemma unpushed_cons P n l :
      unpushed P (n :: l) = (if mem_id (nid n) P then 0 else weight n) + unpushed P l.
    Proof. reflexivity. Qed.

    Lemma unpushed_mono : forall l P c, unpushed (c :: P) l <= unpushed P l.
    Proof.
      induction l as [|n l IH]; intros P c; [unfold unpushed; simpl; lia|].
      rewrite !unpushed_cons, mem_id_cons. specialize (IH P c).
      destruct (Z.eqb (nid n) c); cbn [orb]; destruct (mem_id (nid n) P); lia.
    Qed.

    Lemma unpushed_push : forall l P s,
        In s l -> mem_id (nid s) P = false ->
        unpushed (nid s :: P) l + weight s <= unpushed P l.
    Proof.
      induction l as [|n l IH]; intros P s Hin Hm; [destruct Hin|].
      rewrite !unpushed_cons, mem_id_cons.
      destruct Hin as [Hin|Hin].
      - subst n. pose proof (unpushed_mono l P (nid s)) as Hmono.
        rewrite Z.eqb_refl, Hm. cbn [orb]. lia.
      - specialize (IH P s Hin Hm).
        destruct (Z.eqb (nid n) (nid s)); cbn [orb]; destruct (mem_id (nid n) P); lia.
    Qed.

    Lemma run_terminates_gen : forall f st P m a,
        (forall s, In s st -> In s U) ->
        length st + unpushed P U < f -> run f st P m a <> NoFuel.
    Proof.
      induction f as [|f IH]; intros st P m a Hst Hf; [lia|].
      simpl. destruct st as [|p rest]; [destruct m; discriminate|].
      destruct (mem_id (nid p) P) eqn:Ep.
      - apply IH.
        + intros; apply Hst; now right.
        + simpl in Hf. lia.
      - apply IH.
        + intros s Hs. apply in_app_or in Hs as [Hs|Hs].
          * apply in_rev in Hs. eapply U_closed; [|exact Hs]. apply Hst. now left.
          * apply Hst. now right.
        + pose proof (unpushed_push U P p (Hst p (or_introl eq_refl)) Ep) as Hp.
          rewrite app_length, rev_length. simpl in *. unfold weight, Model.weight in *. lia.
    Qed.

    Lemma unpushed_nil_le : unpushed [] U = list_sum (map weight U).
    Proof. unfold unpushed. simpl. reflexivity. Qed.

    Lemma run_terminates : forall root a f,
        In root U -> fuel_bound N nsubs U <= f -> run f [root] [] None a <> NoFuel.
    Proof.
      intros root a f Hr Hf. apply run_terminates_gen.
      - intros s [Hs|[]]. now subst.
      - rewrite unpushed_nil_le. unfold fuel_bound in Hf. simpl. lia.
    Qed.

    (** ** The exact answer on a finite class graph *)
    Section Exact.
      Variable root : N.
      Variable a : string.
      Hypothesis root_in : In root U.
      Hypothesis nid_inj : forall x y, Reach root x -> Reach root y -> nid x = nid y -> x = y.
      (* __init_subclass__ hands out distinct registration indices *)
      Hypothesis nreg_inj : forall x y, Reach root x -> Reach root y -> nreg x = nreg y -> x = y.

      (* [c] is a reachable carrier and every other reachable carrier was registered earlier *)
      Definition last_carrier (c : N) : Prop :=
        Reach root c /\ has_alias a c = true /\
        forall m, Reach root m -> has_alias a m = true -> m <> c -> (nreg m < nreg c)%Z.

      Lemma run_spec : forall f, fuel_bound N nsubs U <= f ->
          forall c, run f [root] [] None a = Found c <-> last_carrier c.
      Proof.
        intros f Hf c. pose proof (run_answer root a nid_inj f) as A.
        pose proof (run_terminates root a f root_in Hf) as T. split.
        - intros H. rewrite H in A. destruct A as [A1 [A2 A3]].
          split; [exact A1|]. split; [exact A2|]. intros m Hm Ham Hne.
          specialize (A3 m Hm Ham).
          destruct (Z.eq_dec (nreg m) (nreg c)) as [E|E]; [|lia].
          exfalso. apply Hne. now apply nreg_inj.
        - intros [C1 [C2 C3]].
          destruct (run f [root] [] None a) as [c'| |] eqn:E.
          + destruct A as [A1 [A2 A3]].
            destruct (Z.eq_dec (nreg c') (nreg c)) as [En|En].
            * f_equal. now apply nreg_inj.
            * exfalso. assert (Hne : c' <> c) by (intro; subst; now apply En).
              specialize (C3 c' A1 A2 Hne). specialize (A3 c C1 C2). lia.
          + simpl in A. specialize (A c C1). congruence.
          + congruence.
      Qed.

      Lemma run_not_found_iff : forall f, fuel_bound N nsubs U <= f ->
          (run f [root] [] None a = NotFound <->
           forall n, Reach root n -> has_alias a n = false).
      Proof.
        intros f Hf. split.
        - apply run_complete. exact nid_inj.
        - intros Hno. pose proof (run_terminates root a f root_in Hf) as T.
          destruct (run f [root] [] None a) as [c'| |] eqn:E; [|reflexivity|congruence].
          apply run_sound in E as [E1 E2]. rewrite (Hno c' E1) in E2. discriminate.
      Qed.
    End Exact.
  End Terminate.

  (** ** Consequences *)

  (* of two reachable classes that carry the alias, the one registered earlier never answers *)
  Lemma earlier_carrier_never_answers : forall root a,
      (forall x y, Reach root x -> Reach root y -> nid x = nid y -> x = y) ->
      forall f x y, Reach root y -> has_alias a y = true -> (nreg x < nreg y)%Z ->
                    run f [root] [] None a <> Found x.
  Proof.
    intros root a Hinj f x y Hy Hay Hlt H.
    pose proof (run_last_registered root a Hinj f x H y Hy Hay). lia.
  Qed.

  (* a class is registered after its bases: a proper subclass carrying the alias
     always wins over its base *)
  Lemma reach_registered_later : forall root,
      (forall c d, Reach root c -> In d (nsubs c) -> (nreg c < nreg d)%Z) ->
      forall b, Reach root b -> forall m, Reach b m -> (nreg b <= nreg m)%Z.
  Proof.
    intros root Hafter b Hb m Hm. induction Hm as [|c d Hc IH Hd]; [lia|].
    assert (Reach root c) by (eapply Reach_trans; eauto).
    specialize (Hafter c d H Hd). lia.
  Qed.

  Lemma subclass_shadows_base_gen : forall root a,
      (forall x y, Reach root x -> Reach root y -> nid x = nid y -> x = y) ->
      (forall c d, Reach root c -> In d (nsubs c) -> (nreg c < nreg d)%Z) ->
      forall f n, run f [root] [] None a = Found n ->
      forall base d m, Reach root base -> In d (nsubs base) -> Reach d m ->
                       has_alias a m = true -> n <> base.
  Proof.
    intros root a Hinj Hafter f n H base d m Hb Hd Hm Ham E. subst n.
    assert (Hrd : Reach root d) by (eapply Reach_step; eauto).
    assert (Hrm : Reach root m) by (eapply Reach_trans; eauto).
    pose proof (run_last_registered root a Hinj f base H m Hrm Ham) as Hle.
    pose proof (Hafter base d Hb Hd) as Hlt.
    pose proof (reach_registered_later root Hafter d Hrd m Hm). lia.
  Qed.
End Generic.

(* ------------------------------------------------------------------ *)
(** * Part B: class trees as an instance *)

Section TreeInd.
  Variable P : ctree -> Prop.
  Hypothesis H : forall c al ch, Forall P ch -> P (Node c al ch).
  Fixpoint ctree_ind' (t : ctree) : P t :=
    match t with
    | Node c al ch =>
      H c al ch ((fix go (l : list ctree) : Forall P l :=
                    match l with
                    | [] => Forall_nil P
                    | x :: l' => Forall_cons x (ctree_ind' x) (go l')
                    end) ch)
    end.
End TreeInd.

Notation trun := tree_run.
Notation thas := (has_alias ctree t_al).
Notation TReach := (Reach ctree t_subs).

Definition forest_order (ts : list ctree) : list ctree := concat (map visit_order ts).

Lemma visit_order_node c al ch :
  visit_order (Node c al ch) = forest_order (rev ch) ++ [Node c al ch].
Proof. simpl. unfold forest_order. now rewrite map_rev. Qed.

Lemma forest_order_cons t ts : forest_order (t :: ts) = visit_order t ++ forest_order ts.
Proof. reflexivity. Qed.

Lemma forest_order_app l1 l2 : forest_order (l1 ++ l2) = forest_order l1 ++ forest_order l2.
Proof. unfold forest_order. now rewrite map_app, concat_app. Qed.

Lemma in_forest_order n ts : In n (forest_order ts) <-> exists k, In k ts /\ In n (visit_order k).
Proof.
  unfold forest_order. rewrite in_concat. split.
  - intros [l [Hl Hn]]. apply in_map_iff in Hl as [k [Hk Hin]]. subst. eauto.
  - intros [k [Hk Hn]]. exists (visit_order k). split; [now apply in_map|assumption].
Qed.

Lemma forest_order_in_rev m l : In m (forest_order (rev l)) <-> In m (forest_order l).
Proof.
  rewrite !in_forest_order. split; intros [k [Hk Hm]]; exists k; split; auto;
    [apply in_rev in Hk|apply -> in_rev in Hk]; assumption.
Qed.

Lemma visit_order_self t : In t (visit_order t).
Proof. destruct t as [c al ch]. rewrite visit_order_node. apply in_or_app. right. now left. Qed.

Lemma in_visit_order_node n c al ch :
  In n (visit_order (Node c al ch)) <-> n = Node c al ch \/ In n (forest_order ch).
Proof.
  rewrite visit_order_node, in_app_iff, forest_order_in_rev. simpl. intuition.
Qed.

(* the classes of a tree are closed under __subclasses__ *)
Lemma visit_order_closed : forall t c, In c (visit_order t) ->
    forall d, In d (t_subs c) -> In d (visit_order t).
Proof.
  induction t as [c0 al ch IH] using ctree_ind'. intros c Hc d Hd.
  apply in_visit_order_node in Hc as [Hc|Hc]; apply in_visit_order_node; right.
  - subst c. simpl in Hd. apply in_forest_order. exists d. split; [assumption|apply visit_order_self].
  - apply in_forest_order in Hc as [k [Hk Hc]]. apply in_forest_order. exists k. split; [assumption|].
    rewrite Forall_forall in IH. eapply IH; eauto.
Qed.

(* reachability from the root = membership *)
Lemma treach_in : forall t n, TReach t n -> In n (visit_order t).
Proof.
  intros t n H. induction H as [|c d Hc IH Hd]; [apply visit_order_self|].
  eapply visit_order_closed; eauto.
Qed.

Lemma in_treach : forall t n, In n (visit_order t) -> TReach t n.
Proof.
  induction t as [c0 al ch IH] using ctree_ind'. intros n Hn.
  apply in_visit_order_node in Hn as [Hn|Hn]; [subst; constructor|].
  apply in_forest_order in Hn as [k [Hk Hn]]. rewrite Forall_forall in IH.
  apply Reach_trans with k; [|now apply IH].
  eapply Reach_step; [constructor|exact Hk].
Qed.

Lemma NoDup_map_inj {A B} (f : A -> B) : forall l, NoDup (map f l) ->
    forall x y, In x l -> In y l -> f x = f y -> x = y.
Proof.
  induction l as [|z l IH]; intros Hnd x y Hx Hy E; [destruct Hx|].
  simpl in Hnd. inversion Hnd as [|? ? Hn Hd]; subst.
  destruct Hx as [Hx|Hx]; destruct Hy as [Hy|Hy]; subst; auto.
  - exfalso. apply Hn. rewrite E. now apply in_map.
  - exfalso. apply Hn. rewrite <- E. now apply in_map.
Qed.

(* distinct class objects: identities (= registration indices) are injective *)
Lemma tree_id_inj t : NoDup (ids t) ->
  forall x y, TReach t x -> TReach t y -> t_id x = t_id y -> x = y.
Proof.
  intros Hnd x y Hx Hy E. apply (NoDup_map_inj t_id (visit_order t) Hnd); auto using treach_in.
Qed.

Lemma tree_fuel_ok t a : trun (tree_fuel t) [t] [] None a <> NoFuel.
Proof.
  unfold trun, tree_run, tree_fuel.
  apply run_terminates with (U := visit_order t); [|apply visit_order_self|apply le_n].
  intros n Hn d Hd. eapply visit_order_closed; eauto.
Qed.
