(* C08 - lemmas about the stack machine of AliasedFactory.from_alias.

   Part A: any class graph (multiple inheritance, even cycles): the machine
           terminates within [fuel_bound], what it returns is a reachable class
           carrying the alias, and it raises only if no reachable class does.
   Part B: class trees: the machine computes exactly
           [find (has alias) (visit_order tree)]. *)
From Coq Require Import String.
From Coq Require Import ZArith List Bool Lia.
From Verif Require Import C08.Model.
Import ListNotations.

(* ------------------------------------------------------------------ *)
(** * Generic list facts *)

Lemma find_app {A} (p : A -> bool) (l1 l2 : list A) :
  find p (l1 ++ l2) = match find p l1 with Some x => Some x | None => find p l2 end.
Proof. induction l1 as [|x l1 IH]; simpl; [reflexivity|]. destruct (p x); auto. Qed.

Lemma find_none_iff {A} (p : A -> bool) (l : list A) :
  find p l = None <-> forall x, In x l -> p x = false.
Proof.
  split.
  - intros H x Hx. eapply find_none; eauto.
  - induction l as [|y l IH]; simpl; intros H; [reflexivity|].
    rewrite (H y (or_introl eq_refl)). apply IH. intros; apply H; now right.
Qed.

Lemma mem_id_true c l : mem_id c l = true <-> In c l.
Proof.
  unfold mem_id. rewrite existsb_exists. split.
  - intros [x [Hx E]]. apply Z.eqb_eq in E. now subst.
  - intros H. exists c. split; [assumption|apply Z.eqb_refl].
Qed.

Lemma mem_id_false c l : mem_id c l = false <-> ~ In c l.
Proof.
  rewrite <- mem_id_true. destruct (mem_id c l); split; congruence.
Qed.

Lemma mem_str_true a l : mem_str a l = true <-> In a l.
Proof.
  unfold mem_str. rewrite existsb_exists. split.
  - intros [x [Hx E]]. apply String.eqb_eq in E. now subst.
  - intros H. exists a. split; [assumption|apply String.eqb_refl].
Qed.

Lemma NoDup_app_inv {A} (l1 l2 : list A) :
  NoDup (l1 ++ l2) -> NoDup l1 /\ NoDup l2 /\ (forall x, In x l1 -> In x l2 -> False).
Proof.
  induction l1 as [|a l1 IH]; simpl; intros H.
  - repeat split; [constructor|assumption|intros x []].
  - inversion H as [|? ? Hn Hd]; subst. destruct (IH Hd) as [H1 [H2 H3]].
    repeat split; auto.
    + constructor; [|assumption]. intro Hc. apply Hn. apply in_or_app. now left.
    + intros x [Hx|Hx] Hx2; [subst; apply Hn; apply in_or_app; now right|eauto].
Qed.

Lemma list_sum_app l1 l2 : list_sum (l1 ++ l2) = list_sum l1 + list_sum l2.
Proof. induction l1; simpl; lia. Qed.

Lemma list_sum_rev l : list_sum (rev l) = list_sum l.
Proof. induction l; simpl; [reflexivity|]. rewrite list_sum_app. simpl. lia. Qed.

(* ------------------------------------------------------------------ *)
(** * Part A: arbitrary class graphs *)

Section Generic.
  Variable N : Type.
  Variable nid : N -> Z.
  Variable nsubs : N -> list N.
  Variable nal : N -> list string.

  Notation run := (run N nid nsubs nal).
  Notation has_alias := (has_alias N nal).
  Notation Reach := (Reach N nsubs).
  Notation weight := (weight N nsubs).

  (* more fuel never changes a definite answer *)
  Lemma run_mono : forall f st P a,
      run f st P a <> NoFuel -> forall f', f <= f' -> run f' st P a = run f st P a.
  Proof.
    induction f as [|f IH]; intros st P a H f' Hle; [simpl in H; congruence|].
    destruct f' as [|f']; [lia|]. simpl in *.
    destruct st as [|p rest]; [reflexivity|].
    destruct (negb (mem_id (nid p) P)).
    - apply IH; [assumption|lia].
    - destruct (has_alias a p); [reflexivity|]. apply IH; [assumption|lia].
  Qed.

  (** ** Soundness: what is returned is a reachable class that has the alias *)
  Lemma run_sound_gen : forall root f st P a n,
      (forall s, In s st -> Reach root s) ->
      run f st P a = Found n -> Reach root n /\ has_alias a n = true.
  Proof.
    intros root. induction f as [|f IH]; intros st P a n Hst H; [discriminate|].
    simpl in H. destruct st as [|p rest]; [discriminate|].
    destruct (negb (mem_id (nid p) P)).
    - eapply IH; [|exact H]. intros s Hs. apply in_app_or in Hs as [Hs|Hs].
      + apply in_rev in Hs. eapply Reach_step; [apply Hst; now left|exact Hs].
      + apply Hst. exact Hs.
    - destruct (has_alias a p) eqn:E.
      + inversion H; subst. split; [apply Hst; now left|assumption].
      + eapply IH; [|exact H]. intros; apply Hst; now right.
  Qed.

  Lemma run_sound : forall root f a n,
      run f [root] [] a = Found n -> Reach root n /\ has_alias a n = true.
  Proof.
    intros root f a n H. eapply run_sound_gen; [|exact H].
    intros s [Hs|[]]. subst. constructor.
  Qed.

  (** ** Completeness: ValueError only if no reachable class has the alias *)
  Section Complete.
    Variable root : N.
    Variable a : string.
    (* class identity: distinct reachable class objects have distinct identities *)
    Hypothesis nid_inj : forall x y, Reach root x -> Reach root y -> nid x = nid y -> x = y.

    Definition covered (checked st : list N) (n : N) : Prop := In n checked \/ In n st.

    Record Inv (st : list N) (P : list Z) (checked : list N) : Prop := {
      inv_root : covered checked st root;
      inv_exp : forall c, Reach root c -> mem_id (nid c) P = true ->
                          forall d, In d (nsubs c) -> covered checked st d;
      inv_chk : forall c, In c checked ->
                          mem_id (nid c) P = true /\ has_alias a c = false /\ Reach root c;
      inv_st : forall s, In s st -> Reach root s
    }.

    Lemma run_complete_gen : forall f st P checked,
        Inv st P checked -> run f st P a = NotFound ->
        forall n, Reach root n -> has_alias a n = false.
    Proof.
      induction f as [|f IH]; intros st P checked I H; [discriminate|].
      simpl in H. destruct st as [|p rest].
      - (* the stack is empty: everything reachable has been checked *)
        clear H IH. assert (Hall : forall n, Reach root n -> In n checked).
        { intros n Hn. induction Hn as [|c d Hc IHc Hd].
          - destruct (inv_root _ _ _ I) as [H|[]]. exact H.
          - destruct (inv_chk _ _ _ I c IHc) as [Hp _].
            destruct (inv_exp _ _ _ I c Hc Hp d Hd) as [H|[]]. exact H. }
        intros n Hn. apply (inv_chk _ _ _ I n (Hall n Hn)).
      - destruct (negb (mem_id (nid p) P)) eqn:Ep.
        + (* first visit: push parent and children *)
          refine (IH _ _ checked _ H). constructor.
          * destruct (inv_root _ _ _ I) as [Hc|Hs]; [now left|right].
            apply in_or_app. right. exact Hs.
          * intros c Hc Hm d Hd. simpl in Hm. apply orb_true_iff in Hm as [Hm|Hm].
            -- apply Z.eqb_eq in Hm.
               assert (c = p).
               { apply nid_inj; auto. apply (inv_st _ _ _ I). now left. }
               subst c. right. apply in_or_app. left. apply -> in_rev. exact Hd.
            -- destruct (inv_exp _ _ _ I c Hc Hm d Hd) as [H1|H1]; [now left|right].
               apply in_or_app. right. exact H1.
          * intros c Hc. destruct (inv_chk _ _ _ I c Hc) as [H1 [H2 H3]].
            repeat split; auto. simpl. rewrite H1. apply orb_true_r.
          * intros s Hs. apply in_app_or in Hs as [Hs|Hs].
            -- apply in_rev in Hs. eapply Reach_step; [|exact Hs].
               apply (inv_st _ _ _ I). now left.
            -- apply (inv_st _ _ _ I). exact Hs.
        + destruct (has_alias a p) eqn:Ea; [discriminate|].
          (* second visit, alias absent: p is checked *)
          apply negb_false_iff in Ep.
          assert (Hcov : forall n, covered checked (p :: rest) n -> covered (p :: checked) rest n).
          { intros n [Hn|[Hn|Hn]]; [left; now right|left; now left|now right]. }
          refine (IH _ _ (p :: checked) _ H). constructor.
          * apply Hcov. apply (inv_root _ _ _ I).
          * intros c Hc Hm d Hd. apply Hcov. eapply (inv_exp _ _ _ I); eauto.
          * intros c [Hc|Hc].
            -- subst c. repeat split; auto. apply (inv_st _ _ _ I). now left.
            -- apply (inv_chk _ _ _ I c Hc).
          * intros s Hs. apply (inv_st _ _ _ I). now right.
    Qed.

    Lemma inv_init : Inv [root] [] [].
    Proof.
      constructor.
      - right. now left.
      - intros c _ Hm. discriminate.
      - intros c [].
      - intros s [Hs|[]]. subst. constructor.
    Qed.

    Lemma run_complete : forall f,
        run f [root] [] a = NotFound -> forall n, Reach root n -> has_alias a n = false.
    Proof. intros f H. eapply run_complete_gen; [apply inv_init|exact H]. Qed.
  End Complete.

  (** ** Termination on a finite universe of classes closed under __subclasses__ *)
  Section Terminate.
    Variable U : list N.
    Hypothesis U_closed : forall n, In n U -> forall d, In d (nsubs n) -> In d U.

    Definition unpushed (P : list Z) (l : list N) : nat :=
      list_sum (map (fun n => if mem_id (nid n) P then 0 else weight n) l).

    Lemma unpushed_cons P n l :
      unpushed P (n :: l) = (if mem_id (nid n) P then 0 else weight n) + unpushed P l.
    Proof. reflexivity. Qed.

    Lemma mem_id_cons x c P : mem_id x (c :: P) = Z.eqb x c || mem_id x P.
    Proof. reflexivity. Qed.

    Lemma unpushed_mono : forall l P c, unpushed (c :: P) l <= unpushed P l.
    Proof.
      induction l as [|n l IH]; intros P c; [unfold unpushed; simpl; lia|].
      rewrite !unpushed_cons, mem_id_cons. specialize (IH P c).
      destruct (Z.eqb (nid n) c); cbn [orb]; destruct (mem_id (nid n) P); lia.
    Qed.

    Lemma unpushed_push : forall l P s,
        In s l -> mem_id (nid s) P = false ->
        unpushed (nid s :: P) l + weight s <= unpushed P l.
    Proof.
      induction l as [|n l IH]; intros P s Hin Hm; [destruct Hin|].
      rewrite !unpushed_cons, mem_id_cons.
      destruct Hin as [Hin|Hin].
      - subst n. pose proof (unpushed_mono l P (nid s)) as Hmono.
        rewrite Z.eqb_refl, Hm. cbn [orb]. lia.
      - specialize (IH P s Hin Hm).
        destruct (Z.eqb (nid n) (nid s)); cbn [orb]; destruct (mem_id (nid n) P); lia.
    Qed.

    Lemma run_terminates_gen : forall f st P a,
        (forall s, In s st -> In s U) ->
        length st + unpushed P U < f -> run f st P a <> NoFuel.
    Proof.
      induction f as [|f IH]; intros st P a Hst Hf; [lia|].
      simpl. destruct st as [|p rest]; [discriminate|].
      destruct (negb (mem_id (nid p) P)) eqn:Ep.
      - apply negb_true_iff in Ep. apply IH.
        + intros s Hs. apply in_app_or in Hs as [Hs|Hs].
          * apply in_rev in Hs. eapply U_closed; [|exact Hs]. apply Hst. now left.
          * apply Hst. exact Hs.
        + pose proof (unpushed_push U P p (Hst p (or_introl eq_refl)) Ep) as Hp.
          rewrite app_length, rev_length. simpl in *. unfold weight, Model.weight in *. lia.
      - destruct (has_alias a p); [discriminate|]. apply IH.
        + intros; apply Hst; now right.
        + simpl in Hf. lia.
    Qed.

    Lemma unpushed_nil_le : unpushed [] U = list_sum (map weight U).
    Proof. unfold unpushed. simpl. reflexivity. Qed.

    Lemma run_terminates : forall root a f,
        In root U -> fuel_bound N nsubs U <= f -> run f [root] [] a <> NoFuel.
    Proof.
      intros root a f Hr Hf. apply run_terminates_gen.
      - intros s [Hs|[]]. now subst.
      - rewrite unpushed_nil_le. unfold fuel_bound in Hf. simpl. lia.
    Qed.
  End Terminate.
End Generic.

(* ------------------------------------------------------------------ *)
(** * Part B: class trees - the exact specification *)

Section TreeInd.
  Variable P : ctree -> Prop.
  Hypothesis H : forall c al ch, Forall P ch -> P (Node c al ch).
  Fixpoint ctree_ind' (t : ctree) : P t :=
    match t with
    | Node c al ch =>
      H c al ch ((fix go (l : list ctree) : Forall P l :=
                    match l with
                    | [] => Forall_nil P
                    | x :: l' => Forall_cons x (ctree_ind' x) (go l')
                    end) ch)
    end.
End TreeInd.

Notation trun := tree_run.
Notation thas := (has_alias ctree t_al).

Definition forest_order (ts : list ctree) : list ctree := concat (map visit_order ts).
Definition forest_size (ts : list ctree) : nat := list_sum (map tsize ts).

Lemma visit_order_node c al ch :
  visit_order (Node c al ch) = forest_order (rev ch) ++ [Node c al ch].
Proof. simpl. unfold forest_order. now rewrite map_rev. Qed.

Lemma tsize_node c al ch : tsize (Node c al ch) = S (forest_size (rev ch)).
Proof. simpl. unfold forest_size. now rewrite map_rev, list_sum_rev. Qed.

Lemma forest_order_cons t ts : forest_order (t :: ts) = visit_order t ++ forest_order ts.
Proof. reflexivity. Qed.

(* the statement proved by induction: what running the machine with [t] on top
   of the stack does *)
Definition tree_stmt (a : string) (t : ctree) : Prop :=
  forall rest P,
    NoDup (ids t) -> (forall x, In x (ids t) -> mem_id x P = false) ->
    match find (thas a) (visit_order t) with
    | Some n => forall f, 2 * tsize t <= f -> trun f (t :: rest) P a = Found n
    | None => exists P', (forall x, mem_id x P' = mem_id x P || mem_id x (ids t)) /\
                         forall f, trun (2 * tsize t + f) (t :: rest) P a = trun f rest P' a
    end.

Definition forest_ids (ts : list ctree) : list Z := map t_id (forest_order ts).

Lemma forest_stmt a : forall ts, Forall (tree_stmt a) ts ->
  forall rest P,
    NoDup (forest_ids ts) -> (forall x, In x (forest_ids ts) -> mem_id x P = false) ->
    match find (thas a) (forest_order ts) with
    | Some n => forall f, 2 * forest_size ts <= f -> trun f (ts ++ rest) P a = Found n
    | None => exists P', (forall x, mem_id x P' = mem_id x P || mem_id x (forest_ids ts)) /\
                         forall f, trun (2 * forest_size ts + f) (ts ++ rest) P a = trun f rest P' a
    end.
Proof.
  induction 1 as [|t ts Ht Hts IH]; intros rest P Hnd Hdis.
  - simpl. exists P. split; [intros; now rewrite orb_false_r|reflexivity].
  - unfold forest_ids in Hnd, Hdis. rewrite forest_order_cons, map_app in Hnd, Hdis.
    fold (ids t) in Hnd, Hdis. fold (forest_ids ts) in Hnd, Hdis.
    destruct (NoDup_app_inv _ _ Hnd) as [Hnd1 [Hnd2 Hnd3]].
    assert (Hdis1 : forall x, In x (ids t) -> mem_id x P = false)
      by (intros; apply Hdis; apply in_or_app; now left).
    specialize (Ht (ts ++ rest) P Hnd1 Hdis1).
    rewrite forest_order_cons, find_app.
    replace (forest_size (t :: ts)) with (tsize t + forest_size ts) by reflexivity.
    destruct (find (thas a) (visit_order t)) as [n|].
    + intros f Hf. simpl. apply Ht. lia.
    + destruct Ht as [P1 [HP1 Hrun1]].
      assert (Hdis2 : forall x, In x (forest_ids ts) -> mem_id x P1 = false).
      { intros x Hx. rewrite HP1. apply orb_false_iff. split.
        - apply Hdis. apply in_or_app. now right.
        - destruct (mem_id x (ids t)) eqn:Hc; [|reflexivity]. exfalso.
          apply mem_id_true in Hc. exact (Hnd3 x Hc Hx). }
      specialize (IH rest P1 Hnd2 Hdis2).
      destruct (find (thas a) (forest_order ts)) as [n|].
      * intros f Hf. replace f with (2 * tsize t + (f - 2 * tsize t)) by lia.
        simpl app. rewrite Hrun1. apply IH. lia.
      * destruct IH as [P2 [HP2 Hrun2]]. exists P2. split.
        -- intros x. rewrite HP2, HP1. unfold forest_ids at 2.
           rewrite forest_order_cons, map_app. fold (ids t). fold (forest_ids ts).
           unfold mem_id at 5. rewrite existsb_app. fold (mem_id x (ids t)).
           fold (mem_id x (forest_ids ts)). now rewrite orb_assoc.
        -- intros f. replace (2 * (tsize t + forest_size ts) + f)
             with (2 * tsize t + (2 * forest_size ts + f)) by lia.
           simpl app. rewrite Hrun1. apply Hrun2.
Qed.

Lemma ids_node c al ch : ids (Node c al ch) = forest_ids (rev ch) ++ [c].
Proof. unfold ids. rewrite visit_order_node, map_app. reflexivity. Qed.

Lemma mem_id_app x l1 l2 : mem_id x (l1 ++ l2) = mem_id x l1 || mem_id x l2.
Proof. unfold mem_id. apply existsb_app. Qed.

Lemma tree_stmt_all a : forall t, tree_stmt a t.
Proof.
  induction t as [c al ch IHch] using ctree_ind'.
  intros rest P Hnd Hdis. set (t := Node c al ch) in *.
  assert (Hids : ids t = forest_ids (rev ch) ++ [c]) by apply ids_node.
  rewrite Hids in Hnd, Hdis.
  destruct (NoDup_app_inv _ _ Hnd) as [Hnd1 [_ Hnd3]].
  assert (HcP : mem_id c P = false) by (apply Hdis; apply in_or_app; right; now left).
  assert (Hdis' : forall x, In x (forest_ids (rev ch)) -> mem_id x (c :: P) = false).
  { intros x Hx. simpl. apply orb_false_iff. split.
    - apply Z.eqb_neq. intro E. subst x. apply (Hnd3 c Hx). now left.
    - apply Hdis. apply in_or_app. now left. }
  pose proof (forest_stmt a (rev ch) (Forall_rev IHch) (t :: rest) (c :: P) Hnd1 Hdis')
    as HF.
  assert (Hstep : forall f, trun (S f) (t :: rest) P a = trun f (rev ch ++ t :: rest) (c :: P) a).
  { intros f. unfold trun, tree_run. simpl. unfold t at 1. simpl t_id.
    change (mem_id c P) with (mem_id c P). rewrite HcP. reflexivity. }
  assert (Hsz : tsize t = S (forest_size (rev ch))) by apply tsize_node.
  unfold t at 1. rewrite visit_order_node. fold t. rewrite find_app.
  destruct (find (thas a) (forest_order (rev ch))) as [n|].
  - intros f Hf. destruct f as [|f]; [lia|]. rewrite Hstep. apply HF. lia.
  - destruct HF as [P1 [HP1 Hrun1]].
    assert (HcP1 : mem_id c P1 = true).
    { rewrite HP1. simpl. now rewrite Z.eqb_refl. }
    assert (Hchk : forall f, trun (S f) (t :: rest) P1 a =
                             if thas a t then Found t else trun f rest P1 a).
    { intros f. unfold trun, tree_run. simpl. unfold t at 1. simpl t_id.
      rewrite HcP1. reflexivity. }
    change (find (thas a) [t]) with (if thas a t then Some t else None).
    destruct (thas a t) eqn:Ea.
    + intros f Hf.
      replace f with (S (2 * forest_size (rev ch) + S (f - 2 * tsize t))) by lia.
      rewrite Hstep, Hrun1, Hchk. try rewrite Ea. reflexivity.
    + exists P1. split.
      * intros x. rewrite HP1, Hids, mem_id_app. simpl.
        destruct (Z.eqb x c); destruct (mem_id x P); destruct (mem_id x (forest_ids (rev ch)));
          reflexivity.
      * intros f.
        replace (2 * tsize t + f) with (S (2 * forest_size (rev ch) + S f)) by lia.
        rewrite Hstep, Hrun1, Hchk. try rewrite Ea. reflexivity.
Qed.

(** The machine on a tree computes the specification, for every class tree whose
    classes are distinct objects, with any fuel from [tree_fuel] upward. *)
Theorem tree_run_spec : forall t a f,
    NoDup (ids t) -> tree_fuel t <= f ->
    trun f [t] [] a = match spec_from_alias t a with
                      | Some n => Found n
                      | None => NotFound
                      end.
Proof.
  intros t a f Hnd Hf. unfold tree_fuel in Hf.
  pose proof (tree_stmt_all a t [] [] Hnd (fun _ _ => eq_refl)) as H.
  unfold spec_from_alias. destruct (find (thas a) (visit_order t)) as [n|].
  - apply H. lia.
  - destruct H as [P' [_ Hrun]].
    replace f with (2 * tsize t + S (f - 2 * tsize t - 1)) by lia.
    rewrite Hrun. reflexivity.
Qed.

Lemma tree_from_alias_spec_l : forall t a,
    NoDup (ids t) ->
    tree_from_alias t a = option_map t_id (spec_from_alias t a).
Proof.
  intros t a Hnd. unfold tree_from_alias.
  change (tree_run (tree_fuel t) [t] [] a) with (trun (tree_fuel t) [t] [] a).
  rewrite (tree_run_spec t a (tree_fuel t) Hnd (le_n _)).
  destruct (spec_from_alias t a); reflexivity.
Qed.
