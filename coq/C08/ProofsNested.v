(* C08 - a nested configuration builds, through aliases, the object that explicit
   construction builds. *)
From Coq Require Import String.
From Coq Require Import ZArith List Bool Lia.
From Verif Require Import C08.Model C08.ProofsMachine C08.ProofsTree C08.ProofsBuild.
Import ListNotations.
Local Open Scope string_scope.

(* ------------------------------------------------------------------ *)
(** * association lists with unique keys *)

Lemma lookup_in k v l : lookup k l = Some v -> In (k, v) l.
Proof.
  induction l as [|[k' v'] tl IH]; simpl; [discriminate|].
  destruct (String.eqb_spec k k'); intros H.
  - inversion H; subst. now left.
  - right. now apply IH.
Qed.

Lemma in_lookup k v l : NoDup (map fst l) -> In (k, v) l -> lookup k l = Some v.
Proof.
  induction l as [|[k' v'] tl IH]; simpl; intros Hnd Hin; [destruct Hin|].
  inversion Hnd as [|? ? Hn Hd]; subst.
  destruct Hin as [Hin|Hin].
  - inversion Hin; subst. now rewrite String.eqb_refl.
  - destruct (String.eqb_spec k k') as [E|E]; [|now apply IH].
    subst. exfalso. apply Hn. change k' with (fst (k', v)). now apply in_map.
Qed.

Lemma lookup_none_keys k l : lookup k l = None <-> ~ In k (map fst l).
Proof.
  induction l as [|[k' v'] tl IH]; simpl; [tauto|].
  destruct (String.eqb_spec k k') as [E|E].
  - split; [discriminate|]. intros H. exfalso. apply H. now left.
  - rewrite IH. split; intros H; [intros [H1|H1]; [congruence|contradiction]|intro; apply H; now right].
Qed.

Lemma set_key_keys k v l : map fst (set_key k v l) = map fst l.
Proof.
  unfold set_key. rewrite map_map. apply map_ext. intros [k' v']. simpl.
  now destruct (String.eqb k k').
Qed.

Lemma set_key_same k v l :
  NoDup (map fst l) -> lookup k l = Some v -> set_key k v l = l.
Proof.
  intros Hnd Hl. unfold set_key. rewrite <- (map_id l) at 2. apply map_ext_in.
  intros [k' v'] Hin. simpl. destruct (String.eqb_spec k k') as [E|E]; [|reflexivity].
  subst. rewrite (in_lookup _ _ _ Hnd Hin) in Hl. now inversion Hl.
Qed.

(* ------------------------------------------------------------------ *)
(** * more fuel never changes a definite answer *)

Definition rec_le (rec1 rec2 : Z -> val -> res val) : Prop :=
  forall fam x v, rec1 fam x = Ok v -> rec2 fam x = Ok v.

Section Mono.
  Variable r : registry.

  Lemma resolve_nested_mono rec1 rec2 : rec_le rec1 rec2 ->
    forall ns fs out, resolve_nested rec1 ns fs = Ok out -> resolve_nested rec2 ns fs = Ok out.
  Proof.
    intros Hle. induction ns as [|n tl IH]; intros fs out H; simpl in *; [assumption|].
    destruct (lookup (n_param n) fs) as [v|].
    - destruct (n_guarded n && is_none v); [now apply IH|].
      destruct (rec1 (n_family n) v) as [o| |] eqn:E; simpl in H; try discriminate.
      rewrite (Hle _ _ _ E). simpl. now apply IH.
    - destruct (n_guarded n); [now apply IH|].
      destruct (rec1 (n_family n) VNone) as [o| |] eqn:E; simpl in H; try discriminate.
      rewrite (Hle _ _ _ E). simpl. now apply IH.
  Qed.

  Lemma construct_with_mono rec1 rec2 : rec_le rec1 rec2 ->
    forall c kw out, construct_with r rec1 c kw = Ok out -> construct_with r rec2 c kw = Ok out.
  Proof.
    intros Hle c kw out H. unfold construct_with in *.
    destruct (info r c) as [i|]; [|discriminate].
    destruct (ci_abstract i); [discriminate|].
    destruct (negb (bind_ok i kw)); [discriminate|].
    destruct (resolve_nested rec1 (ci_nested i) kw) as [fs| |] eqn:E; simpl in H; try discriminate.
    rewrite (resolve_nested_mono _ _ Hle _ _ _ E). exact H.
  Qed.

  Lemma from_alias_with_mono rec1 rec2 : rec_le rec1 rec2 ->
    forall fam a kw out, from_alias_with r rec1 fam a kw = Ok out -> from_alias_with r rec2 fam a kw = Ok out.
  Proof.
    intros Hle fam a kw out H. unfold from_alias_with in *.
    destruct (mem_str "cls" (keys kw)); [discriminate|].
    destruct (subtree (r_tree r) fam) as [ft|]; [|discriminate].
    destruct a; try discriminate.
    destruct (tree_from_alias ft s) as [c|]; [|discriminate].
    eapply construct_with_mono; eauto.
  Qed.

  Lemma from_mapping_mono rec1 rec2 : rec_le rec1 rec2 ->
    forall fam kv out, from_mapping r rec1 fam kv = Ok out -> from_mapping r rec2 fam kv = Ok out.
  Proof.
    intros Hle fam kv out H. unfold from_mapping in *.
    destruct (pop "alias" kv) as [[a rest]|].
    - eapply from_alias_with_mono; eauto.
    - destruct (pop "name" kv) as [[a rest]|]; [|discriminate].
      eapply from_alias_with_mono; eauto.
  Qed.

  Definition from_arg_body (rec : Z -> val -> res val) (fam : Z) (arg : val) : res val :=
    match arg with
    | VInst c _ => if is_subclass (r_tree r) c fam then Ok arg else Err TypeError
    | VStr s => from_alias_with r rec fam (VStr s) []
    | VDict kv => from_mapping r rec fam kv
    | VList l => bind (dict_update [] l) (from_mapping r rec fam)
    | VNone | VBool _ | VNum _ => Err TypeError
    end.

  Lemma from_arg_S f fam arg : from_arg r (S f) fam arg = from_arg_body (from_arg r f) fam arg.
  Proof. destruct arg; reflexivity. Qed.

  Lemma from_arg_body_mono rec1 rec2 : rec_le rec1 rec2 ->
    rec_le (from_arg_body rec1) (from_arg_body rec2).
  Proof.
    intros Hle fam x v H. unfold from_arg_body in *. destruct x; try discriminate; try exact H.
    - eapply from_alias_with_mono; eauto.
    - destruct (dict_update [] l) as [kv| |]; simpl in *; try discriminate.
      eapply from_mapping_mono; eauto.
    - eapply from_mapping_mono; eauto.
  Qed.

  Lemma from_arg_step : forall f, rec_le (from_arg r f) (from_arg r (S f)).
  Proof.
    induction f as [|f IH]; intros fam x v H; [discriminate|].
    rewrite from_arg_S in *. eapply from_arg_body_mono; eauto.
  Qed.

  Lemma from_arg_mono : forall f f', f <= f' -> rec_le (from_arg r f) (from_arg r f').
  Proof.
    intros f f' Hle. induction Hle as [|f' _ IH]; [intros ? ? ? H; exact H|].
    intros fam x v H. apply from_arg_step. now apply IH.
  Qed.
End Mono.

(* ------------------------------------------------------------------ *)
(** * the nested resolutions of one constructor, on the two sides *)

Lemma resolve_nested_keys rec : forall ns fs out,
    resolve_nested rec ns fs = Ok out -> map fst out = map fst fs.
Proof.
  induction ns as [|n tl IH]; intros fs out H; simpl in H; [now inversion H|].
  destruct (lookup (n_param n) fs) as [v|].
  - destruct (n_guarded n && is_none v); [now apply IH|].
    destruct (rec (n_family n) v) as [o| |]; simpl in H; try discriminate.
    apply IH in H. now rewrite set_key_keys in H.
  - destruct (n_guarded n); [now apply IH|].
    destruct (rec (n_family n) VNone); simpl in H; try discriminate. now apply IH.
Qed.

Section Agree.
  Variable rec : Z -> val -> res val.

  (* the JSON side still holds the document of a component, the explicit side
     the object; every remaining resolution of that parameter turns the former
     into the latter and leaves the latter alone *)
  Definition pending (steps : list nested) (x y : string * val) : Prop :=
    is_none (snd x) = false /\ is_none (snd y) = false /\
    forall n, In n steps -> n_param n = fst x ->
              rec (n_family n) (snd x) = Ok (snd y) /\ rec (n_family n) (snd y) = Ok (snd y).

  Definition item_rel (D : list string) (steps : list nested) (x y : string * val) : Prop :=
    fst x = fst y /\
    ((snd x = snd y /\ ~ In (fst x) D) \/ (In (fst x) D /\ pending steps x y)).

  Definition item_done (D : list string) (steps : list nested) (x y : string * val) : Prop :=
    fst x = fst y /\
    (snd x = snd y \/ (In (fst x) D /\ forall n, In n steps -> n_param n <> fst x)).

  Lemma lookup_rel D steps k : forall fj fe,
      Forall2 (item_rel D steps) fj fe ->
      (lookup k fj = None /\ lookup k fe = None) \/
      (exists vj ve, lookup k fj = Some vj /\ lookup k fe = Some ve /\ item_rel D steps (k, vj) (k, ve)).
  Proof.
    induction 1 as [|[kx vx] [ky vy] fj fe Hxy _ IH]; [now left|].
    destruct Hxy as [Hk Hv]. simpl in Hk. subst ky. simpl.
    destruct (String.eqb_spec k kx) as [E|E]; [|exact IH].
    subst kx. right. exists vx, vy. repeat split; auto.
  Qed.

  Lemma Forall2_map_in {A B A' B'} (R : A -> B -> Prop) (R' : A' -> B' -> Prop) (u : A -> A') (u' : B -> B') : forall l l',
      Forall2 R l l' ->
      (forall x y, In x l -> In y l' -> R x y -> R' (u x) (u' y)) ->
      Forall2 R' (map u l) (map u' l').
  Proof.
    induction 1 as [|x y l l' Hxy _ IH]; intros H; simpl; constructor.
    - apply H; simpl; auto.
    - apply IH. intros; apply H; simpl; auto.
  Qed.

  Lemma Forall2_impl {A B} (R R' : A -> B -> Prop) : forall l l',
      Forall2 R l l' -> (forall x y, In x l -> In y l' -> R x y -> R' x y) -> Forall2 R' l l'.
  Proof.
    intros l l' H HR. rewrite <- (map_id l), <- (map_id l').
    eapply Forall2_map_in; eauto.
  Qed.

  Lemma Forall2_keys D steps : forall fj fe,
      Forall2 (item_rel D steps) fj fe -> map fst fj = map fst fe.
  Proof. induction 1 as [|x y ? ? [Hk _] _ IH]; simpl; congruence. Qed.

  Lemma pending_weaken n tl x y : pending (n :: tl) x y -> pending tl x y.
  Proof. intros [H1 [H2 H3]]. repeat split; auto; apply H3; simpl; auto. Qed.

  Lemma resolve_agree : forall steps D fj fe fse,
      NoDup (map fst fe) ->
      Forall2 (item_rel D steps) fj fe ->
      resolve_nested rec steps fe = Ok fse ->
      exists fsj, resolve_nested rec steps fj = Ok fsj /\ Forall2 (item_done D steps) fsj fse.
  Proof.
    induction steps as [|n tl IH]; intros D fj fe fse Hnd HR Hres.
    - simpl in *. inversion Hres; subst. exists fj. split; [reflexivity|].
      eapply Forall2_impl; [exact HR|]. intros x y _ _ [Hk [[Hv _]|[HD _]]]; split; auto.
    - pose proof (Forall2_keys _ _ _ _ HR) as Hkeys.
      assert (Hndj : NoDup (map fst fj)) by now rewrite Hkeys.
      simpl in Hres. simpl.
      destruct (lookup_rel D (n :: tl) (n_param n) fj fe HR) as [[Hj He]|[vj [ve [Hj [He Hrel]]]]];
        rewrite Hj; rewrite He in Hres.
      + (* the parameter was not passed *)
        assert (Hweak : Forall2 (item_rel D tl) fj fe).
        { eapply Forall2_impl; [exact HR|]. intros x y _ _ [Hk [Hv|[HD Hp]]]; split; auto.
          right. split; [assumption|]. now apply pending_weaken in Hp. }
        assert (Hfin : forall fsj, Forall2 (item_done D tl) fsj fse ->
                                   map fst fsj = map fst fj -> Forall2 (item_done D (n :: tl)) fsj fse).
        { intros fsj HF Hk. eapply Forall2_impl; [exact HF|].
          intros x y Hx _ [Hkx [Hv|[HD Hno]]]; split; auto. right. split; [assumption|].
          intros m [Hm|Hm]; [|now apply Hno]. subst m. intro E.
          apply lookup_none_keys in Hj. apply Hj. rewrite <- Hk, E. now apply in_map. }
        destruct (n_guarded n).
        * destruct (IH D fj fe fse Hnd Hweak Hres) as [fsj [H1 H2]]. exists fsj. split; [assumption|].
          apply Hfin; [assumption|]. eapply resolve_nested_keys; eauto.
        * destruct (rec (n_family n) VNone) as [o| |]; simpl in *; try discriminate.
          destruct (IH D fj fe fse Hnd Hweak Hres) as [fsj [H1 H2]]. exists fsj. split; [assumption|].
          apply Hfin; [assumption|]. eapply resolve_nested_keys; eauto.
      + destruct Hrel as [_ [[Hv HnD]|[HD Hp]]].
        * (* the same value on both sides *)
          simpl in Hv, HnD. subst ve.
          assert (Hfin : forall fsj, Forall2 (item_done D tl) fsj fse -> Forall2 (item_done D (n :: tl)) fsj fse).
          { intros fsj HF. eapply Forall2_impl; [exact HF|].
            intros x y _ _ [Hkx [Hv|[HDx Hno]]]; split; auto. right. split; [assumption|].
            intros m [Hm|Hm]; [|now apply Hno]. subst m. intro E. apply HnD. now rewrite E. }
          destruct (n_guarded n && is_none vj).
          -- assert (Hweak : Forall2 (item_rel D tl) fj fe).
             { eapply Forall2_impl; [exact HR|]. intros x y _ _ [Hk [Hv|[HDx Hpx]]]; split; auto.
               right. split; [assumption|]. now apply pending_weaken in Hpx. }
             destruct (IH D fj fe fse Hnd Hweak Hres) as [fsj [H1 H2]]. exists fsj. split; auto.
          -- destruct (rec (n_family n) vj) as [o| |]; simpl in *; try discriminate.
             assert (Hweak : Forall2 (item_rel D tl) (set_key (n_param n) o fj) (set_key (n_param n) o fe)).
             { unfold set_key. eapply Forall2_map_in; [exact HR|].
               intros [kx vx] [ky vy] _ _ [Hk Hd]. simpl in Hk. subst ky. simpl.
               destruct (String.eqb_spec (n_param n) kx) as [E|E].
               - split; [reflexivity|]. left. simpl. split; [reflexivity|]. now rewrite <- E.
               - split; [reflexivity|]. simpl in *. destruct Hd as [Hd|[HDx Hpx]]; [now left|right].
                 split; [assumption|]. now apply pending_weaken in Hpx. }
             assert (Hnd' : NoDup (map fst (set_key (n_param n) o fe))) by now rewrite set_key_keys.
             destruct (IH D _ _ fse Hnd' Hweak Hres) as [fsj [H1 H2]]. exists fsj. split; auto.
        * (* document on the JSON side, object on the explicit side *)
          destruct Hp as [Hnj [Hne Hsteps]]. simpl in Hnj, Hne, HD, Hsteps.
          rewrite Hnj. rewrite Hne in Hres. rewrite andb_false_r in *.
          destruct (Hsteps n (or_introl eq_refl) eq_refl) as [Hr1 Hr2].
          rewrite Hr1. rewrite Hr2 in Hres. simpl in *.
          rewrite (set_key_same _ _ _ Hnd He) in Hres.
          set (D' := filter (fun k => negb (String.eqb k (n_param n))) D).
          assert (HD' : forall k, In k D' <-> In k D /\ k <> n_param n).
          { intros k. unfold D'. rewrite filter_In. rewrite negb_true_iff.
            destruct (String.eqb_spec k (n_param n)); intuition congruence. }
          assert (Hweak : Forall2 (item_rel D' tl) (set_key (n_param n) ve fj) fe).
          { rewrite <- (map_id fe). unfold set_key. eapply Forall2_map_in; [exact HR|].
            intros [kx vx] [ky vy] Hx Hy [Hk Hd]. simpl in Hk. subst ky. simpl.
            destruct (String.eqb_spec (n_param n) kx) as [E|E].
            - subst kx. split; [reflexivity|]. left. simpl.
              rewrite (in_lookup _ _ _ Hnd Hy) in He. inversion He; subst.
              split; [reflexivity|]. rewrite HD'. tauto.
            - split; [reflexivity|]. simpl in *. destruct Hd as [[Hd1 Hd2]|[HDx Hpx]].
              + left. split; [assumption|]. rewrite HD'. tauto.
              + right. split; [apply HD'; split; [assumption|congruence]|].
                now apply pending_weaken in Hpx. }
          destruct (IH D' _ _ fse Hnd Hweak Hres) as [fsj [H1 H2]]. exists fsj. split; auto.
          eapply Forall2_impl; [exact H2|].
          intros x y _ _ [Hkx [Hv|[HDx Hno]]]; split; auto. right.
          apply HD' in HDx as [HDx Hne']. split; [assumption|].
          intros m [Hm|Hm]; [subst m; congruence|now apply Hno].
  Qed.
End Agree.

(* ------------------------------------------------------------------ *)
(** * nested configurations *)

Definition items (kw : list (string * carg)) : list (string * val) :=
  map (fun p => (fst p, match snd p with Plain v => v | Nested g' => to_json g' end)) kw.

Lemma to_json_eq c a st kw :
  to_json (Cfg c a st kw) =
  match st with
  | SString => match items kw with [] => VStr a | _ => VDict (("name", VStr a) :: items kw) end
  | SAlias n => VDict (insert_at n ("alias", VStr a) (items kw))
  | SName n => VDict (insert_at n ("name", VStr a) (items kw))
  end.
Proof. reflexivity. Qed.

Lemma to_json_not_none g : is_none (to_json g) = false.
Proof.
  destruct g as [c a st kw]. rewrite to_json_eq. destruct st; try reflexivity.
  destruct (items kw); reflexivity.
Qed.

Lemma items_keys kw : map fst (items kw) = map fst kw.
Proof. unfold items. rewrite map_map. reflexivity. Qed.

Lemma list_max_ge x l : In x l -> x <= list_max l.
Proof.
  induction l as [|y l IH]; simpl; intros H; [destruct H|].
  destruct H as [H|H]; [subst; lia|]. specialize (IH H). lia.
Qed.

Lemma nested_depth c a st kw k g :
  In (k, Nested g) kw -> cfg_depth g < cfg_depth (Cfg c a st kw).
Proof.
  intros H. simpl. apply Nat.lt_succ_r. apply list_max_ge.
  apply in_map_iff. exists (k, Nested g). split; [reflexivity|assumption].
Qed.

Section Nested.
  Variable r : registry.

  (** A well-formed configuration for family [fam]: the alias resolves (from the
      family) to the class; the keyword names are distinct and do not clash with
      the key that carries the alias; nested configurations sit under parameters
      the constructor resolves, and are well-formed for the family named there. *)
  Inductive wf_cfg : Z -> cfg -> Prop :=
  | WF : forall fam ft c a st kw i,
      subtree (r_tree r) fam = Some ft ->
      tree_from_alias ft a = Some c ->
      info r c = Some i ->
      NoDup (map fst kw) ->
      ~ In "alias" (map fst kw) ->
      ~ In "cls" (map fst kw) ->
      (match st with SAlias _ => True | _ => ~ In "name" (map fst kw) end) ->
      (forall k g, In (k, Nested g) kw ->
                   (exists n, In n (ci_nested i) /\ n_param n = k) /\
                   (forall n, In n (ci_nested i) -> n_param n = k -> wf_cfg (n_family n) g)) ->
      wf_cfg fam (Cfg c a st kw).

  Lemma explicit_args_rel ex : forall kw args,
      explicit_args ex kw = Ok args ->
      Forall2 (fun p q => fst p = fst q /\
                          match snd p with
                          | Plain v => snd q = v
                          | Nested g => ex g = Ok (snd q)
                          end) kw args.
  Proof.
    induction kw as [|[k [v|g]] tl IH]; intros args H; simpl in H.
    - inversion H. constructor.
    - destruct (explicit_args ex tl) as [l| |]; simpl in H; try discriminate.
      inversion H; subst. constructor; [split; reflexivity|]. now apply IH.
    - destruct (ex g) as [o| |] eqn:E; simpl in H; try discriminate.
      destruct (explicit_args ex tl) as [l| |]; simpl in H; try discriminate.
      inversion H; subst. constructor; [split; [reflexivity|exact E]|]. now apply IH.
  Qed.

  Lemma construct_ok_inst rec c kw v :
    construct_with r rec c kw = Ok v -> exists fs, v = VInst c fs.
  Proof.
    unfold construct_with. destruct (info r c) as [i|]; [|discriminate].
    destruct (ci_abstract i); [discriminate|]. destruct (negb (bind_ok i kw)); [discriminate|].
    destruct (resolve_nested rec (ci_nested i) kw) as [fs| |]; simpl; try discriminate.
    intros H. inversion H. now exists fs.
  Qed.

  Lemma explicit_ok_inst f c a st kw v :
    explicit r f (Cfg c a st kw) = Ok v -> exists fs, v = VInst c fs.
  Proof.
    destruct f as [|f]; [discriminate|]. simpl.
    destruct (explicit_args (explicit r f) kw) as [args| |]; simpl; try discriminate.
    apply construct_ok_inst.
  Qed.

  Lemma bind_ok_keys i kw1 kw2 : keys kw1 = keys kw2 -> bind_ok i kw1 = bind_ok i kw2.
  Proof. intros H. unfold bind_ok. now rewrite H. Qed.

  (* the alias-carrying key is found wherever it was put *)
  Lemma from_arg_to_json f fam ft c a st kw :
    subtree (r_tree r) fam = Some ft -> tree_from_alias ft a = Some c ->
    ~ In "alias" (map fst kw) -> ~ In "cls" (map fst kw) ->
    (match st with SAlias _ => True | _ => ~ In "name" (map fst kw) end) ->
    from_arg r (S f) fam (to_json (Cfg c a st kw)) = construct r f c (items kw).
  Proof.
    intros Hs Hc Ha Hcls Hn. rewrite to_json_eq.
    assert (Ha' : ~ In "alias" (keys (items kw))) by (unfold keys; now rewrite items_keys).
    assert (Hcls' : ~ In "cls" (keys (items kw))) by (unfold keys; now rewrite items_keys).
    assert (Hfa : from_alias_with r (from_arg r f) fam (VStr a) (items kw) = construct r f c (items kw)).
    { unfold from_alias_with. now rewrite (no_cls _ Hcls'), Hs, Hc. }
    destruct st as [|n|n].
    - assert (Hn' : ~ In "name" (keys (items kw))) by (unfold keys; now rewrite items_keys).
      destruct (items kw) as [|p l] eqn:E.
      + simpl. unfold from_alias_with. simpl. now rewrite Hs, Hc.
      + simpl from_arg. unfold from_mapping.
        assert (Hp : pop "alias" (("name", VStr a) :: p :: l) = None).
        { apply pop_none. intros [H|H]; [discriminate|contradiction]. }
        rewrite Hp. simpl pop at 1. exact Hfa.
    - simpl from_arg. unfold from_mapping. rewrite pop_insert_at by assumption. exact Hfa.
    - assert (Hn' : ~ In "name" (keys (items kw))) by (unfold keys; now rewrite items_keys).
      simpl from_arg. unfold from_mapping.
      rewrite pop_insert_at_other by (auto; discriminate).
      rewrite pop_insert_at by assumption. exact Hfa.
  Qed.

  (** The theorem: whenever explicit construction succeeds, building from the
      JSON document of the configuration yields the very same object. *)
  Theorem nested_build_eq_l : forall f g fam v,
      wf_cfg fam g -> explicit r f g = Ok v ->
      from_arg r (cfg_depth g + f) fam (to_json g) = Ok v.
  Proof.
    induction f as [|f IH]; intros g fam v Hwf Hex; [discriminate|].
    inversion Hwf as [fam' ft c a st kw i Hs Hc Hi Hnd Ha Hcls Hn Hnest]; subst.
    simpl in Hex.
    destruct (explicit_args (explicit r f) kw) as [args| |] eqn:Eargs; simpl in Hex; try discriminate.
    set (d := cfg_depth (Cfg c a st kw)) in *.
    assert (Hd : 1 <= d) by (unfold d; simpl; lia).
    replace (d + S f) with (S (d + f)) by lia.
    rewrite (from_arg_to_json (d + f) fam ft c a st kw Hs Hc Ha Hcls Hn).
    set (rec' := from_arg r (d + f)).
    assert (Hle : rec_le (from_arg r f) rec') by (apply from_arg_mono; lia).
    (* the explicit side, re-run with more fuel *)
    apply (construct_with_mono r _ _ Hle) in Hex. fold rec' in Hex.
    unfold construct, construct_with in *. fold rec'. rewrite Hi in *.
    destruct (ci_abstract i); [discriminate|].
    pose proof (explicit_args_rel _ _ _ Eargs) as Hrel.
    assert (Hkeys : keys (items kw) = keys args).
    { unfold keys. rewrite items_keys. clear -Hrel. induction Hrel as [|p q ? ? [Hk _] _ IHr]; simpl; congruence. }
    rewrite (bind_ok_keys i _ _ Hkeys). destruct (negb (bind_ok i args)); [discriminate|].
    destruct (resolve_nested rec' (ci_nested i) args) as [fse| |] eqn:Eres; simpl in Hex; try discriminate.
    inversion Hex; subst v. clear Hex.
    (* the two field lists are related *)
    set (D := map fst (filter (fun p => match snd p with Nested _ => true | Plain _ => false end) kw)).
    assert (HD : forall k, In k D <-> exists g', In (k, Nested g') kw).
    { intros k. unfold D. rewrite in_map_iff. split.
      - intros [[k' [v'|g']] [Hk Hin]]; apply filter_In in Hin as [Hin Hb]; simpl in *; try discriminate.
        subst. now exists g'.
      - intros [g' Hin]. exists (k, Nested g'). split; [reflexivity|]. apply filter_In. now split. }
    assert (Hndargs : NoDup (map fst args)).
    { unfold keys in Hkeys. rewrite <- Hkeys, items_keys. exact Hnd. }
    assert (HR : Forall2 (item_rel rec' D (ci_nested i)) (items kw) args).
    { unfold items. rewrite <- (map_id args).
      eapply Forall2_map_in; [exact Hrel|].
      intros [k [v'|g']] [k2 o] Hin _ [Hk Hv]; simpl in Hk, Hv; subst k2.
      - subst o. split; [reflexivity|]. left. split; [reflexivity|]. simpl.
        rewrite HD. intros [g' Hin']. clear -Hnd Hin Hin'.
        assert (Plain v' = Nested g'); [|discriminate].
        { revert Hnd Hin Hin'. induction kw as [|[k0 a0] tl IHk]; simpl; intros Hnd H1 H2; [destruct H1|].
          inversion Hnd as [|? ? Hn0 Hd0]; subst.
          destruct H1 as [H1|H1], H2 as [H2|H2].
          - congruence.
          - inversion H1; subst. exfalso. apply Hn0. change k with (fst (k, Nested g')). now apply in_map.
          - inversion H2; subst. exfalso. apply Hn0. change k with (fst (k, Plain v')). now apply in_map.
          - now apply IHk. }
      - split; [reflexivity|]. right. split; [apply HD; now exists g'|].
        destruct (Hnest k g' Hin) as [_ Hall].
        repeat split; simpl.
        + apply to_json_not_none.
        + destruct g' as [c' a' st' kw']. destruct (explicit_ok_inst _ _ _ _ _ _ Hv) as [fs Ho]. now subst o.
        + apply (from_arg_mono r (cfg_depth g' + f) (d + f)).
          * pose proof (nested_depth c a st kw k g' Hin). fold d in H0. lia.
          * apply IH; [now apply Hall|exact Hv].
        + specialize (Hall n H H0). inversion Hall as [fam2 ft2 c2 a2 st2 kw2 i2 Hs2 Hc2]; subst.
          destruct (explicit_ok_inst _ _ _ _ _ _ Hv) as [fs Ho]. subst o.
          unfold rec'. replace (d + f) with (S (d + f - 1)) by lia.
          apply from_arg_instance_l. eapply tree_from_alias_is_subclass; eauto. }
    destruct (resolve_agree rec' (ci_nested i) D (items kw) args fse Hndargs HR Eres) as [fsj [Hj Hdone]].
    rewrite Hj. simpl. f_equal. f_equal.
    (* every component document has been replaced by its object *)
    clear -Hdone HD Hnest. induction Hdone as [|[kx vx] [ky vy] l l' [Hk Hv] _ IHd]; [reflexivity|].
    simpl in Hk, Hv. subst ky. f_equal; [|exact IHd]. f_equal.
    destruct Hv as [Hv|[HDx Hno]]; [exact Hv|]. exfalso.
    apply HD in HDx as [g' Hin]. destruct (Hnest kx g' Hin) as [[n [Hn1 Hn2]] _].
    exact (Hno n Hn1 Hn2).
  Qed.
End Nested.

(* ------------------------------------------------------------------ *)
(** * the converse direction *)

Section AgreeBoth.
  Variable rec : Z -> val -> res val.

  Definition both_ok (D : list string) (steps : list nested)
             (a b : res (list (string * val))) : Prop :=
    match a, b with
    | Ok fsj, Ok fse => Forall2 (item_done D steps) fsj fse
    | Ok _, _ | _, Ok _ => False
    | _, _ => True
    end.

  Lemma both_ok_weaken D D' s s' a b :
    (forall fsj fse, Forall2 (item_done D s) fsj fse -> Forall2 (item_done D' s') fsj fse) ->
    both_ok D s a b -> both_ok D' s' a b.
  Proof. intros H. destruct a, b; simpl; auto. Qed.

  (* the two sides succeed together, and then agree except under keys nobody resolves *)
  Lemma resolve_sim : forall steps D fj fe,
      NoDup (map fst fe) ->
      Forall2 (item_rel rec D steps) fj fe ->
      both_ok D steps (resolve_nested rec steps fj) (resolve_nested rec steps fe).
  Proof.
    induction steps as [|n tl IH]; intros D fj fe Hnd HR.
    - simpl. eapply Forall2_impl; [exact HR|]. intros x y _ _ [Hk [[Hv _]|[HD _]]]; split; auto.
    - pose proof (Forall2_keys _ _ _ _ _ HR) as Hkeys.
      simpl.
      destruct (lookup_rel rec D (n :: tl) (n_param n) fj fe HR) as [[Hj He]|[vj [ve [Hj [He Hrel]]]]];
        rewrite Hj, He.
      + assert (Hweak : Forall2 (item_rel rec D tl) fj fe).
        { eapply Forall2_impl; [exact HR|]. intros x y _ _ [Hk [Hv|[HD Hp]]]; split; auto.
          right. split; [assumption|]. now apply pending_weaken in Hp. }
        assert (Hfin : forall fsj fse, map fst fsj = map fst fj ->
                                       Forall2 (item_done D tl) fsj fse -> Forall2 (item_done D (n :: tl)) fsj fse).
        { intros fsj fse Hk HF. eapply Forall2_impl; [exact HF|].
          intros x y Hx _ [Hkx [Hv|[HD Hno]]]; split; auto. right. split; [assumption|].
          intros m [Hm|Hm]; [|now apply Hno]. subst m. intro E.
          apply lookup_none_keys in Hj. apply Hj. rewrite <- Hk, E. now apply in_map. }
        assert (Hgo : both_ok D (n :: tl) (resolve_nested rec tl fj) (resolve_nested rec tl fe)).
        { specialize (IH D fj fe Hnd Hweak).
          destruct (resolve_nested rec tl fj) as [fsj| |] eqn:E1;
            destruct (resolve_nested rec tl fe) as [fse| |] eqn:E2; simpl in *; auto.
          apply Hfin; [eapply resolve_nested_keys; eauto|assumption]. }
        destruct (n_guarded n); [exact Hgo|].
        destruct (rec (n_family n) VNone) as [o| |]; simpl; auto.
      + destruct Hrel as [_ [[Hv HnD]|[HD Hp]]].
        * simpl in Hv, HnD. subst ve.
          assert (Hfin : forall fsj fse, Forall2 (item_done D tl) fsj fse -> Forall2 (item_done D (n :: tl)) fsj fse).
          { intros fsj fse HF. eapply Forall2_impl; [exact HF|].
            intros x y _ _ [Hkx [Hv|[HDx Hno]]]; split; auto. right. split; [assumption|].
            intros m [Hm|Hm]; [|now apply Hno]. subst m. intro E. apply HnD. now rewrite E. }
          destruct (n_guarded n && is_none vj).
          -- assert (Hweak : Forall2 (item_rel rec D tl) fj fe).
             { eapply Forall2_impl; [exact HR|]. intros x y _ _ [Hk [Hv|[HDx Hpx]]]; split; auto.
               right. split; [assumption|]. now apply pending_weaken in Hpx. }
             eapply both_ok_weaken; [exact Hfin|]. now apply IH.
          -- destruct (rec (n_family n) vj) as [o| |]; simpl; auto.
             assert (Hweak : Forall2 (item_rel rec D tl) (set_key (n_param n) o fj) (set_key (n_param n) o fe)).
             { unfold set_key. eapply Forall2_map_in; [exact HR|].
               intros [kx vx] [ky vy] _ _ [Hk Hd]. simpl in Hk. subst ky. simpl.
               destruct (String.eqb_spec (n_param n) kx) as [E|E].
               - split; [reflexivity|]. left. simpl. split; [reflexivity|]. now rewrite <- E.
               - split; [reflexivity|]. simpl in *. destruct Hd as [Hd|[HDx Hpx]]; [now left|right].
                 split; [assumption|]. now apply pending_weaken in Hpx. }
             assert (Hnd' : NoDup (map fst (set_key (n_param n) o fe))) by now rewrite set_key_keys.
             eapply both_ok_weaken; [exact Hfin|]. now apply IH.
        * destruct Hp as [Hnj [Hne Hsteps]]. simpl in Hnj, Hne, HD, Hsteps.
          rewrite Hnj, Hne. rewrite !andb_false_r.
          destruct (Hsteps n (or_introl eq_refl) eq_refl) as [Hr1 Hr2].
          rewrite Hr1, Hr2. simpl.
          rewrite (set_key_same _ _ _ Hnd He).
          set (D' := filter (fun k => negb (String.eqb k (n_param n))) D).
          assert (HD' : forall k, In k D' <-> In k D /\ k <> n_param n).
          { intros k. unfold D'. rewrite filter_In. rewrite negb_true_iff.
            destruct (String.eqb_spec k (n_param n)); intuition congruence. }
          assert (Hweak : Forall2 (item_rel rec D' tl) (set_key (n_param n) ve fj) fe).
          { rewrite <- (map_id fe). unfold set_key. eapply Forall2_map_in; [exact HR|].
            intros [kx vx] [ky vy] Hx Hy [Hk Hd]. simpl in Hk. subst ky. simpl.
            destruct (String.eqb_spec (n_param n) kx) as [E|E].
            - subst kx. split; [reflexivity|]. left. simpl.
              rewrite (in_lookup _ _ _ Hnd Hy) in He. inversion He; subst.
              split; [reflexivity|]. rewrite HD'. tauto.
            - split; [reflexivity|]. simpl in *. destruct Hd as [[Hd1 Hd2]|[HDx Hpx]].
              + left. split; [assumption|]. rewrite HD'. tauto.
              + right. split; [apply HD'; split; [assumption|congruence]|].
                now apply pending_weaken in Hpx. }
          eapply both_ok_weaken; [|apply (IH D' _ _ Hnd Hweak)].
          intros fsj fse HF. eapply Forall2_impl; [exact HF|].
          intros x y _ _ [Hkx [Hv|[HDx Hno]]]; split; auto. right.
          apply HD' in HDx as [HDx Hne']. split; [assumption|].
          intros m [Hm|Hm]; [subst m; congruence|now apply Hno].
  Qed.
End AgreeBoth.

Section Converse.
  Variable r : registry.

  Lemma explicit_args_mono (ex1 ex2 : cfg -> res val) :
    (forall g v, ex1 g = Ok v -> ex2 g = Ok v) ->
    forall kw args, explicit_args ex1 kw = Ok args -> explicit_args ex2 kw = Ok args.
  Proof.
    intros Hle. induction kw as [|[k [v|g]] tl IH]; intros args H; simpl in *; [assumption| |].
    - destruct (explicit_args ex1 tl) as [l| |]; simpl in H; try discriminate.
      rewrite (IH l eq_refl). exact H.
    - destruct (ex1 g) as [o| |] eqn:E; simpl in H; try discriminate.
      rewrite (Hle _ _ E). simpl.
      destruct (explicit_args ex1 tl) as [l| |]; simpl in H; try discriminate.
      rewrite (IH l eq_refl). exact H.
  Qed.

  Lemma explicit_step : forall f g v, explicit r f g = Ok v -> explicit r (S f) g = Ok v.
  Proof.
    induction f as [|f IH]; intros g v H; [discriminate|].
    destruct g as [c a st kw]. simpl in H.
    destruct (explicit_args (explicit r f) kw) as [args| |] eqn:E; simpl in H; try discriminate.
    change (explicit r (S (S f)) (Cfg c a st kw))
      with (bind (explicit_args (explicit r (S f)) kw) (fun args => construct r (S f) c args)).
    rewrite (explicit_args_mono _ _ IH _ _ E). simpl.
    unfold construct in *. eapply construct_with_mono; [|exact H]. apply from_arg_step.
  Qed.

  Lemma explicit_mono : forall f f' g v, f <= f' -> explicit r f g = Ok v -> explicit r f' g = Ok v.
  Proof.
    intros f f' g v Hle. induction Hle as [|f' _ IH]; [auto|].
    intros H. apply explicit_step. now apply IH.
  Qed.

  (* a successful run resolved the parameter [k], and the first resolution saw
     the value that was passed *)
  Lemma resolve_first_step rec : forall steps fj fsj k vj,
      resolve_nested rec steps fj = Ok fsj ->
      lookup k fj = Some vj -> is_none vj = false ->
      (exists n, In n steps /\ n_param n = k) ->
      exists n o, In n steps /\ n_param n = k /\ rec (n_family n) vj = Ok o.
  Proof.
    induction steps as [|n tl IH]; intros fj fsj k vj Hres Hl Hnn [m [Hm Hk]]; [destruct Hm|].
    simpl in Hres. destruct (String.eqb_spec (n_param n) k) as [E|E].
    - rewrite E, Hl, Hnn, andb_false_r in Hres.
      destruct (rec (n_family n) vj) as [o| |] eqn:Er; simpl in Hres; try discriminate.
      exists n, o. repeat split; auto. now left.
    - assert (Hm' : exists n0, In n0 tl /\ n_param n0 = k).
      { destruct Hm as [Hm|Hm]; [subst; contradiction|]. now exists m. }
      assert (Hcont : forall fj', lookup k fj' = Some vj -> resolve_nested rec tl fj' = Ok fsj ->
                                  exists n0 o, In n0 (n :: tl) /\ n_param n0 = k /\ rec (n_family n0) vj = Ok o).
      { intros fj' Hl' Hr'. destruct (IH fj' fsj k vj Hr' Hl' Hnn Hm') as [n0 [o [H1 [H2 H3]]]].
        exists n0, o. repeat split; auto. now right. }
      assert (Hset : forall o, lookup k (set_key (n_param n) o fj) = Some vj).
      { intros o. clear -Hl E. induction fj as [|[k' v'] l IHl]; simpl in *; [discriminate|].
        destruct (String.eqb_spec (n_param n) k'); simpl.
        - destruct (String.eqb_spec k k'); [congruence|]. now apply IHl.
        - destruct (String.eqb_spec k k'); [assumption|]. now apply IHl. }
      destruct (lookup (n_param n) fj) as [v|].
      + destruct (n_guarded n && is_none v); [now apply (Hcont fj)|].
        destruct (rec (n_family n) v) as [o| |]; simpl in Hres; try discriminate.
        apply (Hcont _ (Hset o) Hres).
      + destruct (n_guarded n); [now apply (Hcont fj)|].
        destruct (rec (n_family n) VNone) as [o| |]; simpl in Hres; try discriminate.
        now apply (Hcont fj).
  Qed.

  Lemma items_lookup kw k g :
    NoDup (map fst kw) -> In (k, Nested g) kw -> lookup k (items kw) = Some (to_json g).
  Proof.
    intros Hnd Hin. apply in_lookup; [now rewrite items_keys|].
    unfold items. apply in_map_iff. exists (k, Nested g). split; [reflexivity|assumption].
  Qed.

  (* all components can be built explicitly with one common amount of fuel *)
  Lemma explicit_args_exists : forall kw,
      (forall k g, In (k, Nested g) kw -> exists f o, explicit r f g = Ok o) ->
      exists f args, explicit_args (explicit r f) kw = Ok args.
  Proof.
    induction kw as [|[k [v|g]] tl IH]; intros H.
    - exists 0, []. reflexivity.
    - destruct IH as [f [args Ha]]; [intros; eapply H; right; eauto|].
      exists f, ((k, v) :: args). simpl. now rewrite Ha.
    - destruct IH as [f [args Ha]]; [intros; eapply H; right; eauto|].
      destruct (H k g (or_introl eq_refl)) as [f1 [o Ho]].
      exists (Nat.max f f1), ((k, o) :: args). simpl.
      rewrite (explicit_mono f1 _ g o (Nat.le_max_r _ _) Ho). simpl.
      rewrite (explicit_args_mono (explicit r f) (explicit r (Nat.max f f1))
                                  (fun g0 v0 => explicit_mono f _ g0 v0 (Nat.le_max_l _ _)) _ _ Ha).
      reflexivity.
  Qed.

  (** Converse of [nested_build_eq_l]: if building from the JSON document succeeds,
      explicit construction succeeds too, with the same object. *)
  Theorem nested_build_conv_l : forall F g fam v,
      wf_cfg r fam g -> from_arg r F fam (to_json g) = Ok v ->
      exists f, explicit r f g = Ok v.
  Proof.
    induction F as [|F IH]; intros g fam v Hwf Hj; [discriminate|].
    inversion Hwf as [fam' ft c a st kw i Hs Hc Hi Hnd Ha Hcls Hn Hnest]; subst.
    rewrite (from_arg_to_json r F fam ft c a st kw Hs Hc Ha Hcls Hn) in Hj.
    unfold construct, construct_with in Hj. rewrite Hi in Hj.
    destruct (ci_abstract i) eqn:Eabs; [discriminate|].
    destruct (negb (bind_ok i (items kw))) eqn:Ebind; [discriminate|].
    destruct (resolve_nested (from_arg r F) (ci_nested i) (items kw)) as [fsj| |] eqn:Eres;
      simpl in Hj; try discriminate.
    inversion Hj; subst v. clear Hj.
    (* every component is built by the first resolution of its parameter *)
    assert (Hcomp : forall k g', In (k, Nested g') kw -> exists f o, explicit r f g' = Ok o).
    { intros k g' Hin. destruct (Hnest k g' Hin) as [Hex Hall].
      destruct (resolve_first_step _ _ _ _ k (to_json g') Eres (items_lookup kw k g' Hnd Hin)
                                   (to_json_not_none g') Hex) as [n [o [Hn1 [Hn2 Hn3]]]].
      destruct (IH g' (n_family n) o (Hall n Hn1 Hn2) Hn3) as [f Hf]. now exists f, o. }
    destruct (explicit_args_exists kw Hcomp) as [f0 [args Eargs]].
    set (d := cfg_depth (Cfg c a st kw)).
    set (M := Nat.max F (d + f0)).
    set (rec' := from_arg r M).
    assert (HleF : rec_le (from_arg r F) rec') by (apply from_arg_mono; unfold M; lia).
    pose proof (explicit_args_rel _ _ _ Eargs) as Hrel.
    assert (Hkeys : keys (items kw) = keys args).
    { unfold keys. rewrite items_keys. clear -Hrel. induction Hrel as [|p q ? ? [Hk _] _ IHr]; simpl; congruence. }
    set (D := map fst (filter (fun p => match snd p with Nested _ => true | Plain _ => false end) kw)).
    assert (HD : forall k, In k D <-> exists g', In (k, Nested g') kw).
    { intros k. unfold D. rewrite in_map_iff. split.
      - intros [[k' [v'|g']] [Hk Hin]]; apply filter_In in Hin as [Hin Hb]; simpl in *; try discriminate.
        subst. now exists g'.
      - intros [g' Hin]. exists (k, Nested g'). split; [reflexivity|]. apply filter_In. now split. }
    assert (Hndargs : NoDup (map fst args)).
    { unfold keys in Hkeys. rewrite <- Hkeys, items_keys. exact Hnd. }
    assert (HR : Forall2 (item_rel rec' D (ci_nested i)) (items kw) args).
    { unfold items. rewrite <- (map_id args).
      eapply Forall2_map_in; [exact Hrel|].
      intros [k [v'|g']] [k2 o] Hin _ [Hk Hv]; simpl in Hk, Hv; subst k2.
      - subst o. split; [reflexivity|]. left. split; [reflexivity|]. simpl.
        rewrite HD. intros [g' Hin']. clear -Hnd Hin Hin'.
        assert (Plain v' = Nested g'); [|discriminate].
        { revert Hnd Hin Hin'. induction kw as [|[k0 a0] tl IHk]; simpl; intros Hnd H1 H2; [destruct H1|].
          inversion Hnd as [|? ? Hn0 Hd0]; subst.
          destruct H1 as [H1|H1], H2 as [H2|H2].
          - congruence.
          - inversion H1; subst. exfalso. apply Hn0. change k with (fst (k, Nested g')). now apply in_map.
          - inversion H2; subst. exfalso. apply Hn0. change k with (fst (k, Plain v')). now apply in_map.
          - now apply IHk. }
      - split; [reflexivity|]. right. split; [apply HD; now exists g'|].
        destruct (Hnest k g' Hin) as [_ Hall].
        repeat split; simpl.
        + apply to_json_not_none.
        + destruct g' as [c' a' st' kw']. destruct (explicit_ok_inst _ _ _ _ _ _ _ Hv) as [fs Ho]. now subst o.
        + apply (from_arg_mono r (cfg_depth g' + f0) M).
          * pose proof (nested_depth c a st kw k g' Hin). fold d in H1. unfold M. lia.
          * apply nested_build_eq_l; [now apply Hall|exact Hv].
        + specialize (Hall n H H0). inversion Hall as [fam2 ft2 c2 a2 st2 kw2 i2 Hs2 Hc2]; subst.
          destruct (explicit_ok_inst _ _ _ _ _ _ _ Hv) as [fs Ho]. subst o.
          unfold rec'. assert (1 <= M) by (unfold M, d; simpl; lia).
          replace M with (S (M - 1)) by lia.
          apply from_arg_instance_l. eapply tree_from_alias_is_subclass; eauto. }
    pose proof (resolve_sim rec' (ci_nested i) D (items kw) args Hndargs HR) as Hsim.
    rewrite (resolve_nested_mono _ _ HleF _ _ _ Eres) in Hsim.
    destruct (resolve_nested rec' (ci_nested i) args) as [fse| |] eqn:Ee; simpl in Hsim; try contradiction.
    assert (Heq : fsj = fse).
    { clear -Hsim HD Hnest. induction Hsim as [|[kx vx] [ky vy] l l' [Hk Hv] _ IHd]; [reflexivity|].
      simpl in Hk, Hv. subst ky. f_equal; [|exact IHd]. f_equal.
      destruct Hv as [Hv|[HDx Hno]]; [exact Hv|]. exfalso.
      apply HD in HDx as [g' Hin]. destruct (Hnest kx g' Hin) as [[n [Hn1 Hn2]] _].
      exact (Hno n Hn1 Hn2). }
    subst fse.
    exists (S M). simpl.
    rewrite (explicit_args_mono (explicit r f0) (explicit r M)
                                (fun g0 v0 => explicit_mono f0 M g0 v0 ltac:(unfold M; lia)) _ _ Eargs).
    simpl. unfold construct, construct_with. fold rec'. rewrite Hi, Eabs.
    rewrite <- (bind_ok_keys i _ _ Hkeys), Ebind, Ee. reflexivity.
  Qed.
End Converse.

(** Both directions: an alias/JSON-built object exists exactly when the explicitly
    assembled one does, and they are the same object. *)
Corollary nested_build_iff_l : forall r g fam v,
    wf_cfg r fam g ->
    ((exists F, from_arg r F fam (to_json g) = Ok v) <-> (exists f, explicit r f g = Ok v)).
Proof.
  intros r g fam v Hwf. split.
  - intros [F H]. eapply nested_build_conv_l; eauto.
  - intros [f H]. exists (cfg_depth g + f). now apply nested_build_eq_l.
Qed.
