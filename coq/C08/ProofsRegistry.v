(* C08 - facts about the registry GENERATED from the sources (gen/C08_Registry.v),
   decided by evaluation (finite domain: the classes and aliases that exist). *)
From Coq Require Import String.
From Coq Require Import ZArith List Bool Lia.
From Verif Require Import C08.Model C08.ProofsMachine C08.ProofsTree C08.ProofsBuild C08.ProofsNested.
From Verif Require Import gen.C08_Registry.
Import ListNotations.

Fixpoint nodupb (l : list Z) : bool :=
  match l with
  | [] => true
  | x :: tl => negb (mem_id x tl) && nodupb tl
  end.

Lemma nodupb_NoDup l : nodupb l = true -> NoDup l.
Proof.
  induction l as [|x l IH]; simpl; intros H; [constructor|].
  apply andb_true_iff in H as [H1 H2]. constructor; [|now apply IH].
  apply negb_true_iff in H1. now apply mem_id_false.
Qed.

Definition is_abstract (r : registry) (c : Z) : bool :=
  match info r c with Some i => ci_abstract i | None => true end.

(* every alias of every concrete class below [anc] resolves, from [anc], to that class *)
Definition resolves_from (r : registry) (anc : ctree) : bool :=
  forallb (fun n =>
             is_abstract r (t_id n)
             || forallb (fun a => match tree_from_alias anc a with
                                  | Some c => Z.eqb c (t_id n)
                                  | None => false
                                  end) (t_al n))
          (visit_order anc).

Definition family_trees (r : registry) (fams : list Z) : list ctree :=
  flat_map (fun f => match subtree (r_tree r) f with Some t => [t] | None => [] end) fams.

(* ... from the family root and from every intermediate base class as well *)
Definition registry_resolves_b (r : registry) (fams : list Z) : bool :=
  forallb (fun ft => forallb (resolves_from r) (visit_order ft)) (family_trees r fams).

Lemma reg_resolves_b : registry_resolves_b reg reg_families = true.
Proof. vm_compute. reflexivity. Qed.

Lemma registry_resolves_l : forall fam ft anc n a,
    In fam reg_families -> subtree reg_tree fam = Some ft ->
    In anc (visit_order ft) -> In n (visit_order anc) ->
    is_abstract reg (t_id n) = false -> In a (t_al n) ->
    tree_from_alias anc a = Some (t_id n).
Proof.
  intros fam ft anc n a Hfam Hft Hanc Hn Habs Ha.
  pose proof reg_resolves_b as H. unfold registry_resolves_b in H.
  rewrite forallb_forall in H. specialize (H ft).
  assert (Hin : In ft (family_trees reg reg_families)).
  { unfold family_trees. apply in_flat_map. exists fam. split; [assumption|].
    change (r_tree reg) with reg_tree. rewrite Hft. now left. }
  specialize (H Hin). rewrite forallb_forall in H. specialize (H anc Hanc).
  unfold resolves_from in H. rewrite forallb_forall in H. specialize (H n Hn).
  rewrite Habs in H. simpl in H. rewrite forallb_forall in H. specialize (H a Ha).
  destruct (tree_from_alias anc a) as [c|]; [|discriminate].
  apply Z.eqb_eq in H. now subst.
Qed.

(* every family root of the property exists, and every concrete class that
   carries an alias lies in one of the families *)
Definition families_cover_b (r : registry) (fams : list Z) : bool :=
  Nat.eqb (List.length (family_trees r fams)) (List.length fams)
  && forallb (fun n => is_abstract r (t_id n)
                       || match t_al n with [] => true | _ => false end
                       || existsb (fun f => is_subclass (r_tree r) (t_id n) f) fams)
             (visit_order (r_tree r)).

Lemma reg_families_cover_l : families_cover_b reg reg_families = true.
Proof. vm_compute. reflexivity. Qed.

(* class objects are distinct; every class has its constructor description *)
Lemma reg_ids_nodup_l : NoDup (ids reg_tree).
Proof. apply nodupb_NoDup. vm_compute. reflexivity. Qed.

Definition info_complete_b (r : registry) : bool :=
  forallb (fun n => match info r (t_id n) with Some _ => true | None => false end)
          (visit_order (r_tree r))
  && nodupb (map ci_id (r_info r))
  && forallb (fun i => forallb (fun n =>
                match subtree (r_tree r) (n_family n) with Some _ => true | None => false end
                && mem_str (n_param n) (map fst (ci_params i))) (ci_nested i)) (r_info r).

Lemma reg_info_complete_l : info_complete_b reg = true.
Proof. vm_compute. reflexivity. Qed.

(* informative only (nothing depends on it since from_alias compares registration
   indices): the whole registry, and every family, is registered depth first *)
Lemma reg_depth_first_l :
  registered_depth_first reg_tree = true
  /\ forallb registered_depth_first (flat_map visit_order (family_trees reg reg_families)) = true.
Proof. split; vm_compute; reflexivity. Qed.

(* the family a constructor resolves a parameter in is the one its annotation names *)
Definition annotations_agree_b (l : list (Z * string * Z * option Z)) : bool :=
  forallb (fun e => match e with
                    | (_, _, fam, Some ann) => Z.eqb fam ann
                    | (_, _, _, None) => true
                    end) l.

Lemma reg_annotations_agree_l : annotations_agree_b reg_annotated = true.
Proof. vm_compute. reflexivity. Qed.

(* ------------------------------------------------------------------ *)
(** * the hypotheses of the nested-configuration theorem are satisfiable *)

Local Open Scope string_scope.

(* {"name": "stft", "bank": {"alias": "tri", "num_filts": 5, "scaling_function": "mel"},
    "window_function": {"name": "gamma", "order": 2}} - built on the generated
   registry when these classes and aliases exist; the statement is then checked by
   evaluation, and is skipped (trivially true) if the registry no longer has them *)
Definition example_cfg (stft tri mel gamma : Z) : cfg :=
  Cfg stft "stft" (SName 1)
      [("bank", Nested (Cfg tri "tri" (SAlias 0)
                            [("num_filts", Plain (VNum "5"));
                             ("scaling_function", Nested (Cfg mel "mel" SString []))]));
       ("window_function", Nested (Cfg gamma "gamma" (SName 5) [("order", Plain (VNum "2"))]))].

Definition id_of (name : string) : option Z :=
  match find (fun p => String.eqb (snd p) name) reg_names with
  | Some p => Some (fst p)
  | None => None
  end.

Definition example_check : bool :=
  match id_of "ShortTimeFourierTransformFrameComputer", id_of "TriangularOverlappingFilterBank",
        id_of "MelScaling", id_of "GammaWindow", id_of "FrameComputer" with
  | Some stft, Some tri, Some mel, Some gamma, Some fam =>
    let g := example_cfg stft tri mel gamma in
    match explicit reg 5 g, from_arg reg 8 fam (to_json g) with
    | Ok (VInst c1 f1), Ok (VInst c2 f2) => Z.eqb c1 stft && Z.eqb c2 stft
    | _, _ => false
    end
  | _, _, _, _, _ => true
  end.

Example nested_build_example : example_check = true.
Proof. vm_compute. reflexivity. Qed.
