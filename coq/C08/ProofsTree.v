(* C08 - from_alias on class trees (identity of a class = its registration
   index): the exact answer, unknown alias, "the class registered last wins" in
   ANY tree, siblings and subclass/base as corollaries, and the record of the
   repaired defect (the loop before the repair on the cross-branch hierarchy). *)
From Coq Require Import String.
From Coq Require Import ZArith List Bool Lia.
From Verif Require Import C08.Model C08.ProofsMachine.
Import ListNotations.

Lemma thas_true a n : thas a n = true <-> In a (t_al n).
Proof. unfold has_alias. apply mem_str_true. Qed.

Lemma thas_false a n : thas a n = false <-> ~ In a (t_al n).
Proof. rewrite <- thas_true. destruct (thas a n); split; congruence. Qed.

Lemma visit_order_closed' t :
  forall n, In n (visit_order t) -> forall d, In d (t_subs n) -> In d (visit_order t).
Proof. intros n Hn d Hd. eapply visit_order_closed; eauto. Qed.

(** what is found carries the alias and belongs to the tree (no hypothesis) *)
Lemma tree_from_alias_in t a c :
  tree_from_alias t a = Some c ->
  exists n, In n (visit_order t) /\ t_id n = c /\ In a (t_al n).
Proof.
  unfold tree_from_alias.
  destruct (tree_run (tree_fuel t) [t] [] None a) as [n| |] eqn:E; try discriminate.
  intros H. inversion H; subst. apply run_sound in E as [E Ha].
  exists n. repeat split; [now apply treach_in|now apply thas_true].
Qed.

(** the exact answer: the class that carries the alias and was registered after
    every other class of the tree that carries it *)
Lemma tree_from_alias_spec_l t a :
  NoDup (ids t) ->
  forall c, tree_from_alias t a = Some c <->
            exists n, In n (visit_order t) /\ t_id n = c /\ In a (t_al n) /\
                      forall m, In m (visit_order t) -> In a (t_al m) -> m <> n ->
                                (t_id m < t_id n)%Z.
Proof.
  intros Hnd c.
  pose proof (run_spec ctree t_id t_id t_subs t_al (visit_order t) (visit_order_closed' t)
                       t a (visit_order_self t) (tree_id_inj t Hnd) (tree_id_inj t Hnd)
                       (tree_fuel t) (le_n _)) as S.
  unfold tree_from_alias, tree_run. split.
  - destruct (run ctree t_id t_id t_subs t_al (tree_fuel t) [t] [] None a) as [n| |] eqn:E;
      try discriminate.
    intros H. inversion H; subst c. destruct (proj1 (S n) eq_refl) as [E1 [E2 E3]].
    exists n. split; [now apply treach_in|]. split; [reflexivity|]. split; [now apply thas_true|].
    intros m Hm Ham Hne. apply E3; [now apply in_treach|now apply thas_true|exact Hne].
  - intros [n [Hn [Hid [Ha Hmax]]]].
    assert (L : last_carrier ctree t_id t_subs t_al t a n).
    { split; [now apply in_treach|]. split; [now apply thas_true|].
      intros m Hm Ham Hne. apply Hmax; [now apply treach_in|now apply thas_true|exact Hne]. }
    apply (proj2 (S n)) in L. rewrite L. now subst.
Qed.

(** ValueError exactly when no class of the tree carries the alias *)
Lemma tree_unknown_alias_l t a :
  NoDup (ids t) ->
  (tree_from_alias t a = None <-> forall n, In n (visit_order t) -> ~ In a (t_al n)).
Proof.
  intros Hnd.
  pose proof (run_not_found_iff ctree t_id t_id t_subs t_al (visit_order t) (visit_order_closed' t)
                                t a (visit_order_self t) (tree_id_inj t Hnd)
                                (tree_fuel t) (le_n _)) as S.
  pose proof (tree_fuel_ok t a) as T. unfold tree_from_alias, trun, tree_run in *. split.
  - destruct (run ctree t_id t_id t_subs t_al (tree_fuel t) [t] [] None a) as [n| |] eqn:E;
      [discriminate| |congruence].
    intros _ n Hn. apply thas_false. apply (proj1 S eq_refl). now apply in_treach.
  - intros Hno. rewrite (proj2 S); [reflexivity|].
    intros n Hn. apply thas_false. apply Hno. now apply treach_in.
Qed.

(** "the class registered last wins": in ANY class tree the answer has the
    greatest registration index among the classes carrying the alias *)
Lemma tree_last_registered_wins_l t a c :
  NoDup (ids t) -> tree_from_alias t a = Some c ->
  forall m, In m (visit_order t) -> In a (t_al m) -> (t_id m <= c)%Z.
Proof.
  intros Hnd H m Hm Ha. unfold tree_from_alias, tree_run in H.
  destruct (run ctree t_id t_id t_subs t_al (tree_fuel t) [t] [] None a) as [n| |] eqn:E;
    try discriminate.
  inversion H; subst c.
  apply (run_last_registered ctree t_id t_id t_subs t_al t a (tree_id_inj t Hnd) _ n E m);
    [now apply in_treach|now apply thas_true].
Qed.

(* ------------------------------------------------------------------ *)
(** * Siblings, subclass and base *)

Lemma increasing_cons x l :
  increasing (x :: l) = true -> increasing l = true /\ forall y, In y l -> (x < y)%Z.
Proof.
  revert x. induction l as [|y l IH]; intros x H; [split; [reflexivity|intros ? []]|].
  simpl in H. apply andb_true_iff in H as [H1 H2]. apply Z.ltb_lt in H1.
  split; [exact H2|]. intros z [Hz|Hz]; [subst; assumption|].
  destruct (IH y H2) as [_ H3]. specialize (H3 z Hz). lia.
Qed.

Lemma increasing_app_r l1 l2 : increasing (l1 ++ l2) = true -> increasing l2 = true.
Proof.
  induction l1 as [|x l1 IH]; [auto|]. intros H. simpl app in H.
  apply increasing_cons in H as [H _]. auto.
Qed.

(* every class of a tree built by Python is registered after its base *)
Lemma consistent_after_base : forall t, registration_consistent t = true ->
    forall c, In c (visit_order t) -> forall d, In d (t_subs c) -> (t_id c < t_id d)%Z.
Proof.
  induction t as [c0 al ch IH] using ctree_ind'. intros Hc c Hin d Hd.
  simpl in Hc. apply andb_true_iff in Hc as [Hc Hrec]. apply andb_true_iff in Hc as [Hlt _].
  rewrite forallb_forall in Hlt, Hrec.
  apply in_visit_order_node in Hin as [Hin|Hin].
  - subst c. simpl in *. apply Z.ltb_lt. now apply Hlt.
  - apply in_forest_order in Hin as [k [Hk Hin]]. rewrite Forall_forall in IH.
    eapply IH; eauto.
Qed.

(** two sibling classes: if the later registered one carries the alias, the
    earlier one never answers - whatever is instantiated was registered no
    earlier than the later sibling *)
Lemma later_sibling_wins_l c al pre x mid y post a r :
  let t := Node c al (pre ++ x :: mid ++ y :: post) in
  NoDup (ids t) -> registration_consistent t = true ->
  In a (t_al y) -> tree_from_alias t a = Some r ->
  (t_id x < t_id y <= r)%Z.
Proof.
  intros t Hnd Hc Hay H. split.
  - unfold t in Hc. simpl in Hc. apply andb_true_iff in Hc as [Hc _].
    apply andb_true_iff in Hc as [_ Hinc]. rewrite map_app in Hinc.
    apply increasing_app_r in Hinc. simpl map in Hinc.
    apply increasing_cons in Hinc as [_ Hinc]. apply Hinc.
    rewrite map_app. apply in_or_app. right. now left.
  - apply (tree_last_registered_wins_l t a r Hnd H); [|exact Hay].
    unfold t. apply in_visit_order_node. right. apply in_forest_order. exists y.
    split; [|apply visit_order_self]. apply in_or_app. right. right. apply in_or_app. right. now left.
Qed.

(** a class and one of its (transitive) subclasses carry the alias: the base
    never answers (a subclass is always registered after its base) *)
Lemma subclass_shadows_base_l t a r base m :
  NoDup (ids t) -> registration_consistent t = true ->
  tree_from_alias t a = Some r ->
  In base (visit_order t) -> In m (forest_order (t_subs base)) -> In a (t_al m) ->
  (t_id base < r)%Z.
Proof.
  intros Hnd Hc H Hb Hm Ha.
  apply in_forest_order in Hm as [d [Hd Hm]].
  assert (Hafter : forall c k, TReach t c -> In k (t_subs c) -> (t_id c < t_id k)%Z).
  { intros c k Hck Hk. eapply consistent_after_base; eauto. now apply treach_in. }
  assert (Hrd : TReach t d) by (eapply Reach_step; [apply in_treach; exact Hb|exact Hd]).
  assert (Hdm : TReach d m) by now apply in_treach.
  assert (Hrm : In m (visit_order t)) by (apply treach_in; eapply Reach_trans; eauto).
  pose proof (tree_last_registered_wins_l t a r Hnd H m Hrm Ha) as Hle.
  pose proof (reach_registered_later ctree t_id t_subs t Hafter d Hrd m Hdm) as H1.
  pose proof (Hafter base d (in_treach _ _ Hb) Hd) as H2. lia.
Qed.

(* ------------------------------------------------------------------ *)
(** * The repaired defect *)

(** R; B(R); C(R) aliases={"x"}; D(B) aliases={"x"} - identities = registration
    order R=0, B=1, C=2, D=3.  The loop before the repair (Model.run_old, a stack
    DFS that tests a class after the subtrees of its later registered siblings)
    answered C although D was registered last; the repaired loop answers D. *)
Definition late_subclass_tree : ctree :=
  Node 0 [] [Node 1 [] [Node 3 ["x"%string] []]; Node 2 ["x"%string] []].

Lemma old_loop_refuted_new_loop_repaired_l :
  exists t a c m,
    registration_consistent t = true /\ NoDup (ids t) /\
    In m (visit_order t) /\ In a (t_al m) /\
    tree_from_alias_old t a = Some c /\ (c < t_id m)%Z /\
    tree_from_alias t a = Some (t_id m).
Proof.
  exists late_subclass_tree, "x"%string, 2%Z, (Node 3 ["x"%string] []).
  repeat split; try reflexivity.
  - vm_compute. repeat constructor; simpl; intuition discriminate.
  - vm_compute. tauto.
  - vm_compute. tauto.
Qed.

(* hypotheses are satisfiable: a tree that is NOT registered depth first *)
Example cross_branch_example :
  registration_consistent late_subclass_tree = true
  /\ registered_depth_first late_subclass_tree = false
  /\ tree_from_alias late_subclass_tree "x" = Some 3%Z.
Proof. repeat split; reflexivity. Qed.
