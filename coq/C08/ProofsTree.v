(* C08 - consequences of the exact specification of from_alias on class trees:
   unknown alias, shadowing between siblings and between a class and its
   subclasses, "the class registered last wins" and when exactly that holds. *)
From Coq Require Import String.
From Coq Require Import ZArith List Bool Lia.
From Verif Require Import C08.Model C08.ProofsMachine.
Import ListNotations.

Lemma forest_order_app l1 l2 : forest_order (l1 ++ l2) = forest_order l1 ++ forest_order l2.
Proof. unfold forest_order. now rewrite map_app, concat_app. Qed.

Lemma forest_order_in_rev m l : In m (forest_order (rev l)) <-> In m (forest_order l).
Proof.
  unfold forest_order. rewrite !in_concat. split; intros [x [Hx Hm]]; exists x; split; auto;
    rewrite in_map_iff in *; destruct Hx as [y [Hy Hin]]; exists y; split; auto;
    [apply in_rev in Hin|apply -> in_rev in Hin]; assumption.
Qed.

Lemma spec_node c al ch a :
  spec_from_alias (Node c al ch) a =
  match find (thas a) (forest_order (rev ch)) with
  | Some n => Some n
  | None => if thas a (Node c al ch) then Some (Node c al ch) else None
  end.
Proof. unfold spec_from_alias. rewrite visit_order_node, find_app. reflexivity. Qed.

(** what is found carries the alias and belongs to the tree *)
Lemma spec_sound t a n :
  spec_from_alias t a = Some n -> In n (visit_order t) /\ In a (t_al n).
Proof.
  unfold spec_from_alias. intros H. apply find_some in H as [H1 H2]. split; [assumption|].
  unfold has_alias in H2. now apply mem_str_true in H2.
Qed.

(** nothing is found exactly when no class of the tree carries the alias *)
Lemma spec_none t a :
  spec_from_alias t a = None <-> (forall n, In n (visit_order t) -> ~ In a (t_al n)).
Proof.
  unfold spec_from_alias. rewrite find_none_iff. split; intros H n Hn.
  - intro Hc. specialize (H n Hn). unfold has_alias in H.
    apply mem_str_true in Hc. congruence.
  - specialize (H n Hn). unfold has_alias. destruct (mem_str a (t_al n)) eqn:E; [|reflexivity].
    apply mem_str_true in E. contradiction.
Qed.

(** of two sibling subtrees that both contain the alias, the one registered
    later answers; the earlier one is reached only if no later sibling matches *)
Lemma later_sibling_wins_l c al pre y post a n :
  spec_from_alias y a = Some n ->
  (forall m, In m (forest_order post) -> ~ In a (t_al m)) ->
  spec_from_alias (Node c al (pre ++ y :: post)) a = Some n.
Proof.
  intros Hy Hpost. rewrite spec_node, rev_app_distr. simpl rev. rewrite <- app_assoc.
  rewrite forest_order_app, find_app.
  assert (Hn : find (thas a) (forest_order (rev post)) = None).
  { apply find_none_iff. intros m Hm. apply (proj1 (forest_order_in_rev _ _)) in Hm.
    specialize (Hpost m Hm). unfold has_alias.
    destruct (mem_str a (t_al m)) eqn:E; [|reflexivity].
    apply mem_str_true in E. contradiction. }
  rewrite Hn. simpl app. rewrite forest_order_cons, find_app.
  unfold spec_from_alias in Hy. rewrite Hy. reflexivity.
Qed.

(** a class answers only if none of its (transitive) subclasses carries the alias *)
Lemma subclass_shadows_base_l c al ch a n :
  spec_from_alias (Node c al ch) a = Some n ->
  (exists m, In m (forest_order ch) /\ In a (t_al m)) ->
  In n (forest_order ch).
Proof.
  intros H [m [Hm Ha]]. rewrite spec_node in H.
  destruct (find (thas a) (forest_order (rev ch))) as [n'|] eqn:E.
  - inversion H; subst. apply find_some in E as [E _]. now apply (proj1 (forest_order_in_rev _ _)).
  - exfalso. apply (proj1 (find_none_iff _ _)) with (x := m) in E.
    + unfold has_alias in E. apply mem_str_true in Ha. congruence.
    + now apply (proj2 (forest_order_in_rev _ _)).
Qed.

(* ------------------------------------------------------------------ *)
(** * "The class registered last wins" *)

Lemma rev_concat {A} (l : list (list A)) : rev (concat l) = concat (rev (map (@rev A) l)).
Proof.
  induction l as [|x l IH]; simpl; [reflexivity|].
  rewrite rev_app_distr, IH, concat_app. simpl. now rewrite app_nil_r.
Qed.

Lemma visit_order_preorder : forall t, visit_order t = rev (preorder t).
Proof.
  induction t as [c al ch IH] using ctree_ind'. simpl.
  rewrite rev_concat, map_map. f_equal. f_equal. f_equal.
  induction IH as [|x l Hx _ IHl]; simpl; [reflexivity|]. now rewrite Hx, IHl.
Qed.

Lemma increasing_cons x l :
  increasing (x :: l) = true -> increasing l = true /\ forall y, In y l -> (x < y)%Z.
Proof.
  revert x. induction l as [|y l IH]; intros x H; [split; [reflexivity|intros ? []]|].
  simpl in H. apply andb_true_iff in H as [H1 H2]. apply Z.ltb_lt in H1.
  split; [exact H2|]. intros z [Hz|Hz]; [subst; assumption|].
  destruct (IH y H2) as [_ H3]. specialize (H3 z Hz). lia.
Qed.

(* the first match in a list with decreasing identities has the largest identity *)
Lemma find_first_is_max (p : ctree -> bool) : forall l n,
    increasing (map t_id (rev l)) = true ->
    find p l = Some n -> forall m, In m l -> p m = true -> (t_id m <= t_id n)%Z.
Proof.
  induction l as [|x l IH]; intros n Hinc Hf m Hm Hp; [destruct Hm|].
  simpl in Hinc. rewrite map_app in Hinc. simpl in Hinc.
  assert (Hinc' : increasing (map t_id (rev l)) = true /\
                  forall y, In y (map t_id (rev l)) -> (y < t_id x)%Z).
  { clear -Hinc. induction (map t_id (rev l)) as [|y q IHq]; [split; [reflexivity|intros ? []]|].
    simpl app in Hinc. destruct (increasing_cons _ _ Hinc) as [H1 H2].
    destruct (IHq H1) as [H3 H4]. split.
    - destruct q; [reflexivity|]. simpl. simpl app in Hinc. simpl in Hinc.
      apply andb_true_iff in Hinc as [Hlt _]. rewrite Hlt. exact H3.
    - intros z [Hz|Hz]; [subst; apply H2; apply in_or_app; right; now left|now apply H4]. }
  destruct Hinc' as [Hl Hlt]. simpl in Hf. destruct (p x) eqn:Epx.
  - inversion Hf; subst n. destruct Hm as [Hm|Hm]; [subst; lia|].
    assert (t_id m < t_id x)%Z; [|lia]. apply Hlt. apply in_map. now apply -> in_rev.
  - destruct Hm as [Hm|Hm]; [subst; congruence|]. eapply IH; eauto.
Qed.

(** In a tree registered depth first (see Model.v) the class that answers is,
    among the classes carrying the alias, the one registered last. *)
Lemma last_registered_wins_l t a n :
  registered_depth_first t = true ->
  spec_from_alias t a = Some n ->
  forall m, In m (visit_order t) -> In a (t_al m) -> (t_id m <= t_id n)%Z.
Proof.
  unfold registered_depth_first, spec_from_alias. intros Hinc Hf m Hm Ha.
  eapply find_first_is_max; eauto.
  - now rewrite visit_order_preorder, rev_involutive.
  - unfold has_alias. now apply mem_str_true.
Qed.

(** Without that condition the claim is false: B, C(B's sibling, later) and D
    (a subclass of B registered after C): C answers although D was registered last. *)
Definition late_subclass_tree : ctree :=
  Node 0 [] [Node 1 [] [Node 3 ["x"%string] []]; Node 2 ["x"%string] []].

Lemma last_registered_refuted_l :
  exists t a c m,
    registration_consistent t = true /\ NoDup (ids t) /\
    tree_from_alias t a = Some c /\ In m (visit_order t) /\ In a (t_al m) /\ (c < t_id m)%Z.
Proof.
  exists late_subclass_tree, "x"%string, 2%Z, (Node 3 ["x"%string] []).
  repeat split; try reflexivity.
  - vm_compute. repeat constructor; simpl; intuition discriminate.
  - vm_compute. tauto.
  - vm_compute. tauto.
Qed.

(* hypotheses are satisfiable *)
Example depth_first_example :
  registered_depth_first (Node 0 [] [Node 1 ["a"%string] [Node 2 ["a"%string] []]; Node 3 ["b"%string] []]) = true.
Proof. reflexivity. Qed.
