(* C08 - the property theorems, and nothing else.  Each is closed by [exact] of a
   lemma of the Proofs*.v files; the axioms each depends on are printed beneath it.
   [reg], [reg_tree], [reg_families] are gen/C08_Registry.v, regenerated from
   src/pydrobert/speech/*.py on every run. *)
From Coq Require Import String.
From Coq Require Import ZArith List Bool.
From Verif Require Import C08.Model C08.HeapModel C08.ProofsMachine C08.ProofsTree C08.ProofsBuild C08.ProofsNested C08.ProofsHeap C08.ProofsRegistry.
From Verif Require Import gen.C08_Registry.
Import ListNotations.
Local Open Scope string_scope.

(* ---- from_alias on ANY class graph (multiple inheritance, any finite shape, any
        registration order).  [nid] = identity of a class object, [nreg] = its
        _registration_index, [nsubs] = __subclasses__(), [nal] = its aliases ---- *)

(* the loop ends within fuel_bound iterations on a finite set of classes closed under __subclasses__ *)
Theorem from_alias_terminates :
  forall (N : Type) (nid nreg : N -> Z) (nsubs : N -> list N) (nal : N -> list string) (U : list N),
    (forall n, In n U -> forall d, In d (nsubs n) -> In d U) ->
    forall root a f, In root U -> fuel_bound N nsubs U <= f ->
                     run N nid nreg nsubs nal f [root] [] None a <> NoFuel.
Proof. exact run_terminates. Qed.
Print Assumptions from_alias_terminates.

(* what is instantiated is a (transitive) subclass of cls carrying the alias:
   a look-up never leaves the family *)
Theorem from_alias_sound :
  forall (N : Type) (nid nreg : N -> Z) (nsubs : N -> list N) (nal : N -> list string) root f a n,
    run N nid nreg nsubs nal f [root] [] None a = Found n ->
    Reach N nsubs root n /\ has_alias N nal a n = true.
Proof. exact run_sound. Qed.
Print Assumptions from_alias_sound.

(* THE CLAUSE: two (or more) classes share an alias - the one registered last
   wins, in any hierarchy: the class that is instantiated has the greatest
   registration index among all (transitive) subclasses carrying the alias *)
Theorem last_registered_wins :
  forall (N : Type) (nid nreg : N -> Z) (nsubs : N -> list N) (nal : N -> list string) root a,
    (forall x y, Reach N nsubs root x -> Reach N nsubs root y -> nid x = nid y -> x = y) ->
    forall f n, run N nid nreg nsubs nal f [root] [] None a = Found n ->
    forall c, Reach N nsubs root c -> has_alias N nal a c = true -> (nreg c <= nreg n)%Z.
Proof. exact run_last_registered. Qed.
Print Assumptions last_registered_wins.

(* the exact answer.  On a finite class graph closed under __subclasses__, with
   distinct class objects and distinct registration indices, and enough fuel:
   from_alias instantiates c  iff  c is reachable from cls (cls included),
   carries the alias, and every other reachable class carrying the alias has a
   smaller registration index *)
Theorem from_alias_spec :
  forall (N : Type) (nid nreg : N -> Z) (nsubs : N -> list N) (nal : N -> list string) (U : list N),
    (forall n, In n U -> forall d, In d (nsubs n) -> In d U) ->
    forall root a, In root U ->
    (forall x y, Reach N nsubs root x -> Reach N nsubs root y -> nid x = nid y -> x = y) ->
    (forall x y, Reach N nsubs root x -> Reach N nsubs root y -> nreg x = nreg y -> x = y) ->
    forall f, fuel_bound N nsubs U <= f ->
    forall c, run N nid nreg nsubs nal f [root] [] None a = Found c <->
              (Reach N nsubs root c /\ has_alias N nal a c = true /\
               forall m, Reach N nsubs root m -> has_alias N nal a m = true -> m <> c ->
                         (nreg m < nreg c)%Z).
Proof. exact run_spec. Qed.
Print Assumptions from_alias_spec.

(* ValueError is raised iff no (transitive) subclass carries the alias *)
Theorem unknown_alias_error :
  forall (N : Type) (nid nreg : N -> Z) (nsubs : N -> list N) (nal : N -> list string) (U : list N),
    (forall n, In n U -> forall d, In d (nsubs n) -> In d U) ->
    forall root a, In root U ->
    (forall x y, Reach N nsubs root x -> Reach N nsubs root y -> nid x = nid y -> x = y) ->
    forall f, fuel_bound N nsubs U <= f ->
    (run N nid nreg nsubs nal f [root] [] None a = NotFound <->
     forall n, Reach N nsubs root n -> has_alias N nal a n = false).
Proof. exact run_not_found_iff. Qed.
Print Assumptions unknown_alias_error.

(* ... the "only if" half needs neither finiteness nor a fuel bound *)
Theorem from_alias_unknown_only :
  forall (N : Type) (nid nreg : N -> Z) (nsubs : N -> list N) (nal : N -> list string) root a,
    (forall x y, Reach N nsubs root x -> Reach N nsubs root y -> nid x = nid y -> x = y) ->
    forall f, run N nid nreg nsubs nal f [root] [] None a = NotFound ->
              forall n, Reach N nsubs root n -> has_alias N nal a n = false.
Proof. exact run_complete. Qed.
Print Assumptions from_alias_unknown_only.

(* a class and one of its (transitive) subclasses carry the alias: the base never
   answers, because a class is registered after each of its bases *)
Theorem subclass_shadows_base :
  forall (N : Type) (nid nreg : N -> Z) (nsubs : N -> list N) (nal : N -> list string) root a,
    (forall x y, Reach N nsubs root x -> Reach N nsubs root y -> nid x = nid y -> x = y) ->
    (forall c d, Reach N nsubs root c -> In d (nsubs c) -> (nreg c < nreg d)%Z) ->
    forall f n, run N nid nreg nsubs nal f [root] [] None a = Found n ->
    forall base d m, Reach N nsubs root base -> In d (nsubs base) -> Reach N nsubs d m ->
                     has_alias N nal a m = true -> n <> base.
Proof. exact subclass_shadows_base_gen. Qed.
Print Assumptions subclass_shadows_base.

(* ---- class trees (identity of a class = its registration index; the form in
        which the registry below and alias_factory_subclass_from_arg use from_alias) ---- *)

Theorem tree_from_alias_spec :
  forall t a, NoDup (ids t) ->
    forall c, tree_from_alias t a = Some c <->
              exists n, In n (visit_order t) /\ t_id n = c /\ In a (t_al n) /\
                        forall m, In m (visit_order t) -> In a (t_al m) -> m <> n ->
                                  (t_id m < t_id n)%Z.
Proof. exact tree_from_alias_spec_l. Qed.
Print Assumptions tree_from_alias_spec.

Theorem tree_unknown_alias_error :
  forall t a, NoDup (ids t) ->
    (tree_from_alias t a = None <-> forall n, In n (visit_order t) -> ~ In a (t_al n)).
Proof. exact tree_unknown_alias_l. Qed.
Print Assumptions tree_unknown_alias_error.

Theorem resolved_class_has_alias :
  forall t a c, tree_from_alias t a = Some c ->
    exists n, In n (visit_order t) /\ t_id n = c /\ In a (t_al n).
Proof. exact tree_from_alias_in. Qed.
Print Assumptions resolved_class_has_alias.

(* any class tree - no condition on the order in which its branches were registered *)
Theorem tree_last_registered_wins :
  forall t a c, NoDup (ids t) -> tree_from_alias t a = Some c ->
    forall m, In m (visit_order t) -> In a (t_al m) -> (t_id m <= c)%Z.
Proof. exact tree_last_registered_wins_l. Qed.
Print Assumptions tree_last_registered_wins.

(* two sibling classes x (earlier) and y (later): if y carries the alias, what is
   instantiated was registered no earlier than y - never x *)
Theorem later_sibling_wins :
  forall c al pre x mid y post a r,
    let t := Node c al (pre ++ x :: mid ++ y :: post) in
    NoDup (ids t) -> registration_consistent t = true ->
    In a (t_al y) -> tree_from_alias t a = Some r ->
    (t_id x < t_id y <= r)%Z.
Proof. exact later_sibling_wins_l. Qed.
Print Assumptions later_sibling_wins.

(* a class of the tree and one of its (transitive) subclasses carry the alias:
   what is instantiated was registered after the base - never the base *)
Theorem subclass_shadows_base_tree :
  forall t a r base m,
    NoDup (ids t) -> registration_consistent t = true ->
    tree_from_alias t a = Some r ->
    In base (visit_order t) -> In m (forest_order (t_subs base)) -> In a (t_al m) ->
    (t_id base < r)%Z.
Proof. exact subclass_shadows_base_l. Qed.
Print Assumptions subclass_shadows_base_tree.

(* the repaired defect, kept on record.  On the hierarchy
     R; B(R); C(R) aliases={"x"}; D(B) aliases={"x"}      (ids 0,1,2,3 = registration order)
   the loop before the repair (Model.run_old) answered C although D carries the
   alias and was registered later; the repaired loop answers D *)
Theorem last_registered_wins_old_loop_refuted :
  exists t a c m,
    registration_consistent t = true /\ NoDup (ids t) /\
    In m (visit_order t) /\ In a (t_al m) /\
    tree_from_alias_old t a = Some c /\ (c < t_id m)%Z /\
    tree_from_alias t a = Some (t_id m).
Proof. exact old_loop_refuted_new_loop_repaired_l. Qed.
Print Assumptions last_registered_wins_old_loop_refuted.

(* ---- the registry extracted from the sources (class identities = registration
        order = the order of the values of _registration_index) ---- *)

(* every alias of every concrete class resolves to that class, from its family
   root and from every intermediate base class *)
Theorem registry_resolves :
  forall fam ft anc n a,
    In fam reg_families -> subtree reg_tree fam = Some ft ->
    In anc (visit_order ft) -> In n (visit_order anc) ->
    is_abstract reg (t_id n) = false -> In a (t_al n) ->
    tree_from_alias anc a = Some (t_id n).
Proof. exact registry_resolves_l. Qed.
Print Assumptions registry_resolves.

Theorem registry_families_cover : families_cover_b reg reg_families = true.
Proof. exact reg_families_cover_l. Qed.
Print Assumptions registry_families_cover.

Theorem registry_classes_distinct : NoDup (ids reg_tree).
Proof. exact reg_ids_nodup_l. Qed.
Print Assumptions registry_classes_distinct.

Theorem registry_info_complete : info_complete_b reg = true.
Proof. exact reg_info_complete_l. Qed.
Print Assumptions registry_info_complete.

(* informative only: no theorem depends on it any more *)
Theorem registry_registered_depth_first :
  registered_depth_first reg_tree = true
  /\ forallb registered_depth_first (flat_map visit_order (family_trees reg reg_families)) = true.
Proof. exact reg_depth_first_l. Qed.
Print Assumptions registry_registered_depth_first.

Theorem registry_nested_families_match_annotations : annotations_agree_b reg_annotated = true.
Proof. exact reg_annotations_agree_l. Qed.
Print Assumptions registry_nested_families_match_annotations.

(* ---- alias_factory_subclass_from_arg (any registry) ---- *)

Theorem from_arg_instance_identity :
  forall r f fam c fs,
    is_subclass (r_tree r) c fam = true ->
    from_arg r (S f) fam (VInst c fs) = Ok (VInst c fs).
Proof. exact from_arg_instance_l. Qed.
Print Assumptions from_arg_instance_identity.

Theorem from_arg_foreign_instance_rejected :
  forall r f fam c fs,
    is_subclass (r_tree r) c fam = false ->
    from_arg r (S f) fam (VInst c fs) = Err TypeError.
Proof. exact from_arg_foreign_instance_l. Qed.
Print Assumptions from_arg_foreign_instance_rejected.

Theorem from_arg_string_is_alias_with_defaults :
  forall r f fam ft s c,
    subtree (r_tree r) fam = Some ft -> tree_from_alias ft s = Some c ->
    from_arg r (S f) fam (VStr s) = construct r f c [].
Proof. exact from_arg_string_l. Qed.
Print Assumptions from_arg_string_is_alias_with_defaults.

Theorem from_arg_alias_over_name :
  forall r f fam kv a rest,
    pop "alias" kv = Some (a, rest) ->
    from_arg r (S f) fam (VDict kv) = from_alias r f fam a rest
    /\ lookup "name" rest = lookup "name" kv.
Proof. exact from_arg_alias_key_l. Qed.
Print Assumptions from_arg_alias_over_name.

Theorem from_arg_name_fallback :
  forall r f fam kv a rest,
    ~ In "alias" (keys kv) -> pop "name" kv = Some (a, rest) ->
    from_arg r (S f) fam (VDict kv) = from_alias r f fam a rest.
Proof. exact from_arg_name_key_l. Qed.
Print Assumptions from_arg_name_fallback.

Theorem from_arg_no_alias_no_name :
  forall r f fam kv,
    ~ In "alias" (keys kv) -> ~ In "name" (keys kv) ->
    from_arg r (S f) fam (VDict kv) = Err KeyError.
Proof. exact from_arg_no_key_l. Qed.
Print Assumptions from_arg_no_alias_no_name.

Theorem from_alias_unknown_is_value_error :
  forall r f fam ft s kw,
    subtree (r_tree r) fam = Some ft ->
    ~ In "cls" (keys kw) ->
    (forall n, In n (visit_order ft) -> ~ In s (t_al n)) ->
    from_alias r f fam (VStr s) kw = Err ValueError.
Proof. exact from_alias_unknown_l. Qed.
Print Assumptions from_alias_unknown_is_value_error.

Theorem from_alias_builds_resolved_class :
  forall r f fam ft s kw c,
    subtree (r_tree r) fam = Some ft -> tree_from_alias ft s = Some c ->
    ~ In "cls" (keys kw) ->
    from_alias r f fam (VStr s) kw = construct r f c kw
    /\ is_subclass (r_tree r) c fam = true.
Proof. exact from_alias_known_l. Qed.
Print Assumptions from_alias_builds_resolved_class.

(* the one keyword a mapping cannot pass on: it collides with from_alias's own parameter *)
Theorem from_alias_cls_keyword_rejected :
  forall r f fam a kw, In "cls" (keys kw) -> from_alias r f fam a kw = Err TypeError.
Proof. exact from_alias_cls_keyword_l. Qed.
Print Assumptions from_alias_cls_keyword_rejected.

(* ---- nested configurations (any registry) ---- *)

(* more fuel never changes a definite answer of the model *)
Theorem from_arg_fuel_monotone :
  forall r f f', f <= f' -> forall fam x v, from_arg r f fam x = Ok v -> from_arg r f' fam x = Ok v.
Proof. exact from_arg_mono. Qed.
Print Assumptions from_arg_fuel_monotone.

(* A nested configuration tree (scale inside bank inside computer, with window -
   any depth, any registry), well-formed in the sense of [wf_cfg] (ProofsNested.v:
   each alias resolves to its class from the family the enclosing constructor
   names; keyword names distinct, none of them 'alias'/'cls', nor 'name' when the
   alias is given under 'name'; nested documents only under parameters the
   constructor resolves).  If assembling the objects explicitly, innermost first,
   succeeds, then alias_factory_subclass_from_arg on the JSON document - alias
   under 'alias' or 'name', at any position, or as a bare string - builds exactly
   the same object. *)
Theorem nested_build_eq :
  forall r f g fam v,
    wf_cfg r fam g -> explicit r f g = Ok v ->
    from_arg r (cfg_depth g + f) fam (to_json g) = Ok v.
Proof. exact nested_build_eq_l. Qed.
Print Assumptions nested_build_eq.

(* conversely: if building from the JSON document succeeds, explicit construction
   succeeds as well, with the same object *)
Theorem nested_build_conv :
  forall r F g fam v,
    wf_cfg r fam g -> from_arg r F fam (to_json g) = Ok v ->
    exists f, explicit r f g = Ok v.
Proof. exact nested_build_conv_l. Qed.
Print Assumptions nested_build_conv.

Theorem nested_build_iff :
  forall r g fam v,
    wf_cfg r fam g ->
    ((exists F, from_arg r F fam (to_json g) = Ok v) <-> (exists f, explicit r f g = Ok v)).
Proof. exact nested_build_iff_l. Qed.
Print Assumptions nested_build_iff.

(* ---- the mapping that is passed in is never modified (HeapModel.v: mutable,
        shareable objects passed by reference; any heap, any registry) ---- *)

(* after the call the store is the store before it plus newly allocated objects *)
Theorem from_arg_preserves_heap :
  forall r f fam arg h res h',
    hfrom_arg r f fam arg h = (res, h') -> exists ext, h' = (h ++ ext)%list.
Proof. exact from_arg_preserves_heap_l. Qed.
Print Assumptions from_arg_preserves_heap.

(* in particular every mapping, list and instance that existed is what it was -
   the argument, the mappings nested in it, anything sharing structure with it *)
Theorem from_arg_never_modifies_existing_objects :
  forall r f fam arg h res h' a o,
    hfrom_arg r f fam arg h = (res, h') -> hget h a = Some o -> hget h' a = Some o.
Proof. exact from_arg_preserves_objects_l. Qed.
Print Assumptions from_arg_never_modifies_existing_objects.

(* an instance comes back as the same reference, and nothing is allocated *)
Theorem from_arg_instance_same_reference :
  forall r f fam a h c fs,
    hget h a = Some (OInst c fs) -> is_subclass (r_tree r) c fam = true ->
    hfrom_arg r (S f) fam (HRef a) h = (Ok (HRef a), h).
Proof. exact from_arg_instance_same_ref_l. Qed.
Print Assumptions from_arg_instance_same_reference.
