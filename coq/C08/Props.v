(* C08 - the property theorems, and nothing else.  Each is closed by [exact] of a
   lemma of the Proofs*.v files; the axioms each depends on are printed beneath it.
   [reg], [reg_tree], [reg_families] are gen/C08_Registry.v, regenerated from
   src/pydrobert/speech/*.py on every run. *)
From Coq Require Import String.
From Coq Require Import ZArith List Bool.
From Verif Require Import C08.Model C08.HeapModel C08.ProofsMachine C08.ProofsTree C08.ProofsBuild C08.ProofsNested C08.ProofsHeap C08.ProofsRegistry.
From Verif Require Import gen.C08_Registry.
Import ListNotations.
Local Open Scope string_scope.

(* ---- from_alias on ANY class graph (multiple inheritance, any finite shape) ---- *)

(* the loop ends within fuel_bound iterations on a finite set of classes closed under __subclasses__ *)
Theorem from_alias_terminates :
  forall (N : Type) (nid : N -> Z) (nsubs : N -> list N) (nal : N -> list string) (U : list N),
    (forall n, In n U -> forall d, In d (nsubs n) -> In d U) ->
    forall root a f, In root U -> fuel_bound N nsubs U <= f ->
                     run N nid nsubs nal f [root] [] a <> NoFuel.
Proof. exact run_terminates. Qed.
Print Assumptions from_alias_terminates.

(* what is instantiated is a (transitive) subclass of cls carrying the alias *)
Theorem from_alias_sound :
  forall (N : Type) (nid : N -> Z) (nsubs : N -> list N) (nal : N -> list string) root f a n,
    run N nid nsubs nal f [root] [] a = Found n ->
    Reach N nsubs root n /\ has_alias N nal a n = true.
Proof. exact run_sound. Qed.
Print Assumptions from_alias_sound.

(* ValueError is raised only if no (transitive) subclass carries the alias *)
Theorem from_alias_unknown_only :
  forall (N : Type) (nid : N -> Z) (nsubs : N -> list N) (nal : N -> list string) root a,
    (forall x y, Reach N nsubs root x -> Reach N nsubs root y -> nid x = nid y -> x = y) ->
    forall f, run N nid nsubs nal f [root] [] a = NotFound ->
              forall n, Reach N nsubs root n -> has_alias N nal a n = false.
Proof. exact run_complete. Qed.
Print Assumptions from_alias_unknown_only.

(* ---- from_alias on ANY class tree: the exact answer ---- *)

(* the stack machine = first class carrying the alias in [visit_order]:
   subclasses before their base, later registered siblings first *)
Theorem from_alias_spec :
  forall t a f, NoDup (ids t) -> tree_fuel t <= f ->
    tree_run f [t] [] a = match spec_from_alias t a with
                          | Some n => Found n
                          | None => NotFound
                          end.
Proof. exact tree_run_spec. Qed.
Print Assumptions from_alias_spec.

(* an alias that no class of the tree carries raises ValueError, and only such an alias does *)
Theorem unknown_alias_error :
  forall t a, spec_from_alias t a = None <-> (forall n, In n (visit_order t) -> ~ In a (t_al n)).
Proof. exact spec_none. Qed.
Print Assumptions unknown_alias_error.

Theorem resolved_class_has_alias :
  forall t a n, spec_from_alias t a = Some n -> In n (visit_order t) /\ In a (t_al n).
Proof. exact spec_sound. Qed.
Print Assumptions resolved_class_has_alias.

(* two sibling subtrees share an alias: the one registered later answers *)
Theorem later_sibling_wins :
  forall c al pre y post a n,
    spec_from_alias y a = Some n ->
    (forall m, In m (forest_order post) -> ~ In a (t_al m)) ->
    spec_from_alias (Node c al (pre ++ y :: post)) a = Some n.
Proof. exact later_sibling_wins_l. Qed.
Print Assumptions later_sibling_wins.

(* a class and one of its subclasses share an alias: the subclass answers *)
Theorem subclass_shadows_base :
  forall c al ch a n,
    spec_from_alias (Node c al ch) a = Some n ->
    (exists m, In m (forest_order ch) /\ In a (t_al m)) ->
    In n (forest_order ch).
Proof. exact subclass_shadows_base_l. Qed.
Print Assumptions subclass_shadows_base.

(* identities = registration ranks.  In a tree registered depth first, of all
   classes sharing an alias the one registered last answers ... *)
Theorem last_registered_wins :
  forall t a n,
    registered_depth_first t = true ->
    spec_from_alias t a = Some n ->
    forall m, In m (visit_order t) -> In a (t_al m) -> (t_id m <= t_id n)%Z.
Proof. exact last_registered_wins_l. Qed.
Print Assumptions last_registered_wins.

(* ... and in general it does not (a subclass registered after a later sibling
   of its base): the clause holds in the depth-first sense only - see NOTES.md *)
Theorem last_registered_wins_any_tree_refuted :
  exists t a c m,
    registration_consistent t = true /\ NoDup (ids t) /\
    tree_from_alias t a = Some c /\ In m (visit_order t) /\ In a (t_al m) /\ (c < t_id m)%Z.
Proof. exact last_registered_refuted_l. Qed.
Print Assumptions last_registered_wins_any_tree_refuted.

(* ---- the registry extracted from the sources ---- *)

(* every alias of every concrete class resolves to that class, from its family
   root and from every intermediate base class *)
Theorem registry_resolves :
  forall fam ft anc n a,
    In fam reg_families -> subtree reg_tree fam = Some ft ->
    In anc (visit_order ft) -> In n (visit_order anc) ->
    is_abstract reg (t_id n) = false -> In a (t_al n) ->
    tree_from_alias anc a = Some (t_id n).
Proof. exact registry_resolves_l. Qed.
Print Assumptions registry_resolves.

Theorem registry_families_cover : families_cover_b reg reg_families = true.
Proof. exact reg_families_cover_l. Qed.
Print Assumptions registry_families_cover.

Theorem registry_classes_distinct : NoDup (ids reg_tree).
Proof. exact reg_ids_nodup_l. Qed.
Print Assumptions registry_classes_distinct.

Theorem registry_info_complete : info_complete_b reg = true.
Proof. exact reg_info_complete_l. Qed.
Print Assumptions registry_info_complete.

Theorem registry_registered_depth_first :
  registered_depth_first reg_tree = true
  /\ forallb registered_depth_first (flat_map visit_order (family_trees reg reg_families)) = true.
Proof. exact reg_depth_first_l. Qed.
Print Assumptions registry_registered_depth_first.

Theorem registry_nested_families_match_annotations : annotations_agree_b reg_annotated = true.
Proof. exact reg_annotations_agree_l. Qed.
Print Assumptions registry_nested_families_match_annotations.

(* ---- alias_factory_subclass_from_arg (any registry) ---- *)

Theorem from_arg_instance_identity :
  forall r f fam c fs,
    is_subclass (r_tree r) c fam = true ->
    from_arg r (S f) fam (VInst c fs) = Ok (VInst c fs).
Proof. exact from_arg_instance_l. Qed.
Print Assumptions from_arg_instance_identity.

Theorem from_arg_foreign_instance_rejected :
  forall r f fam c fs,
    is_subclass (r_tree r) c fam = false ->
    from_arg r (S f) fam (VInst c fs) = Err TypeError.
Proof. exact from_arg_foreign_instance_l. Qed.
Print Assumptions from_arg_foreign_instance_rejected.

Theorem from_arg_string_is_alias_with_defaults :
  forall r f fam ft s c,
    subtree (r_tree r) fam = Some ft -> tree_from_alias ft s = Some c ->
    from_arg r (S f) fam (VStr s) = construct r f c [].
Proof. exact from_arg_string_l. Qed.
Print Assumptions from_arg_string_is_alias_with_defaults.

Theorem from_arg_alias_over_name :
  forall r f fam kv a rest,
    pop "alias" kv = Some (a, rest) ->
    from_arg r (S f) fam (VDict kv) = from_alias r f fam a rest
    /\ lookup "name" rest = lookup "name" kv.
Proof. exact from_arg_alias_key_l. Qed.
Print Assumptions from_arg_alias_over_name.

Theorem from_arg_name_fallback :
  forall r f fam kv a rest,
    ~ In "alias" (keys kv) -> pop "name" kv = Some (a, rest) ->
    from_arg r (S f) fam (VDict kv) = from_alias r f fam a rest.
Proof. exact from_arg_name_key_l. Qed.
Print Assumptions from_arg_name_fallback.

Theorem from_arg_no_alias_no_name :
  forall r f fam kv,
    ~ In "alias" (keys kv) -> ~ In "name" (keys kv) ->
    from_arg r (S f) fam (VDict kv) = Err KeyError.
Proof. exact from_arg_no_key_l. Qed.
Print Assumptions from_arg_no_alias_no_name.

Theorem from_alias_unknown_is_value_error :
  forall r f fam ft s kw,
    subtree (r_tree r) fam = Some ft ->
    ~ In "cls" (keys kw) ->
    (forall n, In n (visit_order ft) -> ~ In s (t_al n)) ->
    from_alias r f fam (VStr s) kw = Err ValueError.
Proof. exact from_alias_unknown_l. Qed.
Print Assumptions from_alias_unknown_is_value_error.

Theorem from_alias_builds_resolved_class :
  forall r f fam ft s kw c,
    subtree (r_tree r) fam = Some ft -> tree_from_alias ft s = Some c ->
    ~ In "cls" (keys kw) ->
    from_alias r f fam (VStr s) kw = construct r f c kw
    /\ is_subclass (r_tree r) c fam = true.
Proof. exact from_alias_known_l. Qed.
Print Assumptions from_alias_builds_resolved_class.

(* the one keyword a mapping cannot pass on: it collides with from_alias's own parameter *)
Theorem from_alias_cls_keyword_rejected :
  forall r f fam a kw, In "cls" (keys kw) -> from_alias r f fam a kw = Err TypeError.
Proof. exact from_alias_cls_keyword_l. Qed.
Print Assumptions from_alias_cls_keyword_rejected.

(* ---- nested configurations (any registry) ---- *)

(* more fuel never changes a definite answer of the model *)
Theorem from_arg_fuel_monotone :
  forall r f f', f <= f' -> forall fam x v, from_arg r f fam x = Ok v -> from_arg r f' fam x = Ok v.
Proof. exact from_arg_mono. Qed.
Print Assumptions from_arg_fuel_monotone.

(* A nested configuration tree (scale inside bank inside computer, with window -
   any depth, any registry), well-formed in the sense of [wf_cfg] (ProofsNested.v:
   each alias resolves to its class from the family the enclosing constructor
   names; keyword names distinct, none of them 'alias'/'cls', nor 'name' when the
   alias is given under 'name'; nested documents only under parameters the
   constructor resolves).  If assembling the objects explicitly, innermost first,
   succeeds, then alias_factory_subclass_from_arg on the JSON document - alias
   under 'alias' or 'name', at any position, or as a bare string - builds exactly
   the same object. *)
Theorem nested_build_eq :
  forall r f g fam v,
    wf_cfg r fam g -> explicit r f g = Ok v ->
    from_arg r (cfg_depth g + f) fam (to_json g) = Ok v.
Proof. exact nested_build_eq_l. Qed.
Print Assumptions nested_build_eq.

(* conversely: if building from the JSON document succeeds, explicit construction
   succeeds as well, with the same object *)
Theorem nested_build_conv :
  forall r F g fam v,
    wf_cfg r fam g -> from_arg r F fam (to_json g) = Ok v ->
    exists f, explicit r f g = Ok v.
Proof. exact nested_build_conv_l. Qed.
Print Assumptions nested_build_conv.

Theorem nested_build_iff :
  forall r g fam v,
    wf_cfg r fam g ->
    ((exists F, from_arg r F fam (to_json g) = Ok v) <-> (exists f, explicit r f g = Ok v)).
Proof. exact nested_build_iff_l. Qed.
Print Assumptions nested_build_iff.

(* ---- the mapping that is passed in is never modified (HeapModel.v: mutable,
        shareable objects passed by reference; any heap, any registry) ---- *)

(* after the call the store is the store before it plus newly allocated objects *)
Theorem from_arg_preserves_heap :
  forall r f fam arg h res h',
    hfrom_arg r f fam arg h = (res, h') -> exists ext, h' = (h ++ ext)%list.
Proof. exact from_arg_preserves_heap_l. Qed.
Print Assumptions from_arg_preserves_heap.

(* in particular every mapping, list and instance that existed is what it was -
   the argument, the mappings nested in it, anything sharing structure with it *)
Theorem from_arg_never_modifies_existing_objects :
  forall r f fam arg h res h' a o,
    hfrom_arg r f fam arg h = (res, h') -> hget h a = Some o -> hget h' a = Some o.
Proof. exact from_arg_preserves_objects_l. Qed.
Print Assumptions from_arg_never_modifies_existing_objects.

(* an instance comes back as the same reference, and nothing is allocated *)
Theorem from_arg_instance_same_reference :
  forall r f fam a h c fs,
    hget h a = Some (OInst c fs) -> is_subclass (r_tree r) c fam = true ->
    hfrom_arg r (S f) fam (HRef a) h = (Ok (HRef a), h).
Proof. exact from_arg_instance_same_ref_l. Qed.
Print Assumptions from_arg_instance_same_reference.
