(* C09 - command-line tools store exactly what the library pipeline computes.

   Model.v: the vocabulary the generated tool bodies (gen/CmdLine.v, produced by
   /verif/gen/cmdline.py from command_line.py, torch.py and compute.py) are
   written in, plus the SPECIFICATION side: the library pipeline of the
   property statement and the exclusion rules.  Definitions only.

   The library itself (pre-processors, computers, post-processors, their
   PyTorch ports, the random generators) is a record of abstract operations:
   what those operations compute is the subject of C01-C03, C14-C18; C09 is
   about the glue that the two tools put around them. *)
From Coq Require Import ZArith QArith List Bool String Ascii.
Import ListNotations.
Open Scope Z_scope.

(** * Exceptions that the tools' own code can raise or let escape *)
Inductive exn : Type :=
| EIndexError            (* buff[chan] / signal[chan] with chan < -channels *)
| EValueError            (* channel complaints of the torch data set *)
| EIOError               (* read_signal failed *)
| ENotImplementedError   (* a configured object has no PyTorch port *)
| ELibraryError.         (* a post-processor refused its input *)

(** * The library, abstractly *)
Record Lib : Type := mkLib {
  Sig : Type;                  (* a 1-D float64 signal *)
  Feat : Type;                 (* a feature matrix *)
  Pre : Type; Post : Type; Comp : Type;
  Rng : Type;                  (* state of a pseudo-random generator *)
  seed_rng : Z -> Rng;         (* np.random.seed(z) / torch.manual_seed(z) *)
  pre_apply : Pre -> Sig -> Rng -> Sig * Rng;
  compute_full : Comp -> Sig -> Feat;
  raw_column : Sig -> Feat;    (* samples as an (S, 1) matrix *)
  nframes : Feat -> Z;         (* len(feats) / feats.size(0) *)
  post_apply : Post -> Feat -> option Feat;   (* None: the post-processor raises *)
  cast32 : Feat -> Feat;       (* astype(float32) / .float() *)
  comp_rate : Comp -> Q;       (* computer.bank.sampling_rate *)
  (* PyTorch ports used by signals-to-torch-feat-dir *)
  PtPre : Type; PtComp : Type; PtPost : Type;
  conv_pre : Pre -> option PtPre;     (* Dither / Preemphasize, else NotImplementedError *)
  conv_comp : Comp -> option PtComp;  (* STFT / SI, else NotImplementedError *)
  conv_post : Post -> PtPost;         (* PyTorchPostProcessorWrapper *)
  pt_pre_apply : PtPre -> Sig -> Rng -> Sig * Rng;
  pt_compute : PtComp -> Sig -> Feat;
  pt_post_apply : PtPost -> Feat -> option Feat;
}.
Arguments seed_rng {_}. Arguments pre_apply {_}. Arguments compute_full {_}.
Arguments raw_column {_}. Arguments nframes {_}. Arguments post_apply {_}.
Arguments cast32 {_}. Arguments comp_rate {_}. Arguments conv_pre {_}.
Arguments conv_comp {_}. Arguments conv_post {_}. Arguments pt_pre_apply {_}.
Arguments pt_compute {_}. Arguments pt_post_apply {_}.

(** * Python semantics used by the generated code *)
Definition Qltb (a b : Q) : bool := negb (Qle_bool b a).
Definition Qneb (a b : Q) : bool := negb (Qeq_bool a b).
Definition truthy_Z (z : Z) : bool := negb (z =? 0).
Definition truthy_optZ (o : option Z) : bool :=
  match o with Some z => truthy_Z z | None => false end.
Definition is_some {A} (o : option A) : bool := match o with Some _ => true | None => false end.

(* l[i] with Python's negative indices; None = IndexError *)
Definition py_getitem {A} (l : list A) (i : Z) : option A :=
  let n := Zlength l in
  if (0 <=? i) && (i <? n) then nth_error l (Z.to_nat i)
  else if (i <? 0) && (- n <=? i) then nth_error l (Z.to_nat (i + n))
  else None.

(* what read_signal can return: a vector or a channels-first matrix
   (more than two axes are not modelled) *)
Inductive Arr (S : Type) : Type :=
| A1 (s : S)
| A2 (chans : list S) (samples : Z).
Arguments A1 {S}. Arguments A2 {S}.
Definition arr_ndim {S} (a : Arr S) : Z := match a with A1 _ => 1 | A2 _ _ => 2 end.
(* shape[0]: number of samples of a vector, number of channels of a matrix *)
Definition arr_shape0 {S} (len : S -> Z) (a : Arr S) : Z :=
  match a with A1 s => len s | A2 chans _ => Zlength chans end.
(* signal[c] of a matrix; (indexing a vector is never reached by the tool) *)
Definition arr_index {S} (a : Arr S) (c : Z) : option (Arr S) :=
  match a with
  | A1 _ => None
  | A2 chans _ => option_map A1 (py_getitem chans c)
  end.

(* torch.from_numpy(signal) handed to the 1-D-only modules *)
Definition arr_vec {S} (a : Arr S) : option S :=
  match a with A1 s => Some s | A2 _ _ => None end.

(** threading a list of processors *)
Fixpoint fold_pre {S P R : Type} (ap : P -> S -> R -> S * R) (ps : list P) (s : S) (r : R) : S * R :=
  match ps with
  | [] => (s, r)
  | p :: ps' => let '(s', r') := ap p s r in fold_pre ap ps' s' r'
  end.
Fixpoint fold_post {F P : Type} (ap : P -> F -> option F) (ps : list P) (f : F) : option F :=
  match ps with
  | [] => Some f
  | p :: ps' => match ap p f with Some f' => fold_post ap ps' f' | None => None end
  end.

(** * State of compute-feats-from-kaldi-tables that is observable or random *)
Record KWorld (L : Lib) : Type := mkKW {
  kw_rng : Rng L;                       (* numpy's global generator *)
  kw_out : list (string * Feat L);      (* what feat_writer has been given, in order *)
}.
Arguments mkKW {L}. Arguments kw_rng {L}. Arguments kw_out {L}.
Definition kw_write {L} (w : KWorld L) (k : string) (f : Feat L) : KWorld L :=
  mkKW (kw_rng w) (kw_out w ++ [(k, f)]).
Definition kw_pre {L} (ps : list (Pre L)) (s : Sig L) (w : KWorld L) : Sig L * KWorld L :=
  let '(s', r') := fold_pre pre_apply ps s (kw_rng w) in (s', mkKW r' (kw_out w)).
Definition kw_seed {L} (z : Z) (w : KWorld L) : KWorld L := mkKW (seed_rng z) (kw_out w).

Record KOptions : Type := mkKO {
  k_min_duration : Q;
  k_channel : Z;
  k_seed : option Z;
}.

(* one entry of the wave table: id, (channels, sample rate, duration) *)
Definition KItem (L : Lib) : Type := (string * (list (Sig L) * Q * Q))%type.

Inductive KOutcome (L : Lib) : Type :=
| KDone (num_utts num_success : Z) (w : KWorld L)
| KRaise (e : exn) (w : KWorld L).
Arguments KDone {L}. Arguments KRaise {L}.

(** * signals-to-torch-feat-dir: what one data-set item yields *)
Inductive TItem (L : Lib) : Type :=
| TReturn (utt_id : string) (feats : Feat L)
| TRaise (e : exn).
Arguments TReturn {L}. Arguments TRaise {L}.

Record TDataset (L : Lib) : Type := mkTD {
  td_utt_path : list (string * string);
  td_seed_offsets : list Z;
  td_preprocessors : list (PtPre L);
  td_computer : option (PtComp L);
  td_postprocessors : list (PtPost L);
  td_channel : Z;
  td_seed : Z;
}.
Arguments mkTD {L}. Arguments td_utt_path {L}. Arguments td_seed_offsets {L}.
Arguments td_preprocessors {L}. Arguments td_computer {L}. Arguments td_postprocessors {L}.
Arguments td_channel {L}. Arguments td_seed {L}.

(** * Text handling of the map file and the manifest (bytes; ASCII only) *)
Definition is_space (c : ascii) : bool :=
  let n := Z.of_nat (nat_of_ascii c) in
  ((9 <=? n) && (n <=? 13)) || ((28 <=? n) && (n <=? 32)).
Fixpoint lstrip (s : string) : string :=
  match s with
  | String c s' => if is_space c then lstrip s' else s
  | EmptyString => EmptyString
  end.
Fixpoint rev_string (s acc : string) : string :=
  match s with String c s' => rev_string s' (String c acc) | EmptyString => acc end.
Definition rstrip (s : string) : string := rev_string (lstrip (rev_string s "")) "".
Definition strip (s : string) : string := rstrip (lstrip s).
Definition sp : ascii := " "%char.
(* s.split(" "): at least one field, empty fields between consecutive blanks *)
Fixpoint split_sp (s : string) : list string :=
  match s with
  | EmptyString => [EmptyString]
  | String c s' =>
    if Ascii.eqb c sp then EmptyString :: split_sp s'
    else match split_sp s' with
         | f :: fs => String c f :: fs
         | [] => [String c EmptyString]
         end
  end.
Fixpoint join_sp (l : list string) : string :=
  match l with
  | [] => EmptyString
  | [f] => f
  | f :: fs => (f ++ String sp (join_sp fs))%string
  end.
Fixpoint mem_str (k : string) (l : list string) : bool :=
  match l with [] => false | x :: l' => String.eqb k x || mem_str k l' end.

(* line.rstrip("\n") *)
Definition nl : ascii := ascii_of_nat 10.
Fixpoint lstrip_nl (s : string) : string :=
  match s with
  | String c s' => if Ascii.eqb c nl then lstrip_nl s' else s
  | EmptyString => EmptyString
  end.
Definition rstrip_nl (s : string) : string := rev_string (lstrip_nl (rev_string s "")) "".
Definition truthy_str (s : string) : bool := negb (String.eqb s EmptyString).
(* l[i:] for a non-negative literal i *)
Definition py_slice_from {A} (l : list A) (i : Z) : list A := skipn (Z.to_nat i) l.

(* a dict of str -> str, in insertion order *)
Definition dict_mem (k : string) (d : list (string * string)) : bool := mem_str k (map fst d).
Fixpoint dict_set (d : list (string * string)) (k v : string) : list (string * string) :=
  match d with
  | [] => [(k, v)]
  | (k', v') :: d' => if String.eqb k k' then (k, v) :: d' else (k', v') :: dict_set d' k v
  end.
Definition dict_pop (d : list (string * string)) (k : string) : list (string * string) :=
  filter (fun kv => negb (String.eqb (fst kv) k)) d.

(* what reading the map file of signals-to-torch-feat-dir ends in *)
Inductive MapResult : Type :=
| MapOk (utt2path : list (string * string))
| MapExit (code : Z)               (* a complaint on stderr and "return code" *)
| MapRaise (e : exn).

(* shapes of text used to state what a well-formed map file is *)
Fixpoint all_space (s : string) : bool :=
  match s with EmptyString => true | String c s' => is_space c && all_space s' end.
Fixpoint no_space (s : string) : bool :=
  match s with EmptyString => true | String c s' => negb (is_space c) && no_space s' end.

(** * SPECIFICATION: the pipeline of the property statement *)
Section Spec.
  Context {L : Lib}.

  (* pre-processors in order, compute_full, post-processors in order, float32;
     an utterance without frames is stored as computed (the post-processors may
     refuse an empty matrix; both tools guard that case) *)
  Definition lib_features (ps : list (Pre L)) (c : Comp L) (qs : list (Post L))
             (s : Sig L) (r : Rng L) : option (Feat L) * Rng L :=
    let '(s', r') := fold_pre pre_apply ps s r in
    let f := compute_full c s' in
    ((if truthy_Z (nframes f) then option_map cast32 (fold_post post_apply qs f)
      else Some (cast32 f)), r').

  (* the exclusion rules of compute-feats-from-kaldi-tables *)
  Inductive KSel : Type :=
  | KSkip                      (* excluded: produces no output *)
  | KCrash                     (* IndexError: channel < -channels *)
  | KTake (s : Sig L).
  Definition kaldi_excluded (o : KOptions) (rate : Q) (nchan : Z) (samp_freq duration : Q) : bool :=
    Qltb duration (k_min_duration o) || Qneb samp_freq rate
    || (negb ((k_channel o =? -1) && (nchan >? 1)) && (k_channel o >=? nchan)).
  Definition kaldi_channel (o : KOptions) (nchan : Z) : Z :=
    if (k_channel o =? -1) && (nchan >? 1) then 0 else k_channel o.
  Definition kaldi_select (o : KOptions) (rate : Q) (it : KItem L) : KSel :=
    let '(_, (buff, samp_freq, duration)) := it in
    if kaldi_excluded o rate (Zlength buff) samp_freq duration then KSkip
    else match py_getitem buff (kaldi_channel o (Zlength buff)) with
         | Some s => KTake s
         | None => KCrash
         end.

  (* what the table must contain: the kept utterances, in order, under their ids *)
  Fixpoint kaldi_spec (o : KOptions) (ps : list (Pre L)) (c : Comp L) (qs : list (Post L))
           (items : list (KItem L)) (r : Rng L)
    : list (string * Feat L) * Rng L * option exn :=
    match items with
    | [] => ([], r, None)
    | it :: rest =>
      match kaldi_select o (comp_rate c) it with
      | KSkip => kaldi_spec o ps c qs rest r
      | KCrash => ([], r, Some EIndexError)
      | KTake s =>
        match lib_features ps c qs s r with
        | (Some f, r') =>
          let '(out, r'', e) := kaldi_spec o ps c qs rest r' in ((fst it, f) :: out, r'', e)
        | (None, r') => ([], r', Some ELibraryError)
        end
      end
    end.

  Definition kaldi_kept (o : KOptions) (rate : Q) (items : list (KItem L)) : list (KItem L) :=
    filter (fun it => match kaldi_select o rate it with KSkip => false | _ => true end) items.
End Spec.
