(* C09 - lemmas about the generated tool code (gen/CmdLine.v) and the entry
   points around it (C09/Tools.v). *)
From Coq Require Import ZArith QArith List Bool String Ascii Lia.
From Verif Require Import C09.Model gen.CmdLine C09.Tools C09.Sym.
Import ListNotations.
Open Scope Z_scope.

(** * compute-feats-from-kaldi-tables *)
Section Kaldi.
  Context {L : Lib}.
  Variables (o : KOptions) (c : Comp L) (ps : list (Pre L)) (qs : list (Post L)).

  Lemma kw_pre_eq (s : Sig L) (w : KWorld L) :
    kw_pre ps s w = (fst (fold_pre pre_apply ps s (kw_rng w)),
                     mkKW (snd (fold_pre pre_apply ps s (kw_rng w))) (kw_out w)).
  Proof. unfold kw_pre. destruct (fold_pre pre_apply ps s (kw_rng w)); reflexivity. Qed.

  (* The loop writes exactly what the specification lists, in order, after what
     was already written; the generator ends where the specification says. *)
  Lemma kaldi_loop_spec_l (items : list (KItem L)) :
    forall n s (w : KWorld L),
      kaldi_loop o c ps qs false items n s w =
      match kaldi_spec o ps c qs items (kw_rng w) with
      | (out, r', None) =>
        KDone (n + Zlength items) (s + Zlength out) (mkKW r' (kw_out w ++ out))
      | (out, r', Some e) => KRaise e (mkKW r' (kw_out w ++ out))
      end.
  Proof.
    induction items as [|it items IH]; intros n s w.
    - simpl. rewrite Z.add_0_r, Z.add_0_r, app_nil_r. destruct w; reflexivity.
    - destruct it as [utt [[buff sf] dur]].
      cbn [kaldi_loop kaldi_spec fst]. unfold kaldi_select, kaldi_excluded, kaldi_channel.
      rewrite Zlength_cons.
      destruct (Qltb dur (k_min_duration o)) eqn:E1; cbn [orb].
      { rewrite IH. destruct (kaldi_spec o ps c qs items (kw_rng w)) as [[out r'] [e|]]; [reflexivity|].
        f_equal; lia. }
      destruct (Qneb sf (comp_rate c)) eqn:E2; cbn [orb].
      { rewrite IH. destruct (kaldi_spec o ps c qs items (kw_rng w)) as [[out r'] [e|]]; [reflexivity|].
        f_equal; lia. }
      destruct ((k_channel o =? -1) && (Zlength buff >? 1)) eqn:E3; cbn [negb andb].
      + (* channel defaulted to zero *)
        destruct (py_getitem buff 0) as [sg|] eqn:E5.
        2:{ rewrite app_nil_r. destruct w; reflexivity. }
        rewrite kw_pre_eq. unfold lib_features.
        destruct (fold_pre pre_apply ps sg (kw_rng w)) as [s' r1] eqn:EP. cbn [fst snd].
        destruct (truthy_Z (nframes (compute_full c s'))) eqn:E6.
        * destruct (fold_post post_apply qs (compute_full c s')) as [f|] eqn:E7; cbn [option_map negb].
          2:{ rewrite app_nil_r. reflexivity. }
          rewrite IH. cbn [kw_rng kw_write kw_out].
          destruct (kaldi_spec o ps c qs items r1) as [[out r'] [e|]].
          -- rewrite <- app_assoc. reflexivity.
          -- rewrite <- app_assoc, Zlength_cons. cbn [app]. f_equal; lia.
        * cbn [negb]. rewrite IH. cbn [kw_rng kw_write kw_out].
          destruct (kaldi_spec o ps c qs items r1) as [[out r'] [e|]].
          -- rewrite <- app_assoc. reflexivity.
          -- rewrite <- app_assoc, Zlength_cons. cbn [app]. f_equal; lia.
      + destruct (k_channel o >=? Zlength buff) eqn:E4.
        { rewrite IH. destruct (kaldi_spec o ps c qs items (kw_rng w)) as [[out r'] [e|]]; [reflexivity|].
          f_equal; lia. }
        destruct (py_getitem buff (k_channel o)) as [sg|] eqn:E5.
        2:{ rewrite app_nil_r. destruct w; reflexivity. }
        rewrite kw_pre_eq. unfold lib_features.
        destruct (fold_pre pre_apply ps sg (kw_rng w)) as [s' r1] eqn:EP. cbn [fst snd].
        destruct (truthy_Z (nframes (compute_full c s'))) eqn:E6.
        * destruct (fold_post post_apply qs (compute_full c s')) as [f|] eqn:E7; cbn [option_map negb].
          2:{ rewrite app_nil_r. reflexivity. }
          rewrite IH. cbn [kw_rng kw_write kw_out].
          destruct (kaldi_spec o ps c qs items r1) as [[out r'] [e|]].
          -- rewrite <- app_assoc. reflexivity.
          -- rewrite <- app_assoc, Zlength_cons. cbn [app]. f_equal; lia.
        * cbn [negb]. rewrite IH. cbn [kw_rng kw_write kw_out].
          destruct (kaldi_spec o ps c qs items r1) as [[out r'] [e|]].
          -- rewrite <- app_assoc. reflexivity.
          -- rewrite <- app_assoc, Zlength_cons. cbn [app]. f_equal; lia.
  Qed.

  (* started from nothing: the table IS the specification's list *)
  Lemma kaldi_tool_spec_l (items : list (KItem L)) (r0 : Rng L) :
    kaldi_loop o c ps qs false items 0 0 (mkKW r0 []) =
    match kaldi_spec o ps c qs items r0 with
    | (out, r', None) => KDone (Zlength items) (Zlength out) (mkKW r' out)
    | (out, r', Some e) => KRaise e (mkKW r' out)
    end.
  Proof. rewrite kaldi_loop_spec_l. reflexivity. Qed.

  (** ** what the specification's list contains, in the property's words *)

  Let rate := comp_rate c.

  (* ids: exactly the utterances that are not excluded, in input order *)
  Lemma kaldi_spec_ids_l (items : list (KItem L)) :
    forall r out r', kaldi_spec o ps c qs items r = (out, r', None) ->
                     map fst out = map fst (kaldi_kept o rate items).
  Proof.
    induction items as [|it items IH]; intros r out r' H.
    - inversion H; reflexivity.
    - cbn [kaldi_spec kaldi_kept filter] in *. fold (kaldi_kept o rate items). fold rate in H.
      destruct (kaldi_select o rate it) as [| |sg] eqn:E.
      + eapply IH; eassumption.
      + discriminate.
      + destruct (lib_features ps c qs sg r) as [[f|] r1]; [|discriminate].
        destruct (kaldi_spec o ps c qs items r1) as [[out1 r2] e] eqn:E2.
        inversion H; subst. cbn [map fst]. f_equal. eapply IH; eassumption.
  Qed.

  (* every entry is the library pipeline of the selected channel of an
     utterance of that id, for the generator state reached at that point *)
  Lemma kaldi_spec_sound_l (items : list (KItem L)) :
    forall r out r' e k f,
      kaldi_spec o ps c qs items r = (out, r', e) -> In (k, f) out ->
      exists it sg rr, In it items /\ fst it = k /\ kaldi_select o rate it = KTake sg /\
                       fst (lib_features ps c qs sg rr) = Some f.
  Proof.
    induction items as [|it items IH]; intros r out r' e k f H HI.
    - inversion H; subst. destruct HI.
    - cbn [kaldi_spec] in H. fold rate in H.
      destruct (kaldi_select o rate it) as [| |sg] eqn:E.
      + destruct (IH _ _ _ _ _ _ H HI) as (it' & sg' & rr & ? & ? & ? & ?).
        exists it', sg', rr; repeat split; auto; right; auto.
      + inversion H; subst. destruct HI.
      + destruct (lib_features ps c qs sg r) as [[f0|] r1] eqn:EF.
        2:{ inversion H; subst. destruct HI. }
        destruct (kaldi_spec o ps c qs items r1) as [[out1 r2] e1] eqn:E2.
        inversion H; subst. destruct HI as [HI|HI].
        * inversion HI; subst. exists it, sg, r. rewrite EF. repeat split; auto. left; auto.
        * destruct (IH _ _ _ _ _ _ E2 HI) as (it' & sg' & rr & ? & ? & ? & ?).
          exists it', sg', rr; repeat split; auto; right; auto.
  Qed.

  (* every utterance that is not excluded has an entry under its own id *)
  Lemma kaldi_spec_complete_l (items : list (KItem L)) :
    forall r out r' it sg,
      kaldi_spec o ps c qs items r = (out, r', None) -> In it items ->
      kaldi_select o rate it = KTake sg ->
      exists f rr, In (fst it, f) out /\ fst (lib_features ps c qs sg rr) = Some f.
  Proof.
    induction items as [|it0 items IH]; intros r out r' it sg H HI HS.
    - destruct HI.
    - cbn [kaldi_spec] in H. fold rate in H.
      destruct (kaldi_select o rate it0) as [| |sg0] eqn:E.
      + destruct HI as [HI|HI]; [subst; congruence|]. eapply IH; eassumption.
      + discriminate.
      + destruct (lib_features ps c qs sg0 r) as [[f0|] r1] eqn:EF; [|discriminate].
        destruct (kaldi_spec o ps c qs items r1) as [[out1 r2] e1] eqn:E2.
        inversion H; subst. destruct HI as [HI|HI].
        * subst. assert (sg0 = sg) by congruence. subst.
          exists f0, r. rewrite EF. split; [left; reflexivity | reflexivity].
        * destruct (IH _ _ _ _ _ E2 HI HS) as (f & rr & ? & ?).
          exists f, rr. split; [right; assumption | assumption].
  Qed.

  (* an excluded utterance leaves no entry (ids being distinct) *)
  Lemma kept_ids_subset (items : list (KItem L)) k :
    In k (map fst (kaldi_kept o rate items)) -> In k (map fst items).
  Proof.
    unfold kaldi_kept. rewrite !in_map_iff. intros (x & ? & Hx).
    apply filter_In in Hx. exists x; tauto.
  Qed.

  Lemma kaldi_spec_excluded_absent_l (items : list (KItem L)) :
    forall r out r' it,
      kaldi_spec o ps c qs items r = (out, r', None) -> NoDup (map fst items) ->
      In it items -> kaldi_select o rate it = KSkip -> ~ In (fst it) (map fst out).
  Proof.
    intros r out r' it H ND HI HS.
    rewrite (kaldi_spec_ids_l _ _ _ _ H). clear H.
    induction items as [|it0 items IH]; [destruct HI|].
    cbn [map] in ND. inversion ND as [|? ? Hn ND']; subst.
    cbn [kaldi_kept filter]. fold (kaldi_kept o rate items).
    destruct HI as [HI|HI].
    - subst. rewrite HS. intros HIn. apply Hn. apply kept_ids_subset; assumption.
    - destruct (kaldi_select o rate it0) eqn:E0.
      + apply IH; assumption.
      + cbn [map]. intros [Heq|HIn]; [|revert HIn; apply IH; assumption].
        apply Hn. rewrite Heq. apply in_map; assumption.
      + cbn [map]. intros [Heq|HIn]; [|revert HIn; apply IH; assumption].
        apply Hn. rewrite Heq. apply in_map; assumption.
  Qed.

  (* the property's own domain: mono without --channel, or a valid --channel *)
  Lemma kaldi_select_domain_l (utt : string) (buff : list (Sig L)) (sf dur : Q) :
    Qle (k_min_duration o) dur -> Qeq sf rate ->
    (k_channel o = -1 /\ Zlength buff = 1) \/ (0 <= k_channel o < Zlength buff) ->
    kaldi_select o rate (utt, (buff, sf, dur)) =
    match nth_error buff (Z.to_nat (Z.max 0 (k_channel o))) with
    | Some s => KTake s
    | None => KCrash
    end /\ nth_error buff (Z.to_nat (Z.max 0 (k_channel o))) <> None.
  Proof.
    intros Hd Hr Hc. unfold kaldi_select, kaldi_excluded, kaldi_channel, Qltb, Qneb.
    apply Qle_bool_iff in Hd. rewrite Hd. apply Qeq_bool_iff in Hr. rewrite Hr. cbn [negb orb].
    assert (Hlen : Zlength buff = Z.of_nat (List.length buff)) by apply Zlength_correct.
    destruct Hc as [[Hc H1]|Hc].
    - rewrite Hc. destruct buff as [|x [|y l]].
      + rewrite Zlength_nil in H1; lia.
      + cbn. split; [reflexivity|discriminate].
      + rewrite !Zlength_cons in H1. rewrite Zlength_correct in H1. lia.
    - assert (E1 : (k_channel o =? -1) = false) by (apply Z.eqb_neq; lia).
      rewrite E1. cbn [andb negb].
      assert (E2 : (k_channel o >=? Zlength buff) = false) by (rewrite Z.geb_leb; apply Z.leb_gt; lia).
      rewrite E2. cbn [orb]. unfold py_getitem.
      assert (E3 : ((0 <=? k_channel o) && (k_channel o <? Zlength buff)) = true).
      { apply andb_true_iff; split; [apply Z.leb_le | apply Z.ltb_lt]; lia. }
      rewrite E3. rewrite Z.max_r by lia.
      assert (Hn : nth_error buff (Z.to_nat (k_channel o)) <> None).
      { apply nth_error_Some. lia. }
      split; [|assumption].
      destruct (nth_error buff (Z.to_nat (k_channel o))); [reflexivity|contradiction].
  Qed.

  (* exit status: 0 exactly when something was stored *)
  Lemma kaldi_exit_l n s : kaldi_exit n s = (if s =? 0 then 1 else 0).
  Proof. unfold kaldi_exit, truthy_Z. destruct (s =? 0); reflexivity. Qed.
End Kaldi.

(** ** the stored matrix is the library pipeline of the property statement *)
Lemma lib_features_pipeline_l {L : Lib} ps (c : Comp L) qs s r :
  let s' := fst (fold_pre pre_apply ps s r) in
  0 < nframes (compute_full c s') ->
  fst (lib_features ps c qs s r) = option_map cast32 (fold_post post_apply qs (compute_full c s')).
Proof.
  intros s' H. unfold lib_features. subst s'. destruct (fold_pre pre_apply ps s r) as [s1 r1].
  cbn [fst] in *. unfold truthy_Z. destruct (nframes (compute_full c s1) =? 0) eqn:E.
  - apply Z.eqb_eq in E. lia.
  - reflexivity.
Qed.

Lemma lib_features_empty_l {L : Lib} ps (c : Comp L) qs s r :
  let s' := fst (fold_pre pre_apply ps s r) in
  nframes (compute_full c s') = 0 ->
  fst (lib_features ps c qs s r) = Some (cast32 (compute_full c s')).
Proof.
  intros s' H. unfold lib_features. subst s'. destruct (fold_pre pre_apply ps s r) as [s1 r1].
  cbn [fst] in *. unfold truthy_Z. rewrite H. reflexivity.
Qed.

(* processors are applied in the order of the list *)
Lemma fold_pre_app_l {S P R} (ap : P -> S -> R -> S * R) ps1 ps2 s r :
  fold_pre ap (ps1 ++ ps2) s r =
  let '(s1, r1) := fold_pre ap ps1 s r in fold_pre ap ps2 s1 r1.
Proof.
  revert s r; induction ps1 as [|p ps1 IH]; intros s r; cbn [fold_pre app].
  - reflexivity.
  - destruct (ap p s r) as [s1 r1]. apply IH.
Qed.

Lemma fold_post_app_l {F P} (ap : P -> F -> option F) qs1 qs2 f :
  fold_post ap (qs1 ++ qs2) f =
  match fold_post ap qs1 f with Some f1 => fold_post ap qs2 f1 | None => None end.
Proof.
  revert f; induction qs1 as [|q qs1 IH]; intros f; cbn [fold_post app].
  - reflexivity.
  - destruct (ap q f); [apply IH | reflexivity].
Qed.

(** ** entry point: seed and configuration syntax *)
Section KaldiMainFacts.
  Context {L : Lib}.
  Variable Cfg : Type.
  Variables (fs : string -> option string) (load : string -> option Cfg) (shape : Cfg -> CfgShape Cfg).
  Variables (bc : Cfg -> Build (Comp L)) (bp : Cfg -> Build (Pre L)) (bq : Cfg -> Build (Post L)).

  (* with --seed, nothing depends on the generator state the tool starts in *)
  Lemma kaldi_seed_fixed_l (o : KOptions) z (w1 w2 : KWorld L) :
    k_seed o = Some z -> kw_out w1 = kw_out w2 -> kaldi_seed o w1 = kaldi_seed o w2.
  Proof. intros H Ho. unfold kaldi_seed, kw_seed. rewrite H, Ho. reflexivity. Qed.

  Lemma kaldi_main_seeded_l (a : KArgs) z wav writable (r1 r2 : Rng L) :
    k_seed (ka_opts a) = Some z ->
    kaldi_main Cfg fs load shape bc bp bq false a wav writable r1 =
    kaldi_main Cfg fs load shape bc bp bq false a wav writable r2.
  Proof.
    intros H. unfold kaldi_main.
    rewrite (kaldi_seed_fixed_l (ka_opts a) z (mkKW r1 []) (mkKW r2 []) H eq_refl). reflexivity.
  Qed.

  (* without --seed the state is left alone (so dithering differs run to run) *)
  Lemma kaldi_seed_absent_l (o : KOptions) (w : KWorld L) : k_seed o = None -> kaldi_seed o w = w.
  Proof. intros H. unfold kaldi_seed. rewrite H. reflexivity. Qed.

  (* seed 0 is a seed *)
  Lemma kaldi_seed_zero_l (o : KOptions) (w : KWorld L) :
    k_seed o = Some 0 -> kw_rng (kaldi_seed o w) = seed_rng 0.
  Proof. intros H. unfold kaldi_seed. rewrite H. reflexivity. Qed.

  (* the tool sees a configuration only through what _config_type returns *)
  Lemma kaldi_main_config_syntax_l (a a' : KArgs) wav writable (r : Rng L) d :
    config_type Cfg fs load (ka_computer a) = config_type Cfg fs load (ka_computer a') ->
    opt_config Cfg fs load (ka_preprocess a) = opt_config Cfg fs load (ka_preprocess a') ->
    opt_config Cfg fs load (ka_postprocess a) = opt_config Cfg fs load (ka_postprocess a') ->
    ka_opts a = ka_opts a' ->
    kaldi_main Cfg fs load shape bc bp bq d a wav writable r =
    kaldi_main Cfg fs load shape bc bp bq d a' wav writable r.
  Proof. intros H1 H2 H3 H4. unfold kaldi_main. rewrite H1, H2, H3, H4. reflexivity. Qed.

  (* a path to a file and the file's text given inline are the same argument *)
  Lemma config_type_file_inline_l (path text : string) :
    fs path = Some text -> fs text = None ->
    config_type Cfg fs load path = config_type Cfg fs load text.
  Proof. intros H1 H2. unfold config_type. rewrite H1, H2. reflexivity. Qed.

  (* two files (say JSON and YAML) whose texts load to the same containers *)
  Lemma config_type_two_files_l (p1 p2 t1 t2 : string) :
    fs p1 = Some t1 -> fs p2 = Some t2 -> load t1 = load t2 ->
    config_type Cfg fs load p1 = config_type Cfg fs load p2.
  Proof. intros H1 H2 H3. unfold config_type. rewrite H1, H2. exact H3. Qed.

  (* a mapping is the one-element list of itself *)
  Lemma config_elements_dict_l (cf : Cfg) :
    shape cf = ShDict -> config_elements Cfg shape (Some cf) = Some [cf].
  Proof. intros H. unfold config_elements. rewrite H. reflexivity. Qed.
End KaldiMainFacts.

(** * signals-to-torch-feat-dir: one item of the data set *)
Section TorchItem.
  Context {L : Lib}.
  Variables (read_signal : string -> string -> option (Arr (Sig L))) (sig_len : Sig L -> Z).
  Hypothesis sig_len_nonneg : forall s, 0 <= sig_len s.

  Lemma pt_features_unfold ps comp qs (s : Sig L) r :
    pt_features ps comp qs s r =
    let s' := fst (fold_pre pt_pre_apply ps s r) in
    let f := match comp with None => raw_column s' | Some c' => pt_compute c' s' end in
    if truthy_Z (nframes f) then option_map cast32 (fold_post pt_post_apply qs f) else Some (cast32 f).
  Proof. unfold pt_features. destruct (fold_pre pt_pre_apply ps s r); reflexivity. Qed.

  Lemma torch_tail_eq (ds : TDataset L) utt (s : Sig L) r :
    (let '(signal, _) := fold_pre pt_pre_apply (td_preprocessors ds) s r in
     let feats := match td_computer ds with
                  | None => raw_column signal
                  | Some computer_v => pt_compute computer_v signal
                  end in
     if truthy_Z (nframes feats)
     then match fold_post pt_post_apply (td_postprocessors ds) feats with
          | None => TRaise ELibraryError
          | Some feats0 => TReturn utt (cast32 feats0)
          end
     else TReturn utt (cast32 feats)) =
    match pt_features (td_preprocessors ds) (td_computer ds) (td_postprocessors ds) s r with
    | Some f => TReturn utt f
    | None => TRaise ELibraryError
    end.
  Proof.
    unfold pt_features. destruct (fold_pre pt_pre_apply (td_preprocessors ds) s r) as [s' r'].
    cbv zeta.
    destruct (td_computer ds) as [cv|].
    - destruct (truthy_Z (nframes (pt_compute cv s'))); [|reflexivity].
      destruct (fold_post pt_post_apply (td_postprocessors ds) _); reflexivity.
    - destruct (truthy_Z (nframes (raw_column s'))); [|reflexivity].
      destruct (fold_post pt_post_apply (td_postprocessors ds) _); reflexivity.
  Qed.

  (* the item is: seed the generator with seed + offset, read, select the
     channel (or raise), run the module pipeline, return under the utterance id *)
  Lemma torch_item_spec_l (ds : TDataset L) idx r off utt path a :
    py_getitem (td_seed_offsets ds) idx = Some off ->
    py_getitem (td_utt_path ds) idx = Some (utt, path) ->
    read_signal path utt = Some a ->
    torch_item read_signal sig_len ds idx r =
    match torch_select (td_channel ds) a with
    | TSelErr e => TRaise e
    | TSelTake s =>
      match pt_features (td_preprocessors ds) (td_computer ds) (td_postprocessors ds) s
                        (seed_rng (td_seed ds + off)) with
      | Some f => TReturn utt f
      | None => TRaise ELibraryError
      end
    end.
  Proof.
    intros H1 H2 H3. unfold torch_item. rewrite H1, H2, H3.
    destruct a as [s|chans n]; cbn [arr_ndim arr_shape0 torch_select arr_index arr_vec].
    - (* a vector *)
      change (1 >? 1) with false. rewrite andb_false_r, andb_false_l.
      change (1 =? 1) with true. rewrite andb_true_r. cbn [negb].
      destruct (td_channel ds =? -1) eqn:E; cbn [negb orb].
      + assert (E2 : (td_channel ds >=? sig_len s) = false).
        { apply Z.eqb_eq in E. rewrite Z.geb_leb. apply Z.leb_gt. pose proof (sig_len_nonneg s). lia. }
        rewrite E2. apply torch_tail_eq.
      + reflexivity.
    - (* channels first *)
      change (2 >? 1) with true. rewrite andb_true_r.
      change (2 =? 1) with false. rewrite andb_false_r. cbn [negb orb].
      destruct ((td_channel ds =? -1) && (Zlength chans >? 1)); [reflexivity|].
      destruct (td_channel ds >=? Zlength chans); [reflexivity|].
      destruct (py_getitem chans (td_channel ds)) as [s|]; cbn [option_map arr_vec]; [|reflexivity].
      apply torch_tail_eq.
  Qed.

  (* failures before the pipeline *)
  Lemma torch_item_unreadable_l (ds : TDataset L) idx r off utt path :
    py_getitem (td_seed_offsets ds) idx = Some off ->
    py_getitem (td_utt_path ds) idx = Some (utt, path) ->
    read_signal path utt = None ->
    torch_item read_signal sig_len ds idx r = TRaise EIOError.
  Proof. intros H1 H2 H3. unfold torch_item. rewrite H1, H2, H3. reflexivity. Qed.

  (* the generator state the item is entered with does not matter *)
  Lemma torch_item_rng_irrelevant_l (ds : TDataset L) idx r1 r2 :
    torch_item read_signal sig_len ds idx r1 = torch_item read_signal sig_len ds idx r2.
  Proof. reflexivity. Qed.

  (* no computer: the selected samples, pre-processed, as one column *)
  Lemma no_computer_is_column_l ps (s : Sig L) r :
    pt_features ps None [] s r = Some (cast32 (raw_column (fst (fold_pre pt_pre_apply ps s r)))).
  Proof.
    rewrite pt_features_unfold. cbv zeta. cbn [fold_post option_map].
    destruct (truthy_Z _); reflexivity.
  Qed.

  (* the property's own domain: a vector without --channel, a valid --channel of a matrix *)
  Lemma torch_select_domain_l channel (a : Arr (Sig L)) :
    match a with
    | A1 s => channel = -1 -> torch_select channel a = TSelTake s
    | A2 chans _ =>
      0 <= channel < Zlength chans ->
      exists s, nth_error chans (Z.to_nat channel) = Some s /\ torch_select channel a = TSelTake s
    end.
  Proof.
    destruct a as [s|chans n]; cbn [torch_select].
    - intros ->. reflexivity.
    - intros H.
      assert (E1 : (channel =? -1) = false) by (apply Z.eqb_neq; lia). rewrite E1. cbn [andb].
      assert (E2 : (channel >=? Zlength chans) = false) by (rewrite Z.geb_leb; apply Z.leb_gt; lia).
      rewrite E2. unfold py_getitem.
      assert (E3 : ((0 <=? channel) && (channel <? Zlength chans)) = true).
      { apply andb_true_iff; split; [apply Z.leb_le | apply Z.ltb_lt]; lia. }
      rewrite E3.
      destruct (nth_error chans (Z.to_nat channel)) as [s|] eqn:E.
      + exists s; split; reflexivity.
      + exfalso. apply nth_error_None in E. rewrite Zlength_correct in H. lia.
  Qed.

  (* a mono matrix (1, S) without --channel is also accepted *)
  Lemma torch_select_mono_matrix_l (s : Sig L) n : torch_select (-1) (A2 [s] n) = TSelTake s.
  Proof. reflexivity. Qed.

  (** ** when the PyTorch ports compute what the NumPy objects compute (C14, C18),
         the stored tensor is the library pipeline of the property statement *)
  Variables (ps : list (Pre L)) (c : Comp L) (qs : list (Post L)).
  Variables (ps' : list (PtPre L)) (c' : PtComp L).
  Hypothesis pre_ported : conv_all conv_pre ps = Some ps'.
  Hypothesis comp_ported : conv_comp c = Some c'.
  Hypothesis pre_faithful : forall (p : Pre L) p' s r, conv_pre p = Some p' -> pt_pre_apply p' s r = pre_apply p s r.
  Hypothesis comp_faithful : forall s, pt_compute c' s = compute_full c s.
  Hypothesis post_faithful : forall (q : Post L) f, pt_post_apply (conv_post q) f = post_apply q f.

  Lemma fold_pre_ported : forall (l : list (Pre L)) l' s r,
      conv_all conv_pre l = Some l' -> fold_pre pt_pre_apply l' s r = fold_pre pre_apply l s r.
  Proof.
    induction l as [|p l IH]; intros l' s r H; cbn [conv_all] in H.
    - inversion H; reflexivity.
    - destruct (conv_pre p) as [p'|] eqn:E; [|discriminate].
      destruct (conv_all conv_pre l) as [r'|] eqn:E2; [|discriminate].
      inversion H; subst. cbn [fold_pre]. rewrite (pre_faithful _ _ _ _ E).
      destruct (pre_apply p s r) as [s1 r1]. apply IH. reflexivity.
  Qed.

  Lemma fold_post_ported : forall (l : list (Post L)) f,
      fold_post pt_post_apply (map conv_post l) f = fold_post post_apply l f.
  Proof.
    induction l as [|q l IH]; intros f; cbn [fold_post map]; [reflexivity|].
    rewrite post_faithful. destruct (post_apply q f); [apply IH | reflexivity].
  Qed.

  Lemma torch_features_are_library_l (s : Sig L) r :
    pt_features ps' (Some c') (map conv_post qs) s r = fst (lib_features ps c qs s r).
  Proof.
    rewrite pt_features_unfold. unfold lib_features. rewrite (fold_pre_ported _ _ _ _ pre_ported).
    destruct (fold_pre pre_apply ps s r) as [s1 r1]. cbv zeta. cbn [fst].
    rewrite comp_faithful, fold_post_ported. reflexivity.
  Qed.
End TorchItem.

(** * signals-to-torch-feat-dir: the loop that stores the tensors *)
Section TorchLoop.
  Context {L : Lib}.
  Variables (read_signal : string -> string -> option (Arr (Sig L))) (sig_len : Sig L -> Z).
  Variables (ds : TDataset L) (prefix suffix : string) (wm : bool).

  Let file_of := @file_of L prefix suffix.

  (* F: what the first items return.  If they are all there are, the tool exits 0
     having written one file per item, in order, named prefix+id+suffix, and
     (with --manifest) appended the ids; *)
  Lemma torch_save_loop_ok_l : forall (F : list (string * Feat L)) idx r disk mani,
      (forall i uf, nth_error F i = Some uf ->
                    torch_item read_signal sig_len ds (idx + Z.of_nat i) r = TReturn (fst uf) (snd uf)) ->
      torch_save_loop read_signal sig_len ds prefix suffix wm (List.length F) idx r disk mani =
      TExit 0 (disk ++ map file_of F) (if wm then mani ++ map fst F else mani).
  Proof.
    induction F as [|uf F IH]; intros idx r disk mani H; cbn [torch_save_loop List.length map].
    - rewrite !app_nil_r. destruct wm; reflexivity.
    - pose proof (H O uf eq_refl) as H0. cbn in H0. rewrite Z.add_0_r in H0. rewrite H0.
      rewrite IH.
      + rewrite <- app_assoc. cbn [app]. destruct wm; [rewrite <- app_assoc|]; reflexivity.
      + intros i uf' Hi. specialize (H (S i) uf' Hi).
        rewrite <- H. f_equal. lia.
  Qed.

  (* if the next one raises, the exception escapes; the files already written stay *)
  Lemma torch_save_loop_raise_l : forall (F : list (string * Feat L)) n idx r disk mani e,
      (forall i uf, nth_error F i = Some uf ->
                    torch_item read_signal sig_len ds (idx + Z.of_nat i) r = TReturn (fst uf) (snd uf)) ->
      torch_item read_signal sig_len ds (idx + Z.of_nat (List.length F)) r = TRaise e ->
      torch_save_loop read_signal sig_len ds prefix suffix wm (List.length F + S n) idx r disk mani =
      TExc e (disk ++ map file_of F) (if wm then mani ++ map fst F else mani).
  Proof.
    induction F as [|uf F IH]; intros n idx r disk mani e H He; cbn [torch_save_loop List.length map plus].
    - cbn in He. rewrite Z.add_0_r in He. rewrite He. rewrite !app_nil_r. destruct wm; reflexivity.
    - pose proof (H O uf eq_refl) as H0. cbn in H0. rewrite Z.add_0_r in H0. rewrite H0.
      rewrite IH with (e := e).
      + rewrite <- app_assoc. cbn [app]. destruct wm; [rewrite <- app_assoc|]; reflexivity.
      + intros i uf' Hi. specialize (H (S i) uf' Hi). rewrite <- H. f_equal. lia.
      + rewrite <- He. f_equal. cbn [List.length]. lia.
  Qed.
End TorchLoop.

(** * the data set: which utterances, which seeds *)
Lemma py_getitem_nat {A} (l : list A) (i : nat) x :
  nth_error l i = Some x -> py_getitem l (Z.of_nat i) = Some x.
Proof.
  intros H. unfold py_getitem.
  assert (Hlt : (i < List.length l)%nat) by (apply nth_error_Some; congruence).
  assert (E : ((0 <=? Z.of_nat i) && (Z.of_nat i <? Zlength l)) = true).
  { rewrite Zlength_correct. apply andb_true_iff; split; [apply Z.leb_le | apply Z.ltb_lt]; lia. }
  rewrite E, Nat2Z.id. exact H.
Qed.

Lemma dict_pop_in k m kv : In kv (dict_pop m k) <-> In kv m /\ fst kv <> k.
Proof.
  unfold dict_pop. rewrite filter_In. split; intros [H1 H2]; split; auto.
  - intros E. rewrite E, String.eqb_refl in H2. discriminate.
  - apply negb_true_iff. apply String.eqb_neq. exact H2.
Qed.

(* an utterance stays exactly when the manifest does not list it *)
Lemma manifest_filter_in : forall manifest m kv,
    In kv (manifest_filter manifest m) <-> In kv m /\ ~ In (fst kv) (map torch_manifest_key manifest).
Proof.
  induction manifest as [|line manifest IH]; intros m kv; cbn [manifest_filter fold_left map].
  - cbn. tauto.
  - fold (manifest_filter manifest (dict_pop m (torch_manifest_key line))). rewrite IH, dict_pop_in. cbn [In].
    split.
    + intros [[H1 H2] H3]. split; [exact H1|]. intros [E|E]; [apply H2; symmetry; exact E | exact (H3 E)].
    + intros [H1 H2]. split; [split; [exact H1 | intros E; apply H2; left; symmetry; exact E] | intros E; apply H2; right; exact E].
Qed.

(* ... and the survivors keep their order *)
Lemma manifest_filter_filter : forall manifest m,
    manifest_filter manifest m = filter (fun kv => negb (mem_str (fst kv) (map torch_manifest_key manifest))) m.
Proof.
  induction manifest as [|line manifest IH]; intros m; cbn [manifest_filter fold_left map mem_str].
  - induction m as [|x m IHm]; cbn; [reflexivity | f_equal; exact IHm].
  - fold (manifest_filter manifest (dict_pop m (torch_manifest_key line))). rewrite IH. unfold dict_pop.
    induction m as [|x m IHm]; cbn [filter]; [reflexivity|].
    destruct (String.eqb (fst x) (torch_manifest_key line)) eqn:E; cbn [negb orb].
    + exact IHm.
    + cbn [filter]. rewrite IHm. reflexivity.
Qed.

Lemma index_of_shift k : forall l i, index_of k l i = i + index_of k l 0.
Proof.
  induction l as [|x l IH]; intros i; cbn [index_of]; [lia|].
  destruct (String.eqb k x); [lia|]. rewrite IH, (IH (0 + 1)). lia.
Qed.

(* utt2idx: the position of an id in the map file (first occurrence; ids are distinct there) *)
Lemma index_of_nth : forall (l : list string) j k,
    NoDup l -> nth_error l j = Some k -> index_of k l 0 = Z.of_nat j.
Proof.
  induction l as [|x l IH]; intros j k ND H.
  - destruct j; discriminate.
  - cbn [index_of]. inversion ND as [|? ? Hn ND']; subst. destruct j as [|j].
    + cbn in H. inversion H; subst. rewrite String.eqb_refl. reflexivity.
    + cbn in H. assert (k <> x). { intros ->. apply Hn. eapply nth_error_In; eassumption. }
      destruct (String.eqb k x) eqn:E; [apply String.eqb_eq in E; contradiction|].
      rewrite index_of_shift, (IH j k ND' H). lia.
Qed.

Section TorchDataset.
  Context {L : Lib}.
  Variables (a : TArgs) (seed : Z) (m : list (string * string)).
  Variables (pre : list (PtPre L)) (comp : option (PtComp L)) (post : list (PtPost L)).
  Let ds := torch_dataset a seed m pre comp post.

  (* the i-th item is seeded with seed + (position of its utterance in the map
     file), whatever the manifest removed *)
  Lemma torch_dataset_offsets_l i utt path j :
    NoDup (map fst m) ->
    nth_error (td_utt_path ds) i = Some (utt, path) ->
    nth_error m j = Some (utt, path) ->
    py_getitem (td_seed_offsets ds) (Z.of_nat i) = Some (Z.of_nat j) /\
    py_getitem (td_utt_path ds) (Z.of_nat i) = Some (utt, path).
  Proof.
    intros ND Hi Hj. split; [|apply py_getitem_nat; exact Hi].
    apply py_getitem_nat. subst ds. unfold torch_dataset in *. cbn [td_seed_offsets td_utt_path] in *.
    rewrite nth_error_map, Hi. cbn [option_map fst]. f_equal.
    apply index_of_nth; [exact ND|]. rewrite nth_error_map, Hj. reflexivity.
  Qed.

  Lemma torch_dataset_utts_l :
    td_utt_path ds = match ta_manifest a with
                     | Some lines => filter (fun kv => negb (mem_str (fst kv) (map torch_manifest_key lines))) m
                     | None => m
                     end.
  Proof.
    subst ds. unfold torch_dataset. cbn [td_utt_path].
    destruct (ta_manifest a); [apply manifest_filter_filter | reflexivity].
  Qed.
End TorchDataset.

(** * signals-to-torch-feat-dir, end to end below the argument parsing *)
Lemma Forall2_nth_r {A B} (R : A -> B -> Prop) : forall l1 l2 i y,
    Forall2 R l1 l2 -> nth_error l2 i = Some y -> exists x, nth_error l1 i = Some x /\ R x y.
Proof.
  intros l1 l2 i y H; revert i y; induction H as [|x0 y0 l1 l2 HR H IH]; intros i y Hi.
  - destruct i; discriminate.
  - destruct i as [|i]; cbn in *.
    + inversion Hi; subst. exists x0; split; [reflexivity | exact HR].
    + apply IH; exact Hi.
Qed.

Lemma Forall2_length_eq {A B} (R : A -> B -> Prop) l1 l2 : Forall2 R l1 l2 -> List.length l1 = List.length l2.
Proof. induction 1; cbn; congruence. Qed.

Section TorchTool.
  Context {L : Lib}.
  Variables (read_signal : string -> string -> option (Arr (Sig L))) (sig_len : Sig L -> Z).
  Hypothesis sig_len_nonneg : forall s, 0 <= sig_len s.
  Variables (a : TArgs) (seed : Z) (m : list (string * string)).
  Variables (pre : list (PtPre L)) (comp : option (PtComp L)) (post : list (PtPost L)).

  Let torch_stored := torch_stored read_signal a seed m pre comp post.

  Lemma torch_tool_spec_l (F : list (string * Feat L)) r :
    let ds := torch_dataset a seed m pre comp post in
    NoDup (map fst m) ->
    Forall2 torch_stored (td_utt_path ds) F ->
    torch_save_loop read_signal sig_len ds (ta_prefix a) (ta_suffix a) (is_some (ta_manifest a))
                    (List.length (td_utt_path ds)) 0 r [] [] =
    TExit 0 (map (file_of (ta_prefix a) (ta_suffix a)) F)
          (if is_some (ta_manifest a) then map fst F else []).
  Proof.
    intros ds ND HF.
    rewrite (Forall2_length_eq _ _ _ HF).
    rewrite torch_save_loop_ok_l; [reflexivity|].
    intros i uf Hi. cbn [Z.add].
    destruct (Forall2_nth_r _ _ _ _ _ HF Hi) as ([utt path] & Hup & Hfst & arr & s & j & Hj & Hr & Hs & Hp).
    cbn [fst snd] in *.
    destruct (torch_dataset_offsets_l a seed m pre comp post i utt path j ND Hup Hj) as [Ho Hu].
    fold ds in Ho, Hu.
    rewrite (torch_item_spec_l read_signal sig_len sig_len_nonneg ds (Z.of_nat i) r (Z.of_nat j) utt path arr Ho Hu Hr).
    subst ds. cbn [torch_dataset td_channel td_preprocessors td_computer td_postprocessors td_seed].
    rewrite Hs, Hp, Hfst. reflexivity.
  Qed.
End TorchTool.

(** * the map file and the manifest, as text *)
Section Text.
Open Scope string_scope.
Open Scope Z_scope.

Lemma app_assoc_s (a b c : string) : (a ++ b) ++ c = a ++ (b ++ c).
Proof. induction a; cbn; congruence. Qed.
Lemma app_nil_r_s (a : string) : a ++ "" = a.
Proof. induction a; cbn; congruence. Qed.

Lemma rev_string_app s t acc : rev_string (s ++ t) acc = rev_string t (rev_string s acc).
Proof. revert acc; induction s; intros acc; cbn; [reflexivity | apply IHs]. Qed.

Lemma rev_string_rev s : forall a b, rev_string (rev_string s a) b = rev_string a (s ++ b).
Proof. induction s as [|c s IH]; intros a b; cbn; [reflexivity | rewrite IH; reflexivity]. Qed.

Lemma lstrip_spaces ws x : all_space ws = true -> lstrip (ws ++ x) = lstrip x.
Proof.
  induction ws as [|c ws IH]; cbn; [reflexivity|]. intros H. apply andb_true_iff in H as [Hc Hw].
  rewrite Hc. apply IH, Hw.
Qed.

Lemma lstrip_head c x : is_space c = false -> lstrip (String c x) = String c x.
Proof. intros H; cbn; rewrite H; reflexivity. Qed.

Lemma lstrip_rev_spaces ws : forall t, all_space ws = true -> lstrip (rev_string ws t) = lstrip t.
Proof.
  induction ws as [|c ws IH]; intros t H; cbn; [reflexivity|].
  cbn in H. apply andb_true_iff in H as [Hc Hw]. rewrite IH by exact Hw. cbn. rewrite Hc. reflexivity.
Qed.

Lemma rstrip_spaces s ws : all_space ws = true -> rstrip (s ++ ws) = rstrip s.
Proof. intros H. unfold rstrip. rewrite rev_string_app, lstrip_rev_spaces by exact H. reflexivity. Qed.

Lemma rstrip_last s c : is_space c = false -> rstrip (s ++ String c "") = s ++ String c "".
Proof.
  intros H. unfold rstrip. rewrite rev_string_app. cbn [rev_string]. rewrite lstrip_head by exact H.
  cbn [rev_string]. rewrite rev_string_rev. reflexivity.
Qed.

Lemma all_space_strip ws : all_space ws = true -> strip ws = "".
Proof.
  intros H. unfold strip. replace ws with (ws ++ "") by apply app_nil_r_s.
  rewrite lstrip_spaces by exact H. reflexivity.
Qed.

(* a line "  core  " strips to its core when the core starts and ends with non-blanks *)
Lemma strip_core ws1 ws2 c0 mid c1 :
  all_space ws1 = true -> all_space ws2 = true -> is_space c0 = false -> is_space c1 = false ->
  strip (ws1 ++ (String c0 mid ++ String c1 "") ++ ws2) = String c0 mid ++ String c1 "".
Proof.
  intros H1 H2 H0 H3. unfold strip. rewrite lstrip_spaces by exact H1.
  cbn [append]. rewrite lstrip_head by exact H0.
  change (String c0 ((mid ++ String c1 "") ++ ws2)) with ((String c0 mid ++ String c1 "") ++ ws2).
  rewrite rstrip_spaces by exact H2. change (String c0 mid ++ String c1 "") with (String c0 mid ++ String c1 "").
  apply rstrip_last. exact H3.
Qed.

(* one-character core *)
Lemma strip_core1 ws1 ws2 c0 :
  all_space ws1 = true -> all_space ws2 = true -> is_space c0 = false ->
  strip (ws1 ++ String c0 "" ++ ws2) = String c0 "".
Proof.
  intros H1 H2 H0. unfold strip. rewrite lstrip_spaces by exact H1. cbn [append].
  rewrite lstrip_head by exact H0.
  change (String c0 ws2) with (("" ++ String c0 "") ++ ws2).
  rewrite rstrip_spaces by exact H2. apply rstrip_last. exact H0.
Qed.

Lemma split_nonempty s : split_sp s <> [].
Proof.
  destruct s as [|c s]; cbn; [discriminate|]. destruct (Ascii.eqb c sp); [discriminate|].
  destruct (split_sp s); discriminate.
Qed.

Lemma join_split s : join_sp (split_sp s) = s.
Proof.
  induction s as [|c s IH]; cbn [split_sp]; [reflexivity|].
  pose proof (split_nonempty s) as Hne.
  destruct (split_sp s) as [|f fs] eqn:Es; [contradiction|].
  destruct (Ascii.eqb c sp) eqn:E.
  - apply Ascii.eqb_eq in E. rewrite E.
    change (join_sp ("" :: f :: fs)) with ("" ++ String sp (join_sp (f :: fs))).
    rewrite IH. reflexivity.
  - destruct fs as [|g gs].
    + cbn in IH. cbn. rewrite IH. reflexivity.
    + change (join_sp (String c f :: g :: gs)) with (String c f ++ String sp (join_sp (g :: gs))).
      change (join_sp (f :: g :: gs)) with (f ++ String sp (join_sp (g :: gs))) in IH.
      cbn [append]. rewrite IH. reflexivity.
Qed.

Lemma space_is_space : is_space sp = true.
Proof. reflexivity. Qed.

Lemma split_head u p : no_space u = true -> split_sp (u ++ String sp p) = u :: split_sp p.
Proof.
  induction u as [|c u IH]; intros H.
  - cbn. reflexivity.
  - cbn in H. apply andb_true_iff in H as [Hc Hu]. cbn [append split_sp].
    assert (E : Ascii.eqb c sp = false).
    { apply Ascii.eqb_neq. intros ->. rewrite space_is_space in Hc. discriminate. }
    rewrite E, IH by exact Hu. reflexivity.
Qed.

Lemma py_getitem_0 {A} (x : A) l : py_getitem (x :: l) 0 = Some x.
Proof.
  unfold py_getitem. rewrite Zlength_cons.
  assert (E : ((0 <=? 0) && (0 <? Z.succ (Zlength l))) = true).
  { apply andb_true_iff; split; [reflexivity|]. apply Z.ltb_lt. rewrite Zlength_correct. lia. }
  rewrite E. reflexivity.
Qed.

Lemma dict_set_new d k v : dict_mem k d = false -> dict_set d k v = (d ++ [(k, v)])%list.
Proof.
  unfold dict_mem. induction d as [|[k' v'] d IH]; cbn; [reflexivity|].
  intros H. apply orb_false_iff in H as [H1 H2]. rewrite H1, (IH H2). reflexivity.
Qed.

Lemma mem_str_in k l : mem_str k l = true <-> In k l.
Proof.
  induction l as [|x l IH]; cbn; [split; [discriminate | tauto]|].
  rewrite orb_true_iff, IH, String.eqb_eq. split; intros [H|H]; auto.
Qed.

Lemma strip_entry ws1 ws2 u p :
  all_space ws1 = true -> all_space ws2 = true -> wf_id u -> wf_path p ->
  strip (ws1 ++ (u ++ String sp p) ++ ws2) = u ++ String sp p.
Proof.
  intros H1 H2 [Hne Hu] Hp.
  destruct u as [|c0 u']; [contradiction|]. cbn in Hu. apply andb_true_iff in Hu as [Hc0 Hu'].
  apply negb_true_iff in Hc0.
  destruct Hp as [(c & -> & Hc)|(d0 & mid & c1 & -> & Hd0 & Hc1)].
  - replace (String c0 u' ++ String sp (String c "")) with (String c0 (u' ++ String sp "") ++ String c "")
      by (cbn; rewrite app_assoc_s; reflexivity).
    apply strip_core; assumption.
  - replace (String c0 u' ++ String sp (String d0 mid ++ String c1 ""))
      with (String c0 (u' ++ String sp (String d0 mid)) ++ String c1 "")
      by (cbn; rewrite app_assoc_s; reflexivity).
    apply strip_core; assumption.
Qed.

Lemma entry_nonempty u p : wf_id u -> String.eqb (u ++ String sp p) "" = false.
Proof. intros [Hne _]. destruct u; [contradiction | reflexivity]. Qed.

Lemma parse_map_wellformed : forall lines es,
    renders lines es ->
    forall n acc, NoDup (map fst acc ++ map fst es) ->
                  torch_map_loop lines n acc = MapOk (acc ++ es)%list.
Proof.
  induction 1 as [|l ls es Hl Hr IH|ws1 ws2 u p ls es H1 H2 Hu Hp Hr IH]; intros n acc ND.
  - cbn. rewrite app_nil_r. reflexivity.
  - cbn [torch_map_loop]. rewrite (all_space_strip l Hl). cbn. apply IH, ND.
  - cbn [torch_map_loop]. rewrite strip_entry by assumption. unfold truthy_str.
    rewrite entry_nonempty by assumption. cbn [negb].
    rewrite split_head by apply Hu.
    pose proof (split_nonempty p) as Hne. destruct (split_sp p) as [|f fs] eqn:Es; [contradiction|].
    assert (E2 : (Zlength (u :: f :: fs) <? 2) = false).
    { rewrite !Zlength_cons. apply Z.ltb_ge. pose proof (Zlength_correct fs). lia. }
    rewrite E2. rewrite py_getitem_0. unfold py_slice_from. change (Z.to_nat 1) with 1%nat. cbn [skipn].
    rewrite <- Es, join_split.
    assert (E3 : dict_mem u acc = false).
    { unfold dict_mem. destruct (mem_str u (map fst acc)) eqn:E; [|reflexivity]. apply mem_str_in in E.
      exfalso. cbn [map fst] in ND. apply NoDup_remove_2 in ND. apply ND. apply in_or_app. left; exact E. }
    rewrite E3, (dict_set_new _ _ _ E3). rewrite IH.
    + rewrite <- app_assoc. reflexivity.
    + rewrite map_app. cbn [map fst]. rewrite <- app_assoc. cbn [app]. exact ND.
Qed.

(* a line with a single field is rejected with its line number; a repeated id too *)
Lemma parse_map_one_field ws1 ws2 u rest n acc :
  all_space ws1 = true -> all_space ws2 = true -> wf_id u ->
  torch_map_loop ((ws1 ++ u ++ ws2) :: rest) n acc = MapExit 1.
Proof.
  intros H1 H2 [Hne Hu]. cbn [torch_map_loop].
  assert (Hs : strip (ws1 ++ u ++ ws2) = u).
  { destruct u as [|c0 u']; [contradiction|]. cbn in Hu. apply andb_true_iff in Hu as [Hc0 Hu'].
    apply negb_true_iff in Hc0.
    (* split u into its last character *)
    assert (Hlast : (u' = "" ) \/ exists mid c1, u' = mid ++ String c1 "" /\ is_space c1 = false).
    { clear -Hu'. induction u' as [|c u IH]; [left; reflexivity|]. right.
      cbn in Hu'. apply andb_true_iff in Hu' as [Hc Hu]. apply negb_true_iff in Hc.
      destruct (IH Hu) as [->|(mid & c1 & -> & H1)].
      - exists "", c. split; [reflexivity | exact Hc].
      - exists (String c mid), c1. split; [reflexivity | exact H1]. }
    destruct Hlast as [->|(mid & c1 & -> & Hc1)].
    - apply strip_core1; assumption.
    - change (String c0 (mid ++ String c1 "")) with (String c0 mid ++ String c1 "").
      apply strip_core; assumption. }
  rewrite Hs. destruct u as [|c0 u']; [contradiction|]. unfold truthy_str.
  replace (String.eqb (String c0 u') "") with false by reflexivity. cbn [negb].
  assert (Hsp : split_sp (String c0 u') = [String c0 u']).
  { clear -Hu. revert Hu. generalize (String c0 u') as s. induction s as [|c s IH]; intros H; [reflexivity|].
    cbn in H. apply andb_true_iff in H as [Hc Hs]. cbn [split_sp].
    assert (E : Ascii.eqb c sp = false).
    { apply Ascii.eqb_neq. intros ->. rewrite space_is_space in Hc. discriminate. }
    rewrite E. destruct s as [|c' s'].
    - reflexivity.
    - rewrite (IH Hs). reflexivity. }
  rewrite Hsp. reflexivity.
Qed.

Lemma torch_map_duplicate_l ws1 ws2 u p rest n acc :
  all_space ws1 = true -> all_space ws2 = true -> wf_id u -> wf_path p -> dict_mem u acc = true ->
  torch_map_loop ((ws1 ++ (u ++ String sp p) ++ ws2) :: rest) n acc = MapExit 1.
Proof.
  intros H1 H2 Hu Hp Hm. cbn [torch_map_loop]. rewrite strip_entry by assumption. unfold truthy_str.
  rewrite entry_nonempty by assumption. cbn [negb].
  rewrite split_head by apply Hu.
  pose proof (split_nonempty p) as Hne. destruct (split_sp p) as [|f fs] eqn:Es; [contradiction|].
  assert (E2 : (Zlength (u :: f :: fs) <? 2) = false).
  { rewrite !Zlength_cons. apply Z.ltb_ge. pose proof (Zlength_correct fs). lia. }
  rewrite E2, py_getitem_0, Hm. reflexivity.
Qed.

(* the id a manifest line stands for: the line without its terminator *)
Lemma lstrip_nl_head c x : Ascii.eqb c nl = false -> lstrip_nl (String c x) = String c x.
Proof.
  intros H. change (lstrip_nl (String c x)) with (if Ascii.eqb c nl then lstrip_nl x else String c x).
  rewrite H. reflexivity.
Qed.

Lemma lstrip_nl_nl x : lstrip_nl (String nl x) = lstrip_nl x.
Proof. reflexivity. Qed.

Lemma manifest_line_roundtrip_l u : wf_id u -> torch_manifest_key (u ++ String nl "") = u.
Proof.
  intros [Hne Hu]. unfold torch_manifest_key, rstrip_nl.
  rewrite rev_string_app. change (rev_string (String nl "") (rev_string u "")) with (String nl (rev_string u "")).
  rewrite lstrip_nl_nl.
  (* the last character of u is not a line feed *)
  assert (Hlast : exists mid c1, u = mid ++ String c1 "" /\ is_space c1 = false).
  { destruct u as [|c0 u']; [contradiction|]. clear Hne. revert c0 Hu.
    induction u' as [|c u IH]; intros c0 Hu.
    - exists "", c0. cbn in Hu. rewrite andb_true_r in Hu. apply negb_true_iff in Hu. split; [reflexivity | exact Hu].
    - cbn in Hu. apply andb_true_iff in Hu as [H0 Hu]. destruct (IH c Hu) as (mid & c1 & E & H1).
      exists (String c0 mid), c1. split; [cbn; rewrite <- E; reflexivity | exact H1]. }
  destruct Hlast as (mid & c1 & -> & Hc1).
  rewrite rev_string_app. change (rev_string (String c1 "") (rev_string mid "")) with (String c1 (rev_string mid "")).
  assert (E : Ascii.eqb c1 nl = false).
  { apply Ascii.eqb_neq. intros ->. vm_compute in Hc1. discriminate. }
  rewrite lstrip_nl_head by exact E. cbn [rev_string]. rewrite rev_string_rev. reflexivity.
Qed.
End Text.

Lemma torch_seed_choice_l (fresh z : Z) :
  torch_seed_choice (Some z) fresh = z /\ torch_seed_choice None fresh = fresh.
Proof. split; reflexivity. Qed.

(** * STFT framing arithmetic shared by compute.py and torch.py *)
(* what a plan lets observe: [None] also when there is no frame to compute (both
   implementations then return the empty matrix; the PyTorch port must not reach its FFT) *)
Definition plan_obs (p : option (Z * Z * Z)) : option (Z * Z * Z) :=
  match p with
  | Some (nf, pl, pr) => if nf =? 0 then None else Some (nf, pl, pr)
  | None => None
  end.

Lemma stft_plan_np_eq_pt_l Lf S centered k N :
  pt_stft_plan Lf S centered k N = plan_obs (np_stft_plan Lf S (negb centered) k N).
Proof.
  unfold pt_stft_plan, np_stft_plan, plan_obs.
  destruct (N <? Lf / 2 + 1); [reflexivity|]. cbv zeta.
  destruct (Z.max 0 ((N + S / 2) / S) =? 0); reflexivity.
Qed.

(* whenever frame_shift <= frame_length the two plans are literally equal (a signal that
   passes the too-short gate has at least one frame) *)
Lemma stft_plan_np_eq_pt_narrow_l Lf S centered k N :
  0 < S <= Lf -> pt_stft_plan Lf S centered k N = np_stft_plan Lf S (negb centered) k N.
Proof.
  intros HS. rewrite stft_plan_np_eq_pt_l. unfold np_stft_plan, plan_obs.
  destruct (N <? Lf / 2 + 1) eqn:E; [reflexivity|]. cbv zeta.
  apply Z.ltb_ge in E.
  destruct (Z.max 0 ((N + S / 2) / S) =? 0) eqn:E0; [|reflexivity].
  apply Z.eqb_eq in E0. exfalso.
  assert (1 <= (N + S / 2) / S).
  { apply Z.div_le_lower_bound; [lia|].
    pose proof (Z.div_mod S 2 ltac:(lia)). pose proof (Z.mod_pos_bound S 2 ltac:(lia)).
    pose proof (Z.div_mod Lf 2 ltac:(lia)). pose proof (Z.mod_pos_bound Lf 2 ltac:(lia)).
    assert (S / 2 <= Lf / 2) by (apply Z.div_le_mono; lia). lia. }
  lia.
Qed.

Lemma stft_plan_too_short_l Lf S causal k N :
  np_stft_plan Lf S causal k N = None <-> N < Lf / 2 + 1.
Proof.
  unfold np_stft_plan. destruct (N <? Lf / 2 + 1) eqn:E.
  - apply Z.ltb_lt in E. tauto.
  - apply Z.ltb_ge in E. split; [discriminate | lia].
Qed.

Lemma stft_plan_frames_l Lf S causal k N nf pl pr :
  0 < S -> 0 <= N -> np_stft_plan Lf S causal k N = Some (nf, pl, pr) ->
  nf = (N + S / 2) / S /\ pr = Z.max 0 ((nf - 1) * S - pl + Lf - N) /\
  pl = (if causal then 0 else if k then Lf / 2 - S / 2 else (Lf + 1) / 2 - 1).
Proof.
  intros HS HN. unfold np_stft_plan. destruct (N <? Lf / 2 + 1); [discriminate|].
  intros H. inversion H; subst; clear H.
  assert (0 <= (N + S / 2) / S).
  { apply Z.div_pos; [|lia]. assert (0 <= S / 2) by (apply Z.div_pos; lia). lia. }
  rewrite Z.max_r by lia. repeat split; reflexivity.
Qed.

Lemma stft_centered_pads_within_signal_l Lf S k N nf pl pr :
  0 < S -> 0 < Lf -> (k = true -> S / 2 <= Lf / 2) ->
  np_stft_plan Lf S false k N = Some (nf, pl, pr) ->
  0 <= pl <= N /\ 0 <= pr <= N.
Proof.
  intros HS HL Hk. unfold np_stft_plan. destruct (N <? Lf / 2 + 1) eqn:E; [discriminate|].
  apply Z.ltb_ge in E. intros H. inversion H; subst; clear H.
  assert (Hh : 0 <= S / 2) by (apply Z.div_pos; lia).
  assert (Hl0 : 0 <= Lf / 2) by (apply Z.div_pos; lia).
  assert (Hq0 : 0 <= (N + S / 2) / S) by (apply Z.div_pos; lia).
  pose proof (Z.mul_div_le (N + S / 2) S HS) as Hq1.
  rewrite (Z.max_r 0 ((N + S / 2) / S)) by lia.
  set (q := (N + S / 2) / S) in *.
  assert (Hs2 : 2 * (S / 2) <= S) by (apply Z.mul_div_le; lia).
  assert (Hs3 : S < 2 * (S / 2) + 2).
  { pose proof (Z.mul_succ_div_gt S 2 ltac:(lia)). lia. }
  assert (Hl2 : 2 * (Lf / 2) <= Lf) by (apply Z.mul_div_le; lia).
  assert (Hl3 : Lf < 2 * (Lf / 2) + 2).
  { pose proof (Z.mul_succ_div_gt Lf 2 ltac:(lia)). lia. }
  assert (Hl4 : (Lf + 1) / 2 <= Lf / 2 + 1).
  { apply Z.div_le_upper_bound; lia. }
  assert (Hl5 : Lf / 2 <= (Lf + 1) / 2) by (apply Z.div_le_mono; lia).
  assert (Hl6 : Lf <= Lf / 2 + (Lf + 1) / 2).
  { assert (Lf + 1 < 2 * ((Lf + 1) / 2) + 2) by (pose proof (Z.mul_succ_div_gt (Lf + 1) 2 ltac:(lia)); lia).
    assert (2 * ((Lf+1)/2) <= Lf + 1) by (apply Z.mul_div_le; lia).
    lia. }
  assert (Hl7 : Lf / 2 + (Lf + 1) / 2 <= Lf).
  { assert (2 * ((Lf+1)/2) <= Lf + 1) by (apply Z.mul_div_le; lia). lia. }
  replace ((q - 1) * S) with (S * q - S) by ring.
  destruct k.
  - specialize (Hk eq_refl). split; [lia|]. split; [lia|].
    apply Z.max_lub; lia.
  - split; [lia|]. split; [lia|]. apply Z.max_lub; lia.
Qed.

Lemma stft_causal_pad_may_exceed_signal_l :
  exists Lf S N nf pl pr, 0 < S <= Lf /\ np_stft_plan Lf S true false N = Some (nf, pl, pr) /\ N < pr.
Proof. exists 200, 80, 120, 2, 0, 160. vm_compute. repeat split; congruence. Qed.

Lemma stft_padded_covers_frames_l Lf S causal k N nf pl pr :
  np_stft_plan Lf S causal k N = Some (nf, pl, pr) -> (nf - 1) * S + Lf <= pl + N + pr.
Proof.
  unfold np_stft_plan. destruct (N <? Lf / 2 + 1); [discriminate|].
  intros H. inversion H; subst; clear H. lia.
Qed.

(** * The hypotheses of the theorems are satisfiable: concrete, non-trivial instances
      on the symbolic library (C09/Sym.v) *)
Section Examples.
  Open Scope string_scope.
  Open Scope Z_scope.

  (* three utterances, --channel 1, --seed 0, --min-duration 0.1, one pre- and one post-processor:
     "a" is stored with post-processing, "b" (no frame) without, "c" (one channel) is skipped *)
  Let o := mkKO (1 # 10) 1 (Some 0).
  Let c := mkSC 0 (16000 # 1) [(0, 1, 3); (1, 1, 0); (2, 0, 5)] true.
  Let ps := [mkSP 0 true].
  Let qs := [mkSQ 0 [(3, Some 3)]].
  Let items : list (KItem SymLib) :=
    map kitem_of [(0, "a", [100; 100], 16000 # 1, 2 # 10); (1, "b", [10; 10], 16000 # 1, 3 # 10);
                  (2, "c", [500], 16000 # 1, 5 # 10)].

  Example kaldi_spec_example :
    exists out r', kaldi_spec (L := SymLib) o ps c qs items RInit = (out, r', None) /\
                   map fst out = ["a"; "b"] /\ NoDup (map fst items).
  Proof.
    eexists; eexists; split; [vm_compute; reflexivity|]. split; [reflexivity|].
    repeat constructor; cbn; intuition discriminate.
  Qed.

  Example kaldi_select_example :
    kaldi_select (L := SymLib) o (c_rate c) (hd ("", ([], 0 # 1, 0 # 1)%Q) items) = @KTake SymLib (mkSS (SChan 0 1) 100) /\
    kaldi_select (L := SymLib) o (c_rate c) (nth 2 items ("", ([], 0 # 1, 0 # 1)%Q)) = KSkip.
  Proof. split; reflexivity. Qed.

  Example lib_features_example :
    0 < nframes (l := SymLib) (compute_full (l := SymLib) c (fst (fold_pre (pre_apply (l := SymLib)) ps (mkSS (SChan 0 1) 100 : Sig SymLib) (RInit : Rng SymLib)))).
  Proof. vm_compute. reflexivity. Qed.

  (* a data set of two utterances, the first listed in the manifest *)
  Let a := mkTA ["u1 /x/a.npy" ++ String nl ""; " " ++ String nl ""; "  u2 /x/b c.npy  " ++ String nl ""]
                None None None 0 (Some 3) "p_" ".pt" (Some ["u1" ++ String nl ""]).
  Let files := [("/x/a.npy", (0, Some (inl 100))); ("/x/b c.npy", (1, Some (inr (2, 50))))].

  Example map_file_example : renders (ta_map a) [("u1", "/x/a.npy"); ("u2", "/x/b c.npy")].
  Proof.
    cbn [ta_map a].
    apply (r_entry "" (String nl "") "u1" "/x/a.npy"); try reflexivity.
    - split; [discriminate | reflexivity].
    - right. exists "/"%char, "x/a.np", "y"%char. repeat split.
    - apply r_blank; [reflexivity|].
      apply (r_entry "  " ("  " ++ String nl "") "u2" "/x/b c.npy"); try reflexivity.
      + split; [discriminate | reflexivity].
      + right. exists "/"%char, "x/b c.np", "y"%char. repeat split.
      + constructor.
  Qed.

  Example torch_tool_example :
    let m := [("u1", "/x/a.npy"); ("u2", "/x/b c.npy")] in
    let ds := torch_dataset (L := SymLib) a 3 m [mkSP 0 true] None [] in
    NoDup (map fst m) /\
    exists F, Forall2 (torch_stored (L := SymLib) (sym_read files) a 3 m [mkSP 0 true] None []) (td_utt_path ds) F /\
              map fst F = ["u2"].
  Proof.
    cbv zeta. split; [repeat constructor; cbn; intuition discriminate|].
    exists [("u2", mkSF (FCast (FColumn (SPre 0 (SChan 1 0) (RSeed 4)))) 50 : Feat SymLib)]. split.
    - vm_compute td_utt_path. constructor; [|constructor].
      split; [cbn; reflexivity|].
      exists (A2 [mkSS (SChan 1 0) 50; mkSS (SChan 1 1) 50] 50), (mkSS (SChan 1 0) 50), 1%nat.
      repeat split.
    - reflexivity.
  Qed.

  Example stft_plan_example :
    np_stft_plan 200 80 false true 1000 = Some (13, 60, 100) /\ np_stft_plan 200 80 true false 100 = None.
  Proof. split; reflexivity. Qed.
End Examples.

(** * The entry points, end to end *)
Section MainSpecs.
  Context {L : Lib}.
  Variable Cfg : Type.
  Variables (fs : string -> option string) (load : string -> option Cfg) (shape : Cfg -> CfgShape Cfg).
  Variables (bc : Cfg -> Build (Comp L)) (bp : Cfg -> Build (Pre L)) (bq : Cfg -> Build (Post L)).

  (* compute-feats-from-kaldi-tables with configurations that parse and build, tables that open *)
  Lemma kaldi_main_spec_l (a : KArgs) cc pc qc c pl ps ql qs items (r0 : Rng L) :
    config_type Cfg fs load (ka_computer a) = Some cc ->
    opt_config Cfg fs load (ka_preprocess a) = Some pc ->
    opt_config Cfg fs load (ka_postprocess a) = Some qc ->
    bc cc = Built c ->
    config_elements Cfg shape pc = Some pl -> build_all bp pl = Built ps ->
    config_elements Cfg shape qc = Some ql -> build_all bq ql = Built qs ->
    kaldi_main Cfg fs load shape bc bp bq false a (Some items) true r0 =
    match kaldi_spec (ka_opts a) ps c qs items
                     (match k_seed (ka_opts a) with Some z => seed_rng z | None => r0 end) with
    | (out, _, None) => KExit (if Zlength out =? 0 then 1 else 0) out
    | (out, _, Some e) => KExc e out
    end.
  Proof.
    intros H1 H2 H3 H4 H5 H6 H7 H8. unfold kaldi_main.
    rewrite H1, H2, H3, H4, H5, H6, H7, H8. cbn [negb].
    assert (Hw : kaldi_seed (ka_opts a) (mkKW r0 []) =
                 mkKW (match k_seed (ka_opts a) with Some z => seed_rng z | None => r0 end) []).
    { unfold kaldi_seed, kw_seed. destruct (k_seed (ka_opts a)); reflexivity. }
    rewrite Hw, kaldi_tool_spec_l.
    destruct (kaldi_spec (ka_opts a) ps c qs items _) as [[out r'] [e|]]; cbn [kw_out].
    - reflexivity.
    - rewrite kaldi_exit_l. reflexivity.
  Qed.

  (* an unparsable configuration: argparse's exit status 2, nothing written *)
  Lemma kaldi_main_unparsable_l (a : KArgs) wav writable (r0 : Rng L) d :
    config_type Cfg fs load (ka_computer a) = None ->
    kaldi_main Cfg fs load shape bc bp bq d a wav writable r0 = KExit 2 [].
  Proof. intros H. unfold kaldi_main. rewrite H. reflexivity. Qed.

  (* an unknown alias / bad mapping for the computer: exit status 1, nothing written *)
  Lemma kaldi_main_bad_computer_l (a : KArgs) cc pc qc wav writable (r0 : Rng L) d :
    config_type Cfg fs load (ka_computer a) = Some cc ->
    opt_config Cfg fs load (ka_preprocess a) = Some pc ->
    opt_config Cfg fs load (ka_postprocess a) = Some qc ->
    bc cc = BuildValueError ->
    kaldi_main Cfg fs load shape bc bp bq d a wav writable r0 = KExit 1 [].
  Proof. intros H1 H2 H3 H4. unfold kaldi_main. rewrite H1, H2, H3, H4. reflexivity. Qed.
End MainSpecs.

Lemma NoDup_app_snoc {A} (l : list A) x : NoDup l -> ~ In x l -> NoDup (l ++ [x]).
Proof.
  induction l as [|y l IH]; intros ND HI; cbn.
  - constructor; [intros [] | constructor].
  - inversion ND as [|? ? Hy ND']; subst. constructor.
    + intros H. apply in_app_or in H as [H|[H|[]]]; [exact (Hy H) | subst; apply HI; left; reflexivity].
    + apply IH; [exact ND' | intros H; apply HI; right; exact H].
Qed.

(* the ids read from the map file are distinct (the tool refuses a repeated id) *)
Lemma torch_map_loop_nodup : forall lines n acc m,
    torch_map_loop lines n acc = MapOk m -> NoDup (map fst acc) -> NoDup (map fst m).
Proof.
  induction lines as [|line lines IH]; intros n acc m H ND.
  - cbn in H. inversion H; subst. exact ND.
  - cbn [torch_map_loop] in H.
    destruct (negb (truthy_str (strip line))); [eapply IH; eassumption|].
    destruct (Zlength (split_sp (strip line)) <? 2); [discriminate|].
    destruct (py_getitem (split_sp (strip line)) 0) as [utt|]; [|discriminate].
    destruct (dict_mem utt acc) eqn:E; [discriminate|].
    eapply IH; [exact H|].
    rewrite (dict_set_new _ _ _ E), map_app. cbn [map fst].
    apply NoDup_app_snoc; [exact ND|].
    intros HI. unfold dict_mem in E. apply mem_str_in in HI. congruence.
Qed.

Section TorchMainSpec.
  Context {L : Lib}.
  Variable Cfg : Type.
  Variables (fs : string -> option string) (load : string -> option Cfg) (shape : Cfg -> CfgShape Cfg).
  Variables (bc : Cfg -> Build (Comp L)) (bp : Cfg -> Build (Pre L)) (bq : Cfg -> Build (Post L)).
  Variables (read_signal : string -> string -> option (Arr (Sig L))) (sig_len : Sig L -> Z).
  Hypothesis sig_len_nonneg : forall s, 0 <= sig_len s.

  (* signals-to-torch-feat-dir with configurations that parse, build and have PyTorch ports,
     a well-formed map, and utterances that can be read and have the requested channel *)
  Lemma torch_main_spec_l (a : TArgs) fresh r cc pc qc comp pl pres ptpres ql posts m F :
    (match ta_computer a with
     | None => Some None
     | Some s => match config_type Cfg fs load s with Some c => Some (Some c) | None => None end
     end) = Some cc ->
    opt_config Cfg fs load (ta_preprocess a) = Some pc ->
    opt_config Cfg fs load (ta_postprocess a) = Some qc ->
    torch_map_loop (ta_map a) 0 [] = MapOk m ->
    (match cc with
     | None => Some (Some None)
     | Some c => match bc c with
                 | Built computer => match conv_comp computer with
                                     | Some pc => Some (Some (Some pc))
                                     | None => Some None
                                     end
                 | _ => None
                 end
     end) = Some (Some comp) ->
    config_elements Cfg shape pc = Some pl -> build_all bp pl = Built pres ->
    conv_all conv_pre pres = Some ptpres ->
    config_elements Cfg shape qc = Some ql -> build_all bq ql = Built posts ->
    let seed := torch_seed_choice (ta_seed a) fresh in
    let ds := torch_dataset a seed m ptpres comp (map conv_post posts) in
    Forall2 (torch_stored read_signal a seed m ptpres comp (map conv_post posts)) (td_utt_path ds) F ->
    torch_main Cfg fs load shape bc bp bq read_signal sig_len a fresh r =
    TExit 0 (map (file_of (ta_prefix a) (ta_suffix a)) F)
          (if is_some (ta_manifest a) then map fst F else []).
  Proof.
    intros H1 H2 H3 H4 H5 H6 H7 H8 H9 H10 seed ds HF. unfold torch_main.
    rewrite H1, H2, H3, H4, H5, H6, H7, H8, H9, H10.
    apply (torch_tool_spec_l read_signal sig_len sig_len_nonneg a seed m ptpres comp (map conv_post posts) F r).
    - eapply torch_map_loop_nodup; [exact H4 | constructor].
    - exact HF.
  Qed.
End TorchMainSpec.
