(* C09 - the property theorems, and nothing else.  Each is closed by [exact] of a
   lemma of Proofs.v; the axioms each depends on are printed beneath it.

   kaldi_seed, kaldi_loop, kaldi_exit, torch_item, np_stft_plan and pt_stft_plan
   are the definitions of gen/CmdLine.v, regenerated from command_line.py,
   compute.py and torch.py on every run; kaldi_main, torch_save_loop,
   torch_dataset are the hand-written entry points of C09/Tools.v; lib_features,
   kaldi_spec, kaldi_select, torch_select, pt_features, torch_stored are the
   specification (C09/Model.v, C09/Tools.v).  L is the library, abstractly. *)
From Coq Require Import ZArith QArith List Bool String Ascii.
From Verif Require Import C09.Model gen.CmdLine C09.Tools C09.Proofs.
Import ListNotations.
Open Scope Z_scope.

(** compute-feats-from-kaldi-tables: the table written is the specification's
    list - same ids, same order, same matrices, same final generator state -
    for every option set, pipeline and wave table; an exception escapes exactly
    when the specification says so, with the entries written so far. *)
Theorem kaldi_tool_spec :
  forall (L : Lib) (o : KOptions) (c : Comp L) (ps : list (Pre L)) (qs : list (Post L))
         (items : list (KItem L)) (r0 : Rng L),
    kaldi_loop o c ps qs false items 0 0 (mkKW r0 []) =
    match kaldi_spec o ps c qs items r0 with
    | (out, r', None) => KDone (Zlength items) (Zlength out) (mkKW r' out)
    | (out, r', Some e) => KRaise e (mkKW r' out)
    end.
Proof. exact @kaldi_tool_spec_l. Qed.
Print Assumptions kaldi_tool_spec.

(** the ids in the table are those of the utterances not excluded, in input order *)
Theorem kaldi_ids_preserved :
  forall (L : Lib) (o : KOptions) (c : Comp L) (ps : list (Pre L)) (qs : list (Post L))
         (items : list (KItem L)) (r : Rng L) (out : list (string * Feat L)) (r' : Rng L),
    kaldi_spec o ps c qs items r = (out, r', None) ->
    map fst out = map fst (kaldi_kept o (comp_rate c) items).
Proof. exact @kaldi_spec_ids_l. Qed.
Print Assumptions kaldi_ids_preserved.

(** every entry is the library pipeline (lib_features) of the selected channel
    of an input utterance with that id *)
Theorem kaldi_entries_are_library_pipeline :
  forall (L : Lib) (o : KOptions) (c : Comp L) (ps : list (Pre L)) (qs : list (Post L))
         (items : list (KItem L)) (r : Rng L) (out : list (string * Feat L)) (r' : Rng L)
         (e : option exn) (k : string) (f : Feat L),
    kaldi_spec o ps c qs items r = (out, r', e) ->
    In (k, f) out ->
    exists (it : KItem L) (sg : Sig L) (rr : Rng L),
      In it items /\ fst it = k /\
      kaldi_select o (comp_rate c) it = KTake sg /\ fst (lib_features ps c qs sg rr) = Some f.
Proof. exact @kaldi_spec_sound_l. Qed.
Print Assumptions kaldi_entries_are_library_pipeline.

(** every utterance that is not excluded appears under its own id *)
Theorem kaldi_every_kept_utterance_stored :
  forall (L : Lib) (o : KOptions) (c : Comp L) (ps : list (Pre L)) (qs : list (Post L))
         (items : list (KItem L)) (r : Rng L) (out : list (string * Feat L)) (r' : Rng L)
         (it : KItem L) (sg : Sig L),
    kaldi_spec o ps c qs items r = (out, r', None) ->
    In it items ->
    kaldi_select o (comp_rate c) it = KTake sg ->
    exists (f : Feat L) (rr : Rng L), In (fst it, f) out /\ fst (lib_features ps c qs sg rr) = Some f.
Proof. exact @kaldi_spec_complete_l. Qed.
Print Assumptions kaldi_every_kept_utterance_stored.

(** an excluded utterance (too short, wrong rate, channel out of range) leaves no entry *)
Theorem kaldi_excluded_utterance_absent :
  forall (L : Lib) (o : KOptions) (c : Comp L) (ps : list (Pre L)) (qs : list (Post L))
         (items : list (KItem L)) (r : Rng L) (out : list (string * Feat L)) (r' : Rng L)
         (it : KItem L),
    kaldi_spec o ps c qs items r = (out, r', None) ->
    NoDup (map fst items) ->
    In it items -> kaldi_select o (comp_rate c) it = KSkip -> ~ In (fst it) (map fst out).
Proof. exact @kaldi_spec_excluded_absent_l. Qed.
Print Assumptions kaldi_excluded_utterance_absent.

(** on the property's domain (mono without --channel, or a valid --channel; long
    enough; right rate) the utterance is taken, from exactly that channel *)
Theorem kaldi_selects_the_channel :
  forall (L : Lib) (o : KOptions) (c : Comp L) (utt : string) (buff : list (Sig L)) (sf dur : Q),
    (k_min_duration o <= dur)%Q ->
    (sf == comp_rate c)%Q ->
    k_channel o = -1 /\ Zlength buff = 1 \/ 0 <= k_channel o < Zlength buff ->
    kaldi_select o (comp_rate c) (utt, (buff, sf, dur)) =
    match nth_error buff (Z.to_nat (Z.max 0 (k_channel o))) with
    | Some s => KTake s
    | None => KCrash
    end /\ nth_error buff (Z.to_nat (Z.max 0 (k_channel o))) <> None.
Proof. exact @kaldi_select_domain_l. Qed.
Print Assumptions kaldi_selects_the_channel.

(** lib_features is the pipeline of the property statement: pre-processors in
    order, compute_full, post-processors in order, float32 ... *)
Theorem stored_matrix_is_the_pipeline :
  forall (L : Lib) (ps : list (Pre L)) (c : Comp L) (qs : list (Post L)) (s : Sig L) (r : Rng L),
    let s' := fst (fold_pre pre_apply ps s r) in
    0 < nframes (compute_full c s') ->
    fst (lib_features ps c qs s r) = option_map cast32 (fold_post post_apply qs (compute_full c s')).
Proof. exact @lib_features_pipeline_l. Qed.
Print Assumptions stored_matrix_is_the_pipeline.

(** ... and an utterance too short to yield a frame is stored as the empty result of compute_full *)
Theorem frameless_utterance_stored_empty :
  forall (L : Lib) (ps : list (Pre L)) (c : Comp L) (qs : list (Post L)) (s : Sig L) (r : Rng L),
    let s' := fst (fold_pre pre_apply ps s r) in
    nframes (compute_full c s') = 0 -> fst (lib_features ps c qs s r) = Some (cast32 (compute_full c s')).
Proof. exact @lib_features_empty_l. Qed.
Print Assumptions frameless_utterance_stored_empty.

(** exit status 0 exactly when at least one utterance was stored *)
Theorem kaldi_exit_status : forall n s : Z, kaldi_exit n s = (if s =? 0 then 1 else 0).
Proof. exact kaldi_exit_l. Qed.
Print Assumptions kaldi_exit_status.

(** with --seed (0 included) two runs are identical whatever state numpy's generator starts in *)
Theorem kaldi_seed_determinism :
  forall (L : Lib) (Cfg : Type) (fs : string -> option string) (load : string -> option Cfg)
         (shape : Cfg -> CfgShape Cfg) (bc : Cfg -> Build (Comp L)) (bp : Cfg -> Build (Pre L))
         (bq : Cfg -> Build (Post L)) (a : KArgs) (z : Z) (wav : option (list (KItem L)))
         (writable : bool) (r1 r2 : Rng L),
    k_seed (ka_opts a) = Some z ->
    kaldi_main Cfg fs load shape bc bp bq false a wav writable r1 =
    kaldi_main Cfg fs load shape bc bp bq false a wav writable r2.
Proof. exact @kaldi_main_seeded_l. Qed.
Print Assumptions kaldi_seed_determinism.

Theorem kaldi_seed_zero_is_a_seed :
  forall (L : Lib) (o : KOptions) (w : KWorld L),
    k_seed o = Some 0 -> kw_rng (kaldi_seed o w) = seed_rng 0.
Proof. exact @kaldi_seed_zero_l. Qed.
Print Assumptions kaldi_seed_zero_is_a_seed.

(** configurations reach the tool only through _config_type: inline text, a JSON
    file, a YAML file that load to the same containers give the same run *)
Theorem kaldi_config_syntax_irrelevant :
  forall (L : Lib) (Cfg : Type) (fs : string -> option string) (load : string -> option Cfg)
         (shape : Cfg -> CfgShape Cfg) (bc : Cfg -> Build (Comp L)) (bp : Cfg -> Build (Pre L))
         (bq : Cfg -> Build (Post L)) (a a' : KArgs) (wav : option (list (KItem L)))
         (writable : bool) (r : Rng L) (d : bool),
    config_type Cfg fs load (ka_computer a) = config_type Cfg fs load (ka_computer a') ->
    opt_config Cfg fs load (ka_preprocess a) = opt_config Cfg fs load (ka_preprocess a') ->
    opt_config Cfg fs load (ka_postprocess a) = opt_config Cfg fs load (ka_postprocess a') ->
    ka_opts a = ka_opts a' ->
    kaldi_main Cfg fs load shape bc bp bq d a wav writable r =
    kaldi_main Cfg fs load shape bc bp bq d a' wav writable r.
Proof. exact @kaldi_main_config_syntax_l. Qed.
Print Assumptions kaldi_config_syntax_irrelevant.

Theorem config_file_equals_inline :
  forall (Cfg : Type) (fs : string -> option string) (load : string -> option Cfg) (path text : string),
    fs path = Some text -> fs text = None -> config_type Cfg fs load path = config_type Cfg fs load text.
Proof. exact config_type_file_inline_l. Qed.
Print Assumptions config_file_equals_inline.

Theorem config_json_file_equals_yaml_file :
  forall (Cfg : Type) (fs : string -> option string) (load : string -> option Cfg) (p1 p2 t1 t2 : string),
    fs p1 = Some t1 -> fs p2 = Some t2 -> load t1 = load t2 ->
    config_type Cfg fs load p1 = config_type Cfg fs load p2.
Proof. exact config_type_two_files_l. Qed.
Print Assumptions config_json_file_equals_yaml_file.

(** signals-to-torch-feat-dir: one item of the data set *)
Theorem torch_item_spec :
  forall (L : Lib) (read_signal : string -> string -> option (Arr (Sig L))) (sig_len : Sig L -> Z),
    (forall s : Sig L, 0 <= sig_len s) ->
    forall (ds : TDataset L) (idx : Z) (r : Rng L) (off : Z) (utt path : string) (a : Arr (Sig L)),
      py_getitem (td_seed_offsets ds) idx = Some off ->
      py_getitem (td_utt_path ds) idx = Some (utt, path) ->
      read_signal path utt = Some a ->
      torch_item read_signal sig_len ds idx r =
      match torch_select (td_channel ds) a with
      | TSelErr e => TRaise e
      | TSelTake s =>
        match pt_features (td_preprocessors ds) (td_computer ds) (td_postprocessors ds) s
                          (seed_rng (td_seed ds + off)) with
        | Some f => TReturn utt f
        | None => TRaise ELibraryError
        end
      end.
Proof. exact @torch_item_spec_l. Qed.
Print Assumptions torch_item_spec.

(** on the property's domain the item takes the vector, or the --channel row of the matrix *)
Theorem torch_selects_the_channel :
  forall (L : Lib) (channel : Z) (a : Arr (Sig L)),
    match a with
    | A1 s => channel = -1 -> torch_select channel a = TSelTake s
    | A2 chans _ =>
      0 <= channel < Zlength chans ->
      exists s : Sig L, nth_error chans (Z.to_nat channel) = Some s /\ torch_select channel a = TSelTake s
    end.
Proof. exact @torch_select_domain_l. Qed.
Print Assumptions torch_selects_the_channel.

(** no computer: the (pre-processed) samples as one float32 column *)
Theorem no_computer_is_column :
  forall (L : Lib) (ps : list (PtPre L)) (s : Sig L) (r : Rng L),
    pt_features ps None [] s r = Some (cast32 (raw_column (fst (fold_pre pt_pre_apply ps s r)))).
Proof. exact @no_computer_is_column_l. Qed.
Print Assumptions no_computer_is_column.

(** if the PyTorch ports compute what the NumPy objects compute (properties C14,
    C18 - hypotheses here), the tensor is the library pipeline of the statement *)
Theorem torch_features_are_library_pipeline :
  forall (L : Lib) (ps : list (Pre L)) (c : Comp L) (qs : list (Post L)) (ps' : list (PtPre L))
         (c' : PtComp L),
    conv_all conv_pre ps = Some ps' ->
    (forall (p : Pre L) (p' : PtPre L) (s : Sig L) (r : Rng L),
        conv_pre p = Some p' -> pt_pre_apply p' s r = pre_apply p s r) ->
    (forall s : Sig L, pt_compute c' s = compute_full c s) ->
    (forall (q : Post L) (f : Feat L), pt_post_apply (conv_post q) f = post_apply q f) ->
    forall (s : Sig L) (r : Rng L),
      pt_features ps' (Some c') (map conv_post qs) s r = fst (lib_features ps c qs s r).
Proof. exact @torch_features_are_library_l. Qed.
Print Assumptions torch_features_are_library_pipeline.

(** the whole run below argument parsing: every utterance of the map that the
    manifest does not list gets the file prefix+id+suffix holding torch_stored,
    seeded by its position in the MAP (not in what the manifest left), in map
    order; exit status 0; with --manifest the ids are appended in that order *)
Theorem torch_tool_spec :
  forall (L : Lib) (read_signal : string -> string -> option (Arr (Sig L))) (sig_len : Sig L -> Z),
    (forall s : Sig L, 0 <= sig_len s) ->
    forall (a : TArgs) (seed : Z) (m : list (string * string)) (pre : list (PtPre L))
           (comp : option (PtComp L)) (post : list (PtPost L)) (F : list (string * Feat L)) (r : Rng L),
      let ds := torch_dataset a seed m pre comp post in
      NoDup (map fst m) ->
      Forall2 (torch_stored read_signal a seed m pre comp post) (td_utt_path ds) F ->
      torch_save_loop read_signal sig_len ds (ta_prefix a) (ta_suffix a) (is_some (ta_manifest a))
                      (List.length (td_utt_path ds)) 0 r [] [] =
      TExit 0 (map (file_of (ta_prefix a) (ta_suffix a)) F)
            (if is_some (ta_manifest a) then map fst F else []).
Proof. exact @torch_tool_spec_l. Qed.
Print Assumptions torch_tool_spec.

Theorem torch_manifest_excludes_exactly_listed :
  forall (L : Lib) (a : TArgs) (seed : Z) (m : list (string * string)) (pre : list (PtPre L))
         (comp : option (PtComp L)) (post : list (PtPost L)),
    td_utt_path (torch_dataset a seed m pre comp post) =
    match ta_manifest a with
    | Some lines => filter (fun kv : string * string => negb (mem_str (fst kv) (map torch_manifest_key lines))) m
    | None => m
    end.
Proof. exact @torch_dataset_utts_l. Qed.
Print Assumptions torch_manifest_excludes_exactly_listed.

(** the line the tool appends for an utterance stands for that utterance on the next run *)
Theorem manifest_line_roundtrip :
  forall u : string, wf_id u -> torch_manifest_key (u ++ String nl EmptyString)%string = u.
Proof. exact manifest_line_roundtrip_l. Qed.
Print Assumptions manifest_line_roundtrip.

(** reading the map file (generated torch_map_loop): lines that render a list of
    well-formed entries - blank lines anywhere, blanks and line terminators
    around an entry, blanks inside a path - are read back as exactly that list,
    in order, when the ids are distinct; *)
Theorem map_file_read_back :
  forall (lines : list string) (es : list (string * string)),
    renders lines es ->
    forall (n : Z) (acc : list (string * string)),
      NoDup (map fst acc ++ map fst es) -> torch_map_loop lines n acc = MapOk (acc ++ es).
Proof. exact parse_map_wellformed. Qed.
Print Assumptions map_file_read_back.

(** a line with a single field, or with an id already seen, ends the tool with status 1 *)
Theorem map_file_one_field_rejected :
  forall (ws1 ws2 u : string) (rest : list string) (n : Z) (acc : list (string * string)),
    all_space ws1 = true -> all_space ws2 = true -> wf_id u ->
    torch_map_loop ((ws1 ++ u ++ ws2)%string :: rest) n acc = MapExit 1.
Proof. exact parse_map_one_field. Qed.
Print Assumptions map_file_one_field_rejected.

Theorem map_file_duplicate_rejected :
  forall (ws1 ws2 u p : string) (rest : list string) (n : Z) (acc : list (string * string)),
    all_space ws1 = true -> all_space ws2 = true -> wf_id u -> wf_path p -> dict_mem u acc = true ->
    torch_map_loop ((ws1 ++ (u ++ String sp p) ++ ws2)%string :: rest) n acc = MapExit 1.
Proof. exact torch_map_duplicate_l. Qed.
Print Assumptions map_file_duplicate_rejected.

(** without --seed a fresh seed is drawn; with it (0 included) that seed is used *)
Theorem torch_seed_choice_spec :
  forall (fresh z : Z), torch_seed_choice (Some z) fresh = z /\ torch_seed_choice None fresh = fresh.
Proof. exact torch_seed_choice_l. Qed.
Print Assumptions torch_seed_choice_spec.

(** an item that raises stops the run; the files written before it stay *)
Theorem torch_failure_keeps_earlier_files :
  forall (L : Lib) (read_signal : string -> string -> option (Arr (Sig L)))
         (sig_len : Sig L -> Z) (ds : TDataset L) (prefix suffix : string) (wm : bool)
         (F : list (string * Feat L)) (n : nat) (idx : Z) (r : Rng L) (disk : list (string * Feat L))
         (mani : list string) (e : exn),
    (forall (i : nat) (uf : string * Feat L),
        nth_error F i = Some uf ->
        torch_item read_signal sig_len ds (idx + Z.of_nat i) r = TReturn (fst uf) (snd uf)) ->
    torch_item read_signal sig_len ds (idx + Z.of_nat (List.length F)) r = TRaise e ->
    torch_save_loop read_signal sig_len ds prefix suffix wm (List.length F + S n) idx r disk mani =
    TExc e (disk ++ map (file_of prefix suffix) F) (if wm then mani ++ map fst F else mani).
Proof. exact @torch_save_loop_raise_l. Qed.
Print Assumptions torch_failure_keeps_earlier_files.

(** with --seed the item does not depend on the state torch's generator is in *)
Theorem torch_seed_determinism :
  forall (L : Lib) (read_signal : string -> string -> option (Arr (Sig L)))
         (sig_len : Sig L -> Z) (ds : TDataset L) (idx : Z) (r1 r2 : Rng L),
    torch_item read_signal sig_len ds idx r1 = torch_item read_signal sig_len ds idx r2.
Proof. exact @torch_item_rng_irrelevant_l. Qed.
Print Assumptions torch_seed_determinism.

(** the framing arithmetic of the NumPy computer and of its PyTorch port agree:
    same too-short gate, same frame count, same pads, for all L, S, N and styles *)
Theorem stft_plan_numpy_equals_torch :
  forall (Lf S : Z) (centered k : bool) (N : Z),
    pt_stft_plan Lf S centered k N = plan_obs (np_stft_plan Lf S (negb centered) k N).
Proof. exact stft_plan_np_eq_pt_l. Qed.
Print Assumptions stft_plan_numpy_equals_torch.

(** ... literally the same plan whenever frame_shift <= frame_length; [plan_obs] only matters for
    frame_shift > frame_length, where a signal can pass the too-short gate and still have no frame
    (the PyTorch port then returns the empty matrix before its FFT, fix 3dd998d) *)
Theorem stft_plan_numpy_equals_torch_narrow :
  forall (Lf S : Z) (centered k : bool) (N : Z), 0 < S <= Lf ->
    pt_stft_plan Lf S centered k N = np_stft_plan Lf S (negb centered) k N.
Proof. exact stft_plan_np_eq_pt_narrow_l. Qed.
Print Assumptions stft_plan_numpy_equals_torch_narrow.

Theorem stft_no_frame_iff_too_short :
  forall (Lf S : Z) (causal k : bool) (N : Z),
    np_stft_plan Lf S causal k N = None <-> N < Lf / 2 + 1.
Proof. exact stft_plan_too_short_l. Qed.
Print Assumptions stft_no_frame_iff_too_short.

Theorem stft_frame_count :
  forall (Lf S : Z) (causal k : bool) (N nf pl pr : Z),
    0 < S -> 0 <= N -> np_stft_plan Lf S causal k N = Some (nf, pl, pr) ->
    nf = (N + S / 2) / S /\ pr = Z.max 0 ((nf - 1) * S - pl + Lf - N) /\
    pl = (if causal then 0 else if k then Lf / 2 - S / 2 else (Lf + 1) / 2 - 1).
Proof. exact stft_plan_frames_l. Qed.
Print Assumptions stft_frame_count.

(** centred frames: each pad is at most the signal, one reflection suffices ... *)
Theorem stft_centered_pads_within_signal :
  forall (Lf S : Z) (k : bool) (N nf pl pr : Z),
    0 < S -> 0 < Lf -> (k = true -> S / 2 <= Lf / 2) ->
    np_stft_plan Lf S false k N = Some (nf, pl, pr) ->
    0 <= pl <= N /\ 0 <= pr <= N.
Proof. exact stft_centered_pads_within_signal_l. Qed.
Print Assumptions stft_centered_pads_within_signal.

(** ... causal frames: the right pad can exceed the signal (the input on which the
    PyTorch port used to raise, fixed in 57763aa) *)
Theorem stft_causal_pad_may_exceed_signal :
  exists Lf S N nf pl pr : Z,
    0 < S <= Lf /\ np_stft_plan Lf S true false N = Some (nf, pl, pr) /\ N < pr.
Proof. exact stft_causal_pad_may_exceed_signal_l. Qed.
Print Assumptions stft_causal_pad_may_exceed_signal.

Theorem stft_padded_signal_covers_frames :
  forall (Lf S : Z) (causal k : bool) (N nf pl pr : Z),
    np_stft_plan Lf S causal k N = Some (nf, pl, pr) -> (nf - 1) * S + Lf <= pl + N + pr.
Proof. exact stft_padded_covers_frames_l. Qed.
Print Assumptions stft_padded_signal_covers_frames.

(** the entry points, end to end *)
Theorem kaldi_main_spec :
  forall (L : Lib) (Cfg : Type) (fs : string -> option string) (load : string -> option Cfg)
         (shape : Cfg -> CfgShape Cfg) (bc : Cfg -> Build (Comp L)) (bp : Cfg -> Build (Pre L))
         (bq : Cfg -> Build (Post L)) (a : KArgs) (cc : Cfg) (pc qc : option Cfg) (c : Comp L)
         (pl : list Cfg) (ps : list (Pre L)) (ql : list Cfg) (qs : list (Post L))
         (items : list (KItem L)) (r0 : Rng L),
    config_type Cfg fs load (ka_computer a) = Some cc ->
    opt_config Cfg fs load (ka_preprocess a) = Some pc ->
    opt_config Cfg fs load (ka_postprocess a) = Some qc ->
    bc cc = Built c ->
    config_elements Cfg shape pc = Some pl -> build_all bp pl = Built ps ->
    config_elements Cfg shape qc = Some ql -> build_all bq ql = Built qs ->
    kaldi_main Cfg fs load shape bc bp bq false a (Some items) true r0 =
    match kaldi_spec (ka_opts a) ps c qs items
                     (match k_seed (ka_opts a) with Some z => seed_rng z | None => r0 end) with
    | (out, _, None) => KExit (if Zlength out =? 0 then 1 else 0) out
    | (out, _, Some e) => KExc e out
    end.
Proof. exact @kaldi_main_spec_l. Qed.
Print Assumptions kaldi_main_spec.

Theorem kaldi_main_unparsable_config_exits_2 :
  forall (L : Lib) (Cfg : Type) (fs : string -> option string) (load : string -> option Cfg)
         (shape : Cfg -> CfgShape Cfg) (bc : Cfg -> Build (Comp L)) (bp : Cfg -> Build (Pre L))
         (bq : Cfg -> Build (Post L)) (a : KArgs) (wav : option (list (KItem L))) (writable : bool)
         (r0 : Rng L) (d : bool),
    config_type Cfg fs load (ka_computer a) = None ->
    kaldi_main Cfg fs load shape bc bp bq d a wav writable r0 = KExit 2 [].
Proof. exact @kaldi_main_unparsable_l. Qed.
Print Assumptions kaldi_main_unparsable_config_exits_2.

Theorem kaldi_main_unknown_computer_exits_1 :
  forall (L : Lib) (Cfg : Type) (fs : string -> option string) (load : string -> option Cfg)
         (shape : Cfg -> CfgShape Cfg) (bc : Cfg -> Build (Comp L)) (bp : Cfg -> Build (Pre L))
         (bq : Cfg -> Build (Post L)) (a : KArgs) (cc : Cfg) (pc qc : option Cfg)
         (wav : option (list (KItem L))) (writable : bool) (r0 : Rng L) (d : bool),
    config_type Cfg fs load (ka_computer a) = Some cc ->
    opt_config Cfg fs load (ka_preprocess a) = Some pc ->
    opt_config Cfg fs load (ka_postprocess a) = Some qc ->
    bc cc = BuildValueError ->
    kaldi_main Cfg fs load shape bc bp bq d a wav writable r0 = KExit 1 [].
Proof. exact @kaldi_main_bad_computer_l. Qed.
Print Assumptions kaldi_main_unknown_computer_exits_1.

(** the ids read from a map file are pairwise distinct *)
Theorem map_file_ids_distinct :
  forall (lines : list string) (n : Z) (acc m : list (string * string)),
    torch_map_loop lines n acc = MapOk m -> NoDup (map fst acc) -> NoDup (map fst m).
Proof. exact torch_map_loop_nodup. Qed.
Print Assumptions map_file_ids_distinct.

Theorem torch_main_spec :
  forall (L : Lib) (Cfg : Type) (fs : string -> option string) (load : string -> option Cfg)
         (shape : Cfg -> CfgShape Cfg) (bc : Cfg -> Build (Comp L)) (bp : Cfg -> Build (Pre L))
         (bq : Cfg -> Build (Post L)) (read_signal : string -> string -> option (Arr (Sig L)))
         (sig_len : Sig L -> Z),
    (forall s : Sig L, 0 <= sig_len s) ->
    forall (a : TArgs) (fresh : Z) (r : Rng L) (cc pc qc : option Cfg) (comp : option (PtComp L))
           (pl : list Cfg) (pres : list (Pre L)) (ptpres : list (PtPre L)) (ql : list Cfg)
           (posts : list (Post L)) (m : list (string * string)) (F : list (string * Feat L)),
      (match ta_computer a with
       | None => Some None
       | Some s => match config_type Cfg fs load s with Some c => Some (Some c) | None => None end
       end) = Some cc ->
      opt_config Cfg fs load (ta_preprocess a) = Some pc ->
      opt_config Cfg fs load (ta_postprocess a) = Some qc ->
      torch_map_loop (ta_map a) 0 [] = MapOk m ->
      (match cc with
       | None => Some (Some None)
       | Some c => match bc c with
                   | Built computer => match conv_comp computer with
                                       | Some pc => Some (Some (Some pc))
                                       | None => Some None
                                       end
                   | _ => None
                   end
       end) = Some (Some comp) ->
      config_elements Cfg shape pc = Some pl -> build_all bp pl = Built pres ->
      conv_all conv_pre pres = Some ptpres ->
      config_elements Cfg shape qc = Some ql -> build_all bq ql = Built posts ->
      let seed := torch_seed_choice (ta_seed a) fresh in
      let ds := torch_dataset a seed m ptpres comp (map conv_post posts) in
      Forall2 (torch_stored read_signal a seed m ptpres comp (map conv_post posts)) (td_utt_path ds) F ->
      torch_main Cfg fs load shape bc bp bq read_signal sig_len a fresh r =
      TExit 0 (map (file_of (ta_prefix a) (ta_suffix a)) F)
            (if is_some (ta_manifest a) then map fst F else []).
Proof. exact @torch_main_spec_l. Qed.
Print Assumptions torch_main_spec.
