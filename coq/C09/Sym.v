(* C09 - a symbolic instance of the library record, used
   (1) by the correspondence check: the generated tool code is run by vm_compute
       on descriptions of real wave tables / signal maps; what it "stores" are
       TERMS saying which library operations produce each matrix, from which
       channel of which utterance and from which generator state.  The harness
       evaluates these terms with the real library and compares with what the
       real tool stored;
   (2) as the witness that the hypotheses of the theorems are satisfiable.
   Frame counts and the reaction of post-processors to short inputs are facts
   about the library, not about the tools: they enter as oracle tables filled in
   by the harness from the library itself. *)
From Coq Require Import ZArith QArith List Bool String Ascii.
From Verif Require Import C09.Model gen.CmdLine C09.Tools.
Import ListNotations.
Open Scope Z_scope.

Inductive sterm : Type :=
| SChan (u c : Z)                               (* channel c of utterance number u, as float64 *)
| SPre (p : Z) (s : sterm) (r : rterm)          (* pre-processor p applied, generator in state r *)
with rterm : Type :=
| RInit                                         (* whatever state the process started in *)
| RSeed (z : Z)                                 (* just after seeding with z *)
| RNext (p : Z) (s : sterm) (r : rterm).        (* after pre-processor p has run on s from r *)

Inductive fterm : Type :=
| FCompute (c : Z) (s : sterm)
| FColumn (s : sterm)
| FPost (q : Z) (f : fterm)
| FCast (f : fterm).

Record ssig : Type := mkSS { s_term : sterm; s_len : Z }.
Record sfeat : Type := mkSF { f_term : fterm; f_frames : Z }.
(* a post-processor and how it reacts to a given number of frames:
   (frames in, Some frames out | None = raises) *)
Record spost : Type := mkSQ { q_id : Z; q_table : list (Z * option Z) }.
(* a computer: its bank's sampling rate and the number of frames compute_full
   returns for the signal rooted at (utterance, channel) *)
Record scomp : Type := mkSC { c_id : Z; c_rate : Q; c_frames : list (Z * Z * Z); c_ported : bool }.
Record spre : Type := mkSP { p_id : Z; p_ported : bool }.

Fixpoint sroot (s : sterm) : Z * Z :=
  match s with SChan u c => (u, c) | SPre _ s' _ => sroot s' end.

Fixpoint lookup2 (t : list (Z * Z * Z)) (u c : Z) : Z :=
  match t with
  | [] => -1
  | (u', c', n) :: t' => if (u =? u') && (c =? c') then n else lookup2 t' u c
  end.
Fixpoint lookup1 (t : list (Z * option Z)) (n : Z) : option Z :=
  match t with
  | [] => None
  | (n', o) :: t' => if n =? n' then o else lookup1 t' n
  end.

Definition sym_pre_apply (p : spre) (s : ssig) (r : rterm) : ssig * rterm :=
  (mkSS (SPre (p_id p) (s_term s) r) (s_len s), RNext (p_id p) (s_term s) r).
Definition sym_compute (c : scomp) (s : ssig) : sfeat :=
  let '(u, ch) := sroot (s_term s) in mkSF (FCompute (c_id c) (s_term s)) (lookup2 (c_frames c) u ch).
Definition sym_post_apply (q : spost) (f : sfeat) : option sfeat :=
  match lookup1 (q_table q) (f_frames f) with
  | Some n => Some (mkSF (FPost (q_id q) (f_term f)) n)
  | None => None
  end.

Definition SymLib : Lib :=
  {| Sig := ssig; Feat := sfeat; Pre := spre; Post := spost; Comp := scomp; Rng := rterm;
     seed_rng := RSeed;
     pre_apply := sym_pre_apply;
     compute_full := sym_compute;
     raw_column := fun s => mkSF (FColumn (s_term s)) (s_len s);
     nframes := f_frames;
     post_apply := sym_post_apply;
     cast32 := fun f => mkSF (FCast (f_term f)) (f_frames f);
     comp_rate := c_rate;
     PtPre := spre; PtComp := scomp; PtPost := spost;
     conv_pre := fun p => if p_ported p then Some p else None;
     conv_comp := fun c => if c_ported c then Some c else None;
     conv_post := fun q => q;
     pt_pre_apply := sym_pre_apply;
     pt_compute := sym_compute;
     pt_post_apply := sym_post_apply |}.

(** * Running the kaldi tool on a described wave table *)
(* an utterance: number, id, samples per channel (one entry per channel), rate, duration *)
Definition kdesc : Type := (Z * string * list Z * Q * Q)%type.
Definition kitem_of (d : kdesc) : KItem SymLib :=
  let '(u, id, lens, sf, dur) := d in
  (id, (map (fun '(c, n) => mkSS (SChan u c) n) (combine (map Z.of_nat (seq 0 (List.length lens))) lens), sf, dur)).

Inductive obs : Type :=
| ObsExit (code : Z) (stored : list (Z * fterm))     (* (position of the id among the input ids, term) *)
| ObsExc (e : exn) (stored : list (Z * fterm)).

Definition ids_of (ds : list kdesc) : list string := map (fun d => let '(_, id, _, _, _) := d in id) ds.
Definition show_out (ids : list string) (out : list (string * sfeat)) : list (Z * fterm) :=
  map (fun kf => (index_of (fst kf) ids 0, f_term (snd kf))) out.

(* below argument parsing: seed, loop, exit status (lines 266-267, 320-367) *)
Definition kaldi_run (o : KOptions) (c : scomp) (ps : list spre) (qs : list spost) (ds : list kdesc) : obs :=
  let w := kaldi_seed (L := SymLib) o (@mkKW SymLib RInit []) in
  match kaldi_loop (L := SymLib) o c ps qs false (map kitem_of ds) 0 0 w with
  | KDone n s w' => ObsExit (kaldi_exit n s) (show_out (ids_of ds) (kw_out w'))
  | KRaise e w' => ObsExc e (show_out (ids_of ds) (kw_out w'))
  end.

(** * Running the torch tool on a described signal map *)
(* what read_signal returns for the path of utterance number u:
   None = unreadable; Some (inl n) = a vector of n samples; Some (inr (chans, n)) = a matrix *)
Definition tdesc : Type := (Z * option (Z + Z * Z))%type.

Fixpoint find_desc (ds : list (string * tdesc)) (path : string) : option tdesc :=
  match ds with
  | [] => None
  | (p, d) :: ds' => if String.eqb p path then Some d else find_desc ds' path
  end.

Definition sym_read (files : list (string * tdesc)) (path _key : string) : option (Arr ssig) :=
  match find_desc files path with
  | None => None
  | Some (u, None) => None
  | Some (u, Some (inl n)) => Some (A1 (mkSS (SChan u (-1)) n))
  | Some (u, Some (inr (chans, n))) =>
    Some (A2 (map (fun c => mkSS (SChan u c) n) (map Z.of_nat (seq 0 (Z.to_nat chans)))) n)
  end.

Inductive tobs : Type :=
| TObsExit (code : Z) (disk : list (string * fterm)) (mani : list string)
| TObsExc (e : exn) (disk : list (string * fterm)) (mani : list string).

Definition show_disk (d : list (string * sfeat)) : list (string * fterm) :=
  map (fun kf => (fst kf, f_term (snd kf))) d.

(* below argument parsing and object construction: map file, manifest, data set, loop *)
Definition torch_run (a : TArgs) (seed : Z) (files : list (string * tdesc))
           (pre : list spre) (comp : option scomp) (post : list spost) : tobs :=
  match torch_map_loop (ta_map a) 0 [] with
  | MapExit code => TObsExit code [] []
  | MapRaise e => TObsExc e [] []
  | MapOk m =>
    match (match comp with
           | None => Some None
           | Some c => match conv_comp (l := SymLib) c with Some c' => Some (Some c') | None => None end
           end), conv_all (conv_pre (l := SymLib)) pre with
    | Some comp', Some pre' =>
      let ds := torch_dataset (L := SymLib) a seed m pre' comp' post in
      match torch_save_loop (L := SymLib) (sym_read files) s_len ds (ta_prefix a) (ta_suffix a)
                            (is_some (ta_manifest a)) (List.length (td_utt_path ds)) 0 RInit [] [] with
      | TExit code disk mani => TObsExit code (show_disk disk) mani
      | TExc e disk mani => TObsExc e (show_disk disk) mani
      end
    | _, _ => TObsExc ENotImplementedError [] []
    end
  end.

(** * The entry points with their argument handling (C09/Tools.v), on numbered
      configuration trees: what open(), the YAML/JSON loader, isinstance/iteration
      and the alias factories do with each argument is looked up in tables the
      harness fills in from the file system, the loader and the library. *)
Record cfgdb : Type := mkDB {
  db_files : list (string * string);            (* argument -> contents, when it names a readable file *)
  db_load : list (string * option Z);           (* text -> number of the tree it loads to | None = the loader raises *)
  db_shape : list (Z * CfgShape Z);
  db_comp : list (Z * Build scomp);
  db_pre : list (Z * Build spre);
  db_post : list (Z * Build spost);
}.

Fixpoint assoc_s {A} (k : string) (l : list (string * A)) : option A :=
  match l with [] => None | (k', v) :: l' => if String.eqb k k' then Some v else assoc_s k l' end.
Fixpoint assoc_z {A} (k : Z) (l : list (Z * A)) : option A :=
  match l with [] => None | (k', v) :: l' => if k =? k' then Some v else assoc_z k l' end.

Definition db_fs (db : cfgdb) (s : string) : option string := assoc_s s (db_files db).
Definition db_loader (db : cfgdb) (s : string) : option Z :=
  match assoc_s s (db_load db) with Some o => o | None => None end.
Definition db_shape_of (db : cfgdb) (c : Z) : CfgShape Z :=
  match assoc_z c (db_shape db) with Some sh => sh | None => ShNotIterable end.
Definition db_build {A} (t : list (Z * Build A)) (c : Z) : Build A :=
  match assoc_z c t with Some b => b | None => BuildOtherError end.

Definition kaldi_main_run (db : cfgdb) (a : KArgs) (wav : option (list kdesc)) (writable : bool) : obs :=
  let ids := match wav with Some ds => ids_of ds | None => [] end in
  match kaldi_main (L := SymLib) Z (db_fs db) (db_loader db) (db_shape_of db)
                   (db_build (db_comp db)) (db_build (db_pre db)) (db_build (db_post db)) false
                   a (option_map (map kitem_of) wav) writable RInit with
  | KExit code table => ObsExit code (show_out ids table)
  | KExc e table => ObsExc e (show_out ids table)
  end.

Definition torch_main_run (db : cfgdb) (a : TArgs) (fresh : Z) (files : list (string * tdesc)) : tobs :=
  match torch_main (L := SymLib) Z (db_fs db) (db_loader db) (db_shape_of db)
                   (db_build (db_comp db)) (db_build (db_pre db)) (db_build (db_post db))
                   (sym_read files) s_len a fresh RInit with
  | TExit code disk mani => TObsExit code (show_disk disk) mani
  | TExc e disk mani => TObsExc e (show_disk disk) mani
  end.
