(* C09 - the two entry points around the generated per-utterance code
   (gen/CmdLine.v).  Hand-written from command_line.py; definitions only.
   Argument parsing proper (argparse), the alias factories and the table / file
   codecs are parameters. *)
From Coq Require Import ZArith QArith List Bool String Ascii.
From Verif Require Import C09.Model gen.CmdLine.
Import ListNotations.
Open Scope Z_scope.

(** * _config_type (command_line.py:151-168) *)
Section Config.
  Variable Cfg : Type.                      (* the container hierarchy a loader returns *)
  Variable fs : string -> option string.    (* open(s).read(); None = IOError *)
  Variable load : string -> option Cfg.     (* YAML(typ="safe").load / json.loads; None = it raises *)

  (* None = ValueError, which argparse turns into exit status 2 *)
  Definition config_type (s : string) : option Cfg :=
    load (match fs s with Some contents => contents | None => s end).

  (* "--preprocess" and "--postprocess": a mapping is one configuration,
     anything else is iterated (command_line.py:279-287, 566-572) *)
  Inductive CfgShape : Type :=
  | ShDict
  | ShSeq (elts : list Cfg)
  | ShNotIterable.
  Variable shape : Cfg -> CfgShape.
  Definition config_elements (o : option Cfg) : option (list Cfg) :=
    match o with
    | None => Some []                       (* default=tuple() *)
    | Some c => match shape c with
                | ShDict => Some [c]
                | ShSeq l => Some l
                | ShNotIterable => None     (* TypeError *)
                end
    end.
End Config.
Arguments ShDict {Cfg}. Arguments ShSeq {Cfg}. Arguments ShNotIterable {Cfg}.

(* what alias_factory_subclass_from_arg can do *)
Inductive Build (A : Type) : Type :=
| Built (a : A)
| BuildValueError        (* unknown alias, bad mapping *)
| BuildOtherError.       (* TypeError etc. from a constructor *)
Arguments Built {A}. Arguments BuildValueError {A}. Arguments BuildOtherError {A}.

Fixpoint build_all {C A : Type} (b : C -> Build A) (l : list C) : Build (list A) :=
  match l with
  | [] => Built []
  | c :: l' => match b c with
               | Built a => match build_all b l' with
                            | Built r => Built (a :: r)
                            | BuildValueError => BuildValueError
                            | BuildOtherError => BuildOtherError
                            end
               | BuildValueError => BuildValueError
               | BuildOtherError => BuildOtherError
               end
  end.

(** * compute-feats-from-kaldi-tables (command_line.py:249-367) *)
Record KArgs : Type := mkKA {
  ka_computer : string;
  ka_preprocess : option string;
  ka_postprocess : option string;
  ka_opts : KOptions;
}.

Inductive KResult (L : Lib) : Type :=
| KExit (code : Z) (table : list (string * Feat L))
| KExc (e : exn) (table : list (string * Feat L)).
Arguments KExit {L}. Arguments KExc {L}.

Section KaldiMain.
  Context {L : Lib}.
  Variable Cfg : Type.
  Variable fs : string -> option string.
  Variable load : string -> option Cfg.
  Variable shape : Cfg -> CfgShape Cfg.
  Variable build_comp : Cfg -> Build (Comp L).
  Variable build_pre : Cfg -> Build (Pre L).
  Variable build_post : Cfg -> Build (Post L).
  Variable base_is_double : bool.

  Definition opt_config (o : option string) : option (option Cfg) :=
    match o with
    | None => Some None
    | Some s => match config_type Cfg fs load s with Some c => Some (Some c) | None => None end
    end.

  (* wav: the wave table (None = it cannot be opened); writable: the output can be opened *)
  Definition kaldi_main (a : KArgs) (wav : option (list (KItem L))) (writable : bool) (r0 : Rng L)
    : KResult L :=
    match config_type Cfg fs load (ka_computer a), opt_config (ka_preprocess a), opt_config (ka_postprocess a) with
    | Some cc, Some pc, Some qc =>
      let w := kaldi_seed (ka_opts a) (mkKW r0 []) in
      match build_comp cc with
      | BuildValueError => KExit 1 []
      | BuildOtherError => KExc ELibraryError []
      | Built computer =>
        match config_elements Cfg shape pc with
        | None => KExc ELibraryError []
        | Some pl =>
          match build_all build_pre pl with
          | BuildValueError => KExit 1 []
          | BuildOtherError => KExc ELibraryError []
          | Built preprocessors =>
            match config_elements Cfg shape qc with
            | None => KExc ELibraryError []
            | Some ql =>
              match build_all build_post ql with
              | BuildValueError => KExit 1 []
              | BuildOtherError => KExc ELibraryError []
              | Built postprocessors =>
                match wav with
                | None => KExit 1 []
                | Some items =>
                  if negb writable then KExit 1 [] else
                  match kaldi_loop (ka_opts a) computer preprocessors postprocessors base_is_double
                                   items 0 0 w with
                  | KDone num_utts num_success w' =>
                    KExit (kaldi_exit num_utts num_success) (kw_out w')
                  | KRaise e w' => KExc e (kw_out w')
                  end
                end
              end
            end
          end
        end
      end
    | _, _, _ => KExit 2 []      (* argparse: error: argument ...: exit status 2 *)
    end.
End KaldiMain.

(** * signals-to-torch-feat-dir (command_line.py:475-617) *)

(* reading the map file is generated: torch_map_loop (gen/CmdLine.v) *)

(* the manifest (generated: which id a line stands for) *)
Definition manifest_filter (manifest : list string) (m : list (string * string)) : list (string * string) :=
  fold_left (fun m line => dict_pop m (torch_manifest_key line)) manifest m.

(* what a well-formed map file is: the id is non-empty and has no blank; the path
   starts and ends with a non-blank (it may contain blanks); any amount of blanks
   / line terminators around an entry, blank lines anywhere *)
Definition wf_id (u : string) : Prop := u <> EmptyString /\ no_space u = true.
Definition wf_path (p : string) : Prop :=
  (exists c, p = String c EmptyString /\ is_space c = false) \/
  (exists c0 mid c1, p = (String c0 mid ++ String c1 EmptyString)%string /\ is_space c0 = false /\ is_space c1 = false).
Inductive renders : list string -> list (string * string) -> Prop :=
| r_nil : renders [] []
| r_blank l ls es : all_space l = true -> renders ls es -> renders (l :: ls) es
| r_entry ws1 ws2 u p ls es :
    all_space ws1 = true -> all_space ws2 = true -> wf_id u -> wf_path p -> renders ls es ->
    renders ((ws1 ++ (u ++ String sp p) ++ ws2)%string :: ls) ((u, p) :: es).

(* utt2idx: position in the map file *)
Fixpoint index_of (k : string) (l : list string) (i : Z) : Z :=
  match l with
  | [] => i
  | x :: l' => if String.eqb k x then i else index_of k l' (i + 1)
  end.

Record TArgs : Type := mkTA {
  ta_map : list string;                 (* lines of the map file *)
  ta_computer : option string;
  ta_preprocess : option string;
  ta_postprocess : option string;
  ta_channel : Z;
  ta_seed : option Z;
  ta_prefix : string;
  ta_suffix : string;
  ta_manifest : option (list string);   (* lines already in the manifest file *)
}.

Inductive TResult (L : Lib) : Type :=
| TExit (code : Z) (disk : list (string * Feat L)) (manifest_appended : list string)
| TExc (e : exn) (disk : list (string * Feat L)) (manifest_appended : list string).
Arguments TExit {L}. Arguments TExc {L}.

(* the file one returned item goes to *)
Definition file_of {L : Lib} (prefix suffix : string) (uf : string * Feat L) : string * Feat L :=
  ((prefix ++ fst uf ++ suffix)%string, snd uf).

Fixpoint conv_all {A B : Type} (f : A -> option B) (l : list A) : option (list B) :=
  match l with
  | [] => Some []
  | a :: l' => match f a, conv_all f l' with
               | Some b, Some r => Some (b :: r)
               | _, _ => None
               end
  end.

Section TorchMain.
  Context {L : Lib}.
  Variable Cfg : Type.
  Variable fs : string -> option string.
  Variable load : string -> option Cfg.
  Variable shape : Cfg -> CfgShape Cfg.
  Variable build_comp : Cfg -> Build (Comp L).
  Variable build_pre : Cfg -> Build (Pre L).
  Variable build_post : Cfg -> Build (Post L).
  Variable read_signal : string -> string -> option (Arr (Sig L)).
  Variable sig_len : Sig L -> Z.

  (* the loop over the loader, lines 607-616: items in order, one file each *)
  Fixpoint torch_save_loop (ds : TDataset L) (prefix suffix : string) (with_manifest : bool)
           (n : nat) (idx : Z) (r : Rng L)
           (disk : list (string * Feat L)) (mani : list string) : TResult L :=
    match n with
    | O => TExit 0 disk mani
    | S n' =>
      match torch_item read_signal sig_len ds idx r with
      | TRaise e => TExc e disk mani
      | TReturn utt_id feats =>
        torch_save_loop ds prefix suffix with_manifest n' (idx + 1) r
          (disk ++ [((prefix ++ utt_id ++ suffix)%string, feats)])
          (if with_manifest then mani ++ [utt_id] else mani)
      end
    end.

  Definition torch_dataset (a : TArgs) (seed : Z) (utt2path_all : list (string * string))
             (pre : list (PtPre L)) (comp : option (PtComp L)) (post : list (PtPost L)) : TDataset L :=
    let utt2path := match ta_manifest a with
                    | Some lines => manifest_filter lines utt2path_all
                    | None => utt2path_all
                    end in
    mkTD utt2path
         (map (fun kv => index_of (fst kv) (map fst utt2path_all) 0) utt2path)
         pre comp post (ta_channel a) seed.

  (* fresh_seed: np.random.randint(2^31 - 1) when --seed is absent;
     r: the state of torch's generator when the tool starts (irrelevant, see Proofs) *)
  Definition torch_main (a : TArgs) (fresh_seed : Z) (r : Rng L) : TResult L :=
    match (match ta_computer a with
           | None => Some None
           | Some s => match config_type Cfg fs load s with Some c => Some (Some c) | None => None end
           end),
          opt_config Cfg fs load (ta_preprocess a), opt_config Cfg fs load (ta_postprocess a) with
    | Some cc, Some pc, Some qc =>
      let seed := torch_seed_choice (ta_seed a) fresh_seed in
      match torch_map_loop (ta_map a) 0 [] with
      | MapExit code => TExit code [] []
      | MapRaise e => TExc e [] []
      | MapOk utt2path_all =>
        match (match cc with
               | None => Some (Some None)
               | Some c => match build_comp c with
                           | Built computer => match conv_comp computer with
                                               | Some pc => Some (Some (Some pc))
                                               | None => Some None     (* NotImplementedError *)
                                               end
                           | _ => None                                   (* the factory's exception escapes *)
                           end
               end) with
        | None => TExc ELibraryError [] []
        | Some None => TExc ENotImplementedError [] []
        | Some (Some comp) =>
          match config_elements Cfg shape pc with
          | None => TExc ELibraryError [] []
          | Some pl =>
            match build_all build_pre pl with
            | Built pres =>
              match conv_all conv_pre pres with
              | None => TExc ENotImplementedError [] []
              | Some ptpres =>
                match config_elements Cfg shape qc with
                | None => TExc ELibraryError [] []
                | Some ql =>
                  match build_all build_post ql with
                  | Built posts =>
                    let ds := torch_dataset a seed utt2path_all ptpres comp (map conv_post posts) in
                    torch_save_loop ds (ta_prefix a) (ta_suffix a) (is_some (ta_manifest a))
                                    (List.length (td_utt_path ds)) 0 r [] []
                  | _ => TExc ELibraryError [] []
                  end
                end
              end
            | _ => TExc ELibraryError [] []
            end
          end
        end
      end
    | _, _, _ => TExit 2 [] []
    end.
End TorchMain.

(** * SPECIFICATION of one stored tensor of signals-to-torch-feat-dir *)
Section TorchSpec.
  Context {L : Lib}.

  (* which 1-D signal the tool takes from what read_signal returned *)
  Inductive TSel : Type :=
  | TSelErr (e : exn)
  | TSelTake (s : Sig L).
  Definition torch_select (channel : Z) (a : Arr (Sig L)) : TSel :=
    match a with
    | A1 s => if channel =? -1 then TSelTake s else TSelErr EValueError
    | A2 chans _ =>
      let n := Zlength chans in
      if (channel =? -1) && (n >? 1) then TSelErr EValueError
      else if channel >=? n then TSelErr EValueError
      else match py_getitem chans channel with
           | Some s => TSelTake s
           | None => TSelErr EIndexError
           end
    end.

  (* pre-processor modules in order, computer module (or the raw column),
     post-processor modules in order (skipped for an utterance without frames), float32 *)
  Definition pt_features (ps : list (PtPre L)) (c : option (PtComp L)) (qs : list (PtPost L))
             (s : Sig L) (r : Rng L) : option (Feat L) :=
    let '(s', _) := fold_pre pt_pre_apply ps s r in
    let f := match c with None => raw_column s' | Some c' => pt_compute c' s' end in
    if truthy_Z (nframes f) then option_map cast32 (fold_post pt_post_apply qs f)
    else Some (cast32 f).

  (* what must be in the file of the utterance up = (utt, path) of the map m:
     the module pipeline of the selected channel of the signal read from path,
     with the generator seeded by seed + (position of the utterance in the map) *)
  Definition torch_stored (read_signal : string -> string -> option (Arr (Sig L)))
             (a : TArgs) (seed : Z) (m : list (string * string))
             (pre : list (PtPre L)) (comp : option (PtComp L)) (post : list (PtPost L))
             (up : string * string) (uf : string * Feat L) : Prop :=
    fst uf = fst up /\
    exists arr s j, nth_error m j = Some up /\ read_signal (snd up) (fst up) = Some arr /\
                    torch_select (ta_channel a) arr = TSelTake s /\
                    pt_features pre comp post s (seed_rng (seed + Z.of_nat j)) = Some (snd uf).
End TorchSpec.
