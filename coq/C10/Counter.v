(* C10 - why each ingredient of [cfg_ok] is needed: the same machine, run with
   the tool shapes the repository had before its "fix:" commits (and with other
   one-line variations), violates the property on two utterances.  Kept as a
   regression of findings D9a/D9b and as the witnesses the search tries first. *)
From Coq Require Import ZArith List Bool Lia.
From Verif Require Import C10.Model.
Import ListNotations.
Open Scope Z_scope.

Definition es2 : list (Z * list Z) := [(1, [10]); (2, [20])].
Definition wk0 := wk_round_robin 0.

(* 279fc1f^ : offsets are positions in the manifest-filtered list *)
Definition cfg_seed_work := mkcfg SeedByWorkIndex true [LSave; LPrint true] true true StripAll.
Lemma seed_by_work_index_resume_differs_l :
  exists seed es h, NoDup (map fst es) /\
    ~ same_dir (full_run cfg_seed_work seed es wk0 (after_hist cfg_seed_work seed es disk0 h))
               (full_run cfg_seed_work seed es wk0 disk0).
Proof.
  exists 7, es2, [(5%nat, Hard, 0%nat)]. split.
  - repeat constructor; simpl; intuition discriminate.
  - intros H. specialize (H 2). vm_compute in H. discriminate.
Qed.

(* e001deb^ : print(utt_id, file=manifest) without flush *)
Definition cfg_no_flush := mkcfg SeedByMapIndex true [LSave; LPrint false] true true StripAll.
Lemma no_flush_hard_kill_loses_manifest_l :
  exists seed es n u,
    let sched := seq_ops cfg_no_flush (delivered cfg_no_flush seed es wk0 disk0) in
    In u (removelast (completed (firstn n sched))) /\
    ~ In u (d_manifest (crash cfg_no_flush disk0 sched n Hard)).
Proof.
  exists 7, es2, 8%nat, 1. split; vm_compute; [left; reflexivity | intros []].
Qed.

(* manifest line printed before the file is saved *)
Definition cfg_print_first := mkcfg SeedByMapIndex true [LPrint true; LSave] true true StripAll.
Lemma print_before_save_lists_incomplete_l :
  exists seed es n k u,
    let d := crash_seq cfg_print_first seed es wk0 disk0 n k in
    In u (d_manifest d) /\ file_at (d_files d) u = Some Partial.
Proof.
  exists 7, es2, 4%nat, Hard, 1. split; vm_compute; [left; reflexivity | reflexivity].
Qed.

(* __getitem__ without torch.manual_seed: the feature depends on which process
   computed the item and on what it computed before *)
Definition cfg_no_reseed := mkcfg SeedByMapIndex true [LSave; LPrint true] true false StripAll.
Lemma no_reseed_workers_matter_l :
  exists seed es, delivered cfg_no_reseed seed es (wk_round_robin 0) disk0
               <> delivered cfg_no_reseed seed es (wk_round_robin 2) disk0.
Proof. exists 7, es2. vm_compute. intros H. discriminate. Qed.

(* manifest opened "w+": listed utterances are recomputed *)
Definition cfg_truncate := mkcfg SeedByMapIndex true [LSave; LPrint true] false true StripAll.
Lemma truncating_manifest_recomputes_l :
  exists seed es d n u,
    d = full_run cfg_truncate seed es wk0 disk0 /\ In u (d_manifest d) /\
    In u (s_computed (crash_state cfg_truncate d
                        (seq_ops cfg_truncate (delivered cfg_truncate seed es wk0 d)) n)).
Proof.
  exists 7, es2, (full_run cfg_truncate 7 es2 wk0 disk0), 1%nat, 1.
  split; [reflexivity|]. split; vm_compute; left; reflexivity.
Qed.

(* manifest not consulted *)
Definition cfg_no_filter := mkcfg SeedByMapIndex false [LSave; LPrint true] true true StripAll.
Lemma unfiltered_work_list_rewrites_l :
  exists seed es d n u,
    d = full_run cfg_no_filter seed es wk0 disk0 /\ In u (d_manifest d) /\
    In u (s_saved (crash_state cfg_no_filter d
                     (seq_ops cfg_no_filter (delivered cfg_no_filter seed es wk0 d)) n)).
Proof.
  exists 7, es2, (full_run cfg_no_filter 7 es2 wk0 disk0), 2%nat, 1.
  split; [reflexivity|]. split; vm_compute; left; reflexivity.
Qed.

(* the CURRENT shape (line.strip() on manifest lines) with an id that ends in a
   whitespace character other than " " (encoded as a negative id, see Model.v):
   its manifest line is read back as a DIFFERENT id.  Map "a\\t", "a", "b";
   the run is killed after the first utterance; the resumed run never computes
   "a" (popped by the stripped line) and recomputes "a\\t". *)
Definition cfg_strip_all := mkcfg SeedByMapIndex true [LSave; LPrint true] true true StripAll.
Definition es_ws : list (Z * list Z) := [(-1, [10]); (1, [20]); (2, [30])].
Lemma whitespace_id_resume_differs_l :
  exists seed es h, NoDup (map fst es) /\
    ~ same_dir (full_run cfg_strip_all seed es wk0 (after_hist cfg_strip_all seed es disk0 h))
               (full_run cfg_strip_all seed es wk0 disk0).
Proof.
  exists 7, es_ws, [(5%nat, Hard, 0%nat)]. split.
  - repeat constructor; simpl; intuition discriminate.
  - intros H. specialize (H 1). vm_compute in H. discriminate.
Qed.

Lemma whitespace_id_recomputed_l :
  exists seed es d n u,
    d = full_run cfg_strip_all seed es wk0 disk0 /\ In u (d_manifest d) /\
    In u (s_saved (crash_state cfg_strip_all d
                     (seq_ops cfg_strip_all (delivered cfg_strip_all seed es wk0 d)) n)).
Proof.
  exists 7, [(-1, [10])], (full_run cfg_strip_all 7 [(-1, [10])] wk0 disk0), 2%nat, (-1).
  split; [reflexivity|]. split; vm_compute; left; reflexivity.
Qed.

(* manifest lines looked up with their terminator: nothing is ever recognised *)
Definition cfg_no_strip := mkcfg SeedByMapIndex true [LSave; LPrint true] true true NoStrip.
Lemma unstripped_lines_recompute_l :
  exists seed es d n u,
    d = full_run cfg_no_strip seed es wk0 disk0 /\ In u (d_manifest d) /\
    In u (s_saved (crash_state cfg_no_strip d
                     (seq_ops cfg_no_strip (delivered cfg_no_strip seed es wk0 d)) n)).
Proof.
  exists 7, es2, (full_run cfg_no_strip 7 es2 wk0 disk0), 2%nat, 1.
  split; [reflexivity|]. split; vm_compute; left; reflexivity.
Qed.
